import Sudachi.Model.ParamsCfg
import Sudachi.Model.Codec
/-!
# C20, the reader of the grammar section: where the matrix dimensions come from

Every range check of C20 compares an id with `conn_matrix().num_left()` / `num_right()`.  These two
numbers, the number of cells behind them and the POS list are produced by `Grammar::parse`
(`dic/grammar.rs`) + `ConnectionMatrix::from_offset_size` (`dic/connect.rs`) +
`CowArray::from_bytes` (`util/cow_array.rs`) from the bytes of the binary dictionary:

```text
let (rest, (pos_list, left_id_size, right_id_size)) = grammar_parser(buf, offset)?;   // u16 count, count x 6 strings, le_i16, le_i16
let connect_table_offset = buf.len() - rest.len();
let storage_size = (connect_table_offset - offset) + 2 * left_id_size as usize * right_id_size as usize;
ConnectionMatrix::from_offset_size(buf, connect_table_offset, left_id_size as usize, right_id_size as usize)?
    // size = num_left * num_right; end = offset + size; if end > data.len() { Err }   (ELEMENTS against BYTES)
    // CowArray::from_bytes: real_size = size * 2; &data[offset..offset + real_size]    (checked slice)
```

The header numbers are `i16`; `as usize` sign-extends a negative one to `2^64 - k`.  All products and
sums are `usize` arithmetic: a panic with overflow checks (debug build), wrap-around without.  The
POS list reader (`u16` count, `count(count(utf16_string_parser, POS_DEPTH), n)`) is C05's
transcription (`Codec.posListParser`), reused.
-/
namespace Params
open Outcome

/-- `x * y` in `usize` -/
def wmul (dbg : Bool) (a b : Nat) : Outcome Nat :=
  if a * b < TWO64 then ok (a * b) else if dbg then crash else ok (a * b % TWO64)

/-- `x + y` in `usize` -/
def wadd (dbg : Bool) (a b : Nat) : Outcome Nat :=
  if a + b < TWO64 then ok (a + b) else if dbg then crash else ok ((a + b) % TWO64)

/-- `le_i16` followed by `as usize`, on the raw `u16` -/
def i16AsUsize (u : Nat) : Nat := if u < 32768 then u else u + (TWO64 - 65536)

/-- the `i16` elements a `CowArray<i16>` of `n` elements exposes over these bytes -/
def readI16s : Nat → Codec.Bytes → List Int
  | 0, _ => []
  | n + 1, a :: b :: r => Codec.u16ToI (a + 256 * b) :: readI16s n r
  | _ + 1, _ => []

/-- what `Grammar::parse` returns, as far as C20 is concerned -/
structure GParsed where
  pos : List (List Codec.Str)
  /-- the two header numbers as stored (`u16` reading of the `i16`) -/
  rawL : Nat
  rawR : Nat
  /-- `num_left`, `num_right` -/
  nl : Nat
  nr : Nat
  connOff : Nat
  /-- `data` of the `ConnectionMatrix` -/
  cells : List Int
  storage : Nat
deriving Repr, DecidableEq

/-- `Grammar::parse(buf, offset)`.  `hdr` = the repair `fix_grammar_header.patch` (a negative header number
is `InvalidDictionaryGrammar` before anything is computed from it, and `from_offset_size` compares
`offset + size * 2` — bytes — with the length of the buffer); `hdr = false` is the tree as it stands. -/
def grammarParse (hdr dbg : Bool) (buf : Codec.Bytes) (offset : Nat) : Outcome GParsed :=
  if buf.length < offset then err .grammar else       -- take(offset)
  match Codec.posListParser (buf.drop offset) with
  | none => err .grammar
  | some (pos, r1) =>
    match Codec.leU16 r1 with
    | none => err .grammar
    | some (hl, r2) =>
      match Codec.leU16 r2 with
      | none => err .grammar
      | some (hr, rest) =>
        let L := i16AsUsize hl
        let R := i16AsUsize hr
        let connOff := buf.length - rest.length
        if hdr && (decide (hl ≥ 32768) || decide (hr ≥ 32768)) then err .grammar else
        -- storage_size: `2 * L * R` is `(2 * L) * R`
        (wmul dbg 2 L).bind (fun t =>
        (wmul dbg t R).bind (fun t2 =>
        (wadd dbg (connOff - offset) t2).bind (fun storage =>
        -- ConnectionMatrix::from_offset_size
        (wmul dbg L R).bind (fun size =>
        (if hdr then (wmul dbg size 2).bind (fun s2 => wadd dbg connOff s2) else wadd dbg connOff size).bind (fun end_ =>
        if end_ > buf.length then err .grammar else
        -- CowArray::from_bytes
        (wmul dbg size 2).bind (fun realSize =>
        (wadd dbg connOff realSize).bind (fun e2 =>
        if connOff > e2 || e2 > buf.length then crash            -- `&data[offset..offset + real_size]`
        else if realSize != 2 * size then ub                     -- `from_raw_parts(ptr, size)` over fewer bytes
        else ok ⟨pos, hl, hr, L, R, connOff, readI16s size (buf.drop connOff), storage⟩)))))))

def posOfCodec (p : List Codec.Str) : Pos := p.map (fun s => s.map Char.ofNat)

/-- the grammar the plugins are set up against -/
def GParsed.grammar (g : GParsed) : Grammar := ⟨g.pos.map posOfCodec, ⟨g.nl, g.nr, g.cells⟩⟩

/-! ## wire -/

def showCell : Option Int → String
  | some c => toString c
  | none => "-"

/-- `C20 gparse hdr=<0|1> dbg=<0|1> off=<n> buf=<hex>` -/
def handleGParse (toks : List (List Char)) : String :=
  match Wire.kv? toks "dbg", Wire.kv? toks "off", Wire.kv? toks "buf", Wire.kv? toks "hdr" with
  | some dbg, some off, some buf, some hdr =>
    match Wire.nat? off, (if buf.isEmpty then some [] else Wire.hexBytes? buf) with
    | some off, some buf =>
      showOutcome (fun (g : GParsed) =>
        let probes := g.nl > 0 && g.nr > 0 && g.nl ≤ 65536 && g.nr ≤ 65536
        "ok npos=" ++ toString g.pos.length ++ " nl=" ++ toString g.nl ++ " nr=" ++ toString g.nr ++
        " storage=" ++ toString g.storage ++
        " first=" ++ (if probes then showCell g.cells[0]? else "-") ++
        " last=" ++ (if probes then showCell g.cells[(g.nr - 1) * g.nl + (g.nl - 1)]? else "-") ++
        " pos=" ++ Wire.joinWith ";" (g.pos.map (fun p => Wire.joinWith "," (p.map (fun s => toString s.length)))))
        (grammarParse (hdr == ['1']) (dbg == ['1']) buf off)
    | _, _ => "bad-op"
  | _, _, _, _ => "bad-op"

def handle3 (op : List Char) (toks : List (List Char)) : String :=
  if op == "gparse".toList then handleGParse toks else handle2 op toks

end Params
