import Sudachi.Model.Build
import Sudachi.Model.BuildIO
import Sudachi.Model.Codec
import Sudachi.Model.CodecBuild
/-!
# The dictionary a successful `compile` emits, as the file C05's loader reads (C06, last clause)

C06's builder model (`Model/Build.lean`) keeps the SIZES of what `DictBuilder::compile` writes (a script
of `write n` steps); C05's model (`Model/CodecBuild.lean`) keeps the BYTES (`Codec.compile`) and has the
loader (`Codec.readAny`, `Lexicon.getParams`, `Lexicon.getWordInfo`).  This file is the bridge: the
state a successful `Build.compile` returns (`Build.Dict`: entries, POS table, matrix with its content,
sizes the ids were validated against) is translated into C05's builder state (`Codec.CompileInput`),
`Codec.compile` writes the file and `Codec.readSystem` / `readUser` loads it.

The things C06's model does not keep because nothing in the builder depends on them are parameters
(`Aux`): creation time, the description bytes (C06 keeps their number), the trie blob of the external
`yada` builder (C06 keeps its length) and the code variant of `write_word_info` (`storeDf`, D8).

The driver executes the composition on every successful case (`loadToken`): loader outcome, number of
words, POS rows, matrix dimensions, file length, the parameters of every word and the outcome class of
`get_word_info` for every word are printed next to the builder's answer and compared with the real
`DictionaryLoader` on the bytes the real `compile` emitted.
-/
namespace BuildLoad
open Build

/-- a Rust `String` as C05 keeps it: the Unicode scalar values -/
def str (s : Build.Str) : Codec.Str := s.map Char.toNat

/-- a split unit of a compiled dictionary is a word id (`compile` refuses inline units; the second
branch is unreachable after a successful `compile`: `C06.compile_valid_refs`) -/
def unitRaw : SplitUnit → Nat
  | .ref w => w
  | .inline .. => Codec.INVALID_WID

def entry (e : Build.Entry) : Codec.Entry :=
  { left := e.left, right := e.right, cost := e.cost, surface := str e.surface,
    headword := e.headword.map str, dicForm := e.dicForm, normForm := e.normForm.map str, pos := e.pos,
    splitsA := e.splitsA.map unitRaw, splitsB := e.splitsB.map unitRaw, reading := e.reading.map str,
    wordStructure := e.wordStructure, synonyms := e.synonyms }

/-- the matrix buffer `ConnBuffer::write_to` writes: one little-endian `i16` per cell, cell `i` holding the
last cost written to it (`Conn.cell`), 0 when none was -/
def matrixBytes (c : Build.Conn) : Codec.Bytes :=
  (List.range (c.nl.toNat * c.nr.toNat)).flatMap (fun i => Codec.le16 (Codec.i16ToU (c.cell i)))

def conn (c : Build.Conn) : Codec.Conn :=
  { matrix := matrixBytes c, numLeft := c.nl, numRight := c.nr }

/-- what `compile` writes besides the builder state C06 models -/
structure Aux where
  /-- `set_compile_time` (seconds) -/
  time : Nat
  /-- UTF-8 bytes of the description -/
  desc : Codec.Bytes
  /-- output of the external trie builder -/
  trie : Codec.Bytes
  /-- code variant of `write_word_info` (`Codec.storeDf`) -/
  dfFix : Bool

/-- the builder state of C05's model for a dictionary C06's `compile` accepted; `startPos` = number of POS
rows the builder started from (`Base.pos0`: the system dictionary's for a user dictionary) -/
def toCodec (d : Dict) (startPos : Nat) (a : Aux) : Codec.CompileInput :=
  { user := d.numSystem.isSome, dfFix := a.dfFix, dfOwn := false, time := a.time, desc := a.desc,
    pos := d.pos.map (fun k => k.map str), startPos := startPos, conn := conn d.conn,
    entries := d.entries.map entry, maxLeft := d.maxLeft, maxRight := d.maxRight,
    numSystem := d.numSystem, trie := a.trie }

/-- `DictionaryLoader::read_system_dictionary` / `read_user_dictionary` on the file -/
def loadFile (user : Bool) (bytes : Codec.Bytes) : Codec.Outcome Codec.Loaded :=
  if user then Codec.readUser bytes 0 else Codec.readSystem bytes 0

def outcomeTag {α : Type} : Codec.Outcome α → String
  | .ok _ => "o"
  | .err _ => "e"
  | .panic _ => "P"

/-- what the composed model predicts about loading the emitted dictionary:
`load=ok:w<words>:p<POS rows>:<left>x<right>:b<file length> par=<l.r.c;…> wi=<o|e|P per word>` -/
def loadToken (dfFix : Bool) (base : Base) (descLen trieLen : Nat) (d : Dict) : String :=
  let c := toCodec d base.pos0.length ⟨0, List.replicate descLen 97, List.replicate trieLen 0, dfFix⟩
  match Codec.compile c with
  | .err k => " load=model-err:" ++ k
  | .panic w => " load=model-panic:" ++ w
  | .ok bytes =>
    match loadFile c.user bytes with
    | .err _ => " load=err"
    | .panic _ => " load=PANIC"
    | .ok ld =>
      let (np, dims) := match ld.grammar with
        | some g => (toString g.posList.length, toString g.numLeft ++ "x" ++ toString g.numRight)
        | none => ("-", "-")
      let ws := List.range ld.lexicon.size
      let par := ws.map (fun i =>
        match ld.lexicon.getParams i with
        | .ok (l, r, k) => toString l ++ "." ++ toString r ++ "." ++ toString k
        | .err _ => "err"
        | .panic _ => "PANIC")
      let wi := ws.map (fun i => outcomeTag (ld.lexicon.getWordInfo i))
      " load=ok:w" ++ toString ld.lexicon.size ++ ":p" ++ np ++ ":" ++ dims ++ ":b" ++ toString bytes.length
        ++ " par=" ++ (if par.isEmpty then "-" else Wire.joinWith ";" par)
        ++ " wi=" ++ (if wi.isEmpty then "-" else String.join wi)

/-- `C06 build … df=<cur|fix>`: the builder's answer (`Build.handleWith`) followed, for a successful compile,
by the load prediction -/
def handle (toks : List (List Char)) : String :=
  let dfFix := Wire.kv? toks "df" == some "fix".toList
  Build.handleWith (fun base descLen trieLen o =>
    match o with
    | .ok _ _ d => loadToken dfFix base descLen trieLen d
    | _ => "") toks

end BuildLoad
