import Sudachi.Model.Wire
/-!
# Model of A/B splitting (property C09)

Anchors:
* `analysis/node.rs`: `ResultNode::num_splits`, `ResultNode::split`, `NodeSplitIterator::next`
* `analysis/stateless_tokenizer.rs`: `split_path`
* `analysis/mlist.rs`: `MorphemeList::split_into` (`assign_input`: the output list shares the
  parent's input buffer, so the same offset tables are used; the units are read with the LIST's
  subset, which `collect_results` copies from the tokenizer), `MorphemeList::lookup` (nodes read with
  the subset of the call, the list's own subset left as it was — variant `LookupV`)
* `analysis/stateful_tokenizer.rs`: `create`, `set_mode`, `set_subset`, `resolve_best_path` (word
  info of a path node is loaded with the tokenizer's subset; its BYTE range is computed from its
  character range: `to_curr_byte_idx(begin/end) as u16` = `mod_c2b[·]`)
* `dic/subset.rs`: `InfoSubset::normalize`
* `dic/read/word_info.rs`: `WordInfoParser::parse` (early exit when the requested set is exhausted,
  "light" fields are read unconditionally when reached)
* `dic/lexicon_set.rs`: `get_word_info_subset`, `update_dict_id`
* `dic/word_id.rs`: `WordId::{new, checked, dic, word}`
* `dic/build/lexicon.rs`: `write_word_info` stores `surface.len()` (the KEY's byte length) as
  `head_word_length` and the split ids as parsed (`U<n>` ↦ dictionary 1) — entered as data
  (`Entry`), computed by the harness from the CSV rows.
* `analysis/morpheme.rs`: `begin`/`end` (`to_orig_byte_idx`: the character route) and `surface`
  (`orig_slice(bytes_range)`: the byte route, with the two `is_char_boundary` debug assertions).

* `analysis/node.rs`: `concat_nodes` (JoinNumericPlugin) and `concat_oov_nodes`
  (JoinKatakanaOovPlugin) on the fields splitting observes: the joined node takes the character and
  byte range of the first/last part, a new word id (`WordId::INVALID` resp. the largest id of the
  parts re-based to word number `MAX_WORD`), `head_word_length` = the sum of the parts' (u16) and
  `..Default::default()` for everything else — in particular NO split units, whatever the parts declare.
  WHICH runs are joined is C14/C15's subject and enters as data (the grouping observed on the real
  paths of dictionaries loaded with 0, 1 and all path-rewrite plugins).
* `analysis/mlist.rs`: the deprecated `MorphemeList::split` / `Morpheme::split` (the units, or the
  node itself when nothing was split).

Only the fields that splitting observes are kept: key byte length and the two split lists.
-/
namespace Split

/-! ## outcomes -/

inductive Outcome (α : Type) where
  | ok (a : α)
  | err (kind : String)
  | panic (why : String)
deriving Repr, DecidableEq

def Outcome.bind {α β : Type} (x : Outcome α) (f : α → Outcome β) : Outcome β :=
  match x with
  | .ok a => f a
  | .err k => .err k
  | .panic w => .panic w

instance : Monad Outcome where
  pure := Outcome.ok
  bind := Outcome.bind

inductive Mode where
  | A | B | C
deriving Repr, DecidableEq

/-! ## `InfoSubset` (a set of field numbers = bit positions) -/

abbrev Subset := List Nat

def SURFACE : Nat := 0
def HEAD_WORD_LENGTH : Nat := 1
def POS_ID : Nat := 2
def NORMALIZED_FORM : Nat := 3
def DIC_FORM_WORD_ID : Nat := 4
def READING_FORM : Nat := 5
def SPLIT_A : Nat := 6
def SPLIT_B : Nat := 7
def WORD_STRUCTURE : Nat := 8
def SYNONYM_GROUP_ID : Nat := 9

def Subset.all : Subset := [0, 1, 2, 3, 4, 5, 6, 7, 8, 9]

def toBits (s : Subset) : Nat :=
  (List.range 10).foldl (fun acc i => if i ∈ s then acc + 2 ^ i else acc) 0

def ofBits (n : Nat) : Subset := (List.range 10).filter (fun i => n.testBit i)

/-- `InfoSubset::normalize` -/
def normalize (s : Subset) : Subset :=
  let s1 := if READING_FORM ∈ s ∨ NORMALIZED_FORM ∈ s ∨ DIC_FORM_WORD_ID ∈ s then SURFACE :: s else s
  if SPLIT_A ∈ s1 ∨ SPLIT_B ∈ s1 then HEAD_WORD_LENGTH :: s1 else s1

/-- the `match mode { A => SPLIT_A, B => SPLIT_B, _ => empty }` of `set_mode` / `set_subset` -/
def modeSubset : Mode → Subset
  | .A => [SPLIT_A]
  | .B => [SPLIT_B]
  | .C => []

/-- the two fields of `StatefulTokenizer` that splitting depends on -/
structure Tok where
  subset : Subset
  mode : Mode
deriving Repr

/-- `StatefulTokenizer::create`: `subset: InfoSubset::all()` -/
def create (m : Mode) : Tok := ⟨Subset.all, m⟩

/-- `set_mode`: `self.subset |= …; replace(&mut self.mode, mode)` (no `normalize`) -/
def setMode (t : Tok) (m : Mode) : Tok × Mode := (⟨t.subset ++ modeSubset m, m⟩, t.mode)

/-- `set_subset`: `new = (subset | mode_subset).normalize(); replace(&mut self.subset, new | mode_subset)` -/
def setSubset (t : Tok) (s : Subset) : Tok × Subset :=
  let ms := modeSubset t.mode
  let ns := normalize (s ++ ms)
  (⟨ns ++ ms, t.mode⟩, t.subset)

/-! ## word ids -/

def WORD_MASK : Nat := 268435455          -- 0x0fff_ffff
def DIC_SHIFT : Nat := 268435456          -- 1 << 28

/-- `WordId::dic` (`raw >> 28`, raw is a u32) -/
def dicOf (raw : Nat) : Nat := raw / DIC_SHIFT
/-- `WordId::word` -/
def wordOf (raw : Nat) : Nat := raw % DIC_SHIFT
/-- `WordId::new` (under its debug assertions) -/
def mkId (dic word : Nat) : Nat := dic * DIC_SHIFT + word

/-- `WordId::checked` -/
def checkedId (dic word : Nat) : Outcome Nat :=
  if dic ≥ 16 then .err "TooLargeDictionaryId"
  else if word > WORD_MASK then .err "TooLargeWordId"
  else .ok (mkId dic word)

/-- `WordId::is_oov` -/
def isOov (raw : Nat) : Bool := dicOf raw == 15

/-! ## stored word info and the reader -/

/-- what the binary dictionary stores for one word (fields observed by splitting) -/
structure Entry where
  hwl : Nat            -- byte length of the KEY (column 0 of the CSV row)
  a : List Nat         -- split ids as written by the builder (`U<n>` ↦ dictionary 1)
  b : List Nat
deriving Repr, DecidableEq

/-- loaded `WordInfo` (fields observed by splitting); `Default` = all empty -/
structure Info where
  hwl : Nat
  a : List Nat
  b : List Nat
deriving Repr, DecidableEq

def Info.empty : Info := ⟨0, [], []⟩

/-- lexicons of the `LexiconSet`: index 0 = system dictionary -/
abbrev Lex := List (List Entry)

/-- fields of the binary word info in order, `true` = "heavy" (six-parameter `parse_field!`:
read if requested else skipped), `false` = "light" (always read when reached) -/
def fieldOrder : List (Nat × Bool) :=
  [(0, true), (1, false), (2, false), (3, true), (4, false), (5, true), (6, true), (7, true), (8, true), (9, true)]

/-- `WordInfoParser::parse`: which fields end up written.  Every step first returns when the set of
still-requested fields is empty. -/
def parseGo : List (Nat × Bool) → Subset → List Nat
  | [], _ => []
  | (f, heavy) :: rest, flds =>
    if flds.isEmpty then []
    else if heavy then
      (if f ∈ flds then f :: parseGo rest (flds.filter (· ≠ f)) else parseGo rest flds)
    else f :: parseGo rest (flds.filter (· ≠ f))

def readFields (s : Subset) : List Nat := parseGo fieldOrder s

/-- `LexiconSet::update_dict_id` -/
def updateDictId : List Nat → Nat → Outcome (List Nat)
  | [], _ => .ok []
  | id :: rest, dictId =>
    if dicOf id > 0 then
      match checkedId dictId (wordOf id) with
      | .ok id' =>
        match updateDictId rest dictId with
        | .ok r => .ok (id' :: r)
        | .err k => .err k
        | .panic w => .panic w
      | .err k => .err k
      | .panic w => .panic w
    else
      match updateDictId rest dictId with
      | .ok r => .ok (id :: r)
      | .err k => .err k
      | .panic w => .panic w

/-- `LexiconSet::get_word_info_subset` restricted to the observed fields -/
def getWordInfoSubset (lex : Lex) (id : Nat) (s : Subset) : Outcome Info :=
  let d := dicOf id
  match lex[d]? with
  | none => .panic "lexicons[dict_id]: index out of bounds"
  | some l =>
    match l[wordOf id]? with
    | none => .panic "word id outside the offset table"
    | some e =>
      let rd := readFields s
      let a0 := if SPLIT_A ∈ rd then e.a else []
      let b0 := if SPLIT_B ∈ rd then e.b else []
      let h := if HEAD_WORD_LENGTH ∈ rd then e.hwl else 0
      match (if SPLIT_A ∈ s then updateDictId a0 d else .ok a0) with
      | .ok a1 =>
        match (if SPLIT_B ∈ s then updateDictId b0 d else .ok b0) with
        | .ok b1 => .ok ⟨h, a1, b1⟩
        | .err k => .err k
        | .panic w => .panic w
      | .err k => .err k
      | .panic w => .panic w

/-! ## nodes -/

/-- `ResultNode` (ranges in the rewritten text: characters `cb..ce`, bytes `bb..be`) -/
structure Node where
  cb : Nat
  ce : Nat
  bb : Nat
  be : Nat
  wid : Nat
  info : Info
deriving Repr, DecidableEq

/-- `as u16` -/
def asU16 (x : Nat) : Nat := x % 65536

/-- a path element as observed on the mode C result: character range and word id; `syn` = the word
info was synthesised (OOV node of `resolve_best_path`, node made by `concat_nodes` /
`concat_oov_nodes`).  The byte range is NOT entered: the model computes it as the code does. -/
structure RawNode where
  cb : Nat
  ce : Nat
  wid : Nat
  syn : Bool
deriving Repr

/-- `InputBuffer::to_curr_byte_idx(i) as u16` = `mod_c2b[i] as u16` (index panic explicit) -/
def currByteIdx (c2b : List Nat) (i : Nat) : Outcome Nat :=
  match c2b[i]? with
  | none => .panic "mod_c2b: index out of bounds"
  | some b => .ok (asU16 b)

/-- one iteration of `resolve_best_path`: word info (`Default` for OOV / synthesised nodes, else
read with the tokenizer's subset, `?` propagates an error), then
`byte_begin = to_curr_byte_idx(inner.begin())`, `byte_end = to_curr_byte_idx(inner.end())`.
(`concat_nodes` / `concat_oov_nodes` copy the byte range of the first and last joined node, which
is again `mod_c2b` of the character range.) -/
def resolveNode (lex : Lex) (s : Subset) (c2b : List Nat) (r : RawNode) : Outcome Node :=
  let info : Outcome Info :=
    if r.syn || isOov r.wid then .ok Info.empty else getWordInfoSubset lex r.wid s
  match info with
  | .ok i =>
    match currByteIdx c2b r.cb with
    | .ok bb =>
      match currByteIdx c2b r.ce with
      | .ok be => .ok ⟨r.cb, r.ce, bb, be, r.wid, i⟩
      | .err k => .err k
      | .panic w => .panic w
    | .err k => .err k
    | .panic w => .panic w
  | .err k => .err k
  | .panic w => .panic w

def resolvePath (lex : Lex) (s : Subset) (c2b : List Nat) : List RawNode → Outcome (List Node)
  | [] => .ok []
  | r :: rest =>
    match resolveNode lex s c2b r with
    | .ok n =>
      match resolvePath lex s c2b rest with
      | .ok ns => .ok (n :: ns)
      | .err k => .err k
      | .panic w => .panic w
    | .err k => .err k
    | .panic w => .panic w

/-! ## nodes made by the path-rewrite plugins (`concat_nodes`, `concat_oov_nodes`) -/

/-- which helper made a joined node: `concat_nodes` (JoinNumericPlugin) or `concat_oov_nodes`
(JoinKatakanaOovPlugin) -/
inductive JoinKind where
  | num | kata
deriving Repr, DecidableEq

/-- `WordId::INVALID` -/
def INVALID_ID : Nat := 4294967295

/-- the loop `head_word_length += data.head_word_length` (a `u16`; the harness is built with overflow
checks, so an overflow panics — a release build would wrap) -/
def sumHwl : List Node → Nat → Outcome Nat
  | [], acc => .ok acc
  | n :: rest, acc =>
    if acc + n.info.hwl ≥ 65536 then .panic "attempt to add with overflow"
    else sumHwl rest (acc + n.info.hwl)

/-- `concat_oov_nodes`: `wid = wid.max(node.word_id())` starting from `WordId::from_raw(0)`, then
`WordId::new(wid.dic(), WordId::MAX_WORD)` unless the largest id is an OOV id -/
def kataWid (parts : List Node) : Nat :=
  let w := parts.foldl (fun acc n => max acc n.wid) 0
  if isOov w then w else mkId (dicOf w) WORD_MASK

def joinWid (k : JoinKind) (parts : List Node) : Nat :=
  match k with
  | .num => INVALID_ID
  | .kata => kataWid parts

/-- `concat_nodes(path, begin, end, _)` / `concat_oov_nodes(path, begin, end, _)` on `parts =
path[begin..end]`: `begin >= end` is `Err(InvalidRange)`; the new node runs from the first part's
begin (`as u16`) to the last part's end, bytes likewise (copied, already u16); word info =
`{surface.., head_word_length: Σ, pos_id, .., ..Default::default()}`: both split lists EMPTY. -/
def joinNodes (k : JoinKind) (parts : List Node) : Outcome Node :=
  match parts, parts.getLast? with
  | first :: _, some last =>
    match sumHwl parts 0 with
    | .ok h => .ok ⟨asU16 first.cb, asU16 last.ce, first.bb, last.be, joinWid k parts, ⟨h, [], []⟩⟩
    | .err e => .err e
    | .panic w => .panic w
  | _, _ => .err "InvalidRange"

/-- an element of the path after the FIRST path-rewrite plugin: a node of `resolve_best_path` left
alone (`k = none`, one part) or the parts the plugin joined -/
structure G1 where
  k : Option JoinKind
  parts : List RawNode
deriving Repr

/-- an element of the path after the SECOND path-rewrite plugin (its parts are elements of the path
after the first one) -/
structure G2 where
  k : Option JoinKind
  parts : List G1
deriving Repr

/-- a group that was left alone is its only member; a joined group is `joinNodes` of its members -/
def closeGroup (k : Option JoinKind) (ns : List Node) : Outcome Node :=
  match k with
  | some k => joinNodes k ns
  | none =>
    match ns with
    | [n] => .ok n
    | _ => .err "bad-group"

def resolveG1 (lex : Lex) (s : Subset) (c2b : List Nat) (g : G1) : Outcome Node :=
  match resolvePath lex s c2b g.parts with
  | .ok ns => closeGroup g.k ns
  | .err k => .err k
  | .panic w => .panic w

def resolveG1s (lex : Lex) (s : Subset) (c2b : List Nat) : List G1 → Outcome (List Node)
  | [] => .ok []
  | g :: rest =>
    match resolveG1 lex s c2b g with
    | .ok n =>
      match resolveG1s lex s c2b rest with
      | .ok ns => .ok (n :: ns)
      | .err k => .err k
      | .panic w => .panic w
    | .err k => .err k
    | .panic w => .panic w

def resolveG2 (lex : Lex) (s : Subset) (c2b : List Nat) (g : G2) : Outcome Node :=
  match resolveG1s lex s c2b g.parts with
  | .ok ns => closeGroup g.k ns
  | .err k => .err k
  | .panic w => .panic w

/-- `resolve_best_path` followed by the path-rewrite plugins (the joins entered as grouping) -/
def resolveGroups (lex : Lex) (s : Subset) (c2b : List Nat) : List G2 → Outcome (List Node)
  | [] => .ok []
  | g :: rest =>
    match resolveG2 lex s c2b g with
    | .ok n =>
      match resolveGroups lex s c2b rest with
      | .ok ns => .ok (n :: ns)
      | .err k => .err k
      | .panic w => .panic w
    | .err k => .err k
    | .panic w => .panic w

/-- a path no plugin touched -/
def plainGroups (raws : List RawNode) : List G2 := raws.map (fun r => ⟨none, [⟨none, [r]⟩]⟩)

/-- the split list of a node for a mode (`a_unit_split` / `b_unit_split`) -/
def splitsOf (n : Node) : Mode → List Nat
  | .A => n.info.a
  | .B => n.info.b
  | .C => []

/-- `ResultNode::num_splits` -/
def numSplits (n : Node) (m : Mode) : Nat := (splitsOf n m).length

/-- which `NodeSplitIterator::next` is modelled: the code as it stands, or the candidate repair of
D6 (clamp the unit end to the parent's end, snap it to a character start) -/
inductive Variant where
  | cur | d6fix
deriving Repr, DecidableEq

/-- everything `split` reads besides the node: the lexicon set, the subset word infos are loaded
with, `mod_b2c` and `mod_c2b` of the (shared) input buffer -/
structure Ctx where
  v : Variant
  lex : Lex
  s : Subset
  b2c : List Nat
  c2b : List Nat

/-- end of a non-last unit: `byte_end = byte_start + head_word_length; char_end = ch_idx(byte_end)`
(`mod_b2c[byte_end]`, panics out of range), both cast to u16.  Variant `d6fix`:
`byte_end = min(.., parent end); char_end = ch_idx(byte_end); byte_end = mod_c2b[char_end]`. -/
def unitEnd (cx : Ctx) (bo hwl bend : Nat) : Outcome (Nat × Nat) :=
  match cx.v with
  | .cur =>
    match cx.b2c[bo + hwl]? with
    | none => .panic "mod_b2c: index out of bounds"
    | some charEnd => .ok (asU16 charEnd, asU16 (bo + hwl))
  | .d6fix =>
    match cx.b2c[min (bo + hwl) bend]? with
    | none => .panic "mod_b2c: index out of bounds"
    | some charEnd =>
      match cx.c2b[charEnd]? with
      | none => .panic "mod_c2b: index out of bounds"
      | some be => .ok (asU16 charEnd, asU16 be)

/-- `NodeSplitIterator::next` until exhaustion.  `co`/`bo` = `char_offset`/`byte_offset`,
`cend`/`bend` = the parent's end.  `get_word_info_subset(..).unwrap()`: an error panics. -/
def splitGo (cx : Ctx) : List Nat → Nat → Nat → Nat → Nat → Outcome (List Node)
  | [], _, _, _, _ => .ok []
  | [wid], co, bo, cend, bend =>
    match getWordInfoSubset cx.lex wid cx.s with
    | .err k => .panic ("unwrap: " ++ k)
    | .panic w => .panic w
    | .ok info => .ok [⟨co, cend, bo, bend, wid, info⟩]
  | wid :: w2 :: rest, co, bo, cend, bend =>
    match getWordInfoSubset cx.lex wid cx.s with
    | .err k => .panic ("unwrap: " ++ k)
    | .panic w => .panic w
    | .ok info =>
      match unitEnd cx bo info.hwl bend with
      | .err k => .err k
      | .panic w => .panic w
      | .ok (ce, be) =>
        match splitGo cx (w2 :: rest) ce be cend bend with
        | .ok r => .ok (⟨co, ce, bo, be, wid, info⟩ :: r)
        | .err k => .err k
        | .panic w => .panic w

/-- `ResultNode::split(mode, …)` collected -/
def split (cx : Ctx) (n : Node) (m : Mode) : Outcome (List Node) :=
  match m with
  | .C => .panic "splitting Node with Mode::C is not supported"
  | m => splitGo cx (splitsOf n m) n.cb n.bb n.ce n.be

/-- loop body of `split_path` for one node -/
def expand (cx : Ctx) (m : Mode) (n : Node) : Outcome (List Node) :=
  if numSplits n m ≤ 1 then .ok [n] else split cx n m

def splitPathGo (cx : Ctx) (m : Mode) : List Node → Outcome (List Node)
  | [] => .ok []
  | n :: rest =>
    match expand cx m n with
    | .ok us =>
      match splitPathGo cx m rest with
      | .ok r => .ok (us ++ r)
      | .err k => .err k
      | .panic w => .panic w
    | .err k => .err k
    | .panic w => .panic w

/-- `split_path` -/
def splitPath (cx : Ctx) (m : Mode) (path : List Node) : Outcome (List Node) :=
  if m = .C then .ok path else splitPathGo cx m path

/-- `MorphemeList::split_into`: the flag and the nodes appended to `out` -/
def splitInto (cx : Ctx) (m : Mode) (n : Node) : Outcome (Bool × List Node) :=
  if numSplits n m = 0 then .ok (false, [])
  else
    match split cx n m with
    | .ok us => .ok (true, us)
    | .err k => .err k
    | .panic w => .panic w

/-- the deprecated `MorphemeList::split(mode, index)` / `Morpheme::split(mode)`: a new list with the
units, or with a copy of the node itself when `split_into` reported `false` -/
def splitDeprecated (cx : Ctx) (m : Mode) (n : Node) : Outcome (List Node) :=
  match splitInto cx m n with
  | .ok (true, us) => .ok us
  | .ok (false, _) => .ok [n]
  | .err k => .err k
  | .panic w => .panic w

/-- which `MorphemeList::lookup` is modelled: the code as it stands leaves `InputPart.subset` of the
list untouched (`cur`); the proposed repair records the subset of the call in it (`fix`) -/
inductive LookupV where
  | cur | fix
deriving Repr, DecidableEq

/-- the word infos `MorphemeList::lookup(query, subset)` reads for the matching entries (`?`
propagates an error), as nodes `0..end_chars` / bytes `0..query.len()` -/
def lookupNodes (lex : Lex) (sl : Subset) (ce be : Nat) : List Nat → Outcome (List Node)
  | [] => .ok []
  | wid :: rest =>
    match getWordInfoSubset lex wid sl with
    | .ok info =>
      match lookupNodes lex sl ce be rest with
      | .ok r => .ok (⟨0, ce, 0, be, wid, info⟩ :: r)
      | .err k => .err k
      | .panic w => .panic w
    | .err k => .err k
    | .panic w => .panic w

/-- `MorphemeList::lookup` on a list whose subset is `ls`: the nodes and the list's subset afterwards —
the subset `split_into` will read the units of these nodes with -/
def lookup (lv : LookupV) (lex : Lex) (ls sl : Subset) (ce be : Nat) (wids : List Nat) : Outcome (List Node × Subset) :=
  match lookupNodes lex sl ce be wids with
  | .ok ns => .ok (ns, match lv with | .cur => ls | .fix => sl)
  | .err k => .err k
  | .panic w => .panic w

/-- `Morpheme::begin` / `end`: `m2o[mod_c2b[char index]]` -/
def origIdx (c2b m2o : List Nat) (c : Nat) : Outcome Nat :=
  match c2b[c]? with
  | none => .panic "mod_c2b: index out of bounds"
  | some b =>
    match m2o[b]? with
    | none => .panic "m2o: index out of bounds"
    | some o => .ok o

/-- `str::is_char_boundary` of the rewritten text expressed with the tables: byte offset `i` is a
boundary iff `mod_c2b[mod_b2c[i]] = i` (the sentinel entries cover `i = len`) -/
def onBoundary (b2c c2b : List Nat) (i : Nat) : Bool :=
  match b2c[i]? with
  | none => false
  | some c => c2b[c]? == some i

/-- `Morpheme::surface` = `orig_slice(bytes_range)`: the two debug assertions (`is_char_boundary` of
the rewritten text at both ends: offset `i` is a boundary iff `mod_c2b[mod_b2c[i]] = i`), then
`original[m2o[bb]..m2o[be]]` (`to_orig`; a backwards range panics in the slice).  Returns the
byte range of the surface in the original text. -/
def surfaceRange (b2c c2b m2o : List Nat) (bb be : Nat) : Outcome (Nat × Nat) :=
  if !onBoundary b2c c2b bb then .panic "start is off char boundary"
  else if !onBoundary b2c c2b be then .panic "end is off char boundary"
  else
    match m2o[bb]?, m2o[be]? with
    | some ob, some oe => if ob ≤ oe then .ok (ob, oe) else .panic "slice index starts after end"
    | _, _ => .panic "m2o: index out of bounds"

/-! ## tokenizer histories -/

inductive Op where
  | new (m : Mode)
  | sub (s : Subset)
  | md (m : Mode)
deriving Repr

/-- run a history; returns the state and the values the calls returned -/
def runOps : List Op → Tok → List String → Tok × List String
  | [], t, acc => (t, acc.reverse)
  | .new m :: rest, _, acc => runOps rest (create m) acc
  | .sub s :: rest, t, acc =>
    let (t', old) := setSubset t s
    runOps rest t' (toString (toBits old) :: acc)
  | .md m :: rest, t, acc =>
    let (t', old) := setMode t m
    runOps rest t' ((match old with | .A => "A" | .B => "B" | .C => "C") :: acc)

/-! ## line protocol -/

open Wire

def modeStr : Mode → String
  | .A => "A" | .B => "B" | .C => "C"

def mode? (s : List Char) : Option Mode :=
  match s with
  | ['A'] => some .A
  | ['B'] => some .B
  | ['C'] => some .C
  | _ => none

def op? (s : List Char) : Option Op :=
  match s with
  | 'n' :: ':' :: r => (mode? r).map Op.new
  | 'm' :: ':' :: r => (mode? r).map Op.md
  | 's' :: ':' :: r => (nat? r).map (fun n => Op.sub (ofBits n))
  | _ => none

def ops? (s : List Char) : Option (List Op) := allSome ((items ',' s).map op?)

def slashList? (s : List Char) : Option (List Nat) := allSome ((items '/' s).map nat?)

def entry? (s : List Char) : Option Entry :=
  match splitOn ':' s with
  | [h, a, b] =>
    match nat? h, slashList? a, slashList? b with
    | some h, some a, some b => some ⟨h, a, b⟩
    | _, _, _ => none
  | _ => none

def lex? (s : List Char) : Option Lex :=
  allSome ((items ';' s).map (fun d => allSome ((items ',' d).map entry?)))

def raw? (s : List Char) : Option RawNode :=
  match natTuple? s with
  | some [cb, ce, wid, k] => some ⟨cb, ce, wid, k != 0⟩
  | _ => none

/-- what the harness observes of one morpheme: node ranges, word id, `begin()`/`end()` (character
route), the range of `surface()` (byte route; `P` when it panics) and the loaded word info as far as
splitting looks at it: `head_word_length()`, `a_unit_split()`, `b_unit_split()` -/
def showNode (b2c c2b m2o : List Nat) (n : Node) : Outcome String :=
  match origIdx c2b m2o n.cb, origIdx c2b m2o n.ce with
  | .ok ob, .ok oe =>
    let sf := match surfaceRange b2c c2b m2o n.bb n.be with
      | .ok (sb, se) => toString sb ++ ":" ++ toString se
      | _ => "P"
    .ok (joinWith ":" [toString n.cb, toString n.ce, toString n.bb, toString n.be, toString n.wid, toString ob, toString oe, sf,
      toString n.info.hwl, joinWith "_" (n.info.a.map toString), joinWith "_" (n.info.b.map toString)])
  | .panic w, _ => .panic w
  | _, .panic w => .panic w
  | .err k, _ => .err k
  | _, .err k => .err k

def showNodes (b2c c2b m2o : List Nat) : List Node → Outcome (List String)
  | [] => .ok []
  | n :: rest =>
    match showNode b2c c2b m2o n, showNodes b2c c2b m2o rest with
    | .ok s, .ok r => .ok (s :: r)
    | .panic w, _ => .panic w
    | _, .panic w => .panic w
    | .err k, _ => .err k
    | _, .err k => .err k

def kind? (s : List Char) : Option JoinKind :=
  match s with
  | ['N'] => some .num
  | ['K'] => some .kata
  | _ => none

/-- `cb:ce:wid:syn` (left alone) or `N=part+part…` / `K=part+part…` (joined by the first plugin) -/
def g1? (s : List Char) : Option G1 :=
  match splitOn '=' s with
  | [body] => (raw? body).map (fun r => ⟨none, [r]⟩)
  | [k, body] =>
    match kind? k, allSome ((items '+' body).map raw?) with
    | some k, some ps => some ⟨some k, ps⟩
    | _, _ => none
  | _ => none

/-- a stage-1 element (left alone by the second plugin) or `N@g1~g1…` / `K@g1~g1…` -/
def g2? (s : List Char) : Option G2 :=
  match splitOn '@' s with
  | [body] => (g1? body).map (fun g => ⟨none, [g]⟩)
  | [k, body] =>
    match kind? k, allSome ((items '~' body).map g1?) with
    | some k, some gs => some ⟨some k, gs⟩
    | _, _ => none
  | _ => none

def groups? (s : List Char) : Option (List G2) := allSome ((items ',' s).map g2?)

/-- `split_into` answer of one node: `T<units>` / `F`, `E`, `P` -/
def showSplitInto (cx : Ctx) (m2o : List Nat) (odm : Mode) (n : Node) : String :=
  match splitInto cx odm n with
  | .ok (flag, us) =>
    match showNodes cx.b2c cx.c2b m2o us with
    | .ok ss => (if flag then "T" else "F") ++ joinWith "," ss
    | _ => "P"
  | .err _ => "E"
  | .panic _ => "P"

def handleSplit (toks : List (List Char)) : String :=
  match (kv? toks "opsd").bind ops?, (kv? toks "opsc").bind ops?, (kv? toks "odm").bind mode?,
        (kv? toks "lex").bind lex?, (kv? toks "b2c").bind natList?, (kv? toks "c2b").bind natList?,
        (kv? toks "m2o").bind natList?, (kv? toks "path").bind groups?,
        (kv? toks "pathc").bind groups? with
  | some opsd, some opsc, some odm, some lex, some b2c, some c2b, some m2o, some grps, some grpsc =>
    let v : Variant := if (kv? toks "d6fix") == some ['1'] then .d6fix else .cur
    let td := (runOps opsd (create .C) []).1
    let tc := (runOps opsc (create .C) []).1
    -- `resolve_best_path`, the path-rewrite plugins (grouping entered), `split_path`
    let direct : Outcome (List Node) :=
      match resolveGroups lex td.subset c2b grps with
      | .ok p => splitPath ⟨v, lex, td.subset, b2c, c2b⟩ td.mode p
      | .err k => .err k
      | .panic w => .panic w
    let dstr :=
      match direct with
      | .ok ns =>
        match showNodes b2c c2b m2o ns with
        | .ok ss => toString (toBits td.subset) ++ ":" ++ modeStr td.mode ++ "|" ++ joinWith "," ss
        | _ => "PANIC"
      | .err k => "err:" ++ k
      | .panic _ => "PANIC"
    let cxc : Ctx := ⟨v, lex, tc.subset, b2c, c2b⟩
    -- the mode C list as the harness reads it back (every token with its loaded word info)
    let cstr :=
      match resolveGroups lex tc.subset c2b grpsc with
      | .ok ns =>
        match showNodes b2c c2b m2o ns with
        | .ok ss => joinWith "," ss
        | _ => "PANIC"
      | .err k => "err:" ++ k
      | .panic _ => "PANIC"
    let cnodes : List (Outcome Node) := grpsc.map (resolveG2 lex tc.subset c2b)
    let ods := cnodes.map (fun r =>
      match r with
      | .ok n => showSplitInto cxc m2o odm n
      | .err _ => "E"
      | .panic _ => "P")
    -- the deprecated `Morpheme::split`: the units, or the node itself
    let dps := cnodes.map (fun r =>
      match r with
      | .ok n =>
        match splitDeprecated cxc odm n with
        | .ok us =>
          match showNodes b2c c2b m2o us with
          | .ok ss => joinWith "," ss
          | _ => "P"
        | .err _ => "E"
        | .panic _ => "P"
      | .err _ => "E"
      | .panic _ => "P")
    -- second level: `split_into` of every sub-token that the first call returned (same list subset)
    let od2 := cnodes.map (fun r =>
      match r with
      | .ok n =>
        match splitInto cxc odm n with
        | .ok (_, us) => joinWith "|" (us.map (showSplitInto cxc m2o odm))
        | _ => "-"
      | _ => "-")
    -- `collect_results` / `swap_result`: `*subset = self.subset` — the list carries the subset of the
    -- tokenizer at the time of the call; `split_into` reads the units with it (`self.subset()`)
    "ok direct=" ++ dstr ++ " c=" ++ cstr ++ " ls=" ++ toString (toBits tc.subset) ++ " od=" ++ joinWith ";" ods
      ++ " dp=" ++ joinWith ";" dps ++ " od2=" ++ joinWith ";" od2
  | _, _, _, _, _, _, _, _, _ => "bad-case"

/-- `C09 lookup ls=<list subset before> sl=<subset of the call> odm=<mode> nodes=<ids found> ce= be=` + lexicon and
tables of the query: the list's subset afterwards and `split_into` of every node found -/
def handleLookup (toks : List (List Char)) : String :=
  match (kv? toks "ls").bind nat?, (kv? toks "sl").bind nat?, (kv? toks "odm").bind mode?,
        (kv? toks "lex").bind lex?, (kv? toks "b2c").bind natList?, (kv? toks "c2b").bind natList?,
        (kv? toks "m2o").bind natList?, (kv? toks "nodes").bind natList?,
        (kv? toks "ce").bind nat?, (kv? toks "be").bind nat? with
  | some ls, some sl, some odm, some lex, some b2c, some c2b, some m2o, some wids, some ce, some be =>
    let v : Variant := if (kv? toks "d6fix") == some ['1'] then .d6fix else .cur
    let lv : LookupV := if (kv? toks "lkfix") == some ['1'] then .fix else .cur
    match lookup lv lex (ofBits ls) (ofBits sl) ce be wids with
    | .ok (ns, after) =>
      let ods := ns.map (fun n =>
        match splitInto ⟨v, lex, after, b2c, c2b⟩ odm n with
        | .ok (flag, us) =>
          match showNodes b2c c2b m2o us with
          | .ok ss => (if flag then "T" else "F") ++ joinWith "," ss
          | _ => "P"
        | .err _ => "E"
        | .panic _ => "P")
      "ok ls=" ++ toString (toBits after) ++ " od=" ++ joinWith ";" ods
    | .err _ => "err"
    | .panic _ => "PANIC"
  | _, _, _, _, _, _, _, _, _, _ => "bad-case"

def showInfo (i : Info) : String :=
  toString i.hwl ++ ":" ++ joinWith "/" (i.a.map toString) ++ ":" ++ joinWith "/" (i.b.map toString)

def handleWinfo (toks : List (List Char)) : String :=
  match (kv? toks "subset").bind nat?, (kv? toks "lex").bind lex? with
  | some bits, some lex =>
    let s := ofBits bits
    let go (d : Nat) (l : List Entry) : List String :=
      (List.range l.length).map (fun i =>
        match getWordInfoSubset lex (mkId d i) s with
        | .ok info => showInfo info
        | .err _ => "err"
        | .panic _ => "PANIC")
    let all := (List.range lex.length).flatMap (fun d => match lex[d]? with | some l => go d l | none => [])
    "ok " ++ joinWith "," all
  | _, _ => "bad-case"

def handleSubset (toks : List (List Char)) : String :=
  match (kv? toks "ops").bind ops? with
  | some ops =>
    let (t, rets) := runOps ops (create .C) []
    "ok st=" ++ toString (toBits t.subset) ++ ":" ++ modeStr t.mode ++ " rets=" ++ joinWith "," rets
  | none => "bad-case"

def handle (op : List Char) (toks : List (List Char)) : String :=
  match String.ofList op with
  | "split" => handleSplit toks
  | "lookup" => handleLookup toks
  | "winfo" => handleWinfo toks
  | "subset" => handleSubset toks
  | _ => "bad-op"

end Split
