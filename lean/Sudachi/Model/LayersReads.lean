import Sudachi.Model.Layers
/-!
# A builder that is used further after a `read_lexicon` call FAILED (property C12)

`DictBuilder::read_lexicon` may be called several times on one builder, and a caller may go on after a call returned
`Err` (a lenient multi-CSV front end that reports and skips a rejected file).  `LexiconReader::read_bytes` pushes every
record as soon as it is parsed, so the rows IN FRONT of the failing line stay in the builder and are compiled; the POS
intern table (`IndexMap self.pos`) is carried from call to call, and what the failing `parse_record` had interned before
it returned stays as well:

* a line that is malformed in a column before the splits (columns 0..14: too few columns, a number that is no number)
  registers nothing (`defect = 1`);
* the POS of the inline split units are interned while columns 15/16 are parsed, the row's own POS after column 18,
  then come the A-mode test (`InvalidSplit`) and - after `unresolved` was raised - the surface test (`EmptySurface`,
  `defect = 2`: the line's column 0 is empty).

`readLineK` is `Layers.readRow` with the state a failing call leaves behind.
-/
namespace Layers

/-- why a line was rejected -/
inductive RowFail where
  | err (e : Err)
  | malformed
  | emptySurface
  | panic
deriving Repr, DecidableEq

/-- one line of a CSV source: the row and the damage of the line (0 = none, 1 = a column before the splits is malformed,
2 = the surface column is empty) -/
structure Line where
  row : Row
  defect : Nat
deriving Repr

/-- `parse_slash_list(data, |s| self.parse_split(s))` with the POS map a failing unit leaves: the units parsed before it
have interned their POS, the failing unit nothing -/
def parseSplitsGoK : PosMap → List CsvUnit → PosMap × Outcome (List SUnit)
  | m, [] => (m, .ok [])
  | m, u :: us =>
    match parseSplit m u with
    | .err e => (m, .err e)
    | .panic w => (m, .panic w)
    | .ok (m', su) =>
      match parseSplitsGoK m' us with
      | (m'', .ok sus) => (m'', .ok (su :: sus))
      | (m'', .err e) => (m'', .err e)
      | (m'', .panic w) => (m'', .panic w)

def parseSplitsK (m : PosMap) (us : List CsvUnit) : PosMap × Outcome (List SUnit) :=
  match parseSplitsGoK m us with
  | (m', .ok sus) => if sus.length > MAX_ARRAY_LEN then (m', .err .invalidSize) else (m', .ok sus)
  | (m', .err e) => (m', .err e)
  | (m', .panic w) => (m', .panic w)

def failOf {α : Type} : Outcome α → RowFail
  | .err e => .err e
  | _ => .panic

/-- `read_record` on one line: the new reader state and, when the line was rejected, why -/
def readLineK (r : Reader) (l : Line) : Reader × Option RowFail :=
  if l.defect = 1 then (r, some .malformed)
  else
    match parseSplitsK r.pos l.row.a with
    | (m1, .err e) => ({ r with pos := m1 }, some (.err e))
    | (m1, .panic _) => ({ r with pos := m1 }, some .panic)
    | (m1, .ok sa) =>
      match parseSplitsK m1 l.row.b with
      | (m2, .err e) => ({ r with pos := m2 }, some (.err e))
      | (m2, .panic _) => ({ r with pos := m2 }, some .panic)
      | (m2, .ok sb) =>
        match parseWordIdList l.row.w with
        | .err e => ({ r with pos := m2 }, some (.err e))
        | .panic _ => ({ r with pos := m2 }, some .panic)
        | .ok ws =>
          match posOf m2 l.row.pos with
          | .err e => ({ r with pos := m2 }, some (.err e))
          | .panic _ => ({ r with pos := m2 }, some .panic)
          | .ok (m3, pid) =>
            if l.row.mode = 0 ∧ (!sa.isEmpty || !sb.isEmpty) then ({ r with pos := m3 }, some (.err .invalidSplit))
            else if l.defect = 2 then
              ({ r with pos := m3, unresolved := r.unresolved + countInline sa + countInline sb }, some .emptySurface)
            else
              ({ r with pos := m3,
                        entries := r.entries ++ [⟨l.row.surface, l.row.headword, l.row.reading, pid, sa, sb, ws⟩],
                        unresolved := r.unresolved + countInline sa + countInline sb }, none)

/-- `LexiconReader::read_bytes`: the record loop stops at the first rejected line; what was pushed stays -/
def readSourceK : Reader → List Line → Reader × Option RowFail
  | r, [] => (r, none)
  | r, l :: ls =>
    match readLineK r l with
    | (r', none) => readSourceK r' ls
    | (r', some f) => (r', some f)

/-- several `read_lexicon` calls on one builder, the caller going on after an `Err`: per call the number of records read
and the failure, if any -/
def readSources : Reader → List (List Line) → Reader × List (Nat × Option RowFail)
  | r, [] => (r, [])
  | r, s :: ss =>
    match readSourceK r s with
    | (r', f) =>
      match readSources r' ss with
      | (r'', fs) => (r'', (r'.entries.length - r.entries.length, f) :: fs)

/-- `resolve` + `compile` on the state the reads left (the second half of `Layers.build`) -/
def finishBuild (pre : Option (List Pos × List SysWord)) (r : Reader) : Outcome Built :=
  let own := rawIndex r.entries pre.isSome
  let sys := match pre with | none => [] | some (_, ws) => binIndex ws
  match (if r.unresolved > 0 then resolveEntries own sys r.entries else .ok r.entries) with
  | .err e => .err e
  | .panic w => .panic w
  | .ok es =>
    match validateEntries (pre.map (fun x => x.2.length)) es with
    | .err e => .err e
    | .panic w => .panic w
    | .ok _ =>
      let t := writePosTable { r with entries := es }
      .ok ⟨t.1, t.2, es.map entryWord⟩

def startReader (pre : Option (List Pos × List SysWord)) : Reader :=
  match pre with
  | none => ⟨[], 0, [], 0⟩
  | some (g, _) => preloadPos g

/-- `new_user(base)` (or `new_system`), any number of `read_lexicon` calls whose `Err` is ignored, `resolve`, `compile` -/
def buildReads (pre : Option (List Pos × List SysWord)) (srcs : List (List Line)) :
    List (Nat × Option RowFail) × Outcome Built :=
  match readSources (startReader pre) srcs with
  | (r, fs) => (fs, finishBuild pre r)

/-! ### the "clean-up" of `seeded/C12e` (NOT the code; kept to show that the theorems tell the two apart): a failing
`read_bytes` truncates the POS map back to the length it had before the call, the pushed entries stay -/

def readSourcesTrunc : Reader → List (List Line) → Reader × List (Nat × Option RowFail)
  | r, [] => (r, [])
  | r, s :: ss =>
    match readSourceK r s with
    | (r', f) =>
      let r1 : Reader := if f.isSome then { r' with pos := r'.pos.take r.pos.length } else r'
      match readSourcesTrunc r1 ss with
      | (r'', fs) => (r'', (r'.entries.length - r.entries.length, f) :: fs)

end Layers
