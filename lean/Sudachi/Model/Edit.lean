import Sudachi.Model.Wire
/-!
# Model of `input_text/buffer/edit.rs` (`resolve_edits`, `add_replace`) and of the offset tables of
`input_text/buffer/mod.rs` (`start_build`, `commit`, `build`: `mod_c2b`, `mod_b2c`, `fill_orig_b2c`)

Properties C01, C08 (and C03 for the length limits).

The Rust code keeps the rewritten text (`modified`, bytes) and the offset map (`m2o`, one entry per
byte **plus a sentinel entry** at index `len`) in two vectors that are always sliced with the same
index ranges.  The model keeps them as ONE list of pairs `P β = Option β × Nat`: `(some b, v)` is
byte `b` with map entry `v`; the last pair `(none, v)` is the sentinel entry.  `textOf`/`snds`
project to the two Rust vectors, which is what the driver prints.
-/
namespace EditM

variable {β : Type}

/-- one entry of the offset map together with the text element it belongs to; `none` = sentinel -/
abbrev P (β : Type) := Option β × Nat

/-- `ReplaceOp`: replace `what = s..e` (byte offsets in the current text) with `w` -/
structure Edit (β : Type) where
  s : Nat
  e : Nat
  w : List β
deriving Repr

def snds (l : List (P β)) : List Nat := l.map (·.2)

def textOf (l : List (P β)) : List β := l.filterMap (·.1)

def slice {α : Type} (l : List α) (a b : Nat) : List α := (l.drop a).take (b - a)

/-- `source_mapping[i]` (an out-of-range index panics in Rust; under `EditsOk` it is in range,
lemma `valAt_eq`) -/
def valAt (l : List (P β)) (i : Nat) : Nat := (l[i]?.map (·.2)).getD 0

/-- `add_replace`: first byte ↦ `map[what.start]`, the remaining bytes ↦ `map[what.end]`;
nothing at all for an empty replacement (deletion) -/
def repl (l : List (P β)) (ed : Edit β) : List (P β) :=
  match ed.w with
  | [] => []
  | b :: bs => (some b, valAt l ed.s) :: bs.map (fun c => (some c, valAt l ed.e))

/-- main loop of `resolve_edits`; the final `drop` copies the tail *including* the sentinel entry -/
def go (l : List (P β)) : Nat → List (Edit β) → List (P β) → List (P β)
  | start, [], acc => acc ++ l.drop start
  | start, ed :: es, acc => go l ed.e es (acc ++ slice l start ed.s ++ repl l ed)

/-- first entry of the mapping MUST be 0 -/
def force0 : List (P β) → List (P β)
  | [] => []
  | (b, _) :: r => (b, 0) :: r

/-- `resolve_edits` -/
def resolve (l : List (P β)) (es : List (Edit β)) : List (P β) := force0 (go l 0 es [])

/-- the running `cur_len` of `resolve_edits` never exceeds `max` (checked after every edit) -/
def lenOk (max : Nat) : Int → List (Edit β) → Bool
  | _, [] => true
  | cur, ed :: es =>
    let cur' := cur + (ed.w.length : Int) - ((ed.e - ed.s : Nat) : Int)
    if cur' > (max : Int) then false else lenOk max cur' es

def REALLY_MAX_LENGTH : Nat := 65535
def MAX_LENGTH : Nat := 49149

/-- `InputBuffer::commit` (through `with_editor`): `none` = `Err(InputTooLong)` -/
def commit (l : List (P β)) (es : List (Edit β)) : Option (List (P β)) :=
  if es.isEmpty then some l
  else if lenOk REALLY_MAX_LENGTH ((l.length : Int) - 1) es then some (resolve l es) else none

def commitAll (l : List (P β)) : List (List (Edit β)) → Option (List (P β))
  | [] => some l
  | es :: rest => match commit l es with
    | none => none
    | some l' => commitAll l' rest

/-! ### the two length guards of `resolve_edits` / `commit`

`running` = the pinned code, kept verbatim above (`lenOk`, `commit`, `commitAll`): `resolve_edits` leaves its
loop as soon as the RUNNING length `cur_len` exceeds `REALLY_MAX_LENGTH` (checked after every edit of the
batch), so a batch that first expands and later contracts is rejected although its result fits (finding
`commit-transient-length`).
`final` = the repair `fix: apply the 65535-byte limit to the rewritten text, not to the running length of a
batch`: `resolve_edits` first folds the length differences of ALL edits of the batch (`finalLen`, nothing is
copied yet); when that FINAL length exceeds the limit it clears the edits and returns the length (`commit`
then reports `InputTooLong` with both spare buffers still empty), otherwise the loop runs to its end without
an exit in the middle.  The harness selects the variant by probing the behaviour of `InputBuffer::with_editor`
(token `commit=running|final` on every `limits`/`edits` case line). -/

inductive LenV where
  | running | final
deriving Repr, DecidableEq

/-- the length `resolve_edits` returns when its loop runs to the end: the source length plus, per edit,
`with.len() - what.len()` (`Range::len` is 0 for an inverted range) -/
def finalLen : Int → List (Edit β) → Int
  | cur, [] => cur
  | cur, ed :: es => finalLen (cur + (ed.w.length : Int) - ((ed.e - ed.s : Nat) : Int)) es

/-- the repaired guard: only the FINAL length is compared with `max` -/
def lenOkFinal (max : Nat) (cur : Int) (es : List (Edit β)) : Bool :=
  if finalLen cur es > (max : Int) then false else true

def lenGuard (v : LenV) (max : Nat) (cur : Int) (es : List (Edit β)) : Bool :=
  match v with
  | .running => lenOk max cur es
  | .final => lenOkFinal max cur es

/-- `InputBuffer::commit` of the tree selected by `v`: `none` = `Err(InputTooLong)` -/
def commitV (v : LenV) (l : List (P β)) (es : List (Edit β)) : Option (List (P β)) :=
  if es.isEmpty then some l
  else if lenGuard v REALLY_MAX_LENGTH ((l.length : Int) - 1) es then some (resolve l es) else none

def commitAllV (v : LenV) (l : List (P β)) : List (List (Edit β)) → Option (List (P β))
  | [] => some l
  | es :: rest => match commitV v l es with
    | none => none
    | some l' => commitAllV v l' rest

/-- `commit=final` selects the repaired guard; absent or anything else = the pinned code -/
def lenVOf (toks : List (List Char)) : LenV :=
  if Wire.kv? toks "commit" == some "final".toList then .final else .running

/-! ## bytes -/

/-- first byte of a UTF-8 encoded character (not `0b10xxxxxx`) -/
def isStart (b : Nat) : Bool := b / 64 != 2

/-- `start_build`: `modified = original`, `m2o = 0..=len` -/
def identFrom : Nat → List Nat → List (P Nat)
  | k, [] => [(none, k)]
  | k, b :: bs => (some b, k) :: identFrom (k + 1) bs

def startBuild (orig : List Nat) : Option (List (P Nat)) :=
  if orig.length > MAX_LENGTH then none else some (identFrom 0 orig)

/-- `mod_c2b` without the sentinel: byte offsets of the characters -/
def c2bFrom : Nat → List Nat → List Nat
  | _, [] => []
  | k, b :: bs => if isStart b then k :: c2bFrom (k + 1) bs else c2bFrom (k + 1) bs

/-- `mod_c2b`: sentinel = text length -/
def c2b (t : List Nat) : List Nat := c2bFrom 0 t ++ [t.length]

def nchars (t : List Nat) : Nat := (t.filter isStart).length

/-- `mod_b2c` without the sentinel: for every byte the index of the character containing it -/
def b2cFrom : Nat → List Nat → List Nat
  | _, [] => []
  | cnt, b :: bs =>
    let cnt' := if isStart b then cnt + 1 else cnt
    (cnt' - 1) :: b2cFrom cnt' bs

/-- `mod_b2c`: sentinel = `last_chidx + 1` -/
def b2c (t : List Nat) : List Nat := b2cFrom 0 t ++ [if nchars t = 0 then 1 else nchars t]

/-- `fill_orig_b2c` without the sentinel; `none` = `usize::MAX` (not a character boundary) -/
def origB2CFrom : Nat → List Nat → List (Option Nat)
  | _, [] => []
  | cnt, b :: bs => if isStart b then some cnt :: origB2CFrom (cnt + 1) bs else none :: origB2CFrom cnt bs

def origB2C (o : List Nat) : List (Option Nat) :=
  origB2CFrom 0 o ++ [some (if nchars o = 0 then 1 else nchars o)]

/-- `to_orig_byte_idx` (modified char index → original byte index) -/
def toOrigByteIdx (l : List (P Nat)) (ci : Nat) : Option Nat :=
  match (c2b (textOf l))[ci]? with
  | none => none
  | some bi => (snds l)[bi]?

/-- `to_orig_char_idx`; `none` = out of range or the `usize::MAX` marker -/
def toOrigCharIdx (orig : List Nat) (l : List (P Nat)) (ci : Nat) : Option Nat :=
  match toOrigByteIdx l ci with
  | none => none
  | some ob => match (origB2C orig)[ob]? with
    | some (some c) => some c
    | _ => none

/-! ## driver -/

def parseEdit (s : List Char) : Option (Edit Nat) :=
  match Wire.splitOn ':' s with
  | [a, b, w] => match Wire.nat? a, Wire.nat? b, Wire.hexBytes? w with
    | some a, some b, some w => some ⟨a, b, w⟩
    | _, _, _ => none
  | _ => none

def parseBatch (s : List Char) : Option (List (Edit Nat)) :=
  Wire.allSome ((Wire.items ',' s).map parseEdit)

def parseBatches (s : List Char) : Option (List (List (Edit Nat))) :=
  Wire.allSome ((Wire.items ';' s).map (fun b => if b = ['-'] then some [] else parseBatch b))

def hex2 (n : Nat) : String :=
  let d (k : Nat) : Char := if k < 10 then Char.ofNat (48 + k) else Char.ofNat (87 + k)
  String.ofList [d (n / 16 % 16), d (n % 16)]

def showHex (l : List Nat) : String := String.join (l.map hex2)

def showOpt (l : List (Option Nat)) : String :=
  Wire.joinWith "," (l.map (fun o => match o with | some n => toString n | none => "x"))

/-- `C08 edits orig=<hex> batches=<s:e:hex,...;...> [commit=running|final]`  (a batch `-` is the empty batch;
`commit` = which length guard the linked tree has, probed by the harness; absent = `running`)
answer: `ok cur=<hex> m2o=<list> c2b=<list> b2c=<list> ob2c=<list> oc=<orig char idx at every char index>` -/
def handle (toks : List (List Char)) : String :=
  match Wire.kv? toks "orig", Wire.kv? toks "batches" with
  | some o, some b =>
    match Wire.hexBytes? o, parseBatches b with
    | some orig, some batches =>
      match startBuild orig with
      | none => "err:TooLong"
      | some l0 =>
        match commitAllV (lenVOf toks) l0 batches with
        | none => "err:TooLong"
        | some l =>
          let t := textOf l
          let nc := nchars t
          "ok cur=" ++ showHex t ++ " m2o=" ++ Wire.showNats (snds l) ++ " c2b=" ++ Wire.showNats (c2b t)
            ++ " b2c=" ++ Wire.showNats (b2c t) ++ " ob2c=" ++ showOpt (origB2C orig)
            ++ " oc=" ++ showOpt ((List.range (nc + 1)).map (toOrigCharIdx orig l))
    | _, _ => "bad-op"
  | _, _ => "bad-op"

/-! ## morpheme offsets (`morpheme.rs: begin/end/surface`) from the tables of a finished analysis -/

/-- rebuild the paired list from the two Rust vectors (`modified` bytes, `m2o`) -/
def pairUp : List Nat → List Nat → List (P Nat)
  | [], v :: _ => [(none, v)]
  | b :: bs, v :: vs => (some b, v) :: pairUp bs vs
  | _, [] => []

structure NodeRange where
  bc : Nat
  ec : Nat
  bb : Nat
  eb : Nat

def parseNode (s : List Char) : Option NodeRange :=
  match Wire.natTuple? s with
  | some [a, b, c, d] => some ⟨a, b, c, d⟩
  | _ => none

/-- `Morpheme::begin()/end()`: character route through `mod_c2b` then `m2o` -/
def morphRangeC (l : List (P Nat)) (n : NodeRange) : Option (Nat × Nat) :=
  match toOrigByteIdx l n.bc, toOrigByteIdx l n.ec with
  | some b, some e => some (b, e)
  | _, _ => none

/-- `Morpheme::surface()`: byte route, `orig[m2o[bb] .. m2o[eb]]` -/
def morphRangeB (l : List (P Nat)) (n : NodeRange) : Option (Nat × Nat) :=
  match (snds l)[n.bb]?, (snds l)[n.eb]? with
  | some b, some e => some (b, e)
  | _, _ => none

def showRanges (l : List (Option (Nat × Nat))) : String :=
  Wire.joinWith "," (l.map (fun o => match o with | some (a, b) => toString a ++ ":" ++ toString b | none => "x"))

/-- `C01 morph orig=<hex> cur=<hex> m2o=<list> nodes=<bc:ec:bb:eb;...>`
answer: `ok rc=<begin:end per morpheme, char route> rb=<byte route> surf=<hex of concatenated surfaces>` -/
def handleMorph (toks : List (List Char)) : String :=
  match Wire.kv? toks "orig", Wire.kv? toks "cur", Wire.kv? toks "m2o", Wire.kv? toks "nodes" with
  | some o, some c, some m, some ns =>
    match Wire.hexBytes? o, Wire.hexBytes? c, Wire.natList? m, Wire.allSome ((Wire.items ';' ns).map parseNode) with
    | some orig, some cur, some m2o, some nodes =>
      let l := pairUp cur m2o
      let rc := nodes.map (morphRangeC l)
      let rb := nodes.map (morphRangeB l)
      let surf := rb.flatMap (fun r => match r with | some (a, b) => slice orig a b | none => [])
      "ok rc=" ++ showRanges rc ++ " rb=" ++ showRanges rb ++ " surf=" ++ showHex surf
    | _, _, _, _ => "bad-op"
  | _, _, _, _ => "bad-op"

/-- `C08 morphc orig=<hex> cur=<hex> m2o=<list> nodes=<bc:ec:bb:eb;...>`
answer: `ok cc=<begin_c:end_c per morpheme>` - `Morpheme::begin_c()/end_c()`: the node's CHARACTER range of the rewritten text
through `mod_c2b`, `m2o` and the original byte -> character table (`to_orig_char_idx`); `x` where the table holds the
"not a boundary" marker or an index is out of range -/
def handleMorphC (toks : List (List Char)) : String :=
  match Wire.kv? toks "orig", Wire.kv? toks "cur", Wire.kv? toks "m2o", Wire.kv? toks "nodes" with
  | some o, some c, some m, some ns =>
    match Wire.hexBytes? o, Wire.hexBytes? c, Wire.natList? m, Wire.allSome ((Wire.items ';' ns).map parseNode) with
    | some orig, some cur, some m2o, some nodes =>
      let l := pairUp cur m2o
      let cc := nodes.map (fun n => match toOrigCharIdx orig l n.bc, toOrigCharIdx orig l n.ec with
        | some b, some e => some (b, e)
        | _, _ => none)
      "ok cc=" ++ showRanges cc
    | _, _, _, _ => "bad-op"
  | _, _, _, _ => "bad-op"

end EditM
