import Sudachi.Model.TotalIO
/-!
# C01: the input-text plugin stage observed plugin by plugin (op `stages`)

`Total.rewriteInput` (the function `C01.tokens_partition_original_bundled` / `C01.tokenize_total_bundled` speak about) run
with a record of what every plugin did: the byte edits it emitted (`TotalIO.plugin`: C07's code-point edits with offsets and
replacements turned into bytes), the buffer after `commit`, and the same edit list resolved ALONE on the identity map over
the text the plugin saw.  `Proofs/PartitionUtf8.lean: trace_final` shows the last buffer of the trace is `rewriteInput`'s.

Why the identity run: `resolve_edits` reads an edit only through `map[start]`, `map[end]` and the replacement bytes, so the
pair (text, map) it writes over the IDENTITY map determines what the edit list does on every map — it is the edit list up to
what `resolve_edits` can observe (two abutting edits `[0..3 → a][3..6 → b]` and `[0..3 → ab][3..6 → ""]` give the same pair
on every map).  The real `ReplaceOp`s are private to `InputEditor`; the harness observes exactly this pair by running the real
plugin alone on a new buffer holding the same text, and the NUMBER of edits through the `replaces_len` field of the
`verif_tables` hook.
-/
namespace Stages
open Oov (Outcome)

structure Stage where
  /-- the byte edits the plugin emitted for the text it was handed -/
  edits : List (EditM.Edit Nat)
  /-- the buffer after `commit` -/
  after : List (EditM.P Nat)
  /-- `resolve_edits` of the same edits over the identity map of the text before; `none` = that text is longer than
  `MAX_LENGTH` (a new buffer refuses it) or the commit is rejected -/
  alone : Option (List (EditM.P Nat))

inductive End where
  | done | tooLong | err (k : String) | panic (w : String)

/-- `rewriteInput` with the record; same order of the same calls -/
def trace (lv : EditM.LenV) : List (List Nat → Outcome (List (EditM.Edit Nat))) → List (EditM.P Nat) → List Stage →
    List Stage × End × List (EditM.P Nat)
  | [], l, acc => (acc.reverse, .done, l)
  | p :: ps, l, acc =>
    match p (EditM.textOf l) with
    | .ok es =>
      (match EditM.commitV lv l es with
      | none => (acc.reverse, .tooLong, l)
      | some l' =>
        let alone := match EditM.startBuild (EditM.textOf l) with
          | none => none
          | some i => EditM.commitV lv i es
        trace lv ps l' (⟨es, l', alone⟩ :: acc))
    | .err k => (acc.reverse, .err k, l)
    | .panic w => (acc.reverse, .panic w, l)

/-- the text is the encoding of the characters it decodes to (`Utf8Inv.Enc`, decided) -/
def isEnc (t : List Nat) : Bool :=
  match Wire.utf8Decode t with
  | none => false
  | some cs => TotalIO.encode cs == t

def showEdit (e : EditM.Edit Nat) : String := toString e.s ++ ":" ++ toString e.e ++ ":" ++ EditM.showHex e.w

def showStage (s : Stage) : String :=
  toString s.edits.length ++ "/" ++ EditM.showHex (EditM.textOf s.after) ++ "/" ++ Wire.showNats (EditM.snds s.after) ++ "/" ++
    (match s.alone with | some a => Wire.showNats (EditM.snds a) | none => "-") ++ "/" ++
    (if isEnc (EditM.textOf s.after) then "utf8" else "NOT-UTF8")

/-- `C01 stages orig=<hex> pipe=<D|P|Y…> early= rwdef=<hex rewrite.def> pm= pr= yl= yr= yn= uni=<facts> commit=<running|final>`
answer: `ok <stage>;<stage>;… end=<done|TooLong|err:k|PANIC>` with
`<stage> = <number of edits>/<text after, hex>/<m2o after>/<m2o of the plugin alone on the identity map>/<utf8|NOT-UTF8>`;
with the extra token `show=edits` (replays by hand) the model's byte edit lists `s:e:hex` are appended, one group per plugin -/
def handle (toks : List (List Char)) : String :=
  match Wire.kv? toks "orig", Wire.kv? toks "uni" with
  | some o, some u =>
    match Wire.hexBytes? o, Normalize.facts? u, Normalize.setup? (TotalIO.normToks toks) with
    | some orig, some facts, some (pipe, def?, S) =>
      if !Normalize.loadOk pipe def? S then "err:setup" else
      match EditM.startBuild orig with
      | none => "ok  end=TooLong"
      | some l0 =>
        let (stages, e, _) := trace (EditM.lenVOf toks) (pipe.map (TotalIO.plugin facts S)) l0 []
        "ok " ++ Wire.joinWith ";" (stages.map showStage) ++ " end=" ++
          (match e with | .done => "done" | .tooLong => "TooLong" | .err k => "err:" ++ k | .panic _ => "PANIC") ++
          (if Wire.kv? toks "show" == some "edits".toList
            then " edits=" ++ Wire.joinWith "|" (stages.map (fun s => Wire.joinWith "," (s.edits.map showEdit))) else "")
    | _, _, _ => "bad-op"
  | _, _ => "bad-op"

end Stages
