import Sudachi.Model.Wire
/-!
# Model of the input-text plugins  (property C07; the edit lists are reused by C01/C08)

Anchors: `sudachi/src/plugin/input_text/default_input_text/mod.rs` (`read_rewrite_lists`,
`replace_fast`, `replace_slow`, `handle_normalization_slow`, `rewrite_impl`),
`.../prolonged_sound_mark/mod.rs`, `.../ignore_yomigana/mod.rs`,
`sudachi/src/plugin/input_text/mod.rs` (`rewrite` = `with_editor` + `commit`),
`sudachi/src/input_text/buffer/edit.rs` (`resolve_edits`, `add_replace`) at code-point granularity.

Text is a list of Unicode scalar values.  Positions are code-point indices; the Rust byte offsets
are the prefix sums of the UTF-8 widths, a strictly monotone bijection between code-point
boundaries and the byte boundaries the Rust code ever uses (all ranges come from `char_indices`,
from matches of valid UTF-8 literals or from regex matches, which lie on character boundaries).

Parameters (external libraries, trusted base):
* `Uni` — `char::is_uppercase`, `char::to_lowercase`, NFKC of a scalar sequence, the NFKC
  quick-check class and the canonical combining class (`unicode-normalization`);
  `isNfkcQuick` is the crate's `quick_check` loop transcribed over these.
* `aho_corasick` — `longestAt` (leftmost-longest, anchored or as the step of the unanchored
  iterator) and `shortestAt` (anchored search with `.earliest(true)`).
* `regex` — direct matchers for the two patterns the plugins build (`[marks]{2,}` and
  `K(L R{1,n} B)`).
-/
namespace Normalize

/-! ## Unicode facts (parameters) -/

inductive QC where
  | yes | no | maybe
deriving Repr, DecidableEq

structure Uni where
  isUpper : Nat → Bool
  lower : Nat → List Nat
  /-- NFKC of a sequence of scalar values (`iter.nfkc()`) -/
  nfkc : List Nat → List Nat
  qc : Nat → QC
  ccc : Nat → Nat

/-- `unicode_normalization::quick_check(s, qc_nfkc, stream_safe = false)`:
state = (last combining class, result so far) -/
def quickGo (U : Uni) : Nat → QC → List Nat → QC
  | _, r, [] => r
  | last, r, c :: cs =>
    if c ≤ 0x7f then quickGo U 0 r cs        -- ASCII: always allowed and a starter
    else
      let cc := U.ccc c
      if last > cc && cc != 0 then QC.no
      else match U.qc c with
        | QC.yes => quickGo U cc r cs
        | QC.no => QC.no
        | QC.maybe => quickGo U cc QC.maybe cs

/-- `is_nfkc_quick` -/
def isNfkcQuick (U : Uni) (s : List Nat) : QC := quickGo U 0 QC.yes s

/-! ## rewrite table -/

abbrev Pair := List Nat × List Nat

structure Table where
  /-- `ignore_normalize_set` -/
  ignore : List Nat
  /-- `replace_char_map` (keys are non-empty and pairwise distinct when produced by `parseDef`) -/
  pairs : List Pair
deriving Repr

/-- `char::is_whitespace` (Unicode `White_Space`), used by `str::trim` and `split_whitespace` -/
def isWhite (c : Nat) : Bool :=
  (9 ≤ c && c ≤ 13) || c == 32 || c == 0x85 || c == 0xA0 || c == 0x1680 ||
  (0x2000 ≤ c && c ≤ 0x200A) || c == 0x2028 || c == 0x2029 || c == 0x202F || c == 0x205F || c == 0x3000

/-- `split_whitespace` -/
def wordsGo : List Nat → List Nat → List (List Nat) → List (List Nat)
  | [], cur, acc => if cur.isEmpty then acc else cur.reverse :: acc
  | c :: cs, cur, acc =>
    if isWhite c then (if cur.isEmpty then wordsGo cs [] acc else wordsGo cs [] (cur.reverse :: acc))
    else wordsGo cs (c :: cur) acc

def wordsOf (s : List Nat) : List (List Nat) := (wordsGo s [] []).reverse

/-- `BufRead::lines` followed by `trim`: splitting on `\n`; the optional `\r` is white space -/
def splitLines : List Nat → List (List Nat)
  | [] => [[]]
  | c :: cs =>
    match splitLines cs with
    | [] => [[]]
    | w :: ws => if c = 10 then [] :: w :: ws else (c :: w) :: ws

/-- the loop body of `read_rewrite_lists`; `none` = `Err(InvalidDataFormat)` -/
def parseStep (t : Table) (line : List Nat) : Option Table :=
  match wordsOf line with
  | [] => some t                                   -- empty after trim
  | (35 :: _) :: _ => some t                       -- starts with '#'
  | [w] => match w with
    | [c] => some { t with ignore := c :: t.ignore }
    | _ => none                                    -- "... is not character"
  | [k, v] =>
    if t.pairs.any (fun p => p.1 == k) then none   -- "... is already defined"
    else some { t with pairs := t.pairs ++ [(k, v)] }
  | _ => none

def parseLines : List (List Nat) → Table → Option Table
  | [], t => some t
  | l :: ls, t => match parseStep t l with
    | none => none
    | some t' => parseLines ls t'

def parseDef (text : List Nat) : Option Table := parseLines (splitLines text) ⟨[], []⟩

/-! ## aho-corasick, by its documented match semantics -/

def isKeyAt (p : Pair) (s : List Nat) : Bool := !p.1.isEmpty && p.1.isPrefixOf s

/-- the longest key of the table that is a prefix of `s` (`MatchKind::LeftmostLongest`, anchored) -/
def longestAt : List Pair → List Nat → Option Pair
  | [], _ => none
  | p :: ps, s =>
    if isKeyAt p s then
      match longestAt ps s with
      | some q => if p.1.length < q.1.length then some q else some p
      | none => some p
    else longestAt ps s

/-- the shortest key of the table that is a prefix of `s` (anchored search with `.earliest(true)`:
the automaton reports the first match state it enters) -/
def shortestAt : List Pair → List Nat → Option Pair
  | [], _ => none
  | p :: ps, s =>
    if isKeyAt p s then
      match shortestAt ps s with
      | some q => if q.1.length < p.1.length then some q else some p
      | none => some p
    else shortestAt ps s

/-- `checker.find(Input::new(cur).anchored(Yes).earliest(e).set_start(offset))` -/
def anchoredFind (earliest : Bool) (ps : List Pair) (s : List Nat) : Option Pair :=
  if earliest then shortestAt ps s else longestAt ps s

theorem longestAt_key_ne_nil {ps : List Pair} {s : List Nat} {p : Pair}
    (h : longestAt ps s = some p) : p.1 ≠ [] := by
  induction ps generalizing p with
  | nil => simp [longestAt] at h
  | cons q qs ih =>
    simp only [longestAt] at h
    split at h
    · rename_i hk
      have hq : q.1 ≠ [] := by
        simp only [isKeyAt, Bool.and_eq_true, Bool.not_eq_true', List.isEmpty_eq_false_iff] at hk
        exact hk.1
      split at h
      · rename_i r hr
        split at h
        · injection h with h; subst h; exact ih hr
        · injection h with h; subst h; exact hq
      · injection h with h; subst h; exact hq
    · exact ih h

structure Edit where
  s : Nat
  e : Nat
  rep : List Nat
deriving Repr, DecidableEq

/-- `checker.find_iter(Input::new(cur).anchored(No))`: leftmost-longest, non-overlapping, each
emitted as `replace_ref(m.start()..m.end(), replacements[m.pattern()])` (`replace_fast`) -/
def fastGo (ps : List Pair) (pos : Nat) (s : List Nat) : List Edit :=
  match s with
  | [] => []
  | c :: cs =>
    match h : longestAt ps (c :: cs) with
    | some p => ⟨pos, pos + p.1.length, p.2⟩ :: fastGo ps (pos + p.1.length) ((c :: cs).drop p.1.length)
    | none => fastGo ps (pos + 1) cs
termination_by s.length
decreasing_by
  · have := longestAt_key_ne_nil h
    have : 0 < p.1.length := List.length_pos_iff.mpr this
    simp only [List.length_drop, List.length_cons]; omega
  · simp

/-! ## slow path -/

/-- step 2 of `replace_slow`: which iterator is handed to `handle_normalization_slow`
(`none` = `(false, false) => continue`) -/
def charData (U : Uni) (ignore : List Nat) (c : Nat) : Option (List Nat) :=
  let needLower := U.isUpper c
  let needNfkc := !ignore.contains c && (isNfkcQuick U [c] != QC.yes)
  match needLower, needNfkc with
  | false, false => none
  | true, false => some (U.lower c)
  | false, true => some (U.nfkc [c])
  | true, true => some (U.nfkc (U.lower c))

/-- `handle_normalization_slow` + `replace_char_iter`: nothing when the iterator is empty or its
first item equals the input character -/
def charEdit (pos c : Nat) : Option (List Nat) → Option Edit
  | none => none
  | some [] => none
  | some (d :: ds) => if d = c then none else some ⟨pos, pos + 1, d :: ds⟩

/-- the `for (offset, ch) in cur.char_indices()` loop of `replace_slow`;
`pos` = index of `ch`, `mo` = `min_offset` -/
def slowGo (U : Uni) (T : Table) (earliest : Bool) : Nat → Nat → List Nat → List Edit
  | _, _, [] => []
  | pos, mo, c :: cs =>
    if pos < mo then slowGo U T earliest (pos + 1) mo cs
    else match anchoredFind earliest T.pairs (c :: cs) with
      | some p => ⟨pos, pos + p.1.length, p.2⟩ :: slowGo U T earliest (pos + 1) (pos + p.1.length) cs
      | none =>
        match charEdit pos c (charData U T.ignore c) with
        | some e => e :: slowGo U T earliest (pos + 1) mo cs
        | none => slowGo U T earliest (pos + 1) mo cs

def replaceSlow (U : Uni) (T : Table) (earliest : Bool) (s : List Nat) : List Edit :=
  slowGo U T earliest 0 0 s

def replaceFast (T : Table) (s : List Nat) : List Edit := fastGo T.pairs 0 s

/-- `rewrite_impl`: the path is chosen by the whole-text quick check and `any(is_uppercase)` -/
def useSlow (U : Uni) (s : List Nat) : Bool :=
  (isNfkcQuick U s != QC.yes) || s.any U.isUpper

def defaultEdits (U : Uni) (T : Table) (earliest : Bool) (s : List Nat) : List Edit :=
  if useSlow U s then replaceSlow U T earliest s else replaceFast T s

/-! ## prolonged sound marks: `[marks]{2,}`, `find_iter` -/

def psmGo (marks rep : List Nat) (pos : Nat) (s : List Nat) : List Edit :=
  match s with
  | [] => []
  | c :: cs =>
    if h : 2 ≤ ((c :: cs).takeWhile marks.contains).length then
      ⟨pos, pos + ((c :: cs).takeWhile marks.contains).length, rep⟩ ::
        psmGo marks rep (pos + ((c :: cs).takeWhile marks.contains).length)
          ((c :: cs).drop ((c :: cs).takeWhile marks.contains).length)
    else psmGo marks rep (pos + 1) cs
termination_by s.length
decreasing_by
  · simp only [List.length_drop, List.length_cons]; omega
  · simp

def psmEdits (marks rep : List Nat) (s : List Nat) : List Edit := psmGo marks rep 0 s

/-! ## yomigana: `K(L R{1,n} B)`, `captures_iter`, group 1 deleted -/

structure Yomi where
  kanji : Nat → Bool        -- class built from the character categories intersecting KANJI
  kana : Nat → Bool         -- ... intersecting HIRAGANA | KATAKANA
  left : List Nat
  right : List Nat
  max : Nat                 -- `maxYomiganaLength`

/-- greedy `R{1,n}` then `B`, backtracking: the largest `k ≤ m` with `1 ≤ k` and `s[k] ∈ B`
(`s` starts at the first reading character; the first `m` items of `s` are readings) -/
def backtrack (right : List Nat) (s : List Nat) : Nat → Option Nat
  | 0 => none
  | k + 1 =>
    match s.drop (k + 1) with
    | b :: _ => if right.contains b then some (k + 1) else backtrack right s k
    | [] => backtrack right s k

/-- match of the whole pattern at the head of `s`; result = number of reading characters -/
def yomiAt (Y : Yomi) : List Nat → Option Nat
  | k :: l :: rest =>
    if Y.kanji k && Y.left.contains l then
      let run := (rest.takeWhile Y.kana).length
      backtrack Y.right rest (min run Y.max)
    else none
  | _ => none

def yomiGo (Y : Yomi) (pos : Nat) (s : List Nat) : List Edit :=
  match s with
  | [] => []
  | c :: cs =>
    match yomiAt Y (c :: cs) with
    | some k => ⟨pos + 1, pos + k + 3, []⟩ :: yomiGo Y (pos + k + 3) ((c :: cs).drop (k + 3))
    | none => yomiGo Y (pos + 1) cs
termination_by s.length
decreasing_by
  · simp only [List.length_drop, List.length_cons]; omega
  · simp

def yomiEdits (Y : Yomi) (s : List Nat) : List Edit := yomiGo Y 0 s

/-! ## `resolve_edits` at code-point granularity -/

/-- `l.length < k`, looking at no more than `k` items (keeps `applyGo` linear on long texts) -/
def lenLt {α : Type} : List α → Nat → Bool
  | _, 0 => false
  | [], _ + 1 => true
  | _ :: t, k + 1 => lenLt t k

theorem lenLt_iff {α : Type} (l : List α) (k : Nat) : lenLt l k = true ↔ l.length < k := by
  induction l generalizing k with
  | nil => cases k <;> simp [lenLt]
  | cons a t ih => cases k with
    | zero => simp [lenLt]
    | succ k => simp [lenLt, ih]

/-- text only: `target.push_str(&source[start..edit.start])`, replacement, `start = edit.end`, tail.
`none` = the slice panics (edit out of order / out of range). -/
def applyGo : Nat → List Edit → List Nat → Option (List Nat)
  | _, [], s => some s
  | pos, e :: es, s =>
    if e.s < pos ∨ e.e < e.s ∨ lenLt s (e.e - pos) then none
    else (applyGo e.e es (s.drop (e.e - pos))).map (fun t => s.take (e.s - pos) ++ e.rep ++ t)

def applyEdits (es : List Edit) (s : List Nat) : Option (List Nat) := applyGo 0 es s

/-- offset stored for the first item of `l` (`source_mapping[i]`), the sentinel when `l` is empty -/
def offHead (endOff : Nat) : List (Nat × Nat) → Nat
  | [] => endOff
  | p :: _ => p.2

/-- `add_replace`: first character ↦ `source_mapping[what.start]`, every later one ↦
`source_mapping[what.end]` (observed at character boundaries) -/
def replP (o1 o2 : Nat) : List Nat → List (Nat × Nat)
  | [] => []
  | r :: rs => (r, o1) :: rs.map (fun x => (x, o2))

/-- text paired with the offset map entry of each character's first byte -/
def applyGoP (endOff : Nat) : Nat → List Edit → List (Nat × Nat) → Option (List (Nat × Nat))
  | _, [], l => some l
  | pos, e :: es, l =>
    if e.s < pos ∨ e.e < e.s ∨ lenLt l (e.e - pos) then none
    else
      let o1 := offHead endOff (l.drop (e.s - pos))
      let tail := l.drop (e.e - pos)
      let o2 := offHead endOff tail
      (applyGoP endOff e.e es tail).map (fun t => l.take (e.s - pos) ++ replP o1 o2 e.rep ++ t)

structure Buf where
  body : List (Nat × Nat)
  endOff : Nat
deriving Repr

/-- "first byte of mapping MUST be 0" -/
def force0 (b : Buf) : Buf :=
  match b.body with
  | [] => ⟨[], 0⟩
  | (c, _) :: r => ⟨(c, 0) :: r, b.endOff⟩

/-- `InputBuffer::commit` (`None` = panic inside `resolve_edits`) -/
def commit (b : Buf) (es : List Edit) : Option Buf :=
  if es.isEmpty then some b
  else (applyGoP b.endOff 0 es b.body).map (fun l => force0 ⟨l, b.endOff⟩)

def utf8w (c : Nat) : Nat := if c < 0x80 then 1 else if c < 0x800 then 2 else if c < 0x10000 then 3 else 4

def initGo : Nat → List Nat → List (Nat × Nat) × Nat
  | off, [] => ([], off)
  | off, c :: cs => let r := initGo (off + utf8w c) cs; ((c, off) :: r.1, r.2)

/-- `start_build`: `m2o = 0..=len` -/
def initBuf (s : List Nat) : Buf := let r := initGo 0 s; ⟨r.1, r.2⟩

def Buf.text (b : Buf) : List Nat := b.body.map (·.1)

/-! ## the recycled `InputBuffer`: the fields the input-text plugins read or write

`sudachi/src/input_text/buffer/mod.rs`: `reset`, `start_build`, `refresh_chars`, `with_editor` + `commit`
(`resolve_edits` with its length guard), `build`; `analysis/stateful_tokenizer.rs` `reset`/`do_tokenize`
(input part) and `MorphemeList::collect_results` (`swap_result`: tokenizer and list swap their buffers).

Every field is an explicit list and every operation is the literal sequence of buffer events: `clear`,
`push_str`/`extend` (an APPEND to what the field holds), `swap`.  So a missing `clear()` is expressible:
the stale content stays in front.  `m2o` is kept at character granularity (entry of each character's first
byte, then the sentinel entry), as everywhere in this file. -/

inductive BState where
  | clean | rw | ro
deriving Repr, DecidableEq

/-- which `reset` runs: `cur` = the code (`reset` clears `mod_chars`); `lateClear` = the seeded change C07b
(index tables cleared at the start of `build` instead of in `reset`), used by a counterexample only -/
inductive ResetV where
  | cur | lateClear
deriving Repr, DecidableEq

structure RBuf where
  original : List Nat
  modified : List Nat
  m2o : List Nat
  /-- `modified_2` / `m2o_2`: scratch of `commit`; after the swap they hold the text before the edit, i.e.
  across analyses the text of the call before last on this object -/
  modified2 : List Nat
  m2o2 : List Nat
  /-- `mod_chars`, the cache behind `current_chars()` -/
  chars : List Nat
  state : BState
deriving Repr, DecidableEq

/-- `InputBuffer::default()` -/
def RBuf.new : RBuf := ⟨[], [], [], [], [], [], .clean⟩

/-- UTF-8 length of a text -/
def bytes (s : List Nat) : Nat := (s.map utf8w).sum

/-- `0..=len` observed at character starts, then the sentinel -/
def identMap (s : List Nat) : List Nat := (initGo 0 s).1.map (·.2) ++ [(initGo 0 s).2]

inductive Fail where
  | tooLong     -- `Err(InputTooLong)`
  | panic       -- slice/index panic, `debug_assert`
deriving Repr, DecidableEq

/-- `InputBuffer::reset` (the fields of this model; the other index tables are C10's) -/
def RBuf.reset (v : ResetV) (b : RBuf) : RBuf :=
  { b with original := [], modified := [], m2o := [],
           chars := (match v with | .cur => [] | .lateClear => b.chars), state := .clean }

/-- `reset().push_str(text)` -/
def RBuf.fill (b : RBuf) (t : List Nat) : RBuf := { b with original := b.original ++ t }

/-- `start_build`: length limit first, then `debug_assert_eq!(state, Clean)`, then
`modified.push_str(&original)` and `m2o.extend(0..modified.len() + 1)` — both APPEND -/
def RBuf.startBuild (b : RBuf) : Except Fail RBuf :=
  if bytes b.original > 49149 then .error .tooLong
  else if b.state != .clean then .error .panic
  else .ok { b with state := .rw, modified := b.modified ++ b.original,
                    m2o := b.m2o ++ identMap (b.modified ++ b.original) }

/-- `refresh_chars`: recomputed only when the cache is EMPTY -/
def RBuf.refreshChars (b : RBuf) : RBuf :=
  if b.chars.isEmpty then { b with chars := b.modified } else b

/-- the text with the offset-map entry of each character's first byte, and the sentinel entry;
`none` = the two vectors are not aligned (cannot happen after `reset`: `RBuf.aligned_*`) -/
def pair? : List Nat → List Nat → Option (List (Nat × Nat) × Nat)
  | [], [e] => some ([], e)
  | c :: cs, o :: os => (pair? cs os).map (fun r => ((c, o) :: r.1, r.2))
  | _, _ => none

/-- byte offset of every character boundary: `[0, w c₀, w c₀ + w c₁, …, len]` -/
def prefixBytes : Nat → List Nat → List Nat
  | acc, [] => [acc]
  | acc, c :: cs => acc :: prefixBytes (acc + utf8w c) cs

/-- byte offset of character index `i`, the end of the text for an index beyond it -/
def offAt (offs : Array Nat) (i : Nat) : Nat :=
  match offs[i]? with
  | some x => x
  | none => match offs.back? with
    | some x => x
    | none => 0

/-- `resolve_edits`, first statement: the length of the result, from the edits alone
(`len + Σ (with.len() - what.len())`; `what.len()` is 0 for an inverted range) -/
def newLen (cur : List Nat) (es : List Edit) : Int :=
  let offs := (prefixBytes 0 cur).toArray
  es.foldl (fun len e => len + ((bytes e.rep : Int) - ((offAt offs e.e - offAt offs e.s : Nat) : Int))) (bytes cur : Int)

/-- `InputBuffer::commit`: nothing for an empty edit list; else clear `mod_chars` and the scratch pair,
`resolve_edits` into the scratch pair (nothing written when the result exceeds 65 535 bytes: `Err`),
swap.  Returns the buffer also when it fails (the object lives on). -/
def RBuf.commit (b : RBuf) (es : List Edit) : RBuf × Option Fail :=
  if es.isEmpty then (b, none)
  else
    let b1 : RBuf := { b with chars := [], modified2 := [], m2o2 := [] }
    if newLen b.modified es > 65535 then (b1, some .tooLong)
    else match pair? b.modified b.m2o with
      | none => (b1, some .panic)
      | some (body, endOff) =>
        match applyGoP endOff 0 es body with
        | none => (b1, some .panic)
        | some l =>
          let r := force0 ⟨l, endOff⟩
          ({ b1 with modified := b1.modified2 ++ r.text, m2o := b1.m2o2 ++ (r.body.map (·.2) ++ [r.endOff]),
                     modified2 := b.modified, m2o2 := b.m2o }, none)

/-- `InputBuffer::build`, the fields of this model: `mod_chars.clear()` + one `push` per character;
`fill_orig_b2c` overwrites `m2o_2` with the byte→character table of the original -/
def RBuf.build (b : RBuf) : RBuf :=
  { b with state := .ro, chars := b.modified, m2o2 := List.range (b.original.length + 1) }

/-- an input-text plugin: `uses_chars()` and the edits `rewrite_impl` pushes, a function of what the
public accessors of an RW buffer give it: `original()`, `current()`, the offset map, `current_chars()` -/
structure Plug where
  usesChars : Bool
  edits : (original modified m2o chars : List Nat) → List Edit

/-- `InputTextPlugin::rewrite` = `refresh_chars` if the plugin uses them, `with_editor` + `commit` -/
def RBuf.rewrite (p : Plug) (b : RBuf) : RBuf × Option Fail :=
  let b := if p.usesChars then b.refreshChars else b
  b.commit (p.edits b.original b.modified b.m2o b.chars)

/-- text and offset map after a plugin -/
abbrev Stage := List Nat × List Nat

/-- `rewrite_input`: the plugins in order, `?` on the first failure -/
def RBuf.rewriteAll : List Plug → RBuf → List Stage → RBuf × List Stage × Option Fail
  | [], b, acc => (b, acc.reverse, none)
  | p :: ps, b, acc =>
    match b.rewrite p with
    | (b', some f) => (b', acc.reverse, some f)
    | (b', none) => RBuf.rewriteAll ps b' ((b'.modified, b'.m2o) :: acc)

/-- `tok.reset().push_str(t)` and the input part of `do_tokenize`: `start_build`, `rewrite_input`, `build` -/
def RBuf.analyse (v : ResetV) (ps : List Plug) (b : RBuf) (t : List Nat) : RBuf × List Stage × Option Fail :=
  let b := (b.reset v).fill t
  match b.startBuild with
  | .error f => (b, [], some f)
  | .ok b =>
    match RBuf.rewriteAll ps b [] with
    | (b', st, some f) => (b', st, some f)
    | (b', st, none) => (b'.build, st, none)

/-- a long-lived analyser: the tokenizer's buffer and the result list's buffer -/
structure Analyser where
  tok : RBuf
  lst : RBuf
deriving Repr, DecidableEq

def Analyser.new : Analyser := ⟨RBuf.new, RBuf.new⟩

/-- one `reset / push_str / do_tokenize` and, when it succeeded, `collect_results` (swap) -/
def Analyser.step (v : ResetV) (ps : List Plug) (a : Analyser) (t : List Nat) : Analyser :=
  match a.tok.analyse v ps t with
  | (b, _, none) => ⟨a.lst, b⟩
  | (b, _, some _) => ⟨b, a.lst⟩

def Analyser.run (v : ResetV) (ps : List Plug) (a : Analyser) (hist : List (List Nat)) : Analyser :=
  hist.foldl (Analyser.step v ps) a

/-- `rewrite_impl` of the default plugin on a buffer: the path is chosen from `current_chars()`, the
edits are computed on `current()` -/
def defaultEditsOn (U : Uni) (T : Table) (earliest : Bool) (chars cur : List Nat) : List Edit :=
  if useSlow U chars then replaceSlow U T earliest cur else replaceFast T cur

def defaultPlug (U : Uni) (T : Table) (earliest : Bool) : Plug :=
  ⟨true, fun _ cur _ chars => defaultEditsOn U T earliest chars cur⟩

def psmPlug (marks rep : List Nat) : Plug := ⟨false, fun _ cur _ _ => psmEdits marks rep cur⟩

def yomiPlug (Y : Yomi) : Plug := ⟨false, fun _ cur _ _ => yomiEdits Y cur⟩

/-! ## driver entry -/

structure Fact where
  c : Nat
  up : Bool
  qc : QC
  ccc : Nat
  kanji : Bool
  kana : Bool
  lower : List Nat
  nfkc1 : List Nat     -- NFKC of the scalar alone
  nfkcL : List Nat     -- NFKC of its lower-case mapping

def findFactGo (a : Array Fact) (c : Nat) : Nat → Nat → Nat → Option Fact
  | 0, _, _ => none
  | fuel + 1, lo, hi =>
    if lo ≥ hi then none else
    let mid := (lo + hi) / 2
    match a[mid]? with
    | none => none
    | some f => if f.c = c then some f else if f.c < c then findFactGo a c fuel (mid + 1) hi else findFactGo a c fuel lo mid

/-- facts are shipped sorted by code point -/
def findFact (a : Array Fact) (c : Nat) : Option Fact := findFactGo a c (a.size + 1) 0 a.size

/-- instantiate the parameters from the shipped table; a character without facts is reported by
`covered`, never defaulted silently (the defaults below are unreachable for covered texts) -/
def uniOf (a : Array Fact) : Uni where
  isUpper c := match findFact a c with | some f => f.up | none => false
  lower c := match findFact a c with | some f => f.lower | none => [c]
  nfkc s := match s with
    | [c] => (match findFact a c with | some f => f.nfkc1 | none => s)
    | _ => (match a.find? (fun f => f.lower == s) with | some f => f.nfkcL | none => s)
  qc c := match findFact a c with | some f => f.qc | none => QC.yes
  ccc c := match findFact a c with | some f => f.ccc | none => 0

def covered (a : Array Fact) (s : List Nat) : Bool := s.all (fun c => (findFact a c).isSome)

def sepList? (sep : Char) (s : List Char) : Option (List Nat) := Wire.allSome ((Wire.items sep s).map Wire.nat?)

def fact? (s : List Char) : Option Fact :=
  match Wire.splitOn ':' s with
  | [c, up, qc, ccc, kj, kn, lo, n1, nl] =>
    match Wire.nat? c, Wire.nat? up, Wire.nat? qc, Wire.nat? ccc, Wire.nat? kj, Wire.nat? kn,
          sepList? '.' lo, sepList? '.' n1, sepList? '.' nl with
    | some c, some up, some qc, some ccc, some kj, some kn, some lo, some n1, some nl =>
      some ⟨c, up != 0, (if qc = 0 then QC.yes else if qc = 1 then QC.no else QC.maybe), ccc, kj != 0, kn != 0, lo, n1, nl⟩
    | _, _, _, _, _, _, _, _, _ => none
  | _ => none

def facts? (s : List Char) : Option (Array Fact) :=
  (Wire.allSome ((Wire.items ';' s).map fact?)).map List.toArray

/-- a text on the wire: code points separated by `,`, an item `c*n` standing for `n` copies of `c` -/
def rleItem? (s : List Char) : Option (List Nat) :=
  match Wire.splitOn '*' s with
  | [c] => (Wire.nat? c).map (fun c => [c])
  | [c, n] => match Wire.nat? c, Wire.nat? n with
    | some c, some n => some (List.replicate n c)
    | _, _ => none
  | _ => none

def text? (s : List Char) : Option (List Nat) :=
  if s = ['-'] then some [] else     -- an empty text inside a `;`-separated list
  (Wire.allSome ((Wire.items ',' s).map rleItem?)).map List.flatten

structure Setup where
  table : Option Table          -- `none` when the pipeline has no default plugin
  earliest : Bool
  marks : List Nat
  rep : List Nat
  yl : List Nat
  yr : List Nat
  yn : Nat

/-- plugin set-up can fail: `read_rewrite_lists` errors, the PSM regex `[]{2,}` (empty mark set)
and the yomigana regex `{1,0}` do not compile -/
def loadOk (pipe : List Char) (def? : Option (Option Table)) (S : Setup) : Bool :=
  pipe.all (fun p =>
    if p = 'D' then (match def? with | some (some _) => true | _ => false)
    else if p = 'P' then !S.marks.isEmpty
    else if p = 'Y' then S.yn ≥ 1
    else false)

/-- the configured plugin behind a letter of `pipe=` -/
def plugOf (a : Array Fact) (S : Setup) (p : Char) : Plug :=
  if p = 'D' then (match S.table with
    | some T => defaultPlug (uniOf a) T S.earliest
    | none => ⟨true, fun _ _ _ _ => []⟩)
  else if p = 'P' then psmPlug S.marks S.rep
  else yomiPlug ⟨fun c => match findFact a c with | some f => f.kanji | none => false,
                 fun c => match findFact a c with | some f => f.kana | none => false, S.yl, S.yr, S.yn⟩

def showStage (a : Array Fact) (p : Char) (input : List Nat) (st : Stage) : String :=
  "t=" ++ Wire.showNats st.1 ++ " m=" ++ Wire.showNats st.2 ++
    (if p = 'D' then " q=" ++ (if useSlow (uniOf a) input then "1" else "0") else "")

/-- the stages with, for the default plugin, the path `rewrite_impl` chooses on the stage's input -/
def showStages (a : Array Fact) : List Char → List Nat → List Stage → List String
  | p :: ps, input, st :: sts => showStage a p input st :: showStages a ps st.1 sts
  | _, _, _ => []

def stateNum : BState → Nat
  | .clean => 0 | .rw => 1 | .ro => 2

/-- every text a plugin of the run reads has facts for all its characters -/
def allCovered (a : Array Fact) (t : List Nat) (sts : List Stage) : Bool :=
  covered a t && sts.all (fun st => covered a st.1)

/-- the answer for one analysed text; `rec` = also print the hidden state of the tokenizer's buffer -/
def showAnalysis (a : Array Fact) (pipe : List Char) (t : List Nat) (r : RBuf × List Stage × Option Fail)
    (rec : Bool) : String :=
  if !allCovered a t r.2.1 then "bad-facts" else
  match r.2.2 with
  | some .panic => "PANIC"
  | failed =>
    let body := Wire.joinWith " " ("ok" :: showStages a pipe t r.2.1)
    let body := if failed.isSome then body ++ " toolong" else body
    let body := if rec && failed.isNone then
        body ++ " fin=" ++ Wire.showNats r.1.modified ++ " fm=" ++ Wire.showNats r.1.m2o else body
    if rec then body ++ " rec=" ++ toString (stateNum r.1.state) ++ ":" ++ toString (bytes r.1.modified2) else body

/-- final text of the last stage only (sweep lines) -/
def showLast (a : Array Fact) (t : List Nat) (r : RBuf × List Stage × Option Fail) : String :=
  if !allCovered a t r.2.1 then "bad-facts" else
  match r.2.2 with
  | some .panic => "PANIC"
  | some .tooLong => "toolong"
  | none => match r.2.1.getLast? with
    | some st => Wire.showNats st.1
    | none => "-"

def setup? (toks : List (List Char)) : Option (List Char × Option (Option Table) × Setup) :=
  match Wire.kv? toks "pipe", Wire.kv? toks "early", Wire.kv? toks "pm", Wire.kv? toks "pr",
        Wire.kv? toks "yl", Wire.kv? toks "yr", Wire.kv? toks "yn" with
  | some pipe, some early, some pm, some pr, some yl, some yr, some yn =>
    let def? : Option (Option Table) := match Wire.kv? toks "def" with
      | none => none
      | some d => match Wire.hexBytes? d with
        | none => some none
        | some bytes => match Wire.utf8Decode bytes with
          | none => some none
          | some cps => some (parseDef cps)
    match Wire.natList? pm, (if pr = ['-'] then some [0x30FC] else Wire.natList? pr), Wire.natList? yl, Wire.natList? yr, Wire.nat? yn with
    | some pm, some pr, some yl, some yr, some yn =>
      let T : Option Table := match def? with | some (some t) => some t | _ => none
      some (pipe, def?, ⟨T, early = ['1'], pm, pr, yl, yr, yn⟩)
    | _, _, _, _, _ => none
  | _, _, _, _, _, _, _ => none

/-- `C07 run  idx= pipe=<D|P|Y...> early=<0|1> def=<hex> pm= pr= yl= yr= yn= uni=<facts> [hist=<text;text;...>] text=<text>`
      without `hist=`: the text on a new buffer (no `build`); with `hist=` (possibly empty): on the tokenizer of an
      analyser (tokenizer + result list, swapping) that analysed the history texts before
    `C07 sweep ... texts=<cps;cps;...>` (same set-up, many texts, final stage only) -/
def handle (op : List Char) (toks : List (List Char)) : String :=
  match setup? toks, Wire.kv? toks "uni" with
  | some (pipe, def?, S), some u =>
    match facts? u with
    | none => "bad-op"
    | some a =>
      if !loadOk pipe def? S then "err" else
      let ps := pipe.map (plugOf a S)
      if op = "run".toList then
        match Wire.kv? toks "text" with
        | some t => (match text? t with
          | some s =>
            match Wire.kv? toks "hist" with
            | none => showAnalysis a pipe s (RBuf.new.analyse .cur ps s) false
            | some h =>
              match Wire.allSome ((Wire.items ';' h).map text?) with
              | some hs => showAnalysis a pipe s ((Analyser.run .cur ps Analyser.new hs).tok.analyse .cur ps s) true
              | none => "bad-op"
          | none => "bad-op")
        | none => "bad-op"
      else if op = "sweep".toList then
        match Wire.kv? toks "texts" with
        | some t =>
          match Wire.allSome ((Wire.items ';' t).map Wire.natList?) with
          | some ts => "ok " ++ Wire.joinWith ";" (ts.map (fun s => showLast a s (RBuf.new.analyse .cur ps s)))
          | none => "bad-op"
        | none => "bad-op"
      else "bad-op"
  | _, _ => "bad-op"

end Normalize
