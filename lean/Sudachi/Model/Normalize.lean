import Sudachi.Model.Wire
/-!
# Model of the input-text plugins  (property C07; the edit lists are reused by C01/C08)

Anchors: `sudachi/src/plugin/input_text/default_input_text/mod.rs` (`read_rewrite_lists`,
`replace_fast`, `replace_slow`, `handle_normalization_slow`, `rewrite_impl`),
`.../prolonged_sound_mark/mod.rs`, `.../ignore_yomigana/mod.rs`,
`sudachi/src/plugin/input_text/mod.rs` (`rewrite` = `with_editor` + `commit`),
`sudachi/src/input_text/buffer/edit.rs` (`resolve_edits`, `add_replace`) at code-point granularity.

Text is a list of Unicode scalar values.  Positions are code-point indices; the Rust byte offsets
are the prefix sums of the UTF-8 widths, a strictly monotone bijection between code-point
boundaries and the byte boundaries the Rust code ever uses (all ranges come from `char_indices`,
from matches of valid UTF-8 literals or from regex matches, which lie on character boundaries).

Parameters (external libraries, trusted base):
* `Uni` — `char::is_uppercase`, `char::to_lowercase`, NFKC of a scalar sequence, the NFKC
  quick-check class and the canonical combining class (`unicode-normalization`);
  `isNfkcQuick` is the crate's `quick_check` loop transcribed over these.
* `aho_corasick` — `longestAt` (leftmost-longest, anchored or as the step of the unanchored
  iterator) and `shortestAt` (anchored search with `.earliest(true)`).
* `regex` — direct matchers for the two patterns the plugins build (`[marks]{2,}` and
  `K(L R{1,n} B)`).
-/
namespace Normalize

/-! ## Unicode facts (parameters) -/

inductive QC where
  | yes | no | maybe
deriving Repr, DecidableEq

structure Uni where
  isUpper : Nat → Bool
  lower : Nat → List Nat
  /-- NFKC of a sequence of scalar values (`iter.nfkc()`) -/
  nfkc : List Nat → List Nat
  qc : Nat → QC
  ccc : Nat → Nat

/-- `unicode_normalization::quick_check(s, qc_nfkc, stream_safe = false)`:
state = (last combining class, result so far) -/
def quickGo (U : Uni) : Nat → QC → List Nat → QC
  | _, r, [] => r
  | last, r, c :: cs =>
    if c ≤ 0x7f then quickGo U 0 r cs        -- ASCII: always allowed and a starter
    else
      let cc := U.ccc c
      if last > cc && cc != 0 then QC.no
      else match U.qc c with
        | QC.yes => quickGo U cc r cs
        | QC.no => QC.no
        | QC.maybe => quickGo U cc QC.maybe cs

/-- `is_nfkc_quick` -/
def isNfkcQuick (U : Uni) (s : List Nat) : QC := quickGo U 0 QC.yes s

/-! ## rewrite table -/

abbrev Pair := List Nat × List Nat

structure Table where
  /-- `ignore_normalize_set` -/
  ignore : List Nat
  /-- `replace_char_map` (keys are non-empty and pairwise distinct when produced by `parseDef`) -/
  pairs : List Pair
deriving Repr

/-- `char::is_whitespace` (Unicode `White_Space`), used by `str::trim` and `split_whitespace` -/
def isWhite (c : Nat) : Bool :=
  (9 ≤ c && c ≤ 13) || c == 32 || c == 0x85 || c == 0xA0 || c == 0x1680 ||
  (0x2000 ≤ c && c ≤ 0x200A) || c == 0x2028 || c == 0x2029 || c == 0x202F || c == 0x205F || c == 0x3000

/-- `split_whitespace` -/
def wordsGo : List Nat → List Nat → List (List Nat) → List (List Nat)
  | [], cur, acc => if cur.isEmpty then acc else cur.reverse :: acc
  | c :: cs, cur, acc =>
    if isWhite c then (if cur.isEmpty then wordsGo cs [] acc else wordsGo cs [] (cur.reverse :: acc))
    else wordsGo cs (c :: cur) acc

def wordsOf (s : List Nat) : List (List Nat) := (wordsGo s [] []).reverse

/-- `BufRead::lines` followed by `trim`: splitting on `\n`; the optional `\r` is white space -/
def splitLines : List Nat → List (List Nat)
  | [] => [[]]
  | c :: cs =>
    match splitLines cs with
    | [] => [[]]
    | w :: ws => if c = 10 then [] :: w :: ws else (c :: w) :: ws

/-- the loop body of `read_rewrite_lists`; `none` = `Err(InvalidDataFormat)` -/
def parseStep (t : Table) (line : List Nat) : Option Table :=
  match wordsOf line with
  | [] => some t                                   -- empty after trim
  | (35 :: _) :: _ => some t                       -- starts with '#'
  | [w] => match w with
    | [c] => some { t with ignore := c :: t.ignore }
    | _ => none                                    -- "... is not character"
  | [k, v] =>
    if t.pairs.any (fun p => p.1 == k) then none   -- "... is already defined"
    else some { t with pairs := t.pairs ++ [(k, v)] }
  | _ => none

def parseLines : List (List Nat) → Table → Option Table
  | [], t => some t
  | l :: ls, t => match parseStep t l with
    | none => none
    | some t' => parseLines ls t'

def parseDef (text : List Nat) : Option Table := parseLines (splitLines text) ⟨[], []⟩

/-! ## aho-corasick, by its documented match semantics -/

def isKeyAt (p : Pair) (s : List Nat) : Bool := !p.1.isEmpty && p.1.isPrefixOf s

/-- the longest key of the table that is a prefix of `s` (`MatchKind::LeftmostLongest`, anchored) -/
def longestAt : List Pair → List Nat → Option Pair
  | [], _ => none
  | p :: ps, s =>
    if isKeyAt p s then
      match longestAt ps s with
      | some q => if p.1.length < q.1.length then some q else some p
      | none => some p
    else longestAt ps s

/-- the shortest key of the table that is a prefix of `s` (anchored search with `.earliest(true)`:
the automaton reports the first match state it enters) -/
def shortestAt : List Pair → List Nat → Option Pair
  | [], _ => none
  | p :: ps, s =>
    if isKeyAt p s then
      match shortestAt ps s with
      | some q => if q.1.length < p.1.length then some q else some p
      | none => some p
    else shortestAt ps s

/-- `checker.find(Input::new(cur).anchored(Yes).earliest(e).set_start(offset))` -/
def anchoredFind (earliest : Bool) (ps : List Pair) (s : List Nat) : Option Pair :=
  if earliest then shortestAt ps s else longestAt ps s

theorem longestAt_key_ne_nil {ps : List Pair} {s : List Nat} {p : Pair}
    (h : longestAt ps s = some p) : p.1 ≠ [] := by
  induction ps generalizing p with
  | nil => simp [longestAt] at h
  | cons q qs ih =>
    simp only [longestAt] at h
    split at h
    · rename_i hk
      have hq : q.1 ≠ [] := by
        simp only [isKeyAt, Bool.and_eq_true, Bool.not_eq_true', List.isEmpty_eq_false_iff] at hk
        exact hk.1
      split at h
      · rename_i r hr
        split at h
        · injection h with h; subst h; exact ih hr
        · injection h with h; subst h; exact hq
      · injection h with h; subst h; exact hq
    · exact ih h

structure Edit where
  s : Nat
  e : Nat
  rep : List Nat
deriving Repr, DecidableEq

/-- `checker.find_iter(Input::new(cur).anchored(No))`: leftmost-longest, non-overlapping, each
emitted as `replace_ref(m.start()..m.end(), replacements[m.pattern()])` (`replace_fast`) -/
def fastGo (ps : List Pair) (pos : Nat) (s : List Nat) : List Edit :=
  match s with
  | [] => []
  | c :: cs =>
    match h : longestAt ps (c :: cs) with
    | some p => ⟨pos, pos + p.1.length, p.2⟩ :: fastGo ps (pos + p.1.length) ((c :: cs).drop p.1.length)
    | none => fastGo ps (pos + 1) cs
termination_by s.length
decreasing_by
  · have := longestAt_key_ne_nil h
    have : 0 < p.1.length := List.length_pos_iff.mpr this
    simp only [List.length_drop, List.length_cons]; omega
  · simp

/-! ## slow path -/

/-- step 2 of `replace_slow`: which iterator is handed to `handle_normalization_slow`
(`none` = `(false, false) => continue`) -/
def charData (U : Uni) (ignore : List Nat) (c : Nat) : Option (List Nat) :=
  let needLower := U.isUpper c
  let needNfkc := !ignore.contains c && (isNfkcQuick U [c] != QC.yes)
  match needLower, needNfkc with
  | false, false => none
  | true, false => some (U.lower c)
  | false, true => some (U.nfkc [c])
  | true, true => some (U.nfkc (U.lower c))

/-- `handle_normalization_slow` + `replace_char_iter`: nothing when the iterator is empty or its
first item equals the input character -/
def charEdit (pos c : Nat) : Option (List Nat) → Option Edit
  | none => none
  | some [] => none
  | some (d :: ds) => if d = c then none else some ⟨pos, pos + 1, d :: ds⟩

/-- the `for (offset, ch) in cur.char_indices()` loop of `replace_slow`;
`pos` = index of `ch`, `mo` = `min_offset` -/
def slowGo (U : Uni) (T : Table) (earliest : Bool) : Nat → Nat → List Nat → List Edit
  | _, _, [] => []
  | pos, mo, c :: cs =>
    if pos < mo then slowGo U T earliest (pos + 1) mo cs
    else match anchoredFind earliest T.pairs (c :: cs) with
      | some p => ⟨pos, pos + p.1.length, p.2⟩ :: slowGo U T earliest (pos + 1) (pos + p.1.length) cs
      | none =>
        match charEdit pos c (charData U T.ignore c) with
        | some e => e :: slowGo U T earliest (pos + 1) mo cs
        | none => slowGo U T earliest (pos + 1) mo cs

def replaceSlow (U : Uni) (T : Table) (earliest : Bool) (s : List Nat) : List Edit :=
  slowGo U T earliest 0 0 s

def replaceFast (T : Table) (s : List Nat) : List Edit := fastGo T.pairs 0 s

/-- `rewrite_impl`: the path is chosen by the whole-text quick check and `any(is_uppercase)` -/
def useSlow (U : Uni) (s : List Nat) : Bool :=
  (isNfkcQuick U s != QC.yes) || s.any U.isUpper

def defaultEdits (U : Uni) (T : Table) (earliest : Bool) (s : List Nat) : List Edit :=
  if useSlow U s then replaceSlow U T earliest s else replaceFast T s

/-! ## prolonged sound marks: `[marks]{2,}`, `find_iter` -/

def psmGo (marks rep : List Nat) (pos : Nat) (s : List Nat) : List Edit :=
  match s with
  | [] => []
  | c :: cs =>
    if h : 2 ≤ ((c :: cs).takeWhile marks.contains).length then
      ⟨pos, pos + ((c :: cs).takeWhile marks.contains).length, rep⟩ ::
        psmGo marks rep (pos + ((c :: cs).takeWhile marks.contains).length)
          ((c :: cs).drop ((c :: cs).takeWhile marks.contains).length)
    else psmGo marks rep (pos + 1) cs
termination_by s.length
decreasing_by
  · simp only [List.length_drop, List.length_cons]; omega
  · simp

def psmEdits (marks rep : List Nat) (s : List Nat) : List Edit := psmGo marks rep 0 s

/-! ## yomigana: `K(L R{1,n} B)`, `captures_iter`, group 1 deleted -/

structure Yomi where
  kanji : Nat → Bool        -- class built from the character categories intersecting KANJI
  kana : Nat → Bool         -- ... intersecting HIRAGANA | KATAKANA
  left : List Nat
  right : List Nat
  max : Nat                 -- `maxYomiganaLength`

/-- greedy `R{1,n}` then `B`, backtracking: the largest `k ≤ m` with `1 ≤ k` and `s[k] ∈ B`
(`s` starts at the first reading character; the first `m` items of `s` are readings) -/
def backtrack (right : List Nat) (s : List Nat) : Nat → Option Nat
  | 0 => none
  | k + 1 =>
    match s.drop (k + 1) with
    | b :: _ => if right.contains b then some (k + 1) else backtrack right s k
    | [] => backtrack right s k

/-- match of the whole pattern at the head of `s`; result = number of reading characters -/
def yomiAt (Y : Yomi) : List Nat → Option Nat
  | k :: l :: rest =>
    if Y.kanji k && Y.left.contains l then
      let run := (rest.takeWhile Y.kana).length
      backtrack Y.right rest (min run Y.max)
    else none
  | _ => none

def yomiGo (Y : Yomi) (pos : Nat) (s : List Nat) : List Edit :=
  match s with
  | [] => []
  | c :: cs =>
    match yomiAt Y (c :: cs) with
    | some k => ⟨pos + 1, pos + k + 3, []⟩ :: yomiGo Y (pos + k + 3) ((c :: cs).drop (k + 3))
    | none => yomiGo Y (pos + 1) cs
termination_by s.length
decreasing_by
  · simp only [List.length_drop, List.length_cons]; omega
  · simp

def yomiEdits (Y : Yomi) (s : List Nat) : List Edit := yomiGo Y 0 s

/-! ## `resolve_edits` at code-point granularity -/

/-- text only: `target.push_str(&source[start..edit.start])`, replacement, `start = edit.end`, tail.
`none` = the slice panics (edit out of order / out of range). -/
def applyGo : Nat → List Edit → List Nat → Option (List Nat)
  | _, [], s => some s
  | pos, e :: es, s =>
    if e.s < pos ∨ e.e < e.s ∨ pos + s.length < e.e then none
    else (applyGo e.e es (s.drop (e.e - pos))).map (fun t => s.take (e.s - pos) ++ e.rep ++ t)

def applyEdits (es : List Edit) (s : List Nat) : Option (List Nat) := applyGo 0 es s

/-- offset stored for the first item of `l` (`source_mapping[i]`), the sentinel when `l` is empty -/
def offHead (endOff : Nat) : List (Nat × Nat) → Nat
  | [] => endOff
  | p :: _ => p.2

/-- `add_replace`: first character ↦ `source_mapping[what.start]`, every later one ↦
`source_mapping[what.end]` (observed at character boundaries) -/
def replP (o1 o2 : Nat) : List Nat → List (Nat × Nat)
  | [] => []
  | r :: rs => (r, o1) :: rs.map (fun x => (x, o2))

/-- text paired with the offset map entry of each character's first byte -/
def applyGoP (endOff : Nat) : Nat → List Edit → List (Nat × Nat) → Option (List (Nat × Nat))
  | _, [], l => some l
  | pos, e :: es, l =>
    if e.s < pos ∨ e.e < e.s ∨ pos + l.length < e.e then none
    else
      let o1 := offHead endOff (l.drop (e.s - pos))
      let tail := l.drop (e.e - pos)
      let o2 := offHead endOff tail
      (applyGoP endOff e.e es tail).map (fun t => l.take (e.s - pos) ++ replP o1 o2 e.rep ++ t)

structure Buf where
  body : List (Nat × Nat)
  endOff : Nat
deriving Repr

/-- "first byte of mapping MUST be 0" -/
def force0 (b : Buf) : Buf :=
  match b.body with
  | [] => ⟨[], 0⟩
  | (c, _) :: r => ⟨(c, 0) :: r, b.endOff⟩

/-- `InputBuffer::commit` (`None` = panic inside `resolve_edits`) -/
def commit (b : Buf) (es : List Edit) : Option Buf :=
  if es.isEmpty then some b
  else (applyGoP b.endOff 0 es b.body).map (fun l => force0 ⟨l, b.endOff⟩)

def utf8w (c : Nat) : Nat := if c < 0x80 then 1 else if c < 0x800 then 2 else if c < 0x10000 then 3 else 4

def initGo : Nat → List Nat → List (Nat × Nat) × Nat
  | off, [] => ([], off)
  | off, c :: cs => let r := initGo (off + utf8w c) cs; ((c, off) :: r.1, r.2)

/-- `start_build`: `m2o = 0..=len` -/
def initBuf (s : List Nat) : Buf := let r := initGo 0 s; ⟨r.1, r.2⟩

def Buf.text (b : Buf) : List Nat := b.body.map (·.1)

/-! ## driver entry -/

structure Fact where
  c : Nat
  up : Bool
  qc : QC
  ccc : Nat
  kanji : Bool
  kana : Bool
  lower : List Nat
  nfkc1 : List Nat     -- NFKC of the scalar alone
  nfkcL : List Nat     -- NFKC of its lower-case mapping

def findFactGo (a : Array Fact) (c : Nat) : Nat → Nat → Nat → Option Fact
  | 0, _, _ => none
  | fuel + 1, lo, hi =>
    if lo ≥ hi then none else
    let mid := (lo + hi) / 2
    match a[mid]? with
    | none => none
    | some f => if f.c = c then some f else if f.c < c then findFactGo a c fuel (mid + 1) hi else findFactGo a c fuel lo mid

/-- facts are shipped sorted by code point -/
def findFact (a : Array Fact) (c : Nat) : Option Fact := findFactGo a c (a.size + 1) 0 a.size

/-- instantiate the parameters from the shipped table; a character without facts is reported by
`covered`, never defaulted silently (the defaults below are unreachable for covered texts) -/
def uniOf (a : Array Fact) : Uni where
  isUpper c := match findFact a c with | some f => f.up | none => false
  lower c := match findFact a c with | some f => f.lower | none => [c]
  nfkc s := match s with
    | [c] => (match findFact a c with | some f => f.nfkc1 | none => s)
    | _ => (match a.find? (fun f => f.lower == s) with | some f => f.nfkcL | none => s)
  qc c := match findFact a c with | some f => f.qc | none => QC.yes
  ccc c := match findFact a c with | some f => f.ccc | none => 0

def covered (a : Array Fact) (s : List Nat) : Bool := s.all (fun c => (findFact a c).isSome)

def sepList? (sep : Char) (s : List Char) : Option (List Nat) := Wire.allSome ((Wire.items sep s).map Wire.nat?)

def fact? (s : List Char) : Option Fact :=
  match Wire.splitOn ':' s with
  | [c, up, qc, ccc, kj, kn, lo, n1, nl] =>
    match Wire.nat? c, Wire.nat? up, Wire.nat? qc, Wire.nat? ccc, Wire.nat? kj, Wire.nat? kn,
          sepList? '.' lo, sepList? '.' n1, sepList? '.' nl with
    | some c, some up, some qc, some ccc, some kj, some kn, some lo, some n1, some nl =>
      some ⟨c, up != 0, (if qc = 0 then QC.yes else if qc = 1 then QC.no else QC.maybe), ccc, kj != 0, kn != 0, lo, n1, nl⟩
    | _, _, _, _, _, _, _, _, _ => none
  | _ => none

def facts? (s : List Char) : Option (Array Fact) :=
  (Wire.allSome ((Wire.items ';' s).map fact?)).map List.toArray

structure Setup where
  table : Option Table          -- `none` when the pipeline has no default plugin
  earliest : Bool
  marks : List Nat
  rep : List Nat
  yl : List Nat
  yr : List Nat
  yn : Nat

/-- plugin set-up can fail: `read_rewrite_lists` errors, the PSM regex `[]{2,}` (empty mark set)
and the yomigana regex `{1,0}` do not compile -/
def loadOk (pipe : List Char) (def? : Option (Option Table)) (S : Setup) : Bool :=
  pipe.all (fun p =>
    if p = 'D' then (match def? with | some (some _) => true | _ => false)
    else if p = 'P' then !S.marks.isEmpty
    else if p = 'Y' then S.yn ≥ 1
    else false)

def showBuf (b : Buf) : String :=
  "t=" ++ Wire.showNats b.text ++ " m=" ++ Wire.showNats (b.body.map (·.2) ++ [b.endOff])

/-- run the plugins in order; every stage is recorded (`Except.error` = `bad-facts` / `PANIC`) -/
def runPipe (a : Array Fact) (S : Setup) : List Char → Buf → List Buf → Except String (List Buf)
  | [], _, acc => .ok acc.reverse
  | p :: ps, b, acc =>
    if !covered a b.text then .error "bad-facts" else
    let U := uniOf a
    let es : List Edit :=
      if p = 'D' then (match S.table with | some T => defaultEdits U T S.earliest b.text | none => [])
      else if p = 'P' then psmEdits S.marks S.rep b.text
      else
        let Y : Yomi := ⟨fun c => match findFact a c with | some f => f.kanji | none => false,
                         fun c => match findFact a c with | some f => f.kana | none => false, S.yl, S.yr, S.yn⟩
        yomiEdits Y b.text
    match commit b es with
    | none => .error "PANIC"
    | some b' => runPipe a S ps b' (b' :: acc)

def showRun (r : Except String (List Buf)) : String :=
  match r with
  | .error e => e
  | .ok bs => Wire.joinWith " " ("ok" :: bs.map showBuf)

def showLast (r : Except String (List Buf)) : String :=
  match r with
  | .error e => e
  | .ok bs => match bs.getLast? with
    | some b => Wire.showNats b.text
    | none => "-"

def setup? (toks : List (List Char)) : Option (List Char × Option (Option Table) × Setup) :=
  match Wire.kv? toks "pipe", Wire.kv? toks "early", Wire.kv? toks "pm", Wire.kv? toks "pr",
        Wire.kv? toks "yl", Wire.kv? toks "yr", Wire.kv? toks "yn" with
  | some pipe, some early, some pm, some pr, some yl, some yr, some yn =>
    let def? : Option (Option Table) := match Wire.kv? toks "def" with
      | none => none
      | some d => match Wire.hexBytes? d with
        | none => some none
        | some bytes => match Wire.utf8Decode bytes with
          | none => some none
          | some cps => some (parseDef cps)
    match Wire.natList? pm, (if pr = ['-'] then some [0x30FC] else Wire.natList? pr), Wire.natList? yl, Wire.natList? yr, Wire.nat? yn with
    | some pm, some pr, some yl, some yr, some yn =>
      let T : Option Table := match def? with | some (some t) => some t | _ => none
      some (pipe, def?, ⟨T, early = ['1'], pm, pr, yl, yr, yn⟩)
    | _, _, _, _, _ => none
  | _, _, _, _, _, _, _ => none

/-- `C07 run  idx= pipe=<D|P|Y...> early=<0|1> def=<hex> pm= pr= yl= yr= yn= uni=<facts> text=<cps>`
    `C07 sweep ... texts=<cps;cps;...>` (same set-up, many texts, final stage only) -/
def handle (op : List Char) (toks : List (List Char)) : String :=
  match setup? toks, Wire.kv? toks "uni" with
  | some (pipe, def?, S), some u =>
    match facts? u with
    | none => "bad-op"
    | some a =>
      if !loadOk pipe def? S then "err" else
      if op = "run".toList then
        match Wire.kv? toks "text" with
        | some t => (match Wire.natList? t with
          | some s => showRun (runPipe a S pipe (initBuf s) [])
          | none => "bad-op")
        | none => "bad-op"
      else if op = "sweep".toList then
        match Wire.kv? toks "texts" with
        | some t =>
          match Wire.allSome ((Wire.items ';' t).map Wire.natList?) with
          | some ts => "ok " ++ Wire.joinWith ";" (ts.map (fun s => showLast (runPipe a S pipe (initBuf s) [])))
          | none => "bad-op"
        | none => "bad-op"
      else "bad-op"
  | _, _ => "bad-op"

end Normalize
