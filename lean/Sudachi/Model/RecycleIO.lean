import Sudachi.Model.Recycle
import Sudachi.Model.RecycleFast
/-!
# Line protocol of C10: replay a history through the discipline model and print every recycled length

`C10 hist idx=N mode=<0|1|2> [reset_variant=cur|fix] ops=<op>/<op>/…` → `ok <state after op 1>|<state after op 2>|…`
`C10 pysess idx=N mode=m fields=bits [reset_variant=…] calls=<call>/…` → what Python sees after every `tokenize` call.

The element type is `Nat`.  Text buffers hold one element per byte: `1` for the first byte of a
character, `0` otherwise, so `chars`, `c2b`, `b2c`, `identMap` are real functions of the buffer content
(a stale prefix would propagate exactly as in the Rust).  Data-dependent payloads (what a plugin
replaces, the candidates per offset, the final path, where an analysis fails) are the facts the
harness measured on a FRESH tokenizer/buffer for the same text; they are attached to the operation.
Result nodes carry their IDENTITY (`q<id>,<id>,…`: one number per morpheme of the fresh result - hash of its range in
the normalised text, word id and cumulative cost; the nodes `split_into`/`lookup` appended), so the printed state
compares the CONTENT of every result list (`hashNodes`), not only its length, through every swap / append / clear.

Executed path: `handle` runs `replayX` (lattice rows as arrays, `Model/RecycleFast.lean`) with `payloadOfA`
(candidates in an array); `handleL`/`replay`/`payloadOf` are the list-model specification, `handle = handleL` is
`Recycle.IO.handle_eq` (`C10.driver_answer_eq_model`).
-/
namespace Recycle.IO
open Recycle

def modeOf (n : Nat) : Mode := if n % 3 = 0 then .C else if n % 3 = 1 then .A else .B
def modeNum : Mode → Nat | .C => 0 | .A => 1 | .B => 2

def subsetOfBits (n : Nat) : Subset :=
  ⟨n.testBit 0, n.testBit 1, n.testBit 2, n.testBit 3, n.testBit 4, n.testBit 5, n.testBit 6, n.testBit 7,
   n.testBit 8, n.testBit 9⟩

def bitsOfSubset (s : Subset) : Nat :=
  (if s.surface then 1 else 0) + (if s.headLen then 2 else 0) + (if s.pos then 4 else 0) +
  (if s.norm then 8 else 0) + (if s.dicForm then 16 else 0) + (if s.reading then 32 else 0) +
  (if s.splitA then 64 else 0) + (if s.splitB then 128 else 0) + (if s.wordStruct then 256 else 0) +
  (if s.syn then 512 else 0)

/-- `3x200.1x5` → byte flags of 200 three-byte characters followed by 5 one-byte ones; `-` = empty -/
def flagsOfRle (s : List Char) : Option (List Nat) :=
  if s = ['-'] then some [] else
  (Wire.splitOn '.' s).foldr (fun run acc =>
    match acc, Wire.splitOn 'x' run with
    | some rest, [w, k] =>
      match Wire.nat? w, Wire.nat? k with
      | some w, some k =>
        let one := 1 :: List.replicate (w - 1) 0
        some ((List.replicate k one).flatten ++ rest)
      | _, _ => none
    | _, _ => none) (some [])

def countChars (l : List Nat) : Nat := l.foldl (fun n b => if b = 1 then n + 1 else n) 0

inductive PlugKind
  | noEdit
  | edit (newMod : List Nat) (mapLen : Nat)
  | tooLong (m2Len mapLen : Nat)

structure PlugFact where
  usesChars : Bool
  kind : PlugKind

/-- how the path phase ends: `path n` = n nodes without identity, `nodes l` = the nodes of the fresh result (one
number per morpheme: a hash of its range, word id and cost), `fail`/`unwind` = Err / panic after the path was taken,
`none` = not reached -/
inductive Tail | path (n : Nat) | nodes (l : List Nat) | fail | unwind | none

structure AFacts where
  text : List Nat
  plugs : List PlugFact
  cands : List (List Nat)
  eos : Bool
  tail : Tail

def zeros (n : Nat) : List Nat := List.replicate n 0

def nthD {α : Type} (l : List α) (n : Nat) (d : α) : α := match l[n]? with | some x => x | none => d

/-- the payload of one operation (all facts default to "nothing"); `candsAt off` = ends of the candidates that
start at character offset `off` -/
def payloadWith (candsAt : Nat → List Nat) (plugs : List PlugFact) (eos : Bool) (tail : Tail)
    (splitNs : List Nat) (lookNs : List Nat) (lookOk : Bool) : Payload Nat :=
  { maxLen := 49149, reallyMax := 65535,
    identMap := fun m => zeros (m.length + 1),
    chars := fun m => zeros (countChars m),
    plugins := (plugs.zipIdx).map (fun (pf, k) =>
      { usesChars := pf.usesChars,
        edits := fun _ => match pf.kind with
          | .noEdit => some []
          | _ => some [k + 1] }),
    resolve := fun _ _ reps =>
      match reps with
      | [] => ([], [], 0)
      | tag :: _ =>
        match plugs[tag - 1]? with
        | some ⟨_, .edit nm ml⟩ => (nm, zeros ml, nm.length)
        | some ⟨_, .tooLong a b⟩ => (zeros a, zeros b, 65536)
        | _ => ([], [], 0),
    cats := fun m => zeros (countChars m),
    c2b := fun m => zeros (countChars m),
    b2c := fun m => zeros m.length,
    lenElem := fun _ => 0, b2cLast := fun _ => 0,
    bowDefault := 0, bowWrites := fun _ => [],
    contDefault := 0, contWrites := fun _ => [],
    ob2cDefault := 0, ob2cWrites := fun _ => [],
    bos := 0,
    cands := fun _ off => (candsAt off).map (fun e => (e, 0)),
    connect := fun _ _ => (0, 0),
    eosOf := fun _ => if eos then some 0 else none,
    fillTop := fun e _ => match e with | some _ => [0] | none => [],
    pathNodes := fun _ _ _ _ _ => .nodes [],
    rewritePath := fun _ _ _ p =>
      match tail with
      | .path n => .nodes (p ++ zeros n)
      | .nodes l => .nodes (p ++ l)
      | .fail => .fail
      | .unwind => .unwind
      | .none => .nodes p,
    splitNodes := fun _ _ _ _ => splitNs,
    lookupNodes := fun _ _ => (lookNs, lookOk) }

/-- the payload the theorems and examples speak about: candidates looked up in the list -/
def payloadOf (plugs : List PlugFact) (cands : List (List Nat)) (eos : Bool) (tail : Tail)
    (splitK : Nat) (lookK : Nat) (lookOk : Bool) : Payload Nat :=
  payloadWith (fun off => nthD cands off []) plugs eos tail (zeros splitK) (zeros lookK) lookOk

/-- the payload the driver executes: the same, candidates looked up in an array (the list look-up made the
position loop quadratic); equal to `payloadOf` (`Recycle.IO.payloadOfA_eq`) -/
def payloadOfA (plugs : List PlugFact) (cands : List (List Nat)) (eos : Bool) (tail : Tail)
    (splitK : Nat) (lookK : Nat) (lookOk : Bool) : Payload Nat :=
  let ca := cands.toArray
  payloadWith (fun off => match ca[off]? with | some x => x | none => []) plugs eos tail (zeros splitK) (zeros lookK) lookOk

def plainPayload : Payload Nat := payloadOf [] [] false .none 0 0 true

def parsePlug (s : List Char) : Option PlugFact :=
  match s with
  | u :: k :: rest =>
    let uc := u = '1'
    if k = 'n' then some ⟨uc, .noEdit⟩
    else
      match Wire.splitOn '~' rest with
      | [a, b] =>
        if k = 'e' then
          match flagsOfRle a, Wire.nat? b with
          | some f, some ml => some ⟨uc, .edit f ml⟩
          | _, _ => none
        else if k = 't' then
          match Wire.nat? a, Wire.nat? b with
          | some x, some y => some ⟨uc, .tooLong x y⟩
          | _, _ => none
        else none
      | _ => none
  | _ => none

def parseTail (s : List Char) : Option Tail :=
  match s with
  | ['f'] => some .fail
  | ['x'] => some .unwind
  | ['-'] => some .none
  | 'p' :: r => (Wire.nat? r).map .path
  | 'q' :: r => (Wire.natList? r).map .nodes
  | _ => none

/-- nodes appended by `split_into` / `lookup`: `q<h>,<h>,…` (identities, `q` = none) or a bare count -/
def parseNodes (s : List Char) : Option (List Nat) :=
  match s with
  | 'q' :: r => Wire.natList? r
  | _ => (Wire.nat? s).map zeros

def parseCands (s : List Char) : Option (List (List Nat)) :=
  if s = ['-'] then some [] else Wire.allSome ((Wire.splitOn ';' s).map Wire.natList?)

/-- `fast` selects the array look-up of the candidates (`payloadOfA`, what the driver runs) -/
def parseOpWith (fast : Bool) (s : List Char) : Option (Payload Nat × Op Nat) :=
  match Wire.splitOn ':' s with
  | [['M'], m] => (Wire.nat? m).map (fun m => (plainPayload, .setMode (modeOf m)))
  | [['S'], b] => (Wire.nat? b).map (fun b => (plainPayload, .setSubset (subsetOfBits b)))
  | [['N']] => some (plainPayload, .newList)
  | [['E'], j] => (Wire.nat? j).map (fun j => (plainPayload, .emptyClone j))
  | [['X'], j] => (Wire.nat? j).map (fun j => (plainPayload, .clear j))
  | [['K'], j] => (Wire.nat? j).map (fun j => (plainPayload, .collect j))
  | [['P'], i, idx, m, j, k] =>
    match Wire.nat? i, Wire.nat? idx, Wire.nat? m, Wire.nat? j, parseNodes k with
    | some i, some idx, some m, some j, some ns =>
      some (payloadWith (fun _ => []) [] false .none ns [] true, .splitInto i idx (modeOf m) j)
    | _, _, _, _, _ => none
  | [['L'], j, q, k, ok] =>
    match Wire.nat? j, flagsOfRle q, parseNodes k, Wire.nat? ok with
    | some j, some q, some ns, some ok => some (payloadWith (fun _ => []) [] false .none [] ns (ok = 1), .lookup j q)
    | _, _, _, _ => none
  -- `L:…:S`: the linked `MorphemeList::lookup` records the subset of the call in the list (repair 171a12c; harness probe)
  | [['L'], j, q, k, ok, ['S']] =>
    match Wire.nat? j, flagsOfRle q, parseNodes k, Wire.nat? ok with
    | some j, some q, some ns, some ok =>
      some ({ payloadWith (fun _ => []) [] false .none [] ns (ok = 1) with lookupSets := true }, .lookup j q)
    | _, _, _, _ => none
  | [['A'], text, plugs, eos, tail, cands] =>
    match flagsOfRle text, Wire.allSome ((Wire.items ',' (if plugs = ['-'] then [] else plugs)).map parsePlug),
          Wire.nat? eos, parseTail tail, parseCands cands with
    | some text, some plugs, some eos, some tail, some cands =>
      some ((if fast then payloadOfA plugs cands (eos = 1) tail 0 0 true else payloadOf plugs cands (eos = 1) tail 0 0 true),
            .analyse text)
    | _, _, _, _, _ => none
  | _ => none

def parseOp (s : List Char) : Option (Payload Nat × Op Nat) := parseOpWith false s

def showOutcome : Outcome → String
  | .ok => "ok"
  | .err .tooLong => "err:TooLong"
  | .err .disconnect => "err:Disconnect"
  | .err .other => "err:Other"
  | .panic => "PANIC"

def stateNum : BufState → Nat | .clean => 0 | .rw => 1 | .ro => 2

def showInput (i : Input Nat) : String :=
  Wire.showNats [i.original.length, i.modified.length, i.modified2.length, i.m2o.length, i.m2o2.length,
    i.modChars.length, i.modC2b.length, i.modB2c.length, i.modBow.length, i.modCat.length, i.modCatCont.length,
    i.replaces.length, stateNum i.state]

def sumLens (rows : List (List Nat)) : Nat := rows.foldl (fun n r => n + r.length) 0

def hashRows : List (List Nat) → List (List Nat) → List (List Nat) → Nat → Nat
  | a :: as, b :: bs, c :: cs, h =>
    hashRows as bs cs ((h * 1000003 + a.length * 10007 + b.length * 101 + c.length + 1) % 2147483647)
  | _, _, _, h => h

def showLattice (l : Lattice Nat) : String :=
  Wire.showNats [l.size, if l.eos.isSome then 1 else 0, l.ends.length, l.endsFull.length, l.indices.length,
    sumLens l.ends, sumLens l.endsFull, sumLens l.indices, hashRows l.ends l.endsFull l.indices 7]

def showTok (t : Tok Nat) : String :=
  "i=" ++ showInput t.input ++ ";t=" ++ toString t.oov.length ++ "," ++ toString t.topPathIds.length ++ "," ++
  (match t.topPath with | none => "-" | some p => toString p.length) ++ "," ++ toString (bitsOfSubset t.subset) ++
  "," ++ toString (modeNum t.mode) ++ ";l=" ++ showLattice t.lattice

/-- CONTENT of a result list: hash over the node identities in order -/
def hashNodes (l : List Nat) : Nat := l.foldl (fun h x => (h * 1000003 + x + 1) % 2147483647) 7

def showLists (w : World Nat) : String :=
  if w.lists.isEmpty then "-" else
  Wire.joinWith "," (w.lists.map (fun L =>
    match w.parts[L.part]? with
    | none => "?"
    | some p => toString L.nodes.length ++ "." ++ toString (bitsOfSubset p.subset) ++ "." ++
        (if p.input.state = .clean then "c" else toString p.input.original.length) ++ "." ++ toString (hashNodes L.nodes)))

def showState (w : World Nat) (o : Outcome) : String :=
  showOutcome o ++ ";" ++ showTok w.tok ++ ";m=" ++ showLists w

def replay (v : ResetVariant) (w : World Nat) : List (Payload Nat × Op Nat) → List String → List String
  | [], acc => acc.reverse
  | (P, op) :: rest, acc =>
    let r := w.step v P op
    replay v r.1 rest (showState r.1 r.2 :: acc)

/-- the EXECUTED replay: rows as arrays (`Model/RecycleFast.lean`); every printed state is the state of the list
model (`XWorld.abs`), proved in `Proofs/RecycleFast.lean` (`replayX_eq`) -/
def replayX (v : ResetVariant) (x : XWorld Nat) : List (Payload Nat × Op Nat) → List String → List String
  | [], acc => acc.reverse
  | (P, op) :: rest, acc =>
    let r := x.step v P op
    replayX v r.1 rest (showState r.1.abs r.2 :: acc)

/-- the token `reset_variant=cur|fix` of the case line; `cur` when the token is absent.  The harness writes
`fix` when `StatefulTokenizer::reset` of the tree it is built against re-creates a missing path
(`get_or_insert_with(Vec::new)`). -/
def parseVariant (toks : List (List Char)) : Option ResetVariant :=
  match Wire.kv? toks "reset_variant" with
  | none => some .cur
  | some w => if w = "cur".toList then some .cur else if w = "fix".toList then some .fix else none

/-! ### Python sessions: `C10 pysess idx=N mode=m fields=bits [reset_variant=…] calls=<call>/<call>/…`

call = `<mode|->@<out list|->@<A:…>` = one `Tokenizer.tokenize(text, mode=, out=)` on ONE Python tokenizer created with
`dic.create(mode, fields)`.  After every call the answer carries what Python can see: did it raise (`err` = a
SudachiError, `PANIC` = PanicException), `tok.mode`, and per result list its length and the hash of its word ids. -/

def showOutcomePy : Outcome → String
  | .ok => "ok"
  | .err _ => "err"
  | .panic => "PANIC"

def showPyState (w : World Nat) (o : Outcome) : String :=
  showOutcomePy o ++ ";" ++ toString (modeNum w.tok.mode) ++ ";" ++
  (if w.lists.isEmpty then "-" else
    Wire.joinWith "," (w.lists.map (fun L => toString L.nodes.length ++ "." ++ toString (hashNodes L.nodes))))

structure PyCall where
  mode : Option Mode
  out : Option Nat
  P : Payload Nat
  text : List Nat

def parseOptNat (s : List Char) : Option (Option Nat) :=
  if s = ['-'] then some none else (Wire.nat? s).map some

def parsePyCall (s : List Char) : Option PyCall :=
  match Wire.splitOn '@' s with
  | [m, o, a] =>
    match parseOptNat m, parseOptNat o, parseOp a with
    | some m, some o, some (P, .analyse text) => some ⟨m.map modeOf, o, P, text⟩
    | _, _, _ => none
  | _ => none

def replayPy (v : ResetVariant) (w : World Nat) : List PyCall → List String → List String
  | [], acc => acc.reverse
  | c :: rest, acc =>
    let r := w.pyTokenize v c.P c.mode c.out c.text
    replayPy v r.1 rest (showPyState r.1 r.2 :: acc)

def handlePy (toks : List (List Char)) : String :=
  match Wire.kv? toks "mode", Wire.kv? toks "fields", Wire.kv? toks "calls" with
  | some m, some f, some calls =>
    match Wire.nat? m, Wire.nat? f, Wire.allSome ((Wire.items '/' calls).map parsePyCall), parseVariant toks with
    | some m, some f, some calls, some v =>
      -- `PyTokenizer::new`: `StatefulTokenizer::new(dict, mode)` then `set_subset(fields)`
      let w0 := ((World.init (modeOf m)).step v plainPayload (.setSubset (subsetOfBits f))).1
      "ok " ++ Wire.joinWith "|" (replayPy v w0 calls [])
    | _, _, _, _ => "bad-op"
  | _, _, _ => "bad-op"

/-- the answer as the list model gives it (specification of `handle`) -/
def handleL (toks : List (List Char)) : String :=
  match Wire.kv? toks "mode", Wire.kv? toks "ops" with
  | some m, some ops =>
    match Wire.nat? m, Wire.allSome ((Wire.items '/' ops).map parseOp), parseVariant toks with
    | some m, some ops, some v => "ok " ++ Wire.joinWith "|" (replay v (World.init (modeOf m)) ops [])
    | _, _, _ => "bad-op"
  | _, _ => "bad-op"

/-- `C10 hist idx=N mode=m [reset_variant=cur|fix] ops=…`: what the driver runs - array rows, array candidate
look-up; `handle = handleL` is `Recycle.IO.handle_eq` -/
def handle (toks : List (List Char)) : String :=
  match Wire.kv? toks "mode", Wire.kv? toks "ops" with
  | some m, some ops =>
    match Wire.nat? m, Wire.allSome ((Wire.items '/' ops).map (parseOpWith true)), parseVariant toks with
    | some m, some ops, some v => "ok " ++ Wire.joinWith "|" (replayX v (XWorld.init (modeOf m)) ops [])
    | _, _, _ => "bad-op"
  | _, _ => "bad-op"

end Recycle.IO
