import Sudachi.Model.Wire
/-!
# Binary dictionary codec (property C05): writers of `dic/build/*` and readers of `dic/read/*`,
`dic/lexicon/*`, `dic/grammar.rs`, `dic/connect.rs`, `dic/header.rs`

Bytes are `Nat` values `< 256` (`Bytes = List Nat`), strings are lists of Unicode scalar values
(`Str = List Nat`).  Every function mirrors the Rust function named in its doc comment: same
branches, same index arithmetic, same order of fields.  Parsers that return `Err` in Rust return
`none`; places that can panic (`[]` slicing) are `Outcome.panic`.

This file: primitives (`write_len`/`string_length_parser`, UTF-16 strings, u32 arrays), the word-info
record (`write_word_info` / `WordInfoParser::parse`), word parameters, the connection matrix, the
header, `Grammar::parse`, `Lexicon::parse`, `WordInfos::get_word_info`, the accessor layer of
`WordInfo` and `LexiconSet::get_word_info_subset`.  The CSV side (field parsers, resolver, the
layout of `DictBuilder::compile`) is in `Model/CodecBuild.lean`.
-/
namespace Codec

abbrev Bytes := List Nat
abbrev Str := List Nat

inductive Outcome (α : Type) where
  | ok (a : α)
  | err (kind : String)
  | panic (why : String)
deriving Repr, DecidableEq

def Outcome.bind {α β : Type} (x : Outcome α) (f : α → Outcome β) : Outcome β :=
  match x with
  | .ok a => f a
  | .err k => .err k
  | .panic w => .panic w

instance : Monad Outcome where
  pure := Outcome.ok
  bind := Outcome.bind

/-- a nom `Err` becomes the error outcome -/
def ofOpt {α : Type} (kind : String) : Option α → Outcome α
  | some a => .ok a
  | none => .err kind

/-! ## fixed-width little-endian integers -/

def le16 (n : Nat) : Bytes := [n % 256, n / 256 % 256]
def le32 (n : Nat) : Bytes := [n % 256, n / 256 % 256, n / 65536 % 256, n / 16777216 % 256]
def le64 (n : Nat) : Bytes := le32 (n % 4294967296) ++ le32 (n / 4294967296 % 4294967296)

/-- `i16 as u16` (two's complement) -/
def i16ToU (i : Int) : Nat := (i % 65536).toNat
/-- `u16 as i16` -/
def u16ToI (n : Nat) : Int := if n < 32768 then (n : Int) else (n : Int) - 65536
/-- `u32 as i32` (`le_i32`) -/
def u32ToI (n : Nat) : Int := if n < 2147483648 then (n : Int) else (n : Int) - 4294967296

/-- `le_u8` -/
def leU8 : Bytes → Option (Nat × Bytes)
  | b :: r => some (b, r)
  | [] => none

/-- `le_u16` -/
def leU16 : Bytes → Option (Nat × Bytes)
  | a :: b :: r => some (a + 256 * b, r)
  | _ => none

/-- `le_u32` -/
def leU32 : Bytes → Option (Nat × Bytes)
  | a :: b :: c :: d :: r => some (a + 256 * b + 65536 * c + 16777216 * d, r)
  | _ => none

/-- `le_u64` -/
def leU64 (bs : Bytes) : Option (Nat × Bytes) :=
  match leU32 bs with
  | none => none
  | some (lo, r) =>
    match leU32 r with
    | none => none
    | some (hi, r') => some (lo + 4294967296 * hi, r')

/-! ## length prefix: `primitives.rs:34 write_len` / `u16str.rs:61 string_length_parser` -/

/-- bytes of `write_len` for `length ≤ i16::MAX`:
`length < 127` → one byte; else `[(length >> 8) as u8 | 0x80, length as u8 & 0xff]` -/
def encLen (n : Nat) : Bytes :=
  if n < 127 then [n] else [(n >>> 8) % 256 ||| 0x80, n % 256 &&& 0xff]

/-- `Utf16Writer::write_len` -/
def writeLen (n : Nat) : Outcome Bytes :=
  if n > 32767 then .err "InvalidSize" else .ok (encLen n)

/-- `string_length_parser`: one byte, a second one iff the first is `≥ 128`;
`((length & 0x7F) << 8) | low` -/
def stringLength : Bytes → Option (Nat × Bytes)
  | [] => none
  | b0 :: rest =>
    if b0 ≥ 128 then
      match rest with
      | [] => none
      | low :: rest' => some (((b0 &&& 0x7F) <<< 8) ||| low, rest')
    else some (b0, rest)

/-! ## UTF-16 strings: `Utf16Writer::write` / `utf16_string_parser` -/

/-- `char::encode_utf16` (std; trusted base) -/
def encodeUtf16 (c : Nat) : List Nat :=
  if c < 0x10000 then [c] else [0xD800 + (c - 0x10000) / 1024, 0xDC00 + (c - 0x10000) % 1024]

/-- `char::len_utf8` -/
def utf8Len (c : Nat) : Nat := if c < 0x80 then 1 else if c < 0x800 then 2 else if c < 0x10000 then 3 else 4

def utf8LenStr (s : Str) : Nat := (s.map utf8Len).sum

/-- UTF-16 code units of a string -/
def units (s : Str) : List Nat := s.flatMap encodeUtf16

/-- bytes of `Utf16Writer::write` (length prefix in code units, then the units little-endian) -/
def encStr (s : Str) : Bytes := encLen (units s).length ++ (units s).flatMap le16

/-- `Utf16Writer::write`: byte-size guard, then `write_len` of the number of code units -/
def writeStr (s : Str) : Outcome Bytes :=
  if utf8LenStr s > 4 * 64 * 1024 then .err "InvalidSize"
  else if (units s).length > 32767 then .err "InvalidSize"
  else .ok (encStr s)

/-- `write_empty_if_equal` -/
def writeEmptyIfEqual (data other : Str) : Outcome Bytes :=
  if data = other then writeStr [] else writeStr data

/-- `U16CodeUnits`: pairs of bytes, little-endian (`none` = index panic on an odd tail, unreachable
because the data slice always has `2 * length` bytes) -/
def unitsOfBytes : Bytes → Option (List Nat)
  | [] => some []
  | [_] => none
  | a :: b :: r => (unitsOfBytes r).map ((a + 256 * b) :: ·)

/-- `char::decode_utf16` collected; the first `Err` aborts (`none`) (std; trusted base) -/
def decodeUtf16 : List Nat → Option Str
  | [] => some []
  | u :: rest =>
    if u < 0xD800 ∨ u > 0xDFFF then (decodeUtf16 rest).map (u :: ·)
    else if u ≥ 0xDC00 then none
    else
      match rest with
      | [] => none
      | u2 :: rest' =>
        if u2 < 0xDC00 ∨ u2 > 0xDFFF then none
        else (decodeUtf16 rest').map ((((u - 0xD800) * 1024 + (u2 - 0xDC00)) + 0x10000) :: ·)

/-- `utf16_string_data`: length prefix, `(length * 2)` bytes -/
def utf16StringData (input : Bytes) : Option (Bytes × Bytes) :=
  match stringLength input with
  | none => none
  | some (length, rest) =>
    if length = 0 then some ([], rest)
    else
      let numBytes := length * 2
      if rest.length < numBytes then none
      else some (rest.take numBytes, rest.drop numBytes)

/-- `utf16_string_parser` -/
def utf16StringParser (input : Bytes) : Option (Str × Bytes) :=
  match utf16StringData input with
  | none => none
  | some (data, rest) =>
    if data.isEmpty then some ([], rest)
    else
      match unitsOfBytes data with
      | none => none
      | some us =>
        match decodeUtf16 us with
        | none => none
        | some s => some (s, rest)

/-! ## u32 arrays: `write_u32_array` / `u32_array_parser`, `u32_wid_array_parser` -/

def encU32s (xs : List Nat) : Bytes := xs.length :: xs.flatMap le32

/-- `write_u32_array` -/
def writeU32Array (xs : List Nat) : Outcome Bytes :=
  if xs.length > 127 then .err "InvalidSize" else .ok (encU32s xs)

/-- `nom::multi::count(le_u32, n)` -/
def countU32 : Nat → Bytes → Option (List Nat × Bytes)
  | 0, bs => some ([], bs)
  | n + 1, bs =>
    match leU32 bs with
    | none => none
    | some (v, r) =>
      match countU32 n r with
      | none => none
      | some (vs, r') => some (v :: vs, r')

/-- `u32_array_parser` (and `u32_wid_array_parser`: `WordId::from_raw` is the identity on the raw value) -/
def u32ArrayParser : Bytes → Option (List Nat × Bytes)
  | [] => none
  | n :: rest => countU32 n rest

/-! ## word ids (`dic/word_id.rs`) -/

def WORD_MASK : Nat := 0x0fffffff
def INVALID_WID : Nat := 0xffffffff
/-- `WordId::new` -/
def widNew (dic word : Nat) : Nat := ((dic &&& 0xf) <<< 28) ||| (word &&& WORD_MASK)
/-- `WordId::dic` -/
def widDic (raw : Nat) : Nat := raw >>> 28
/-- `WordId::word` -/
def widWord (raw : Nat) : Nat := raw &&& WORD_MASK

/-! ## the word-info record -/

/-- a resolved `RawLexiconEntry` (`build/lexicon.rs:162`); split units are raw word ids -/
structure Entry where
  left : Int
  right : Int
  cost : Int
  surface : Str
  headword : Option Str
  dicForm : Nat
  normForm : Option Str
  pos : Nat
  splitsA : List Nat
  splitsB : List Nat
  reading : Option Str
  wordStructure : List Nat
  synonyms : List Nat
deriving Repr, DecidableEq

namespace Entry
/-- `RawLexiconEntry::headword` -/
def headwordS (e : Entry) : Str := e.headword.getD e.surface
/-- `RawLexiconEntry::norm_form` -/
def normS (e : Entry) : Str := e.normForm.getD e.headwordS
/-- `RawLexiconEntry::reading` -/
def readingS (e : Entry) : Str := e.reading.getD e.headwordS
end Entry

/-- bytes of `write_params` -/
def encParams (e : Entry) : Bytes := le16 (i16ToU e.left) ++ le16 (i16ToU e.right) ++ le16 (i16ToU e.cost)

/-- bytes of `write_word_info` (`build/lexicon.rs:202`), field by field in the order written -/
def encWordInfo (e : Entry) : Bytes :=
  encStr e.headwordS
    ++ encLen (utf8LenStr e.surface)
    ++ le16 e.pos
    ++ encStr (if e.normS = e.headwordS then [] else e.normS)
    ++ le32 e.dicForm
    ++ encStr (if e.readingS = e.headwordS then [] else e.readingS)
    ++ encU32s e.splitsA
    ++ encU32s e.splitsB
    ++ encU32s e.wordStructure
    ++ encU32s e.synonyms

/-- `write_word_info` with its size checks, in the order the Rust performs them -/
def writeWordInfo (e : Entry) : Outcome Bytes := do
  let b1 ← writeStr e.headwordS
  let b2 ← writeLen (utf8LenStr e.surface)
  let b3 := le16 e.pos
  let b4 ← writeEmptyIfEqual e.normS e.headwordS
  let b5 := le32 e.dicForm
  let b6 ← writeEmptyIfEqual e.readingS e.headwordS
  let b7 ← writeU32Array e.splitsA
  let b8 ← writeU32Array e.splitsB
  let b9 ← writeU32Array e.wordStructure
  let b10 ← writeU32Array e.synonyms
  pure (b1 ++ b2 ++ b3 ++ b4 ++ b5 ++ b6 ++ b7 ++ b8 ++ b9 ++ b10)

/-- `WordInfoData` -/
structure WordInfoData where
  surface : Str := []
  headWordLength : Nat := 0
  posId : Nat := 0
  normalizedForm : Str := []
  dicFormWordId : Int := 0
  dictionaryForm : Str := []
  readingForm : Str := []
  aUnitSplit : List Nat := []
  bUnitSplit : List Nat := []
  wordStructure : List Nat := []
  synonymGroupIds : List Nat := []
deriving Repr, DecidableEq

/-- `WordInfoParser::parse` with every field requested (`read/word_info.rs:86`) -/
def parseWordInfo (data : Bytes) : Option WordInfoData :=
  match utf16StringParser data with
  | none => none
  | some (surface, d) =>
  match stringLength d with
  | none => none
  | some (hwl, d) =>
  match leU16 d with
  | none => none
  | some (pos, d) =>
  match utf16StringParser d with
  | none => none
  | some (norm, d) =>
  match leU32 d with
  | none => none
  | some (df, d) =>
  match utf16StringParser d with
  | none => none
  | some (rd, d) =>
  match u32ArrayParser d with
  | none => none
  | some (a, d) =>
  match u32ArrayParser d with
  | none => none
  | some (b, d) =>
  match u32ArrayParser d with
  | none => none
  | some (ws, d) =>
  match u32ArrayParser d with
  | none => none
  | some (syn, _) =>
    some { surface := surface, headWordLength := hwl, posId := pos, normalizedForm := norm,
           dicFormWordId := u32ToI df, readingForm := rd, aUnitSplit := a, bUnitSplit := b,
           wordStructure := ws, synonymGroupIds := syn }

/-- `WordInfoParser::subset(SURFACE).parse`: the first field only, then the early return -/
def parseSurface (data : Bytes) : Option Str :=
  (utf16StringParser data).map (·.1)

/-! ## accessor layer of `WordInfo` (`word_infos.rs:120-146`) -/

namespace WordInfoData
def normalizedFormA (w : WordInfoData) : Str := if w.normalizedForm.isEmpty then w.surface else w.normalizedForm
def dictionaryFormA (w : WordInfoData) : Str := if w.dictionaryForm.isEmpty then w.surface else w.dictionaryForm
def readingFormA (w : WordInfoData) : Str := if w.readingForm.isEmpty then w.surface else w.readingForm
end WordInfoData

/-! ## lexicon section (`lexicon/mod.rs Lexicon::parse`, `word_infos.rs`, `word_params.rs`) -/

structure Lexicon where
  bytes : Bytes
  trieOff : Nat
  trieSize : Nat
  widTableOff : Nat
  widTableSize : Nat
  paramsOff : Nat
  size : Nat
  infosOff : Nat
  hasSynonyms : Bool
deriving Repr

/-- `u32_parser_offset` (`preceded(take(offset), le_u32)`) -/
def u32At (buf : Bytes) (offset : Nat) : Option Nat :=
  if buf.length < offset then none else (leU32 (buf.drop offset)).map (·.1)

/-- `Lexicon::parse` -/
def Lexicon.parse (buf : Bytes) (originalOffset : Nat) (hasSyn : Bool) : Outcome Lexicon :=
  match u32At buf originalOffset with
  | none => .err "nom"
  | some trieSize =>
    let offset := originalOffset + 4
    -- trie_array_parser
    if buf.length < offset + trieSize * 4 then .err "InvalidRange" else
    let trieOff := offset
    let offset := offset + 4 * trieSize
    match u32At buf offset with
    | none => .err "nom"
    | some widSize =>
      let widOff := offset + 4
      let offset := offset + 4 + widSize
      match u32At buf offset with
      | none => .err "nom"
      | some n =>
        -- WordParams::new → CowArray::from_bytes slices `data[offset .. offset + 2 * 3 * size]`
        if offset + 4 + 6 * n > buf.length then .panic "slice:word_params" else
        .ok { bytes := buf, trieOff := trieOff, trieSize := trieSize, widTableOff := widOff, widTableSize := widSize,
              paramsOff := offset + 4, size := n, infosOff := offset + 4 + 6 * n, hasSynonyms := hasSyn }

/-- `i16` number `k` of a `CowArray<i16>` that starts at byte `off` -/
def i16At (buf : Bytes) (off k : Nat) : Option Int :=
  (leU16 (buf.drop (off + 2 * k))).map (fun p => u16ToI p.1)

/-- `WordParams::get_params` (`&self.data[begin..end]` panics past the array) -/
def Lexicon.getParams (l : Lexicon) (w : Nat) : Outcome (Int × Int × Int) :=
  if w * 3 + 3 > l.size * 3 then .panic "slice:get_params" else
  match i16At l.bytes l.paramsOff (3 * w), i16At l.bytes l.paramsOff (3 * w + 1), i16At l.bytes l.paramsOff (3 * w + 2) with
  | some a, some b, some c => .ok (a, b, c)
  | _, _, _ => .panic "slice:get_params"

/-- `WordInfos::word_id_to_offset` -/
def Lexicon.wordIdToOffset (l : Lexicon) (w : Nat) : Outcome Nat :=
  let start := l.infosOff + 4 * w
  if start > l.bytes.length then .panic "slice:word_id_to_offset" else
  match leU32 (l.bytes.drop start) with
  | none => .err "nom"
  | some (v, _) => .ok v

/-- `WordInfos::parse_word_info` with all fields -/
def Lexicon.parseWordInfo (l : Lexicon) (w : Nat) : Outcome WordInfoData := do
  let index ← l.wordIdToOffset w
  if index > l.bytes.length then .panic "slice:parse_word_info" else
  ofOpt "nom" (Codec.parseWordInfo (l.bytes.drop index))

/-- `WordInfos::parse_word_info(.., InfoSubset::SURFACE)` -/
def Lexicon.parseSurface (l : Lexicon) (w : Nat) : Outcome Str := do
  let index ← l.wordIdToOffset w
  if index > l.bytes.length then .panic "slice:parse_word_info" else
  ofOpt "nom" (Codec.parseSurface (l.bytes.drop index))

/-- `WordInfos::get_word_info` (all fields; both header versions the builder emits carry synonym
groups): the dictionary form is fetched **from the same lexicon** by the raw stored id -/
def Lexicon.getWordInfo (l : Lexicon) (w : Nat) : Outcome WordInfoData := do
  let wi ← l.parseWordInfo w
  let wi := if l.hasSynonyms then wi else { wi with synonymGroupIds := [] }
  let dfwi := wi.dicFormWordId
  if dfwi ≥ 0 ∧ dfwi ≠ (w : Int) then
    let inner ← l.parseSurface dfwi.toNat
    pure { wi with dictionaryForm := inner }
  else pure wi

/-! ## `LexiconSet` (`lexicon_set.rs`) -/

structure LexiconSet where
  lexicons : List Lexicon
  posOffsets : List Nat
  numSystemPos : Nat

/-- `LexiconSet::update_dict_id` -/
def updateDictId (split : List Nat) (dictId : Nat) : List Nat :=
  split.map (fun id => if widDic id > 0 then widNew dictId (widWord id) else id)

/-- `LexiconSet::get_word_info_subset(id, all)` -/
def LexiconSet.getWordInfo (ls : LexiconSet) (id : Nat) : Outcome WordInfoData :=
  let dictId := widDic id
  match ls.lexicons[dictId]? with
  | none => .panic "index:lexicons"
  | some lex => do
    let wi ← lex.getWordInfo (widWord id)
    let wi ←
      if dictId > 0 ∧ wi.posId ≥ ls.numSystemPos then
        match ls.posOffsets[dictId]? with
        | none => Outcome.panic "index:pos_offsets"
        | some po => pure { wi with posId := (wi.posId - ls.numSystemPos + po) % 65536 }
      else pure wi
    pure { wi with aUnitSplit := updateDictId wi.aUnitSplit dictId,
                   bUnitSplit := updateDictId wi.bUnitSplit dictId,
                   wordStructure := updateDictId wi.wordStructure dictId }

/-- `LexiconSet::get_word_param` -/
def LexiconSet.getWordParam (ls : LexiconSet) (id : Nat) : Outcome (Int × Int × Int) :=
  match ls.lexicons[widDic id]? with
  | none => .panic "index:lexicons"
  | some lex => lex.getParams (widWord id)

/-! ## connection matrix (`build/conn.rs write_elem`, `connect.rs`) -/

/-- `ConnectionMatrix::index` -/
def connIndex (numLeft left right : Nat) : Nat := right * numLeft + left

/-- `ConnectionMatrix::cost` over the matrix bytes (debug assertions: ids in range) -/
def connCost (data : Bytes) (numLeft numRight left right : Nat) : Outcome Int :=
  if left ≥ numLeft ∨ right ≥ numRight then .panic "debug_assert:conn" else
  match i16At data 0 (connIndex numLeft left right) with
  | some c => .ok c
  | none => .panic "conn:out-of-bounds"

/-- replace the two bytes of cell `index` (`self.matrix[index*2] = ..; self.matrix[index*2+1] = ..`) -/
def setCell (m : Bytes) (index : Nat) (cost : Int) : Bytes :=
  let u := i16ToU cost
  (m.set (index * 2) (u % 256)).set (index * 2 + 1) (u / 256 % 256)

/-- `ConnBuffer::write_elem` on `usize` arithmetic: negative ids wrap to huge values, which either
overflow (debug) or index out of bounds - both panic -/
def writeElem (m : Bytes) (numLeft : Nat) (left right cost : Int) : Outcome Bytes :=
  if left < 0 ∨ right < 0 then .panic "conn:negative-id" else
  let index := connIndex numLeft left.toNat right.toNat
  if index * 2 + 1 ≥ m.length then .panic "conn:index" else .ok (setCell m index cost)

/-! ## header (`header.rs`) -/

def SYSTEM_DICT_VERSION_1 : Nat := 0x7366d3f18bd111e7
def SYSTEM_DICT_VERSION_2 : Nat := 0xce9f011a92394434
def USER_DICT_VERSION_1 : Nat := 0xa50f31188bd211e7
def USER_DICT_VERSION_2 : Nat := 0x9fdeb5a90168d868
def USER_DICT_VERSION_3 : Nat := 0xca9811756ff64fb0
def DESCRIPTION_SIZE : Nat := 256
def HEADER_STORAGE_SIZE : Nat := 8 + 8 + 256

/-- `Header::write_to`; `desc` are the UTF-8 bytes of the description -/
def writeHeader (version time : Nat) (desc : Bytes) : Outcome Bytes :=
  if desc.length > DESCRIPTION_SIZE then .err "InvalidDataFormat"
  else .ok (le64 version ++ le64 time ++ desc ++ List.replicate (DESCRIPTION_SIZE - desc.length) 0)

structure Header where
  version : Nat
  createTime : Nat
  description : Bytes   -- up to the first NUL
deriving Repr, DecidableEq

/-- `Header::parse` on `&bytes[..STORAGE_SIZE]` -/
def parseHeader (bytes : Bytes) : Outcome Header :=
  if bytes.length < HEADER_STORAGE_SIZE then .panic "slice:header" else
  match leU64 bytes with
  | none => .err "CannotParse"
  | some (v, r) =>
    match leU64 r with
    | none => .err "CannotParse"
    | some (t, r') =>
      let d := r'.take DESCRIPTION_SIZE
      if v = SYSTEM_DICT_VERSION_1 ∨ v = SYSTEM_DICT_VERSION_2 ∨ v = USER_DICT_VERSION_1 ∨ v = USER_DICT_VERSION_2 ∨ v = USER_DICT_VERSION_3
      then .ok { version := v, createTime := t, description := d.takeWhile (· ≠ 0) }
      else .err "InvalidVersion"

def Header.isSystem (h : Header) : Bool := h.version = SYSTEM_DICT_VERSION_1 || h.version = SYSTEM_DICT_VERSION_2
def Header.hasGrammar (h : Header) : Bool := h.isSystem || h.version = USER_DICT_VERSION_2 || h.version = USER_DICT_VERSION_3
def Header.hasSynonymGroupIds (h : Header) : Bool := h.version = SYSTEM_DICT_VERSION_2 || h.version = USER_DICT_VERSION_3

/-! ## grammar (`grammar.rs`) -/

structure Grammar where
  posList : List (List Str)
  numLeft : Nat
  numRight : Nat
  connOff : Nat
  storageSize : Nat
  bytes : Bytes

/-- `count(utf16_string_parser, POS_DEPTH)` -/
def countStr : Nat → Bytes → Option (List Str × Bytes)
  | 0, bs => some ([], bs)
  | n + 1, bs =>
    match utf16StringParser bs with
    | none => none
    | some (s, r) =>
      match countStr n r with
      | none => none
      | some (ss, r') => some (s :: ss, r')

/-- `count(count(utf16_string_parser, 6), pos_size)` -/
def countPos : Nat → Bytes → Option (List (List Str) × Bytes)
  | 0, bs => some ([], bs)
  | n + 1, bs =>
    match countStr 6 bs with
    | none => none
    | some (p, r) =>
      match countPos n r with
      | none => none
      | some (ps, r') => some (p :: ps, r')

/-- `pos_list_parser` -/
def posListParser (input : Bytes) : Option (List (List Str) × Bytes) :=
  match leU16 input with
  | none => none
  | some (n, rest) => countPos n rest

/-- `Grammar::parse` (`as usize` of a negative `i16` size is outside what the writer emits: error) -/
def Grammar.parse (buf : Bytes) (offset : Nat) : Outcome Grammar :=
  if buf.length < offset then .err "InvalidDictionaryGrammar" else
  match posListParser (buf.drop offset) with
  | none => .err "InvalidDictionaryGrammar"
  | some (posList, r1) =>
    match leU16 r1 with
    | none => .err "InvalidDictionaryGrammar"
    | some (l, r2) =>
      match leU16 r2 with
      | none => .err "InvalidDictionaryGrammar"
      | some (r, rest) =>
        if l ≥ 32768 ∨ r ≥ 32768 then .err "InvalidDictionaryGrammar" else
        let connOff := buf.length - rest.length
        let storage := (connOff - offset) + 2 * l * r
        -- ConnectionMatrix::from_offset_size: `end = offset + size` (elements!) then the CowArray slice
        if connOff + l * r > buf.length then .err "InvalidDictionaryGrammar"
        else if connOff + 2 * l * r > buf.length then .panic "slice:conn"
        else .ok { posList := posList, numLeft := l, numRight := r, connOff := connOff, storageSize := storage, bytes := buf }

/-- `Grammar::conn_matrix().cost(left, right)` -/
def Grammar.cost (g : Grammar) (left right : Nat) : Outcome Int :=
  connCost (g.bytes.drop g.connOff) g.numLeft g.numRight left right

/-! ## whole dictionary (`dic/mod.rs DictionaryLoader::read_any_dictionary`) -/

structure Loaded where
  header : Header
  grammar : Option Grammar
  lexicon : Lexicon

/-- `read_any_dictionary` over the bytes that start at `start` of a buffer (`&buf[start..]`) -/
def readAny (buf : Bytes) (start : Nat) : Outcome Loaded := do
  let bytes := buf.drop start
  let header ← parseHeader bytes
  let offset := HEADER_STORAGE_SIZE
  if header.hasGrammar then
    let g ← Grammar.parse bytes offset
    let lex ← Lexicon.parse bytes (offset + g.storageSize) header.hasSynonymGroupIds
    pure { header := header, grammar := some g, lexicon := lex }
  else
    let lex ← Lexicon.parse bytes offset header.hasSynonymGroupIds
    pure { header := header, grammar := none, lexicon := lex }

/-- `read_system_dictionary` -/
def readSystem (buf : Bytes) (start : Nat) : Outcome Loaded := do
  let d ← readAny buf start
  if d.header.isSystem then pure d else .err "InvalidSystemDictVersion"

/-- `read_user_dictionary` -/
def readUser (buf : Bytes) (start : Nat) : Outcome Loaded := do
  let d ← readAny buf start
  if d.header.isSystem then .err "InvalidSystemDictVersion" else pure d

end Codec
