import Sudachi.Model.Wire
/-!
# Model of `analysis/lattice.rs` (`connect_node`, `insert`, `connect_eos`, `fill_top_path`) and of
the connection-matrix indexing of `dic/connect.rs`  (property C02; reused by C03/C10)

Costs are unbounded `Int` here (overflow of the `i32` accumulator is C03's business).  The Rust
sentinel `i32::MAX` = "not connected to BOS" is `none`.  Rows are indexed by end boundary.
-/
namespace Vit

structure Node where
  b : Nat      -- begin (character index)
  e : Nat      -- end
  l : Nat      -- left id
  r : Nat      -- right id
  c : Int      -- word cost
deriving DecidableEq, Repr

def bos : Node := ⟨0, 0, 0, 0, 0⟩

/-- one stored lattice entry: the node and its cumulative cost (`VNode.total_cost`) -/
abbrev Entry := Node × Option Int

variable (conn : Nat → Nat → Int)

/-- one candidate left neighbour in `connect_node`: skipped when not connected to BOS; strict `<` -/
def stepMin (n : Node) (best : Option Int) (ent : Entry) : Option Int :=
  match ent.2 with
  | none => best
  | some t =>
    let nc := t + conn ent.1.r n.l + n.c
    match best with
    | none => some nc
    | some m => if nc < m then some nc else some m

/-- `Lattice::connect_node` (cost part): `conn a b` = `matrix.cost(left_node.right_id = a, right_node.left_id = b)` -/
def connect (row : List Entry) (n : Node) : Option Int :=
  row.foldl (stepMin conn n) none

/-- `connect_node` (back-pointer part): index of the first entry of the row attaining the minimum -/
def argminGo (n : Node) : List Entry → Nat → Option (Nat × Int) → Option (Nat × Int)
  | [], _, best => best
  | ent :: rest, i, best =>
    match ent.2 with
    | none => argminGo n rest (i + 1) best
    | some t =>
      let nc := t + conn ent.1.r n.l + n.c
      match best with
      | none => argminGo n rest (i + 1) (some (i, nc))
      | some (j, m) => if nc < m then argminGo n rest (i + 1) (some (i, nc)) else argminGo n rest (i + 1) (some (j, m))

def argmin (row : List Entry) (n : Node) : Option (Nat × Int) := argminGo conn n row 0 none

abbrev Rows := Nat → List Entry

/-- `Lattice::insert` -/
def insert (rows : Rows) (n : Node) : Rows :=
  fun e => if e = n.e then rows e ++ [(n, connect conn (rows n.b) n)] else rows e

/-- `Lattice::reset` + `connect_bos` -/
def init : Rows := fun e => if e = 0 then [(bos, some 0)] else []

/-- build the lattice by inserting the candidates in order (`LatticeBuilder::build_lattice`) -/
def build : List Node → Rows → Rows
  | [], rows => rows
  | n :: ns, rows => build ns (insert conn rows n)

/-! ### the same lattice as a concrete vector of rows (what the driver executes; `Proofs/Lattice.lean`
proves `rowAt (buildL ns rs) = build ns (rowAt rs)`, so the theorems about `build` speak about it) -/

def rowAt (rs : List (List Entry)) (e : Nat) : List Entry := (rs[e]?).getD []

def setRow : List (List Entry) → Nat → List Entry → List (List Entry)
  | [], 0, r => [r]
  | [], k + 1, r => [] :: setRow [] k r
  | _ :: xs, 0, r => r :: xs
  | x :: xs, k + 1, r => x :: setRow xs k r

def insertL (rs : List (List Entry)) (n : Node) : List (List Entry) :=
  setRow rs n.e (rowAt rs n.e ++ [(n, connect conn (rowAt rs n.b) n)])

def initL : List (List Entry) := [[(bos, some 0)]]

def buildL : List Node → List (List Entry) → List (List Entry)
  | [], rs => rs
  | n :: ns, rs => buildL ns (insertL conn rs n)

/-- `buildL` that also records the total stored for every inserted node, in insertion order (driver only) -/
def buildT : List Node → List (List Entry) → List (Option Int) → List (List Entry) × List (Option Int)
  | [], rs, acc => (rs, acc.reverse)
  | n :: ns, rs, acc => buildT ns (insertL conn rs n) (connect conn (rowAt rs n.b) n :: acc)

/-- the zero-width EOS node placed at the end of a text of `len` characters -/
def eosNode (len : Nat) : Node := ⟨len, len, 0, 0, 0⟩

/-- `connect_eos`: `none` = `EosBosDisconnect` -/
def eosCost (rows : Rows) (len : Nat) : Option Int := connect conn (rows len) (eosNode len)

/-- `fill_top_path`: follow the back-pointers from EOS; returns the nodes of the best path in text
order.  Back-pointers are recomputed (`argmin`) instead of stored — same value, by construction. -/
def pathFrom (rows : Rows) : Nat → Node → List Node → List Node
  | 0, _, acc => acc
  | fuel + 1, n, acc =>
    match argmin conn (rows n.b) n with
    | none => acc
    | some (i, _) =>
      match (rows n.b)[i]? with
      | none => acc
      | some (m, _) => if m.e = 0 then acc else pathFrom rows fuel m (m :: acc)

def bestPath (rows : Rows) (len : Nat) : List Node := pathFrom conn rows (len + 1) (eosNode len) []

/-- cost of a chain recomputed from word costs and connection costs, BOS and EOS connections included -/
def chainCost : Node → List Node → Int
  | prev, [] => conn prev.r 0
  | prev, n :: rest => conn prev.r n.l + n.c + chainCost n rest

/-! ## driver of the first round (`vdriver` now dispatches C02 to `Vit.handleRec`, `Model/LatticeRec.lean`, which runs the
recycled three-vector state; `parseNode`/`showNode`/`showOptInt` are shared) -/

def parseNode (s : List Char) : Option Node :=
  match Wire.intTuple? s with
  | some [b, e, l, r, c] => some ⟨b.toNat, e.toNat, l.toNat, r.toNat, c⟩
  | _ => none

def showOptInt (o : Option Int) : String := match o with | some v => toString v | none => "x"

def showNode (n : Node) : String :=
  toString n.b ++ ":" ++ toString n.e ++ ":" ++ toString n.l ++ ":" ++ toString n.r ++ ":" ++ toString n.c

/-- `C02 lattice len=<chars> conn=<num_left>:<num_right>:<cells,...> nodes=<b:e:l:r:c;...>` (nodes in
insertion-compatible order: sorted by begin).  `cells[right_word.left_id * num_left + left_word.right_id]`
answer: `ok totals=<per node, x = unreachable> eos=<cost|x> path=<cost recomputed along the back-pointer path>
nodes=<b:e:l:r:c;... of the back-pointer path in text order|x>` (the node list pins the tie rule: first minimum) -/
def handle (toks : List (List Char)) : String :=
  match Wire.kv? toks "len", Wire.kv? toks "conn", Wire.kv? toks "nodes" with
  | some ln, some cn, some ns =>
    match Wire.nat? ln, Wire.splitOn ':' cn, Wire.allSome ((Wire.items ';' ns).map parseNode) with
    | some len, [nl, _nr, cells], some nodes =>
      match Wire.nat? nl, Wire.intList? cells with
      | some numLeft, some cs =>
        let arr := cs.toArray
        let conn : Nat → Nat → Int := fun a b => arr.getD (b * numLeft + a) 0
        let (rs, totals) := buildT conn nodes initL []
        let rows : Rows := rowAt rs
        let eos := eosCost conn rows len
        let path := bestPath conn rows len
        let pc := match eos with
          | none => "x"
          | some _ => toString (chainCost conn bos path)
        let pn := match eos with
          | none => "x"
          | some _ => Wire.joinWith ";" (path.map showNode)
        -- `full=0`: the builder stopped early (a reachable position without any candidate), EOS was never connected
        if Wire.kv? toks "full" == some ['0'] then "ok totals=" ++ Wire.joinWith "," (totals.map showOptInt) else
        "ok totals=" ++ Wire.joinWith "," (totals.map showOptInt) ++ " eos=" ++ showOptInt eos ++ " path=" ++ pc ++ " nodes=" ++ pn
      | _, _ => "bad-op"
    | _, _, _ => "bad-op"
  | _, _, _ => "bad-op"

end Vit
