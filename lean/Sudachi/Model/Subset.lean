import Sudachi.Model.Wire
/-!
# Model of subset loading of word infos  (property C11)

Mirrors, as they are in the tree:

* `dic/read/u16str.rs`  — `string_length_parser`, `utf16_string_data`, `utf16_string_parser`,
  `skip_u16_string`, `U16CodeUnits`;
* `dic/read/mod.rs`     — `u32_array_parser`, `u32_wid_array_parser`, `skip_wid_array`, `skip_u32_array`
  (the two skip functions *slice* `rest[num_bytes..]`, i.e. they panic on short input where the
  parsers return `Err`);
* `dic/read/word_info.rs` — the two arms of `parse_field!` (`parseGo`) and the sequence of the ten
  invocations in `WordInfoParser::parse` (`fields`);
* `dic/subset.rs`       — `InfoSubset` as a bit mask, `normalize` (variant `cur` = the tree,
  variant `fix` = the candidate repair of D10);
* `dic/lexicon/word_infos.rs` — `get_word_info` (synonym flag, dictionary-form consult) and the
  accessor fall-backs of `WordInfo`;
* `dic/lexicon_set.rs`  — `get_word_info_subset`: `fixPos` (POS re-basing of user dictionaries) and
  `fixSplits` (the dictionary-id fix-up `update_dict_id` of SPLIT_A / SPLIT_B / WORD_STRUCTURE, each
  under the `contains` of its own single flag), for any number of user dictionaries;
* `analysis/stateful_tokenizer.rs` — `set_mode`, `set_subset`, `resolve_best_path` (word infos of
  the best path), `stateless_tokenizer.rs: split_path`, `node.rs: NodeSplitIterator::next` as it is
  after the repair of D6 (unit end clamped to the node end and moved back to a character start:
  `snap` = `to_curr_byte_idx ∘ ch_idx`, recomputed from the UTF-8 bytes of the rewritten text).
  The lattice search itself is not modelled: it has no access to the subset and reads word
  parameters only; its best path is an input of `tokenize`.

Bytes are `Nat`s (< 256 on the wire), strings are lists of Unicode scalar values, word ids are the
raw `u32`.  `Res` keeps the three outcomes of the Rust code apart: value, `Err`, panic.
-/
namespace Subset

abbrev Bytes := List Nat

inductive Res (α : Type) where
  | ok (a : α)
  | err
  | panic
deriving Repr, DecidableEq

def Res.bind {α β : Type} (r : Res α) (f : α → Res β) : Res β :=
  match r with
  | .ok a => f a
  | .err => .err
  | .panic => .panic

instance : Monad Res where
  pure := Res.ok
  bind := Res.bind

/-! ## nom number readers -/

/-- `nom::number::complete::le_u8` -/
def leU8 : Bytes → Res (Nat × Bytes)
  | [] => .err
  | b :: r => .ok (b, r)

/-- `le_u16` -/
def leU16 : Bytes → Res (Nat × Bytes)
  | b0 :: b1 :: r => .ok (b0 + 256 * b1, r)
  | _ => .err

/-- `le_u32` -/
def leU32 : Bytes → Res (Nat × Bytes)
  | b0 :: b1 :: b2 :: b3 :: r => .ok (b0 + 256 * b1 + 65536 * b2 + 16777216 * b3, r)
  | _ => .err

/-- reinterpretation of a `u32` bit pattern as `i32` -/
def asI32 (n : Nat) : Int := if n < 2147483648 then (n : Int) else (n : Int) - 4294967296

/-- `le_i32` -/
def leI32 (bs : Bytes) : Res (Int × Bytes) :=
  match leU32 bs with
  | .ok (n, r) => .ok (asI32 n, r)
  | .err => .err
  | .panic => .panic

/-! ## `u16str.rs` -/

/-- `string_length_parser`: one byte, or two when the first has its high bit set -/
def stringLength (input : Bytes) : Res (Nat × Bytes) :=
  match leU8 input with
  | .ok (length, rest) =>
    if length ≥ 128 then
      match leU8 rest with
      | .ok (low, rest) => .ok (((length &&& 0x7F) <<< 8) ||| low, rest)
      | .err => .err
      | .panic => .panic
    else .ok (length, rest)
  | .err => .err
  | .panic => .panic

/-- `utf16_string_data`: (data, rest) -/
def utf16Data (input : Bytes) : Res (Bytes × Bytes) :=
  match stringLength input with
  | .ok (length, rest) =>
    if length = 0 then .ok ([], rest)
    else
      let numBytes := length * 2
      if rest.length < numBytes then .err
      else .ok (rest.take numBytes, rest.drop numBytes)
  | .err => .err
  | .panic => .panic

/-- `U16CodeUnits`: little-endian pairs; a trailing single byte would index out of bounds -/
def codeUnits : Bytes → Option (List Nat)
  | [] => some []
  | [_] => none
  | p1 :: p2 :: r => (codeUnits r).map ((p1 + 256 * p2) :: ·)

/-- `char::decode_utf16` collected with the first error aborting (`none`) -/
def decodeUtf16 : List Nat → Option (List Nat)
  | [] => some []
  | u :: r =>
    if u < 0xD800 ∨ 0xE000 ≤ u then (decodeUtf16 r).map (u :: ·)
    else if u ≥ 0xDC00 then none
    else
      match r with
      | [] => none
      | u2 :: r2 =>
        if u2 < 0xDC00 ∨ u2 > 0xDFFF then none
        else (decodeUtf16 r2).map (((u % 1024) * 1024 + u2 % 1024 + 0x10000) :: ·)

/-- `utf16_string_parser` -/
def utf16String (input : Bytes) : Res (List Nat × Bytes) :=
  match utf16Data input with
  | .ok (data, rest) =>
    if data.isEmpty then .ok ([], rest)
    else
      match codeUnits data with
      | none => .panic
      | some us =>
        match decodeUtf16 us with
        | none => .err
        | some s => .ok (s, rest)
  | .err => .err
  | .panic => .panic

/-- `skip_u16_string` -/
def skipU16String (input : Bytes) : Res Bytes :=
  match utf16Data input with
  | .ok (_, rest) => .ok rest
  | .err => .err
  | .panic => .panic

/-! ## `dic/read/mod.rs` -/

/-- `nom::multi::count(le_u32, n)` -/
def countU32 : Nat → Bytes → Res (List Nat × Bytes)
  | 0, bs => .ok ([], bs)
  | n + 1, bs =>
    match leU32 bs with
    | .ok (v, r) =>
      match countU32 n r with
      | .ok (vs, r') => .ok (v :: vs, r')
      | .err => .err
      | .panic => .panic
    | .err => .err
    | .panic => .panic

/-- `u32_array_parser` / `u32_wid_array_parser` (a `WordId` is its raw `u32`) -/
def u32Array (input : Bytes) : Res (List Nat × Bytes) :=
  match leU8 input with
  | .ok (length, rest) => countU32 length rest
  | .err => .err
  | .panic => .panic

/-- `skip_wid_array` / `skip_u32_array`: `&rest[num_bytes..]` panics when `rest` is too short -/
def skipArray (input : Bytes) : Res Bytes :=
  match leU8 input with
  | .ok (length, rest) =>
    let numBytes := length * 4
    if rest.length < numBytes then .panic else .ok (rest.drop numBytes)
  | .err => .err
  | .panic => .panic

/-! ## `InfoSubset` -/

def SURFACE : Nat := 0
def HEAD_WORD_LENGTH : Nat := 1
def POS_ID : Nat := 2
def NORMALIZED_FORM : Nat := 3
def DIC_FORM_WORD_ID : Nat := 4
def READING_FORM : Nat := 5
def SPLIT_A : Nat := 6
def SPLIT_B : Nat := 7
def WORD_STRUCTURE : Nat := 8
def SYNONYM_GROUP_ID : Nat := 9

/-- `InfoSubset::all()` -/
def ALL : Nat := 1023

/-- `self -= FLAG` for the single-bit flag number `i` -/
def remove (s i : Nat) : Nat := s ^^^ (s &&& 2 ^ i)

/-- `self |= FLAG` -/
def insert (s i : Nat) : Nat := s ||| 2 ^ i

/-- which `normalize` the source text contains -/
inductive NzVariant where
  | cur   -- the tree: READING_FORM | NORMALIZED_FORM pull in SURFACE
  | fix   -- candidate repair of D10: DIC_FORM_WORD_ID pulls in SURFACE as well
deriving DecidableEq, Repr

/-- `InfoSubset::normalize`; `intersects(A | B)` of single-bit flags = one of the bits is set -/
def normalize (v : NzVariant) (s : Nat) : Nat :=
  let s :=
    if s.testBit READING_FORM || s.testBit NORMALIZED_FORM ||
        (v == .fix && s.testBit DIC_FORM_WORD_ID) then insert s SURFACE else s
  if s.testBit SPLIT_A || s.testBit SPLIT_B then insert s HEAD_WORD_LENGTH else s

/-! ## `WordInfoData`, `parse_field!`, `WordInfoParser::parse` -/

structure WordInfoData where
  surface : List Nat := []
  headWordLength : Nat := 0
  posId : Nat := 0
  normalizedForm : List Nat := []
  dictionaryFormWordId : Int := 0
  dictionaryForm : List Nat := []
  readingForm : List Nat := []
  aUnitSplit : List Nat := []
  bUnitSplit : List Nat := []
  wordStructure : List Nat := []
  synonymGroupIds : List Nat := []
deriving Repr, DecidableEq

/-- one invocation of `parse_field!`: the flag, which arm (six parameters = heavy), the "true"
function composed with the assignment `$root.info.$name = res`, and the "false" (skip) function -/
structure Field where
  bit : Nat
  heavy : Bool
  tfn : Bytes → Res ((WordInfoData → WordInfoData) × Bytes)
  ffn : Bytes → Res Bytes

/-- `let (next, res) = $tfn($data)?; $root.info.$name = res;` -/
def assign {α : Type} (p : Bytes → Res (α × Bytes)) (set : WordInfoData → α → WordInfoData) :
    Bytes → Res ((WordInfoData → WordInfoData) × Bytes) :=
  fun bs =>
    match p bs with
    | .ok (v, next) => .ok (fun info => set info v, next)
    | .err => .err
    | .panic => .panic

def forget {α : Type} (p : Bytes → Res (α × Bytes)) : Bytes → Res Bytes :=
  fun bs =>
    match p bs with
    | .ok (_, next) => .ok next
    | .err => .err
    | .panic => .panic

/-- the macro, unfolded over the remaining invocations; `flds` = `$root.flds` -/
def parseGo : List Field → Nat → Bytes → WordInfoData → Res WordInfoData
  | [], _, _, info => .ok info
  | f :: fs, flds, data, info =>
    if flds = 0 then .ok info                                   -- `return Ok($root.info)`
    else if f.heavy then
      if flds.testBit f.bit then
        match f.tfn data with
        | .ok (upd, next) => parseGo fs (remove flds f.bit) next (upd info)
        | .err => .err
        | .panic => .panic
      else
        match f.ffn data with
        | .ok next => parseGo fs flds next info
        | .err => .err
        | .panic => .panic
    else
      match f.tfn data with
      | .ok (upd, next) => parseGo fs (remove flds f.bit) next (upd info)
      | .err => .err
      | .panic => .panic

def fSurface : Field :=
  ⟨SURFACE, true, assign utf16String (fun i v => { i with surface := v }), skipU16String⟩
def fHeadWordLength : Field :=
  ⟨HEAD_WORD_LENGTH, false, assign stringLength (fun i v => { i with headWordLength := v }), forget stringLength⟩
def fPosId : Field :=
  ⟨POS_ID, false, assign leU16 (fun i v => { i with posId := v }), forget leU16⟩
def fNormalizedForm : Field :=
  ⟨NORMALIZED_FORM, true, assign utf16String (fun i v => { i with normalizedForm := v }), skipU16String⟩
def fDicFormWordId : Field :=
  ⟨DIC_FORM_WORD_ID, false, assign leI32 (fun i v => { i with dictionaryFormWordId := v }), forget leI32⟩
def fReadingForm : Field :=
  ⟨READING_FORM, true, assign utf16String (fun i v => { i with readingForm := v }), skipU16String⟩
def fSplitA : Field :=
  ⟨SPLIT_A, true, assign u32Array (fun i v => { i with aUnitSplit := v }), skipArray⟩
def fSplitB : Field :=
  ⟨SPLIT_B, true, assign u32Array (fun i v => { i with bUnitSplit := v }), skipArray⟩
def fWordStructure : Field :=
  ⟨WORD_STRUCTURE, true, assign u32Array (fun i v => { i with wordStructure := v }), skipArray⟩
def fSynonymGroupIds : Field :=
  ⟨SYNONYM_GROUP_ID, true, assign u32Array (fun i v => { i with synonymGroupIds := v }), skipArray⟩

/-- the ten invocations of `WordInfoParser::parse`, in order -/
def fields : List Field :=
  [fSurface, fHeadWordLength, fPosId, fNormalizedForm, fDicFormWordId, fReadingForm,
   fSplitA, fSplitB, fWordStructure, fSynonymGroupIds]

/-- `WordInfoParser::subset(flds).parse(data)` -/
def parse (flds : Nat) (data : Bytes) : Res WordInfoData := parseGo fields flds data {}

/-! ## `WordInfos::get_word_info`, accessors -/

/-- one lexicon: the word-info records by word id (the offset table is resolved by the harness),
and the header's `has_synonym_group_ids` -/
structure Lexicon where
  recs : List Bytes
  hasSyn : Bool

/-- `parse_word_info`: a word id beyond the table slices out of range (or reads foreign bytes):
not modelled further than "panic" -/
def parseWordInfo (lex : Lexicon) (wordId : Nat) (subset : Nat) : Res WordInfoData :=
  match lex.recs[wordId]? with
  | none => .panic
  | some bs => parse subset bs

/-- `WordInfos::get_word_info` -/
def getWordInfo (lex : Lexicon) (wordId : Nat) (subset : Nat) : Res WordInfoData :=
  let subset := if !lex.hasSyn then remove subset SYNONYM_GROUP_ID else subset
  match parseWordInfo lex wordId subset with
  | .ok wi =>
    let dfwi := wi.dictionaryFormWordId
    if dfwi ≥ 0 ∧ dfwi ≠ (wordId : Int) then
      match parseWordInfo lex dfwi.toNat (2 ^ SURFACE) with
      | .ok inner => .ok { wi with dictionaryForm := inner.surface }
      | .err => .err
      | .panic => .panic
    else .ok wi
  | .err => .err
  | .panic => .panic

/-- `WordInfo::normalized_form` -/
def accNormalizedForm (w : WordInfoData) : List Nat :=
  if w.normalizedForm.isEmpty then w.surface else w.normalizedForm
/-- `WordInfo::dictionary_form` -/
def accDictionaryForm (w : WordInfoData) : List Nat :=
  if w.dictionaryForm.isEmpty then w.surface else w.dictionaryForm
/-- `WordInfo::reading_form` -/
def accReadingForm (w : WordInfoData) : List Nat :=
  if w.readingForm.isEmpty then w.surface else w.readingForm

/-! ## `LexiconSet::get_word_info_subset` -/

structure LexSet where
  lexicons : List Lexicon
  posOffsets : List Nat
  numSystemPos : Nat

/-- `WordId::dic` -/
def widDic (raw : Nat) : Nat := raw >>> 28
/-- `WordId::word` -/
def widWord (raw : Nat) : Nat := raw &&& 0x0fffffff
/-- `WordId::new` -/
def widNew (dic word : Nat) : Nat := ((dic &&& 0xf) <<< 28) ||| (word &&& 0x0fffffff)

/-- `update_dict_id` (`WordId::checked` cannot fail for `dict_id < 16` and a masked word) -/
def updateDictId (split : List Nat) (dictId : Nat) : List Nat :=
  split.map (fun id => if widDic id > 0 then widNew dictId (widWord id) else id)

/-- the POS fix-up of `get_word_info_subset`: only under `subset.contains(POS_ID)`; a POS id of a
user dictionary at or above `num_system_pos` is re-based by the dictionary's offset (`as u16`);
`self.pos_offsets[dict_id]` is an indexing panic when the table is too short -/
def fixPos (ls : LexSet) (dictId subset : Nat) (wi : WordInfoData) : Res WordInfoData :=
  if subset.testBit POS_ID then
    let posId := wi.posId
    if dictId > 0 ∧ posId ≥ ls.numSystemPos then
      match ls.posOffsets[dictId]? with
      | none => .panic
      | some off => .ok { wi with posId := (posId - ls.numSystemPos + off) % 65536 }
    else .ok wi
  else .ok wi

/-- the three dictionary-id fix-ups of `get_word_info_subset`, each under the `contains` of ITS OWN
single flag (`subset.contains(SPLIT_A)`, `…(SPLIT_B)`, `…(WORD_STRUCTURE)`) -/
def fixSplits (dictId subset : Nat) (wi : WordInfoData) : WordInfoData :=
  let wi := if subset.testBit SPLIT_A then { wi with aUnitSplit := updateDictId wi.aUnitSplit dictId } else wi
  let wi := if subset.testBit SPLIT_B then { wi with bUnitSplit := updateDictId wi.bUnitSplit dictId } else wi
  let wi := if subset.testBit WORD_STRUCTURE then { wi with wordStructure := updateDictId wi.wordStructure dictId } else wi
  wi

def getWordInfoSubset (ls : LexSet) (id : Nat) (subset : Nat) : Res WordInfoData :=
  let dictId := widDic id
  match ls.lexicons[dictId]? with
  | none => .panic
  | some lex =>
    match getWordInfo lex (widWord id) subset with
    | .ok wi =>
      match fixPos ls dictId subset wi with
      | .ok wi => .ok (fixSplits dictId subset wi)
      | .err => .err
      | .panic => .panic
    | .err => .err
    | .panic => .panic

/-! ## tokenizer: `set_mode`, `set_subset`, word infos of the path, `split_path` -/

inductive Mode where
  | A | B | C
deriving DecidableEq, Repr

structure TokState where
  mode : Mode
  subset : Nat
deriving DecidableEq, Repr

def modeSubset : Mode → Nat
  | .A => 2 ^ SPLIT_A
  | .B => 2 ^ SPLIT_B
  | .C => 0

/-- `StatefulTokenizer::create` -/
def newTok (m : Mode) : TokState := ⟨m, ALL⟩

/-- `set_mode`: ORs the split flag in, does **not** normalize -/
def setMode (st : TokState) (m : Mode) : TokState :=
  { mode := m, subset := st.subset ||| modeSubset m }

/-- `set_subset` -/
def setSubset (v : NzVariant) (st : TokState) (subset : Nat) : TokState :=
  let ms := modeSubset st.mode
  let newSubset := normalize v (subset ||| ms)
  { st with subset := newSubset ||| ms }

inductive Op where
  | mode (m : Mode)
  | subset (s : Nat)
deriving DecidableEq, Repr

def applyOp (v : NzVariant) (st : TokState) : Op → TokState
  | .mode m => setMode st m
  | .subset s => setSubset v st s

def applyOps (v : NzVariant) (st : TokState) (ops : List Op) : TokState := ops.foldl (applyOp v) st

/-- a node of the best path in the rewritten text: word id, byte range, surface slice (used for OOV) -/
structure PNode where
  wid : Nat
  bb : Nat
  be : Nat
  slice : List Nat
deriving Repr

structure RNode where
  wid : Nat
  bb : Nat
  be : Nat
  info : WordInfoData
deriving Repr

/-- the word-info part of `resolve_best_path` -/
def resolveNode (ls : LexSet) (subset : Nat) (n : PNode) : Res RNode :=
  if widDic n.wid = 0xf then
    .ok ⟨n.wid, n.bb, n.be, { posId := widWord n.wid % 65536, surface := n.slice }⟩
  else
    match getWordInfoSubset ls n.wid subset with
    | .ok wi => .ok ⟨n.wid, n.bb, n.be, wi⟩
    | .err => .err
    | .panic => .panic

def resolvePath (ls : LexSet) (subset : Nat) : List PNode → Res (List RNode)
  | [] => .ok []
  | n :: ns =>
    match resolveNode ls subset n with
    | .ok r =>
      match resolvePath ls subset ns with
      | .ok rs => .ok (r :: rs)
      | .err => .err
      | .panic => .panic
    | .err => .err
    | .panic => .panic

/-- a UTF-8 continuation byte (`10xxxxxx`): not the first byte of a character -/
def isCont (b : Nat) : Bool := b &&& 0xC0 == 0x80

/-- start of the character that contains byte `i`, scanning the text from byte `j` on (`last` = the
last character start seen so far) -/
def snapGo : Bytes → Nat → Nat → Nat → Nat
  | [], _, last, _ => last
  | b :: r, j, last, i => if j > i then last else snapGo r (j + 1) (if isCont b then last else j) i

/-- `text.to_curr_byte_idx(text.ch_idx(i))` on the rewritten text: `mod_b2c` has `len + 1` entries
(an index above `len` is an indexing panic), entry `len` is the sentinel (number of characters, whose
`mod_c2b` is `len`), entry `i < len` is the character containing byte `i`, whose `mod_c2b` is its
first byte.  The tables are recomputed here from the UTF-8 bytes of the text. -/
def snap (text : Bytes) (i : Nat) : Res Nat :=
  if i > text.length then .panic
  else if i = text.length then .ok i
  else .ok (snapGo text 0 0 i)

/-- `node.num_splits(mode)` / the list `ResultNode::split` iterates: the ONLY word-info field of a
path node that decides where `split_path` cuts -/
def splitsOf (mode : Mode) (info : WordInfoData) : List Nat :=
  match mode with
  | .A => info.aUnitSplit
  | .B => info.bUnitSplit
  | .C => []

/-- `NodeSplitIterator::next`, iterated (the tree after the repair of D6): the last unit takes the
node's end; any other unit ends at `min(byte_start + head_word_length, node end)` moved back to the
first byte of the character it falls into (`ch_idx` then `to_curr_byte_idx`), `as u16`.
`get_word_info_subset(..).unwrap()`: an `Err` is a panic here. -/
def splitGo (ls : LexSet) (subset : Nat) (text : Bytes) (byteEnd : Nat) : List Nat → Nat → Res (List RNode)
  | [], _ => .ok []
  | wordId :: rest, byteStart =>
    match getWordInfoSubset ls wordId subset with
    | .ok wi =>
      if rest.isEmpty then .ok [⟨wordId, byteStart, byteEnd, wi⟩]
      else
        let be := min (byteStart + wi.headWordLength) byteEnd
        match snap text be with
        | .ok be =>
          let be16 := be % 65536
          match splitGo ls subset text byteEnd rest be16 with
          | .ok rs => .ok (⟨wordId, byteStart, be16, wi⟩ :: rs)
          | .err => .err
          | .panic => .panic
        | .err => .err
        | .panic => .panic
    | .err => .panic
    | .panic => .panic

/-- `split_path` -/
def splitPath (ls : LexSet) (mode : Mode) (subset : Nat) (text : Bytes) : List RNode → Res (List RNode)
  | [] => .ok []
  | n :: ns =>
    let splits : List Nat := splitsOf mode n.info
    let head : Res (List RNode) :=
      if mode = .C ∨ splits.length ≤ 1 then .ok [n]
      else splitGo ls subset text n.be splits n.bb
    match head with
    | .ok h =>
      match splitPath ls mode subset text ns with
      | .ok t => .ok (h ++ t)
      | .err => .err
      | .panic => .panic
    | .err => .err
    | .panic => .panic

/-- word infos + split of `do_tokenize` for a configuration without path-rewrite plugins -/
def tokenize (ls : LexSet) (st : TokState) (text : Bytes) (path : List PNode) : Res (List RNode) :=
  match resolvePath ls st.subset path with
  | .ok rs => splitPath ls st.mode st.subset text rs
  | .err => .err
  | .panic => .panic

/-! ## driver entry -/

def showStr (s : List Nat) : String := Wire.joinWith "." (s.map toString)

def showInfo (w : WordInfoData) : String :=
  Wire.joinWith "/" [showStr w.surface, toString w.headWordLength, toString w.posId, showStr w.normalizedForm,
    toString w.dictionaryFormWordId, showStr w.dictionaryForm, showStr w.readingForm, showStr w.aUnitSplit,
    showStr w.bUnitSplit, showStr w.wordStructure, showStr w.synonymGroupIds,
    showStr (accNormalizedForm w), showStr (accDictionaryForm w), showStr (accReadingForm w)]

def showRes (r : Res WordInfoData) : String :=
  match r with
  | .ok w => "ok/" ++ showInfo w
  | .err => "err"
  | .panic => "PANIC"

def parseNz (toks : List (List Char)) : Option NzVariant :=
  match Wire.kv? toks "nz" with
  | some v => if v = "cur".toList then some .cur else if v = "fix".toList then some .fix else none
  | none => none

def parseMode (s : List Char) : Option Mode :=
  if s = ['A'] then some .A else if s = ['B'] then some .B else if s = ['C'] then some .C else none

def showMode : Mode → String
  | .A => "A" | .B => "B" | .C => "C"

/-- `lex=<hex>,<hex>;<hex>...` records by word id per lexicon; `syn=1,0`; `posoff=..`; `nsys=..` -/
def parseLexSet (toks : List (List Char)) : Option LexSet :=
  match Wire.kv? toks "lex", Wire.kv? toks "syn", Wire.kv? toks "posoff", Wire.kv? toks "nsys" with
  | some l, some s, some p, some n =>
    match Wire.allSome ((Wire.items ';' l).map (fun lx => Wire.allSome ((Wire.items ',' lx).map Wire.hexBytes?))),
          Wire.natList? s, Wire.natList? p, Wire.nat? n with
    | some recs, some syn, some po, some nsys =>
      if recs.length ≠ syn.length then none
      else some ⟨(recs.zip syn).map (fun (r, b) => ⟨r, b != 0⟩), po, nsys⟩
    | _, _, _, _ => none
  | _, _, _, _ => none

/-- `lo-hi` -/
def parseRange (s : List Char) : Option (Nat × Nat) :=
  match Wire.items '-' s with
  | [a, b] => match Wire.nat? a, Wire.nat? b with
    | some x, some y => some (x, y)
    | _, _ => none
  | _ => none

/-- `C11 wi idx= nz= lex= syn= posoff= nsys= wid=<raw> subs=lo-hi` → one `mask:result` per subset,
both for the subset itself and (after `|`) nothing else: the normalised request is just another mask -/
def handleWi (toks : List (List Char)) : String :=
  match parseLexSet toks, Wire.kv? toks "wid", Wire.kv? toks "subs" with
  | some ls, some w, some r =>
    match Wire.nat? w, parseRange r with
    | some wid, some (lo, hi) =>
      Wire.joinWith " " ((List.range (hi + 1 - lo)).map (fun k =>
        toString (lo + k) ++ ":" ++ showRes (getWordInfoSubset ls wid (lo + k))))
    | _, _ => "bad-op"
  | _, _, _ => "bad-op"

/-- `C11 nz idx= nz= ` → `normalize` of all 1024 masks -/
def handleNz (toks : List (List Char)) : String :=
  match parseNz toks with
  | some v => Wire.showNats ((List.range 1024).map (normalize v))
  | none => "bad-op"

def parseOp (s : List Char) : Option Op :=
  match s with
  | 'm' :: ':' :: m => (parseMode m).map Op.mode
  | 's' :: ':' :: n => (Wire.nat? n).map Op.subset
  | _ => none

def sliceBytes (text : Bytes) (b e : Nat) : Bytes := (text.drop b).take (e - b)

def parsePath (text : Bytes) (s : List Char) : Option (List PNode) :=
  Wire.allSome ((Wire.items ',' s).map (fun it =>
    match Wire.natTuple? it with
    | some [w, b, e] =>
      match Wire.utf8Decode (sliceBytes text b e) with
      | some cps => some ⟨w, b, e, cps⟩
      | none => none
    | _ => none))

def showRNode (n : RNode) : String :=
  toString n.wid ++ ":" ++ toString n.bb ++ ":" ++ toString n.be ++ ":" ++ showInfo n.info

/-- `C11 tok idx= nz= lex= syn= posoff= nsys= mode0=C ops=m:A,s:37 text=<hex> path=wid:bb:be,...` -/
def handleTok (toks : List (List Char)) : String :=
  match parseNz toks, parseLexSet toks, Wire.kv? toks "mode0", Wire.kv? toks "ops", Wire.kv? toks "text", Wire.kv? toks "path" with
  | some v, some ls, some m0, some ops, some text, some path =>
    match parseMode m0, Wire.allSome ((Wire.items ',' ops).map parseOp), Wire.hexBytes? text with
    | some m0, some ops, some text =>
      match parsePath text path with
      | some path =>
        let st := applyOps v (newTok m0) ops
        let pre := "mode=" ++ showMode st.mode ++ " sub=" ++ toString st.subset
        match tokenize ls st text path with
        | .ok rs => "ok " ++ pre ++ " morphs=" ++ Wire.joinWith ";" (rs.map showRNode)
        | .err => "err " ++ pre
        | .panic => "PANIC " ++ pre
      | none => "bad-op"
    | _, _, _ => "bad-op"
  | _, _, _, _, _, _ => "bad-op"

def handle (op : List Char) (toks : List (List Char)) : String :=
  match String.ofList op with
  | "wi" => handleWi toks
  | "nz" => handleNz toks
  | "tok" => handleTok toks
  | _ => "bad-op"

end Subset
