import Sudachi.Model.RewriteNumeric
import Sudachi.Model.Split
/-!
# The numeral joiner followed by the split stage  (property C15, op `modes`)

`StatefulTokenizer::do_tokenize` runs the path-rewrite plugins on the mode-C best path and `split_path`
AFTERWARDS; `Morpheme::split_into` splits a morpheme of the mode-C result on demand.  Both read the
`a_unit_split` / `b_unit_split` lists the node carries at that moment: a node rebuilt by `concat_nodes`
has none (`..Default::default()`), a dictionary node the joiner left alone still has the ones of its word.

Nothing is re-transcribed here: `RewriteNumeric.rewrite` (C14's loop with the C15 parser model) produces
the rewritten path, `toSplit` reads off a `Rewrite.Node` what the split stage looks at, and
`Split.expand` / `Split.split` / `Split.splitInto` (property C09) do the splitting with the declared
lexicon (key byte lengths and unit ids, as in C09's lines) and the offset tables of the text.  What is
added is the OBSERVATION C15 makes: character range and normalised form of every token.  A node that is
kept shows the form of the rewritten path; a unit shows the stored form of its word, looked up in the
table `norms` of the case line by word id (system dictionary only, anything else is `bad-unit`).
-/
namespace RewriteNumericSplit
open Rewrite

/-- what `split_path` / `split_into` read of a `ResultNode` -/
def toSplit (n : Rewrite.Node) : Split.Node :=
  ⟨n.b, n.e, n.bb, n.eb, n.wid, ⟨n.hwl, n.aSplit, n.bSplit⟩⟩

/-- an observed token: character range and `Morpheme::normalized_form()` -/
structure Tok where
  b : Nat
  e : Nat
  norm : List Char
deriving Repr, DecidableEq

/-- a node of the rewritten path that the split stage keeps -/
def keepTok (n : Rewrite.Node) : Tok := ⟨n.b, n.e, normForm n⟩

/-- a unit made by `NodeSplitIterator`: the word info is loaded from the lexicon -/
def unitTok (norms : List (List Char)) (u : Split.Node) : Option Tok :=
  if Split.dicOf u.wid = 0 then (norms[Split.wordOf u.wid]?).map (fun f => ⟨u.cb, u.ce, f⟩) else none

def unitToks (norms : List (List Char)) (us : List Split.Node) : Split.Outcome (List Tok) :=
  match Wire.allSome (us.map (unitTok norms)) with
  | some ts => .ok ts
  | none => .err "bad-unit"

/-- loop body of `split_path` for one node, as observed -/
def expandTok (cx : Split.Ctx) (norms : List (List Char)) (m : Split.Mode) (n : Rewrite.Node) :
    Split.Outcome (List Tok) :=
  if Split.numSplits (toSplit n) m ≤ 1 then .ok [keepTok n]
  else
    match Split.split cx (toSplit n) m with
    | .ok us => unitToks norms us
    | .err k => .err k
    | .panic w => .panic w

/-- `split_path` on the rewritten path, as observed (mode C: the path itself) -/
def splitToks (cx : Split.Ctx) (norms : List (List Char)) (m : Split.Mode) : List Rewrite.Node → Split.Outcome (List Tok)
  | [] => .ok []
  | n :: rest =>
    match (if m = .C then .ok [keepTok n] else expandTok cx norms m n), splitToks cx norms m rest with
    | .ok ts, .ok r => .ok (ts ++ r)
    | .err k, _ => .err k
    | .panic w, _ => .panic w
    | _, .err k => .err k
    | _, .panic w => .panic w

/-- `Morpheme::split_into(mode)` of one morpheme of the mode-C result, as the harness reads it: the units,
or the morpheme itself when the call reports that nothing was split -/
def splitIntoTok (cx : Split.Ctx) (norms : List (List Char)) (m : Split.Mode) (n : Rewrite.Node) :
    Split.Outcome (List Tok) :=
  match Split.splitInto cx m (toSplit n) with
  | .ok (false, _) => .ok [keepTok n]
  | .ok (true, us) => unitToks norms us
  | .err k => .err k
  | .panic w => .panic w

def splitIntoToks (cx : Split.Ctx) (norms : List (List Char)) (m : Split.Mode) : List Rewrite.Node → Split.Outcome (List Tok)
  | [] => .ok []
  | n :: rest =>
    match splitIntoTok cx norms m n, splitIntoToks cx norms m rest with
    | .ok ts, .ok r => .ok (ts ++ r)
    | .err k, _ => .err k
    | .panic w, _ => .panic w
    | _, .err k => .err k
    | _, .panic w => .panic w

/-! ## driver entry -/

def showTok (t : Tok) : String :=
  toString t.b ++ ":" ++ toString t.e ++ ":" ++ Numeric.showCps "." t.norm

def showOut (r : Split.Outcome (List Tok)) : String :=
  match r with
  | .ok ts => Wire.joinWith ";" (ts.map showTok)
  | .err _ => "err"
  | .panic _ => "PANIC"

/-- one row of the declared lexicon: `<key byte length>:<A unit ids '/'>:<B unit ids '/'>:<stored normalised form, hex>` -/
def row? (s : List Char) : Option (Split.Entry × List Char) :=
  match Wire.splitOn ':' s with
  | [h, a, b, f] =>
    match Wire.nat? h, Split.slashList? a, Split.slashList? b, hexStr? f with
    | some h, some a, some b, some f => some (⟨h, a, b⟩, f)
    | _, _, _, _ => none
  | _ => none

/-- `C15 modes idx=.. fix= nv= plugin= cat= path=` (as op `pipe`) `lex=<row,row,…> b2c= c2b=` →
`ok C=<b:e:form;…> A=… B=… siA=… siB=…` (the tokenizer in modes C, A, B; `split_into(A)`, `split_into(B)` of
every mode-C morpheme) / `err` / `PANIC` / `HANG` -/
def handle (toks : List (List Char)) : String :=
  match Numeric.variant? toks, parseVariant (Wire.kv? toks "nv"), Wire.kv? toks "plugin", Wire.kv? toks "cat",
        Wire.kv? toks "path", Wire.kv? toks "lex", (Wire.kv? toks "b2c").bind Wire.natList?,
        (Wire.kv? toks "c2b").bind Wire.natList? with
  | some v, some nv, some pl, some c, some pa, some lx, some b2c, some c2b =>
    match parsePlugin pl, Wire.natList? c, Wire.allSome ((Wire.items ';' pa).map parseNode),
          Wire.allSome ((Wire.items ',' lx).map row?) with
    | some (.numeric cfg), some cat, some path, some rows =>
      match RewriteNumeric.rewrite v nv cfg cat path with
      | .ok q =>
        let cx : Split.Ctx := ⟨.cur, [rows.map (·.1)], Split.Subset.all, b2c, c2b⟩
        let norms := rows.map (·.2)
        "ok C=" ++ showOut (splitToks cx norms .C q) ++ " A=" ++ showOut (splitToks cx norms .A q)
          ++ " B=" ++ showOut (splitToks cx norms .B q) ++ " siA=" ++ showOut (splitIntoToks cx norms .A q)
          ++ " siB=" ++ showOut (splitIntoToks cx norms .B q)
      | .err => "err"
      | .panic => "PANIC"
      | .fuel => "HANG"
    | _, _, _, _ => "bad-op"
  | _, _, _, _, _, _, _, _ => "bad-op"

end RewriteNumericSplit
