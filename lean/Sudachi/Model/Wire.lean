/-!
# Wire format helpers for the line protocol (core only)

Every case is one line `<PROP> <op> key=value key=value ...`.  Values never contain spaces:
numbers are decimal, lists are comma separated, nested lists use `;` then `,` (or `:` inside an
item), byte strings are lower-case hex.  Everything here works on `List Char` so that it does not
depend on the `String` API of a particular Lean release.
-/
namespace Wire

def splitOn (sep : Char) : List Char → List (List Char)
  | [] => [[]]
  | c :: cs =>
    match splitOn sep cs with
    | [] => [[]]            -- unreachable, `splitOn` never returns `[]`
    | w :: ws => if c = sep then [] :: w :: ws else (c :: w) :: ws

/-- `splitOn` that maps the empty input to the empty list (an empty list value) -/
def items (sep : Char) (s : List Char) : List (List Char) :=
  if s.isEmpty then [] else splitOn sep s

def isWs (c : Char) : Bool := c = ' ' || c = '\t' || c = '\n' || c = '\r' || c = '\x0b' || c = '\x0c'

def words (s : List Char) : List (List Char) :=
  (go s [] []).reverse
where
  go : List Char → List Char → List (List Char) → List (List Char)
    | [], cur, acc => if cur.isEmpty then acc else cur.reverse :: acc
    | c :: cs, cur, acc =>
      if isWs c then (if cur.isEmpty then go cs [] acc else go cs [] (cur.reverse :: acc))
      else go cs (c :: cur) acc

def digitVal? (c : Char) : Option Nat :=
  if '0' ≤ c ∧ c ≤ '9' then some (c.toNat - '0'.toNat) else none

def hexDigitVal? (c : Char) : Option Nat :=
  if '0' ≤ c ∧ c ≤ '9' then some (c.toNat - '0'.toNat)
  else if 'a' ≤ c ∧ c ≤ 'f' then some (c.toNat - 'a'.toNat + 10)
  else if 'A' ≤ c ∧ c ≤ 'F' then some (c.toNat - 'A'.toNat + 10)
  else none

def nat? (s : List Char) : Option Nat :=
  if s.isEmpty then none else
  s.foldl (fun acc c => match acc, digitVal? c with
    | some a, some d => some (a * 10 + d)
    | _, _ => none) (some 0)

def hex? (s : List Char) : Option Nat :=
  if s.isEmpty then none else
  s.foldl (fun acc c => match acc, hexDigitVal? c with
    | some a, some d => some (a * 16 + d)
    | _, _ => none) (some 0)

def int? (s : List Char) : Option Int :=
  match s with
  | '-' :: rest => (nat? rest).map (fun n => - (Int.ofNat n))
  | _ => (nat? s).map Int.ofNat

def allSome {α : Type} : List (Option α) → Option (List α)
  | [] => some []
  | none :: _ => none
  | some a :: rest => (allSome rest).map (a :: ·)

def natList? (s : List Char) : Option (List Nat) := allSome ((items ',' s).map nat?)
def intList? (s : List Char) : Option (List Int) := allSome ((items ',' s).map int?)

/-- `a:b:c` -/
def natTuple? (s : List Char) : Option (List Nat) := allSome ((items ':' s).map nat?)
def intTuple? (s : List Char) : Option (List Int) := allSome ((items ':' s).map int?)

/-- hex string to byte values -/
def hexBytes? : List Char → Option (List Nat)
  | [] => some []
  | [_] => none
  | a :: b :: rest =>
    match hexDigitVal? a, hexDigitVal? b, hexBytes? rest with
    | some x, some y, some r => some ((x * 16 + y) :: r)
    | _, _, _ => none

def stripPrefix? (p : List Char) (s : List Char) : Option (List Char) :=
  match p, s with
  | [], s => some s
  | _ :: _, [] => none
  | a :: p', b :: s' => if a = b then stripPrefix? p' s' else none

/-- value of `key=` among the tokens -/
def kv? (toks : List (List Char)) (key : String) : Option (List Char) :=
  toks.findSome? (fun t => stripPrefix? (key.toList ++ ['=']) t)

def joinWith (sep : String) : List String → String
  | [] => ""
  | [x] => x
  | x :: xs => x ++ sep ++ joinWith sep xs

def showNats (l : List Nat) : String := joinWith "," (l.map toString)
def showInts (l : List Int) : String := joinWith "," (l.map toString)

/-- decode UTF-8 bytes (given as Nat values) to scalar values; `none` on malformed input -/
def utf8Decode : List Nat → Option (List Nat)
  | [] => some []
  | b0 :: rest =>
    if b0 < 0x80 then (utf8Decode rest).map (b0 :: ·)
    else if b0 < 0xC0 then none
    else if b0 < 0xE0 then
      match rest with
      | b1 :: r => (utf8Decode r).map (((b0 - 0xC0) * 64 + (b1 - 0x80)) :: ·)
      | _ => none
    else if b0 < 0xF0 then
      match rest with
      | b1 :: b2 :: r => (utf8Decode r).map (((b0 - 0xE0) * 4096 + (b1 - 0x80) * 64 + (b2 - 0x80)) :: ·)
      | _ => none
    else
      match rest with
      | b1 :: b2 :: b3 :: r =>
        (utf8Decode r).map (((b0 - 0xF0) * 262144 + (b1 - 0x80) * 4096 + (b2 - 0x80) * 64 + (b3 - 0x80)) :: ·)
      | _ => none
termination_by l => l.length

end Wire
