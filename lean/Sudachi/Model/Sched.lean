import Sudachi.Model.Wire
/-!
# Model of concurrent tokenizers over one shared dictionary (property C18)

`D` is the loaded dictionary, `S` the private working state of one tokenizer, `Op` one operation of
a thread (set mode, analyse a text, …), `Out` what the thread observes.  A step of thread `i`
is `step d sᵢ op`; it returns the dictionary it leaves behind, the new private state and the output.
A schedule is the sequence of thread numbers in the order in which their next operations execute.
The model is generic in `step`: what matters for C18 is the *frame* of a step (it may read `d`,
may read and write only its own `sᵢ`, and leaves `d` as it found it).
-/
namespace Sched

variable {D S Op Out : Type}

structure Sys (D S Op : Type) where
  dict : D
  states : List S            -- private state of every thread
  pending : List (List Op)   -- operations every thread still has to perform

/-- thread `i` performs its next operation (nothing happens if it has none or does not exist) -/
def stepThread (step : D → S → Op → D × S × Out) (sys : Sys D S Op) (i : Nat) : Sys D S Op × Option (Nat × Out) :=
  match sys.states[i]?, sys.pending[i]? with
  | some s, some (op :: rest) =>
    let r := step sys.dict s op
    ({ dict := r.1, states := sys.states.set i r.2.1, pending := sys.pending.set i rest }, some (i, r.2.2))
  | _, _ => (sys, none)

/-- run a schedule; returns the final system and the global trace of (thread, output) events -/
def run (step : D → S → Op → D × S × Out) : Sys D S Op → List Nat → Sys D S Op × List (Nat × Out)
  | sys, [] => (sys, [])
  | sys, i :: rest =>
    let (sys1, ev) := stepThread step sys i
    let (sys2, evs) := run step sys1 rest
    (sys2, match ev with | some e => e :: evs | none => evs)

/-- one thread alone: outputs of performing `ops` from state `s` on dictionary `d` -/
def alone (step : D → S → Op → D × S × Out) (d : D) : S → List Op → List Out
  | _, [] => []
  | s, op :: rest => let r := step d s op; r.2.2 :: alone step d r.2.1 rest

/-- the outputs of thread `i` in a global trace -/
def outputsOf (i : Nat) (trace : List (Nat × Out)) : List Out :=
  (trace.filter (fun e => e.1 == i)).map (·.2)

/-! ## driver: replay an observed schedule with a table-driven step -/

/-- `C18 run ops=<t0 op ids , …;t1 …> res=<op id:result id, …> sched=<thread numbers>`
(operations and results are numbered by the harness; `res` is the result every operation has when its
thread runs alone).  answer: the global trace `thread:result` predicted for that schedule -/
def handle (toks : List (List Char)) : String :=
  match Wire.kv? toks "ops", Wire.kv? toks "res", Wire.kv? toks "sched" with
  | some o, some r, some sc =>
    match Wire.allSome ((Wire.items ';' o).map (fun t => if t = ['-'] then some [] else Wire.natList? t)),
          Wire.allSome ((Wire.items ',' r).map Wire.natTuple?), Wire.natList? sc with
    | some ops, some res, some sched =>
      let table : Nat → Nat := fun op => match res.find? (fun t => t.head? == some op) with
        | some [_, v] => v
        | _ => 0
      let step : Unit → Unit → Nat → Unit × Unit × Nat := fun d s op => (d, s, table op)
      let sys : Sys Unit Unit Nat := { dict := (), states := ops.map (fun _ => ()), pending := ops }
      let (_, trace) := run step sys sched
      "ok trace=" ++ Wire.joinWith "," (trace.map (fun e => toString e.1 ++ ":" ++ toString e.2))
    | _, _, _ => "bad-op"
  | _, _, _ => "bad-op"

end Sched
