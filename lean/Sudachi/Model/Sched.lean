import Sudachi.Model.Wire
/-!
# Model of concurrent tokenizers over one shared dictionary (property C18)

`D` is the loaded dictionary, `S` the private working state of one tokenizer, `Op` one operation of
a thread (set mode, analyse a text, …), `Out` what the thread observes.  A step of thread `i`
is `step d sᵢ op`; it returns the dictionary it leaves behind, the new private state and the output.
A schedule is the sequence of thread numbers in the order in which their next operations execute.
The model is generic in `step`: what matters for C18 is the *frame* of a step (it may read `d`,
may read and write only its own `sᵢ`, and leaves `d` as it found it).
-/
namespace Sched

variable {D S Op Out : Type}

structure Sys (D S Op : Type) where
  dict : D
  states : List S            -- private state of every thread
  pending : List (List Op)   -- operations every thread still has to perform

/-- thread `i` performs its next operation (nothing happens if it has none or does not exist) -/
def stepThread (step : D → S → Op → D × S × Out) (sys : Sys D S Op) (i : Nat) : Sys D S Op × Option (Nat × Out) :=
  match sys.states[i]?, sys.pending[i]? with
  | some s, some (op :: rest) =>
    let r := step sys.dict s op
    ({ dict := r.1, states := sys.states.set i r.2.1, pending := sys.pending.set i rest }, some (i, r.2.2))
  | _, _ => (sys, none)

/-- run a schedule; returns the final system and the global trace of (thread, output) events -/
def run (step : D → S → Op → D × S × Out) : Sys D S Op → List Nat → Sys D S Op × List (Nat × Out)
  | sys, [] => (sys, [])
  | sys, i :: rest =>
    let (sys1, ev) := stepThread step sys i
    let (sys2, evs) := run step sys1 rest
    (sys2, match ev with | some e => e :: evs | none => evs)

/-- one thread alone: outputs of performing `ops` from state `s` on dictionary `d` -/
def alone (step : D → S → Op → D × S × Out) (d : D) : S → List Op → List Out
  | _, [] => []
  | s, op :: rest => let r := step d s op; r.2.2 :: alone step d r.2.1 rest

/-- the outputs of thread `i` in a global trace -/
def outputsOf (i : Nat) (trace : List (Nat × Out)) : List Out :=
  (trace.filter (fun e => e.1 == i)).map (·.2)

/-! ## shared state that really exists: initialise-once cells

The Rust code has process-wide statics that are filled on first use (`lazy_static!` regexes of
`sentence_detector.rs`, the numeral table `CHAR_TO_NUM`, …).  They are shared by all threads and they DO
change during analysis — once.  Model: the shared state is the dictionary (read-only: a step cannot return
one) plus a map of once-cells.  A step reaches the cells only through `getOrInit`: it receives the content,
and an empty cell is first filled by the initialiser `init d c`, which depends on the dictionary and the
cell number only.  There is no other read and no write. -/

/-- the once-cells: cell number ↦ content, `none` = not initialised yet -/
abbrev Cells (V : Type) := Nat → Option V

def Cells.empty {V : Type} : Cells V := fun _ => none

def Cells.set {V : Type} (cs : Cells V) (c : Nat) (v : V) : Cells V := fun x => if x = c then some v else cs x

/-- what one step does: `get_or_init` cells, one after the other (later ones may depend on what the earlier
ones held), then finish with a result -/
inductive Prog (V R : Type) where
  | ret : R → Prog V R
  | getOrInit : Nat → (V → Prog V R) → Prog V R

/-- execution against the cells: an initialised cell is read, an empty one is filled with `init c` first -/
def Prog.exec {V R : Type} (init : Nat → V) : Prog V R → Cells V → R × Cells V
  | .ret r, cs => (r, cs)
  | .getOrInit c k, cs =>
    match cs c with
    | some v => (k v).exec init cs
    | none => (k (init c)).exec init (cs.set c (init c))

/-- the same program when every cell holds what its initialiser gives (no cells needed) -/
def Prog.pure {V R : Type} (init : Nat → V) : Prog V R → R
  | .ret r => r
  | .getOrInit c k => (k (init c)).pure init

/-- the cells that program asks for -/
def Prog.touched {V R : Type} (init : Nat → V) : Prog V R → List Nat
  | .ret _ => []
  | .getOrInit c k => c :: (k (init c)).touched init

/-- a once-cell step as a step of the scheduler `run` whose shared component is the cell map
(the dictionary `d` is a parameter: read-only by construction) -/
def onceStep {D V S Op Out : Type} (init : D → Nat → V) (step : D → S → Op → Prog V (S × Out)) (d : D) :
    Cells V → S → Op → Cells V × S × Out :=
  fun cs s op => let r := (step d s op).exec (init d) cs; (r.2, r.1.1, r.1.2)

/-- one thread alone, the shared component threaded through its own steps -/
def aloneG {G S Op Out : Type} (step : G → S → Op → G × S × Out) : G → S → List Op → List Out
  | _, _, [] => []
  | g, s, op :: rest => let r := step g s op; r.2.2 :: aloneG step r.1 r.2.1 rest

/-- the cells one thread asks for performing `ops` alone (every cell holding its initial value) -/
def touchedAlone {D V S Op Out : Type} (init : D → Nat → V) (step : D → S → Op → Prog V (S × Out)) (d : D) :
    S → List Op → List Nat
  | _, [] => []
  | s, op :: rest => (step d s op).touched (init d) ++ touchedAlone init step d ((step d s op).pure (init d)).1 rest

/-- who initialised what: per executed step the cells (numbers below `n`) that were empty before it and are
filled after it -/
def initLog {V S Op Out : Type} (n : Nat) (step : Cells V → S → Op → Cells V × S × Out) :
    Sys (Cells V) S Op → List Nat → List (Nat × Nat)
  | _, [] => []
  | sys, i :: rest =>
    let sys1 := (stepThread step sys i).1
    ((List.range n).filter (fun c => (sys.dict c).isNone && (sys1.dict c).isSome)).map (fun c => (c, i))
      ++ initLog n step sys1 rest

/-! ## driver: replay an observed schedule with a table-driven step -/

/-- the once-cells of the Rust code, by the name of the `static ref` (cell number = position): the regexes of
`sentence_detector.rs`, the numeral table, the builder's regexes, the directory of the executable.  The
`inventory` case of every run compares this list with the `lazy_static!` sites found in the source. -/
def cellNames : List String :=
  ["SENTENCE_BREAKER", "ITEMIZE_HEADER", "SPACES", "PARENTHESIS", "PROHIBITED_BOS", "QUOTE_MARKER",
   "EOS_ITEMIZE_HEADER", "CHAR_TO_NUM", "UNICODE_LITERAL", "WORD_ID_LITERAL", "SPLIT_REGEX", "EMPTY_LINE", "CURRENT_EXE_DIR"]

/-- replay initialiser: a function of the dictionary (its fingerprint) and the cell number only -/
def replayInit (d c : Nat) : Nat := d * 64 + c + 1

/-- replay step of an operation whose single-threaded result is `res` and which asks for `cells`: it
`get_or_init`s them in order and answers `res` iff every cell held what its initialiser gives (else 0) -/
def replayProg (d res : Nat) : List Nat → Bool → Prog Nat (Unit × Nat)
  | [], ok => .ret ((), if ok then res else 0)
  | c :: cs, ok => .getOrInit c (fun v => replayProg d res cs (ok && v == replayInit d c))

def parseTouch (t : List Char) : Option (List (Nat × List Nat)) :=
  if t = ['-'] then some [] else
  Wire.allSome ((Wire.items ',' t).map (fun it =>
    match Wire.splitOn ':' it with
    | [o, cs] => match Wire.nat? o, Wire.allSome ((Wire.items '.' cs).map Wire.nat?) with
      | some o, some cs => some (o, cs)
      | _, _ => none
    | _ => none))

/-- `C18 run ops=<t0 op ids , …;t1 …> res=<op id:result id, …> sched=<thread numbers> fp=<dictionary> ncells=<n>
pre=<cells initialised before the threads start> touch=<op id:cell.cell, …>`
(operations and results are numbered by the harness; `res` is the result every operation has when its
thread runs alone; `touch` the once-cells it asks for).  answer: the global trace `thread:result` predicted for
that schedule by the once-cell scheduler, who initialised which cell (`cell:thread`, in order), and the cells
that are initialised at the end -/
def handle (toks : List (List Char)) : String :=
  match Wire.kv? toks "ops", Wire.kv? toks "res", Wire.kv? toks "sched",
        Wire.kv? toks "fp", Wire.kv? toks "ncells", Wire.kv? toks "pre", Wire.kv? toks "touch" with
  | some o, some r, some sc, some fp, some nc, some pre, some tch =>
    match Wire.allSome ((Wire.items ';' o).map (fun t => if t = ['-'] then some [] else Wire.natList? t)),
          Wire.allSome ((Wire.items ',' r).map Wire.natTuple?), Wire.natList? sc,
          Wire.nat? fp, Wire.nat? nc, (if pre = ['-'] then some [] else Wire.natList? pre), parseTouch tch with
    | some ops, some res, some sched, some d, some n, some pre, some touch =>
      let table : Nat → Nat := fun op => match res.find? (fun t => t.head? == some op) with
        | some [_, v] => v
        | _ => 0
      let cellsOf : Nat → List Nat := fun op => match touch.find? (fun t => t.1 == op) with
        | some t => t.2
        | none => []
      let stepP : Nat → Unit → Nat → Prog Nat (Unit × Nat) := fun d _ op => replayProg d (table op) (cellsOf op) true
      let cells0 : Cells Nat := pre.foldl (fun cs c => cs.set c (replayInit d c)) Cells.empty
      let sys : Sys (Cells Nat) Unit Nat := { dict := cells0, states := ops.map (fun _ => ()), pending := ops }
      let (fin, trace) := run (onceStep replayInit stepP d) sys sched
      let log := initLog n (onceStep replayInit stepP d) sys sched
      "ok trace=" ++ Wire.joinWith "," (trace.map (fun e => toString e.1 ++ ":" ++ toString e.2))
        ++ " init=" ++ Wire.joinWith "," (log.map (fun e => toString e.1 ++ ":" ++ toString e.2))
        ++ " cells=" ++ Wire.showNats ((List.range n).filter (fun c => (fin.dict c).isSome))
    | _, _, _, _, _, _, _ => "bad-op"
  | _, _, _, _, _, _, _ => "bad-op"

/-- `C18 inventory allow=<class|file|pattern|count;…>`: the committed allow-list of shared-state sites
(`c18_shared_state.txt`) the model was written against.  answer: the sites without their class, and the names of
the model's once-cells — the harness answers with what it finds in the source NOW. -/
def handleInventory (toks : List (List Char)) : String :=
  match Wire.kv? toks "allow" with
  | some a =>
    let sites := (Wire.items ';' a).map (fun it => match Wire.splitOn '|' it with
      | _ :: rest => Wire.joinWith "|" (rest.map String.ofList)
      | [] => "")
    "ok sites=" ++ Wire.joinWith ";" sites ++ " cells=" ++ Wire.joinWith "," cellNames
  | none => "bad-op"

def handleOp (op : List Char) (toks : List (List Char)) : String :=
  if op = "inventory".toList then handleInventory toks else handle toks

end Sched
