import Sudachi.Model.Wire
import Sudachi.Model.Codec
import Sudachi.Model.CodecCsv
import Sudachi.Model.Trie
/-!
# Dictionary builder (property C05): `dic/build/{parse,lexicon,conn,index,resolve,mod}.rs`

CSV TEXT → records (`Model/CodecCsv.lean`) → `RawLexiconEntry` list (the FIELD layer: `unescape`, number and id
parsers, split columns, POS interning, mode rule - all executed by the driver from the raw record fields) → resolved
entries → the byte layout of `DictBuilder::compile`.  The double-array trie is produced by the external
`yada` builder: its bytes are an input of `compile` (cut out of the real output by the harness); the
word-id table, which depends on the insertion order of `IndexBuilder`, is modelled.
-/
namespace Codec

def lit (s : String) : Str := s.toList.map Char.toNat

/-! ## text helpers (`&str` operations used by the parsers) -/

/-- `char::is_whitespace` / regex `\s` (Unicode White_Space) -/
def isWhite (c : Nat) : Bool :=
  (9 ≤ c && c ≤ 13) || c = 32 || c = 0x85 || c = 0xA0 || c = 0x1680 || (0x2000 ≤ c && c ≤ 0x200A)
    || c = 0x2028 || c = 0x2029 || c = 0x202F || c = 0x205F || c = 0x3000

def trimStart (s : Str) : Str := s.dropWhile isWhite
def trim (s : Str) : Str := (trimStart (trimStart s).reverse).reverse

/-- `str::split(sep)` for a one-character separator -/
def splitChar (sep : Nat) (s : Str) : List Str :=
  go s [] []
where
  go : Str → Str → List Str → List Str
    | [], cur, acc => (cur.reverse :: acc).reverse
    | c :: cs, cur, acc => if c = sep then go cs [] (cur.reverse :: acc) else go cs (c :: cur) acc

/-- `str::splitn(n, sep)`: at most `n` pieces, the last one holds the rest -/
def splitnChar (sep : Nat) : Nat → Str → List Str
  | 0, _ => []
  | 1, s => [s]
  | n + 2, s =>
    match s.span (· ≠ sep) with
    | (a, []) => [a]
    | (a, _ :: rest) => a :: splitnChar sep (n + 1) rest

def isDigit (c : Nat) : Bool := 48 ≤ c && c ≤ 57
def isHex (c : Nat) : Bool := isDigit c || (97 ≤ c && c ≤ 102) || (65 ≤ c && c ≤ 70)
def hexVal (c : Nat) : Nat := if isDigit c then c - 48 else if 97 ≤ c then c - 87 else c - 55

/-- value of a non-empty all-ASCII-digit string -/
def digitsVal (s : Str) : Option Nat :=
  if s.isEmpty || !s.all isDigit then none else some (s.foldl (fun a c => a * 10 + (c - 48)) 0)

/-- `i16::from_str` -/
def parseI16 (s : Str) : Option Int :=
  match s with
  | [] => none
  | 43 :: r => (digitsVal r).bind (fun v => if v ≤ 32767 then some (v : Int) else none)
  | 45 :: r => (digitsVal r).bind (fun v => if v ≤ 32768 then some (-(v : Int)) else none)
  | _ => (digitsVal s).bind (fun v => if v ≤ 32767 then some (v : Int) else none)

/-- `u32::from_str` -/
def parseU32 (s : Str) : Option Nat :=
  match s with
  | 43 :: r => (digitsVal r).bind (fun v => if v ≤ 4294967295 then some v else none)
  | _ => (digitsVal s).bind (fun v => if v ≤ 4294967295 then some v else none)

/-- `parse_wordid_raw` -/
def parseWordIdRaw (s : Str) : Option Nat :=
  (parseU32 s).bind (fun v => if v &&& 0xf0000000 ≠ 0 then none else some (widNew 0 v))

/-- `parse_wordid` -/
def parseWordId (s : Str) : Option Nat :=
  match s with
  | 85 :: r => (parseWordIdRaw r).map (fun w => widNew 1 (widWord w))
  | _ => parseWordIdRaw s

/-- `parse_dic_form` -/
def parseDicForm (s : Str) : Option Nat := if s = lit "*" then some INVALID_WID else parseWordId s

/-- `parse_slash_list`: every part is parsed first, then the 127 limit -/
def parseSlashList {α : Type} (s : Str) (f : Str → Option α) : Option (List α) :=
  match Wire.allSome ((splitChar 47 s).map f) with
  | none => none
  | some l => if l.length > 127 then none else some l

def emptyOrStar (s : Str) : Bool := s.isEmpty || s = lit "*"

/-- `parse_wordid_list` -/
def parseWordIdList (s : Str) : Option (List Nat) := if emptyOrStar s then some [] else parseSlashList s parseWordId
/-- `parse_u32_list` -/
def parseU32List (s : Str) : Option (List Nat) := if emptyOrStar s then some [] else parseSlashList s parseU32

inductive Mode where | A | B | C
deriving Repr, DecidableEq

/-- `parse_mode` -/
def parseMode (s : Str) : Option Mode :=
  let t := trim s
  if t = lit "a" ∨ t = lit "A" then some .A
  else if t = lit "b" ∨ t = lit "B" then some .B
  else if t = lit "c" ∨ t = lit "C" ∨ t = lit "*" then some .C
  else if t = lit "BC" then some .B
  else none

/-- `char::from_u32` validity -/
def isScalar (v : Nat) : Bool := v < 0xD800 || (0xE000 ≤ v && v ≤ 0x10FFFF)

def hexNum (s : Str) : Nat := s.foldl (fun a c => a * 16 + hexVal c) 0

/-- `unescape_slow`: leftmost non-overlapping matches of
`\\u(?:\{([0-9a-fA-F]{1,6})\}|([0-9a-fA-F]{4}))` replaced by the character; `none` = `InvalidCharLiteral` -/
def unescapeGo : Nat → Str → Option Str
  | 0, _ => some []
  | _ + 1, [] => some []
  | fuel + 1, 92 :: 117 :: rest =>
    match rest with
    | 123 :: r2 =>
      let h := r2.takeWhile isHex
      let after := r2.drop h.length
      if 1 ≤ h.length ∧ h.length ≤ 6 ∧ after.head? = some 125 then
        if isScalar (hexNum h) then (unescapeGo fuel (after.drop 1)).map (hexNum h :: ·) else none
      else (unescapeGo fuel (117 :: rest)).map (92 :: ·)
    | _ =>
      let h := rest.take 4
      if h.length = 4 ∧ h.all isHex then
        if isScalar (hexNum h) then (unescapeGo fuel (rest.drop 4)).map (hexNum h :: ·) else none
      else (unescapeGo fuel (117 :: rest)).map (92 :: ·)
  | fuel + 1, c :: rest => (unescapeGo fuel rest).map (c :: ·)

/-- `unescape` / `unescape_cow`: `check_str_len` on the UTF-8 length of the raw field, then the literals -/
def unescape (s : Str) : Option Str :=
  if utf8LenStr s > 32767 then none else unescapeGo (s.length + 1) s

/-- `none_if_equal` -/
def noneIfEqual (surface data : Str) : Option Str := if surface = data then none else some data

/-! ## `LexiconReader` -/

inductive SplitUnit where
  | ref (raw : Nat)
  | inline (surface : Str) (pos : Nat) (reading : Option Str)
deriving Repr, DecidableEq

/-- `RawLexiconEntry` before split resolution -/
structure RawEntry where
  left : Int
  right : Int
  cost : Int
  surface : Str
  headword : Option Str
  dicForm : Nat
  normForm : Option Str
  pos : Nat
  splitsA : List SplitUnit
  splitsB : List SplitUnit
  reading : Option Str
  wordStructure : List Nat
  synonyms : List Nat
deriving Repr

namespace RawEntry
def headwordS (e : RawEntry) : Str := e.headword.getD e.surface
def readingS (e : RawEntry) : Str := e.reading.getD e.headwordS
end RawEntry

structure Reader where
  pos : Array (List Str) := #[]
  startPos : Nat := 0
  entries : Array RawEntry := #[]
  unresolved : Nat := 0
  maxLeft : Int := 32767
  maxRight : Int := 32767
  numSystem : Option Nat := none

/-- `pos_of`: id of the six strings in the insertion-ordered map, inserting when new -/
def posOf (rd : Reader) (p : List Str) : Option (Nat × Reader) :=
  match rd.pos.toList.findIdx? (· = p) with
  | some i => some (i, rd)
  | none =>
    let id := rd.pos.size
    if id > 32767 then none else some (id, { rd with pos := rd.pos.push p })

/-- `WORD_ID_LITERAL = ^U?\d+$` (ASCII digits; other decimal digits are outside the generators) -/
def isWordIdLiteral (s : Str) : Bool :=
  let d := match s with | 85 :: r => r | _ => s
  !d.isEmpty && d.all isDigit

/-- `parse_split` -/
def parseSplit (rd : Reader) (s : Str) : Option (SplitUnit × Reader) :=
  if isWordIdLiteral s then (parseWordId s).map (fun w => (.ref w, rd))
  else
    match (splitnChar 44 8 s).map unescape with
    | [some surface, some p1, some p2, some p3, some p4, some p5, some p6, some reading] =>
      match posOf rd [p1, p2, p3, p4, p5, p6] with
      | none => none
      | some (pos, rd') => some (.inline surface pos (noneIfEqual surface reading), rd')
    | _ => none

def parseSplitList (rd : Reader) : List Str → Option (List SplitUnit × Reader)
  | [] => some ([], rd)
  | s :: rest =>
    match parseSplit rd s with
    | none => none
    | some (u, rd') =>
      match parseSplitList rd' rest with
      | none => none
      | some (us, rd'') => some (u :: us, rd'')

/-- `parse_splits`: units and the number of inline (unresolved) ones -/
def parseSplits (rd : Reader) (s : Str) : Option (List SplitUnit × Nat × Reader) :=
  if emptyOrStar s then some ([], 0, rd) else
  match parseSplitList rd (splitChar 47 s) with
  | none => none
  | some (us, rd') =>
    if us.length > 127 then none
    else some (us, (us.filter (fun u => match u with | .inline .. => true | _ => false)).length, rd')

/-- `parse_record` + `read_record`: one CSV record appended to the reader; `none` = the `Err` of `read_lexicon` -/
def parseRecord (rd : Reader) (f : Array Str) : Option Reader := do
  let surface ← unescape (← f[0]?)
  let left ← parseI16 (← f[1]?)
  let right ← parseI16 (← f[2]?)
  let cost ← parseI16 (← f[3]?)
  let headword ← unescape (← f[4]?)
  let p1 ← unescape (← f[5]?)
  let p2 ← unescape (← f[6]?)
  let p3 ← unescape (← f[7]?)
  let p4 ← unescape (← f[8]?)
  let p5 ← unescape (← f[9]?)
  let p6 ← unescape (← f[10]?)
  let reading ← unescape (← f[11]?)
  let normalized ← unescape (← f[12]?)
  let dicForm ← parseDicForm (← f[13]?)
  let mode ← parseMode (← f[14]?)
  let (splitA, resA, rd) ← parseSplits rd (← f[15]?)
  let (splitB, resB, rd) ← parseSplits rd (← f[16]?)
  let parts ← parseWordIdList (← f[17]?)
  let synonyms ← match f[18]? with
    | some s => parseU32List s
    | none => some []
  let (pos, rd) ← posOf rd [p1, p2, p3, p4, p5, p6]
  if mode = .A ∧ (!splitA.isEmpty || !splitB.isEmpty) then none
  else if surface.isEmpty || surface.contains 0 then none  -- `EmptySurface`: empty, or a U+0000 (raw or as `\\u0000`; repair D5)
  else
    let entry : RawEntry :=
      { left := left, right := right, cost := cost, dicForm := dicForm,
        normForm := noneIfEqual headword normalized, reading := noneIfEqual headword reading,
        headword := noneIfEqual surface headword, surface := surface, pos := pos,
        splitsA := splitA, splitsB := splitB, wordStructure := parts, synonyms := synonyms }
    some { rd with unresolved := rd.unresolved + resA + resB, entries := rd.entries.push entry }

def readRecords (rd : Reader) : List (Array Str) → Option Reader
  | [] => some rd
  | r :: rest =>
    match parseRecord rd r with
    | none => none
    | some rd' => readRecords rd' rest

/-! ## split resolution (`resolve.rs`, `lexicon.rs:539 resolve_splits`) -/

/-- one row of a resolver index: surface, POS id, reading (`None` when equal to the surface), word id -/
abbrev ResolverRow := Str × Nat × Option Str × Nat

/-- `RawDictResolver::new`: rows in entry order; the key is the **trie surface** (column 0) -/
def rawResolverRows (entries : List RawEntry) (user : Bool) : List ResolverRow :=
  (List.range entries.length).zip entries |>.map (fun (i, e) =>
    (e.surface, e.pos, (if e.surface = e.readingS then none else some e.readingS), widNew (if user then 1 else 0) i))

/-- `resolve_inline`: first row with this surface whose POS and reading agree (rows of one surface
keep their insertion order in the `HashMap`'s `Vec`) -/
def resolveInline (rows : List ResolverRow) (surface : Str) (pos : Nat) (reading : Option Str) : Option Nat :=
  (rows.find? (fun r => r.1 = surface && r.2.1 = pos && r.2.2.1 = reading)).map (·.2.2.2)

/-- `SplitUnitResolver::resolve` with `ChainedResolver(a, b)` = own rows then system rows -/
def resolveUnit (own sys : List ResolverRow) : SplitUnit → Option Nat
  | .ref w => some w
  | .inline s p r => (resolveInline own s p r).orElse (fun _ => resolveInline sys s p r)

def toEntry (e : RawEntry) (a b : List Nat) : Entry :=
  { left := e.left, right := e.right, cost := e.cost, surface := e.surface, headword := e.headword,
    dicForm := e.dicForm, normForm := e.normForm, pos := e.pos, splitsA := a, splitsB := b,
    reading := e.reading, wordStructure := e.wordStructure, synonyms := e.synonyms }

/-- `resolve_splits`; `none` = `InvalidSplitWordReference` -/
def resolveSplits (own sys : List ResolverRow) (entries : List RawEntry) : Option (List Entry) :=
  Wire.allSome (entries.map (fun e =>
    match Wire.allSome (e.splitsA.map (resolveUnit own sys)), Wire.allSome (e.splitsB.map (resolveUnit own sys)) with
    | some a, some b => some (toEntry e a b)
    | _, _ => none))

/-! ## validation (`validate_entries`) -/

/-- `validate_wid`; dictionary ids other than 0/1 cannot be produced by `parse_wordid` -/
def validateWid (wid dic0Max dic1Max : Nat) : Bool :=
  let max := if widDic wid = 0 then dic0Max else dic1Max
  widWord wid < max

/-- The id `validate_entries` checks for the dictionary-form column.  `own = false`: the code as it stands (the
parsed `WordId`: a plain `N` is checked against the SYSTEM dictionary).  `own = true` (candidate repair
`fix_D8b.patch`): in a user dictionary the column names an entry of the dictionary itself - which is how
`WordInfos::get_word_info` reads it (and how `write_word_info` stores `UN` since the first half of D8 was repaired) -
so `N` and `UN` are both checked against the own entries.  The harness probes the linked builder (`dfv=cur|own`). -/
def dfCheckId (own user : Bool) (df : Nat) : Nat :=
  if own && user then widNew 1 (widWord df) else df

def validateEntry (own user : Bool) (maxLeft maxRight : Int) (max0 max1 : Nat) (e : Entry) : Bool :=
  e.left < maxLeft && e.right < maxRight && !(e.left ≥ 0 && e.right < 0)
    && (e.dicForm = INVALID_WID || validateWid (dfCheckId own user e.dicForm) max0 max1)
    && e.splitsA.all (validateWid · max0 max1) && e.splitsB.all (validateWid · max0 max1)
    && e.wordStructure.all (validateWid · max0 max1)

def validateEntries (own : Bool) (maxLeft maxRight : Int) (numSystem : Option Nat) (es : List Entry) : Bool :=
  let (max0, max1) := match numSystem with
    | none => (es.length, 0)
    | some x => (x, es.length)
  es.all (validateEntry own numSystem.isSome maxLeft maxRight max0 max1)

/-! ## connection matrix text (`conn.rs ConnBuffer::read`) -/

structure Conn where
  matrix : Bytes := []
  numLeft : Int := 0
  numRight : Int := 0

/-- lines as `BufRead::read_line` returns them (the terminator stays on the line) -/
def readLines (s : Str) : List Str :=
  go s [] []
where
  go : Str → Str → List Str → List Str
    | [], cur, acc => (if cur.isEmpty then acc else cur.reverse :: acc).reverse
    | c :: cs, cur, acc => if c = 10 then go cs [] ((c :: cur).reverse :: acc) else go cs (c :: cur) acc

/-- `EMPTY_LINE = ^\s*$` -/
def isEmptyLine (s : Str) : Bool := s.all isWhite

/-- `SPLIT_REGEX.splitn(text, n)` with `SPLIT_REGEX = \s+` -/
def splitnWhite : Nat → Str → List Str
  | 0, _ => []
  | 1, s => [s]
  | n + 2, s =>
    match s.span (fun c => !isWhite c) with
    | (a, []) => [a]
    | (a, rest) => a :: splitnWhite (n + 1) (rest.dropWhile isWhite)

/-- `ConnBuffer::parse_line` up to `write_elem`: the three numbers of a matrix line -/
def parseConnLine (l : Str) : Option (Int × Int × Int) :=
  match (splitnWhite 3 (trim l)).map parseI16 with
  | [some left, some right, some cost] => some (left, right, cost)
  | _ => none

def parseConnLines (numLeft : Nat) : List Str → Bytes → Outcome Bytes
  | [], m => .ok m
  | l :: rest, m =>
    if isEmptyLine l then parseConnLines numLeft rest m else
    match parseConnLine l with
    | some (left, right, cost) =>
      match writeElem m numLeft left right cost with
      | .ok m' => parseConnLines numLeft rest m'
      | e => e
    | none => .err "conn-line"

/-- `ConnBuffer::read`: skip blank lines (end of input there = `todo!()`), header, then the cells -/
def readConn (text : Str) : Outcome Conn :=
  let lines := readLines text
  let body := lines.dropWhile isEmptyLine
  match body with
  | [] => .panic "todo"
  | h :: rest =>
    match (splitnWhite 2 (trim h)).map parseI16 with
    | [some left, some right] =>
      if left < 0 ∨ right < 0 then .err "InvalidConnSize" else
      match parseConnLines left.toNat rest (List.replicate (left.toNat * right.toNat * 2) 0) with
      | .ok m => .ok { matrix := m, numLeft := left, numRight := right }
      | .err k => .err k
      | .panic w => .panic w
    | _ => .err "conn-header"

/-! ## index (`index.rs`) -/

/-- apply `f` to element `k` of a list -/
def modifyAt {α : Type} (f : α → α) : Nat → List α → List α
  | _, [] => []
  | 0, x :: xs => f x :: xs
  | k + 1, x :: xs => x :: modifyAt f k xs

/-- `IndexBuilder::add` for every indexed entry in order: ids grouped by surface, groups in the
order their surface first appears (insertion-ordered map).  Lists only (structural recursion), so that
predicates over the groups can be evaluated by the kernel. -/
def indexGroups (es : List Entry) : List (Str × List Nat) :=
  go ((List.range es.length).zip es) []
where
  go : List (Nat × Entry) → List (Str × List Nat) → List (Str × List Nat)
    | [], acc => acc
    | (i, e) :: rest, acc =>
      if e.left ≥ 0 then
        match acc.findIdx? (fun g => g.1 = e.surface) with
        | some k => go rest (modifyAt (fun g => (g.1, g.2 ++ [widNew 0 i])) k acc)
        | none => go rest (acc ++ [(e.surface, [widNew 0 i])])
      else go rest acc

/-- `build_word_id_table` -/
def buildWordIdTable (es : List Entry) : Outcome Bytes :=
  (indexGroups es).foldlM (fun acc g => do
    let b ← writeU32Array g.2
    pure (acc ++ b)) []

/-! ## layout (`mod.rs compile`, `lexicon.rs LexiconWriter::write`) -/

/-- bytes of `LexiconWriter::write` for entries whose record sizes are known; `offset` = bytes before it -/
def lexiconBytes (es : List Entry) (infos : List Bytes) (offset : Nat) : Bytes :=
  let n := es.length
  let offsetBase := offset + (6 + 4) * n + 4
  let offs := (infos.foldl (fun (acc : Nat × List Nat) b => (acc.1 + b.length, (offsetBase + acc.1) % 4294967296 :: acc.2)) (0, [])).2.reverse
  le32 n ++ es.flatMap encParams ++ offs.flatMap le32 ++ infos.flatten

/-- `LexiconWriter::write` -/
def writeLexicon (es : List Entry) (offset : Nat) : Outcome Bytes := do
  let infos ← es.mapM writeWordInfo
  pure (lexiconBytes es infos offset)

/-- `write_pos_table`: only the POS rows added by this dictionary -/
def writePosTable (pos : List (List Str)) (startPos : Nat) : Outcome Bytes := do
  let fresh := pos.drop startPos
  let rows ← fresh.mapM (fun p => p.mapM writeStr)
  pure (le16 (fresh.length % 65536) ++ (rows.map List.flatten).flatten)

/-- `ConnBuffer::write_to` -/
def writeConn (c : Conn) : Outcome Bytes :=
  if c.numLeft < 0 ∨ c.numRight < 0 then .err "InvalidConnSize"
  else .ok (le16 (i16ToU c.numLeft) ++ le16 (i16ToU c.numRight) ++ c.matrix)

/-- The dictionary-form id as `write_word_info` stores it.  `fix = false`: the code as it stands (the raw
`WordId`, dictionary bits included).  `fix = true`: the repair of finding D8's first half (`fix_D8.patch`): a
reference `UN` to an own entry of a user dictionary is stored as the index `N`, which is what
`WordInfos::get_word_info` resolves inside the same lexicon.  The harness probes the linked builder and names
the variant on every case line (`df=cur|fix`). -/
def storeDf (fix : Bool) (e : Entry) : Entry :=
  if fix && e.dicForm ≠ INVALID_WID && widDic e.dicForm ≠ 0 then { e with dicForm := widWord e.dicForm } else e

structure CompileInput where
  user : Bool
  /-- code variant of `write_word_info` (see `storeDf`) -/
  dfFix : Bool := false
  /-- code variant of `validate_entries` (see `dfCheckId`) -/
  dfOwn : Bool := false
  time : Nat
  desc : Bytes
  pos : List (List Str)
  startPos : Nat
  conn : Conn
  entries : List Entry
  maxLeft : Int
  maxRight : Int
  numSystem : Option Nat
  trie : Bytes

/-- `DictBuilder::compile` (after `resolve`): validate, header, grammar, index, lexicon -/
def compile (c : CompileInput) : Outcome Bytes := do
  if !validateEntries c.dfOwn c.maxLeft c.maxRight c.numSystem c.entries then .err "InvalidFieldSize" else
  let header ← writeHeader (if c.user then USER_DICT_VERSION_3 else SYSTEM_DICT_VERSION_2) c.time c.desc
  let posTable ← writePosTable c.pos c.startPos
  let conn ← writeConn c.conn
  let widTable ← buildWordIdTable c.entries
  let index := le32 ((c.trie.length / 4) % 4294967296) ++ c.trie ++ le32 (widTable.length % 4294967296) ++ widTable
  let written := header.length + posTable.length + conn.length
  let lex ← writeLexicon (c.entries.map (storeDf c.dfFix)) (written + index.length)
  pure (header ++ posTable ++ conn ++ index ++ lex)

/-! ## driver: build → load → dump (`C05 dict`) -/

def stage {α : Type} (name : String) : Outcome α → Except String α
  | .ok a => .ok a
  | .err _ => .error ("err stage=" ++ name)
  | .panic _ => .error ("PANIC stage=" ++ name)

/-- `read_conn` + `read_lexicon` + `resolve` + `compile` of a system dictionary -/
def buildSystem (dfFix : Bool) (time : Nat) (desc : Bytes) (matText : Str) (rows : List (Array Str)) (trie : Bytes) : Except String (Bytes × List Str) := do
  let conn ← stage "conn" (readConn matText)
  let rd0 : Reader := { maxLeft := conn.numLeft, maxRight := conn.numRight }
  let rd ← stage "lexicon" (ofOpt "lexicon" (readRecords rd0 rows))
  let raw := rd.entries.toList
  let entries ← stage "resolve" (ofOpt "resolve" (resolveSplits (rawResolverRows raw false) [] raw))
  let ci : CompileInput :=
    { user := false, dfFix := dfFix, time := time, desc := desc, pos := rd.pos.toList, startPos := rd.startPos, conn := conn, entries := entries,
      maxLeft := rd.maxLeft, maxRight := rd.maxRight, numSystem := rd.numSystem, trie := trie }
  let bytes ← stage "compile" (compile ci)
  pure (bytes, entries.map (·.surface))

/-- the same from the CSV TEXT: `LexiconReader::read_bytes` = the configured csv reader, then `read_record` per record -/
def buildSystemText (dfFix : Bool) (time : Nat) (desc : Bytes) (matText csvText : Str) (trie : Bytes) : Except String (Bytes × List Str) :=
  buildSystem dfFix time desc matText ((csvRecords csvText).map List.toArray) trie

/-- `BinDictResolver::new`: surface (= headword), POS id and reading of every system word, read back
from the loaded system dictionary -/
def binResolverRows (lex : Lexicon) : Outcome (List ResolverRow) :=
  (List.range lex.size).mapM (fun i => do
    let wi ← lex.parseWordInfo i
    let rd := if wi.readingForm.isEmpty || wi.surface = wi.readingForm then none else some wi.readingForm
    pure (wi.surface, wi.posId, rd, widNew 0 i))

/-- `DictBuilder::new_user(system)` + `read_lexicon` + `resolve` + `compile` -/
def buildUser (dfFix dfOwn : Bool) (sys : Loaded) (time : Nat) (desc : Bytes) (rows : List (Array Str)) (trie : Bytes) : Except String (Bytes × List Str) := do
  let g ← match sys.grammar with
    | some g => pure g
    | none => .error "PANIC stage=unew"
  let rd0 : Reader := { pos := g.posList.toArray, startPos := g.posList.length, maxLeft := g.numLeft, maxRight := g.numRight,
                        numSystem := some sys.lexicon.size }
  let rd ← stage "ulexicon" (ofOpt "lexicon" (readRecords rd0 rows))
  let raw := rd.entries.toList
  let sysRows ← if rd.unresolved > 0 then stage "uresolve" (binResolverRows sys.lexicon) else pure []
  let entries ← stage "uresolve" (ofOpt "resolve" (resolveSplits (rawResolverRows raw true) sysRows raw))
  let ci : CompileInput :=
    { user := true, dfFix := dfFix, dfOwn := dfOwn, time := time, desc := desc, pos := rd.pos.toList, startPos := rd.startPos, conn := {}, entries := entries,
      maxLeft := rd.maxLeft, maxRight := rd.maxRight, numSystem := rd.numSystem, trie := trie }
  let bytes ← stage "ucompile" (compile ci)
  pure (bytes, entries.map (·.surface))

def hex2 (n : Nat) : String :=
  let d (k : Nat) : Char := if k < 10 then Char.ofNat (48 + k) else Char.ofNat (87 + k)
  String.ofList [d (n / 16 % 16), d (n % 16)]

def showHex (l : Bytes) : String := String.join (l.map hex2)
def showStr (s : Str) : String := Wire.joinWith "." (s.map toString)

def showWordInfo (wi : WordInfoData) : String :=
  Wire.joinWith "/" [showStr wi.surface, toString wi.headWordLength, toString wi.posId, showStr wi.normalizedFormA,
    toString wi.dicFormWordId, showStr wi.dictionaryFormA, showStr wi.readingFormA, Wire.showNats wi.aUnitSplit,
    Wire.showNats wi.bUnitSplit, Wire.showNats wi.wordStructure, Wire.showNats wi.synonymGroupIds]

def showWord (ls : LexiconSet) (id : Nat) : String :=
  let a := match ls.getWordInfo id with
    | .ok wi => showWordInfo wi
    | .err _ => "err"
    | .panic _ => "PANIC"
  let b := match ls.getWordParam id with
    | .ok (l, r, c) => toString l ++ "," ++ toString r ++ "," ++ toString c
    | .err _ => "err"
    | .panic _ => "PANIC"
  a ++ "/" ++ b

def showMatrix (g : Grammar) : String :=
  let cells := (List.range g.numRight).flatMap (fun r => (List.range g.numLeft).map (fun l =>
    match g.cost l r with
    | .ok c => toString c
    | _ => "PANIC"))
  toString g.numLeft ++ "x" ++ toString g.numRight ++ ":" ++ Wire.joinWith "," cells

def showPos (ps : List (List Str)) : String := Wire.joinWith ";" (ps.map (fun p => Wire.joinWith "/" (p.map showStr)))

/-- `char::encode_utf8` (std; trusted base) -/
def utf8Enc (c : Nat) : Bytes :=
  if c < 0x80 then [c]
  else if c < 0x800 then [0xC0 + c / 64, 0x80 + c % 64]
  else if c < 0x10000 then [0xE0 + c / 4096, 0x80 + c / 64 % 64, 0x80 + c % 64]
  else [0xF0 + c / 262144, 0x80 + c / 4096 % 64, 0x80 + c / 64 % 64, 0x80 + c % 64]

/-- the trie units and the word-id table of a loaded lexicon **at the offsets `Lexicon::parse` computed**
(`trieOff`, `trieSize`, `widTableOff`, `widTableSize`), handed to C04's model of `Trie` / `WordIdTable` /
`Lexicon::lookup` -/
def trieLex (l : Lexicon) (dic : Nat) : Option Trie.Lex :=
  let buf := l.bytes.toArray
  (Trie.decodeUnits buf l.trieOff l.trieSize).map (fun us =>
    { trie := us.toArray, buf := buf, tblSize := l.widTableSize, tblOff := l.widTableOff, lexId := dic })

/-- `LexiconSet::lookup(key, 0)` for every distinct key of the source rows: `(word id, end)` pairs -/
def showLook (lexs : List Lexicon) (keys : List Str) : String :=
  match Wire.allSome (((List.range lexs.length).zip lexs).map (fun (d, l) => trieLex l d)) with
  | none => "PANIC"
  | some tl =>
    Wire.joinWith ";" (keys.eraseDups.map (fun k =>
      match Trie.setLookup false tl (k.flatMap utf8Enc) 0 with
      | none => "PANIC"
      | some [] => "-"
      | some r => Wire.joinWith "," (r.map (fun (w, e) => toString w ++ ":" ++ toString e))))

def showHeader (h : Header) : String :=
  toString h.version ++ ":" ++ toString h.createTime ++ ":" ++ showHex h.description

/-- everything the property observes of the loaded dictionaries: both headers (version, creation time,
description), POS list, every matrix cell, every field and the parameters of every word, and the lookup of
every source key through the loaded trie and word-id table -/
def dump (sys : Loaded) (usr : Option Loaded) (keys : List Str) : Except String String := do
  let g ← match sys.grammar with
    | some g => pure g
    | none => .error "err stage=load"
  let nsys := g.posList.length
  let lexs := match usr with
    | some u => [sys.lexicon, u.lexicon]
    | none => [sys.lexicon]
  let upos := match usr with
    | some u => (match u.grammar with | some ug => ug.posList | none => [])
    | none => []
  let uhdr := match usr with
    | some u => " uhdr=" ++ showHeader u.header
    | none => ""
  let ls : LexiconSet := { lexicons := lexs, posOffsets := [0, nsys], numSystemPos := nsys }
  let words := ((List.range lexs.length).zip lexs).flatMap (fun (d, lex) => (List.range lex.size).map (fun w => showWord ls (widNew d w)))
  pure ("hdr=" ++ showHeader sys.header ++ uhdr
    ++ " pos=" ++ showPos (g.posList ++ upos) ++ " mat=" ++ showMatrix g ++ " words=" ++ Wire.joinWith "|" words
    ++ " look=" ++ showLook lexs keys)

/-- generic tail-recursive split -/
def splitTR {α : Type} [DecidableEq α] (sep : α) (s : List α) : List (List α) :=
  go s [] []
where
  go : List α → List α → List (List α) → List (List α)
    | [], cur, acc => (cur.reverse :: acc).reverse
    | c :: cs, cur, acc => if c = sep then go cs [] (cur.reverse :: acc) else go cs (c :: cur) acc

/-- tail-recursive hex decoding -/
def hexTR (s : List Char) : Option Bytes :=
  go s []
where
  go : List Char → Bytes → Option Bytes
    | [], acc => some acc.reverse
    | [_], _ => none
    | a :: b :: rest, acc =>
      match Wire.hexDigitVal? a, Wire.hexDigitVal? b with
      | some x, some y => go rest ((x * 16 + y) :: acc)
      | _, _ => none

/-- tail-recursive UTF-8 decoding (same arithmetic as `Wire.utf8Decode`; whole CSV texts are long) -/
def utf8TR (s : Bytes) : Option Str :=
  go s []
where
  go : Bytes → Str → Option Str
    | [], acc => some acc.reverse
    | b0 :: rest, acc =>
      if b0 < 0x80 then go rest (b0 :: acc)
      else if b0 < 0xC0 then none
      else if b0 < 0xE0 then
        match rest with
        | b1 :: r => go r (((b0 - 0xC0) * 64 + (b1 - 0x80)) :: acc)
        | _ => none
      else if b0 < 0xF0 then
        match rest with
        | b1 :: b2 :: r => go r (((b0 - 0xE0) * 4096 + (b1 - 0x80) * 64 + (b2 - 0x80)) :: acc)
        | _ => none
      else
        match rest with
        | b1 :: b2 :: b3 :: r => go r (((b0 - 0xF0) * 262144 + (b1 - 0x80) * 4096 + (b2 - 0x80) * 64 + (b3 - 0x80)) :: acc)
        | _ => none

/-- hex of UTF-8 → scalar values -/
def hexStr? (s : List Char) : Option Str := (hexTR s).bind utf8TR

/-- `rows=<row;row;...>`, row = `<field,field,...>`, field = hex of its UTF-8 bytes; `-` = no rows -/
def parseRows (s : List Char) : Option (List (Array Str)) :=
  if s = ['-'] then some [] else
  Wire.allSome ((splitTR ';' s).map (fun row => (Wire.allSome ((splitTR ',' row).map hexStr?)).map List.toArray))

/-- records as the harness prints the real reader's: rows `;`, fields `,`, each field the hex of its UTF-8 bytes -/
def showRecs (rs : List (List Str)) : String :=
  if rs.isEmpty then "-" else
  Wire.joinWith ";" (rs.map (fun r => Wire.joinWith "," (r.map (fun f => showHex (f.flatMap utf8Enc)))))

/-- `csv=<hex of the UTF-8 text>`: the records `LexiconReader::read_bytes` hands to `read_record`, split by the model
of the configured csv reader (`Model/CodecCsv.lean`) -/
def csvRows? (s : List Char) : Option (List (Array Str)) :=
  (hexStr? s).map (fun t => (csvRecords t).map List.toArray)

def run (toks : List (List Char)) : Except String String := do
  let bad : Except String String := .error "bad-op"
  match Wire.kv? toks "time", Wire.kv? toks "desc", Wire.kv? toks "mat", Wire.kv? toks "csv", Wire.kv? toks "trie" with
  | some t, some d, some m, some r, some tr =>
    match Wire.nat? t, hexTR d, hexStr? m, csvRows? r, hexTR tr with
    | some time, some desc, some mat, some rows, some trie =>
      let dfFix := Wire.kv? toks "df" == some "fix".toList
      let dfOwn := Wire.kv? toks "dfv" == some "own".toList
      let (sysBytes, sysKeys) ← buildSystem dfFix time desc mat rows trie
      let sys ← stage "load" (readSystem sysBytes 0)
      match Wire.kv? toks "ucsv", Wire.kv? toks "utrie", Wire.kv? toks "udesc" with
      | some ur, some utr, some ud =>
        match csvRows? ur, hexTR utr, hexTR ud with
        | some urows, some utrie, some udesc =>
          let (usrBytes, usrKeys) ← buildUser dfFix dfOwn sys time udesc urows utrie
          let usr ← stage "uload" (readUser usrBytes 0)
          let d ← dump sys (some usr) (sysKeys ++ usrKeys)
          pure ("ok sys=" ++ showHex sysBytes ++ " usr=" ++ showHex usrBytes ++ " " ++ d)
        | _, _, _ => bad
      | _, _, _ =>
        let d ← dump sys none sysKeys
        pure ("ok sys=" ++ showHex sysBytes ++ " " ++ d)
    | _, _, _, _, _ => bad
  | _, _, _, _, _ => bad

/-- the records of both CSV texts, printed in front of every answer (also of the error answers) -/
def recPrefix (toks : List (List Char)) : String :=
  let one (key name : String) : String :=
    match Wire.kv? toks key with
    | some r => (match hexStr? r with
      | some t => name ++ "=" ++ showRecs (csvRecords t) ++ " "
      | none => name ++ "=? ")
    | none => ""
  one "csv" "rec" ++ one "ucsv" "urec"

/-- `C05 dict idx=.. df=cur|fix dfv=cur|own time=<secs> desc=<hex> mat=<hex> csv=<hex> trie=<hex> [udesc=<hex> ucsv=<hex> utrie=<hex>]` -/
def handle (toks : List (List Char)) : String :=
  recPrefix toks ++ (match run toks with
  | .ok s => s
  | .error e => e)

end Codec
