import Sudachi.Model.Subset
import Sudachi.Model.Rewrite
/-!
# Subset loading in front of the path-rewrite plugins  (property C11, second clause)

`StatefulTokenizer::do_tokenize` (stateful_tokenizer.rs:125-160) from the best path on:

```
let mut path = self.resolve_best_path()?;          // word infos loaded with self.subset
for plugin in self.dictionary.path_rewrite_plugins() {
    path = plugin.rewrite(&self.input, path, &self.lattice)?;
}
path = split_path(&self.dictionary, path, self.mode, self.subset, &self.input)?;
```

The word infos of the path are loaded with the tokenizer's subset BEFORE the plugins run, so
whatever the plugins read from a node is what that subset loaded.  The plugins themselves are the
model of property C14 (`Sudachi.Model.Rewrite`: `JoinNumericPlugin::rewrite_gen` / `concat`,
`JoinKatakanaOovPlugin::rewrite_gen`, `concat_nodes`, `concat_oov_nodes`), reused as it is: a path
node of this model is converted to a `Rewrite.Node` (`toRw`) field by field, the plugin stack runs
on it, the result is converted back (`ofRw`) and handed to `Subset.splitPath`.

Which `WordInfo` fields the plugins READ (from the Rust text, mirrored by `Rewrite`):

* `JoinNumericPlugin::rewrite_gen`: `node.word_info().normalized_form()` — the ACCESSOR, i.e. the
  stored normalised form or, when that is empty, the stored surface — of every node, and
  `text.cat_of_range(node.char_range())`;  `concat`: `path[begin].word_info().pos_id()` and (with
  `enableNormalize`) `normalized_form()` of the first node;
* `JoinKatakanaOovPlugin`: no word-info field at all (`is_oov` = the word id, `num_codepts` = the
  character range, character classes of the text);
* `concat_nodes` / `concat_oov_nodes` copy `surface`, `reading_form`, `dictionary_form`,
  `normalized_form`, `pos_id` into the merged node and ADD the `head_word_length`s in a `u16`
  (overflow = panic in a debug build).

`set_subset` variants (`PwVariant`): `cur` = the tree (the subset is not widened for the plugins),
`fix` = candidate repair (`set_subset` ORs in the fields the configured plugins declare:
POS_ID | NORMALIZED_FORM for `JoinNumericPlugin`, nothing for `JoinKatakanaOovPlugin`).
-/
namespace Subset

/-- a node of the best path in the rewritten text with its character range (`Node::begin/end`) -/
structure XNode where
  wid : Nat
  bb : Nat
  be : Nat
  cb : Nat
  ce : Nat
  slice : List Nat
deriving Repr

def XNode.toP (x : XNode) : PNode := ⟨x.wid, x.bb, x.be, x.slice⟩

/-- strings of this model are lists of scalar values, strings of `Rewrite` are `List Char` -/
def strC (s : List Nat) : List Char := s.map Char.ofNat
def strN (s : List Char) : List Nat := s.map Char.toNat

/-- `ResultNode::new(inner, cost, byte_begin, byte_end, wi)`: the node the plugins see.  The
connection ids and costs of the lattice node are not observed by C11 and enter as 0. -/
def toRw (x : XNode) (r : RNode) : Rewrite.Node :=
  { b := x.cb, e := x.ce, bb := r.bb, eb := r.be, wid := r.wid, tc := 0, left := 0, right := 0, cost := 0,
    pos := r.info.posId, hwl := r.info.headWordLength, dfw := r.info.dictionaryFormWordId,
    aSplit := r.info.aUnitSplit, bSplit := r.info.bUnitSplit, wStruct := r.info.wordStructure,
    syn := r.info.synonymGroupIds, surface := strC r.info.surface, norm := strC r.info.normalizedForm,
    reading := strC r.info.readingForm, dform := strC r.info.dictionaryForm }

/-- back to the node `split_path` works on -/
def ofRw (n : Rewrite.Node) : RNode :=
  ⟨n.wid, n.bb, n.eb,
    { surface := strN n.surface, headWordLength := n.hwl, posId := n.pos, normalizedForm := strN n.norm,
      dictionaryFormWordId := n.dfw, dictionaryForm := strN n.dform, readingForm := strN n.reading,
      aUnitSplit := n.aSplit, bUnitSplit := n.bSplit, wordStructure := n.wStruct, synonymGroupIds := n.syn }⟩

/-- `resolve_best_path`: the word infos of the path under the tokenizer's subset, as plugin nodes -/
def resolvePathX (ls : LexSet) (subset : Nat) : List XNode → Res (List Rewrite.Node)
  | [] => .ok []
  | x :: xs =>
    match resolveNode ls subset x.toP with
    | .ok r =>
      match resolvePathX ls subset xs with
      | .ok rs => .ok (toRw x r :: rs)
      | .err => .err
      | .panic => .panic
    | .err => .err
    | .panic => .panic

/-- `do_tokenize` from the best path on, for any stack of path-rewrite plugins -/
def tokenizeRw (nv : Rewrite.NVariant) (ls : LexSet) (st : TokState) (text : Bytes) (cat : List Nat)
    (P : List Char → Rewrite.POut) (pls : List Rewrite.Plugin) (path : List XNode) :
    Rewrite.Outcome (List RNode) :=
  match resolvePathX ls st.subset path with
  | .ok ns =>
    match Rewrite.rewriteAll nv cat P pls ns with
    | .ok q =>
      match splitPath ls st.mode st.subset text (q.map ofRw) with
      | .ok rs => .ok rs
      | .err => .err
      | .panic => .panic
    | .err => .err
    | .panic => .panic
    | .fuel => .fuel
  | .err => .err
  | .panic => .panic

/-! ## `set_subset` and the fields the plugins read -/

/-- which `set_subset` the source text contains -/
inductive PwVariant where
  | cur   -- the tree: `(subset | mode_subset).normalize()`
  | fix   -- candidate repair: `(subset | plugin_subset | mode_subset).normalize()`
deriving DecidableEq, Repr

/-- the word-info fields a bundled plugin reads from the nodes it is given (repair:
`PathRewritePlugin::required_fields`) -/
def reqOf : Rewrite.Plugin → Nat
  | .numeric _ => 2 ^ POS_ID ||| 2 ^ NORMALIZED_FORM
  | .katakana _ => 0

/-- OR over the configured stack -/
def reqOfStack (pls : List Rewrite.Plugin) : Nat := pls.foldl (fun a p => a ||| reqOf p) 0

/-- what `set_subset` ORs into the request on behalf of the plugins -/
def pluginSubset (pw : PwVariant) (pls : List Rewrite.Plugin) : Nat :=
  match pw with
  | .cur => 0
  | .fix => reqOfStack pls

/-- a `set_subset(s)` call as the variant performs it: `set_subset` of the widened request -/
def widenOp (req : Nat) : Op → Op
  | .mode m => .mode m
  | .subset s => .subset (s ||| req)

/-- any sequence of `set_mode` / `set_subset` calls on a tokenizer whose dictionary has the plugin
stack `pls` -/
def applyOpsP (v : NzVariant) (pw : PwVariant) (pls : List Rewrite.Plugin) (st : TokState) (ops : List Op) :
    TokState :=
  applyOps v st (ops.map (widenOp (pluginSubset pw pls)))

/-! ## driver entry: op `tokp` -/

def parsePw (toks : List (List Char)) : Option PwVariant :=
  match Wire.kv? toks "pw" with
  | some v => if v = "cur".toList then some .cur else if v = "fix".toList then some .fix else none
  | none => none

/-- `wid:bb:be:cb:ce` -/
def parsePathX (text : Bytes) (s : List Char) : Option (List XNode) :=
  if s.isEmpty then some [] else
  Wire.allSome ((Wire.items ',' s).map (fun it =>
    match Wire.natTuple? it with
    | some [w, b, e, cb, ce] =>
      match Wire.utf8Decode (sliceBytes text b e) with
      | some cps => some ⟨w, b, e, cb, ce, cps⟩
      | none => none
    | _ => none))

/-- `C11 tokp idx= nz= pw= nv= lex= syn= posoff= nsys= mode0= ops= text=<hex> cat=<masks>
plugins=<N:en:pos;K:min:pos> pq=<parser table> path=wid:bb:be:cb:ce,...` -/
def handleTokp (toks : List (List Char)) : String :=
  match parseNz toks, parsePw toks, Rewrite.parseVariant (Wire.kv? toks "nv"), parseLexSet toks with
  | some v, some pw, some nv, some ls =>
    match Wire.kv? toks "mode0", Wire.kv? toks "ops", Wire.kv? toks "text", Wire.kv? toks "path",
          Wire.kv? toks "cat", Wire.kv? toks "plugins", Wire.kv? toks "pq" with
    | some m0, some ops, some text, some path, some cat, some pl, some pq =>
      match parseMode m0, Wire.allSome ((Wire.items ',' ops).map parseOp), Wire.hexBytes? text,
            Wire.natList? cat, Wire.allSome ((Wire.items ';' pl).map Rewrite.parsePlugin),
            Wire.allSome ((Wire.items ';' pq).map Rewrite.parsePq) with
      | some m0, some ops, some text, some cat, some pls, some tab =>
        match parsePathX text path with
        | some path =>
          let st := applyOpsP v pw pls (newTok m0) ops
          let pre := "mode=" ++ showMode st.mode ++ " sub=" ++ toString st.subset
          match tokenizeRw nv ls st text cat (Rewrite.tableP tab) pls path with
          | .ok rs => "ok " ++ pre ++ " morphs=" ++ Wire.joinWith ";" (rs.map showRNode)
          | .err => "err " ++ pre
          | .panic => "PANIC " ++ pre
          | .fuel => "HANG " ++ pre
        | none => "bad-op"
      | _, _, _, _, _, _ => "bad-op"
    | _, _, _, _, _, _, _ => "bad-op"
  | _, _, _, _ => "bad-op"

/-- all ops of C11 -/
def handleAll (op : List Char) (toks : List (List Char)) : String :=
  match String.ofList op with
  | "tokp" => handleTokp toks
  | _ => handle op toks

end Subset
