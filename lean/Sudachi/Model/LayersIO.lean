import Sudachi.Model.LayersLoad
import Sudachi.Model.LayersReads
/-!
# Line protocol of property C12 (parsers / printers around `Model/Layers.lean`)

```
C12 wid    idx=.. dic=<u8> word=<u32> raw=<u32>
C12 lexset idx=.. nsp=<n> lex=<lexicon>|<lexicon>|.. offs=<n,..> q=<raw,..>
             lexicon = <posid:a:b:w;..>@<w.e,..>        a, b, w = `*` or comma lists of raw word ids
C12 grammar idx=.. g=<pos;..> calls=<g|r|a|f:pos;..>     (get id / register_pos / handle_user_pos allow / forbid)
C12 stack  idx=.. sysrows=<row;..> plug=<a|f:pos;..> base=sys|plug pre=all|sys mv=any|limit users=<row;..>|<row;..>|.. wids=<raw,..>
             pre  = which `new_user`/`preload_pos` the tree has (`PreVariant`): `all` = pinned (absent = `all`), `sys` = repaired
             mv   = which `merge_user_dictionary` the tree has (`MergeVariant`): `any` = pinned (absent = `any`), `limit` = repaired
C12 reads  idx=.. sysrows=<row;..> plug=<a|f:pos;..> pre=all|sys mv=any|limit users=<src>^<src>^..|<src>^..|.. bad=<b>^<b>^..|<b>^..|..
             one user dictionary = ONE builder that is given the sources in order and goes on after a rejected one;
             src = <row;..> (every line of the CSV text, also the rejected line and the lines behind it);
             b = `-` (no damaged line) | <k>e (line k malformed in a column before the splits) | <k>l (line k has an empty surface);
             a line the reader rejects for its content (A-mode row with splits, ...) needs no mark
C12 poslimit idx=.. mv=any|limit s=<system POS> q=<plugin POS> users=<own POS count,..> tabs=<table number,..> w=<dic.word,..>
             row  = surface:headword:reading:mode:pos:A:B:W      pos = c1.c2.c3.c4.c5.c6 (interned strings)
             A, B = `*` or units joined by `/`;  unit = U<n> | <n> | I,<surface>,<pos>,<reading>
             W    = `*` or U<n> | <n> joined by `/`
           optional (load order): dim=<n> inh=<l.r,..>|<l.r,..> (one list per connection-cost plugin, `-` = none)
             costs=<c,..>|<c,..>|.. (stored cost of every row, system dictionary first)
             est=<nlex>.<ninh>.<surface>:<cost>.<len>|E;..   (what tokenizing <surface> gives over the dictionary that holds
             <nlex> lexicons and <ninh> inhibited cells: internal cost and number of morphemes, `E` = EosBosDisconnect)
```
-/
namespace Layers

open Wire

def showErr : Err → String
  | .tooManyDictionaries => "TooManyDictionaries"
  | .tooLargeDictionaryId => "TooLargeDictionaryId"
  | .tooLargeWordId => "TooLargeWordId"
  | .invalidPos => "InvalidPos"
  | .invalidSplit => "InvalidSplit"
  | .splitRef => "SplitRef"
  | .fieldSize => "FieldSize"
  | .invalidWordId => "InvalidWordId"
  | .posLimit => "PosLimit"
  | .invalidSize => "InvalidSize"
  | .garbled => "Garbled"
  | .invalidData => "InvalidData"
  | .noOovPlugin => "NoOovPlugin"
  | .disconnect => "Disconnect"

def showO {α : Type} (f : α → String) : Outcome α → String
  | .ok a => f a
  | .err e => "err:" ++ showErr e
  | .panic _ => "PANIC"

def starList (l : List Nat) : String := if l.isEmpty then "*" else showNats l

def showPos (p : Pos) : String := joinWith "." (p.map toString)

def parsePos (s : List Char) : Option Pos := allSome ((items '.' s).map nat?)

def parseStarList (s : List Char) : Option (List Nat) :=
  if s = ['*'] then some [] else natList? s

def parseRef (s : List Char) : Option (Bool × Nat) :=
  match s with
  | 'U' :: rest => (nat? rest).map (fun n => (true, n))
  | _ => (nat? s).map (fun n => (false, n))

def parseUnit (s : List Char) : Option CsvUnit :=
  match s with
  | 'I' :: ',' :: rest =>
    match splitOn ',' rest with
    | [a, p, r] =>
      match nat? a, parsePos p, nat? r with
      | some a, some p, some r => some (.inline a p r)
      | _, _, _ => none
    | _ => none
  | _ => (parseRef s).map (fun x => .ref x.1 x.2)

def parseUnits (s : List Char) : Option (List CsvUnit) :=
  if s = ['*'] then some [] else allSome ((splitOn '/' s).map parseUnit)

def parseRefs (s : List Char) : Option (List (Bool × Nat)) :=
  if s = ['*'] then some [] else allSome ((splitOn '/' s).map parseRef)

def parseRow (s : List Char) : Option Row :=
  match splitOn ':' s with
  | [sf, hw, rd, md, p, a, b, w] =>
    match nat? sf, nat? hw, nat? rd, nat? md, parsePos p, parseUnits a, parseUnits b, parseRefs w with
    | some sf, some hw, some rd, some md, some p, some a, some b, some w => some ⟨sf, hw, rd, md, p, a, b, w⟩
    | _, _, _, _, _, _, _, _ => none
  | _ => none

def parseRows (s : List Char) : Option (List Row) := allSome ((items ';' s).map parseRow)

def parsePlug (s : List Char) : Option (Bool × Pos) :=
  match s with
  | 'a' :: ':' :: rest => (parsePos rest).map (fun p => (true, p))
  | 'f' :: ':' :: rest => (parsePos rest).map (fun p => (false, p))
  | _ => none

def parseWord (s : List Char) : Option Word :=
  match splitOn ':' s with
  | [p, a, b, w] =>
    match nat? p, parseStarList a, parseStarList b, parseStarList w with
    | some p, some a, some b, some w => some ⟨p, a, b, w⟩
    | _, _, _, _ => none
  | _ => none

def parseHit (s : List Char) : Option (Nat × Nat) :=
  match splitOn '.' s with
  | [a, b] => match nat? a, nat? b with
    | some a, some b => some (a, b)
    | _, _ => none
  | _ => none

def parseLexicon (s : List Char) : Option Lexicon :=
  match splitOn '@' s with
  | [ws, hs] =>
    match allSome ((items ';' ws).map parseWord), allSome ((items ',' hs).map parseHit) with
    | some ws, some hs => some ⟨ws, 255, hs⟩
    | _, _ => none
  | _ => none

def showWord (w : Word) : String :=
  toString w.posId ++ ":" ++ starList w.a ++ ":" ++ starList w.b ++ ":" ++ starList w.w

def showPosAt (g : List Pos) (i : Nat) : String :=
  match g[i]? with
  | some p => showPos p
  | none => "OOB"

/-! ### `wid` -/

def handleWid (toks : List (List Char)) : String :=
  match (kv? toks "dic").bind nat?, (kv? toks "word").bind nat?, (kv? toks "raw").bind nat? with
  | some d, some w, some raw =>
    "new=" ++ showO toString (widNew d w) ++ " checked=" ++ showO toString (widChecked d w) ++
    " oov=" ++ showO toString (widOov w) ++
    " dic=" ++ toString (dicOf raw) ++ " word=" ++ toString (wordOf raw) ++
    " flags=" ++ (if isOov raw then "1" else "0") ++ (if isSystem raw then "1" else "0") ++ (if isUser raw then "1" else "0") ++
    " did=" ++ toString (dictionaryId raw)
  | _, _, _ => "bad-op"

/-! ### `lexset` -/

def appendAll : LexSet → List (Lexicon × Nat) → List String → LexSet × List String
  | s, [], acc => (s, acc.reverse)
  | s, (l, off) :: rest, acc =>
    match s.append l off with
    | .ok s' => appendAll s' rest ("ok" :: acc)
    | .err e => appendAll s rest (("err:" ++ showErr e) :: acc)
    | .panic _ => appendAll s rest ("PANIC" :: acc)

def zipPad (ls : List Lexicon) (offs : List Nat) : List (Lexicon × Nat) :=
  match ls, offs with
  | [], _ => []
  | l :: ls, [] => (l, 0) :: zipPad ls []
  | l :: ls, o :: os => (l, o) :: zipPad ls os

def handleLexset (toks : List (List Char)) : String :=
  match (kv? toks "nsp").bind nat?, kv? toks "lex", (kv? toks "offs").bind natList?, (kv? toks "q").bind natList? with
  | some nsp, some lx, some offs, some qs =>
    match allSome ((splitOn '|' lx).map parseLexicon) with
    | some (sys :: rest) =>
      match LexSet.new sys nsp with
      | .ok s0 =>
        let (s, res) := appendAll s0 (zipPad rest offs) []
        "app=" ++ joinWith "," res ++ " n=" ++ toString s.lexicons.length ++
        " lookup=" ++ showO (fun l => joinWith "," (l.map (fun h => toString h.1 ++ "." ++ toString h.2))) s.lookup ++
        " q=" ++ joinWith ";" (qs.map (fun q => showO showWord (s.getWordInfo q)))
      | .err e => "err:" ++ showErr e
      | .panic _ => "PANIC"
    | _ => "bad-op"
  | _, _, _, _ => "bad-op"

/-! ### `stack` -/

def sysWordsOf (rows : List Row) (b : Built) : List SysWord :=
  (rows.zip b.words).map (fun rw => ⟨rw.1.headword, rw.2.posId, rw.1.reading⟩)

def buildUsers (v : PreVariant) (base : Base) : List (List Row) → Nat → Except String (List Built)
  | [], _ => .ok []
  | rows :: rest, k =>
    match buildUser v base rows with
    | .ok b => (match buildUsers v base rest (k + 1) with
      | .ok bs => .ok (b :: bs)
      | .error e => .error e)
    | .err e => .error ("err:Build:" ++ toString k ++ ":" ++ showErr e)
    | .panic _ => .error ("PANIC:Build:" ++ toString k)

def readUsers : List Built → Outcome (List (List Pos × Lexicon))
  | [] => .ok []
  | b :: bs =>
    match readPosTable b with
    | .ok own => (match readUsers bs with
      | .ok r => .ok ((own, ⟨b.words, 255, []⟩) :: r)
      | .err e => .err e
      | .panic w => .panic w)
    | .err e => .err e
    | .panic w => .panic w

def wordLines (d : Dict) : List Lexicon → Nat → List String
  | [], _ => []
  | l :: ls, di =>
    ((List.range l.words.length).map (fun wi =>
      toString di ++ "." ++ toString wi ++ ":" ++
        (match d.set.getWordInfo (mkRaw di wi) with
         | .ok w => toString w.posId ++ ":" ++ showPosAt d.posList w.posId ++ ":" ++ starList w.a ++ ":" ++ starList w.b ++ ":" ++ starList w.w
         | .err e => "err:" ++ showErr e
         | .panic _ => "PANIC"))) ++ wordLines d ls (di + 1)

/-- `dim=`: size of the (square) connection matrix; only read when `inh=` lists a plugin -/
def dimOf (toks : List (List Char)) : Nat :=
  match (kv? toks "dim").bind nat? with
  | some n => n
  | none => 0

/-- `inh=`: one pair list per connection-cost plugin -/
def connOf (toks : List (List Char)) : List (List (Nat × Nat)) :=
  match kv? toks "inh" with
  | none => []
  | some s => if s = ['-'] then [] else
    (splitOn '|' s).map (fun pl => (items ',' pl).filterMap (fun p =>
      match splitOn '.' p with
      | [a, b] => (match nat? a, nat? b with | some a, some b => some (a, b) | _, _ => none)
      | _ => none))

def costsOf (toks : List (List Char)) : List (List Int) :=
  match kv? toks "costs" with
  | none => []
  | some s => (splitOn '|' s).map (fun l => (items ',' l).filterMap int?)

/-- `est=` table: key (lexicons in the state, inhibited cells in the state, surface) ↦ internal cost and morpheme count, `none` = the
analysis fails with `EosBosDisconnect` -/
def estOf (toks : List (List Char)) : List ((Nat × Nat × Nat) × Option (Int × Nat)) :=
  match kv? toks "est" with
  | none => []
  | some s => (items ';' s).filterMap (fun e =>
    match splitOn ':' e with
    | [k, v] =>
      (match (splitOn '.' k).map nat? with
       | [some a, some b, some c] =>
         if v = ['E'] then some ((a, b, c), none)
         else (match splitOn '.' v with
           | [x, y] => (match int? x, nat? y with | some x, some y => some ((a, b, c), some (x, y)) | _, _ => none)
           | _ => none)
       | _ => none)
    | _ => none)

/-- the tokenizer as the harness measured it on the really loaded prefix dictionaries: a function of the STATE it is asked on
(number of lexicons, number of inhibited cells) and the surface; a state the harness did not measure has no answer -/
def estTable (t : List ((Nat × Nat × Nat) × Option (Int × Nat))) (st : LoadState) (surface : Nat) : Outcome (Int × Nat) :=
  match t.find? (fun e => e.1 == (st.dict.set.lexicons.length, st.inhibited.length, surface)) with
  | some (_, some r) => .ok r
  | some (_, none) => .err .disconnect
  | none => .panic "no estimate for this state"

/-- `mv=`: which `merge_user_dictionary` the tree has (`MergeVariant`): `limit` = repaired, anything else / absent = pinned -/
def mergeVariantOf (toks : List (List Char)) : MergeVariant :=
  if kv? toks "mv" = some "limit".toList then .limit else .unbounded

def handleStack (toks : List (List Char)) : String :=
  match (kv? toks "sysrows").bind parseRows, kv? toks "plug", kv? toks "base", kv? toks "users", (kv? toks "wids").bind natList? with
  | some sysrows, some plug, some base, some users, some wids =>
    match allSome ((items ';' plug).map parsePlug), allSome ((items '|' users).map parseRows) with
    | some plugs, some urows =>
      let pre : PreVariant := if kv? toks "pre" = some "sys".toList then .sysOnly else .all
      let mv : MergeVariant := mergeVariantOf toks
      match build none sysrows with
      | .err e => "err:Build:0:" ++ showErr e
      | .panic _ => "PANIC:Build:0"
      | .ok sysB =>
        match readPosTable sysB with
        | .err e => "err:Load:" ++ showErr e
        | .panic _ => "PANIC:Load"
        | .ok sysPos =>
          let sysWords := sysWordsOf sysrows sysB
          -- the dictionary the user builder is given: the system dictionary loaded without / with the plugins
          let baseG : Outcome (List Pos) :=
            if base = "plug".toList then
              if !((connOf toks).all (pairsValid (dimOf toks) (dimOf toks))) then .err .invalidData
              else (match loadPlugins sysPos plugs with
               | .ok (g, _) => .ok g
               | .err e => .err e
               | .panic w => .panic w)
            else .ok sysPos
          match baseG with
          | .err e => "err:Load:" ++ showErr e
          | .panic _ => "PANIC:Load"
          | .ok g0 =>
            -- `LexiconSet::new(system, num_system_pos)` of either load: the POS count of the system dictionary itself
            match buildUsers pre ⟨g0, sysPos.length, sysWords⟩ urows 1 with
            | .error e => e
            | .ok builts =>
              match readUsers builts with
              | .err e => "err:Load:" ++ showErr e
              | .panic _ => "PANIC:Load"
              | .ok us =>
                -- the remaining load steps (connection edits, cost estimates), when the line carries them
                let dim := dimOf toks
                let conn := connOf toks
                let costs := costsOf toks
                let table := estOf toks
                let userDics := (us.zip (urows.zip (costs.drop 1))).map (fun x =>
                  (⟨x.1.1, x.1.2, (x.2.1.zip x.2.2).map (fun rc => ⟨rc.1.headword, rc.2⟩)⟩ : UserDic))
                let full := (kv? toks "costs").isSome
                let usersF : List UserDic := if full then userDics else us.map (fun u => ⟨u.1, u.2, []⟩)
                match loadFullV mv (estTable table) sysPos ⟨sysB.words, 255, []⟩ (match costs with | c :: _ => c | [] => []) dim dim conn plugs 1 usersF with
                | .err e => "err:Load:" ++ showErr e
                | .panic _ => "PANIC:Load"
                | .ok st =>
                  let d := st.dict
                  "ok pos=" ++ joinWith ";" (d.posList.map showPos) ++
                  " words=" ++ joinWith ";" (wordLines d d.set.lexicons 0) ++
                  " m=" ++ joinWith ";" (wids.map (fun raw =>
                    match morphInfo d raw with
                    | .ok (did, pid) => toString did ++ ":" ++ toString pid ++ ":" ++ showPosAt d.posList pid
                    | .err e => "err:" ++ showErr e
                    | .panic _ => "PANIC")) ++
                  (if full then " cost=" ++ joinWith "|" (st.costs.map showInts) ++ " inh=" ++ toString st.inhibited.length else "")
    | _, _ => "bad-op"
  | _, _, _, _, _ => "bad-op"

/-! ### `reads`: user dictionaries compiled by a builder that saw rejected sources in between -/

def showFail : RowFail → String
  | .err e => "err:" ++ showErr e
  | .malformed => "err:Malformed"
  | .emptySurface => "err:EmptySurface"
  | .panic => "PANIC"

/-- `-` | `<k>e` | `<k>l` -/
def parseBad (s : List Char) : Option (Option (Nat × Nat)) :=
  if s = ['-'] then some none
  else match s.reverse with
    | 'e' :: rest => (nat? rest.reverse).map (fun k => some (k, 1))
    | 'l' :: rest => (nat? rest.reverse).map (fun k => some (k, 2))
    | _ => none

def markLines (rows : List Row) (bad : Option (Nat × Nat)) : List Line :=
  (rows.zip (List.range rows.length)).map (fun ri =>
    ⟨ri.1, match bad with | some (k, d) => if ri.2 = k then d else 0 | none => 0⟩)

def parseSources (srcs bads : List Char) : Option (List (List Line)) :=
  match allSome ((splitOn '^' srcs).map parseRows), allSome ((splitOn '^' bads).map parseBad) with
  | some rs, some bs => if rs.length = bs.length then some ((rs.zip bs).map (fun x => markLines x.1 x.2)) else none
  | _, _ => none

def zipSources : List (List Char) → List (List Char) → Option (List (List (List Line)))
  | [], [] => some []
  | s :: ss, b :: bs =>
    match parseSources s b, zipSources ss bs with
    | some x, some xs => some (x :: xs)
    | _, _ => none
  | _, _ => none

def showReads (fs : List (Nat × Option RowFail)) : String :=
  joinWith "," (fs.map (fun f => match f.2 with | none => "ok" ++ toString f.1 | some e => showFail e))

def handleReads (toks : List (List Char)) : String :=
  match (kv? toks "sysrows").bind parseRows, kv? toks "plug", kv? toks "users", kv? toks "bad" with
  | some sysrows, some plug, some users, some bad =>
    match allSome ((items ';' plug).map parsePlug), zipSources (splitOn '|' users) (splitOn '|' bad) with
    | some plugs, some usrcs =>
      let pre : PreVariant := if kv? toks "pre" = some "sys".toList then .sysOnly else .all
      let mv : MergeVariant := mergeVariantOf toks
      match build none sysrows with
      | .err e => "err:Build:0:" ++ showErr e
      | .panic _ => "PANIC:Build:0"
      | .ok sysB =>
        match readPosTable sysB with
        | .err e => "err:Load:" ++ showErr e
        | .panic _ => "PANIC:Load"
        | .ok sysPos =>
          let base : Base := ⟨sysPos, sysPos.length, sysWordsOf sysrows sysB⟩
          let res := usrcs.map (buildReads (some (preOf pre base)))
          let head := "r=" ++ joinWith "|" (res.map (fun x => showReads x.1)) ++
            " b=" ++ joinWith "|" (res.map (fun x => match x.2 with | .ok _ => "ok" | .err e => "err:" ++ showErr e | .panic _ => "PANIC"))
          match allSome (res.map (fun x => match x.2 with | .ok b => some b | _ => none)) with
          | none => head
          | some builts =>
            let head := head ++ " t=" ++ joinWith "|" (builts.map (fun b => joinWith ";" (b.posRows.map showPos))) ++
              " ids=" ++ joinWith "|" (builts.map (fun b => showNats (b.words.map (·.posId))))
            match readUsers builts with
            | .err e => head ++ " err:Load:" ++ showErr e
            | .panic _ => head ++ " PANIC:Load"
            | .ok us =>
              match loadFullV mv (fun _ _ => .panic "no estimate") sysPos ⟨sysB.words, 255, []⟩ [] 1 1 [] plugs 1
                  (us.map (fun u => ⟨u.1, u.2, []⟩)) with
              | .err e => head ++ " err:Load:" ++ showErr e
              | .panic _ => head ++ " PANIC:Load"
              | .ok st =>
                let d := st.dict
                head ++ " ok pos=" ++ joinWith ";" (d.posList.map showPos) ++
                  " words=" ++ joinWith ";" (wordLines d d.set.lexicons 0)
    | _, _ => "bad-op"
  | _, _, _, _ => "bad-op"

/-! ### `poslimit`: the merged POS list at the edge of what a `u16` id addresses

The dictionaries are described by their sizes only (the harness checks on the real binaries that they have this shape):
POS `(t, i)` = entry `i` of table `t` (0 = system dictionary, 1 = registered by the OOV plugins, `tabs[k]` = own table of
the k-th loaded user dictionary); system word `i` has POS id `i`; word `w` of a user dictionary is stored with the id
`s + w` (its own entry `w`). -/

def synPos (t i : Nat) : Pos := [0, t, i, 1, 1, 1]

def synTable (t n : Nat) : List Pos := (List.range n).map (synPos t)

def synName (g : List Pos) (id : Nat) : String :=
  match g[id]? with
  | some [_, t, i, _, _, _] => toString t ++ "." ++ toString i
  | some _ => "?"
  | none => "OOB"

def handlePoslimit (toks : List (List Char)) : String :=
  match (kv? toks "s").bind nat?, (kv? toks "q").bind nat?, (kv? toks "users").bind natList?, (kv? toks "tabs").bind natList?,
        (kv? toks "w").bind (fun x => allSome ((items ',' x).map parseHit)) with
  | some s, some q, some ns, some tabs, some ws =>
    let sysPos := synTable 0 s
    let sysLex : Lexicon := ⟨(List.range s).map (fun i => ⟨i, [], [], []⟩), 255, []⟩
    let plugs : List (Bool × Pos) := (List.range q).map (fun k => (true, synPos 1 k))
    let users : List UserDic := (ns.zip tabs).map (fun nt =>
      ⟨synTable nt.2 nt.1, ⟨(List.range nt.1).map (fun w => ⟨s + w, [], [], []⟩), 255, []⟩, []⟩)
    match loadFullV (mergeVariantOf toks) (fun _ _ => .panic "no estimate") sysPos sysLex [] 1 1 [] plugs q users with
    | .err e => "err:Load:" ++ showErr e
    | .panic _ => "PANIC:Load"
    | .ok st =>
      let d := st.dict
      "ok n=" ++ toString d.posList.length ++ " w=" ++ joinWith ";" (ws.map (fun dw =>
        toString dw.1 ++ "." ++ toString dw.2 ++ ":" ++
          (match d.set.getWordInfo (mkRaw dw.1 dw.2) with
           | .ok wi => toString wi.posId ++ ":" ++ synName d.posList wi.posId
           | .err _ => "err"
           | .panic _ => "PANIC")))
  | _, _, _, _, _ => "bad-op"

/-! ### `grammar`: `Grammar::{get_part_of_speech_id, register_pos}` and `handle_user_pos` called directly -/

def grammarCalls : List Pos → List (Char × Pos) → List String → List Pos × List String
  | g, [], acc => (g, acc.reverse)
  | g, (k, p) :: rest, acc =>
    if k = 'g' then
      grammarCalls g rest ((match getPosId g p with | some i => toString i | none => "none") :: acc)
    else
      let r := if k = 'r' then registerPos g p else handleUserPos g p (k = 'a')
      match r with
      | .ok (g', id) => grammarCalls g' rest (toString id :: acc)
      | .err e => grammarCalls g rest (("err:" ++ showErr e) :: acc)
      | .panic _ => grammarCalls g rest ("PANIC" :: acc)

def parseCall (s : List Char) : Option (Char × Pos) :=
  match s with
  | k :: ':' :: rest => (parsePos rest).map (fun p => (k, p))
  | _ => none

def handleGrammar (toks : List (List Char)) : String :=
  match kv? toks "g", kv? toks "calls" with
  | some g, some cs =>
    match allSome ((items ';' g).map parsePos), allSome ((items ';' cs).map parseCall) with
    | some g, some cs =>
      let (g', res) := grammarCalls g cs []
      "res=" ++ joinWith "," res ++ " pos=" ++ joinWith ";" (g'.map showPos)
    | _, _ => "bad-op"
  | _, _ => "bad-op"

def handle (op : List Char) (toks : List (List Char)) : String :=
  match String.ofList op with
  | "wid" => handleWid toks
  | "lexset" => handleLexset toks
  | "stack" => handleStack toks
  | "poslimit" => handlePoslimit toks
  | "reads" => handleReads toks
  | "grammar" => handleGrammar toks
  | _ => "bad-op"

end Layers
