import Sudachi.Model.Wire
import Sudachi.Model.Edit
/-!
# Model of the Python glue (`python/src/morpheme.rs`, `tokenizer.rs`, `dictionary.rs`) — property C19

Each function mirrors the argument handling of one `#[pymethods]` entry point: what the library computes enters as
numbers (list length, byte offsets, number of split units); the outcome is what Python observes — a value, a Python
exception of a given class, "unspecified" (a stale `Morpheme` whose list was reused: any value or a catchable
exception), or `crash` (the interpreter dies).  The correspondence run replays every modelled call on the built extension.
-/
namespace PyGlue

inductive Obs
  | val (s : String)
  | exc (kind : String)        -- a Python exception (a Rust panic surfaces as `PanicException`, a `BaseException`)
  | unspecified                -- stale object: value or exception, never a crash
  | crash
deriving DecidableEq, Repr

def Obs.show : Obs → String
  | .val s => "ok:" ++ s
  | .exc k => "exc:" ++ k
  | .unspecified => "unspecified"
  | .crash => "CRASH"

/-! ## `MorphemeList.__getitem__(idx: isize)`, `__len__`, `size`, `__iter__` -/

/-- what Python passes as the subscript -/
inductive IdxArg
  | int (i : Int)      -- fits `isize`
  | huge               -- an int outside `isize`: PyO3's extraction raises `OverflowError`
  | other              -- a slice, a string, …: PyO3's extraction raises `TypeError` (slices are NOT supported)
deriving Repr

def getitem (len : Nat) : IdxArg → Obs
  | .other => .exc "TypeError"
  | .huge => .exc "OverflowError"
  | .int i =>
    let j : Int := if i < 0 then i + (len : Int) else i        -- negative indexing
    if j < 0 ∨ (len : Int) ≤ j then .exc "IndexError" else .val (toString j)

/-- `PyMorphemeIter.__next__` driven to exhaustion: the indices produced (the length is re-read at every step) -/
def iterate (len : Nat) : List Nat := List.range len

/-- any accessor of a `Morpheme(list, index)` object: `list.get(index)` then `node(index)` (a `Vec` index) -/
def access (curLen index : Nat) (stale : Bool) (v : String) : Obs :=
  if index ≥ curLen then .exc "PanicException" else if stale then .unspecified else .val v

/-! ## `Morpheme.begin()/end()/__len__`: code-point offsets -/

/-- `begin_c`/`end_c` read `orig_b2c` (the table of C08) at the byte offsets `begin()`/`end()` of the Rust API -/
def offsets (text : List Nat) (bb be : Nat) : Obs :=
  match (EditM.origB2C text)[bb]?, (EditM.origB2C text)[be]? with
  | some (some cb), some (some ce) => .val (toString cb ++ ":" ++ toString ce ++ ":" ++ toString (ce - cb))
  | _, _ => .exc "PanicException"

/-! ## `Morpheme.split(mode, out=None, add_single=…)` -/

inductive OutArg | none | own | other
deriving DecidableEq, Repr

structure SplitArgs where
  modeOk : Bool                 -- `extract_mode` accepts the argument
  out : OutArg                  -- no `out=`, the morpheme's own list, another list
  addSingle : Option Bool       -- `None` ⇒ `unwrap_or(true)`  (the `.pyi` says True, the Rust `text_signature` says False)
  indexOk : Bool                -- the morpheme's index is below the current length of its list
  nsplits : Nat                 -- `num_splits(mode)` of its node
  stale : Bool
deriving Repr

/-- outcome, and what happened to the `out` list: untouched / cleared / re-pointed to the parent's text and filled -/
inductive OutEffect | untouched | cleared | filled (n : Nat)
deriving DecidableEq, Repr

def addSingleOf : Option Bool → Bool
  | some b => b
  | none => true

def split (a : SplitArgs) : Obs × OutEffect :=
  if !a.modeOk then (.exc "SudachiError", .untouched)
  else if a.out = .own then (.exc "Exception", .untouched)          -- `try_borrow_mut` fails: "out was used twice"
  else if !a.indexOk then (.exc "PanicException", .cleared)          -- `out.clear()` has already run
  else if a.stale then (.unspecified, .cleared)
  else if a.nsplits ≠ 0 then (.val (toString a.nsplits), .filled a.nsplits)
  else if addSingleOf a.addSingle then (.val "1", .filled 1)
  else (.val "0", .cleared)

/-! ## `Dictionary.create(mode, fields)` -/

def fieldBit (name : String) : Option Nat :=
  if name = "surface" then some 1 else if name = "pos" ∨ name = "pos_id" then some 4
  else if name = "normalized_form" then some 8 else if name = "dictionary_form" then some 16
  else if name = "reading_form" then some 32 else if name = "word_structure" then some 256
  else if name = "split_a" then some 64 else if name = "split_b" then some 128
  else if name = "synonym_group_id" then some 512 else none

def orBits : List Nat → Nat
  | [] => 0
  | b :: rest => b ||| orBits rest

/-- `parse_field_subset`: `None` ⇒ all fields; an unknown name ⇒ `SudachiError` -/
def parseFields : Option (List String) → Option Nat
  | none => some 1023
  | some names => (Wire.allSome (names.map fieldBit)).map orBits

/-- `InfoSubset::normalize` after the repair of D10 -/
def normalize (s : Nat) : Nat :=
  let s := if s &&& (32 ||| 8 ||| 16) ≠ 0 then s ||| 1 else s
  if s &&& (64 ||| 128) ≠ 0 then s ||| 2 else s

/-- `StatefulTokenizer::set_subset(fields | required)` in mode `m` (A needs SPLIT_A, B needs SPLIT_B) -/
def tokenizerSubset (modeBits : Nat) (fields : Nat) : Nat := normalize (fields ||| modeBits) ||| modeBits

def create (modeOk : Bool) (modeBits : Nat) (fields : Option (List String)) : Obs :=
  if !modeOk then .exc "SudachiError"
  else match parseFields fields with
    | none => .exc "SudachiError"
    | some b => .val (toString (tokenizerSubset modeBits b))

/-! ## `MorphemeList.get_internal_cost()` -/

/-- `last.total_cost() - first.total_cost()` in `i32`: nodes made by a split (`NodeSplitIterator`, modes A/B and
`Morpheme.split`) carry `i32::MAX` as their total, so with a negative first total the subtraction overflows — a panic in
a build with overflow checks (the one the check runs), a wrapped value otherwise -/
def internalCost : List Int → Obs
  | [] => .val "0"
  | first :: rest =>
    let d : Int := (match rest.getLast? with | some l => l | none => first) - first
    if d > 2147483647 ∨ d < -2147483648 then .exc "PanicException" else .val (toString d)

/-! ## driver -/

def str (s : List Char) : String := String.ofList s
def b01 (s : Option (List Char)) : Bool := s = some ['1']

def handle (toks : List (List Char)) : String :=
  match Wire.kv? toks "f" with
  | none => "bad-op"
  | some fn =>
    if fn = "getitem".toList then
      match (Wire.kv? toks "len").bind Wire.nat?, Wire.kv? toks "arg" with
      | some len, some a =>
        let arg : IdxArg := if a = "slice".toList ∨ a = "str".toList then .other else if a = "huge".toList then .huge else
          match Wire.int? a with | some i => .int i | none => .other
        (getitem len arg).show ++ " iter=" ++ toString (iterate len).length
      | _, _ => "bad-op"
    else if fn = "access".toList then
      match (Wire.kv? toks "len").bind Wire.nat?, (Wire.kv? toks "index").bind Wire.nat? with
      | some len, some ix => (access len ix (b01 (Wire.kv? toks "stale")) "v").show
      | _, _ => "bad-op"
    else if fn = "offsets".toList then
      match (Wire.kv? toks "text").bind Wire.hexBytes?, (Wire.kv? toks "spans").map (fun s => (Wire.items ',' s).map Wire.natTuple?) with
      | some text, some spans =>
        Wire.joinWith "," (spans.map (fun sp => match sp with
          | some [bb, be] => (offsets text bb be).show
          | _ => "bad-span"))
      | _, _ => "bad-op"
    else if fn = "split".toList then
      match (Wire.kv? toks "nsplits").bind Wire.nat?, Wire.kv? toks "out", Wire.kv? toks "add" with
      | some ns, some o, some ad =>
        let out : OutArg := if o = "own".toList then .own else if o = "other".toList then .other else .none
        let add : Option Bool := if ad = ['1'] then some true else if ad = ['0'] then some false else none
        let r := split ⟨b01 (Wire.kv? toks "modeok"), out, add, b01 (Wire.kv? toks "indexok"), ns, b01 (Wire.kv? toks "stale")⟩
        r.1.show ++ " out=" ++ (match r.2 with | .untouched => "untouched" | .cleared => "0" | .filled n => toString n)
      | _, _, _ => "bad-op"
    else if fn = "create".toList then
      match (Wire.kv? toks "modebits").bind Wire.nat?, Wire.kv? toks "fields" with
      | some mb, some fl =>
        let fields : Option (List String) := if fl = ['-'] then none else some ((Wire.items '+' fl).map str)
        (create (b01 (Wire.kv? toks "modeok")) mb fields).show
      | _, _ => "bad-op"
    else if fn = "cost".toList then
      match (Wire.kv? toks "totals").bind Wire.intList? with
      | some ts => (internalCost ts).show
      | none => "bad-op"
    else "bad-op"

end PyGlue
