import Sudachi.Model.Layers
/-!
# The order of the load steps of `JapaneseDictionary::from_cfg_storage` (property C12)

`Model/Layers.lean` has the part of the load that decides ids and parts of speech (`Layers.load`).  This file puts the
remaining steps around it, in the order the code performs them (`dic/dictionary.rs`, `plugin/mod.rs`,
`plugin/connect_cost/inhibit_connection.rs`, `dic/lexicon/mod.rs: update_cost`):

1. `LoadedDictionary::from_system_dictionary`: `LexiconSet::new(system, |system POS|)`;
2. `Plugins::load`: connection-cost plugins are set up FIRST (`InhibitConnectionPlugin::set_up` validates its pairs against
   the matrix sizes and fails the load), then the OOV plugins register their POS (`handle_user_pos`);
3. `plugins.oov.is_empty()` ⇒ `Err(NoOOVPluginProvided)`;
4. every connection-cost plugin edits the grammar (`set_connect_cost(l, r, INHIBITED_CONNECTION)` for every pair);
5. for every user dictionary, in order: `update_cost(&self)` — every word whose stored cost is `i16::MIN` gets
   `clamp_i16(internal cost of the best path of its headword + (−20) · number of morphemes)`, analysed over the dictionary
   AS IT IS AT THAT MOMENT (system dictionary, plugins, all connection edits, the user dictionaries merged so far — not
   the dictionary being merged, not the later ones); then `LexiconSet::append`; then `Grammar::merge`.

The tokenizer is a parameter `est : LoadState → surface → Outcome (internal cost × number of morphemes)` (C02/C03 own
it): what matters here is WHICH state it is applied to.
-/
namespace Layers

/-- `i16::MIN`: the stored cost that asks for an estimate at load time -/
def COST_MIN : Int := -32768

/-- `Lexicon::USER_DICT_COST_PER_MORPH` -/
def USER_DICT_COST_PER_MORPH : Int := -20

/-- `cmp::max(cmp::min(cost, i16::MAX as i32), i16::MIN as i32)` -/
def clampI16 (c : Int) : Int := max (min c 32767) (-32768)

/-- one row of `word_params` (cost column) with the one word-info field `update_cost` reads: `WordInfo.surface` -/
structure Param where
  surface : Nat
  cost : Int
deriving Repr, DecidableEq

/-- a user dictionary as `read_user_dictionary` yields it -/
structure UserDic where
  own : List Pos
  lex : Lexicon
  params : List Param
deriving Repr

/-- what `from_cfg_storage` has built so far -/
structure LoadState where
  dict : Dict
  /-- the cells `(right id of the left node, left id of the right node)` set to `INHIBITED_CONNECTION`, in order -/
  inhibited : List (Nat × Nat)
  /-- cost column of `word_params` of every lexicon of the set (parallel to `dict.set.lexicons`) -/
  costs : List (List Int)
deriving Repr

/-- `Lexicon::update_cost(dict)`: `est` = tokenizing over `dict` (one tokenizer and one morpheme list for all words) -/
def updateCost (est : Nat → Outcome (Int × Nat)) (ps : List Param) : Outcome (List Int) :=
  mapO (fun p =>
    if p.cost ≠ COST_MIN then .ok p.cost
    else match est p.surface with
      | .ok (ic, n) => .ok (clampI16 (ic + USER_DICT_COST_PER_MORPH * (n : Int)))
      | .err e => .err e
      | .panic w => .panic w) ps

/-- `merge_user_dictionary`: `update_cost(&self)?`, `append(..)?`, `grammar.merge(..)` -/
def mergeUserFull (est : LoadState → Nat → Outcome (Int × Nat)) (st : LoadState) (u : UserDic) : Outcome LoadState :=
  match updateCost (est st) u.params with
  | .err e => .err e
  | .panic w => .panic w
  | .ok cs =>
    match mergeUser st.dict u.own u.lex with
    | .err e => .err e
    | .panic w => .panic w
    | .ok d => .ok ⟨d, st.inhibited, st.costs ++ [cs]⟩

def mergeAllFull (est : LoadState → Nat → Outcome (Int × Nat)) : LoadState → List UserDic → Outcome LoadState
  | st, [] => .ok st
  | st, u :: rest =>
    match mergeUserFull est st u with
    | .ok st' => mergeAllFull est st' rest
    | .err e => .err e
    | .panic w => .panic w

/-- `InhibitConnectionPlugin::set_up`: every pair inside the matrix (`left < num_left`, `right < num_right`; the JSON
numbers are `i16` — the wire carries naturals below 32768, a negative one is refused by the same test) -/
def pairsValid (numLeft numRight : Nat) (pairs : List (Nat × Nat)) : Bool :=
  pairs.all (fun p => decide (p.1 < numLeft) && decide (p.2 < numRight))

/-- `from_cfg_storage`.  `connPlugs` = the `inhibitPair` lists of the configured connection-cost plugins, `plugs` = the
`handle_user_pos` calls of the OOV plugins, `nOov` = number of configured OOV plugins. -/
def loadFull (est : LoadState → Nat → Outcome (Int × Nat)) (sysPos : List Pos) (sysLex : Lexicon) (sysCosts : List Int)
    (numLeft numRight : Nat) (connPlugs : List (List (Nat × Nat))) (plugs : List (Bool × Pos)) (nOov : Nat)
    (users : List UserDic) : Outcome LoadState :=
  match LexSet.new sysLex sysPos.length with
  | .err e => .err e
  | .panic w => .panic w
  | .ok set =>
    if !(connPlugs.all (pairsValid numLeft numRight)) then .err .invalidData
    else match loadPlugins sysPos plugs with
      | .err e => .err e
      | .panic w => .panic w
      | .ok (g, _) =>
        if nOov = 0 then .err .noOovPlugin
        else mergeAllFull est ⟨⟨g, set⟩, connPlugs.flatten, [sysCosts]⟩ users

/-! ### either version of `merge_user_dictionary` (`MergeVariant`, finding P2) inside the full load

The repaired tree tests the size of the merged POS list FIRST — before `update_cost` analyses anything, before `append`
and `merge` change anything.  `loadFull` above stays the pinned load verbatim; `loadFullV .unbounded` is `loadFull`
(`Layers.loadFullV_unbounded`). -/

def mergeUserFullV (v : MergeVariant) (est : LoadState → Nat → Outcome (Int × Nat)) (st : LoadState) (u : UserDic) :
    Outcome LoadState :=
  match v with
  | .unbounded => mergeUserFull est st u
  | .limit =>
    if st.dict.posList.length + u.own.length > U16_IDS then .err .invalidPos
    else mergeUserFull est st u

def mergeAllFullV (v : MergeVariant) (est : LoadState → Nat → Outcome (Int × Nat)) :
    LoadState → List UserDic → Outcome LoadState
  | st, [] => .ok st
  | st, u :: rest =>
    match mergeUserFullV v est st u with
    | .ok st' => mergeAllFullV v est st' rest
    | .err e => .err e
    | .panic w => .panic w

/-- `from_cfg_storage` of either tree -/
def loadFullV (v : MergeVariant) (est : LoadState → Nat → Outcome (Int × Nat)) (sysPos : List Pos) (sysLex : Lexicon)
    (sysCosts : List Int) (numLeft numRight : Nat) (connPlugs : List (List (Nat × Nat))) (plugs : List (Bool × Pos))
    (nOov : Nat) (users : List UserDic) : Outcome LoadState :=
  match LexSet.new sysLex sysPos.length with
  | .err e => .err e
  | .panic w => .panic w
  | .ok set =>
    if !(connPlugs.all (pairsValid numLeft numRight)) then .err .invalidData
    else match loadPlugins sysPos plugs with
      | .err e => .err e
      | .panic w => .panic w
      | .ok (g, _) =>
        if nOov = 0 then .err .noOovPlugin
        else mergeAllFullV v est ⟨⟨g, set⟩, connPlugs.flatten, [sysCosts]⟩ users

end Layers
