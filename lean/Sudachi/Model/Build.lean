import Sudachi.Model.Wire
/-!
# Dictionary compiler (C06)

Transcription of `sudachi/src/dic/build/`:

* `conn.rs`       → `readConn` (`read`, `parse_header`, `parse_line`, `write_elem`)
* `parse.rs`      → `parseI16`, `parseU32`, `parseWordId`, `parseMode`, `unescape`, `slashList`, …
* `lexicon.rs`    → `parseRecord`, `posOf`, `parseSplit(s)`, `resolveSplits`, `validateEntries`,
                    `validateWid`, `wordInfoSize`, `lexSteps`, `posSteps`
* `index.rs`      → `indexSteps` (the external `yada` builder enters through its preconditions)
* `primitives.rs` → `lenSize`, `u16Size`, `u16Steps`, `arrSize`
* `mod.rs`        → `compileSteps`, `runOp`/`runOps` (any sequence of `read_conn`, `read_lexicon`,
                    `resolve` calls on one `DictBuilder`), `build` (… → compile)

Conventions.  Strings are `List Char` (Unicode scalar values); `i16`/`u32` are `Int`/`Nat` with the
range checks of `from_str` explicit.  Every place where the Rust returns `Err` produces `Res.err`
with the `BuildFailure` variant and the line of the compilation context, every place where it can
panic produces `Res.panic`.  The writer is modelled as a *script* of `write n` steps executed
against a sink that accepts `limit` bytes (`exec`); the sink never feeds anything back into the
computation, so the script is a pure function of the input.

The CSV record splitting (`csv` crate) is not modelled: the model starts from records.  Regex
`\d` (Unicode decimal digits, used by `WORD_ID_LITERAL`) is a parameter (`Ext.nd`).

`Variant` selects between the code as it stands (`false`) and the behaviour after the planned
repairs D1–D5 of DESIGN §2.7 (`true`); `rf` does the same for the `resolved` flag of the builder
(`false` = only `resolve` touches it, `true` = `read_lexicon` clears it); `n1`, `n3`, `s4`, `s5`,
`s6` for the connection sizes / the matrix buffer (see the fields); the harness picks the flags by
probing the source text.

The matrix buffer is modelled with its content (`Conn.cells`: the cells written, all others 0) and
with the line buffer `ConnBuffer.line` that survives a call (`Builder.connLine`); a `read_conn`
whose `Err` the caller ignores (`Op.connIgn`) leaves the builder in the state the code leaves it in.

A `read_lexicon` whose `Err` the caller ignores (`Op.lexIgn`) does the same for the lexicon reader:
`read_bytes` pushes every row it parsed before the malformed one (`readLexiconP`), those rows have
bumped `unresolved` and registered their POS, and the malformed row itself leaves what
`parse_record` had done before it returned (`parseRecordLeft`: the POS of the inline split units
parsed so far and of the row, the `unresolved` counter when the failure is the empty surface);
`DictBuilder::read_lexicon` clears `resolved` before it looks at the result.  `s7` / `la` select the
repairs of these two leftovers (counter bumped after the last check / a failed read leaves nothing).
-/
namespace Build

abbrev Str := List Char

inductive ErrKind where
  | InvalidSize | InvalidFieldSize | Io | NoRawField | Csv | InvalidCharLiteral | InvalidI16Literal
  | InvalidU32Literal | InvalidWordId | InvalidSplit | SplitFormatError | EmptySurface
  | PosLimitExceeded | InvalidSplitWordReference | UnresolvedSplits | InvalidConnSize
  | WordIdTableNotBuilt | TrieBuildFailure | InvalidDataFormat | TooLargeWordId
deriving DecidableEq, Repr, Inhabited

inductive PanicWhy where
  /-- `conn.rs:97 todo!()` (D1) -/
  | todoEmptyConn
  /-- `conn.rs write_elem`: index out of bounds / `usize` overflow (D2) -/
  | connIndex
  /-- `yada` builder `assert!(labels.len() > 0)` on an empty key set (D4) -/
  | emptyKeys
  /-- key with a NUL byte handed to `yada` (assertion failure or a corrupt trie) (D5) -/
  | nulKey
  /-- `validate_entries`: "at this point there must not be unresolved splits" -/
  | unresolvedSplit
  /-- `validate_wid`: "invalid dictionary ID" -/
  | badDicId
deriving DecidableEq, Repr, Inhabited

/-- result of a piece of the builder: value, `Err(BuildFailure)` with the context line, or panic -/
inductive Res (α : Type) where
  | ok (a : α)
  | err (k : ErrKind) (line : Nat)
  | panic (w : PanicWhy)
deriving Repr

def Res.bind {α β : Type} (x : Res α) (f : α → Res β) : Res β :=
  match x with
  | .ok a => f a
  | .err k l => .err k l
  | .panic w => .panic w

instance : Monad Res where
  pure := Res.ok
  bind := Res.bind

def Res.isPanic {α : Type} : Res α → Bool
  | .panic _ => true
  | _ => false

/-- `ctx.transform(result)`: attach the line of the context to a `DicWriteResult` -/
def liftE {α : Type} (line : Nat) : Except ErrKind α → Res α
  | .ok a => .ok a
  | .error k => .err k line

/-- behaviour switches: `true` = after the repair of the defect with that number -/
structure Variant where
  d1 : Bool
  d2 : Bool
  d3 : Bool
  d4 : Bool
  d5 : Bool
  /-- the `resolved` flag of `DictBuilder`: `false` (`cur`) = the flag is only ever set, by
  `resolve`; `true` (`fix`) = `read_lexicon` clears it, because the entries it adds may carry
  unresolved inline splits -/
  rf : Bool
  /-- N1, `LexiconReader::new()`: `false` = connection ids are bounded by `i16::MAX` until a matrix
  is read; `true` = by 0 (the size of the matrix that is written when none is read) -/
  n1 : Bool
  /-- N3, `DictBuilder::read_conn` on a USER-dictionary builder: `false` = replaces the sizes of the
  system dictionary's matrix installed by `new_user`; `true` = leaves them alone -/
  n3 : Bool
  /-- S4, `ConnBuffer::read`: `false` = `matrix.resize(size, 0)` (keeps the cells of the previous
  text); `true` = the buffer is cleared first -/
  s4 : Bool
  /-- S5, `ConnBuffer::read`: `false` = the first loop appends to whatever `self.line` holds (the
  line a previous call failed on); `true` = `self.line` is cleared first -/
  s5 : Bool
  /-- S6, `DictBuilder::read_conn`: `false` = the sizes ids are validated against are updated only
  when reading succeeded (a failure after the header leaves the resized matrix with the OLD
  sizes); `true` = they follow the matrix buffer also when reading failed -/
  s6 : Bool
  /-- S7, `parse_record`: `false` = `self.unresolved += …` happens BEFORE the empty-surface check, so
  a row rejected for its surface leaves the counter bumped; `true` = after it -/
  s7 : Bool
  /-- S8, `LexiconReader::read_bytes`: `false` = a failing read keeps the rows parsed before the
  malformed one (and the POS / counter changes); `true` = a text is read completely or not at all -/
  la : Bool
deriving DecidableEq, Repr

def Variant.current : Variant := ⟨false, false, false, false, false, false, false, false, false, false, false, false, false⟩
/-- D1–D5 and the `resolved` flag repaired; N1, N3, S4–S8 as the code had them at that point -/
def Variant.repaired : Variant := ⟨true, true, true, true, true, true, false, false, false, false, false, false, false⟩
/-- the tree as it is now: D1–D5, the `resolved` flag, N1, N3, S4–S6 repaired; S7, S8 as the code has them -/
def Variant.landed : Variant := ⟨true, true, true, true, true, true, true, true, true, true, true, false, false⟩
/-- D1–D5 repaired, the `resolved` flag as the code has it (the tree when the flag defect was found) -/
def Variant.staleFlag : Variant := ⟨true, true, true, true, true, false, false, false, false, false, false, false, false⟩
/-- every repair -/
def Variant.full : Variant := ⟨true, true, true, true, true, true, true, true, true, true, true, true, true⟩

/-- facts about external libraries: the code points (beyond ASCII digits) that regex `\d` accepts -/
structure Ext where
  nd : List Char

def Ext.isNd (x : Ext) (c : Char) : Bool := ('0' ≤ c && c ≤ '9') || x.nd.contains c

/-! ## text primitives -/

/-- Unicode `White_Space` (`char::is_whitespace`, regex `\s`) -/
def isWhite (c : Char) : Bool :=
  let n := c.toNat
  (9 ≤ n && n ≤ 13) || n == 32 || n == 0x85 || n == 0xA0 || n == 0x1680 || (0x2000 ≤ n && n ≤ 0x200A)
    || n == 0x2028 || n == 0x2029 || n == 0x202F || n == 0x205F || n == 0x3000

def dropWhite : Str → Str
  | [] => []
  | c :: cs => if isWhite c then dropWhite cs else c :: cs

/-- `str::trim` -/
def trim (s : Str) : Str := (dropWhite (dropWhite s).reverse).reverse

/-- `EMPTY_LINE = ^\s*$` -/
def isBlank (s : Str) : Bool := s.all isWhite

def takeNonWhite : Str → Str
  | [] => []
  | c :: cs => if isWhite c then [] else c :: takeNonWhite cs

def dropNonWhite : Str → Str
  | [] => []
  | c :: cs => if isWhite c then c :: cs else dropNonWhite cs

/-- `SPLIT_REGEX.splitn(text, n)` for `\s+` on a trimmed text -/
def splitWsN : Nat → Str → List Str
  | 0, _ => []
  | 1, s => [s]
  | n + 2, s =>
    let a := takeNonWhite s
    match dropNonWhite s with
    | [] => [a]
    | r => a :: splitWsN (n + 1) (dropWhite r)

def takeUntil (sep : Char) : Str → Str
  | [] => []
  | c :: cs => if c = sep then [] else c :: takeUntil sep cs

def dropUntil (sep : Char) : Str → Option Str
  | [] => none
  | c :: cs => if c = sep then some cs else dropUntil sep cs

/-- `str::splitn(n, sep)` -/
def splitN (sep : Char) : Nat → Str → List Str
  | 0, _ => []
  | 1, s => [s]
  | n + 2, s =>
    match dropUntil sep s with
    | none => [s]
    | some r => takeUntil sep s :: splitN sep (n + 1) r

def utf8Len (s : Str) : Nat := (s.map (fun c => c.utf8Size)).sum

def utf16Units (c : Char) : Nat := if c.toNat ≥ 0x10000 then 2 else 1

def utf16Len (s : Str) : Nat := (s.map utf16Units).sum

/-! ## number literals (`core::num::from_str_radix`) -/

def asciiDigit? (c : Char) : Option Nat :=
  if '0' ≤ c ∧ c ≤ '9' then some (c.toNat - 48) else none

def digitsGo : Str → Nat → Option Nat
  | [], acc => some acc
  | c :: cs, acc =>
    match asciiDigit? c with
    | some d => digitsGo cs (acc * 10 + d)
    | none => none

def digitsVal? (s : Str) : Option Nat := if s.isEmpty then none else digitsGo s 0

/-- `i16::from_str` -/
def parseI16 (s : Str) : Option Int :=
  match s with
  | '-' :: r =>
    match digitsVal? r with
    | some n => if n ≤ 32768 then some (-(n : Int)) else none
    | none => none
  | '+' :: r =>
    match digitsVal? r with
    | some n => if n ≤ 32767 then some (n : Int) else none
    | none => none
  | _ =>
    match digitsVal? s with
    | some n => if n ≤ 32767 then some (n : Int) else none
    | none => none

/-- `u32::from_str` -/
def parseU32 (s : Str) : Option Nat :=
  match s with
  | '+' :: r =>
    match digitsVal? r with
    | some n => if n < 4294967296 then some n else none
    | none => none
  | _ =>
    match digitsVal? s with
    | some n => if n < 4294967296 then some n else none
    | none => none

def eI16 (s : Str) : Except ErrKind Int :=
  match parseI16 s with
  | some v => .ok v
  | none => .error .InvalidI16Literal

def eU32 (s : Str) : Except ErrKind Nat :=
  match parseU32 s with
  | some v => .ok v
  | none => .error .InvalidU32Literal

/-! ## word ids -/

def WORD_MASK : Nat := 0x0fffffff
def DIC_UNIT : Nat := 0x10000000
def WID_INVALID : Nat := 0xffffffff

/-- `WordId::new(dic, word)` in a release build (`word & WORD_MASK`) -/
def widNew (dic word : Nat) : Nat := dic * DIC_UNIT + word % DIC_UNIT
def widDic (raw : Nat) : Nat := raw / DIC_UNIT
def widWord (raw : Nat) : Nat := raw % DIC_UNIT

/-- `parse_wordid_raw`: `u32::from_str` then `WordId::checked(0, v)` -/
def parseWordIdRaw (s : Str) : Except ErrKind Nat :=
  match parseU32 s with
  | some v => if v ≤ WORD_MASK then .ok v else .error .InvalidWordId
  | none => .error .InvalidWordId

/-- `parse_wordid` -/
def parseWordId (s : Str) : Except ErrKind Nat :=
  match s with
  | 'U' :: r =>
    match parseWordIdRaw r with
    | .ok w => .ok (widNew 1 (widWord w))
    | .error e => .error e
  | _ => parseWordIdRaw s

/-- `parse_dic_form` -/
def parseDicForm (s : Str) : Except ErrKind Nat :=
  if s = ['*'] then .ok WID_INVALID else parseWordId s

inductive Mode where
  | A | B | C
deriving DecidableEq, Repr, Inhabited

/-- `parse_mode` -/
def parseMode (s : Str) : Except ErrKind Mode :=
  let t := trim s
  if t = ['a'] ∨ t = ['A'] then .ok .A
  else if t = ['b'] ∨ t = ['B'] then .ok .B
  else if t = ['c'] ∨ t = ['C'] ∨ t = ['*'] then .ok .C
  else if t = ['B', 'C'] then .ok .B
  else .error .InvalidSplit

/-- run `f` over the parts in order, stop at the first error -/
def mapE {α β : Type} (f : α → Except ErrKind β) : List α → Except ErrKind (List β)
  | [] => .ok []
  | a :: as =>
    match f a with
    | .error e => .error e
    | .ok b =>
      match mapE f as with
      | .error e => .error e
      | .ok bs => .ok (b :: bs)

/-- `parse_slash_list` -/
def slashList {α : Type} (f : Str → Except ErrKind α) (s : Str) : Except ErrKind (List α) :=
  match mapE f (Wire.splitOn '/' s) with
  | .error e => .error e
  | .ok l => if l.length > 127 then .error .InvalidSize else .ok l

/-- `parse_wordid_list` -/
def parseWordIdList (s : Str) : Except ErrKind (List Nat) :=
  if s.isEmpty ∨ s = ['*'] then .ok [] else slashList parseWordId s

/-- `parse_u32_list` -/
def parseU32List (s : Str) : Except ErrKind (List Nat) :=
  if s.isEmpty ∨ s = ['*'] then .ok [] else slashList eU32 s

/-! ## escapes: `UNICODE_LITERAL = \\u(?:\{([0-9a-fA-F]{1,6})\}|([0-9a-fA-F]{4}))` -/

def isHex (c : Char) : Bool :=
  ('0' ≤ c && c ≤ '9') || ('a' ≤ c && c ≤ 'f') || ('A' ≤ c && c ≤ 'F')

def hexDigit (c : Char) : Nat :=
  if '0' ≤ c ∧ c ≤ '9' then c.toNat - 48
  else if 'a' ≤ c ∧ c ≤ 'f' then c.toNat - 87
  else c.toNat - 55

def hexVal (s : Str) : Nat := s.foldl (fun acc c => acc * 16 + hexDigit c) 0

def takeHex : Str → Str
  | [] => []
  | c :: cs => if isHex c then c :: takeHex cs else []

def dropHex : Str → Str
  | [] => []
  | c :: cs => if isHex c then dropHex cs else c :: cs

/-- a match of the literal at the head of the text: (hex digits, length of the whole match) -/
def escAt : Str → Option (Str × Nat)
  | '\\' :: 'u' :: '{' :: r =>
    let h := takeHex r
    if 1 ≤ h.length ∧ h.length ≤ 6 then
      match dropHex r with
      | '}' :: _ => some (h, h.length + 4)
      | _ => none
    else none
  | '\\' :: 'u' :: a :: b :: c :: d :: _ =>
    if isHex a && isHex b && isHex c && isHex d then some ([a, b, c, d], 6) else none
  | _ => none

/-- `char::from_u32` -/
def scalar? (n : Nat) : Option Char :=
  if h : n.isValidChar then some (Char.ofNatAux n h) else none

/-- `unescape_slow`: leftmost non-overlapping matches, left to right; `skip` counts the characters
of the current match that are still to be dropped -/
def unescGo : Str → Nat → Except ErrKind Str
  | [], _ => .ok []
  | _ :: cs, skip + 1 => unescGo cs skip
  | c :: cs, 0 =>
    match escAt (c :: cs) with
    | some (h, len) =>
      match scalar? (hexVal h) with
      | none => .error .InvalidCharLiteral
      | some ch =>
        match unescGo cs (len - 1) with
        | .ok r => .ok (ch :: r)
        | .error e => .error e
    | none =>
      match unescGo cs 0 with
      | .ok r => .ok (c :: r)
      | .error e => .error e

def MAX_DIC_STRING_LEN : Nat := 32767

/-- `unescape` / `unescape_cow` (`check_str_len` first) -/
def unescape (s : Str) : Except ErrKind Str :=
  if utf8Len s > MAX_DIC_STRING_LEN then .error .InvalidSize else unescGo s 0

/-- `none_if_equal` -/
def noneIfEqual (a b : Str) : Option Str := if a = b then none else some b

/-! ## connection matrix text (`conn.rs`) -/

/-- dimensions, size in bytes and content of the matrix buffer: `cells` lists the writes
(`index of the cell = right * num_left + left`, cost), most recent first; a cell that is not
listed is 0 -/
structure Conn where
  nl : Int
  nr : Int
  bytes : Nat
  cells : List (Nat × Int)
deriving Repr, DecidableEq

def Conn.empty : Conn := ⟨0, 0, 0, []⟩

/-- the cost stored in cell `i` -/
def Conn.cell (c : Conn) (i : Nat) : Int :=
  match c.cells.find? (fun p => p.1 == i) with
  | some p => p.2
  | none => 0

/-- `ConnBuffer`: the matrix and `self.line` (what the last `read_line` left there) -/
structure ConnBuf where
  conn : Conn
  line : Str
deriving Repr, DecidableEq

/-- `ConnBuffer::new()` -/
def ConnBuf.new : ConnBuf := ⟨Conn.empty, []⟩

/-- `self.matrix.resize(size, 0)` for `n` cells: as the code stands the first `n` cells keep what
the previous text wrote, after the repair the buffer is cleared first -/
def resizeCells (v : Variant) (cells : List (Nat × Int)) (n : Nat) : List (Nat × Int) :=
  if v.s4 then [] else cells.filter (fun p => p.1 < n)

/-- `parse_header`: items of the (accumulated) first non-blank line -/
def parseHeader (line : Str) : Except ErrKind (Int × Int) :=
  match splitWsN 2 (trim line) with
  | [] => .error .SplitFormatError
  | [a] =>
    match eI16 a with
    | .error e => .error e
    | .ok _ => .error .SplitFormatError
  | a :: b :: _ =>
    match eI16 a with
    | .error e => .error e
    | .ok l =>
      match eI16 b with
      | .error e => .error e
      | .ok r => .ok (l, r)

/-- `write_elem`: the cell that is written (only the sizes of `c` are looked at), or a panic
(debug build: `usize` overflow or index out of bounds) -/
def writeElem (v : Variant) (c : Conn) (left right : Int) : Res Nat :=
  if v.d2 then
    if left < 0 ∨ left ≥ c.nl then .err .InvalidConnSize 0
    else if right < 0 ∨ right ≥ c.nr then .err .InvalidConnSize 0
    else .ok (right.toNat * c.nl.toNat + left.toNat)
  else
    -- `right as usize * num_left as usize + left as usize`, then `* 2`, then `matrix[index + 1]`
    if left < 0 ∨ right < 0 then .panic .connIndex
    else if (right.toNat * c.nl.toNat + left.toNat) * 2 + 1 < c.bytes then
      .ok (right.toNat * c.nl.toNat + left.toNat)
    else .panic .connIndex

/-- `parse_line`: the write (cell, cost) the line asks for -/
def parseLine (v : Variant) (c : Conn) (line : Str) : Res (Nat × Int) :=
  match splitWsN 3 (trim line) with
  | [a, b, d] =>
    match eI16 a with
    | .error e => .err e 0
    | .ok l =>
      match eI16 b with
      | .error e => .err e 0
      | .ok r =>
        match eI16 d with
        | .error e => .err e 0
        | .ok cost =>
          match writeElem v c l r with
          | .ok i => .ok (i, cost)
          | .err k ln => .err k ln
          | .panic w => .panic w
  | [a, b] =>
    match eI16 a with
    | .error e => .err e 0
    | .ok _ =>
      match eI16 b with
      | .error e => .err e 0
      | .ok _ => .err .SplitFormatError 0
  | [a] =>
    match eI16 a with
    | .error e => .err e 0
    | .ok _ => .err .SplitFormatError 0
  | _ => .err .SplitFormatError 0

/-- replace the line of a `DicWriteResult`-level error by the line of the context
(`num_error` reports line 0 from `write_elem` after the repair as well: it goes through
`ctx.transform`, so it gets the context line too) -/
def Res.atLine {α : Type} (n : Nat) : Res α → Res α
  | .err k _ => .err k n
  | r => r

/-- the loop over the matrix lines (`self.line.clear(); read_line(&mut self.line)`); `n` = lines
read so far, `cells` = the content of the buffer, `c` = its sizes.  A line that is not UTF-8
(`none`) makes `read_line` fail with an I/O error (the line buffer stays empty).  Returns the
content and what is left in `self.line` together with the result. -/
def readBody (v : Variant) (c : Conn) : List (Option Str) → Nat → List (Nat × Int) → (List (Nat × Int) × Str) × Res Unit
  | [], _, cells => ((cells, []), .ok ())
  | none :: _, _, cells => ((cells, []), .err .Io 0)
  | some l :: ls, n, cells =>
    if isBlank l then readBody v c ls (n + 1) cells
    else
      match (parseLine v c l).atLine (n + 1) with
      | .ok w => readBody v c ls (n + 1) (w :: cells)
      | .err k ln => ((cells, l), .err k ln)
      | .panic w => ((cells, l), .panic w)

/-- first loop of `read`: lines are *appended* to `self.line` until it is not blank; the first
component is what `self.line` holds afterwards -/
def readHead (v : Variant) : List (Option Str) → Str → Nat → Str × Res (Nat × List (Option Str))
  | [], acc, _ => (acc, if v.d1 then .err .InvalidConnSize 0 else .panic .todoEmptyConn)
  | none :: _, acc, _ => (acc, .err .Io 0)
  | some l :: ls, acc, n =>
    if isBlank (acc ++ l) then readHead v ls (acc ++ l) (n + 1)
    else (acc ++ l, .ok (n + 1, ls))

/-- `ConnBuffer::read`: the buffer afterwards and the result.  A failure before the `resize` leaves
the matrix alone, a failure after it leaves the resized, partly written matrix; every failure
leaves the line it happened on in `self.line`. -/
def readConn (v : Variant) (buf : ConnBuf) (lines : List (Option Str)) : ConnBuf × Res Unit :=
  match readHead v lines (if v.s5 then [] else buf.line) 0 with
  | (hd, .err k l) => (⟨buf.conn, hd⟩, .err k l)
  | (hd, .panic w) => (⟨buf.conn, hd⟩, .panic w)
  | (hd, .ok (n, rest)) =>
    match parseHeader hd with
    | .error e => (⟨buf.conn, hd⟩, .err e n)
    | .ok (l, r) =>
      if l < 0 then (⟨buf.conn, hd⟩, .err .InvalidConnSize 0)
      else if r < 0 then (⟨buf.conn, hd⟩, .err .InvalidConnSize 0)
      else
        match readBody v ⟨l, r, l.toNat * r.toNat * 2, []⟩ rest n
            (resizeCells v buf.conn.cells (l.toNat * r.toNat)) with
        | ((cells, line), res) => (⟨⟨l, r, l.toNat * r.toNat * 2, cells⟩, line⟩, res)

/-! ## lexicon records (`lexicon.rs`) -/

inductive SplitUnit where
  | ref (raw : Nat)
  | inline (surface : Str) (pos : Nat) (reading : Option Str)
deriving DecidableEq, Repr

def SplitUnit.isInline : SplitUnit → Bool
  | .inline .. => true
  | .ref _ => false

structure Entry where
  left : Int
  right : Int
  cost : Int
  surface : Str
  headword : Option Str
  dicForm : Nat
  normForm : Option Str
  pos : Nat
  splitsA : List SplitUnit
  splitsB : List SplitUnit
  reading : Option Str
  mode : Mode
  wordStructure : List Nat
  synonyms : List Nat
deriving Repr

def Entry.headwordStr (e : Entry) : Str := e.headword.getD e.surface
def Entry.normStr (e : Entry) : Str := e.normForm.getD e.headwordStr
def Entry.readingStr (e : Entry) : Str := e.reading.getD e.headwordStr
def Entry.shouldIndex (e : Entry) : Bool := decide (e.left ≥ 0)

abbrev PosKey := List Str

def MAX_POS_IDS : Nat := 32767

/-- `pos_of`: id of the POS tuple, appended when new -/
def posOf (tab : List PosKey) (k : PosKey) : Except ErrKind (Nat × List PosKey) :=
  match tab.findIdx? (· == k) with
  | some i => .ok (i, tab)
  | none =>
    if tab.length > MAX_POS_IDS then .error .PosLimitExceeded
    else .ok (tab.length, tab ++ [k])

/-- `WORD_ID_LITERAL = ^U?\d+$` with the regex crate's Unicode `\d` -/
def isWordIdLit (x : Ext) (s : Str) : Bool :=
  match s with
  | 'U' :: r => !r.isEmpty && r.all x.isNd
  | _ => !s.isEmpty && s.all x.isNd

/-- `parse_split` -/
def parseSplit (x : Ext) (tab : List PosKey) (s : Str) : Except ErrKind (SplitUnit × List PosKey) :=
  if isWordIdLit x s then
    match parseWordId s with
    | .ok w => .ok (.ref w, tab)
    | .error e => .error e
  else
    match splitN ',' 8 s with
    | [f0, f1, f2, f3, f4, f5, f6, f7] =>
      match unescape f0 with
      | .error e => .error e
      | .ok surface =>
        match mapE unescape [f1, f2, f3, f4, f5, f6] with
        | .error e => .error e
        | .ok ps =>
          match unescape f7 with
          | .error e => .error e
          | .ok reading =>
            match posOf tab ps with
            | .error e => .error e
            | .ok (p, tab') => .ok (.inline surface p (noneIfEqual surface reading), tab')
    | fs =>
      -- the parts that exist are parsed in order before the missing one is reported
      match mapE unescape fs with
      | .error e => .error e
      | .ok _ => .error .SplitFormatError

def parseSplitList (x : Ext) : List PosKey → List Str → Except ErrKind (List SplitUnit × List PosKey)
  | tab, [] => .ok ([], tab)
  | tab, s :: ss =>
    match parseSplit x tab s with
    | .error e => .error e
    | .ok (u, tab') =>
      match parseSplitList x tab' ss with
      | .error e => .error e
      | .ok (us, tab'') => .ok (u :: us, tab'')

/-- `parse_splits` -/
def parseSplits (x : Ext) (tab : List PosKey) (s : Str) : Except ErrKind (List SplitUnit × List PosKey) :=
  if s.isEmpty ∨ s = ['*'] then .ok ([], tab)
  else
    match parseSplitList x tab (Wire.splitOn '/' s) with
    | .error e => .error e
    | .ok (us, tab') => if us.length > 127 then .error .InvalidSize else .ok (us, tab')

def inlineCount (us : List SplitUnit) : Nat := (us.filter SplitUnit.isInline).length

/-- `RecordWrapper::get` -/
def fld {α : Type} (fs : List Str) (i : Nat) (f : Str → Except ErrKind α) : Except ErrKind α :=
  match fs[i]? with
  | some s => f s
  | none => .error .NoRawField

structure LexState where
  pos : List PosKey
  entries : List Entry
  unresolved : Nat

/-- `parse_record` followed by `entries.push` -/
def parseRecord (v : Variant) (x : Ext) (st : LexState) (fs : List Str) : Except ErrKind LexState := do
  let surface ← fld fs 0 unescape
  let left ← fld fs 1 eI16
  let right ← fld fs 2 eI16
  let cost ← fld fs 3 eI16
  let headword ← fld fs 4 unescape
  let p1 ← fld fs 5 unescape
  let p2 ← fld fs 6 unescape
  let p3 ← fld fs 7 unescape
  let p4 ← fld fs 8 unescape
  let p5 ← fld fs 9 unescape
  let p6 ← fld fs 10 unescape
  let reading ← fld fs 11 unescape
  let normalized ← fld fs 12 unescape
  let dicForm ← fld fs 13 parseDicForm
  let mode ← fld fs 14 parseMode
  let (splitA, tab1) ← fld fs 15 (parseSplits x st.pos)
  let (splitB, tab2) ← fld fs 16 (parseSplits x tab1)
  let parts ← fld fs 17 parseWordIdList
  let synonyms ← (match fs[18]? with
    | some s => parseU32List s
    | none => .ok [])
  let (pos, tab3) ← posOf tab2 [p1, p2, p3, p4, p5, p6]
  if mode = .A ∧ (!splitA.isEmpty || !splitB.isEmpty) then .error .InvalidSplit
  else if surface.isEmpty || (v.d5 && surface.contains (Char.ofNat 0)) then .error .EmptySurface
  else
    let e : Entry := {
      left := left, right := right, cost := cost, surface := surface,
      headword := noneIfEqual surface headword, dicForm := dicForm,
      normForm := noneIfEqual headword normalized, pos := pos,
      splitsA := splitA, splitsB := splitB, reading := noneIfEqual headword reading,
      mode := mode, wordStructure := parts, synonyms := synonyms }
    .ok { pos := tab3, entries := st.entries ++ [e],
          unresolved := st.unresolved + inlineCount splitA + inlineCount splitB }

/-- `read_bytes`: the records the `csv` reader delivered, each with its line -/
def readLexicon (v : Variant) (x : Ext) : LexState → List (Nat × List Str) → Res LexState
  | st, [] => .ok st
  | st, (line, fs) :: rest =>
    match parseRecord v x st fs with
    | .error e => .err e line
    | .ok st' => readLexicon v x st' rest

/-! ### what a FAILING `read_bytes` leaves behind -/

/-- the POS table after `parse_slash_list(data, |s| self.parse_split(s))`, whether it succeeded or
not: the units before the first failing one have registered their POS; the failing unit registers
nothing (`pos_of` is the last fallible step of `parse_split`), nor does the `> 127` check -/
def splitListTab (x : Ext) : List PosKey → List Str → List PosKey
  | tab, [] => tab
  | tab, s :: ss =>
    match parseSplit x tab s with
    | .error _ => tab
    | .ok (_, tab') => splitListTab x tab' ss

/-- the POS table after `parse_splits` (ok or not) -/
def splitsTab (x : Ext) (tab : List PosKey) (s : Str) : List PosKey :=
  if s.isEmpty ∨ s = ['*'] then tab else splitListTab x tab (Wire.splitOn '/' s)

/-- fields 0–14 of `parse_record`: nothing of the reader is touched while they are parsed; the
values the later steps look at: surface, the six POS fields, the mode -/
def parseHead (fs : List Str) : Except ErrKind (Str × PosKey × Mode) := do
  let surface ← fld fs 0 unescape
  let _ ← fld fs 1 eI16
  let _ ← fld fs 2 eI16
  let _ ← fld fs 3 eI16
  let _ ← fld fs 4 unescape
  let p1 ← fld fs 5 unescape
  let p2 ← fld fs 6 unescape
  let p3 ← fld fs 7 unescape
  let p4 ← fld fs 8 unescape
  let p5 ← fld fs 9 unescape
  let p6 ← fld fs 10 unescape
  let _ ← fld fs 11 unescape
  let _ ← fld fs 12 unescape
  let _ ← fld fs 13 parseDicForm
  let mode ← fld fs 14 parseMode
  .ok (surface, [p1, p2, p3, p4, p5, p6], mode)

/-- fields 17 and 18 of `parse_record` -/
def parseTail (fs : List Str) : Except ErrKind Unit := do
  let _ ← fld fs 17 parseWordIdList
  let _ ← (match fs[18]? with
    | some s => parseU32List s
    | none => .ok [])
  .ok ()

/-- the state of the `LexiconReader` after a `parse_record` that returned `Err` (meaningful only
then): no entry is pushed; the POS table has the POS of the inline split units parsed before the
failure (fields 15, 16) and — when the failure comes after `pos_of` (A-mode with splits, empty
surface) — of the row itself; `self.unresolved += resolve_a + resolve_b` sits between the A-mode
check and the empty-surface check, so the row rejected for its surface has bumped the counter
(S7; after the repair the counter is bumped after the last check) -/
def parseRecordLeft (v : Variant) (x : Ext) (st : LexState) (fs : List Str) : LexState :=
  match parseHead fs with
  | .error _ => st
  | .ok (_, posKey, mode) =>
    match fs[15]? with
    | none => st
    | some f15 =>
      match parseSplits x st.pos f15 with
      | .error _ => { st with pos := splitsTab x st.pos f15 }
      | .ok (splitA, tab1) =>
        match fs[16]? with
        | none => { st with pos := tab1 }
        | some f16 =>
          match parseSplits x tab1 f16 with
          | .error _ => { st with pos := splitsTab x tab1 f16 }
          | .ok (splitB, tab2) =>
            match parseTail fs with
            | .error _ => { st with pos := tab2 }
            | .ok () =>
              match posOf tab2 posKey with
              | .error _ => { st with pos := tab2 }
              | .ok (_, tab3) =>
                if mode = .A ∧ (!splitA.isEmpty || !splitB.isEmpty) then { st with pos := tab3 }
                else
                  { st with pos := tab3,
                            unresolved := if v.s7 then st.unresolved
                              else st.unresolved + inlineCount splitA + inlineCount splitB }

/-- `read_bytes` with the state it leaves: on success the state after the last record, on the
first malformed record the rows before it (pushed, counted, their POS registered) and what that
record left (`parseRecordLeft`) -/
def readLexiconP (v : Variant) (x : Ext) : LexState → List (Nat × List Str) → LexState × Res Unit
  | st, [] => (st, .ok ())
  | st, (line, fs) :: rest =>
    match parseRecord v x st fs with
    | .error e => (parseRecordLeft v x st fs, .err e line)
    | .ok st' => readLexiconP v x st' rest

/-! ## split resolution (`resolve.rs`, `resolve_splits`) -/

def readOpt (surface reading : Str) : Option Str := if surface = reading then none else some reading

/-- an entry of the system dictionary as `BinDictResolver` sees it -/
structure SysWord where
  surface : Str
  pos : Nat
  reading : Option Str
deriving Repr

/-- `RawDictResolver::resolve_inline` chained with `BinDictResolver::resolve_inline` -/
def resolveInline (dicId : Nat) (own : List Entry) (sys : List SysWord)
    (s : Str) (p : Nat) (r : Option Str) : Option Nat :=
  match own.findIdx? (fun e => e.surface == s && e.pos == p && readOpt e.surface e.readingStr == r) with
  | some i => some (widNew dicId i)
  | none =>
    match sys.findIdx? (fun w => w.surface == s && w.pos == p && w.reading == r) with
    | some i => some (widNew 0 i)
    | none => none

/-- resolve the units of one list; `none` = the first unit that cannot be resolved -/
def resolveUnits (f : Str → Nat → Option Str → Option Nat) : List SplitUnit → Option (List SplitUnit × Nat)
  | [] => some ([], 0)
  | .ref w :: us =>
    match resolveUnits f us with
    | some (r, n) => some (.ref w :: r, n)
    | none => none
  | .inline s p r :: us =>
    match f s p r with
    | none => none
    | some w =>
      match resolveUnits f us with
      | some (rs, n) => some (.ref w :: rs, n + 1)
      | none => none

/-- `resolve_splits`: `line` = index of the entry -/
def resolveEntries (f : Str → Nat → Option Str → Option Nat) : List Entry → Nat → Res (List Entry × Nat)
  | [], _ => .ok ([], 0)
  | e :: es, line =>
    match resolveUnits f e.splitsA with
    | none => .err .InvalidSplitWordReference line
    | some (a, na) =>
      match resolveUnits f e.splitsB with
      | none => .err .InvalidSplitWordReference line
      | some (b, nb) =>
        match resolveEntries f es (line + 1) with
        | .ok (rs, n) => .ok ({ e with splitsA := a, splitsB := b } :: rs, na + nb + n)
        | .err k l => .err k l
        | .panic w => .panic w

/-! ## validation (`validate_entries`, `validate_wid`) -/

/-- what a builder starts from: empty for a system dictionary, the system dictionary's grammar and
lexicon size for a user dictionary (`DictBuilder::new_user`) -/
structure Base where
  pos0 : List PosKey
  /-- sizes of the system dictionary's matrix (user dictionaries; not looked at for a system one) -/
  maxLeft : Int
  maxRight : Int
  numSystem : Option Nat
  sysWords : List SysWord

def Base.system : Base := ⟨[], 32767, 32767, none, []⟩

def Base.isUser (b : Base) : Bool := b.numSystem.isSome

/-- the sizes connection ids are validated against before any `read_conn`: those of the system
dictionary's matrix (`new_user`), else the default of `LexiconReader::new()` -/
def Base.initLeft (v : Variant) (b : Base) : Int := if b.isUser then b.maxLeft else if v.n1 then 0 else 32767
def Base.initRight (v : Variant) (b : Base) : Int := if b.isUser then b.maxRight else if v.n1 then 0 else 32767

def validateWid (raw max0 max1 : Nat) : Res Unit :=
  match widDic raw with
  | 0 => if widWord raw ≥ max0 then .err .InvalidFieldSize 0 else .ok ()
  | 1 => if widWord raw ≥ max1 then .err .InvalidFieldSize 0 else .ok ()
  | _ => .panic .badDicId

/-- `a?; b` for unit results -/
def Res.andThen (r : Res Unit) (next : Res Unit) : Res Unit :=
  match r with
  | .ok () => next
  | .err k l => .err k l
  | .panic w => .panic w

def validateWids (max0 max1 : Nat) : List Nat → Res Unit
  | [] => .ok ()
  | w :: ws => (validateWid w max0 max1).andThen (validateWids max0 max1 ws)

def validateUnits (max0 max1 : Nat) : List SplitUnit → Res Unit
  | [] => .ok ()
  | .ref w :: us => (validateWid w max0 max1).andThen (validateUnits max0 max1 us)
  | .inline .. :: _ => .panic .unresolvedSplit

def validateEntry (v : Variant) (maxLeft maxRight : Int) (max0 max1 : Nat) (e : Entry) : Res Unit :=
  if e.left ≥ maxLeft then .err .InvalidFieldSize 0
  else if e.right ≥ maxRight ∨ (v.d3 ∧ e.shouldIndex ∧ e.right < 0) then .err .InvalidFieldSize 0
  else
    (if e.dicForm ≠ WID_INVALID then validateWid e.dicForm max0 max1 else .ok ()).andThen
      ((validateUnits max0 max1 e.splitsA).andThen
        ((validateUnits max0 max1 e.splitsB).andThen
          (validateWids max0 max1 e.wordStructure)))

def validateFrom (v : Variant) (maxLeft maxRight : Int) (max0 max1 : Nat) : List Entry → Nat → Res Unit
  | [], _ => .ok ()
  | e :: es, line =>
    ((validateEntry v maxLeft maxRight max0 max1 e).atLine line).andThen
      (validateFrom v maxLeft maxRight max0 max1 es (line + 1))

/-- `validate_entries` -/
def validateEntries (v : Variant) (maxLeft maxRight : Int) (numSystem : Option Nat) (es : List Entry) : Res Unit :=
  match numSystem with
  | none => validateFrom v maxLeft maxRight es.length 0 es 0
  | some x => validateFrom v maxLeft maxRight x es.length es 0

/-! ## the writer as a script over a sink -/

inductive Step where
  /-- `w.write_all(&buf)?` with `buf.len() = n` -/
  | write (n : Nat)
  /-- `return Err(..)` between two writes -/
  | abort (k : ErrKind) (line : Nat)
  | panic (w : PanicWhy)
deriving Repr, DecidableEq

/-- run the script against a sink that accepts `limit` bytes in total (`none` = no limit);
the result is the number of bytes written -/
def exec (limit : Option Nat) : List Step → Nat → Res Nat
  | [], pos => .ok pos
  | .write n :: rest, pos =>
    if n = 0 then exec limit rest pos
    else
      match limit with
      | some k => if pos + n > k then .err .Io 0 else exec limit rest (pos + n)
      | none => exec limit rest (pos + n)
  | .abort k l :: _, _ => .err k l
  | .panic w :: _, _ => .panic w

/-- `write_len`: one byte below 127, else two -/
def lenSize (n : Nat) : Except ErrKind Nat :=
  if n > 32767 then .error .InvalidSize else if n < 127 then .ok 1 else .ok 2

/-- `Utf16Writer::write` into a buffer that cannot fail: size or error -/
def u16Size (s : Str) : Except ErrKind Nat :=
  if utf8Len s > 4 * 64 * 1024 then .error .InvalidSize
  else
    match lenSize (utf16Len s) with
    | .error e => .error e
    | .ok p => .ok (p + 2 * utf16Len s)

/-- `Utf16Writer::write` to the sink: prefix, then the code units -/
def u16Steps (line : Nat) (s : Str) : List Step :=
  if utf8Len s > 4 * 64 * 1024 then [.abort .InvalidSize line]
  else
    match lenSize (utf16Len s) with
    | .error e => [.abort e line]
    | .ok p => [.write p, .write (2 * utf16Len s)]

/-- `write_u32_array` into a buffer -/
def arrSize (n : Nat) : Except ErrKind Nat :=
  if n > 127 then .error .InvalidSize else .ok (1 + 4 * n)

/-- `write_word_info` into the in-memory buffer: size or error -/
def wordInfoSize (e : Entry) : Except ErrKind Nat := do
  let a ← u16Size e.headwordStr
  let b ← lenSize (utf8Len e.surface)
  let c ← u16Size (if e.normStr = e.headwordStr then [] else e.normStr)
  let d ← u16Size (if e.readingStr = e.headwordStr then [] else e.readingStr)
  let s1 ← arrSize e.splitsA.length
  let s2 ← arrSize e.splitsB.length
  let s3 ← arrSize e.wordStructure.length
  let s4 ← arrSize e.synonyms.length
  .ok (a + b + 2 + c + 4 + d + s1 + s2 + s3 + s4)

/-- `Header::write_to` -/
def headerSteps (descLen : Nat) : List Step :=
  if descLen > 256 then [.abort .InvalidDataFormat 0]
  else [.write 8, .write 8, .write descLen] ++ List.replicate (256 - descLen) (.write 1)

def posRowsSteps : List PosKey → Nat → List Step
  | [], _ => []
  | k :: ks, line => k.flatMap (u16Steps line) ++ posRowsSteps ks (line + 1)

/-- `write_pos_table` -/
def posSteps (tab : List PosKey) (start : Nat) : List Step :=
  .write 2 :: posRowsSteps (tab.drop start) 0

/-- `ConnBuffer::write_to` -/
def connSteps (c : Conn) : List Step :=
  if c.nl < 0 then [.abort .InvalidConnSize 0]
  else if c.nr < 0 then [.abort .InvalidConnSize 0]
  else [.write 2, .write 2, .write c.bytes]

/-- `IndexBuilder::add` over the indexable entries: distinct surfaces in order of first
occurrence with the number of their entries -/
def addKey (k : Str) : List (Str × Nat) → List (Str × Nat)
  | [] => [(k, 1)]
  | (k', n) :: rest => if k' = k then (k', n + 1) :: rest else (k', n) :: addKey k rest

def indexKeys (es : List Entry) : List (Str × Nat) :=
  (es.filter Entry.shouldIndex).foldl (fun acc e => addKey e.surface acc) []

/-- `build_word_id_table`: size, or the error for the first surface with more than 127 entries -/
def wordIdTableSize : List (Str × Nat) → Except ErrKind Nat
  | [] => .ok 0
  | (_, n) :: rest =>
    match arrSize n with
    | .error e => .error e
    | .ok a =>
      match wordIdTableSize rest with
      | .error e => .error e
      | .ok b => .ok (a + b)

def hasNul (s : Str) : Bool := s.contains (Char.ofNat 0)

/-- `write_index`: `WordId::checked` for every indexable entry, word-id table, trie (external
builder: panics on an empty key set; a key with a NUL byte violates its precondition), writes.
`trieLen` = size of the builder's output. -/
def indexStepsK (v : Variant) (keys : List (Str × Nat)) (trieLen : Nat) : List Step :=
  match wordIdTableSize keys with
  | .error e => [.abort e 0]
  | .ok tableLen =>
    if keys.isEmpty then
      (if v.d4 then [.abort .TrieBuildFailure 0] else [.panic .emptyKeys])
    else if keys.any (fun k => hasNul k.1) then [.panic .nulKey]
    else [.write 4, .write trieLen, .write 4, .write tableLen]

def indexSteps (v : Variant) (es : List Entry) (trieLen : Nat) : List Step :=
  if es.length > DIC_UNIT ∧ (es.drop DIC_UNIT).any Entry.shouldIndex then [.abort .TooLargeWordId 0]
  else indexStepsK v (indexKeys es) trieLen

def paramSteps : List Entry → List Step
  | [] => []
  | _ :: es => .write 2 :: .write 2 :: .write 2 :: paramSteps es

/-- second loop of `LexiconWriter::write`: the offset goes to the sink, the word info to a buffer -/
def offsetSteps : List Entry → Nat → List Step
  | [], _ => []
  | e :: es, line =>
    match wordInfoSize e with
    | .error k => [.write 4, .abort k line]
    | .ok _ => .write 4 :: offsetSteps es (line + 1)

def infoTotal : List Entry → Nat
  | [] => 0
  | e :: es =>
    match wordInfoSize e with
    | .ok n => n + infoTotal es
    | .error _ => 0

/-- `LexiconWriter::write` -/
def lexSteps (es : List Entry) : List Step :=
  .write 4 :: (paramSteps es ++ offsetSteps es 0 ++ [.write (infoTotal es)])

/-- the built dictionary as far as validity is concerned -/
structure Dict where
  /-- the matrix written into the dictionary -/
  conn : Conn
  entries : List Entry
  pos : List PosKey
  /-- `Some(n)`: a user dictionary over a system dictionary with `n` words -/
  numSystem : Option Nat
  /-- the sizes the connection ids were validated against -/
  maxLeft : Int
  maxRight : Int
deriving Repr

/-- state of the `DictBuilder` before `compile` -/
structure Builder where
  base : Base
  conn : Conn
  maxLeft : Int
  maxRight : Int
  lex : LexState
  resolved : Bool
  /-- `ConnBuffer.line` -/
  connLine : Str

/-- everything `compile` writes, in order -/
def compileSteps (v : Variant) (b : Builder) (descLen trieLen : Nat) : List Step :=
  headerSteps descLen ++ posSteps b.lex.pos b.base.pos0.length ++ connSteps b.conn
    ++ indexSteps v b.lex.entries trieLen ++ lexSteps b.lex.entries

/-- `DictBuilder::compile` -/
def compile (v : Variant) (b : Builder) (descLen trieLen : Nat) (limit : Option Nat) : Res (Nat × Dict) :=
  if b.lex.unresolved > 0 ∧ !b.resolved then .err .UnresolvedSplits 0
  else
    match validateEntries v b.maxLeft b.maxRight b.base.numSystem b.lex.entries with
    | .err k l => .err k l
    | .panic w => .panic w
    | .ok () =>
      match exec limit (compileSteps v b descLen trieLen) 0 with
      | .ok n => .ok (n, ⟨b.conn, b.lex.entries, b.lex.pos, b.base.numSystem, b.maxLeft, b.maxRight⟩)
      | .err k l => .err k l
      | .panic w => .panic w

/-! ## the whole pipeline -/

inductive Stage where
  | conn | lex | resolve | compile
deriving DecidableEq, Repr

inductive Outcome where
  | ok (len : Nat) (resolvedCount : Nat) (d : Dict)
  | err (s : Stage) (k : ErrKind) (line : Nat)
  | panic (s : Stage) (w : PanicWhy)
deriving Repr

/-- one call on the builder before `compile` -/
inductive Op where
  /-- `read_conn(..)?`: the matrix text as lines (`none` = the line is not UTF-8) -/
  | conn (lines : List (Option Str))
  /-- `let _ = read_conn(..)`: an `Err` is ignored by the caller, who goes on using the builder -/
  | connIgn (lines : List (Option Str))
  /-- `read_lexicon`: the records delivered by the csv reader with their line numbers, and the
  line at which the csv reader failed after them, if it did -/
  | lex (recs : List (Nat × List Str)) (csvErr : Option Nat)
  /-- `let _ = read_lexicon(..)`: an `Err` is ignored by the caller, who goes on using the builder
  with whatever the failed call left in it -/
  | lexIgn (recs : List (Nat × List Str)) (csvErr : Option Nat)
  /-- `resolve()` -/
  | resolve

structure Input where
  base : Base
  /-- the calls made on the builder, in order, before `compile` (the first failure ends the run) -/
  ops : List Op
  descLen : Nat
  trieLen : Nat

/-- `DictBuilder::resolve` -/
def resolve (b : Builder) : Res (Builder × Nat) :=
  if b.lex.unresolved = 0 then .ok ({ b with resolved := true }, 0)
  else
    match resolveEntries (resolveInline (if b.base.isUser then 1 else 0) b.lex.entries b.base.sysWords)
        b.lex.entries 0 with
    | .ok (es, n) => .ok ({ b with lex := { b.lex with entries := es }, resolved := true }, n)
    | .err k l => .err k l
    | .panic w => .panic w

/-- a failure of one of the stages -/
inductive Fail where
  | err (s : Stage) (k : ErrKind) (line : Nat)
  | panic (s : Stage) (w : PanicWhy)
deriving Repr

def Fail.toOutcome : Fail → Outcome
  | .err s k l => .err s k l
  | .panic s w => .panic s w

def Res.toExcept {α : Type} (s : Stage) : Res α → Except Fail α
  | .ok a => .ok a
  | .err k l => .error (.err s k l)
  | .panic w => .error (.panic s w)

/-- `DictBuilder::new_system()` / `new_user(system)` -/
def Builder.init (v : Variant) (base : Base) : Builder :=
  ⟨base, Conn.empty, base.initLeft v, base.initRight v, ⟨base.pos0, [], 0⟩, false, []⟩

/-- `read_lexicon`: the records are appended to the entries read so far (POS table and the
`unresolved` counter go on), then the failure of the csv reader if there was one.  The `resolved`
flag: untouched in the code as it stands, cleared after the repair. -/
def readLex (v : Variant) (x : Ext) (b : Builder) (recs : List (Nat × List Str)) (csvErr : Option Nat) :
    Res Builder :=
  match readLexicon v x b.lex recs with
  | .ok st =>
    (match csvErr with
    | some line => .err .Csv line
    | none => .ok { b with lex := st, resolved := if v.rf then false else b.resolved })
  | .err k l => .err k l
  | .panic w => .panic w

/-- `DictBuilder::read_lexicon` with the builder it leaves, whatever the result: the reader is in
the state `read_bytes` left (after the repair S8: untouched when reading failed), and `resolved` is
cleared BEFORE the result is looked at (`self.resolved = false; self.reporter.collect_r(result, ..)`),
so also when reading failed; in the code as it stood (`rf = false`) nothing touches the flag.  A csv
failure comes after the records the reader delivered before it. -/
def readLexB (v : Variant) (x : Ext) (b : Builder) (recs : List (Nat × List Str)) (csvErr : Option Nat) :
    Builder × Res Unit :=
  let flag := if v.rf then false else b.resolved
  match readLexiconP v x b.lex recs with
  | (st, .ok ()) =>
    (match csvErr with
    | some line => ({ b with lex := if v.la then b.lex else st, resolved := flag }, .err .Csv line)
    | none => ({ b with lex := st, resolved := flag }, .ok ()))
  | (st, r) => ({ b with lex := if v.la then b.lex else st, resolved := flag }, r)

/-- `set_max_conn_sizes(self.conn.left(), self.conn.right())` as `read_conn` does it: as the code
stands for every builder, after the repair N3 not for a user-dictionary builder -/
def syncSizes (v : Variant) (b : Builder) : Builder :=
  if v.n3 && b.base.isUser then b else { b with maxLeft := b.conn.nl, maxRight := b.conn.nr }

/-- `DictBuilder::read_conn`: the builder afterwards and the result.  The matrix buffer is whatever
`ConnBuffer::read` left; the sizes ids are validated against follow it when reading succeeded and,
after the repair S6, also when it failed. -/
def readConnB (v : Variant) (b : Builder) (lines : List (Option Str)) : Builder × Res Unit :=
  match readConn v ⟨b.conn, b.connLine⟩ lines with
  | (buf, .ok ()) => (syncSizes v { b with conn := buf.conn, connLine := buf.line }, .ok ())
  | (buf, r) =>
    (if v.s6 then syncSizes v { b with conn := buf.conn, connLine := buf.line }
      else { b with conn := buf.conn, connLine := buf.line }, r)

/-- one call; the second component counts the splits `resolve` reported -/
def runOp (v : Variant) (x : Ext) (s : Builder × Nat) : Op → Except Fail (Builder × Nat)
  | .conn lines =>
    match readConnB v s.1 lines with
    | (b, .ok ()) => .ok (b, s.2)
    | (_, .err k l) => .error (.err .conn k l)
    | (_, .panic w) => .error (.panic .conn w)
  | .connIgn lines =>
    match readConnB v s.1 lines with
    | (_, .panic w) => .error (.panic .conn w)
    | (b, _) => .ok (b, s.2)
  | .lex recs csvErr =>
    match (readLex v x s.1 recs csvErr).toExcept .lex with
    | .error f => .error f
    | .ok b => .ok (b, s.2)
  | .lexIgn recs csvErr =>
    match readLexB v x s.1 recs csvErr with
    | (_, .panic w) => .error (.panic .lex w)
    | (b, _) => .ok (b, s.2)
  | .resolve =>
    match (resolve s.1).toExcept .resolve with
    | .error f => .error f
    | .ok (b, n) => .ok (b, s.2 + n)

/-- the calls in order, stopping at the first failure -/
def runOps (v : Variant) (x : Ext) : Builder × Nat → List Op → Except Fail (Builder × Nat)
  | s, [] => .ok s
  | s, op :: ops =>
    match runOp v x s op with
    | .error f => .error f
    | .ok s' => runOps v x s' ops

/-- position of the call that failed (`ops.length` when none did); only used for the answer line -/
def failIdx (v : Variant) (x : Ext) : Builder × Nat → List Op → Nat → Nat
  | _, [], i => i
  | s, op :: ops, i =>
    match runOp v x s op with
    | .error _ => i
    | .ok s' => failIdx v x s' ops (i + 1)

/-- the results of the ignored calls, in order, each with the builder it left (and the number of
units resolved so far); `true` marks a `read_lexicon` (only used for the answer line) -/
def ignTrace (v : Variant) (x : Ext) : Builder × Nat → List Op → List (Bool × (Builder × Nat) × Res Unit)
  | _, [] => []
  | s, op :: ops =>
    match runOp v x s op with
    | .error _ => []
    | .ok s' =>
      match op with
      | .connIgn lines => (false, s', (readConnB v s.1 lines).2) :: ignTrace v x s' ops
      | .lexIgn recs ce => (true, s', (readLexB v x s.1 recs ce).2) :: ignTrace v x s' ops
      | _ => ignTrace v x s' ops

/-- everything before `compile`: the builder handed to `compile`, or the failure -/
def prepare (v : Variant) (x : Ext) (inp : Input) : Except Fail (Builder × Nat) :=
  runOps v x (Builder.init v inp.base, 0) inp.ops

/-- `compile` into a sink accepting `limit` bytes -/
def finish (v : Variant) (p : Builder × Nat) (descLen trieLen : Nat) (limit : Option Nat) : Outcome :=
  match compile v p.1 descLen trieLen limit with
  | .err k l => .err .compile k l
  | .panic w => .panic .compile w
  | .ok (n, d) => .ok n p.2 d

/-- the calls on the builder, then `compile`, stopping at the first failure -/
def build (v : Variant) (x : Ext) (inp : Input) (limit : Option Nat) : Outcome :=
  match prepare v x inp with
  | .error f => f.toOutcome
  | .ok p => finish v p inp.descLen inp.trieLen limit

end Build
