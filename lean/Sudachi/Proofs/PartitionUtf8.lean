import Sudachi.Proofs.Partition
import Sudachi.Proofs.Normalize
import Sudachi.Model.Stages
/-!
# The UTF-8 invariant of the input buffer and `PluginOk` for the BUNDLED input-text plugins (C01; serves C03, C07)

`Partition.PluginOk` asks of an input-text plugin that its edits are sorted, non-overlapping, in range (`EditsOk`) and on
character starts of the current BYTE text (`EditsB`).  C07 proves the first half for the three bundled plugins in
CODE-POINT indices (`defaultEdits_ok`, `psmGo_edits_ok`, `yomiGo_edits_ok`).  What turns a code-point index into a
character start of the byte text is the invariant stated here:

`Enc l` — the current text of the buffer IS the UTF-8 encoding (the model's own `TotalIO.encode`) of a code-point list.

* `decode_encode`       the model's decoder inverts the model's encoder (every scalar value, no side condition);
* `boOf_byteOff`        in an encoded text the prefix sum of the widths of the first `k` characters is a character start;
* `textOf_go`/`goT_encode`  `resolve_edits` on an encoded text with edits on such offsets and encoded replacements yields the
                        encoding of C07's code-point result (`Normalize.applyEdits`): the byte text and the code-point text
                        of C07 stay in step through every batch;
* `PluginOkJ`, `rewriteInput_invJ`  `PluginOk` relative to an invariant `J` of the buffer that the plugin's own batches keep;
                        induction over the plugin stack (rejected commits end the analysis, an emptied text stays empty);
* `bundled_pluginOkJ`   `PluginOkJ Enc` for `TotalIO.plugin a S c` — Default / ProlongedSoundMark / IgnoreYomigana with ANY
                        settings, ANY rewrite table, ANY Unicode facts;
* `bundled_reach`       what `tokens_partition_core` needs of the plugin stage, for every stack of bundled plugins;
* `tokens_partition_core`  the partition theorem with the plugin stage abstracted to its two consequences.
-/
namespace Utf8Inv
open Oov (Outcome)
open Total EditM Partition
open TotalIO (utf8Enc encode byteOff toByteEdits)

/-! ## the model's encoder -/

theorem encode_cons (c : Nat) (cs : List Nat) : encode (c :: cs) = utf8Enc c ++ encode cs := by simp [encode]

theorem encode_append (a b : List Nat) : encode (a ++ b) = encode a ++ encode b := by simp [encode]

theorem utf8Enc_length (c : Nat) : (utf8Enc c).length = Normalize.utf8w c := by
  unfold utf8Enc Normalize.utf8w
  by_cases h1 : c < 0x80
  · simp [h1]
  · by_cases h2 : c < 0x800
    · simp [h1, h2]
    · by_cases h3 : c < 0x10000
      · simp [h1, h2, h3]
      · simp [h1, h2, h3]

/-- every encoded character begins with a byte that is not a continuation byte -/
theorem utf8Enc_head (c : Nat) : ∃ b r, utf8Enc c = b :: r ∧ isStart b = true := by
  unfold utf8Enc
  by_cases h1 : c < 0x80
  · exact ⟨c, [], by simp [h1], by unfold isStart; simp; omega⟩
  · by_cases h2 : c < 0x800
    · refine ⟨0xC0 + c / 64, [0x80 + c % 64], by simp only [if_neg h1, if_pos h2], ?_⟩
      unfold isStart; simp; omega
    · by_cases h3 : c < 0x10000
      · refine ⟨0xE0 + c / 4096, [0x80 + c / 64 % 64, 0x80 + c % 64], by simp only [if_neg h1, if_neg h2, if_pos h3], ?_⟩
        unfold isStart; simp; omega
      · refine ⟨0xF0 + c / 262144, [0x80 + c / 4096 % 64, 0x80 + c / 64 % 64, 0x80 + c % 64],
          by simp only [if_neg h1, if_neg h2, if_neg h3], ?_⟩
        unfold isStart; simp; omega

theorem dec1 (b0 : Nat) (r : List Nat) (h : b0 < 0x80) :
    Wire.utf8Decode (b0 :: r) = (Wire.utf8Decode r).map (b0 :: ·) := by
  rw [Wire.utf8Decode.eq_def]; simp only []; rw [if_pos h]

theorem dec2 (b0 b1 : Nat) (r : List Nat) (h1 : ¬ b0 < 0x80) (h2 : ¬ b0 < 0xC0) (h3 : b0 < 0xE0) :
    Wire.utf8Decode (b0 :: b1 :: r) = (Wire.utf8Decode r).map (((b0 - 0xC0) * 64 + (b1 - 0x80)) :: ·) := by
  rw [Wire.utf8Decode.eq_def]; simp only []; rw [if_neg h1, if_neg h2, if_pos h3]

theorem dec3 (b0 b1 b2 : Nat) (r : List Nat) (h1 : ¬ b0 < 0x80) (h2 : ¬ b0 < 0xC0) (h3 : ¬ b0 < 0xE0) (h4 : b0 < 0xF0) :
    Wire.utf8Decode (b0 :: b1 :: b2 :: r) =
      (Wire.utf8Decode r).map (((b0 - 0xE0) * 4096 + (b1 - 0x80) * 64 + (b2 - 0x80)) :: ·) := by
  rw [Wire.utf8Decode.eq_def]; simp only []; rw [if_neg h1, if_neg h2, if_neg h3, if_pos h4]

theorem dec4 (b0 b1 b2 b3 : Nat) (r : List Nat) (h1 : ¬ b0 < 0x80) (h2 : ¬ b0 < 0xC0) (h3 : ¬ b0 < 0xE0) (h4 : ¬ b0 < 0xF0) :
    Wire.utf8Decode (b0 :: b1 :: b2 :: b3 :: r) =
      (Wire.utf8Decode r).map (((b0 - 0xF0) * 262144 + (b1 - 0x80) * 4096 + (b2 - 0x80) * 64 + (b3 - 0x80)) :: ·) := by
  rw [Wire.utf8Decode.eq_def]; simp only []; rw [if_neg h1, if_neg h2, if_neg h3, if_neg h4]

/-- **the model's decoder inverts the model's encoder** — for every list of scalar values (the 4-byte branch of both
functions has no upper bound, so no side condition is needed) -/
theorem decode_encode : ∀ cs : List Nat, Wire.utf8Decode (encode cs) = some cs
  | [] => by rw [Wire.utf8Decode.eq_def]; rfl
  | c :: cs => by
    have ih := decode_encode cs
    rw [encode_cons]
    unfold utf8Enc
    by_cases h1 : c < 0x80
    · simp only [if_pos h1, List.cons_append, List.nil_append]
      rw [dec1 c _ h1, ih]; rfl
    · by_cases h2 : c < 0x800
      · simp only [if_neg h1, if_pos h2, List.cons_append, List.nil_append]
        rw [dec2 _ _ _ (by omega) (by omega) (by omega), ih]
        have e : (0xC0 + c / 64 - 0xC0) * 64 + (0x80 + c % 64 - 0x80) = c := by omega
        simp only [Option.map_some, e]
      · by_cases h3 : c < 0x10000
        · simp only [if_neg h1, if_neg h2, if_pos h3, List.cons_append, List.nil_append]
          rw [dec3 _ _ _ _ (by omega) (by omega) (by omega) (by omega), ih]
          have e : (0xE0 + c / 4096 - 0xE0) * 4096 + (0x80 + c / 64 % 64 - 0x80) * 64 + (0x80 + c % 64 - 0x80) = c := by omega
          simp only [Option.map_some, e]
        · simp only [if_neg h1, if_neg h2, if_neg h3, List.cons_append, List.nil_append]
          rw [dec4 _ _ _ _ _ (by omega) (by omega) (by omega) (by omega), ih]
          have e : (0xF0 + c / 262144 - 0xF0) * 262144 + (0x80 + c / 4096 % 64 - 0x80) * 4096 +
              (0x80 + c / 64 % 64 - 0x80) * 64 + (0x80 + c % 64 - 0x80) = c := by omega
          simp only [Option.map_some, e]

/-! ## byte offsets of code-point indices -/

theorem byteOff_zero (cs : List Nat) : byteOff cs 0 = 0 := by simp [byteOff]

theorem byteOff_cons_succ (c : Nat) (cs : List Nat) (k : Nat) :
    byteOff (c :: cs) (k + 1) = Normalize.utf8w c + byteOff cs k := by
  simp [byteOff, List.take_succ_cons]

theorem byteOff_eq_off (cs : List Nat) (k : Nat) : byteOff cs k = Normalize.off Normalize.utf8w cs k := rfl

theorem byteOff_mono (cs : List Nat) (i j : Nat) (h : i ≤ j) : byteOff cs i ≤ byteOff cs j :=
  Normalize.off_mono Normalize.utf8w cs i j h

/-- dropping the bytes of the first `k` characters leaves the encoding of the rest -/
theorem encode_drop : ∀ (cs : List Nat) (k : Nat), (encode cs).drop (byteOff cs k) = encode (cs.drop k)
  | cs, 0 => by simp [byteOff_zero]
  | [], k + 1 => by simp [byteOff, encode]
  | c :: cs, k + 1 => by
    rw [byteOff_cons_succ, encode_cons, ← utf8Enc_length, List.drop_append,
      List.drop_eq_nil_of_le (by omega), Nat.add_sub_cancel_left, List.nil_append, List.drop_succ_cons]
    exact encode_drop cs k

theorem encode_take : ∀ (cs : List Nat) (k : Nat), (encode cs).take (byteOff cs k) = encode (cs.take k)
  | cs, 0 => by simp [byteOff_zero, encode]
  | [], k + 1 => by simp [byteOff, encode]
  | c :: cs, k + 1 => by
    rw [byteOff_cons_succ, encode_cons, ← utf8Enc_length, List.take_append,
      List.take_of_length_le (by omega), Nat.add_sub_cancel_left, List.take_succ_cons, encode_cons, encode_take cs k]

theorem byteOff_length : ∀ cs : List Nat, byteOff cs cs.length = (encode cs).length
  | [] => by simp [byteOff, encode]
  | c :: cs => by
    rw [List.length_cons, byteOff_cons_succ, encode_cons, List.length_append, utf8Enc_length, byteOff_length cs]

theorem byteOff_le_length (cs : List Nat) (k : Nat) : byteOff cs k ≤ (encode cs).length := by
  by_cases h : k ≤ cs.length
  · rw [← byteOff_length]; exact byteOff_mono cs k cs.length h
  · have : cs.take k = cs.take cs.length := by rw [List.take_of_length_le (by omega), List.take_length]
    unfold byteOff
    rw [this]
    exact Nat.le_of_eq (byteOff_length cs)

/-- additivity of the prefix sums -/
theorem byteOff_add : ∀ (cs : List Nat) (i d : Nat), byteOff cs (i + d) = byteOff cs i + byteOff (cs.drop i) d
  | cs, 0, d => by simp [byteOff_zero]
  | [], i + 1, d => by simp [byteOff]
  | c :: cs, i + 1, d => by
    rw [show i + 1 + d = (i + d) + 1 by omega, byteOff_cons_succ, byteOff_cons_succ, List.drop_succ_cons, byteOff_add cs i d]
    omega

/-- the bytes between two character offsets are the encoding of the characters between them -/
theorem encode_slice (cs : List Nat) (i j : Nat) (h : i ≤ j) :
    slice (encode cs) (byteOff cs i) (byteOff cs j) = encode (slice cs i j) := by
  unfold slice
  obtain ⟨d, rfl⟩ : ∃ d, j = i + d := ⟨j - i, by omega⟩
  rw [encode_drop, byteOff_add, Nat.add_sub_cancel_left, Nat.add_sub_cancel_left, encode_take]

/-- **in an encoded text the byte offset of every code-point index is a character start** (or the end of the text) -/
theorem boOf_byteOff (cs : List Nat) (k : Nat) : BoOf (encode cs) (byteOff cs k) := by
  by_cases hk : k < cs.length
  · right
    have hd := encode_drop cs k
    obtain ⟨c, rest, hc⟩ : ∃ c rest, cs.drop k = c :: rest := by
      cases h : cs.drop k with
      | nil => have := congrArg List.length h; simp at this; omega
      | cons c rest => exact ⟨c, rest, rfl⟩
    obtain ⟨b, r, hb, hs⟩ := utf8Enc_head c
    rw [hc, encode_cons, hb, List.cons_append] at hd
    have h0 : ((encode cs).drop (byteOff cs k))[0]? = some b := by rw [hd]; rfl
    rw [List.getElem?_drop, Nat.add_zero] at h0
    obtain ⟨hlt, heq⟩ := List.getElem?_eq_some_iff.mp h0
    exact ⟨hlt, by rw [heq]; exact hs⟩
  · left
    have : cs.take k = cs.take cs.length := by rw [List.take_of_length_le (by omega), List.take_length]
    unfold byteOff
    rw [this]
    exact byteOff_length cs

/-! ## the text `resolve_edits` writes, as a function of the text alone -/

/-- the loop of `resolve_edits` on the text vector alone -/
def goT (t : List Nat) : Nat → List (Edit Nat) → List Nat → List Nat
  | start, [], acc => acc ++ t.drop start
  | start, ed :: es, acc => goT t ed.e es (acc ++ slice t start ed.s ++ ed.w)

theorem textOf_cons_some (b : Nat) (v : Nat) (r : List (P Nat)) : textOf ((some b, v) :: r) = b :: textOf r := by
  simp [textOf]

theorem textOf_drop {a : List (P Nat)} (h : AllSome a) : ∀ n, textOf (a.drop n) = (textOf a).drop n := by
  induction a with
  | nil => intro n; simp [textOf]
  | cons p r ih =>
    intro n
    obtain ⟨x, v⟩ := p
    have hx := h (x, v) (by simp)
    cases x with
    | none => simp at hx
    | some b =>
      cases n with
      | zero => rfl
      | succ n =>
        rw [List.drop_succ_cons, textOf_cons_some, List.drop_succ_cons]
        exact ih (fun q hq => h q (by simp [hq])) n

theorem textOf_take {a : List (P Nat)} (h : AllSome a) : ∀ n, textOf (a.take n) = (textOf a).take n := by
  induction a with
  | nil => intro n; simp [textOf]
  | cons p r ih =>
    intro n
    obtain ⟨x, v⟩ := p
    have hx := h (x, v) (by simp)
    cases x with
    | none => simp at hx
    | some b =>
      cases n with
      | zero => rfl
      | succ n =>
        rw [List.take_succ_cons, textOf_cons_some, textOf_cons_some, List.take_succ_cons]
        rw [ih (fun q hq => h q (by simp [hq])) n]

theorem allSome_drop {a : List (P Nat)} (h : AllSome a) (n : Nat) : AllSome (a.drop n) :=
  fun p hp => h p (List.mem_of_mem_drop hp)

theorem textOf_slice {a : List (P Nat)} (h : AllSome a) (i j : Nat) : textOf (slice a i j) = slice (textOf a) i j := by
  unfold slice
  rw [textOf_take (allSome_drop h i), textOf_drop h]

theorem textOf_map_some (v : Nat) : ∀ bs : List Nat, textOf (bs.map (fun c => ((some c, v) : P Nat))) = bs
  | [] => rfl
  | c :: cs => by rw [List.map_cons, textOf_cons_some, textOf_map_some v cs]

theorem textOf_repl (l : List (P Nat)) (ed : Edit Nat) : textOf (repl l ed) = ed.w := by
  unfold repl
  cases hw : ed.w with
  | nil => rfl
  | cons b bs =>
    simp only []
    rw [textOf_cons_some, textOf_map_some]

/-- the text half of `resolve_edits` does not look at the offset map -/
theorem textOf_go (N : Nat) (body : List (P Nat)) (hb : AllSome body) :
    ∀ (es : List (Edit Nat)) (start : Nat) (acc : List (P Nat)), EditsOk body.length start es →
      textOf (go (body ++ [(none, N)]) start es acc) = goT (textOf body) start es (textOf acc) := by
  intro es
  induction es with
  | nil =>
    intro start acc hok
    simp only [EditsOk] at hok
    simp only [go, goT]
    rw [textOf_append, List.drop_append_of_le_length hok, textOf_append, textOf_drop hb]
    simp [textOf]
  | cons ed es ih =>
    intro start acc hok
    obtain ⟨h1, h2, h3, h4⟩ := hok
    simp only [go, goT]
    rw [ih ed.e _ h4, textOf_append, textOf_append, textOf_repl, slice_body (by omega), textOf_slice hb]

theorem textOf_resolve (N : Nat) (l : List (P Nat)) (hs : Shape N l) (es : List (Edit Nat))
    (hok : EditsOk (l.length - 1) 0 es) : textOf (resolve l es) = goT (textOf l) 0 es [] := by
  obtain ⟨body, rfl, hb⟩ := hs
  have hlen : (body ++ [((none : Option Nat), N)]).length - 1 = body.length := by simp
  rw [hlen] at hok
  unfold resolve
  rw [textOf_force0, textOf_go N body hb es 0 [] hok, textOf_shape]
  rfl

/-! ## encoded text, edits on code-point offsets, encoded replacements -/

theorem toByteEdits_cons (cs : List Nat) (e : Normalize.Edit) (es : List Normalize.Edit) :
    toByteEdits cs (e :: es) = ⟨byteOff cs e.s, byteOff cs e.e, encode e.rep⟩ :: toByteEdits cs es := rfl

/-- C07's code-point statement transported to the byte edits the plugin records -/
theorem editsOk_bytes (cs : List Nat) : ∀ (es : List Normalize.Edit) (start : Nat),
    Normalize.EditsOk cs.length start es →
    EditsOk (encode cs).length (byteOff cs start) (toByteEdits cs es) := by
  intro es
  induction es with
  | nil =>
    intro start h
    simp only [toByteEdits, List.map_nil, EditsOk]
    exact byteOff_le_length cs start
  | cons e es ih =>
    intro start h
    obtain ⟨h1, h2, h3, h4⟩ := h
    rw [toByteEdits_cons]
    exact ⟨byteOff_mono cs _ _ h1, byteOff_mono cs _ _ h2, byteOff_le_length cs _, ih e.e h4⟩

/-- **`resolve_edits` on an encoded text, with edits on code-point offsets and encoded replacements, writes the encoding
of C07's code-point result** (`Normalize.applyGo`) -/
theorem goT_encode (cs : List Nat) : ∀ (es : List Normalize.Edit) (pos : Nat), Normalize.EditsOk cs.length pos es →
    ∃ t, Normalize.applyGo pos es (cs.drop pos) = some t ∧
      ∀ acc, goT (encode cs) (byteOff cs pos) (toByteEdits cs es) acc = acc ++ encode t := by
  intro es
  induction es with
  | nil =>
    intro pos _
    refine ⟨cs.drop pos, rfl, ?_⟩
    intro acc
    simp only [toByteEdits, List.map_nil, goT]
    rw [encode_drop]
  | cons e es ih =>
    intro pos h
    obtain ⟨h1, h2, h3, h4⟩ := h
    obtain ⟨t, ht, hg⟩ := ih e.e h4
    have hdd : (cs.drop pos).drop (e.e - pos) = cs.drop e.e := by
      rw [List.drop_drop]; congr 1; omega
    refine ⟨(cs.drop pos).take (e.s - pos) ++ e.rep ++ t, ?_, ?_⟩
    · rw [Normalize.applyGo_cons_ok pos e es (cs.drop pos) h1 h2 (by rw [List.length_drop]; omega), hdd, ht]
      rfl
    · intro acc
      rw [toByteEdits_cons]
      simp only [goT]
      rw [hg, encode_slice cs pos e.s h1, encode_append, encode_append]
      simp [slice, List.append_assoc]

/-! ## the invariant and the plugin stack -/

/-- **the UTF-8 invariant of the buffer**: the current text IS the encoding (the model's own `TotalIO.encode`) of a list of
code points -/
def Enc (l : List (P Nat)) : Prop := ∃ cs, textOf l = encode cs

/-- `Partition.PluginOk` relative to an invariant `J` of the buffer: the plugin's edits are admissible on every buffer that
satisfies `J` (not on every buffer), and the batch it emits re-establishes `J` -/
structure PluginOkJ (J : List (P Nat) → Prop) (orig : List Nat) (p : List Nat → Outcome (List (Edit Nat))) : Prop where
  adm : ∀ (l : List (P Nat)) (es : List (Edit Nat)), Inv isStart (BoOf orig) orig.length l → J l → p (textOf l) = .ok es →
    EditsOk (l.length - 1) 0 es ∧ EditsB isStart l es
  keep : ∀ (l : List (P Nat)) (es : List (Edit Nat)), Inv isStart (BoOf orig) orig.length l → J l → p (textOf l) = .ok es →
    J (resolve l es)
  empty : ∀ es, p [] = .ok es → es = []

/-- `PluginOk` is the instance without invariant -/
theorem pluginOkJ_of_pluginOk (orig : List Nat) (p : List Nat → Outcome (List (Edit Nat))) (h : PluginOk orig p) :
    PluginOkJ (fun _ => True) orig p :=
  ⟨fun l es hi _ hp => h.adm l es hi hp, fun _ _ _ _ _ => trivial, h.empty⟩

/-- **induction over the plugin stack**: the C08 invariant of the offset map (or an emptied text), the 65535-byte bound AND
`J` hold after every stack of plugins that are admissible relative to `J`; a rejected commit (`InputTooLong`) ends the
analysis (`rewriteInput` is not `ok`), an emptied text is handed on unchanged -/
theorem rewriteInput_invJ (J : List (P Nat) → Prop) (lv : LenV) (orig : List Nat) (h0 : BoOf orig 0) :
    ∀ (ps : List (List Nat → Outcome (List (Edit Nat)))) (l l' : List (P Nat)),
      (∀ p ∈ ps, PluginOkJ J orig p) → BufInv orig l → J l → rewriteInput lv ps l = .ok l' → BufInv orig l' ∧ J l'
  | [], l, l', _, hi, hj, h => by simp only [rewriteInput] at h; cases h; exact ⟨hi, hj⟩
  | p :: ps, l, l', hp, hi, hj, h => by
    have hpk := hp p (List.mem_cons_self ..)
    have hrest : ∀ q ∈ ps, PluginOkJ J orig q := fun q hq => hp q (List.mem_cons_of_mem _ hq)
    unfold rewriteInput at h
    cases hpe : p (textOf l) with
    | err k => rw [hpe] at h; cases h
    | panic w => rw [hpe] at h; cases h
    | ok es =>
      rw [hpe] at h; simp only [] at h
      cases hc : commitV lv l es with
      | none => rw [hc] at h; cases h
      | some l1 =>
        rw [hc] at h; simp only [] at h
        suffices hs : BufInv orig l1 ∧ J l1 from rewriteInput_invJ J lv orig h0 ps l1 l' hrest hs.1 hs.2 h
        rcases hi with ⟨hinv | hemp, hlen⟩
        · by_cases hes : es = []
          · subst hes
            rw [commitV_nil] at hc; cases hc
            exact ⟨⟨Or.inl hinv, hlen⟩, hj⟩
          · obtain ⟨a1, a2⟩ := hpk.adm l es hinv hj hpe
            have hf := commitV_imp_final lv l es l1 hc
            obtain ⟨rfl, hle⟩ := (commitV_final_some_iff orig.length l hinv.shape es hes a1 l1).mp hf
            refine ⟨⟨?_, hle⟩, hpk.keep l es hinv hj hpe⟩
            by_cases hne : textOf (resolve l es) = []
            · exact Or.inr hne
            · exact Or.inl (resolve_inv isStart (BoOf orig) orig.length h0 l hinv es a1 a2 hne)
        · rw [hemp] at hpe
          have := hpk.empty es hpe
          subst this
          rw [commitV_nil] at hc; cases hc
          exact ⟨⟨Or.inr hemp, hlen⟩, hj⟩

/-- once the text is empty it stays empty (only the `empty` half of the plugins is used) -/
theorem rewriteInput_emptyE (lv : LenV) :
    ∀ (ps : List (List Nat → Outcome (List (Edit Nat)))) (l1 l2 : List (P Nat)),
      (∀ p ∈ ps, ∀ es, p [] = .ok es → es = []) → textOf l1 = [] → rewriteInput lv ps l1 = .ok l2 → textOf l2 = []
  | [], l1, l2, _, he, hh => by simp only [rewriteInput] at hh; cases hh; exact he
  | p :: ps, l1, l2, hp, he, hh => by
    unfold rewriteInput at hh
    cases hpe : p (textOf l1) with
    | err k => rw [hpe] at hh; cases hh
    | panic w => rw [hpe] at hh; cases hh
    | ok es =>
      rw [hpe] at hh; simp only [] at hh
      rw [he] at hpe
      have := hp p (List.mem_cons_self ..) es hpe
      subst this
      rw [commitV_nil] at hh; simp only [] at hh
      exact rewriteInput_emptyE lv ps l1 l2 (fun q hq => hp q (List.mem_cons_of_mem _ hq)) he hh

/-! ## the bundled plugins -/

/-- the code-point edit list of a bundled plugin (C07's models), exactly the `let es` of `TotalIO.plugin` -/
def cpEdits (a : Array Normalize.Fact) (S : Normalize.Setup) (p : Char) (cs : List Nat) : List Normalize.Edit :=
  let U := Normalize.uniOf a
  if p = 'D' then (match S.table with | some T => Normalize.defaultEdits U T S.earliest cs | none => [])
  else if p = 'P' then Normalize.psmEdits S.marks S.rep cs
  else
    let Y : Normalize.Yomi := ⟨fun c => match Normalize.findFact a c with | some f => f.kanji | none => false,
                               fun c => match Normalize.findFact a c with | some f => f.kana | none => false,
                               S.yl, S.yr, S.yn⟩
    Normalize.yomiEdits Y cs

/-- on an encoded text a bundled plugin is its C07 model with the offsets and the replacements turned into bytes -/
theorem plugin_encode (a : Array Normalize.Fact) (S : Normalize.Setup) (p : Char) (cs : List Nat) :
    TotalIO.plugin a S p (encode cs) =
      if !Normalize.covered a cs then .err "bad-facts" else .ok (toByteEdits cs (cpEdits a S p cs)) := by
  unfold TotalIO.plugin
  rw [decode_encode]
  rfl

/-- C07 (`defaultEdits_ok`, `psmGo_edits_ok`, `yomiGo_edits_ok`): the code-point edits of every bundled plugin are sorted,
non-overlapping and in range -/
theorem cpEdits_ok (a : Array Normalize.Fact) (S : Normalize.Setup) (p : Char) (cs : List Nat) :
    Normalize.EditsOk cs.length 0 (cpEdits a S p cs) := by
  unfold cpEdits
  simp only []
  split
  · split
    · exact Normalize.defaultEdits_ok _ _ _ cs
    · exact Nat.zero_le _
  · split
    · have := Normalize.psmGo_edits_ok S.marks S.rep 0 cs
      simpa [Normalize.psmEdits] using this
    · have := Normalize.yomiGo_edits_ok
        ⟨fun c => match Normalize.findFact a c with | some f => f.kanji | none => false,
         fun c => match Normalize.findFact a c with | some f => f.kana | none => false, S.yl, S.yr, S.yn⟩ 0 cs
      simpa [Normalize.yomiEdits] using this

/-- a bundled plugin has nothing to replace in an empty text -/
theorem cpEdits_nil (a : Array Normalize.Fact) (S : Normalize.Setup) (p : Char) : cpEdits a S p [] = [] := by
  unfold cpEdits
  simp only []
  split
  · split
    · unfold Normalize.defaultEdits Normalize.replaceSlow Normalize.replaceFast
      split
      · rfl
      · unfold Normalize.fastGo; rfl
    · rfl
  · split
    · unfold Normalize.psmEdits Normalize.psmGo; rfl
    · unfold Normalize.yomiEdits Normalize.yomiGo; rfl

/-- **`PluginOk` (relative to the UTF-8 invariant) for every bundled input-text plugin**: `TotalIO.plugin a S c` is
`DefaultInputTextPlugin` (`c = 'D'`, any rewrite table, either `earliest` variant), `ProlongedSoundMarkPlugin` (`'P'`, any
marks, any replacement incl. the empty one) or `IgnoreYomiganaPlugin` (anything else, any brackets, any length), over ANY
shipped Unicode facts `a`.  On a buffer whose text is an encoding its byte edits are sorted, non-overlapping, in range
(C07 in code points, `editsOk_bytes`), lie on character starts (`boOf_byteOff`), and the text `resolve_edits` writes is again
an encoding — of C07's code-point result (`goT_encode`). -/
theorem bundled_pluginOkJ (orig : List Nat) (a : Array Normalize.Fact) (S : Normalize.Setup) (c : Char) :
    PluginOkJ Enc orig (TotalIO.plugin a S c) := by
  have key : ∀ (l : List (P Nat)) (es : List (Edit Nat)) (cs : List Nat), textOf l = encode cs →
      TotalIO.plugin a S c (textOf l) = .ok es → es = toByteEdits cs (cpEdits a S c cs) := by
    intro l es cs ht h
    rw [ht, plugin_encode] at h
    split at h
    · cases h
    · cases h; rfl
  constructor
  · intro l es hinv ⟨cs, ht⟩ h
    have hes := key l es cs ht h
    subst hes
    have hlen := shape_length hinv.shape
    have hl : l.length - 1 = (encode cs).length := by rw [← ht]; omega
    refine ⟨?_, ?_⟩
    · rw [hl]
      have := editsOk_bytes cs (cpEdits a S c cs) 0 (cpEdits_ok a S c cs)
      rwa [byteOff_zero] at this
    · intro ed hed
      obtain ⟨e, _, rfl⟩ := List.mem_map.mp hed
      exact ⟨fun hlt => isB_of_boOf hinv.shape _ (by rw [ht]; exact boOf_byteOff cs e.s) hlt,
             fun hlt => isB_of_boOf hinv.shape _ (by rw [ht]; exact boOf_byteOff cs e.e) hlt⟩
  · intro l es hinv ⟨cs, ht⟩ h
    have hes := key l es cs ht h
    subst hes
    have hlen := shape_length hinv.shape
    have hl : l.length - 1 = (encode cs).length := by rw [← ht]; omega
    have hok : EditsOk (l.length - 1) 0 (toByteEdits cs (cpEdits a S c cs)) := by
      rw [hl]
      have := editsOk_bytes cs (cpEdits a S c cs) 0 (cpEdits_ok a S c cs)
      rwa [byteOff_zero] at this
    obtain ⟨t, _, hg⟩ := goT_encode cs (cpEdits a S c cs) 0 (cpEdits_ok a S c cs)
    refine ⟨t, ?_⟩
    rw [textOf_resolve orig.length l hinv.shape _ hok, ht]
    have := hg []
    rwa [byteOff_zero, List.nil_append] at this
  · intro es h
    have h' : TotalIO.plugin a S c (encode []) = .ok es := h
    rw [plugin_encode] at h'
    split at h'
    · cases h'
    · cases h'
      rw [cpEdits_nil]; rfl

/-- the byte text after a bundled plugin's batch is the encoding of C07's code-point result: the link between the byte
model of C01/C03/C08 and the code-point model of C07 -/
theorem bundled_text_eq_applyEdits (orig : List Nat) (a : Array Normalize.Fact) (S : Normalize.Setup) (c : Char)
    (l : List (P Nat)) (cs : List Nat) (es : List (Edit Nat)) (hinv : Inv isStart (BoOf orig) orig.length l)
    (ht : textOf l = encode cs) (h : TotalIO.plugin a S c (textOf l) = .ok es) :
    ∃ t, Normalize.applyEdits (cpEdits a S c cs) cs = some t ∧ textOf (resolve l es) = encode t := by
  have hes : es = toByteEdits cs (cpEdits a S c cs) := by
    rw [ht, plugin_encode] at h
    split at h
    · cases h
    · cases h; rfl
  subst hes
  have hlen := shape_length hinv.shape
  have hl : l.length - 1 = (encode cs).length := by rw [← ht]; omega
  have hok : EditsOk (l.length - 1) 0 (toByteEdits cs (cpEdits a S c cs)) := by
    rw [hl]
    have := editsOk_bytes cs (cpEdits a S c cs) 0 (cpEdits_ok a S c cs)
    rwa [byteOff_zero] at this
  obtain ⟨t, h1, hg⟩ := goT_encode cs (cpEdits a S c cs) 0 (cpEdits_ok a S c cs)
  refine ⟨t, by simpa [Normalize.applyEdits] using h1, ?_⟩
  rw [textOf_resolve orig.length l hinv.shape _ hok, ht]
  have := hg []
  rwa [byteOff_zero, List.nil_append] at this

/-- an input-text plugin of the configuration is one of the bundled ones -/
def Bundled (p : List Nat → Outcome (List (Edit Nat))) : Prop :=
  ∃ (a : Array Normalize.Fact) (S : Normalize.Setup) (c : Char), p = TotalIO.plugin a S c

/-- **what the analysis needs of the plugin stage, for EVERY stack of bundled plugins** on an input that is an encoding
(a `&str`): after the stack the offset map satisfies the C08 invariant (or the text is empty), the text is at most 65535
bytes long, it IS an encoding, and an empty input stays empty -/
theorem bundled_reach (lv : LenV) (orig : List Nat) (horig : ∃ cs, orig = encode cs)
    (ps : List (List Nat → Outcome (List (Edit Nat)))) (hb : ∀ p ∈ ps, Bundled p)
    (l0 l : List (P Nat)) (hs : startBuild orig = some l0) (hr : rewriteInput lv ps l0 = .ok l) :
    BufInv orig l ∧ Enc l ∧ (textOf l0 = [] → textOf l = []) := by
  obtain ⟨cs, hcs⟩ := horig
  have h0 : BoOf orig 0 := by
    have := boOf_byteOff cs 0
    rwa [byteOff_zero, ← hcs] at this
  have hok : ∀ p ∈ ps, PluginOkJ Enc orig p := by
    intro p hp
    obtain ⟨a, S, c, rfl⟩ := hb p hp
    exact bundled_pluginOkJ orig a S c
  have he0 : Enc l0 := by
    refine ⟨cs, ?_⟩
    unfold startBuild at hs
    split at hs
    · cases hs
    · cases hs; rw [textOf_identFrom]; exact hcs
  obtain ⟨r1, r2⟩ := rewriteInput_invJ Enc lv orig h0 ps l0 l hok (startBuild_bufInv orig l0 hs) he0 hr
  exact ⟨r1, r2, fun he => rewriteInput_emptyE lv ps l0 l (fun p hp => (hok p hp).empty) he hr⟩

/-- `hutf` of `C01.tokens_partition_original` from the invariant -/
theorem enc_hutf (l : List (P Nat)) (he : Enc l) (chars : List Nat) (hd : Wire.utf8Decode (textOf l) = some chars) :
    chars.length = nchars (textOf l) := by
  obtain ⟨cs, ht⟩ := he
  rw [ht, decode_encode] at hd
  cases hd
  rw [ht, nchars_encode]

/-- `hutf` of `C03.tokenize_total` from the invariant -/
theorem enc_decodes (l : List (P Nat)) (he : Enc l) : Wire.utf8Decode (textOf l) ≠ none := by
  obtain ⟨cs, ht⟩ := he
  rw [ht, decode_encode]
  exact fun h => by cases h

/-! ## the traced plugin stage of the driver (op `C01 stages`) is `rewriteInput` -/

/-- how a trace ended, as the outcome of `rewriteInput` -/
def endOutcome : Stages.End → List (P Nat) → Outcome (List (P Nat))
  | .done, l => .ok l
  | .tooLong, _ => .err "TooLong"
  | .err k, _ => .err k
  | .panic w, _ => .panic w

/-- **the function the driver executes for a `stages` line ends exactly as `Total.rewriteInput`** (the function of
`tokens_partition_core` and of `C03.tokenize_total`): same buffer when it completes, same error otherwise -/
theorem trace_final (lv : LenV) : ∀ (ps : List (List Nat → Outcome (List (Edit Nat)))) (l : List (P Nat)) (acc : List Stages.Stage),
    rewriteInput lv ps l = endOutcome (Stages.trace lv ps l acc).2.1 (Stages.trace lv ps l acc).2.2
  | [], l, acc => by simp [rewriteInput, Stages.trace, endOutcome]
  | p :: ps, l, acc => by
    unfold rewriteInput Stages.trace
    cases hp : p (textOf l) with
    | err k => simp [endOutcome]
    | panic w => simp [endOutcome]
    | ok es =>
      simp only []
      cases hc : commitV lv l es with
      | none => simp [endOutcome]
      | some l1 => simp only []; exact trace_final lv ps l1 _

/-! ## a concrete bundled plugin for the non-vacuity examples -/

/-- Unicode facts of `A` and `ー` -/
def exFacts : Array Normalize.Fact :=
  #[⟨0x41, true, .yes, 0, false, false, [0x61], [0x41], [0x61]⟩, ⟨0x30FC, false, .yes, 0, false, true, [0x30FC], [0x30FC], [0x30FC]⟩]

/-- no rewrite table; prolonged sound mark `ー` replaced by `ー`; brackets `(` `)`, readings of at most 2 characters -/
def exSetup : Normalize.Setup := ⟨none, false, [0x30FC], [0x30FC], [0x28], [0x29], 2⟩

/-- `ProlongedSoundMarkPlugin` on `ーーA` (7 bytes): one edit, bytes 0..6 replaced by the three bytes of `ー` -/
theorem exPlugin_psm : TotalIO.plugin exFacts exSetup 'P' (encode [0x30FC, 0x30FC, 0x41]) =
    .ok [⟨0, 6, [0xE3, 0x83, 0xBC]⟩] := by
  rw [plugin_encode]
  have h1 : Normalize.covered exFacts [0x30FC, 0x30FC, 0x41] = true := by decide
  have h2 : cpEdits exFacts exSetup 'P' [0x30FC, 0x30FC, 0x41] = [⟨0, 2, [0x30FC]⟩] := by
    simp [cpEdits, exSetup, Normalize.psmEdits, Normalize.psmGo]
  rw [h1, h2]
  have h3 : toByteEdits [0x30FC, 0x30FC, 0x41] [⟨0, 2, [0x30FC]⟩] = [⟨0, 6, [0xE3, 0x83, 0xBC]⟩] := by
    simp [toByteEdits, byteOff, encode, utf8Enc, Normalize.utf8w]
  rw [h3]; rfl

/-! ## the unrestricted `PluginOk` fails for a bundled plugin on a text that is not an encoding -/

/-- the overlong two-byte form of `A`, three times: the model's (lenient) decoder reads `AAA`, but the bytes are not an encoding -/
def overlong : List Nat := [0xC1, 0x81, 0xC1, 0x81, 0xC1, 0x81]

/-- `ProlongedSoundMarkPlugin` with the mark `A` -/
def markA : Normalize.Setup := ⟨none, false, [0x41], [0x41], [0x28], [0x29], 2⟩

/-- on the six overlong bytes the plugin replaces code points 0..3, i.e. BYTES 0..3 (widths of `AAA`) -/
theorem plugin_overlong : TotalIO.plugin exFacts markA 'P' overlong = .ok [⟨0, 3, [0x41]⟩] := by
  unfold TotalIO.plugin overlong
  have hd : Wire.utf8Decode [0xC1, 0x81, 0xC1, 0x81, 0xC1, 0x81] = some [0x41, 0x41, 0x41] := by
    rw [dec2 _ _ _ (by decide) (by decide) (by decide), dec2 _ _ _ (by decide) (by decide) (by decide),
      dec2 _ _ _ (by decide) (by decide) (by decide), Wire.utf8Decode.eq_def]
    rfl
  rw [hd]
  have h1 : Normalize.covered exFacts [0x41, 0x41, 0x41] = true := by decide
  simp only [h1]
  have h2 : Normalize.psmEdits markA.marks markA.rep [0x41, 0x41, 0x41] = [⟨0, 3, [0x41]⟩] := by
    simp [markA, Normalize.psmEdits, Normalize.psmGo]
  simp [h2, TotalIO.toByteEdits, TotalIO.byteOff, TotalIO.encode, TotalIO.utf8Enc, Normalize.utf8w]

/-! ## the partition theorem with the plugin stage abstracted -/

open Oov in
/-- **`tokens_partition_core`** — `C01.tokens_partition_original` with the input-text plugin stage abstracted to what the
rest of the analysis uses of it (`hreach`): after the stack the offset map satisfies the C08 invariant or the text is empty,
the text is at most 65535 bytes long, and an empty input stays empty.  `C01.tokens_partition_original` instantiates `hreach`
from `PluginOk` (any plugins), `C01.tokens_partition_original_bundled` from `bundled_reach` (no plugin hypothesis). -/
theorem tokens_partition_core (lv : LenV) (cfg : Cfg) (orig : List Nat) (horig : BoOf orig 0)
    (hreach : ∀ l0 l, startBuild orig = some l0 → rewriteInput lv cfg.inputPlugins l0 = .ok l →
      BufInv orig l ∧ (textOf l0 = [] → textOf l = []))
    (hutf : ∀ l0 l chars, startBuild orig = some l0 → rewriteInput lv cfg.inputPlugins l0 = .ok l →
      Wire.utf8Decode (textOf l) = some chars → chars.length = nchars (textOf l))
    (rv : Oov.Variant) (bowFix : Bool) (tab : List (Nat × Nat))
    (hmk : ∀ chars, Oov.mkBufV rv bowFix tab chars = some (cfg.mkBuf chars))
    (hrowsz : ∀ chars nodes, Reaches lv cfg orig chars → Oov.buildLattice cfg.providers cfg.lex (cfg.mkBuf chars) = .ok nodes →
      ∀ e, (nodes.map toVit).countP (fun n => n.e == e) ≤ 4294967295)
    (hrew : ∀ (tb2c tc2b : List Nat) (nc nb : Nat) path path', PathOk tb2c tc2b nc nb path → cfg.rewrite path = .ok path' →
      PathOk tb2c tc2b nc nb (path'.map (·.1)))
    (r : Result) (h : tokenize .d6fix lv cfg orig = .ok r) :
    (textOf r.tables = [] ∧ r.morphs = []) ∨
    (textOf r.tables ≠ [] ∧ r.morphs ≠ [] ∧ ∃ acs, accessAll orig r = .ok acs ∧
      IsPartition orig (acs.map (fun a => (a.b, a.e))) ∧
      ∀ a ∈ acs, a.sb = a.b ∧ a.se = a.e ∧ a.bc = nchars (orig.take a.b) ∧ a.ec = nchars (orig.take a.e)) := by
  unfold tokenize at h
  cases h0 : startBuild orig with
  | none => rw [h0] at h; simp at h
  | some l0 =>
    rw [h0] at h; simp only [] at h
    cases h1 : rewriteInput lv cfg.inputPlugins l0 with
    | err k => rw [h1] at h; simp at h
    | panic w' => rw [h1] at h; simp at h
    | ok l =>
      rw [h1] at h; simp only [] at h
      obtain ⟨⟨hbuf, hlen⟩, hemp0⟩ := hreach l0 l h0 h1
      cases h2 : Wire.utf8Decode (textOf l) with
      | none => rw [h2] at h; simp at h
      | some chars =>
        rw [h2] at h; simp only [] at h
        split at h
        · -- no character: no morpheme; the text is empty
          rename_i hemp
          cases h
          left
          refine ⟨?_, rfl⟩
          have hc : chars = [] := by simpa using hemp
          subst hc
          cases ht : textOf l with
          | nil => rfl
          | cons b0 rest => rw [ht] at h2; exact absurd h2 (utf8Decode_cons_ne_nil b0 rest)
        · rename_i hne0
          right
          have hne : chars.isEmpty = false := by
            cases hc : chars.isEmpty with
            | true => exact absurd hc hne0
            | false => rfl
          have hpos : 1 ≤ chars.length := by
            cases chars with
            | nil => simp at hne
            | cons _ _ => simp
          have hr : Reaches lv cfg orig chars := ⟨l0, l, h0, h1, h2⟩
          have hb := mkBufV_ok rv bowFix tab chars (cfg.mkBuf chars) (hmk chars)
          have hnc := hutf l0 l chars h0 h1 h2
          have htne : textOf l ≠ [] := by
            intro hn; rw [hn] at hnc
            have : nchars ([] : List Nat) = 0 := rfl
            omega
          have hinv : Inv isStart (BoOf orig) orig.length l := by
            rcases hbuf with hi | he
            · exact hi
            · exact absurd he htne
          have horne : orig ≠ [] := by
            intro hn
            subst hn
            have e0 : textOf l0 = [] := by
              unfold startBuild at h0
              simp only [List.length_nil, MAX_LENGTH] at h0
              cases h0; rfl
            exact htne (hemp0 e0)
          -- the tables of the rewritten text
          obtain ⟨b0, rest, htb⟩ : ∃ b0 rest, textOf l = b0 :: rest := by
            cases ht : textOf l with
            | nil => exact absurd ht htne
            | cons b0 rest => exact ⟨b0, rest, rfl⟩
          have hs0 : isStart b0 = true := isStart_head_of_utf8 b0 rest chars (by rw [← htb]; exact h2)
          have htab := tablesOk_of_text (textOf l) b0 rest htb hs0
          have hbo0 : BoOf (textOf l) 0 := Or.inr ⟨by rw [htb]; simp, by simp [htb, hs0]⟩
          have hnb : (textOf l).length ≤ 65535 := hlen
          have hncb : nchars (textOf l) ≤ 65535 := by
            have : nchars (textOf l) ≤ (textOf l).length := by unfold nchars; exact List.length_filter_le _ _
            omega
          cases h3 : Oov.buildLattice cfg.providers cfg.lex (cfg.mkBuf chars) with
          | err k => rw [h3] at h; simp at h
          | panic w' => rw [h3] at h; simp at h
          | ok nodes =>
            rw [h3] at h; simp only [] at h
            have hnodes : ∀ n ∈ nodes.map toVit, n.b < n.e ∧ n.e ≤ chars.length := by
              intro n hn
              obtain ⟨x, hx, rfl⟩ := List.mem_map.mp hn
              obtain ⟨a1, a2⟩ := buildLattice_cand cfg.providers cfg.lex (cfg.mkBuf chars) hb.2.1 nodes h3 x hx
              rw [hb.2.2] at a2
              simp only [toVit]
              rw [asU16_id x.b (by omega), asU16_id x.e (by omega)]
              exact ⟨a1, a2⟩
            cases h4 : buildAll addI32 I32_MAX cfg.conn (nodes.map toVit) (reset chars.length) [] with
            | err k => rw [h4] at h; simp at h
            | panic w' => rw [h4] at h; simp at h
            | ok r4 =>
              obtain ⟨rows, ents⟩ := r4
              rw [h4] at h; simp only [] at h
              cases h5 : connectEos addI32 I32_MAX cfg.conn rows chars.length with
              | err k => rw [h5] at h; simp at h
              | panic w' => rw [h5] at h; simp at h
              | ok r5 =>
                obtain ⟨c, pe, pi⟩ := r5
                rw [h5] at h; simp only [] at h
                have hpinv := buildAll_pathInv addI32 cfg.conn chars.length (by omega) (nodes.map toVit) (reset chars.length) []
                  rows ents (reset_pathInv chars.length _ (hrowsz chars nodes hr h3)) hnodes h4
                obtain ⟨hpe, row, p, q1, q2, q3⟩ := connectEos_ptr addI32 cfg.conn chars.length (by omega) rows hpinv c pe pi h5
                rw [hpe] at h
                obtain ⟨es, g1, g2, g3⟩ := topPath_chain chars.length rows hpinv chars.length (chars.length + 1) pi p [] row
                  hpos (by omega) q1 q2 q3
                rw [List.append_nil] at g1
                rw [g1] at h; simp only [] at h
                cases h7 : mapM (resultNode (c2b (textOf l))) es with
                | err k => rw [h7] at h; simp at h
                | panic w' => rw [h7] at h; simp at h
                | ok path =>
                  rw [h7] at h; simp only [] at h
                  rw [hnc] at g2
                  obtain ⟨t1, t2⟩ := resultNodes_tiles (b2c (textOf l)) (c2b (textOf l)) _ _ htab hnb (c2b_last (textOf l))
                    es 0 0 path g2 (c2b_head (textOf l) hbo0) h7
                  have hpath : PathOk (b2c (textOf l)) (c2b (textOf l)) (nchars (textOf l)) (textOf l).length path := ⟨t1, t2⟩
                  cases h8 : cfg.rewrite path with
                  | err k => rw [h8] at h; simp at h
                  | panic w' => rw [h8] at h; simp at h
                  | ok path' =>
                    rw [h8] at h; simp only [] at h
                    obtain ⟨u1, u2⟩ := hrew _ _ _ _ path path' hpath h8
                    cases h9 : splitPath .d6fix (b2c (textOf l)) (c2b (textOf l)) path' with
                    | err k => rw [h9] at h; simp at h
                    | panic w' => rw [h9] at h; simp at h
                    | ok ms =>
                      rw [h9] at h; simp only [] at h
                      cases h
                      have hle : ∀ n ∈ path'.map (·.1), Good (b2c (textOf l)) (c2b (textOf l)) n ∧ n.eb ≤ (textOf l).length := by
                        intro n hn
                        refine ⟨u2 n hn, ?_⟩
                        have hm : n.eb ∈ c2b (textOf l) := List.mem_of_getElem? (u2 n hn).2.2.2.2
                        rcases (c2b_spec (textOf l)).2 n.eb hm with e1 | ⟨e1, _⟩ <;> omega
                      obtain ⟨v1, v2⟩ := splitPath_d6fix_tiles _ _ _ _ htab hnb hncb path' ms 0 0 _ _ h9 u1 hle
                      have hmsne : ms ≠ [] := by
                        intro hn; subst hn
                        obtain ⟨e1, _⟩ := v1
                        omega
                      obtain ⟨acs, w1, w2, w3⟩ := pathOk_partition orig horne horig l hinv _ ms hmsne ⟨v1, v2⟩
                      exact ⟨htne, hmsne, acs, w1, w2, w3⟩

end Utf8Inv
