import Sudachi.Model.Lattice
/-!
# Proofs about the Viterbi lattice (C02)
-/
namespace Vit

variable (conn : Nat → Nat → Int)

def cand (n : Node) (ent : Entry) (v : Int) : Prop :=
  ∃ t, ent.2 = some t ∧ v = t + conn ent.1.r n.l + n.c

/-- fold-min characterisation with an accumulator -/
theorem foldl_stepMin (n : Node) : ∀ (row : List Entry) (acc : Option Int),
    (match row.foldl (stepMin conn n) acc with
     | none => acc = none ∧ ∀ ent ∈ row, ent.2 = none
     | some v => (acc = some v ∨ ∃ ent ∈ row, cand conn n ent v) ∧
                 (∀ a, acc = some a → v ≤ a) ∧ (∀ ent ∈ row, ∀ w, cand conn n ent w → v ≤ w)) := by
  intro row
  induction row with
  | nil =>
    intro acc
    cases acc with
    | none => simp
    | some a => simp
  | cons ent rest ih =>
    intro acc
    simp only [List.foldl]
    have h := ih (stepMin conn n acc ent)
    cases hres : rest.foldl (stepMin conn n) (stepMin conn n acc ent) with
    | none =>
      simp only [hres] at h
      obtain ⟨h1, h2⟩ := h
      -- stepMin = none forces acc = none and ent.2 = none
      unfold stepMin at h1
      cases he : ent.2 with
      | none =>
        simp [he] at h1
        refine ⟨h1, ?_⟩
        intro e' he'
        simp at he'
        rcases he' with rfl | he'
        · exact he
        · exact h2 e' he'
      | some t =>
        simp [he] at h1
        cases acc with
        | none => simp at h1
        | some a => simp at h1; split at h1 <;> simp at h1
    | some v =>
      simp only [hres] at h
      obtain ⟨h1, h2, h3⟩ := h
      cases he : ent.2 with
      | none =>
        have hs : stepMin conn n acc ent = acc := by simp [stepMin, he]
        rw [hs] at h1 h2
        refine ⟨?_, h2, ?_⟩
        · rcases h1 with h1 | ⟨e', he', hc⟩
          · exact Or.inl h1
          · exact Or.inr ⟨e', by simp [he'], hc⟩
        · intro e' he' w hw
          simp at he'
          rcases he' with rfl | he'
          · obtain ⟨t, ht, _⟩ := hw; simp [he] at ht
          · exact h3 e' he' w hw
      | some t =>
        let nc := t + conn ent.1.r n.l + n.c
        have hc0 : cand conn n ent nc := ⟨t, he, rfl⟩
        cases acc with
        | none =>
          have hs : stepMin conn n none ent = some nc := by simp [stepMin, he, nc]
          rw [hs] at h1 h2
          refine ⟨?_, by simp, ?_⟩
          · rcases h1 with h1 | ⟨e', he', hc⟩
            · simp at h1; exact Or.inr ⟨ent, by simp, h1 ▸ hc0⟩
            · exact Or.inr ⟨e', by simp [he'], hc⟩
          · intro e' he' w hw
            simp at he'
            rcases he' with rfl | he'
            · obtain ⟨t', ht', rfl⟩ := hw
              rw [he] at ht'; cases ht'
              exact h2 nc rfl
            · exact h3 e' he' w hw
        | some a =>
          by_cases hlt : nc < a
          · have hs : stepMin conn n (some a) ent = some nc := by simp [stepMin, he, nc, hlt]
            rw [hs] at h1 h2
            refine ⟨?_, ?_, ?_⟩
            · rcases h1 with h1 | ⟨e', he', hc⟩
              · simp at h1; exact Or.inr ⟨ent, by simp, h1 ▸ hc0⟩
              · exact Or.inr ⟨e', by simp [he'], hc⟩
            · intro a' ha'; cases ha'
              have := h2 nc rfl; omega
            · intro e' he' w hw
              simp at he'
              rcases he' with rfl | he'
              · obtain ⟨t', ht', rfl⟩ := hw
                rw [he] at ht'; cases ht'
                exact h2 nc rfl
              · exact h3 e' he' w hw
          · have hs : stepMin conn n (some a) ent = some a := by simp [stepMin, he, nc, hlt]
            rw [hs] at h1 h2
            refine ⟨?_, h2, ?_⟩
            · rcases h1 with h1 | ⟨e', he', hc⟩
              · exact Or.inl h1
              · exact Or.inr ⟨e', by simp [he'], hc⟩
            · intro e' he' w hw
              simp at he'
              rcases he' with rfl | he'
              · obtain ⟨t', ht', rfl⟩ := hw
                rw [he] at ht'; cases ht'
                have := h2 a rfl; omega
              · exact h3 e' he' w hw


/-! ### chains and optimality -/

/-- `Reach F n v`: there is a chain BOS → … → n of candidate nodes from `F` whose accumulated cost is `v` -/
inductive Reach (F : List Node) : Node → Int → Prop
  | bos : Reach F bos 0
  | step {m n : Node} {v : Int} : Reach F m v → n ∈ F → n.b = m.e → Reach F n (v + conn m.r n.l + n.c)

/-- what a stored total must be -/
def Opt (F : List Node) (n : Node) (t : Option Int) : Prop :=
  match t with
  | none => ∀ v, ¬ Reach conn F n v
  | some v => Reach conn F n v ∧ ∀ w, Reach conn F n w → v ≤ w

def WF (F : List Node) : Prop := ∀ n ∈ F, n.b < n.e

theorem reach_node (F : List Node) {n : Node} {v : Int} (h : Reach conn F n v) : n = bos ∨ n ∈ F := by
  cases h with
  | bos => exact Or.inl rfl
  | step _ hn _ => exact Or.inr hn

theorem reach_bos (F : List Node) (hwf : WF F) {v : Int} (h : Reach conn F bos v) : v = 0 := by
  generalize hb : bos = x at h
  cases h with
  | bos => rfl
  | step _ hn hbe =>
    have := hwf _ hn
    rw [← hb] at this hbe
    simp [bos] at this

theorem reach_inv (F : List Node) (hwf : WF F) {n : Node} (hn : n ∈ F) {w : Int}
    (h : Reach conn F n w) : ∃ m v, Reach conn F m v ∧ n.b = m.e ∧ w = v + conn m.r n.l + n.c := by
  cases h with
  | bos => have := hwf _ hn; simp [bos] at this
  | step hm _ hbe => exact ⟨_, _, hm, hbe, rfl⟩

/-- invariant of the partially built lattice; `done` = nodes inserted so far -/
structure Inv (F : List Node) (rows : Rows) (done : List Node) : Prop where
  sound : ∀ e, ∀ ent ∈ rows e, ent.1.e = e ∧ (ent.1 = bos ∨ ent.1 ∈ F) ∧ Opt conn F ent.1 ent.2
  complete : ∀ m, (m = bos ∨ m ∈ done) → ∃ t, (m, t) ∈ rows m.e

theorem inv_init (F : List Node) (hwf : WF F) : Inv conn F init [] := by
  constructor
  · intro e ent hent
    simp only [init] at hent
    split at hent
    · simp at hent; subst hent
      rename_i he
      refine ⟨by simp [bos, he], Or.inl rfl, ?_⟩
      simp only [Opt]
      exact ⟨Reach.bos, fun w hw => by rw [reach_bos conn F hwf hw]; exact Int.le_refl _⟩
    · simp at hent
  · intro m hm
    rcases hm with rfl | hm
    · exact ⟨some 0, by simp [init, bos]⟩
    · simp at hm

/-- the key step: inserting `n` once every candidate ending at `n.b` is already in the lattice -/
theorem inv_insert (F : List Node) (hwf : WF F) (rows : Rows) (done : List Node) (n : Node)
    (hn : n ∈ F) (hinv : Inv conn F rows done)
    (hready : ∀ m ∈ F, m.e = n.b → m ∈ done) :
    Inv conn F (insert conn rows n) (n :: done) := by
  have hbe := hwf n hn
  -- optimality of the new entry
  have hopt : Opt conn F n (connect conn (rows n.b) n) := by
    have hf := foldl_stepMin conn n (rows n.b) none
    unfold connect
    cases hres : (rows n.b).foldl (stepMin conn n) none with
    | none =>
      simp only [hres] at hf
      intro v hv
      obtain ⟨m, v0, hm, hb, _⟩ := reach_inv conn F hwf hn hv
      have hmm : m = bos ∨ m ∈ done := by
        rcases reach_node conn F hm with h | h
        · exact Or.inl h
        · exact Or.inr (hready m h hb.symm)
      obtain ⟨t, ht⟩ := hinv.complete m hmm
      rw [← hb] at ht
      have hnone := hf.2 (m, t) ht
      have hopt := (hinv.sound n.b (m, t) ht).2.2
      simp at hnone; subst hnone
      exact hopt v0 hm
    | some v =>
      simp only [hres] at hf
      obtain ⟨h1, _, h3⟩ := hf
      constructor
      · rcases h1 with h1 | ⟨ent, hent, t, ht, rfl⟩
        · simp at h1
        · obtain ⟨he, _, hopt⟩ := hinv.sound n.b ent hent
          rw [ht] at hopt
          exact Reach.step hopt.1 hn he.symm
      · intro w hw
        obtain ⟨m, v0, hm, hb, rfl⟩ := reach_inv conn F hwf hn hw
        have hmm : m = bos ∨ m ∈ done := by
          rcases reach_node conn F hm with h | h
          · exact Or.inl h
          · exact Or.inr (hready m h hb.symm)
        obtain ⟨t, ht⟩ := hinv.complete m hmm
        rw [← hb] at ht
        have hopt := (hinv.sound n.b (m, t) ht).2.2
        cases t with
        | none => exact absurd hm (hopt v0)
        | some t0 =>
          have hle := hopt.2 v0 hm
          have := h3 (m, some t0) ht (t0 + conn m.r n.l + n.c) ⟨t0, rfl, rfl⟩
          omega
  constructor
  · intro e ent hent
    simp only [insert] at hent
    split at hent
    · rename_i he
      rcases List.mem_append.mp hent with h | h
      · exact hinv.sound e ent h
      · simp at h; subst h
        exact ⟨he.symm, Or.inr hn, hopt⟩
    · exact hinv.sound e ent hent
  · intro m hm
    have hold : (m = bos ∨ m ∈ done) → ∃ t, (m, t) ∈ insert conn rows n m.e := by
      intro h
      obtain ⟨t, ht⟩ := hinv.complete m h
      refine ⟨t, ?_⟩
      simp only [insert]
      split
      · exact List.mem_append.mpr (Or.inl ht)
      · exact ht
    rcases hm with h | h
    · exact hold (Or.inl h)
    · simp at h
      rcases h with rfl | h
      · exact ⟨connect conn (rows m.b) m, by simp [insert]⟩
      · exact hold (Or.inr h)

/-- insertion order of `LatticeBuilder::build_lattice`: when a node is inserted, no later node ends at its begin -/
def Ordered : List Node → Prop
  | [] => True
  | n :: ns => (∀ m ∈ ns, m.e ≠ n.b) ∧ Ordered ns

theorem inv_build (F : List Node) (hwf : WF F) : ∀ (ns done : List Node) (rows : Rows),
    (∀ n ∈ ns, n ∈ F) → (∀ m ∈ F, m ∈ done ∨ m ∈ ns) → Ordered ns → Inv conn F rows done →
    ∃ done', Inv conn F (build conn ns rows) done' ∧ ∀ m ∈ F, m ∈ done' := by
  intro ns
  induction ns with
  | nil =>
    intro done rows _ hall _ hinv
    exact ⟨done, hinv, fun m hm => by simpa using hall m hm⟩
  | cons n ns ih =>
    intro done rows hsub hall hord hinv
    simp only [build]
    have hn : n ∈ F := hsub n (by simp)
    have hready : ∀ m ∈ F, m.e = n.b → m ∈ done := by
      intro m hm he
      rcases hall m hm with h | h
      · exact h
      · simp at h
        rcases h with rfl | h
        · have := hwf m hm; omega
        · exact absurd he (hord.1 m h)
    apply ih (n :: done) _ (fun x hx => hsub x (by simp [hx])) _ hord.2
      (inv_insert conn F hwf rows done n hn hinv hready)
    intro m hm
    rcases hall m hm with h | h
    · exact Or.inl (by simp [h])
    · simp at h
      rcases h with rfl | h
      · exact Or.inl (by simp)
      · exact Or.inr h

/-- C02 core: after building the lattice from candidates `F` (in builder order), every stored total
    is the minimum chain cost to that node (`none` iff unreachable), and every candidate is stored. -/
theorem viterbi_min (F : List Node) (hwf : WF F) (hord : Ordered F) :
    let rows := build conn F init
    (∀ e, ∀ ent ∈ rows e, Opt conn F ent.1 ent.2) ∧ (∀ m ∈ F, ∃ t, (m, t) ∈ rows m.e) := by
  obtain ⟨done', hinv, hall⟩ := inv_build conn F hwf F [] init (fun _ h => h)
    (fun m hm => Or.inr hm) hord (inv_init conn F hwf)
  exact ⟨fun e ent h => (hinv.sound e ent h).2.2, fun m hm => hinv.complete m (Or.inr (hall m hm))⟩



/-- the invariant holds for the fully built lattice -/
theorem build_inv (F : List Node) (hwf : WF F) (hord : Ordered F) :
    ∃ done', Inv conn F (build conn F init) done' ∧ ∀ m ∈ F, m ∈ done' :=
  inv_build conn F hwf F [] init (fun _ h => h) (fun m hm => Or.inr hm) hord (inv_init conn F hwf)

/-- candidates processed position by position (sorted by begin), each non-empty, are `Ordered` -/
theorem ordered_of_sorted : ∀ (F : List Node), WF F → F.Pairwise (fun a b => a.b ≤ b.b) → Ordered F := by
  intro F
  induction F with
  | nil => intro _ _; trivial
  | cons n ns ih =>
    intro hwf hs
    have hs' := List.pairwise_cons.mp hs
    refine ⟨?_, ih (fun m hm => hwf m (by simp [hm])) hs'.2⟩
    intro m hm he
    have h1 := hs'.1 m hm
    have h2 := hwf m (by simp [hm])
    omega

/-! ### the end-of-sentence connection -/

/-- `Complete F len v`: some chain BOS → … → m of candidates ends at the text end and costs `v`
including the connection to EOS -/
def Complete (F : List Node) (len : Nat) (v : Int) : Prop :=
  ∃ m t, Reach conn F m t ∧ m.e = len ∧ v = t + conn m.r 0

theorem eos_opt (F : List Node) (hwf : WF F) (hord : Ordered F) (len : Nat) :
    match eosCost conn (build conn F init) len with
    | none => ∀ v, ¬ Complete conn F len v
    | some v => Complete conn F len v ∧ ∀ w, Complete conn F len w → v ≤ w := by
  obtain ⟨done', hinv, hall⟩ := build_inv conn F hwf hord
  have hf := foldl_stepMin conn (eosNode len) (build conn F init len) none
  have hstored : ∀ m t0, Reach conn F m t0 → m.e = len → ∃ t1, (m, some t1) ∈ build conn F init len ∧ t1 ≤ t0 := by
    intro m t0 hm he
    have hmm : m = bos ∨ m ∈ done' := by
      rcases reach_node conn F hm with h | h
      · exact Or.inl h
      · exact Or.inr (hall m h)
    obtain ⟨t, ht⟩ := hinv.complete m hmm
    rw [he] at ht
    have hopt := (hinv.sound len (m, t) ht).2.2
    cases t with
    | none => exact absurd hm (hopt t0)
    | some t1 => exact ⟨t1, ht, hopt.2 t0 hm⟩
  unfold eosCost connect
  cases hres : (build conn F init len).foldl (stepMin conn (eosNode len)) none with
  | none =>
    simp only [hres] at hf
    intro v ⟨m, t0, hm, he, _⟩
    obtain ⟨t1, ht1, _⟩ := hstored m t0 hm he
    have := hf.2 (m, some t1) ht1
    simp at this
  | some v =>
    simp only [hres] at hf
    obtain ⟨h1, _, h3⟩ := hf
    constructor
    · rcases h1 with h1 | ⟨ent, hent, t, ht, hv⟩
      · simp at h1
      · obtain ⟨he, _, hopt⟩ := hinv.sound len ent hent
        rw [ht] at hopt
        refine ⟨ent.1, t, hopt.1, he, ?_⟩
        simp [eosNode] at hv
        omega
    · intro w ⟨m, t0, hm, he, hw⟩
      obtain ⟨t1, ht1, hle⟩ := hstored m t0 hm he
      have := h3 (m, some t1) ht1 (t1 + conn m.r 0 + 0) ⟨t1, rfl, by simp [eosNode]⟩
      omega

/-! ### explicit candidate sequences -/

/-- `ws` continues a chain whose last node is `prev`: every word is a candidate and begins where
the previous one ended -/
def IsChain (F : List Node) : Node → List Node → Prop
  | _, [] => True
  | prev, n :: rest => n ∈ F ∧ n.b = prev.e ∧ IsChain F n rest

def lastEnd : Node → List Node → Nat
  | prev, [] => prev.e
  | _, n :: rest => lastEnd n rest

theorem chain_complete (F : List Node) : ∀ (ws : List Node) (prev : Node) (t : Int),
    Reach conn F prev t → IsChain F prev ws →
    Complete conn F (lastEnd prev ws) (t + chainCost conn prev ws) := by
  intro ws
  induction ws with
  | nil => intro prev t hr _; exact ⟨prev, t, hr, rfl, rfl⟩
  | cons n rest ih =>
    intro prev t hr hc
    obtain ⟨h1, h2, h3⟩ := hc
    have := ih n _ (Reach.step hr h1 h2) h3
    simp only [lastEnd, chainCost]
    have heq : t + conn prev.r n.l + n.c + chainCost conn n rest = t + (conn prev.r n.l + n.c + chainCost conn n rest) := by omega
    rw [← heq]
    exact this

theorem complete_chain (F : List Node) {m : Node} {t : Int} (h : Reach conn F m t) :
    ∃ ws, IsChain F bos ws ∧ lastEnd bos ws = m.e ∧ (∀ x, t + x = chainCost conn bos ws - conn m.r 0 + x) ∧
      (ws = [] → m = bos) ∧ (∀ hne : ws ≠ [], ws.getLast hne = m) := by
  induction h with
  | bos => exact ⟨[], trivial, rfl, by intro x; simp [chainCost], fun _ => rfl, fun h => absurd rfl h⟩
  | @step m n v hm hn hb ih =>
    obtain ⟨ws, h1, h2, h3, h4, h5⟩ := ih
    -- append n
    have happ : ∀ (ws : List Node) (p : Node), IsChain F p ws → n.b = lastEnd p ws →
        IsChain F p (ws ++ [n]) ∧ lastEnd p (ws ++ [n]) = n.e := by
      intro ws
      induction ws with
      | nil => intro p _ hb'; exact ⟨⟨hn, hb', trivial⟩, rfl⟩
      | cons w rest ihw =>
        intro p hc hb'
        obtain ⟨c1, c2, c3⟩ := hc
        obtain ⟨r1, r2⟩ := ihw w c3 hb'
        exact ⟨⟨c1, c2, r1⟩, r2⟩
    have hcost : ∀ (ws : List Node) (p : Node) (last : Node), (ws = [] → last = p) →
        (∀ hne : ws ≠ [], ws.getLast hne = last) →
        chainCost conn p (ws ++ [n]) = chainCost conn p ws - conn last.r 0 + conn last.r n.l + n.c + conn n.r 0 := by
      intro ws
      induction ws with
      | nil => intro p last hl _; have := hl rfl; subst this; simp [chainCost]
      | cons w rest ihw =>
        intro p last _ hl
        simp only [List.cons_append, chainCost]
        rw [ihw w last (by intro hr; have := hl (by simp); simp [hr] at this; exact this.symm)
          (by intro hne; have := hl (by simp); rw [List.getLast_cons hne] at this; exact this)]
        omega
    obtain ⟨a1, a2⟩ := happ ws bos h1 (by rw [h2]; exact hb)
    refine ⟨ws ++ [n], a1, a2, ?_, by simp, by intro _; simp⟩
    intro x
    rw [hcost ws bos m h4 h5]
    have := h3 0
    omega

/-! ### the vector-of-rows implementation refines the functional lattice -/

theorem rowAt_setRow : ∀ (rs : List (List Entry)) (k : Nat) (r : List Entry) (e : Nat),
    rowAt (setRow rs k r) e = if e = k then r else rowAt rs e := by
  intro rs
  induction rs with
  | nil =>
    intro k
    induction k with
    | zero => intro r e; cases e <;> simp [setRow, rowAt]
    | succ k ih =>
      intro r e
      cases e with
      | zero => simp [setRow, rowAt]
      | succ e =>
        have := ih r e
        simp only [rowAt, setRow, List.getElem?_cons_succ] at this ⊢
        rw [this]; simp
  | cons x xs ih =>
    intro k r e
    cases k with
    | zero => cases e <;> simp [setRow, rowAt]
    | succ k =>
      cases e with
      | zero => simp [setRow, rowAt]
      | succ e =>
        have := ih k r e
        simp only [rowAt, setRow, List.getElem?_cons_succ] at this ⊢
        rw [this]; simp

theorem rowAt_insertL (rs : List (List Entry)) (n : Node) :
    rowAt (insertL conn rs n) = insert conn (rowAt rs) n := by
  funext e
  simp only [insertL, insert, rowAt_setRow]
  split
  · rename_i h; rw [h]
  · rfl

theorem rowAt_initL : rowAt initL = init := by
  funext e
  cases e <;> simp [rowAt, initL, init]

theorem rowAt_buildL : ∀ (ns : List Node) (rs : List (List Entry)),
    rowAt (buildL conn ns rs) = build conn ns (rowAt rs) := by
  intro ns
  induction ns with
  | nil => intro rs; rfl
  | cons n ns ih => intro rs; simp only [buildL, build, ih, rowAt_insertL]

theorem buildT_fst : ∀ (ns : List Node) (rs : List (List Entry)) (acc : List (Option Int)),
    (buildT conn ns rs acc).1 = buildL conn ns rs := by
  intro ns
  induction ns with
  | nil => intro rs acc; rfl
  | cons n ns ih => intro rs acc; simp only [buildT, buildL, ih]

end Vit
