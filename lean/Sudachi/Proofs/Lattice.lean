import Sudachi.Model.Lattice
/-!
# Proofs about the Viterbi lattice (C02)
-/
namespace Vit

variable (conn : Nat → Nat → Int)

def cand (n : Node) (ent : Entry) (v : Int) : Prop :=
  ∃ t, ent.2 = some t ∧ v = t + conn ent.1.r n.l + n.c

/-- fold-min characterisation with an accumulator -/
theorem foldl_stepMin (n : Node) : ∀ (row : List Entry) (acc : Option Int),
    (match row.foldl (stepMin conn n) acc with
     | none => acc = none ∧ ∀ ent ∈ row, ent.2 = none
     | some v => (acc = some v ∨ ∃ ent ∈ row, cand conn n ent v) ∧
                 (∀ a, acc = some a → v ≤ a) ∧ (∀ ent ∈ row, ∀ w, cand conn n ent w → v ≤ w)) := by
  intro row
  induction row with
  | nil =>
    intro acc
    cases acc with
    | none => simp
    | some a => simp
  | cons ent rest ih =>
    intro acc
    simp only [List.foldl]
    have h := ih (stepMin conn n acc ent)
    cases hres : rest.foldl (stepMin conn n) (stepMin conn n acc ent) with
    | none =>
      simp only [hres] at h
      obtain ⟨h1, h2⟩ := h
      -- stepMin = none forces acc = none and ent.2 = none
      unfold stepMin at h1
      cases he : ent.2 with
      | none =>
        simp [he] at h1
        refine ⟨h1, ?_⟩
        intro e' he'
        simp at he'
        rcases he' with rfl | he'
        · exact he
        · exact h2 e' he'
      | some t =>
        simp [he] at h1
        cases acc with
        | none => simp at h1
        | some a => simp at h1; split at h1 <;> simp at h1
    | some v =>
      simp only [hres] at h
      obtain ⟨h1, h2, h3⟩ := h
      cases he : ent.2 with
      | none =>
        have hs : stepMin conn n acc ent = acc := by simp [stepMin, he]
        rw [hs] at h1 h2
        refine ⟨?_, h2, ?_⟩
        · rcases h1 with h1 | ⟨e', he', hc⟩
          · exact Or.inl h1
          · exact Or.inr ⟨e', by simp [he'], hc⟩
        · intro e' he' w hw
          simp at he'
          rcases he' with rfl | he'
          · obtain ⟨t, ht, _⟩ := hw; simp [he] at ht
          · exact h3 e' he' w hw
      | some t =>
        let nc := t + conn ent.1.r n.l + n.c
        have hc0 : cand conn n ent nc := ⟨t, he, rfl⟩
        cases acc with
        | none =>
          have hs : stepMin conn n none ent = some nc := by simp [stepMin, he, nc]
          rw [hs] at h1 h2
          refine ⟨?_, by simp, ?_⟩
          · rcases h1 with h1 | ⟨e', he', hc⟩
            · simp at h1; exact Or.inr ⟨ent, by simp, h1 ▸ hc0⟩
            · exact Or.inr ⟨e', by simp [he'], hc⟩
          · intro e' he' w hw
            simp at he'
            rcases he' with rfl | he'
            · obtain ⟨t', ht', rfl⟩ := hw
              rw [he] at ht'; cases ht'
              exact h2 nc rfl
            · exact h3 e' he' w hw
        | some a =>
          by_cases hlt : nc < a
          · have hs : stepMin conn n (some a) ent = some nc := by simp [stepMin, he, nc, hlt]
            rw [hs] at h1 h2
            refine ⟨?_, ?_, ?_⟩
            · rcases h1 with h1 | ⟨e', he', hc⟩
              · simp at h1; exact Or.inr ⟨ent, by simp, h1 ▸ hc0⟩
              · exact Or.inr ⟨e', by simp [he'], hc⟩
            · intro a' ha'; cases ha'
              have := h2 nc rfl; omega
            · intro e' he' w hw
              simp at he'
              rcases he' with rfl | he'
              · obtain ⟨t', ht', rfl⟩ := hw
                rw [he] at ht'; cases ht'
                exact h2 nc rfl
              · exact h3 e' he' w hw
          · have hs : stepMin conn n (some a) ent = some a := by simp [stepMin, he, nc, hlt]
            rw [hs] at h1 h2
            refine ⟨?_, h2, ?_⟩
            · rcases h1 with h1 | ⟨e', he', hc⟩
              · exact Or.inl h1
              · exact Or.inr ⟨e', by simp [he'], hc⟩
            · intro e' he' w hw
              simp at he'
              rcases he' with rfl | he'
              · obtain ⟨t', ht', rfl⟩ := hw
                rw [he] at ht'; cases ht'
                have := h2 a rfl; omega
              · exact h3 e' he' w hw


/-! ### chains and optimality -/

/-- `Reach F n v`: there is a chain BOS → … → n of candidate nodes from `F` whose accumulated cost is `v` -/
inductive Reach (F : List Node) : Node → Int → Prop
  | bos : Reach F bos 0
  | step {m n : Node} {v : Int} : Reach F m v → n ∈ F → n.b = m.e → Reach F n (v + conn m.r n.l + n.c)

/-- what a stored total must be -/
def Opt (F : List Node) (n : Node) (t : Option Int) : Prop :=
  match t with
  | none => ∀ v, ¬ Reach conn F n v
  | some v => Reach conn F n v ∧ ∀ w, Reach conn F n w → v ≤ w

def WF (F : List Node) : Prop := ∀ n ∈ F, n.b < n.e

theorem reach_node (F : List Node) {n : Node} {v : Int} (h : Reach conn F n v) : n = bos ∨ n ∈ F := by
  cases h with
  | bos => exact Or.inl rfl
  | step _ hn _ => exact Or.inr hn

theorem reach_bos (F : List Node) (hwf : WF F) {v : Int} (h : Reach conn F bos v) : v = 0 := by
  generalize hb : bos = x at h
  cases h with
  | bos => rfl
  | step _ hn hbe =>
    have := hwf _ hn
    rw [← hb] at this hbe
    simp [bos] at this

theorem reach_inv (F : List Node) (hwf : WF F) {n : Node} (hn : n ∈ F) {w : Int}
    (h : Reach conn F n w) : ∃ m v, Reach conn F m v ∧ n.b = m.e ∧ w = v + conn m.r n.l + n.c := by
  cases h with
  | bos => have := hwf _ hn; simp [bos] at this
  | step hm _ hbe => exact ⟨_, _, hm, hbe, rfl⟩

/-- invariant of the partially built lattice; `done` = nodes inserted so far -/
structure Inv (F : List Node) (rows : Rows) (done : List Node) : Prop where
  sound : ∀ e, ∀ ent ∈ rows e, ent.1.e = e ∧ (ent.1 = bos ∨ ent.1 ∈ F) ∧ Opt conn F ent.1 ent.2
  complete : ∀ m, (m = bos ∨ m ∈ done) → ∃ t, (m, t) ∈ rows m.e

theorem inv_init (F : List Node) (hwf : WF F) : Inv conn F init [] := by
  constructor
  · intro e ent hent
    simp only [init] at hent
    split at hent
    · simp at hent; subst hent
      rename_i he
      refine ⟨by simp [bos, he], Or.inl rfl, ?_⟩
      simp only [Opt]
      exact ⟨Reach.bos, fun w hw => by rw [reach_bos conn F hwf hw]; exact Int.le_refl _⟩
    · simp at hent
  · intro m hm
    rcases hm with rfl | hm
    · exact ⟨some 0, by simp [init, bos]⟩
    · simp at hm

/-- the key step: inserting `n` once every candidate ending at `n.b` is already in the lattice -/
theorem inv_insert (F : List Node) (hwf : WF F) (rows : Rows) (done : List Node) (n : Node)
    (hn : n ∈ F) (hinv : Inv conn F rows done)
    (hready : ∀ m ∈ F, m.e = n.b → m ∈ done) :
    Inv conn F (insert conn rows n) (n :: done) := by
  have hbe := hwf n hn
  -- optimality of the new entry
  have hopt : Opt conn F n (connect conn (rows n.b) n) := by
    have hf := foldl_stepMin conn n (rows n.b) none
    unfold connect
    cases hres : (rows n.b).foldl (stepMin conn n) none with
    | none =>
      simp only [hres] at hf
      intro v hv
      obtain ⟨m, v0, hm, hb, _⟩ := reach_inv conn F hwf hn hv
      have hmm : m = bos ∨ m ∈ done := by
        rcases reach_node conn F hm with h | h
        · exact Or.inl h
        · exact Or.inr (hready m h hb.symm)
      obtain ⟨t, ht⟩ := hinv.complete m hmm
      rw [← hb] at ht
      have hnone := hf.2 (m, t) ht
      have hopt := (hinv.sound n.b (m, t) ht).2.2
      simp at hnone; subst hnone
      exact hopt v0 hm
    | some v =>
      simp only [hres] at hf
      obtain ⟨h1, _, h3⟩ := hf
      constructor
      · rcases h1 with h1 | ⟨ent, hent, t, ht, rfl⟩
        · simp at h1
        · obtain ⟨he, _, hopt⟩ := hinv.sound n.b ent hent
          rw [ht] at hopt
          exact Reach.step hopt.1 hn he.symm
      · intro w hw
        obtain ⟨m, v0, hm, hb, rfl⟩ := reach_inv conn F hwf hn hw
        have hmm : m = bos ∨ m ∈ done := by
          rcases reach_node conn F hm with h | h
          · exact Or.inl h
          · exact Or.inr (hready m h hb.symm)
        obtain ⟨t, ht⟩ := hinv.complete m hmm
        rw [← hb] at ht
        have hopt := (hinv.sound n.b (m, t) ht).2.2
        cases t with
        | none => exact absurd hm (hopt v0)
        | some t0 =>
          have hle := hopt.2 v0 hm
          have := h3 (m, some t0) ht (t0 + conn m.r n.l + n.c) ⟨t0, rfl, rfl⟩
          omega
  constructor
  · intro e ent hent
    simp only [insert] at hent
    split at hent
    · rename_i he
      rcases List.mem_append.mp hent with h | h
      · exact hinv.sound e ent h
      · simp at h; subst h
        exact ⟨he.symm, Or.inr hn, hopt⟩
    · exact hinv.sound e ent hent
  · intro m hm
    have hold : (m = bos ∨ m ∈ done) → ∃ t, (m, t) ∈ insert conn rows n m.e := by
      intro h
      obtain ⟨t, ht⟩ := hinv.complete m h
      refine ⟨t, ?_⟩
      simp only [insert]
      split
      · exact List.mem_append.mpr (Or.inl ht)
      · exact ht
    rcases hm with h | h
    · exact hold (Or.inl h)
    · simp at h
      rcases h with rfl | h
      · exact ⟨connect conn (rows m.b) m, by simp [insert]⟩
      · exact hold (Or.inr h)

/-- insertion order of `LatticeBuilder::build_lattice`: when a node is inserted, no later node ends at its begin -/
def Ordered : List Node → Prop
  | [] => True
  | n :: ns => (∀ m ∈ ns, m.e ≠ n.b) ∧ Ordered ns

theorem inv_build (F : List Node) (hwf : WF F) : ∀ (ns done : List Node) (rows : Rows),
    (∀ n ∈ ns, n ∈ F) → (∀ m ∈ F, m ∈ done ∨ m ∈ ns) → Ordered ns → Inv conn F rows done →
    ∃ done', Inv conn F (build conn ns rows) done' ∧ ∀ m ∈ F, m ∈ done' := by
  intro ns
  induction ns with
  | nil =>
    intro done rows _ hall _ hinv
    exact ⟨done, hinv, fun m hm => by simpa using hall m hm⟩
  | cons n ns ih =>
    intro done rows hsub hall hord hinv
    simp only [build]
    have hn : n ∈ F := hsub n (by simp)
    have hready : ∀ m ∈ F, m.e = n.b → m ∈ done := by
      intro m hm he
      rcases hall m hm with h | h
      · exact h
      · simp at h
        rcases h with rfl | h
        · have := hwf m hm; omega
        · exact absurd he (hord.1 m h)
    apply ih (n :: done) _ (fun x hx => hsub x (by simp [hx])) _ hord.2
      (inv_insert conn F hwf rows done n hn hinv hready)
    intro m hm
    rcases hall m hm with h | h
    · exact Or.inl (by simp [h])
    · simp at h
      rcases h with rfl | h
      · exact Or.inl (by simp)
      · exact Or.inr h

/-- C02 core: after building the lattice from candidates `F` (in builder order), every stored total
    is the minimum chain cost to that node (`none` iff unreachable), and every candidate is stored. -/
theorem viterbi_min (F : List Node) (hwf : WF F) (hord : Ordered F) :
    let rows := build conn F init
    (∀ e, ∀ ent ∈ rows e, Opt conn F ent.1 ent.2) ∧ (∀ m ∈ F, ∃ t, (m, t) ∈ rows m.e) := by
  obtain ⟨done', hinv, hall⟩ := inv_build conn F hwf F [] init (fun _ h => h)
    (fun m hm => Or.inr hm) hord (inv_init conn F hwf)
  exact ⟨fun e ent h => (hinv.sound e ent h).2.2, fun m hm => hinv.complete m (Or.inr (hall m hm))⟩



/-- the invariant holds for the fully built lattice -/
theorem build_inv (F : List Node) (hwf : WF F) (hord : Ordered F) :
    ∃ done', Inv conn F (build conn F init) done' ∧ ∀ m ∈ F, m ∈ done' :=
  inv_build conn F hwf F [] init (fun _ h => h) (fun m hm => Or.inr hm) hord (inv_init conn F hwf)

/-- candidates processed position by position (sorted by begin), each non-empty, are `Ordered` -/
theorem ordered_of_sorted : ∀ (F : List Node), WF F → F.Pairwise (fun a b => a.b ≤ b.b) → Ordered F := by
  intro F
  induction F with
  | nil => intro _ _; trivial
  | cons n ns ih =>
    intro hwf hs
    have hs' := List.pairwise_cons.mp hs
    refine ⟨?_, ih (fun m hm => hwf m (by simp [hm])) hs'.2⟩
    intro m hm he
    have h1 := hs'.1 m hm
    have h2 := hwf m (by simp [hm])
    omega

/-! ### the end-of-sentence connection -/

/-- `Complete F len v`: some chain BOS → … → m of candidates ends at the text end and costs `v`
including the connection to EOS -/
def Complete (F : List Node) (len : Nat) (v : Int) : Prop :=
  ∃ m t, Reach conn F m t ∧ m.e = len ∧ v = t + conn m.r 0

theorem eos_opt (F : List Node) (hwf : WF F) (hord : Ordered F) (len : Nat) :
    match eosCost conn (build conn F init) len with
    | none => ∀ v, ¬ Complete conn F len v
    | some v => Complete conn F len v ∧ ∀ w, Complete conn F len w → v ≤ w := by
  obtain ⟨done', hinv, hall⟩ := build_inv conn F hwf hord
  have hf := foldl_stepMin conn (eosNode len) (build conn F init len) none
  have hstored : ∀ m t0, Reach conn F m t0 → m.e = len → ∃ t1, (m, some t1) ∈ build conn F init len ∧ t1 ≤ t0 := by
    intro m t0 hm he
    have hmm : m = bos ∨ m ∈ done' := by
      rcases reach_node conn F hm with h | h
      · exact Or.inl h
      · exact Or.inr (hall m h)
    obtain ⟨t, ht⟩ := hinv.complete m hmm
    rw [he] at ht
    have hopt := (hinv.sound len (m, t) ht).2.2
    cases t with
    | none => exact absurd hm (hopt t0)
    | some t1 => exact ⟨t1, ht, hopt.2 t0 hm⟩
  unfold eosCost connect
  cases hres : (build conn F init len).foldl (stepMin conn (eosNode len)) none with
  | none =>
    simp only [hres] at hf
    intro v ⟨m, t0, hm, he, _⟩
    obtain ⟨t1, ht1, _⟩ := hstored m t0 hm he
    have := hf.2 (m, some t1) ht1
    simp at this
  | some v =>
    simp only [hres] at hf
    obtain ⟨h1, _, h3⟩ := hf
    constructor
    · rcases h1 with h1 | ⟨ent, hent, t, ht, hv⟩
      · simp at h1
      · obtain ⟨he, _, hopt⟩ := hinv.sound len ent hent
        rw [ht] at hopt
        refine ⟨ent.1, t, hopt.1, he, ?_⟩
        simp [eosNode] at hv
        omega
    · intro w ⟨m, t0, hm, he, hw⟩
      obtain ⟨t1, ht1, hle⟩ := hstored m t0 hm he
      have := h3 (m, some t1) ht1 (t1 + conn m.r 0 + 0) ⟨t1, rfl, by simp [eosNode]⟩
      omega

/-! ### explicit candidate sequences -/

/-- `ws` continues a chain whose last node is `prev`: every word is a candidate and begins where
the previous one ended -/
def IsChain (F : List Node) : Node → List Node → Prop
  | _, [] => True
  | prev, n :: rest => n ∈ F ∧ n.b = prev.e ∧ IsChain F n rest

def lastEnd : Node → List Node → Nat
  | prev, [] => prev.e
  | _, n :: rest => lastEnd n rest

theorem chain_complete (F : List Node) : ∀ (ws : List Node) (prev : Node) (t : Int),
    Reach conn F prev t → IsChain F prev ws →
    Complete conn F (lastEnd prev ws) (t + chainCost conn prev ws) := by
  intro ws
  induction ws with
  | nil => intro prev t hr _; exact ⟨prev, t, hr, rfl, rfl⟩
  | cons n rest ih =>
    intro prev t hr hc
    obtain ⟨h1, h2, h3⟩ := hc
    have := ih n _ (Reach.step hr h1 h2) h3
    simp only [lastEnd, chainCost]
    have heq : t + conn prev.r n.l + n.c + chainCost conn n rest = t + (conn prev.r n.l + n.c + chainCost conn n rest) := by omega
    rw [← heq]
    exact this

theorem complete_chain (F : List Node) {m : Node} {t : Int} (h : Reach conn F m t) :
    ∃ ws, IsChain F bos ws ∧ lastEnd bos ws = m.e ∧ (∀ x, t + x = chainCost conn bos ws - conn m.r 0 + x) ∧
      (ws = [] → m = bos) ∧ (∀ hne : ws ≠ [], ws.getLast hne = m) := by
  induction h with
  | bos => exact ⟨[], trivial, rfl, by intro x; simp [chainCost], fun _ => rfl, fun h => absurd rfl h⟩
  | @step m n v hm hn hb ih =>
    obtain ⟨ws, h1, h2, h3, h4, h5⟩ := ih
    -- append n
    have happ : ∀ (ws : List Node) (p : Node), IsChain F p ws → n.b = lastEnd p ws →
        IsChain F p (ws ++ [n]) ∧ lastEnd p (ws ++ [n]) = n.e := by
      intro ws
      induction ws with
      | nil => intro p _ hb'; exact ⟨⟨hn, hb', trivial⟩, rfl⟩
      | cons w rest ihw =>
        intro p hc hb'
        obtain ⟨c1, c2, c3⟩ := hc
        obtain ⟨r1, r2⟩ := ihw w c3 hb'
        exact ⟨⟨c1, c2, r1⟩, r2⟩
    have hcost : ∀ (ws : List Node) (p : Node) (last : Node), (ws = [] → last = p) →
        (∀ hne : ws ≠ [], ws.getLast hne = last) →
        chainCost conn p (ws ++ [n]) = chainCost conn p ws - conn last.r 0 + conn last.r n.l + n.c + conn n.r 0 := by
      intro ws
      induction ws with
      | nil => intro p last hl _; have := hl rfl; subst this; simp [chainCost]
      | cons w rest ihw =>
        intro p last _ hl
        simp only [List.cons_append, chainCost]
        rw [ihw w last (by intro hr; have := hl (by simp); simp [hr] at this; exact this.symm)
          (by intro hne; have := hl (by simp); rw [List.getLast_cons hne] at this; exact this)]
        omega
    obtain ⟨a1, a2⟩ := happ ws bos h1 (by rw [h2]; exact hb)
    refine ⟨ws ++ [n], a1, a2, ?_, by simp, by intro _; simp⟩
    intro x
    rw [hcost ws bos m h4 h5]
    have := h3 0
    omega

/-! ### the vector-of-rows implementation refines the functional lattice -/

theorem rowAt_setRow : ∀ (rs : List (List Entry)) (k : Nat) (r : List Entry) (e : Nat),
    rowAt (setRow rs k r) e = if e = k then r else rowAt rs e := by
  intro rs
  induction rs with
  | nil =>
    intro k
    induction k with
    | zero => intro r e; cases e <;> simp [setRow, rowAt]
    | succ k ih =>
      intro r e
      cases e with
      | zero => simp [setRow, rowAt]
      | succ e =>
        have := ih r e
        simp only [rowAt, setRow, List.getElem?_cons_succ] at this ⊢
        rw [this]; simp
  | cons x xs ih =>
    intro k r e
    cases k with
    | zero => cases e <;> simp [setRow, rowAt]
    | succ k =>
      cases e with
      | zero => simp [setRow, rowAt]
      | succ e =>
        have := ih k r e
        simp only [rowAt, setRow, List.getElem?_cons_succ] at this ⊢
        rw [this]; simp

theorem rowAt_insertL (rs : List (List Entry)) (n : Node) :
    rowAt (insertL conn rs n) = insert conn (rowAt rs) n := by
  funext e
  simp only [insertL, insert, rowAt_setRow]
  split
  · rename_i h; rw [h]
  · rfl

theorem rowAt_initL : rowAt initL = init := by
  funext e
  cases e <;> simp [rowAt, initL, init]

theorem rowAt_buildL : ∀ (ns : List Node) (rs : List (List Entry)),
    rowAt (buildL conn ns rs) = build conn ns (rowAt rs) := by
  intro ns
  induction ns with
  | nil => intro rs; rfl
  | cons n ns ih => intro rs; simp only [buildL, build, ih, rowAt_insertL]

theorem buildT_fst : ∀ (ns : List Node) (rs : List (List Entry)) (acc : List (Option Int)),
    (buildT conn ns rs acc).1 = buildL conn ns rs := by
  intro ns
  induction ns with
  | nil => intro rs acc; rfl
  | cons n ns ih => intro rs acc; simp only [buildT, buildL, ih]

/-! ### back-pointers: `argmin` (the index half of `connect_node`) -/

/-- entry `j` of the row is connected to BOS and offers the cumulative cost `w` to `n` -/
def candAt (row : List Entry) (n : Node) (j : Nat) (w : Int) : Prop :=
  ∃ m t, row[j]? = some (m, some t) ∧ w = t + conn m.r n.l + n.c

theorem candAt_zero (ent : Entry) (rest : List Entry) (n : Node) (w : Int) :
    candAt conn (ent :: rest) n 0 w ↔ cand conn n ent w := by
  obtain ⟨m, o⟩ := ent
  simp only [candAt, cand, List.getElem?_cons_zero, Option.some.injEq, Prod.mk.injEq]
  constructor
  · rintro ⟨m', t, ⟨rfl, rfl⟩, hw⟩; exact ⟨t, rfl, hw⟩
  · rintro ⟨t, ht, hw⟩; exact ⟨m, t, ⟨rfl, ht⟩, hw⟩

theorem candAt_succ (ent : Entry) (rest : List Entry) (n : Node) (j : Nat) (w : Int) :
    candAt conn (ent :: rest) n (j + 1) w ↔ candAt conn rest n j w := by
  simp [candAt]

theorem candAt_cand {row : List Entry} {n : Node} {j : Nat} {w : Int} (h : candAt conn row n j w) :
    ∃ ent ∈ row, cand conn n ent w := by
  obtain ⟨m, t, hj, hw⟩ := h
  exact ⟨(m, some t), List.mem_of_getElem? hj, t, rfl, hw⟩

/-- the cost component of `argminGo` is the `stepMin` fold of `connect` -/
theorem argminGo_snd (n : Node) : ∀ (row : List Entry) (k : Nat) (best : Option (Nat × Int)),
    (argminGo conn n row k best).map (·.2) = row.foldl (stepMin conn n) (best.map (·.2)) := by
  intro row
  induction row with
  | nil => intro k best; rfl
  | cons ent rest ih =>
    intro k best
    simp only [argminGo, List.foldl]
    cases he : ent.2 with
    | none =>
      have hs : stepMin conn n (best.map (·.2)) ent = best.map (·.2) := by simp [stepMin, he]
      rw [hs]; exact ih (k + 1) best
    | some t =>
      cases best with
      | none =>
        have hs : stepMin conn n (Option.map (·.2) (none : Option (Nat × Int))) ent
            = Option.map (·.2) (some (k, t + conn ent.1.r n.l + n.c)) := by simp [stepMin, he]
        rw [hs]; exact ih (k + 1) _
      | some jm =>
        obtain ⟨j, m⟩ := jm
        by_cases hlt : t + conn ent.1.r n.l + n.c < m
        · have hs : stepMin conn n (Option.map (·.2) (some (j, m))) ent
              = Option.map (·.2) (some (k, t + conn ent.1.r n.l + n.c)) := by simp [stepMin, he, hlt]
          rw [hs]; simp only [hlt, if_true]; exact ih (k + 1) _
        · have hs : stepMin conn n (Option.map (·.2) (some (j, m))) ent
              = Option.map (·.2) (some (j, m)) := by simp [stepMin, he, hlt]
          rw [hs]; simp only [hlt, if_false]; exact ih (k + 1) _

/-- the index component: either the incoming best survives, or the result is the FIRST position of
the row that beats the incoming best and is not beaten later (strict `<` in the Rust loop) -/
theorem argminGo_idx (n : Node) : ∀ (row : List Entry) (k : Nat) (best : Option (Nat × Int)) (i : Nat) (v : Int),
    argminGo conn n row k best = some (i, v) →
    best = some (i, v) ∨
    ∃ j, i = k + j ∧ candAt conn row n j v ∧ (∀ a, best = some a → v < a.2) ∧
      ∀ j' w, j' < j → candAt conn row n j' w → v < w := by
  intro row
  induction row with
  | nil => intro k best i v h; exact Or.inl h
  | cons ent rest ih =>
    intro k best i v h
    simp only [argminGo] at h
    -- lift a result found in `rest` (at offset k+1) to the whole row
    have lift : ∀ (best' : Option (Nat × Int)) (j : Nat), i = k + 1 + j → candAt conn rest n j v →
        (∀ j' w, j' < j → candAt conn rest n j' w → v < w) →
        (∀ w, cand conn n ent w → v < w) → (∀ a, best = some a → v < a.2) →
        ∃ j, i = k + j ∧ candAt conn (ent :: rest) n j v ∧ (∀ a, best = some a → v < a.2) ∧
          ∀ j' w, j' < j → candAt conn (ent :: rest) n j' w → v < w := by
      intro _ j hi hc hfirst hent hb
      refine ⟨j + 1, by omega, (candAt_succ conn ent rest n j v).mpr hc, hb, ?_⟩
      intro j' w hj' hw
      cases j' with
      | zero => exact hent w ((candAt_zero conn ent rest n w).mp hw)
      | succ j'' => exact hfirst j'' w (by omega) ((candAt_succ conn ent rest n j'' w).mp hw)
    cases he : ent.2 with
    | none =>
      simp only [he] at h
      rcases ih (k + 1) best i v h with hb | ⟨j, hi, hc, hb, hfirst⟩
      · exact Or.inl hb
      · refine Or.inr (lift best j hi hc hfirst ?_ hb)
        intro w ⟨t, ht, _⟩; rw [he] at ht; cases ht
    | some t =>
      simp only [he] at h
      have hent : ∀ w, cand conn n ent w → w = t + conn ent.1.r n.l + n.c := by
        intro w ⟨t', ht', hw⟩; rw [he] at ht'; cases ht'; exact hw
      have hhere : candAt conn (ent :: rest) n 0 (t + conn ent.1.r n.l + n.c) :=
        (candAt_zero conn ent rest n _).mpr ⟨t, he, rfl⟩
      cases best with
      | none =>
        simp only at h
        rcases ih (k + 1) _ i v h with hb | ⟨j, hi, hc, hb, hfirst⟩
        · simp only [Option.some.injEq, Prod.mk.injEq] at hb
          obtain ⟨rfl, rfl⟩ := hb
          exact Or.inr ⟨0, rfl, hhere, by simp, by intro j' w hj'; omega⟩
        · refine Or.inr (lift none j hi hc hfirst ?_ (by simp))
          intro w hw; rw [hent w hw]; exact hb _ rfl
      | some jm =>
        obtain ⟨j0, m⟩ := jm
        simp only at h
        by_cases hlt : t + conn ent.1.r n.l + n.c < m
        · simp only [hlt, if_true] at h
          rcases ih (k + 1) _ i v h with hb | ⟨j, hi, hc, hb, hfirst⟩
          · simp only [Option.some.injEq, Prod.mk.injEq] at hb
            obtain ⟨rfl, rfl⟩ := hb
            refine Or.inr ⟨0, rfl, hhere, ?_, by intro j' w hj'; omega⟩
            intro a ha; cases ha; exact hlt
          · have hv := hb _ rfl
            refine Or.inr (lift (some (j0, m)) j hi hc hfirst ?_ ?_)
            · intro w hw; rw [hent w hw]; exact hv
            · intro a ha; cases ha; simp only at hv ⊢; omega
        · simp only [hlt, if_false] at h
          rcases ih (k + 1) _ i v h with hb | ⟨j, hi, hc, hb, hfirst⟩
          · exact Or.inl hb
          · have hv := hb _ rfl
            refine Or.inr (lift (some (j0, m)) j hi hc hfirst ?_ hb)
            intro w hw; rw [hent w hw]; simp only at hv; omega

/-- `argmin` reports the cost that `connect` reports -/
theorem argmin_connect (row : List Entry) (n : Node) :
    (argmin conn row n).map (·.2) = connect conn row n :=
  argminGo_snd conn n row 0 none

/-- the back-pointer: a connected entry of the row offering exactly the reported cost, no entry
offers less, and every earlier entry offers strictly more -/
theorem argmin_some (row : List Entry) (n : Node) (i : Nat) (v : Int) (h : argmin conn row n = some (i, v)) :
    candAt conn row n i v ∧ (∀ j w, candAt conn row n j w → v ≤ w) ∧
    (∀ j w, j < i → candAt conn row n j w → v < w) := by
  have hc : connect conn row n = some v := by rw [← argmin_connect, h]; rfl
  have hf := foldl_stepMin conn n row none
  unfold connect at hc
  rw [hc] at hf
  rcases argminGo_idx conn n row 0 none i v h with hb | ⟨j, hi, hcand, _, hfirst⟩
  · cases hb
  · have : i = j := by omega
    subst this
    refine ⟨hcand, ?_, hfirst⟩
    intro j' w hw
    obtain ⟨ent, hent, hce⟩ := candAt_cand conn hw
    exact hf.2.2 ent hent w hce

theorem connect_argmin (row : List Entry) (n : Node) (v : Int) (h : connect conn row n = some v) :
    ∃ i, argmin conn row n = some (i, v) := by
  have := argmin_connect conn row n
  rw [h] at this
  cases ha : argmin conn row n with
  | none => rw [ha] at this; cases this
  | some iv =>
    obtain ⟨i, w⟩ := iv
    rw [ha] at this
    simp only [Option.map_some, Option.some.injEq] at this
    exact ⟨i, by rw [this]⟩

/-! ### stored totals are `connect` over the FINAL rows -/

theorem insert_other (rows : Rows) (n : Node) (e : Nat) (h : e ≠ n.e) : insert conn rows n e = rows e := by
  simp [insert, h]

/-- rows at `n.b` do not change after `n` was inserted: by the insertion order no later node ends there -/
theorem stored_build : ∀ (ns : List Node) (rows : Rows), (∀ n ∈ ns, n.b < n.e) → Ordered ns →
    (∀ e, ∀ ent ∈ rows e, ent.1 ≠ bos →
      ent.2 = connect conn (rows ent.1.b) ent.1 ∧ ∀ n ∈ ns, n.e ≠ ent.1.b) →
    ∀ e, ∀ ent ∈ build conn ns rows e, ent.1 ≠ bos →
      ent.2 = connect conn (build conn ns rows ent.1.b) ent.1 := by
  intro ns
  induction ns with
  | nil => intro rows _ _ h e ent hent hne; exact (h e ent hent hne).1
  | cons n ns ih =>
    intro rows hwf hord h
    simp only [build]
    apply ih (insert conn rows n) (fun x hx => hwf x (by simp [hx])) hord.2
    intro e ent hent hne
    have hnbe := hwf n (by simp)
    have old : ent ∈ rows e → ent.2 = connect conn (insert conn rows n ent.1.b) ent.1 ∧ ∀ n' ∈ ns, n'.e ≠ ent.1.b := by
      intro ho
      obtain ⟨h1, h2⟩ := h e ent ho hne
      have hb : ent.1.b ≠ n.e := fun hc => h2 n (by simp) hc.symm
      rw [insert_other conn rows n _ hb]
      exact ⟨h1, fun n' hn' => h2 n' (by simp [hn'])⟩
    simp only [insert] at hent
    split at hent
    · rcases List.mem_append.mp hent with ho | hnew
      · exact old ho
      · simp only [List.mem_singleton] at hnew
        subst hnew
        simp only
        rw [insert_other conn rows n _ (by omega)]
        exact ⟨rfl, fun m hm => hord.1 m hm⟩
    · exact old hent

theorem stored_total (F : List Node) (hwf : WF F) (hord : Ordered F) :
    ∀ e, ∀ ent ∈ build conn F init e, ent.1 ≠ bos →
      ent.2 = connect conn (build conn F init ent.1.b) ent.1 := by
  apply stored_build conn F init hwf hord
  intro e ent hent hne
  simp only [init] at hent
  split at hent
  · simp only [List.mem_singleton] at hent; subst hent; exact absurd rfl hne
  · cases hent

/-! ### following the back-pointers (`fill_top_path`) -/

/-- word costs and connection costs along a chain continuing `prev`, WITHOUT the connection to EOS
(what `VNode.total_cost` of the last node holds) -/
def prefixCost : Node → List Node → Int
  | _, [] => 0
  | prev, n :: rest => conn prev.r n.l + n.c + prefixCost n rest

/-- every node of the chain is stored, with the total derived from its predecessor's total -/
def Tight (rows : Rows) : Node → Int → List Node → Prop
  | _, _, [] => True
  | m, t, n :: rest =>
    (n, some (t + conn m.r n.l + n.c)) ∈ rows n.e ∧ Tight rows n (t + conn m.r n.l + n.c) rest

theorem bos_total (F : List Node) (hwf : WF F) {rows : Rows} {done : List Node} (hinv : Inv conn F rows done)
    {e : Nat} {t : Option Int} (h : (bos, t) ∈ rows e) : t = some 0 := by
  have hopt := (hinv.sound e (bos, t) h).2.2
  cases t with
  | none => exact absurd Reach.bos (hopt 0)
  | some v => rw [reach_bos conn F hwf hopt.1]

/-- the walk from a connected node `n` down to BOS: `acc` is the part of the path after `n` -/
theorem pathFrom_spec (F : List Node) (hwf : WF F) (rows : Rows) (done : List Node)
    (hinv : Inv conn F rows done)
    (hst : ∀ e, ∀ ent ∈ rows e, ent.1 ≠ bos → ent.2 = connect conn (rows ent.1.b) ent.1)
    (len : Nat) (v : Int) :
    ∀ (fuel : Nat) (n : Node) (acc : List Node), n.b < fuel →
      (∃ tn, connect conn (rows n.b) n = some tn) →
      (∀ m t, (m, some t) ∈ rows n.b → connect conn (rows n.b) n = some (t + conn m.r n.l + n.c) →
         IsChain F m acc ∧ lastEnd m acc = len ∧ t + chainCost conn m acc = v ∧ Tight conn rows m t acc) →
      IsChain F bos (pathFrom conn rows fuel n acc) ∧ lastEnd bos (pathFrom conn rows fuel n acc) = len ∧
      chainCost conn bos (pathFrom conn rows fuel n acc) = v ∧ Tight conn rows bos 0 (pathFrom conn rows fuel n acc) := by
  intro fuel
  induction fuel with
  | zero => intro n acc h; omega
  | succ fuel ih =>
    intro n acc hfuel ⟨tn, htn⟩ H
    obtain ⟨i, hi⟩ := connect_argmin conn (rows n.b) n tn htn
    obtain ⟨⟨m, t, hget, hv⟩, _, _⟩ := argmin_some conn (rows n.b) n i tn hi
    have hmem : (m, some t) ∈ rows n.b := List.mem_of_getElem? hget
    obtain ⟨hme, hmF, _⟩ := hinv.sound n.b (m, some t) hmem
    simp only at hme hmF
    obtain ⟨h1, h2, h3, h4⟩ := H m t hmem (by rw [htn, hv])
    simp only [pathFrom, hi, hget]
    by_cases hz : m.e = 0
    · simp only [hz, if_true]
      have hb : m = bos := by
        rcases hmF with h | h
        · exact h
        · have := hwf m h; omega
      subst hb
      have ht := bos_total conn F hwf hinv hmem
      simp only [Option.some.injEq] at ht
      subst ht
      exact ⟨h1, h2, by omega, h4⟩
    · simp only [hz, if_false]
      have hmne : m ≠ bos := by intro hc; rw [hc] at hz; exact hz rfl
      have hmF' : m ∈ F := by
        rcases hmF with h | h
        · exact absurd h hmne
        · exact h
      have hmb := hwf m hmF'
      have hstm : some t = connect conn (rows m.b) m := hst n.b (m, some t) hmem hmne
      apply ih m (m :: acc) (by omega) ⟨t, hstm.symm⟩
      intro m' t' hmem' hc'
      have hm'e := (hinv.sound m.b (m', some t') hmem').1
      simp only at hm'e
      have htt : t = t' + conn m'.r m.l + m.c := by
        rw [← hstm] at hc'; simpa using hc'
      refine ⟨⟨hmF', hm'e.symm, h1⟩, h2, ?_, ?_, ?_⟩
      · simp only [chainCost]; omega
      · rw [← htt, hme]; exact hmem
      · rw [← htt]; exact h4

/-- termination of `fill_top_path`: every step goes to a node ending where the current one begins and
candidates are non-empty, so once the fuel exceeds the begin of the current node more fuel changes nothing -/
theorem pathFrom_fuel_succ (F : List Node) (hwf : WF F) (rows : Rows)
    (hs : ∀ e, ∀ ent ∈ rows e, ent.1.e = e ∧ (ent.1 = bos ∨ ent.1 ∈ F)) :
    ∀ (fuel : Nat) (n : Node) (acc : List Node), n.b < fuel →
      pathFrom conn rows (fuel + 1) n acc = pathFrom conn rows fuel n acc := by
  intro fuel
  induction fuel with
  | zero => intro n acc h; omega
  | succ fuel ih =>
    intro n acc hfuel
    rw [pathFrom, pathFrom]
    cases ha : argmin conn (rows n.b) n with
    | none => rfl
    | some iv =>
      obtain ⟨i, w⟩ := iv
      simp only
      cases hg : (rows n.b)[i]? with
      | none => rfl
      | some mt =>
        obtain ⟨m, t⟩ := mt
        simp only
        by_cases hz : m.e = 0
        · simp [hz]
        · simp only [hz, if_false]
          obtain ⟨hme, hmF⟩ := hs n.b (m, t) (List.mem_of_getElem? hg)
          simp only at hme hmF
          have hmF' : m ∈ F := by
            rcases hmF with h | h
            · rw [h] at hz; exact absurd rfl hz
            · exact h
          have := hwf m hmF'
          exact ih m (m :: acc) (by omega)

theorem pathFrom_fuel (F : List Node) (hwf : WF F) (rows : Rows)
    (hs : ∀ e, ∀ ent ∈ rows e, ent.1.e = e ∧ (ent.1 = bos ∨ ent.1 ∈ F))
    (n : Node) (acc : List Node) (fuel : Nat) (h : n.b < fuel) :
    ∀ d, pathFrom conn rows (fuel + d) n acc = pathFrom conn rows fuel n acc := by
  intro d
  induction d with
  | zero => rfl
  | succ d ih =>
    rw [← ih, ← Nat.add_assoc]
    exact pathFrom_fuel_succ conn F hwf rows hs (fuel + d) n acc (by omega)

/-- along a tight chain the stored total of every node is the prefix sum up to and including it -/
theorem tight_prefix (rows : Rows) (n : Node) (p₂ : List Node) : ∀ (p₁ : List Node) (m : Node) (t : Int),
    Tight conn rows m t (p₁ ++ n :: p₂) →
    (n, some (t + prefixCost conn m (p₁ ++ [n]))) ∈ rows n.e := by
  intro p₁
  induction p₁ with
  | nil =>
    intro m t h
    simp only [List.nil_append, Tight] at h
    have heq : t + prefixCost conn m ([] ++ [n]) = t + conn m.r n.l + n.c := by
      simp only [List.nil_append, prefixCost]; omega
    rw [heq]; exact h.1
  | cons x rest ih =>
    intro m t h
    simp only [List.cons_append, Tight] at h
    have := ih x _ h.2
    simp only [List.cons_append, prefixCost]
    have heq : t + (conn m.r x.l + x.c + prefixCost conn x (rest ++ [n])) =
        t + conn m.r x.l + x.c + prefixCost conn x (rest ++ [n]) := by omega
    rw [heq]; exact this

theorem isChain_mem (F : List Node) : ∀ (p : List Node) (prev : Node), IsChain F prev p → ∀ x ∈ p, x ∈ F := by
  intro p
  induction p with
  | nil => intro _ _ x hx; cases hx
  | cons n rest ih =>
    intro prev h x hx
    simp only [List.mem_cons] at hx
    rcases hx with rfl | hx
    · exact h.1
    · exact ih n h.2.2 x hx

/-- the node whose end is `lastEnd` -/
def lastNode : Node → List Node → Node
  | prev, [] => prev
  | _, n :: rest => lastNode n rest

theorem lastNode_e : ∀ (p : List Node) (prev : Node), (lastNode prev p).e = lastEnd prev p := by
  intro p
  induction p with
  | nil => intro _; rfl
  | cons n rest ih => intro _; exact ih n

/-- the complete cost = cumulative cost of the last word + its connection to EOS -/
theorem chainCost_prefix : ∀ (p : List Node) (prev : Node),
    chainCost conn prev p = prefixCost conn prev p + conn (lastNode prev p).r 0 := by
  intro p
  induction p with
  | nil => intro prev; simp [chainCost, prefixCost, lastNode]
  | cons n rest ih => intro prev; simp only [chainCost, prefixCost, lastNode, ih n]; omega

/-! ### contiguity of a chain, in the form C01 consumes -/

/-- ends along a chain strictly increase and stay below `lastEnd` -/
theorem chain_ends (F : List Node) (hwf : WF F) : ∀ (p : List Node) (prev : Node), IsChain F prev p →
    (∀ x ∈ p, prev.e < x.e) ∧ (p.Pairwise (fun a b => a.e < b.e)) ∧ prev.e ≤ lastEnd prev p ∧
    ∀ x ∈ p, x.e ≤ lastEnd prev p := by
  intro p
  induction p with
  | nil => intro prev _; simp [lastEnd]
  | cons n rest ih =>
    intro prev h
    obtain ⟨hn, hb, hc⟩ := h
    obtain ⟨i1, i2, i3, i4⟩ := ih n hc
    have hlt : prev.e < n.e := by have := hwf n hn; omega
    refine ⟨?_, List.pairwise_cons.mpr ⟨i1, i2⟩, by simp only [lastEnd]; omega, ?_⟩
    · intro x hx
      simp only [List.mem_cons] at hx
      rcases hx with rfl | hx
      · exact hlt
      · have := i1 x hx; omega
    · intro x hx
      simp only [List.mem_cons] at hx
      rcases hx with rfl | hx
      · exact i3
      · exact i4 x hx

/-- byte ends of the tokens of a chain from BOS, read off a non-decreasing table `tab` (the
character→byte table): a non-decreasing list that starts at `tab[0]` and ends at `tab[len]`, every
index in range -/
theorem chain_cuts (F : List Node) (hwf : WF F) (tab : List Nat) (htab : tab.Pairwise (· ≤ ·))
    (p : List Node) (hc : IsChain F bos p) (hlen : lastEnd bos p < tab.length) :
    ((bos :: p).map (fun n => (tab[n.e]?).getD 0)).Pairwise (· ≤ ·) ∧
    ((bos :: p).map (fun n => (tab[n.e]?).getD 0)).getLast (by simp) = (tab[lastEnd bos p]?).getD 0 ∧
    ∀ x ∈ p, x.e < tab.length := by
  obtain ⟨h1, h2, h3, h4⟩ := chain_ends F hwf p bos hc
  have hin : ∀ x ∈ p, x.e < tab.length := fun x hx => by have := h4 x hx; omega
  have hmono : ∀ a b : Nat, a ≤ b → b < tab.length → (tab[a]?).getD 0 ≤ (tab[b]?).getD 0 := by
    intro a b hab hb
    rcases Nat.lt_or_eq_of_le hab with hlt | rfl
    · have ha : a < tab.length := by omega
      have := List.pairwise_iff_getElem.mp htab a b ha hb hlt
      simpa [List.getElem?_eq_getElem ha, List.getElem?_eq_getElem hb] using this
    · exact Nat.le_refl _
  refine ⟨?_, ?_, hin⟩
  · have hp : (bos :: p).Pairwise (fun a b => a.e ≤ b.e ∧ b.e < tab.length) := by
      refine List.pairwise_cons.mpr ⟨fun x hx => ⟨Nat.le_of_lt (h1 x hx), hin x hx⟩, ?_⟩
      exact (h2.imp_of_mem (fun {a b} _ hb hab => ⟨Nat.le_of_lt hab, hin b hb⟩))
    exact List.Pairwise.map _ (fun a b ⟨hab, hb⟩ => hmono a.e b.e hab hb) hp
  · rw [List.getLast_map]
    have : ((bos :: p).getLast (by simp)).e = lastEnd bos p := by
      rw [← lastNode_e]
      congr 1
      have : ∀ (q : List Node) (prev : Node), (prev :: q).getLast (by simp) = lastNode prev q := by
        intro q
        induction q with
        | nil => intro _; rfl
        | cons y ys ihq => intro prev; rw [List.getLast_cons (by simp)]; exact ihq y
      exact this p bos
    rw [this]

end Vit
