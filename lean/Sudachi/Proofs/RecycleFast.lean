import Sudachi.Model.RecycleFast
import Sudachi.Model.RecycleIO
/-!
# The executed array representation equals the list model (C10)

`Rows.toL` / `LatA.toL` / `XWorld.abs` map the executed state to the state of `Model/Recycle.lean`; every executed
function commutes with the abstraction, so the answer line the driver prints is the answer of the list model
(`Recycle.IO.handle_eq`).
-/
namespace Recycle
variable {E : Type}

/-! ## rows -/

theorem pushRow_eq_modify (rows : List (List E)) (k : Nat) (x : E) :
    pushRow rows k x = rows.modify k (fun r => r ++ [x]) := by
  induction rows generalizing k with
  | nil => simp [pushRow]
  | cons r rs ih =>
    cases k with
    | zero => simp [pushRow]
    | succ k => simp [pushRow, ih]

theorem map_modify_toList (l : List (Array E)) (k : Nat) (x : E) :
    (l.modify k (fun r => r.push x)).map Array.toList = (l.map Array.toList).modify k (fun r => r ++ [x]) := by
  induction l generalizing k with
  | nil => simp
  | cons r rs ih =>
    cases k with
    | zero => simp
    | succ k => simp [ih]

theorem Rows.toL_pushRowA (rows : Rows E) (k : Nat) (x : E) : (pushRowA rows k x).toL = pushRow rows.toL k x := by
  unfold pushRowA Rows.toL
  rw [Array.toList_modify, map_modify_toList, pushRow_eq_modify]

theorem Rows.toL_resetVecA (rows : Rows E) (n : Nat) : (resetVecA rows n).toL = resetVec rows.toL n := by
  unfold resetVecA resetVec Rows.toL
  simp only [Array.size_map, List.length_map, Array.length_toList]
  split
  · simp [Array.toList_append, Array.toList_map, Array.toList_replicate, List.map_map, Function.comp_def]
  · simp [Array.toList_map, List.map_map, Function.comp_def]

theorem rowAt_eq_getElem? (rows : List (List E)) (k : Nat) :
    rowAt rows k = (match rows[k]? with | some r => r | none => []) := by
  induction rows generalizing k with
  | nil => simp [rowAt]
  | cons r rs ih =>
    cases k with
    | zero => simp [rowAt]
    | succ k => simp [rowAt, ih]

theorem rowAtA_eq (rows : Rows E) (k : Nat) : rowAtA rows k = rowAt rows.toL k := by
  rw [rowAt_eq_getElem?]
  unfold rowAtA Rows.toL
  rw [List.getElem?_map, Array.getElem?_toList]
  cases rows[k]? <;> rfl

theorem rowEmptyA_eq (rows : Rows E) (k : Nat) : rowEmptyA rows k = (rowAt rows.toL k).isEmpty := by
  rw [rowAt_eq_getElem?]
  unfold rowEmptyA Rows.toL
  rw [List.getElem?_map, Array.getElem?_toList]
  cases h : rows[k]? with
  | none => rfl
  | some r => simp [Array.isEmpty]

/-! ## lattice operations -/

theorem LatA.reset_toL (P : Payload E) (l : LatA E) (n : Nat) : (LatA.reset P l n).toL = Lattice.reset P l.toL n := by
  simp [LatA.reset, LatA.toL, Lattice.reset, Rows.toL_pushRowA, Rows.toL_resetVecA]

theorem LatA.insert_toL (P : Payload E) (l : LatA E) (b : Nat) (c : Nat × E) :
    (LatA.insert P l b c).toL = Lattice.insert P l.toL b c := by
  simp [LatA.insert, LatA.toL, Lattice.insert, Rows.toL_pushRowA, rowAtA_eq]

theorem foldl_insert_toL (P : Payload E) (b : Nat) (cs : List (Nat × E)) (l : LatA E) :
    (cs.foldl (fun l c => LatA.insert P l b c) l).toL = cs.foldl (fun l c => Lattice.insert P l b c) l.toL := by
  induction cs generalizing l with
  | nil => rfl
  | cons c cs ih => simp only [List.foldl_cons]; rw [ih, LatA.insert_toL]

/-- abstraction of a loop state -/
def absSt (r : (List E × LatA E) × Outcome) : (List E × Lattice E) × Outcome := ((r.1.1, r.1.2.toL), r.2)

theorem buildStepA_abs (P : Payload E) (inp : Input E) (st : List E × LatA E) (off : Nat) :
    absSt (buildStepA P inp st off) = buildStep P inp (st.1, st.2.toL) off := by
  unfold buildStepA buildStep absSt Lattice.hasPrev
  have h : rowEmptyA st.2.ends off = (rowAt st.2.toL.ends off).isEmpty := rowEmptyA_eq _ _
  simp only [Bool.not_not]
  rw [h]
  split
  · rfl
  · split <;> simp [foldl_insert_toL]

theorem buildLoopA_abs (P : Payload E) (inp : Input E) (offs : List Nat) (st : List E × LatA E) :
    absSt (buildLoopA P inp offs st) = buildLoop P inp offs (st.1, st.2.toL) := by
  induction offs generalizing st with
  | nil => rfl
  | cons off rest ih =>
    have hs := buildStepA_abs P inp st off
    unfold buildLoopA buildLoop
    rcases hb : buildStepA P inp st off with ⟨⟨oov, la⟩, o⟩
    rw [hb] at hs
    rw [← hs]
    cases o with
    | ok => simp only [absSt]; exact ih (oov, la)
    | err e => rfl
    | panic => rfl

theorem LatA.connectEos_toL (P : Payload E) (l : LatA E) :
    ((LatA.connectEos P l).1.toL, (LatA.connectEos P l).2) = Lattice.connectEos P l.toL := by
  unfold LatA.connectEos Lattice.connectEos
  rw [rowAtA_eq]
  show _ = match P.eosOf (rowAt l.ends.toL (l.size - 1)) with | none => _ | some e => _
  cases P.eosOf (rowAt l.ends.toL (l.size - 1)) <;> rfl

/-- abstraction of a tokenizer + array lattice -/
def absT (r : (Tok E × LatA E) × Outcome) : Tok E × Outcome := ({ r.1.1 with lattice := r.1.2.toL }, r.2)

theorem buildLatticeA_abs (P : Payload E) (t : Tok E) (la : LatA E) :
    absT (Tok.buildLatticeA P t la) = Tok.buildLattice P { t with lattice := la.toL } := by
  have hl := buildLoopA_abs P t.input (List.range (t.input.modC2b.length - 1)) (t.oov, LatA.reset P la t.input.modChars.length)
  unfold Tok.buildLatticeA Tok.buildLattice
  dsimp only at hl ⊢
  rw [LatA.reset_toL] at hl
  rw [← hl]
  rcases hb : buildLoopA P t.input (List.range (t.input.modC2b.length - 1)) (t.oov, LatA.reset P la t.input.modChars.length)
    with ⟨⟨oov, lat⟩, o⟩
  cases o with
  | ok =>
    have he := LatA.connectEos_toL P lat
    simp only [absSt, absT]
    rw [← he]
  | err e => rfl
  | panic => rfl

theorem resolve_lattice (P : Payload E) (t : Tok E) : (Tok.resolveAndRewrite P t).1.lattice = t.lattice := by
  unfold Tok.resolveAndRewrite
  dsimp only
  split
  · rfl
  · rfl
  · split <;> rfl

theorem doTokenizeA_abs (P : Payload E) (t : Tok E) (la : LatA E) :
    absT (Tok.doTokenizeA P t la) = Tok.doTokenize P { t with lattice := la.toL } := by
  unfold Tok.doTokenizeA Tok.doTokenize
  dsimp only
  rcases hp : Input.prepare P t.input with ⟨i, o⟩
  cases o with
  | err e => rfl
  | panic => rfl
  | ok =>
    dsimp only
    split
    · rfl
    · have hb := buildLatticeA_abs P { t with input := i } la
      rcases hbl : Tok.buildLatticeA P { t with input := i } la with ⟨⟨u, la'⟩, o⟩
      rw [hbl] at hb
      simp only [absT] at hb
      rw [← hb]
      cases o with
      | err e => rfl
      | panic => rfl
      | ok =>
        simp only [absT]
        have hlat := resolve_lattice P { u with lattice := la'.toL }
        rcases hr : Tok.resolveAndRewrite P { u with lattice := la'.toL } with ⟨r, o⟩
        rw [hr] at hlat
        simp only at hlat
        cases r
        simp only at hlat
        subst hlat
        rfl

/-! ## API calls and histories -/

/-- replace the lattice of the tokenizer of a world -/
def World.setLat (w : World E) (l : Lattice E) : World E := { w with tok := { w.tok with lattice := l } }

theorem XWorld.abs_eq (x : XWorld E) : x.abs = x.w.setLat x.lat.toL := rfl

theorem collect_setLat (w : World E) (l : Lattice E) (j : Nat) :
    (w.setLat l).collect j = (((w.collect j).1.setLat l), (w.collect j).2) := by
  unfold World.collect World.setLat
  dsimp only
  cases w.lists[j]? with
  | none => rfl
  | some L =>
    dsimp only
    cases w.parts[L.part]? with
    | none => rfl
    | some p =>
      dsimp only
      cases w.tok.topPath <;> rfl

theorem splitInto_setLat (P : Payload E) (w : World E) (l : Lattice E) (i idx : Nat) (m : Mode) (j : Nat) :
    (w.setLat l).splitInto P i idx m j = (((w.splitInto P i idx m j).1.setLat l), (w.splitInto P i idx m j).2) := by
  unfold World.splitInto World.setLat
  dsimp only
  split
  · rfl
  · cases w.lists[i]? with
    | none => rfl
    | some Li =>
      cases w.lists[j]? with
      | none => rfl
      | some Lj =>
        dsimp only
        cases Li.nodes[idx]? with
        | none => rfl
        | some node =>
          cases w.parts[Li.part]? with
          | none => rfl
          | some p =>
            dsimp only
            split <;> rfl

theorem lookup_setLat (P : Payload E) (w : World E) (l : Lattice E) (j : Nat) (q : List E) (s : Subset) :
    (w.setLat l).lookup P j q s = (((w.lookup P j q s).1.setLat l), (w.lookup P j q s).2) := by
  unfold World.lookup World.setLat
  dsimp only
  cases w.lists[j]? with
  | none => rfl
  | some L =>
    dsimp only
    cases w.parts[L.part]? with
    | none => rfl
    | some p =>
      dsimp only
      rcases Input.startBuild P { p.input.reset with original := p.input.reset.original ++ q } with ⟨i1, o1⟩
      cases o1 with
      | err e => rfl
      | panic => rfl
      | ok =>
        dsimp only
        rcases Input.build P i1 with ⟨i2, o2⟩
        cases o2 <;> rfl

/-- **one executed API call = one call of the list model** -/
theorem XWorld.step_abs (v : ResetVariant) (P : Payload E) (x : XWorld E) (op : Op E) :
    ((x.step v P op).1.abs, (x.step v P op).2) = x.abs.step v P op := by
  cases op with
  | analyse text =>
    have h := doTokenizeA_abs P (x.w.tok.resetWith v text) x.lat
    show (_, _) = (_, _)
    simp only [XWorld.step, XWorld.abs, Tok.analyse]
    have h2 : ({ x.w.tok with lattice := x.lat.toL } : Tok E).resetWith v text
        = { x.w.tok.resetWith v text with lattice := x.lat.toL } := rfl
    rw [h2, ← h]
    rfl
  | setMode m => rfl
  | setSubset s => rfl
  | newList => rfl
  | collect j =>
    show (_, _) = (x.w.setLat x.lat.toL).collect j
    rw [collect_setLat]; rfl
  | emptyClone j =>
    show (_, _) = World.step v P (x.w.setLat x.lat.toL) (.emptyClone j)
    simp only [XWorld.step, World.step, XWorld.abs, World.setLat]
    cases x.w.lists[j]? <;> rfl
  | clear j =>
    show (_, _) = World.step v P (x.w.setLat x.lat.toL) (.clear j)
    simp only [XWorld.step, World.step, XWorld.abs, World.setLat]
    cases x.w.lists[j]? <;> rfl
  | splitInto i idx m j =>
    show (_, _) = (x.w.setLat x.lat.toL).splitInto P i idx m j
    rw [splitInto_setLat]; rfl
  | lookup j q =>
    show (_, _) = (x.w.setLat x.lat.toL).lookup P j q Subset.all
    rw [lookup_setLat]; rfl

theorem XWorld.step_abs_fst (v : ResetVariant) (P : Payload E) (x : XWorld E) (op : Op E) :
    (x.step v P op).1.abs = (x.abs.step v P op).1 := by
  rw [← XWorld.step_abs]

theorem XWorld.step_abs_snd (v : ResetVariant) (P : Payload E) (x : XWorld E) (op : Op E) :
    (x.step v P op).2 = (x.abs.step v P op).2 := by
  rw [← XWorld.step_abs]

/-- **whole histories** -/
theorem XWorld.run_abs (v : ResetVariant) (x : XWorld E) (ops : List (Payload E × Op E)) :
    (x.run v ops).abs = x.abs.run v ops := by
  induction ops generalizing x with
  | nil => rfl
  | cons a rest ih =>
    obtain ⟨P, op⟩ := a
    show ((x.step v P op).1.run v rest).abs = World.run v (x.abs.step v P op).1 rest
    rw [ih, XWorld.step_abs_fst]

theorem XWorld.init_abs (m : Mode) : (XWorld.init (E := E) m).abs = World.init m := rfl

namespace IO

/-- the driver's replay prints exactly what the replay of the list model prints -/
theorem replayX_eq (v : ResetVariant) (x : XWorld Nat) (ops : List (Payload Nat × Op Nat)) (acc : List String) :
    replayX v x ops acc = replay v x.abs ops acc := by
  induction ops generalizing x acc with
  | nil => rfl
  | cons a rest ih =>
    obtain ⟨P, op⟩ := a
    unfold replayX replay
    dsimp only
    rw [ih, XWorld.step_abs_fst, XWorld.step_abs_snd]

theorem payloadOfA_eq (plugs : List PlugFact) (cands : List (List Nat)) (eos : Bool) (tail : Tail)
    (splitK lookK : Nat) (lookOk : Bool) :
    payloadOfA plugs cands eos tail splitK lookK lookOk = payloadOf plugs cands eos tail splitK lookK lookOk := by
  unfold payloadOfA payloadOf
  dsimp only
  congr 1
  funext off
  unfold nthD
  rw [List.getElem?_toArray]
  cases cands[off]? <;> rfl

theorem parseOpWith_eq (fast : Bool) (s : List Char) : parseOpWith fast s = parseOp s := by
  unfold parseOp
  cases fast with
  | false => rfl
  | true =>
    unfold parseOpWith
    simp only [payloadOfA_eq, ite_self]

/-- **the answer line of the driver is the answer line of the list model** -/
theorem handle_eq (toks : List (List Char)) : handle toks = handleL toks := by
  unfold handle handleL
  have hp : (parseOpWith true) = parseOp := funext (parseOpWith_eq true)
  rw [hp]
  split
  · split
    · rw [replayX_eq]; rfl
    · rfl
  · rfl

end IO
end Recycle
