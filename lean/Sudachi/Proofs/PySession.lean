import Sudachi.Proofs.RecycleObs
import Sudachi.Model.PySession
/-!
# Lemmas about Python sessions (`Model/PySession.lean`): which lists and cells a call touches
-/
namespace PySession
open Recycle

variable {E : Type}

/-- `w'` differs from `w` at most in the tokenizer, in list `j`, in the cells satisfying `ps`, and in lists / cells
that did not exist in `w` -/
def Touch (w w' : World E) (j : Nat) (ps : Nat → Prop) : Prop :=
  w.lists.length ≤ w'.lists.length ∧ w.parts.length ≤ w'.parts.length ∧
  (∀ k, k ≠ j → k < w.lists.length → w'.lists[k]? = w.lists[k]?) ∧
  (∀ q, q < w.parts.length → ¬ ps q → w'.parts[q]? = w.parts[q]?)

theorem Touch.of_eq (w w' : World E) (j : Nat) (ps : Nat → Prop) (hl : w'.lists = w.lists) (hp : w'.parts = w.parts) :
    Touch w w' j ps := by
  refine ⟨by rw [hl]; exact Nat.le_refl _, by rw [hp]; exact Nat.le_refl _, ?_, ?_⟩
  · intro k _ _; rw [hl]
  · intro q _ _; rw [hp]

theorem Touch.trans {w w1 w2 : World E} {j : Nat} {ps ps' : Nat → Prop} (h1 : Touch w w1 j ps) (h2 : Touch w1 w2 j ps')
    (hps : ∀ q, q < w.parts.length → ps' q → ps q) : Touch w w2 j ps := by
  obtain ⟨a1, a2, a3, a4⟩ := h1
  obtain ⟨b1, b2, b3, b4⟩ := h2
  refine ⟨Nat.le_trans a1 b1, Nat.le_trans a2 b2, ?_, ?_⟩
  · intro k hk hlt; rw [b3 k hk (Nat.lt_of_lt_of_le hlt a1), a3 k hk hlt]
  · intro q hq hn
    rw [b4 q (Nat.lt_of_lt_of_le hq a2) (fun h => hn (hps q hq h)), a4 q hq hn]

theorem Touch.mono {w w' : World E} {j : Nat} {ps ps' : Nat → Prop} (h : Touch w w' j ps) (hps : ∀ q, ps q → ps' q) :
    Touch w w' j ps' :=
  ⟨h.1, h.2.1, h.2.2.1, fun q hq hn => h.2.2.2 q hq (fun hp => hn (hps q hp))⟩

/-- setting list `j` and cell `pi` -/
theorem Touch.of_sets (w w' : World E) (j pi : Nat) (L' : MList E) (p' : Part E) (ps : Nat → Prop) (hpi : ps pi)
    (hl : w'.lists = w.lists.set j L') (hp : w'.parts = w.parts.set pi p') : Touch w w' j ps := by
  refine ⟨by rw [hl, List.length_set]; exact Nat.le_refl _, by rw [hp, List.length_set]; exact Nat.le_refl _, ?_, ?_⟩
  · intro k hk _; rw [hl, List.getElem?_set_ne (Ne.symm hk)]
  · intro q _ hn
    have : pi ≠ q := fun h => hn (h ▸ hpi)
    rw [hp, List.getElem?_set_ne this]

theorem Touch.of_set_list (w w' : World E) (j : Nat) (L' : MList E) (ps : Nat → Prop)
    (hl : w'.lists = w.lists.set j L') (hp : w'.parts = w.parts) : Touch w w' j ps := by
  refine ⟨by rw [hl, List.length_set]; exact Nat.le_refl _, by rw [hp]; exact Nat.le_refl _, ?_, ?_⟩
  · intro k hk _; rw [hl, List.getElem?_set_ne (Ne.symm hk)]
  · intro q _ _; rw [hp]

theorem Touch.of_set_part (w w' : World E) (j pi : Nat) (p' : Part E) (ps : Nat → Prop) (hpi : ps pi)
    (hl : w'.lists = w.lists) (hp : w'.parts = w.parts.set pi p') : Touch w w' j ps := by
  refine ⟨by rw [hl]; exact Nat.le_refl _, by rw [hp, List.length_set]; exact Nat.le_refl _, ?_, ?_⟩
  · intro k _ _; rw [hl]
  · intro q _ hn
    have : pi ≠ q := fun h => hn (h ▸ hpi)
    rw [hp, List.getElem?_set_ne this]

/-- appending lists and cells -/
theorem Touch.of_append (w w' : World E) (j : Nat) (ps : Nat → Prop) (ls : List (MList E)) (qs : List (Part E))
    (hl : w'.lists = w.lists ++ ls) (hp : w'.parts = w.parts ++ qs) : Touch w w' j ps := by
  refine ⟨by rw [hl, List.length_append]; omega, by rw [hp, List.length_append]; omega, ?_, ?_⟩
  · intro k _ hlt; rw [hl, List.getElem?_append_left hlt]
  · intro q hq _; rw [hp, List.getElem?_append_left hq]

/-- the cell the list `j` points to -/
def partOf (w : World E) (j : Nat) : Option Nat := w.lists[j]?.map (·.part)

theorem collect_touch (w : World E) (j : Nat) : Touch w (w.collect j).1 j (fun q => partOf w j = some q) := by
  unfold World.collect
  cases hL : w.lists[j]? with
  | none => exact Touch.of_eq _ _ _ _ rfl rfl
  | some L =>
    dsimp only
    have hpo : partOf w j = some L.part := by simp [partOf, hL]
    cases hp : w.parts[L.part]? with
    | none => exact Touch.of_eq _ _ _ _ rfl rfl
    | some p =>
      dsimp only
      cases w.tok.topPath with
      | none => exact Touch.of_set_part _ _ _ L.part _ _ hpo rfl rfl
      | some path => exact Touch.of_sets _ _ _ L.part _ _ _ hpo rfl rfl

theorem lookup_touch (P : Payload E) (w : World E) (j : Nat) (q : List E) (s : Subset) :
    Touch w (w.lookup P j q s).1 j (fun x => partOf w j = some x) := by
  unfold World.lookup
  cases hL : w.lists[j]? with
  | none => exact Touch.of_eq _ _ _ _ rfl rfl
  | some L =>
    dsimp only
    have hpo : partOf w j = some L.part := by simp [partOf, hL]
    cases w.parts[L.part]? with
    | none => exact Touch.of_eq _ _ _ _ rfl rfl
    | some p =>
      dsimp only
      rcases Input.startBuild P { p.input.reset with original := p.input.reset.original ++ q } with ⟨i1, o1⟩
      cases o1 with
      | err e => exact Touch.of_set_part _ _ _ L.part _ _ hpo rfl rfl
      | panic => exact Touch.of_set_part _ _ _ L.part _ _ hpo rfl rfl
      | ok =>
        dsimp only
        rcases Input.build P i1 with ⟨i2, o2⟩
        cases o2 with
        | err e => exact Touch.of_set_part _ _ _ L.part _ _ hpo rfl rfl
        | panic => exact Touch.of_set_part _ _ _ L.part _ _ hpo rfl rfl
        | ok => exact Touch.of_sets _ _ _ L.part _ _ _ hpo rfl rfl

theorem splitInto_touch (P : Payload E) (w : World E) (i idx : Nat) (m : Mode) (j : Nat) (ps : Nat → Prop) :
    Touch w (w.splitInto P i idx m j).1 j ps := by
  unfold World.splitInto
  split
  · exact Touch.of_eq _ _ _ _ rfl rfl
  · cases w.lists[i]? with
    | none => exact Touch.of_eq _ _ _ _ rfl rfl
    | some Li =>
      cases w.lists[j]? with
      | none => exact Touch.of_eq _ _ _ _ rfl rfl
      | some Lj =>
        dsimp only
        cases Li.nodes[idx]? with
        | none => exact Touch.of_eq _ _ _ _ rfl rfl
        | some node =>
          cases w.parts[Li.part]? with
          | none => exact Touch.of_eq _ _ _ _ rfl rfl
          | some p =>
            dsimp only
            split
            · exact Touch.of_eq _ _ _ _ rfl rfl
            · exact Touch.of_set_list _ _ _ _ _ rfl rfl

theorem copySlice_touch (w : World E) (i idx j : Nat) (ps : Nat → Prop) : Touch w (copySlice w i idx j).1 j ps := by
  unfold copySlice
  cases w.lists[i]? with
  | none => exact Touch.of_eq _ _ _ _ rfl rfl
  | some Li =>
    cases w.lists[j]? with
    | none => exact Touch.of_eq _ _ _ _ rfl rfl
    | some Lj =>
      dsimp only
      cases Li.nodes[idx]? with
      | none => exact Touch.of_set_list _ _ _ _ _ rfl rfl
      | some node => exact Touch.of_set_list _ _ _ _ _ rfl rfl

theorem clear_touch (v : ResetVariant) (P : Payload E) (w : World E) (j : Nat) (ps : Nat → Prop) :
    Touch w (w.step v P (.clear j)).1 j ps := by
  simp only [World.step]
  cases w.lists[j]? with
  | none => exact Touch.of_eq _ _ _ _ rfl rfl
  | some L => exact Touch.of_set_list _ _ _ _ _ rfl rfl

theorem emptyClone_touch (v : ResetVariant) (P : Payload E) (w : World E) (i j : Nat) (ps : Nat → Prop) :
    Touch w (w.step v P (.emptyClone i)).1 j ps := by
  simp only [World.step]
  cases w.lists[i]? with
  | none => exact Touch.of_eq _ _ _ _ rfl rfl
  | some L => exact Touch.of_append _ _ _ _ [⟨L.part, []⟩] [] rfl (by simp)

theorem newList_touch (v : ResetVariant) (P : Payload E) (w : World E) (j : Nat) (ps : Nat → Prop) :
    Touch w (w.step v P .newList).1 j ps :=
  Touch.of_append _ _ _ _ [⟨w.parts.length, []⟩] [Part.default P] rfl rfl

/-- `clear` keeps the cell a list points to -/
theorem partOf_clear (v : ResetVariant) (P : Payload E) (w : World E) (j k : Nat) :
    partOf (w.step v P (.clear j)).1 k = partOf w k := by
  simp only [World.step]
  cases hL : w.lists[j]? with
  | none => rfl
  | some L =>
    simp only [partOf]
    by_cases hk : j = k
    · subst hk
      have hj : j < w.lists.length := by
        rcases Nat.lt_or_ge j w.lists.length with h | h
        · exact h
        · rw [List.getElem?_eq_none h] at hL; cases hL
      rw [List.getElem?_set_self hj, hL]; rfl
    · rw [List.getElem?_set_ne hk]

/-- what the cell view of a list depends on -/
theorem cellOf_congr (w w' : World E) (k : Nat) (hl : w'.lists[k]? = w.lists[k]?)
    (hp : ∀ L, w.lists[k]? = some L → w'.parts[L.part]? = w.parts[L.part]?) : cellOf w' k = cellOf w k := by
  unfold cellOf
  rw [hl]
  cases hL : w.lists[k]? with
  | none => rfl
  | some L => dsimp only; rw [hp L hL]

/-- **frame**: a list other than `j` whose cell is not touched reads what it read before -/
theorem Touch.cellOf {w w' : World E} {j : Nat} {ps : Nat → Prop} (h : Touch w w' j ps) (hok : ListsOk w) (k : Nat)
    (hk : k ≠ j) (hlt : k < w.lists.length) (hps : ∀ L, w.lists[k]? = some L → ¬ ps L.part) :
    cellOf w' k = cellOf w k := by
  apply cellOf_congr _ _ _ (h.2.2.1 k hk hlt)
  intro L hL
  exact h.2.2.2 L.part (hok L (mem_of_getElem?_some _ _ _ hL)) (hps L hL)

theorem setMode_eq (v : ResetVariant) (P : Payload E) (u : World E) (m : Mode) :
    (u.step v P (.setMode m)).1 = { u with tok := u.tok.setMode m } := rfl

theorem analyse_eq (v : ResetVariant) (P : Payload E) (u : World E) (text : List E) :
    u.step v P (.analyse text) = ({ u with tok := (u.tok.analyse v P text).1 }, (u.tok.analyse v P text).2) := rfl

/-- the per-call mode override and its restoration: both change the tokenizer only -/
def ovr (v : ResetVariant) (P : Payload E) (mode : Option Mode) (u : World E) : World E :=
  match mode with
  | some m => (u.step v P (.setMode m)).1
  | none => u

def rst (v : ResetVariant) (P : Payload E) (mode : Option Mode) (d : Mode) (u : World E) : World E :=
  match mode with
  | some _ => (u.step v P (.setMode d)).1
  | none => u

theorem ovr_fields (v : ResetVariant) (P : Payload E) (mode : Option Mode) (u : World E) :
    (ovr v P mode u).lists = u.lists ∧ (ovr v P mode u).parts = u.parts := by
  cases mode <;> exact ⟨rfl, rfl⟩

theorem rst_fields (v : ResetVariant) (P : Payload E) (mode : Option Mode) (d : Mode) (u : World E) :
    (rst v P mode d u).lists = u.lists ∧ (rst v P mode d u).parts = u.parts := by
  cases mode <;> exact ⟨rfl, rfl⟩

theorem pyTokenize_def (v : ResetVariant) (P : Payload E) (w : World E) (mode : Option Mode) (out : Option Nat)
    (text : List E) :
    w.pyTokenize v P mode out text =
      (match ((ovr v P mode w).tok.analyse v P text).2 with
       | .ok =>
         match out with
         | none =>
           let w2 : World E := { ovr v P mode w with tok := ((ovr v P mode w).tok.analyse v P text).1 }
           let r := (w2.step v P .newList).1.collect w2.lists.length
           (rst v P mode w.tok.mode r.1, r.2)
         | some j =>
           let w2 : World E := { ovr v P mode w with tok := ((ovr v P mode w).tok.analyse v P text).1 }
           let r := w2.collect j
           (rst v P mode w.tok.mode r.1, r.2)
       | o => (rst v P mode w.tok.mode { ovr v P mode w with tok := ((ovr v P mode w).tok.analyse v P text).1 }, o)) := by
  unfold World.pyTokenize
  cases mode <;> simp only [ovr, rst, analyse_eq] <;> cases ((World.tok _).analyse v P text).2 <;> rfl

/-- `tokenize(out=…)` touches the tokenizer, the result list and the cell of `out` only -/
theorem pyTokenize_touch (v : ResetVariant) (P : Payload E) (w : World E) (mode : Option Mode) (out : Option Nat)
    (text : List E) :
    Touch w (w.pyTokenize v P mode out text).1 (outIdx w out) (fun q => partOf w (outIdx w out) = some q ∧ out.isSome) := by
  rw [pyTokenize_def]
  have h1 := ovr_fields v P mode w
  generalize ((ovr v P mode w).tok.analyse v P text).1 = t2
  generalize ((ovr v P mode w).tok.analyse v P text).2 = o
  have hbase : Touch w ({ ovr v P mode w with tok := t2 } : World E) (outIdx w out)
      (fun q => partOf w (outIdx w out) = some q ∧ out.isSome) := Touch.of_eq _ _ _ _ h1.1 h1.2
  have hrestT : ∀ (u : World E), Touch w u (outIdx w out) (fun q => partOf w (outIdx w out) = some q ∧ out.isSome) →
      Touch w (rst v P mode w.tok.mode u) (outIdx w out) (fun q => partOf w (outIdx w out) = some q ∧ out.isSome) := by
    intro u hu
    exact hu.trans (Touch.of_eq _ _ _ (fun _ => False) (rst_fields v P mode _ u).1 (rst_fields v P mode _ u).2)
      (fun _ _ h => h.elim)
  cases o with
  | ok =>
    dsimp only
    cases out with
    | none =>
      dsimp only
      apply hrestT
      have hn := newList_touch v P ({ ovr v P mode w with tok := t2 } : World E) (outIdx w none) (fun _ => False)
      have hc := collect_touch (({ ovr v P mode w with tok := t2 } : World E).step v P .newList).1 (ovr v P mode w).lists.length
      have hidx : outIdx w none = (ovr v P mode w).lists.length := by simp [outIdx, h1.1]
      rw [← hidx] at hc
      rw [← hidx]
      refine (hbase.trans hn (fun _ _ h => h.elim)).trans hc ?_
      intro q hq hpo
      -- the new list points to the new cell, which did not exist in `w`
      exfalso
      have : partOf (({ ovr v P mode w with tok := t2 } : World E).step v P .newList).1 (outIdx w none) =
          some (ovr v P mode w).parts.length := by
        simp [partOf, World.step, hidx]
      rw [this] at hpo
      have : q = (ovr v P mode w).parts.length := by cases hpo; rfl
      rw [this, h1.2] at hq; exact Nat.lt_irrefl _ hq
    | some j =>
      dsimp only
      apply hrestT
      have hc := collect_touch ({ ovr v P mode w with tok := t2 } : World E) j
      refine hbase.trans hc ?_
      intro q _ hpo
      refine ⟨?_, rfl⟩
      simpa [partOf, outIdx, h1.1] using hpo
  | err e => dsimp only; exact hrestT _ hbase
  | panic => dsimp only; exact hrestT _ hbase

theorem Touch.false_trans {w w1 w2 : World E} {j : Nat} (h1 : Touch w w1 j (fun _ => False))
    (h2 : Touch w1 w2 j (fun _ => False)) : Touch w w2 j (fun _ => False) :=
  h1.trans h2 (fun _ _ h => h)

theorem dropNew_touch (w : World E) (out : Option Nat) (r : World E × Ret) (j : Nat) (ps : Nat → Prop)
    (h : Touch w r.1 j ps) : Touch w (dropNew w out r).1 j ps := by
  unfold dropNew
  split
  · exact h
  · dsimp only; split
    · exact h
    · exact Touch.of_eq _ _ _ _ rfl rfl

theorem splitCore_touch (P : Payload E) (w1 : World E) (i idx : Nat) (a : SplitArgs) (j : Nat) :
    Touch w1 (splitCore P w1 i idx a j).1 j (fun _ => False) := by
  unfold splitCore
  have hw2 := splitInto_touch P w1 i idx a.mode j (fun _ => False)
  rcases hsp : w1.splitInto P i idx a.mode j with ⟨w2, o⟩
  rw [hsp] at hw2
  cases o with
  | ok =>
    dsimp only
    by_cases hu : a.unwinds = true
    · rw [if_pos hu]; exact hw2
    · rw [if_neg hu]
      by_cases hc : (PyGlue.addSingleOf a.addSingle && !hasNodes w2 j) = true
      · rw [if_pos hc]
        have hw3 := hw2.false_trans (copySlice_touch w2 i idx j (fun _ => False))
        rcases hcs : copySlice w2 i idx j with ⟨w3, o3⟩
        rw [hcs] at hw3
        cases o3 <;> exact hw3
      · rw [if_neg hc]; exact hw2
  | err e => exact hw2
  | panic => exact hw2

/-- `Morpheme.split(out=…)` touches the result list only: NO cell changes, no other list changes -/
theorem split_touch (P : Payload E) (w : World E) (i idx : Nat) (a : SplitArgs) :
    Touch w (split P w i idx a).1 (outIdx w a.out) (fun _ => False) := by
  unfold split
  split
  · exact Touch.of_eq _ _ _ _ rfl rfl
  · split
    · exact Touch.of_eq _ _ _ _ rfl rfl
    · dsimp only
      apply dropNew_touch
      have hw0 : Touch w (splitCell P w i a.out) (outIdx w a.out) (fun _ => False) := by
        unfold splitCell
        cases a.out with
        | none => exact emptyClone_touch _ _ _ _ _ _
        | some o => exact Touch.of_eq _ _ _ _ rfl rfl
      exact (hw0.false_trans (clear_touch .fix P _ _ _)).false_trans (splitCore_touch P _ i idx a _)

/-- `Dictionary.lookup(out=…)` touches the result list and the cell of `out` only -/
theorem lookup_touch' (P : Payload E) (w : World E) (q : List E) (out : Option Nat) :
    Touch w (lookup P w q out).1 (outIdx w out) (fun x => partOf w (outIdx w out) = some x ∧ out.isSome) := by
  unfold lookup
  dsimp only
  apply dropNew_touch
  dsimp only
  cases out with
  | some j =>
    dsimp only [outIdx, lookupCell]
    have hc := clear_touch .fix P w j (fun x => partOf w j = some x ∧ (some j).isSome)
    have hl := lookup_touch P (w.step .fix P (.clear j)).1 j q Subset.all
    exact hc.trans hl (by intro x _ hx; rw [partOf_clear] at hx; exact ⟨hx, rfl⟩)
  | none =>
    dsimp only [outIdx, lookupCell]
    have hn := newList_touch .fix P w w.lists.length (fun x => partOf w w.lists.length = some x ∧ (none : Option Nat).isSome)
    have hc := clear_touch .fix P (w.step .fix P .newList).1 w.lists.length (fun _ => False)
    have hl := lookup_touch P ((w.step .fix P .newList).1.step .fix P (.clear w.lists.length)).1 w.lists.length q Subset.all
    exact (hn.trans hc (fun _ _ h => h.elim)).trans hl (by
      intro x hx hpo
      exfalso
      rw [partOf_clear] at hpo
      have : partOf (w.step .fix P .newList).1 w.lists.length = some w.parts.length := by simp [partOf, World.step]
      rw [this] at hpo
      have : x = w.parts.length := by cases hpo; rfl
      rw [this] at hx; exact Nat.lt_irrefl _ hx)

/-! ## what `tokenize` leaves in its result list -/

/-- nodes of a list and the content of its cell: what every accessor reads -/
def view (w : World E) (j : Nat) : Option (List E × Input E) := (cellOf w j).map (fun x => (x.1.nodes, x.2))

theorem collect_view (w : World E) (j : Nat) (L : MList E) (p : Part E) (path : List E)
    (hL : w.lists[j]? = some L) (hp : w.parts[L.part]? = some p) (ht : w.tok.topPath = some path) :
    (w.collect j).2 = .ok ∧ view (w.collect j).1 j = some (path, w.tok.input) ∧ partOf (w.collect j).1 j = some L.part := by
  have h1 : (w.collect j).2 = .ok := by unfold World.collect; simp [hL, hp, ht]
  have h2 : (w.collect j).1.lists = w.lists.set j { L with nodes := path } := by unfold World.collect; simp [hL, hp, ht]
  have h3 : (w.collect j).1.parts = w.parts.set L.part ⟨w.tok.input, w.tok.subset⟩ := by
    unfold World.collect; simp [hL, hp, ht]
  have hj : j < w.lists.length := by
    rcases Nat.lt_or_ge j w.lists.length with h | h
    · exact h
    · rw [List.getElem?_eq_none h] at hL; cases hL
  have hq : L.part < w.parts.length := by
    rcases Nat.lt_or_ge L.part w.parts.length with h | h
    · exact h
    · rw [List.getElem?_eq_none h] at hp; cases hp
  refine ⟨h1, ?_, ?_⟩
  · unfold view cellOf
    rw [h2, h3, List.getElem?_set_self hj]
    dsimp only
    rw [List.getElem?_set_self hq]
    rfl
  · unfold partOf
    rw [h2, List.getElem?_set_self hj]; rfl

theorem collect_none (w : World E) (j : Nat) (L : MList E) (p : Part E)
    (hL : w.lists[j]? = some L) (hp : w.parts[L.part]? = some p) (ht : w.tok.topPath = none) :
    (w.collect j).2 = .panic := by
  unfold World.collect
  simp [hL, hp, ht]

theorem view_congr (w w' : World E) (k : Nat) (hl : w'.lists = w.lists) (hp : w'.parts = w.parts) :
    view w' k = view w k ∧ partOf w' k = partOf w k := by
  unfold view cellOf partOf; rw [hl, hp]; exact ⟨rfl, rfl⟩

/-- **what `tokenize` returns, for every choice of `out`**: with `t` = the analysis of `text` by the tokenizer in the
effective mode — an exception of a class that depends on `t` only, or the list `outIdx w out` whose view is exactly
`(t's result path, t's input buffer)` and which still points to the cell it pointed to -/
theorem tokenize_view (v : ResetVariant) (P : Payload E) (w : World E) (hok : ListsOk w) (mode : Option Mode)
    (out : Option Nat) (text : List E) (ho : ∀ j, out = some j → j < w.lists.length) :
    let t := (ovr v P mode w).tok.analyse v P text
    let r := tokenize v P w mode out text
    (t.2 = .ok → ∀ path, t.1.topPath = some path →
      r.2 = .list (outIdx w out) ∧ view r.1 (outIdx w out) = some (path, t.1.input) ∧
      (∀ j, out = some j → partOf r.1 j = partOf w j)) ∧
    (t.2 = .ok → t.1.topPath = none → r.2 = .exc "PanicException") ∧
    (t.2 ≠ .ok → r.2 = retOf 0 t.2) := by
  intro t r
  have hf := ovr_fields v P mode w
  have hr : r = ((w.pyTokenize v P mode out text).1, retOf (outIdx w out) (w.pyTokenize v P mode out text).2) := rfl
  rw [pyTokenize_def] at hr
  have hts : t = (ovr v P mode w).tok.analyse v P text := rfl
  rw [← hts] at hr
  refine ⟨?_, ?_, ?_⟩
  · intro hk path hpath
    rw [hk] at hr
    dsimp only at hr
    cases out with
    | some j =>
      dsimp only at hr
      have hj := ho j rfl
      have hL : ({ ovr v P mode w with tok := t.1 } : World E).lists[j]? = some w.lists[j] := by
        show (ovr v P mode w).lists[j]? = _
        rw [hf.1]; exact List.getElem?_eq_getElem hj
      have hq : w.lists[j].part < w.parts.length := hok _ (List.getElem_mem hj)
      have hp : ({ ovr v P mode w with tok := t.1 } : World E).parts[w.lists[j].part]? = some w.parts[w.lists[j].part] := by
        show (ovr v P mode w).parts[_]? = _
        rw [hf.2]; exact List.getElem?_eq_getElem hq
      obtain ⟨c1, c2, c3⟩ := collect_view ({ ovr v P mode w with tok := t.1 } : World E) j _ _ path hL hp hpath
      have hrf := rst_fields v P mode w.tok.mode (({ ovr v P mode w with tok := t.1 } : World E).collect j).1
      have hv := view_congr _ _ j hrf.1 hrf.2
      rw [hr]
      refine ⟨by show retOf j _ = _; rw [c1]; rfl, ?_, ?_⟩
      · show view _ j = _; rw [hv.1, c2]
      · intro j' hj'
        cases hj'
        show partOf _ j = _
        rw [hv.2, c3]
        unfold partOf; rw [List.getElem?_eq_getElem hj]; rfl
    | none =>
      dsimp only at hr
      have hn : (ovr v P mode w).lists.length = w.lists.length := by rw [hf.1]
      have hL : (({ ovr v P mode w with tok := t.1 } : World E).step v P .newList).1.lists[(ovr v P mode w).lists.length]? =
          some ⟨(ovr v P mode w).parts.length, []⟩ := by
        show ((ovr v P mode w).lists ++ [_])[_]? = _
        simp
      have hp : (({ ovr v P mode w with tok := t.1 } : World E).step v P .newList).1.parts[(ovr v P mode w).parts.length]? =
          some (Part.default P) := by
        show ((ovr v P mode w).parts ++ [_])[_]? = _
        simp
      obtain ⟨c1, c2, -⟩ := collect_view (({ ovr v P mode w with tok := t.1 } : World E).step v P .newList).1
        (ovr v P mode w).lists.length ⟨(ovr v P mode w).parts.length, []⟩ (Part.default P) path hL hp hpath
      have hrf := rst_fields v P mode w.tok.mode
        ((({ ovr v P mode w with tok := t.1 } : World E).step v P .newList).1.collect (ovr v P mode w).lists.length).1
      have hv := view_congr _ _ (ovr v P mode w).lists.length hrf.1 hrf.2
      rw [hr]
      refine ⟨by show retOf _ _ = _; rw [c1]; rfl, ?_, ?_⟩
      · show view _ (outIdx w none) = _
        have : outIdx w none = (ovr v P mode w).lists.length := by simp [outIdx, hn]
        rw [this, hv.1, c2]; rfl
      · intro j hj; cases hj
  · intro hk hnone
    rw [hk] at hr
    dsimp only at hr
    cases out with
    | some j =>
      dsimp only at hr
      have hj := ho j rfl
      have hL : ({ ovr v P mode w with tok := t.1 } : World E).lists[j]? = some w.lists[j] := by
        show (ovr v P mode w).lists[j]? = _
        rw [hf.1]; exact List.getElem?_eq_getElem hj
      have hq : w.lists[j].part < w.parts.length := hok _ (List.getElem_mem hj)
      have hp : ({ ovr v P mode w with tok := t.1 } : World E).parts[w.lists[j].part]? = some w.parts[w.lists[j].part] := by
        show (ovr v P mode w).parts[_]? = _
        rw [hf.2]; exact List.getElem?_eq_getElem hq
      have := collect_none ({ ovr v P mode w with tok := t.1 } : World E) j _ _ hL hp hnone
      rw [hr]; show retOf _ _ = _; rw [this]; rfl
    | none =>
      dsimp only at hr
      have hL : (({ ovr v P mode w with tok := t.1 } : World E).step v P .newList).1.lists[(ovr v P mode w).lists.length]? =
          some ⟨(ovr v P mode w).parts.length, []⟩ := by
        show ((ovr v P mode w).lists ++ [_])[_]? = _
        simp
      have hp : (({ ovr v P mode w with tok := t.1 } : World E).step v P .newList).1.parts[(ovr v P mode w).parts.length]? =
          some (Part.default P) := by
        show ((ovr v P mode w).parts ++ [_])[_]? = _
        simp
      have := collect_none (({ ovr v P mode w with tok := t.1 } : World E).step v P .newList).1
        (ovr v P mode w).lists.length ⟨(ovr v P mode w).parts.length, []⟩ (Part.default P) hL hp hnone
      rw [hr]; show retOf _ _ = _; rw [this]; rfl
  · intro hne
    rw [hr]
    cases hk : t.2 with
    | ok => exact absurd hk hne
    | err e => rfl
    | panic => rfl

/-- two lists pointing to the same cell read the same text -/
theorem same_cell_same_text (u : World E) (k o : Nat) (h : partOf u k = partOf u o) (hk : (partOf u k).isSome = true) :
    (cellOf u k).map (·.2) = (cellOf u o).map (·.2) := by
  unfold partOf at h hk
  unfold cellOf
  cases hLk : u.lists[k]? with
  | none => rw [hLk] at hk; cases hk
  | some Lk =>
    cases hLo : u.lists[o]? with
    | none => rw [hLk, hLo] at h; cases h
    | some Lo =>
      rw [hLk, hLo] at h
      have : Lk.part = Lo.part := by simpa using h
      dsimp only
      rw [this]
      cases u.parts[Lo.part]? <;> rfl

/-! ## every list always has a cell -/

theorem copySlice_listsOk (w : World E) (i idx j : Nat) (h : ListsOk w) : ListsOk (copySlice w i idx j).1 := by
  unfold copySlice
  cases hLi : w.lists[i]? with
  | none => exact h
  | some Li =>
    cases hLj : w.lists[j]? with
    | none => exact h
    | some Lj =>
      dsimp only
      have hp := h Li (mem_of_getElem?_some _ _ _ hLi)
      cases Li.nodes[idx]? with
      | none => exact listsOk_set w j _ _ h rfl hp
      | some node => exact listsOk_set w j _ _ h rfl hp

theorem pyTokenize_listsOk (v : ResetVariant) (P : Payload E) (w : World E) (mode : Option Mode) (out : Option Nat)
    (text : List E) (h : ListsOk w) : ListsOk (w.pyTokenize v P mode out text).1 := by
  have := pyTokenize_eq_run v P w mode out text
  dsimp only at this
  rw [this]
  exact run_listsOk v _ w h

theorem dropNew_listsOk (w : World E) (out : Option Nat) (r : World E × Ret) (hw : ListsOk w) (h : ListsOk r.1) :
    ListsOk (dropNew w out r).1 := by
  unfold dropNew
  split
  · exact h
  · dsimp only; split <;> assumption

theorem splitCore_listsOk (P : Payload E) (w1 : World E) (i idx : Nat) (a : SplitArgs) (j : Nat) (h : ListsOk w1) :
    ListsOk (splitCore P w1 i idx a j).1 := by
  unfold splitCore
  have hs : ListsOk (w1.splitInto P i idx a.mode j).1 := Recycle.step_listsOk .fix P w1 (.splitInto i idx a.mode j) h
  rcases hsp : w1.splitInto P i idx a.mode j with ⟨w2, o⟩
  rw [hsp] at hs
  cases o with
  | ok =>
    dsimp only
    by_cases hu : a.unwinds = true
    · rw [if_pos hu]; exact hs
    · rw [if_neg hu]
      by_cases hc : (PyGlue.addSingleOf a.addSingle && !hasNodes w2 j) = true
      · rw [if_pos hc]
        have h3 := copySlice_listsOk w2 i idx j hs
        rcases hcs : copySlice w2 i idx j with ⟨w3, o3⟩
        rw [hcs] at h3
        cases o3 <;> exact h3
      · rw [if_neg hc]; exact hs
  | err e => exact hs
  | panic => exact hs

theorem step_listsOk (v : ResetVariant) (P : Payload E) (w : World E) (c : Call E) (h : ListsOk w) :
    ListsOk (step v P w c).1 := by
  cases c with
  | tokenize mode out text => exact pyTokenize_listsOk v P w mode out text h
  | lookup q out =>
    show ListsOk (lookup P w q out).1
    unfold lookup
    dsimp only
    apply dropNew_listsOk _ _ _ h
    have h0 : ListsOk (lookupCell P w out) := by
      unfold lookupCell
      cases out with
      | none => exact Recycle.step_listsOk .fix P w .newList h
      | some j => exact h
    have h1 := Recycle.step_listsOk .fix P _ (.clear (outIdx w out)) h0
    exact Recycle.step_listsOk .fix P _ (.lookup (outIdx w out) q) h1
  | split i idx a =>
    show ListsOk (split P w i idx a).1
    unfold split
    split
    · exact h
    · split
      · exact h
      · dsimp only
        apply dropNew_listsOk _ _ _ h
        have h0 : ListsOk (splitCell P w i a.out) := by
          unfold splitCell
          cases a.out with
          | none => exact Recycle.step_listsOk .fix P w (.emptyClone i) h
          | some j => exact h
        exact splitCore_listsOk P _ i idx a _ (Recycle.step_listsOk .fix P _ (.clear (outIdx w a.out)) h0)

theorem run_listsOk (v : ResetVariant) (calls : List (Payload E × Call E)) (w : World E) (h : ListsOk w) :
    ListsOk (run v w calls).1 := by
  induction calls generalizing w with
  | nil => exact h
  | cons x rest ih =>
    obtain ⟨P, c⟩ := x
    exact ih _ (step_listsOk v P w c h)

theorem cellOf_isSome (w : World E) (h : ListsOk w) (k : Nat) (hk : k < w.lists.length) : (cellOf w k).isSome = true := by
  unfold cellOf
  rw [List.getElem?_eq_getElem hk]
  dsimp only
  have := h w.lists[k] (List.getElem_mem hk)
  rw [List.getElem?_eq_getElem this]
  rfl


end PySession
