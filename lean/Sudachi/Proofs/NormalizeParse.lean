import Sudachi.Proofs.Normalize
/-!
# `read_rewrite_lists`: the reader of `rewrite.def`, line by line (C07)

`parseDef` (`Model/Normalize.lean`) is the loop of `read_rewrite_lists`: `BufRead::lines` (split at `\n`; a
trailing `\r` is white space to the `trim` that follows, the empty piece after a final `\n` is a blank
line), `trim`, skip blank lines and lines starting with `#`, `split_whitespace` (Unicode `White_Space`, so the
ideographic space U+3000, TAB, NBSP … separate columns too), one column = exempt character (must be ONE
scalar), two columns = key/value (a key defined twice is an error), anything else is an error.
`key_lengths` is filled by the real reader but never read (dead data) and is not modelled.
Here: what the reader accepts and what table it yields, declaratively.
-/
namespace Normalize

/-! ## columns -/

def WordOk (w : List Nat) : Prop := w ≠ [] ∧ ∀ c ∈ w, isWhite c = false

theorem wordsGo_ok : ∀ (s cur : List Nat) (acc : List (List Nat)), (∀ c ∈ cur, isWhite c = false) →
    (∀ w ∈ acc, WordOk w) → ∀ w ∈ wordsGo s cur acc, WordOk w := by
  intro s
  induction s with
  | nil =>
    intro cur acc hc ha w hw
    simp only [wordsGo] at hw
    split at hw
    · exact ha w hw
    · rename_i hne
      rcases List.mem_cons.mp hw with rfl | hw
      · exact ⟨by simpa using hne, fun c hc' => hc c (by simpa using hc')⟩
      · exact ha w hw
  | cons c cs ih =>
    intro cur acc hc ha w hw
    simp only [wordsGo] at hw
    split at hw
    · split at hw
      · exact ih [] acc (by simp) ha w hw
      · rename_i hne
        refine ih [] (cur.reverse :: acc) (by simp) ?_ w hw
        intro x hx
        rcases List.mem_cons.mp hx with rfl | hx
        · exact ⟨by simpa using hne, fun d hd => hc d (by simpa using hd)⟩
        · exact ha x hx
    · rename_i hw'
      refine ih (c :: cur) acc ?_ ha w hw
      intro d hd
      rcases List.mem_cons.mp hd with rfl | hd
      · simpa using hw'
      · exact hc d hd

/-- every column `split_whitespace` yields is non-empty and free of white space -/
theorem wordsOf_ok (s : List Nat) : ∀ w ∈ wordsOf s, WordOk w := by
  intro w hw
  exact wordsGo_ok s [] [] (by simp) (by simp) w (by simpa [wordsOf] using hw)

theorem wordsGo_flatten : ∀ (s cur : List Nat) (acc : List (List Nat)),
    (wordsGo s cur acc).reverse.flatten = acc.reverse.flatten ++ cur.reverse ++ s.filter (fun c => !isWhite c) := by
  intro s
  induction s with
  | nil =>
    intro cur acc
    simp only [wordsGo]
    split
    · rename_i h; have : cur = [] := by simpa using h
      simp [this]
    · simp
  | cons c cs ih =>
    intro cur acc
    simp only [wordsGo]
    split
    · rename_i hw
      split
      · rename_i h; have : cur = [] := by simpa using h
        rw [ih]; simp [this, hw]
      · rw [ih]; simp [hw]
    · rename_i hw
      rw [ih]; simp [hw]

/-- the columns, concatenated, are the line without its white space: nothing is lost, nothing invented -/
theorem wordsOf_flatten (s : List Nat) : (wordsOf s).flatten = s.filter (fun c => !isWhite c) := by
  have := wordsGo_flatten s [] []
  simpa [wordsOf] using this

/-! ## lines -/

inductive LineKind where
  | skip                          -- blank, or a comment
  | exempt (c : Nat)              -- one column of one scalar
  | pair (k v : List Nat)         -- two columns
  | bad                           -- one column of several scalars, or three and more columns
deriving DecidableEq

def classify (line : List Nat) : LineKind :=
  match wordsOf line with
  | [] => .skip
  | (35 :: _) :: _ => .skip
  | [[c]] => .exempt c
  | [_] => .bad
  | [k, v] => .pair k v
  | _ => .bad

def pairOf (line : List Nat) : Option Pair :=
  match classify line with
  | .pair k v => some (k, v)
  | _ => none

def exemptOf (line : List Nat) : Option Nat :=
  match classify line with
  | .exempt c => some c
  | _ => none

/-- one iteration of the loop, by kind of line -/
theorem parseStep_classify (t : Table) (line : List Nat) :
    parseStep t line = (match classify line with
      | .skip => some t
      | .exempt c => some { t with ignore := c :: t.ignore }
      | .pair k v => if t.pairs.any (fun p => p.1 == k) then none else some { t with pairs := t.pairs ++ [(k, v)] }
      | .bad => none) := by
  unfold parseStep classify
  generalize wordsOf line = ws
  match ws with
  | [] => rfl
  | [[]] => rfl
  | [[], _] => rfl
  | [] :: _ :: _ :: _ => rfl
  | (c :: cs) :: rest =>
    by_cases hc : c = 35
    · subst hc; rfl
    · match rest, cs with
      | [], [] => split <;> (try split) <;> simp_all
      | [], _ :: _ => split <;> (try split) <;> simp_all
      | [v], _ => split <;> (try split) <;> simp_all
      | _ :: _ :: _, _ => split <;> (try split) <;> simp_all

/-- **What a successful read yields** (soundness, any starting table): no line was malformed, the key/value
list is the old one followed by the two-column lines IN FILE ORDER, the exempt set is the one-column
characters (pushed in front), and no key of a two-column line was already defined. -/
theorem parseLines_sound : ∀ (ls : List (List Nat)) (t T : Table), parseLines ls t = some T →
    (∀ l ∈ ls, classify l ≠ .bad) ∧ T.pairs = t.pairs ++ ls.filterMap pairOf ∧
    T.ignore = (ls.filterMap exemptOf).reverse ++ t.ignore ∧
    ((t.pairs.map (·.1)).Nodup → (T.pairs.map (·.1)).Nodup) := by
  intro ls
  induction ls with
  | nil => intro t T h; simp only [parseLines, Option.some.injEq] at h; subst h; simp
  | cons l ls ih =>
    intro t T h
    simp only [parseLines] at h
    rw [parseStep_classify] at h
    cases hc : classify l with
    | skip =>
      rw [hc] at h
      obtain ⟨h1, h2, h3, h4⟩ := ih t T h
      refine ⟨?_, ?_, ?_, h4⟩
      · intro x hx; rcases List.mem_cons.mp hx with rfl | hx
        · rw [hc]; simp
        · exact h1 x hx
      · simp [pairOf, hc, h2]
      · simp [exemptOf, hc, h3]
    | exempt c =>
      rw [hc] at h
      obtain ⟨h1, h2, h3, h4⟩ := ih _ T h
      refine ⟨?_, ?_, ?_, h4⟩
      · intro x hx; rcases List.mem_cons.mp hx with rfl | hx
        · rw [hc]; simp
        · exact h1 x hx
      · simp [pairOf, hc, h2]
      · simp [exemptOf, hc, h3]
    | pair k v =>
      rw [hc] at h
      simp only at h
      by_cases hdup : (t.pairs.any fun p => p.1 == k) = true
      · rw [if_pos hdup] at h; cases h
      · rw [if_neg hdup] at h
        obtain ⟨h1, h2, h3, h4⟩ := ih _ T h
        refine ⟨?_, ?_, ?_, ?_⟩
        · intro x hx; rcases List.mem_cons.mp hx with rfl | hx
          · rw [hc]; simp
          · exact h1 x hx
        · rw [h2]; simp [pairOf, hc]
        · rw [h3]; simp [exemptOf, hc]
        · intro hnd
          apply h4
          simp only [List.map_append, List.map_cons, List.map_nil]
          rw [List.nodup_append]
          refine ⟨hnd, by simp, ?_⟩
          intro a ha b hb
          simp only [List.mem_cons, List.not_mem_nil, or_false] at hb
          subst hb
          intro hab; subst hab
          apply hdup
          obtain ⟨p, hp, hpa⟩ := List.mem_map.mp ha
          simp only [List.any_eq_true, beq_iff_eq]
          exact ⟨p, hp, hpa⟩
    | bad => rw [hc] at h; cases h

/-- **When the read succeeds** (completeness): if no line is malformed and the keys of the old table and of
the two-column lines are pairwise distinct, the reader returns a table. -/
theorem parseLines_complete : ∀ (ls : List (List Nat)) (t : Table), (∀ l ∈ ls, classify l ≠ .bad) →
    ((t.pairs ++ ls.filterMap pairOf).map (·.1)).Nodup → ∃ T, parseLines ls t = some T := by
  intro ls
  induction ls with
  | nil => intro t _ _; exact ⟨t, rfl⟩
  | cons l ls ih =>
    intro t hb hnd
    simp only [parseLines]
    rw [parseStep_classify]
    have hbl := hb l (by simp)
    have hbs : ∀ x ∈ ls, classify x ≠ .bad := fun x hx => hb x (List.mem_cons_of_mem _ hx)
    cases hc : classify l with
    | skip => simp only; exact ih t hbs (by simpa [pairOf, hc] using hnd)
    | exempt c => simp only; exact ih _ hbs (by simpa [pairOf, hc] using hnd)
    | bad => exact absurd hc hbl
    | pair k v =>
      simp only
      have hnd' : ((t.pairs ++ [(k, v)] ++ ls.filterMap pairOf).map (·.1)).Nodup := by
        simpa [pairOf, hc] using hnd
      have hnot : ¬ (t.pairs.any (fun p => p.1 == k) = true) := by
        intro hany
        simp only [List.any_eq_true, beq_iff_eq] at hany
        obtain ⟨p, hp, hpk⟩ := hany
        simp only [List.map_append, List.map_cons, List.map_nil, List.append_assoc] at hnd'
        rw [List.nodup_append] at hnd'
        exact hnd'.2.2 p.1 (List.mem_map.mpr ⟨p, hp, rfl⟩) k (by simp) hpk
      rw [if_neg hnot]
      exact ih _ hbs hnd'

end Normalize
