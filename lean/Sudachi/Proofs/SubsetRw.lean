import Sudachi.Model.SubsetRw
import Sudachi.Proofs.SubsetTok
/-!
# Proofs for subset loading in front of the path-rewrite plugins (C11, second clause)

I.  `er k m` erases from a plugin node every word-info field that the plugin stack and `split_path`
    never read in mode `m` (reading form, dictionary form and its id, word structure, synonym ids,
    the split list of the other modes) and keeps what they do read: ranges, word id, POS id,
    head-word length, surface, normalised form, the split list of the mode.  Every function of the
    plugin model commutes with `er` (`rewriteAll_er`): the plugins' decisions and the merged nodes
    depend on the kept fields only.
J.  the analysis `tokenizeRw` under two requests that agree on the kept fields.
-/
namespace Subset
open Rewrite (Node Outcome)

/-! ## I. the plugin stack reads the kept fields only -/

def er (k : Bool) (m : Mode) (n : Node) : Node :=
  { n with dfw := 0, wStruct := [], syn := [], reading := [], dform := [],
           aSplit := if m = .A then n.aSplit else [], bSplit := if m = .B then n.bSplit else [],
           pos := if k then n.pos else 0, surface := if k then n.surface else [],
           norm := if k then n.norm else [] }

def omap {α β : Type} (f : α → β) : Outcome α → Outcome β
  | .ok a => .ok (f a)
  | .err => .err
  | .panic => .panic
  | .fuel => .fuel

theorem block_map (f : Node → Node) (p : List Node) (b e : Nat) :
    Rewrite.block (p.map f) b e = (Rewrite.block p b e).map f := by
  simp [Rewrite.block, List.map_take, List.map_drop]

theorem sumHwl_er (k : Bool) (m : Mode) (blk : List Node) : Rewrite.sumHwl (blk.map (er k m)) = Rewrite.sumHwl blk := by
  simp [Rewrite.sumHwl, List.foldl_map, er]

theorem catSurface_er (m : Mode) (blk : List Node) : Rewrite.catSurface (blk.map (er true m)) = Rewrite.catSurface blk := by
  simp [Rewrite.catSurface, List.flatMap_map, er]

theorem maxWid_er (k : Bool) (m : Mode) (blk : List Node) : Rewrite.maxWid (blk.map (er k m)) = Rewrite.maxWid blk := by
  simp [Rewrite.maxWid, List.foldl_map, er]
  rfl

theorem flatMap_norm_er (m : Mode) (blk : List Node) :
    (blk.map (er true m)).flatMap (·.norm) = blk.flatMap (·.norm) := by
  simp [List.flatMap_map, er]

theorem er_er (k : Bool) (m : Mode) (n : Node) : er k m (er k m n) = er k m n := by
  cases m <;> cases k <;> simp [er]

theorem map_er_er (k : Bool) (m : Mode) (p : List Node) : (p.map (er k m)).map (er k m) = p.map (er k m) := by
  simp [List.map_map, Function.comp_def, er_er]

theorem mergedNode_er (k : Bool) (m : Mode) (f l : Node) (blk : List Node) (nf : Option (List Char)) :
    er k m (Rewrite.mergedNode (er k m f) (er k m l) (blk.map (er k m)) nf) = er k m (Rewrite.mergedNode f l blk nf) := by
  cases k with
  | false => simp [Rewrite.mergedNode, sumHwl_er, er]
  | true =>
    simp only [Rewrite.mergedNode, sumHwl_er, catSurface_er, flatMap_norm_er]
    cases nf <;> simp [er]

theorem mergedOovNode_er (k : Bool) (m : Mode) (f l : Node) (blk : List Node) (pos : Nat) :
    er k m (Rewrite.mergedOovNode (er k m f) (er k m l) (blk.map (er k m)) pos) = er k m (Rewrite.mergedOovNode f l blk pos) := by
  cases k with
  | false => simp [Rewrite.mergedOovNode, sumHwl_er, maxWid_er, er]
  | true =>
    simp only [Rewrite.mergedOovNode, sumHwl_er, catSurface_er, maxWid_er]
    simp [er]

/-- same outcome class, and equal paths after erasure -/
inductive OSim (k : Bool) (m : Mode) : Outcome (List Node) → Outcome (List Node) → Prop
  | ok {p q : List Node} : p.map (er k m) = q.map (er k m) → OSim k m (.ok p) (.ok q)
  | err : OSim k m .err .err
  | panic : OSim k m .panic .panic
  | fuel : OSim k m .fuel .fuel

theorem OSim.refl (k : Bool) (m : Mode) (o : Outcome (List Node)) : OSim k m o o := by
  cases o <;> constructor; rfl

theorem OSim.symm {k : Bool} {m : Mode} {a b : Outcome (List Node)} (h : OSim k m a b) : OSim k m b a := by
  cases h with
  | ok h => exact .ok h.symm
  | err => exact .err
  | panic => exact .panic
  | fuel => exact .fuel

theorem OSim.trans {k : Bool} {m : Mode} {a b c : Outcome (List Node)} (h1 : OSim k m a b) (h2 : OSim k m b c) : OSim k m a c := by
  cases h1 with
  | ok h1 => cases h2 with
    | ok h2 => exact .ok (h1.trans h2)
  | err => cases h2; exact .err
  | panic => cases h2; exact .panic
  | fuel => cases h2; exact .fuel

theorem concatNodes_self (k : Bool) (m : Mode) (p : List Node) (b e : Nat) (nf : Option (List Char)) :
    OSim k m (Rewrite.concatNodes (p.map (er k m)) b e nf) (Rewrite.concatNodes p b e nf) := by
  unfold Rewrite.concatNodes
  by_cases hbe : b ≥ e
  · simp only [hbe, if_true]; exact .err
  · simp only [hbe, if_false, List.getElem?_map]
    cases hl : p[e - 1]? with
    | none => simp only [Option.map_none]; exact .panic
    | some l =>
      cases hf : p[b]? with
      | none => simp only [Option.map_none, Option.map_some]; exact .panic
      | some f =>
        simp only [Option.map_some, block_map, sumHwl_er]
        have e1 : (er k m l).eb = l.eb := rfl
        have e2 : (er k m f).bb = f.bb := rfl
        rw [e1, e2]
        by_cases h1 : l.eb < f.bb
        · simp only [h1, if_true]; exact .panic
        · simp only [h1, if_false]
          by_cases h2 : Rewrite.sumHwl (Rewrite.block p b e) ≥ 65536
          · simp only [h2, if_true]; exact .panic
          · simp only [h2, if_false]
            refine .ok ?_
            simp only [List.map_append, List.map_cons, List.map_take, List.map_drop, map_er_er, mergedNode_er]

theorem concatOovNodes_self (k : Bool) (m : Mode) (p : List Node) (b e : Nat) (pos : Nat) :
    OSim k m (Rewrite.concatOovNodes (p.map (er k m)) b e pos) (Rewrite.concatOovNodes p b e pos) := by
  unfold Rewrite.concatOovNodes
  by_cases hbe : b ≥ e
  · simp only [hbe, if_true]; exact .err
  · simp only [hbe, if_false, List.getElem?_map]
    cases hl : p[e - 1]? with
    | none => simp only [Option.map_none]; exact .panic
    | some l =>
      cases hf : p[b]? with
      | none => simp only [Option.map_none, Option.map_some]; exact .panic
      | some f =>
        simp only [Option.map_some, block_map, sumHwl_er]
        have e1 : (er k m l).eb = l.eb := rfl
        have e2 : (er k m f).bb = f.bb := rfl
        rw [e1, e2]
        by_cases h1 : l.eb < f.bb
        · simp only [h1, if_true]; exact .panic
        · simp only [h1, if_false]
          by_cases h2 : Rewrite.sumHwl (Rewrite.block p b e) ≥ 65536
          · simp only [h2, if_true]; exact .panic
          · simp only [h2, if_false]
            refine .ok ?_
            simp only [List.map_append, List.map_cons, List.map_take, List.map_drop, map_er_er, mergedOovNode_er]

theorem concatNodes_sim (k : Bool) (m : Mode) {p q : List Node} (h : p.map (er k m) = q.map (er k m)) (b e : Nat) (nf : Option (List Char)) :
    OSim k m (Rewrite.concatNodes p b e nf) (Rewrite.concatNodes q b e nf) := by
  have h1 := (concatNodes_self k m p b e nf).symm
  have h2 := concatNodes_self k m q b e nf
  rw [h] at h1
  exact h1.trans h2

theorem concatOovNodes_sim (k : Bool) (m : Mode) {p q : List Node} (h : p.map (er k m) = q.map (er k m)) (b e pos : Nat) :
    OSim k m (Rewrite.concatOovNodes p b e pos) (Rewrite.concatOovNodes q b e pos) := by
  have h1 := (concatOovNodes_self k m p b e pos).symm
  have h2 := concatOovNodes_self k m q b e pos
  rw [h] at h1
  exact h1.trans h2

/-- what two paths that are equal after erasure share -/
theorem rel_length {k : Bool} {m : Mode} {p q : List Node} (h : p.map (er k m) = q.map (er k m)) : p.length = q.length := by
  have := congrArg List.length h
  simpa using this

theorem rel_get {k : Bool} {m : Mode} {p q : List Node} (h : p.map (er k m) = q.map (er k m)) (i : Nat) :
    (p[i]?).map (er k m) = (q[i]?).map (er k m) := by
  rw [← List.getElem?_map, ← List.getElem?_map, h]

/-! ### `JoinKatakanaOovPlugin` -/

theorem scanBackL_er (k : Bool) (m : Mode) (cat : List Nat) (l : List Node) (j : Nat) :
    Rewrite.scanBackL cat (l.map (er k m)) j = Rewrite.scanBackL cat l j := by
  induction l generalizing j with
  | nil => rfl
  | cons n r ih =>
    simp only [List.map_cons, Rewrite.scanBackL]
    have : Rewrite.isKatakana cat (er k m n) = Rewrite.isKatakana cat n := rfl
    rw [this]
    cases Rewrite.isKatakana cat n with
    | ok b => cases b <;> simp [ih]
    | err => rfl
    | panic => rfl
    | fuel => rfl

theorem scanFwdL_er (k : Bool) (m : Mode) (cat : List Nat) (l : List Node) (j : Nat) :
    Rewrite.scanFwdL cat (l.map (er k m)) j = Rewrite.scanFwdL cat l j := by
  induction l generalizing j with
  | nil => rfl
  | cons n r ih =>
    simp only [List.map_cons, Rewrite.scanFwdL]
    have : Rewrite.isKatakana cat (er k m n) = Rewrite.isKatakana cat n := rfl
    rw [this]
    cases Rewrite.isKatakana cat n with
    | ok b => cases b <;> simp [ih]
    | err => rfl
    | panic => rfl
    | fuel => rfl

theorem skipBowL_er (k : Bool) (m : Mode) (cat : List Nat) (l : List Node) (j : Nat) :
    Rewrite.skipBowL cat (l.map (er k m)) j = Rewrite.skipBowL cat l j := by
  induction l generalizing j with
  | nil => rfl
  | cons n r ih =>
    simp only [List.map_cons, Rewrite.skipBowL]
    have : Rewrite.canOovBow cat (er k m n) = Rewrite.canOovBow cat n := rfl
    rw [this]
    cases Rewrite.canOovBow cat n with
    | ok b => cases b <;> simp [ih]
    | err => rfl
    | panic => rfl
    | fuel => rfl

theorem kstep_er (k : Bool) (m : Mode) (cfg : Rewrite.KCfg) (cat : List Nat) (p : List Node) (i : Nat) (n : Node) :
    Rewrite.kstep cfg cat (p.map (er k m)) i (er k m n) = Rewrite.kstep cfg cat p i n := by
  have a1 : Rewrite.isOov (er k m n) = Rewrite.isOov n := rfl
  have a2 : Rewrite.isShorter cfg (er k m n) = Rewrite.isShorter cfg n := rfl
  have a3 : Rewrite.isKatakana cat (er k m n) = Rewrite.isKatakana cat n := rfl
  have b1 : Rewrite.scanBack cat (p.map (er k m)) i = Rewrite.scanBack cat p i := by
    simp only [Rewrite.scanBack, ← List.map_take, ← List.map_reverse, scanBackL_er]
  have b2 : Rewrite.scanFwd cat (p.map (er k m)) i = Rewrite.scanFwd cat p i := by
    simp only [Rewrite.scanFwd, ← List.map_drop, scanFwdL_er]
  have b3 : ∀ b e, Rewrite.skipBow cat (p.map (er k m)) b e = Rewrite.skipBow cat p b e := by
    intro b e
    simp only [Rewrite.skipBow, block_map, skipBowL_er]
  simp only [Rewrite.kstep, a1, a2, a3, b1, b2, b3]

theorem kstep_sim (k : Bool) (m : Mode) (cfg : Rewrite.KCfg) (cat : List Nat) {p q : List Node} (h : p.map (er k m) = q.map (er k m))
    (i : Nat) {n1 n2 : Node} (hn : er k m n1 = er k m n2) :
    Rewrite.kstep cfg cat p i n1 = Rewrite.kstep cfg cat q i n2 := by
  rw [← kstep_er k m cfg cat p i n1, ← kstep_er k m cfg cat q i n2, h, hn]

theorem kloop_sim (k : Bool) (m : Mode) (cfg : Rewrite.KCfg) (cat : List Nat) :
    ∀ (fuel : Nat) (p q : List Node) (i : Nat), p.map (er k m) = q.map (er k m) →
      OSim k m (Rewrite.kloop cfg cat fuel p i) (Rewrite.kloop cfg cat fuel q i) := by
  intro fuel
  induction fuel with
  | zero => intro p q i _; exact .fuel
  | succ fuel ih =>
    intro p q i h
    unfold Rewrite.kloop
    rw [rel_length h]
    by_cases hi : i ≥ q.length
    · simp only [hi, if_true]; exact .ok h
    · simp only [hi, if_false]
      have hg := rel_get h i
      cases h1 : p[i]? with
      | none =>
        rw [h1] at hg
        cases h2 : q[i]? with
        | none => exact .panic
        | some n2 => rw [h2] at hg; simp at hg
      | some n1 =>
        rw [h1] at hg
        cases h2 : q[i]? with
        | none => rw [h2] at hg; simp at hg
        | some n2 =>
          rw [h2] at hg
          simp only [Option.map_some, Option.some.injEq] at hg
          simp only [kstep_sim k m cfg cat h i hg]
          cases hk : Rewrite.kstep cfg cat q i n2 with
          | err => exact .err
          | panic => exact .panic
          | fuel => exact .fuel
          | ok st =>
            cases st with
            | next => exact ih p q (i + 1) h
            | join b e =>
              simp only []
              have hc := concatOovNodes_sim k m h b e cfg.oovPos
              revert hc
              generalize Rewrite.concatOovNodes p b e cfg.oovPos = o1
              generalize Rewrite.concatOovNodes q b e cfg.oovPos = o2
              intro hc
              cases hc with
              | ok hpq => exact ih _ _ (b + 2) hpq
              | err => exact .err
              | panic => exact .panic
              | fuel => exact .fuel

theorem joinKatakana_sim (k : Bool) (m : Mode) (cfg : Rewrite.KCfg) (cat : List Nat) {p q : List Node} (h : p.map (er k m) = q.map (er k m)) :
    OSim k m (Rewrite.joinKatakana cfg cat p) (Rewrite.joinKatakana cfg cat q) := by
  unfold Rewrite.joinKatakana Rewrite.kFuel
  rw [rel_length h]
  exact kloop_sim k m cfg cat _ p q 0 h

/-! ### `JoinNumericPlugin` -/

theorem normForm_er (m : Mode) (n : Node) : Rewrite.normForm (er true m n) = Rewrite.normForm n := rfl

theorem nconcat_self (m : Mode) (cfg : Rewrite.NCfg) (P : List Char → Rewrite.POut) (p : List Node) (b e : Nat)
    (acc : List Char) :
    OSim true m (Rewrite.nconcat cfg P (p.map (er true m)) b e acc) (Rewrite.nconcat cfg P p b e acc) := by
  unfold Rewrite.nconcat
  simp only [List.getElem?_map]
  cases hf : p[b]? with
  | none => exact .panic
  | some f =>
    simp only [Option.map_some, normForm_er]
    have e1 : (er true m f).pos = f.pos := rfl
    rw [e1]
    by_cases h1 : (f.pos != cfg.numPos) = true
    · simp only [h1, if_true]; exact .ok (map_er_er true m p)
    · simp only [h1]
      by_cases h0 : e < b
      · simp only [h0, if_true]; exact .panic
      simp only [h0, if_false]
      by_cases h2 : cfg.enableNormalize = true
      · simp only [h2, if_true]
        by_cases h3 : (decide (e - b > 1) || (P acc).norm != Rewrite.normForm f) = true
        · simp only [h3, if_true]; exact concatNodes_self true m p b e _
        · simp only [h3]; exact .ok (map_er_er true m p)
      · simp only [h2]
        by_cases h3 : e - b > 1
        · simp only [h3, if_true]; exact concatNodes_self true m p b e _
        · simp only [h3, if_false]; exact .ok (map_er_er true m p)

def erS (m : Mode) (st : Rewrite.NState) : Rewrite.NState := { st with path := st.path.map (er true m) }

theorem erS_erS (m : Mode) (st : Rewrite.NState) : erS m (erS m st) = erS m st := by
  cases st; simp only [erS, map_er_er]

/-- same outcome class, and equal loop states after erasure of the path -/
inductive NSim (m : Mode) : Outcome Rewrite.NState → Outcome Rewrite.NState → Prop
  | ok {s t : Rewrite.NState} : erS m s = erS m t → NSim m (.ok s) (.ok t)
  | err : NSim m .err .err
  | panic : NSim m .panic .panic
  | fuel : NSim m .fuel .fuel

theorem NSim.symm {m : Mode} {a b : Outcome Rewrite.NState} (h : NSim m a b) : NSim m b a := by
  cases h with
  | ok h => exact .ok h.symm
  | err => exact .err
  | panic => exact .panic
  | fuel => exact .fuel

theorem NSim.trans {m : Mode} {a b c : Outcome Rewrite.NState} (h1 : NSim m a b) (h2 : NSim m b c) : NSim m a c := by
  cases h1 with
  | ok h1 => cases h2 with
    | ok h2 => exact .ok (h1.trans h2)
  | err => cases h2; exact .err
  | panic => cases h2; exact .panic
  | fuel => cases h2; exact .fuel

theorem nstep_self' (m : Mode) (v : Rewrite.NVariant) (cfg : Rewrite.NCfg) (cat : List Nat) (P : List Char → Rewrite.POut)
    (path : List Node) (i bi : Int) (comma period : Bool) (acc : List Char) :
    NSim m (Rewrite.nstep v cfg cat P
        { path := List.map (er true m) path, i := i, beginIdx := bi, comma := comma, period := period, acc := acc })
      (Rewrite.nstep v cfg cat P
        { path := path, i := i, beginIdx := bi, comma := comma, period := period, acc := acc }) := by
  unfold Rewrite.nstep
  simp only [List.getElem?_map]
  by_cases hneg : i + 1 < 0
  · simp only [hneg, if_true]; exact .panic
  · simp only [hneg, if_false]
    cases hn : path[(i + 1).toNat]? with
    | none => exact .panic
    | some node =>
      simp only [Option.map_some]
      dsimp only [normForm_er]
      have eb : (er true m node).b = node.b := rfl
      have ee : (er true m node).e = node.e := rfl
      rw [eb, ee]
      cases hc : Rewrite.catOfRange cat node.b node.e with
      | none => exact .panic
      | some ctypes =>
        simp only []
        have okk : ∀ (i' b' : Int) (c' p' : Bool) (a' : List Char),
            NSim m (.ok { path := List.map (er true m) path, i := i', beginIdx := b', comma := c', period := p', acc := a' })
              (.ok { path := path, i := i', beginIdx := b', comma := c', period := p', acc := a' }) :=
          fun _ _ _ _ _ => .ok (by simp only [erS, map_er_er])
        by_cases hcand : (Rewrite.isNumericCat ctypes || comma && Rewrite.normForm node == [','] ||
            period && Rewrite.normForm node == ['.']) = true
        · -- numeric candidate: no node is produced, only the loop variables move
          simp only [hcand, if_true]
          by_cases hfail : (P ((if bi < 0 then [] else acc) ++ Rewrite.normForm node)).n <
              ((if bi < 0 then [] else acc) ++ Rewrite.normForm node).length
          · simp only [hfail, if_true]
            cases v with
            | cur =>
              simp only []
              by_cases h1 : ((P ((if bi < 0 then [] else acc) ++ Rewrite.normForm node)).err == Rewrite.E_COMMA) = true
              · simp only [h1, if_true]; exact okk _ _ _ _ _
              · simp only [h1]
                by_cases h2 : ((P ((if bi < 0 then [] else acc) ++ Rewrite.normForm node)).err == Rewrite.E_POINT) = true
                · simp only [h2, if_true]; exact okk _ _ _ _ _
                · simp only [h2]; exact okk _ _ _ _ _
            | fix =>
              simp only []
              by_cases h1 : ((P ((if bi < 0 then [] else acc) ++ Rewrite.normForm node)).err == Rewrite.E_COMMA && comma) = true
              · simp only [h1, if_true]; exact okk _ _ _ _ _
              · simp only [h1]
                by_cases h2 : ((P ((if bi < 0 then [] else acc) ++ Rewrite.normForm node)).err == Rewrite.E_POINT && period) = true
                · simp only [h2, if_true]; exact okk _ _ _ _ _
                · simp only [h2]; exact okk _ _ _ _ _
          · simp only [hfail, if_false]; exact okk _ _ _ _ _
        · simp only [hcand]
          by_cases hb : bi ≥ 0
          · simp only [hb, if_true]
            by_cases hd : (P acc).done = true
            · simp only [hd, if_true]
              have hc := nconcat_self m cfg P path bi.toNat (i + 1).toNat acc
              revert hc
              generalize Rewrite.nconcat cfg P (List.map (er true m) path) bi.toNat (i + 1).toNat acc = o1
              generalize Rewrite.nconcat cfg P path bi.toNat (i + 1).toNat acc = o2
              intro hc
              cases hc with
              | ok hpq => exact .ok (by simp only [erS, hpq] <;> rfl)
              | err => exact .err
              | panic => exact .panic
              | fuel => exact .fuel
            · simp only [hd]
              by_cases h1 : (i + 1).toNat < 1
              · simp only [h1, if_true]; exact .panic
              · simp only [h1, if_false]
                cases hp : path[(i + 1).toNat - 1]? with
                | none => exact .panic
                | some prev =>
                  simp only [Option.map_some]
                  dsimp only [normForm_er]
                  by_cases h2 : ((P acc).err == Rewrite.E_COMMA && Rewrite.normForm prev == [','] ||
                      (P acc).err == Rewrite.E_POINT && Rewrite.normForm prev == ['.']) = true
                  · simp only [h2, if_true]
                    have hc := nconcat_self m cfg P path bi.toNat ((i + 1).toNat - 1) acc
                    revert hc
                    generalize Rewrite.nconcat cfg P (List.map (er true m) path) bi.toNat ((i + 1).toNat - 1) acc = o1
                    generalize Rewrite.nconcat cfg P path bi.toNat ((i + 1).toNat - 1) acc = o2
                    intro hc
                    cases hc with
                    | ok hpq => exact .ok (by simp only [erS, hpq] <;> rfl)
                    | err => exact .err
                    | panic => exact .panic
                    | fuel => exact .fuel
                  · simp only [h2]; exact okk _ _ _ _ _
          · simp only [hb, if_false]; exact okk _ _ _ _ _

theorem nstep_self (m : Mode) (v : Rewrite.NVariant) (cfg : Rewrite.NCfg) (cat : List Nat) (P : List Char → Rewrite.POut)
    (st : Rewrite.NState) :
    NSim m (Rewrite.nstep v cfg cat P (erS m st)) (Rewrite.nstep v cfg cat P st) := by
  obtain ⟨path, i, bi, comma, period, acc⟩ := st
  exact nstep_self' m v cfg cat P path i bi comma period acc

theorem ntail_self' (m : Mode) (cfg : Rewrite.NCfg) (P : List Char → Rewrite.POut)
    (path : List Node) (i bi : Int) (comma period : Bool) (acc : List Char) :
    OSim true m (Rewrite.ntail cfg P
        { path := List.map (er true m) path, i := i, beginIdx := bi, comma := comma, period := period, acc := acc })
      (Rewrite.ntail cfg P
        { path := path, i := i, beginIdx := bi, comma := comma, period := period, acc := acc }) := by
  unfold Rewrite.ntail
  simp only [List.getElem?_map, List.length_map]
  by_cases hb : bi ≥ 0
  · simp only [hb, if_true]
    by_cases hd : (P acc).done = true
    · simp only [hd, if_true]; exact nconcat_self m cfg P path _ _ acc
    · simp only [hd]
      by_cases h1 : path.length < 1
      · simp only [h1, if_true]; exact .panic
      · simp only [h1, if_false]
        cases hp : path[path.length - 1]? with
        | none => exact .panic
        | some last =>
          simp only [Option.map_some]
          dsimp only [normForm_er]
          by_cases h2 : ((P acc).err == Rewrite.E_COMMA && Rewrite.normForm last == [','] ||
              (P acc).err == Rewrite.E_POINT && Rewrite.normForm last == ['.']) = true
          · simp only [h2, if_true]; exact nconcat_self m cfg P path _ _ acc
          · simp only [h2]; exact .ok (map_er_er true m path)
  · simp only [hb, if_false]; exact .ok (map_er_er true m path)

theorem ntail_self (m : Mode) (cfg : Rewrite.NCfg) (P : List Char → Rewrite.POut) (st : Rewrite.NState) :
    OSim true m (Rewrite.ntail cfg P (erS m st)) (Rewrite.ntail cfg P st) := by
  obtain ⟨path, i, bi, comma, period, acc⟩ := st
  exact ntail_self' m cfg P path i bi comma period acc

theorem nstep_sim (m : Mode) (v : Rewrite.NVariant) (cfg : Rewrite.NCfg) (cat : List Nat) (P : List Char → Rewrite.POut)
    {s t : Rewrite.NState} (h : erS m s = erS m t) :
    NSim m (Rewrite.nstep v cfg cat P s) (Rewrite.nstep v cfg cat P t) := by
  have h1 := (nstep_self m v cfg cat P s).symm
  have h2 := nstep_self m v cfg cat P t
  rw [h] at h1
  exact h1.trans h2

theorem ntail_sim (m : Mode) (cfg : Rewrite.NCfg) (P : List Char → Rewrite.POut)
    {s t : Rewrite.NState} (h : erS m s = erS m t) :
    OSim true m (Rewrite.ntail cfg P s) (Rewrite.ntail cfg P t) := by
  have h1 := (ntail_self m cfg P s).symm
  have h2 := ntail_self m cfg P t
  rw [h] at h1
  exact h1.trans h2

theorem nloop_sim (m : Mode) (v : Rewrite.NVariant) (cfg : Rewrite.NCfg) (cat : List Nat) (P : List Char → Rewrite.POut) :
    ∀ (fuel : Nat) (s t : Rewrite.NState), erS m s = erS m t →
      OSim true m (Rewrite.nloop v cfg cat P fuel s) (Rewrite.nloop v cfg cat P fuel t) := by
  intro fuel
  induction fuel with
  | zero => intro s t _; exact .fuel
  | succ fuel ih =>
    intro s t h
    unfold Rewrite.nloop
    have hi : s.i = t.i := by
      have := congrArg Rewrite.NState.i h
      simpa [erS] using this
    have hl : s.path.length = t.path.length := by
      have := congrArg (fun x => x.path.length) h
      simpa [erS] using this
    rw [hi, hl]
    by_cases hg : t.i < (t.path.length : Int) - 1
    · simp only [hg, if_true]
      have hs := nstep_sim m v cfg cat P h
      revert hs
      generalize Rewrite.nstep v cfg cat P s = o1
      generalize Rewrite.nstep v cfg cat P t = o2
      intro hs
      cases hs with
      | ok h' => exact ih _ _ h'
      | err => exact .err
      | panic => exact .panic
      | fuel => exact .fuel
    · simp only [hg, if_false]
      exact ntail_sim m cfg P h

theorem joinNumeric_sim (m : Mode) (v : Rewrite.NVariant) (cfg : Rewrite.NCfg) (cat : List Nat) (P : List Char → Rewrite.POut)
    {p q : List Node} (h : p.map (er true m) = q.map (er true m)) :
    OSim true m (Rewrite.joinNumeric v cfg cat P p) (Rewrite.joinNumeric v cfg cat P q) := by
  unfold Rewrite.joinNumeric Rewrite.nFuel
  rw [rel_length h]
  exact nloop_sim m v cfg cat P _ _ _ (by simp only [erS, Rewrite.nInit, h])

/-- a `JoinNumericPlugin` is configured -/
def HasNumeric (pls : List Rewrite.Plugin) : Prop := ∃ cfg, Rewrite.Plugin.numeric cfg ∈ pls

/-- **The plugin stack reads the kept fields only.**  Two paths that are equal after erasure of
everything else (`k = true`: POS id, surface and normalised form are kept — needed as soon as a
`JoinNumericPlugin` is configured; `k = false`: they are erased too — `JoinKatakanaOovPlugin` reads no
word-info string) are rewritten to paths that are equal after erasure, or fail in the same way. -/
theorem rewriteAll_sim (k : Bool) (m : Mode) (v : Rewrite.NVariant) (cat : List Nat) (P : List Char → Rewrite.POut) :
    ∀ (pls : List Rewrite.Plugin), (HasNumeric pls → k = true) → ∀ (p q : List Node), p.map (er k m) = q.map (er k m) →
      OSim k m (Rewrite.rewriteAll v cat P pls p) (Rewrite.rewriteAll v cat P pls q) := by
  intro pls
  induction pls with
  | nil => intro _ p q h; exact .ok h
  | cons pl rest ih =>
    intro hk p q h
    unfold Rewrite.rewriteAll
    have hs : OSim k m (Rewrite.applyPlugin v cat P pl p) (Rewrite.applyPlugin v cat P pl q) := by
      cases pl with
      | numeric cfg =>
        have : k = true := hk ⟨cfg, by simp⟩
        subst this
        exact joinNumeric_sim m v cfg cat P h
      | katakana cfg => exact joinKatakana_sim k m cfg cat h
    have hk' : HasNumeric rest → k = true := fun ⟨cfg, hc⟩ => hk ⟨cfg, List.mem_cons_of_mem _ hc⟩
    revert hs
    generalize Rewrite.applyPlugin v cat P pl p = o1
    generalize Rewrite.applyPlugin v cat P pl q = o2
    intro hs
    cases hs with
    | ok h' => exact ih hk' _ _ h'
    | err => exact .err
    | panic => exact .panic
    | fuel => exact .fuel

/-! ## J. the analysis from the best path on, under two requests -/

/-- what the plugin stack and `split_path` read from a word info in mode `m`: head-word length and the
split list of the mode; with a `JoinNumericPlugin` (`k = true`) also surface, POS id, normalised form -/
def AgreeRW (k : Bool) (m : Mode) (i1 i2 : WordInfoData) : Prop :=
  (k = true → i1.surface = i2.surface ∧ i1.posId = i2.posId ∧ i1.normalizedForm = i2.normalizedForm) ∧
  i1.headWordLength = i2.headWordLength ∧ splitsOf m i1 = splitsOf m i2

/-- two requests under which every word-info load has the same outcome class and agrees on those -/
def GwisAgreeRW (ls : LexSet) (k : Bool) (m : Mode) (S1 S2 : Nat) : Prop :=
  ∀ id, (getWordInfoSubset ls id S1 = .panic ∧ getWordInfoSubset ls id S2 = .panic) ∨
    ∃ i1 i2, getWordInfoSubset ls id S1 = .ok i1 ∧ getWordInfoSubset ls id S2 = .ok i2 ∧ AgreeRW k m i1 i2

theorem GwisAgreeRW.weaken {ls : LexSet} {k : Bool} {m : Mode} {S1 S2 : Nat} (H : GwisAgreeRW ls k m S1 S2) :
    GwisAgree ls m S1 S2 := by
  intro id
  rcases H id with h | ⟨i1, i2, e1, e2, _, hh, hs⟩
  · exact Or.inl h
  · exact Or.inr ⟨i1, i2, e1, e2, hs, fun _ => hh⟩

theorem toRw_er (k : Bool) (m : Mode) (x : XNode) {r1 r2 : RNode} (hw : r1.wid = r2.wid) (hb : r1.bb = r2.bb) (he : r1.be = r2.be)
    (ha : AgreeRW k m r1.info r2.info) : er k m (toRw x r1) = er k m (toRw x r2) := by
  obtain ⟨h1, h4, h5⟩ := ha
  cases k with
  | false => cases m <;> simp_all [er, toRw, splitsOf]
  | true =>
    obtain ⟨h1, h2, h3⟩ := h1 rfl
    cases m <;> simp_all [er, toRw, splitsOf]

theorem resolvePathX_agree (ls : LexSet) (k : Bool) (m : Mode) (S1 S2 : Nat) (H : GwisAgreeRW ls k m S1 S2) :
    ∀ (path : List XNode),
      (resolvePathX ls S1 path = .panic ∧ resolvePathX ls S2 path = .panic) ∨
      ∃ ns1 ns2, resolvePathX ls S1 path = .ok ns1 ∧ resolvePathX ls S2 path = .ok ns2 ∧
        ns1.map (er k m) = ns2.map (er k m) := by
  intro path
  induction path with
  | nil => exact Or.inr ⟨[], [], rfl, rfl, rfl⟩
  | cons x xs ih =>
    have hnode : (resolveNode ls S1 x.toP = .panic ∧ resolveNode ls S2 x.toP = .panic) ∨
        ∃ r1 r2, resolveNode ls S1 x.toP = .ok r1 ∧ resolveNode ls S2 x.toP = .ok r2 ∧
          er k m (toRw x r1) = er k m (toRw x r2) := by
      unfold resolveNode
      by_cases hoov : widDic x.toP.wid = 0xf
      · simp only [hoov, if_true]
        exact Or.inr ⟨_, _, rfl, rfl, rfl⟩
      · simp only [hoov, if_false]
        rcases H x.toP.wid with ⟨p1, p2⟩ | ⟨i1, i2, e1, e2, ha⟩
        · left; simp only [p1, p2]; exact ⟨trivial, trivial⟩
        · right; simp only [e1, e2]
          exact ⟨_, _, rfl, rfl, toRw_er k m x rfl rfl rfl ha⟩
    unfold resolvePathX
    rcases hnode with ⟨p1, p2⟩ | ⟨r1, r2, e1, e2, hn⟩
    · left; simp only [p1, p2]; exact ⟨trivial, trivial⟩
    · simp only [e1, e2]
      rcases ih with ⟨q1, q2⟩ | ⟨ns1, ns2, f1, f2, hp⟩
      · left; simp only [q1, q2]; exact ⟨trivial, trivial⟩
      · right; simp only [f1, f2]
        exact ⟨_, _, rfl, rfl, by simp only [List.map_cons, hn, hp]⟩

theorem pathAgree_of_er (k : Bool) (m : Mode) : ∀ (q1 q2 : List Node), q1.map (er k m) = q2.map (er k m) →
    PathAgree m (q1.map ofRw) (q2.map ofRw) := by
  intro q1
  induction q1 with
  | nil =>
    intro q2 h
    cases q2 with
    | nil => trivial
    | cons _ _ => simp at h
  | cons a as ih =>
    intro q2 h
    cases q2 with
    | nil => simp at h
    | cons b bs =>
      simp only [List.map_cons, List.cons.injEq] at h
      obtain ⟨hab, htl⟩ := h
      refine ⟨⟨?_, ?_⟩, ih bs htl⟩
      · have h1 : a.wid = b.wid := congrArg Node.wid hab ▸ rfl
        have h2 : a.bb = b.bb := congrArg Node.bb hab ▸ rfl
        have h3 : a.eb = b.eb := congrArg Node.eb hab ▸ rfl
        simp [shape, ofRw, h1, h2, h3]
      · have h1 : (er k m a).aSplit = (er k m b).aSplit := congrArg Node.aSplit hab
        have h2 : (er k m a).bSplit = (er k m b).bSplit := congrArg Node.bSplit hab
        cases m <;> simp_all [er, splitsOf, ofRw]

/-- what the property observes of an analysis: outcome class, word ids and byte boundaries -/
def shapeOut : Outcome (List RNode) → Outcome (List (Nat × Nat × Nat))
  | .ok rs => .ok (rs.map shape)
  | .err => .err
  | .panic => .panic
  | .fuel => .fuel

/-- **With path-rewrite plugins the analysis after the lattice search reads word infos only through
the head-word length and the split list of the mode and — as soon as a `JoinNumericPlugin` is
configured — surface, POS id and normalised form.**  Two requests that agree on those for every word
give the same word ids and byte boundaries (and the same failure, if any) on every path, for every
plugin stack, in every mode. -/
theorem tokenizeRw_agree (nv : Rewrite.NVariant) (ls : LexSet) (k : Bool) (m : Mode) (S1 S2 : Nat)
    (H : GwisAgreeRW ls k m S1 S2) (text : Bytes) (cat : List Nat) (P : List Char → Rewrite.POut)
    (pls : List Rewrite.Plugin) (hk : HasNumeric pls → k = true) (path : List XNode) :
    shapeOut (tokenizeRw nv ls ⟨m, S1⟩ text cat P pls path) = shapeOut (tokenizeRw nv ls ⟨m, S2⟩ text cat P pls path) := by
  unfold tokenizeRw
  rcases resolvePathX_agree ls k m S1 S2 H path with ⟨p1, p2⟩ | ⟨ns1, ns2, e1, e2, hp⟩
  · simp only [p1, p2]
  · simp only [e1, e2]
    have hs := rewriteAll_sim k m nv cat P pls hk ns1 ns2 hp
    revert hs
    generalize Rewrite.rewriteAll nv cat P pls ns1 = o1
    generalize Rewrite.rewriteAll nv cat P pls ns2 = o2
    intro hs
    cases hs with
    | err => rfl
    | panic => rfl
    | fuel => rfl
    | ok hq =>
      rename_i q1 q2
      simp only []
      have hsp := splitPath_agree ls m S1 S2 H.weaken text _ _ (pathAgree_of_er k m q1 q2 hq)
      revert hsp
      generalize splitPath ls m S1 text (q1.map ofRw) = t1
      generalize splitPath ls m S2 text (q2.map ofRw) = t2
      intro hsp
      cases t1 <;> cases t2 <;> simp_all [shapeRes, shapeOut]

/-- the reader reaches the head-word length: some flag other than SURFACE (and other than the synonym
flag, which a dictionary without synonym ids drops) is requested -/
def HwlLoaded (S : Nat) : Prop := ∃ c, 1 ≤ c ∧ c ≤ 8 ∧ S.testBit c = true

/-- a request under which the head-word length is loaded, which contains the split flag of the mode and
— when `k = true` — SURFACE, POS_ID and NORMALIZED_FORM agrees with the full request on everything the
plugins and `split_path` read, in a well-formed lexicon set -/
theorem gwisAgreeRW_all (src : Src) (po : List Nat) (nsys : Nat) (hok : LexSetOk src po) (k : Bool) (m : Mode) (S : Nat)
    (hf : k = true → S.testBit SURFACE = true ∧ S.testBit POS_ID = true ∧ S.testBit NORMALIZED_FORM = true)
    (hh : HwlLoaded S)
    (hS : ∀ j, (modeSubset m).testBit j = true → S.testBit j = true) :
    GwisAgreeRW (lexSetOf src po nsys) k m S ALL := by
  intro id
  by_cases hin : ∃ hd : widDic id < src.length, widWord id < (src[widDic id]).1.length
  · obtain ⟨hd, hk⟩ := hin
    right
    obtain ⟨i1, e1, f1, l1⟩ := getWordInfoSubset_spec src po nsys hok id hd hk S
    obtain ⟨i2, e2, f2, l2⟩ := getWordInfoSubset_spec src po nsys hok id hd hk ALL
    refine ⟨i1, i2, e1, e2, ?_, ?_, ?_⟩
    · intro hk1
      obtain ⟨h0, h2, h3⟩ := hf hk1
      refine ⟨?_, ?_, ?_⟩
      · rw [f1.surface (testBit_effSubset (by decide) h0), f2.surface (testBit_effSubset (by decide) (by decide))]
      · rw [f1.posId (testBit_effSubset (by decide) h2), f2.posId (testBit_effSubset (by decide) (by decide))]
      · rw [f1.normalizedForm (testBit_effSubset (by decide) h3),
          f2.normalizedForm (testBit_effSubset (by decide) (by decide))]
    · obtain ⟨c, hc1, hc8, hcS⟩ := hh
      have hc9 : c ≠ SYNONYM_GROUP_ID := by unfold SYNONYM_GROUP_ID; omega
      rw [l1 ⟨by omega, Or.inr ⟨Or.inl rfl, c, hc1, testBit_effSubset hc9 hcS⟩⟩,
        l2 ⟨by omega, Or.inl (testBit_effSubset (by decide) (by decide))⟩]
    · cases m with
      | A =>
        have hb : S.testBit SPLIT_A = true := hS 6 (by decide)
        show i1.aUnitSplit = i2.aUnitSplit
        rw [f1.aUnitSplit (testBit_effSubset (by decide) hb),
          f2.aUnitSplit (testBit_effSubset (by decide) (by decide))]
      | B =>
        have hb : S.testBit SPLIT_B = true := hS 7 (by decide)
        show i1.bUnitSplit = i2.bUnitSplit
        rw [f1.bUnitSplit (testBit_effSubset (by decide) hb),
          f2.bUnitSplit (testBit_effSubset (by decide) (by decide))]
      | C => rfl
  · left
    exact ⟨getWordInfoSubset_oob src po nsys id S hin, getWordInfoSubset_oob src po nsys id ALL hin⟩

/-! ## K. `set_subset` -/

/-- bits of `normalize` above HEAD_WORD_LENGTH are the request's -/
theorem normalize_testBit_ge2 (v : NzVariant) (S j : Nat) (hj : 2 ≤ j) : (normalize v S).testBit j = S.testBit j := by
  have h0 : ¬ SURFACE = j := by unfold SURFACE; omega
  have h1 : ¬ HEAD_WORD_LENGTH = j := by unfold HEAD_WORD_LENGTH; omega
  unfold normalize
  simp only []
  split <;> split <;> simp [testBit_insert, h0, h1]

/-- the stack of a configuration with a `JoinNumericPlugin` declares POS_ID | NORMALIZED_FORM -/
theorem reqOfStack_numeric (pls : List Rewrite.Plugin) (h : HasNumeric pls) :
    (reqOfStack pls).testBit POS_ID = true ∧ (reqOfStack pls).testBit NORMALIZED_FORM = true := by
  have gen : ∀ (pls : List Rewrite.Plugin) (a : Nat),
      ((a.testBit POS_ID = true ∧ a.testBit NORMALIZED_FORM = true) ∨ HasNumeric pls) →
      (pls.foldl (fun a p => a ||| reqOf p) a).testBit POS_ID = true ∧
      (pls.foldl (fun a p => a ||| reqOf p) a).testBit NORMALIZED_FORM = true := by
    intro pls
    induction pls with
    | nil =>
      intro a h
      rcases h with h | ⟨cfg, hc⟩
      · exact h
      · simp at hc
    | cons pl rest ih =>
      intro a h
      simp only [List.foldl_cons]
      apply ih
      rcases h with ⟨h1, h2⟩ | ⟨cfg, hc⟩
      · left; simp [Nat.testBit_or, h1, h2]
      · rcases List.mem_cons.mp hc with rfl | hc
        · left
          simp only [reqOf, Nat.testBit_or]
          constructor
          · have : (2 ^ POS_ID ||| 2 ^ NORMALIZED_FORM).testBit POS_ID = true := by decide
            simp [Nat.testBit_or] at this ⊢
          · have : (2 ^ POS_ID ||| 2 ^ NORMALIZED_FORM).testBit NORMALIZED_FORM = true := by decide
            simp [Nat.testBit_or] at this ⊢
        · right; exact ⟨cfg, hc⟩
  exact gen pls 0 (Or.inr h)

/-! ## L. stacks of `JoinKatakanaOovPlugin` only: not even the head-word length is read, it is only summed -/

/-- erase every word-info field but the split list of the mode -/
def er0 (m : Mode) (n : Node) : Node := { er false m n with hwl := 0 }

theorem er0_er0 (m : Mode) (n : Node) : er0 m (er0 m n) = er0 m n := by
  cases m <;> simp [er0, er]

theorem map_er0_er0 (m : Mode) (p : List Node) : (p.map (er0 m)).map (er0 m) = p.map (er0 m) := by
  simp [List.map_map, Function.comp_def, er0_er0]

theorem sumHwl_init (l : List Node) (a : Nat) :
    l.foldl (fun a n => a + n.hwl) a = a + Rewrite.sumHwl l := by
  induction l generalizing a with
  | nil => simp [Rewrite.sumHwl]
  | cons n r ih =>
    simp only [List.foldl_cons, Rewrite.sumHwl]
    rw [ih (a + n.hwl), ih (0 + n.hwl)]
    omega

theorem sumHwl_append (l1 l2 : List Node) : Rewrite.sumHwl (l1 ++ l2) = Rewrite.sumHwl l1 + Rewrite.sumHwl l2 := by
  unfold Rewrite.sumHwl
  rw [List.foldl_append, sumHwl_init l2]
  rfl

theorem sumHwl_cons (n : Node) (l : List Node) : Rewrite.sumHwl (n :: l) = n.hwl + Rewrite.sumHwl l := by
  have := sumHwl_append [n] l
  simpa [Rewrite.sumHwl] using this

/-- the path is prefix ++ block ++ suffix -/
theorem path_split (p : List Node) (b e : Nat) (hbe : b ≤ e) :
    p = p.take b ++ (Rewrite.block p b e ++ p.drop e) := by
  unfold Rewrite.block
  have h1 : (p.drop b).take (e - b) ++ (p.drop b).drop (e - b) = p.drop b := List.take_append_drop _ _
  have h2 : (p.drop b).drop (e - b) = p.drop e := by
    rw [List.drop_drop]
    congr 1
    omega
  rw [← h2, h1, List.take_append_drop]

theorem maxWid_er0 (m : Mode) (blk : List Node) : Rewrite.maxWid (blk.map (er0 m)) = Rewrite.maxWid blk := by
  simp [Rewrite.maxWid, List.foldl_map, er0, er]

theorem mergedOovNode_er0 (m : Mode) (f l : Node) (blk : List Node) (pos : Nat) :
    er0 m (Rewrite.mergedOovNode (er0 m f) (er0 m l) (blk.map (er0 m)) pos) = er0 m (Rewrite.mergedOovNode f l blk pos) := by
  simp [Rewrite.mergedOovNode, maxWid_er0, er0, er]

/-- same outcome class, equal paths after `er0` -/
inductive OSim0 (m : Mode) : Outcome (List Node) → Outcome (List Node) → Prop
  | ok {p q : List Node} : p.map (er0 m) = q.map (er0 m) → Rewrite.sumHwl p < 65536 → Rewrite.sumHwl q < 65536 →
      OSim0 m (.ok p) (.ok q)
  | err : OSim0 m .err .err
  | panic : OSim0 m .panic .panic
  | fuel : OSim0 m .fuel .fuel

theorem rel0_length {m : Mode} {p q : List Node} (h : p.map (er0 m) = q.map (er0 m)) : p.length = q.length := by
  have := congrArg List.length h
  simpa using this

theorem rel0_get {m : Mode} {p q : List Node} (h : p.map (er0 m) = q.map (er0 m)) (i : Nat) :
    (p[i]?).map (er0 m) = (q[i]?).map (er0 m) := by
  rw [← List.getElem?_map, ← List.getElem?_map, h]

/-- `concat_oov_nodes` when the head-word lengths of the whole path fit a `u16`: the addition cannot
overflow, and the merged path has the same total -/
theorem concatOov_fit (p : List Node) (b e pos : Nat) (hfit : Rewrite.sumHwl p < 65536) :
    Rewrite.concatOovNodes p b e pos =
      (if b ≥ e then .err
       else match p[e - 1]?, p[b]? with
        | some l, some f =>
          if l.eb < f.bb then .panic
          else .ok (p.take b ++ Rewrite.mergedOovNode f l (Rewrite.block p b e) pos :: p.drop e)
        | _, _ => .panic) ∧
    ∀ p', Rewrite.concatOovNodes p b e pos = .ok p' → Rewrite.sumHwl p' = Rewrite.sumHwl p := by
  unfold Rewrite.concatOovNodes
  by_cases hbe : b ≥ e
  · simp [hbe]
  · simp only [hbe, if_false]
    have hle : b ≤ e := by omega
    have hsplit := path_split p b e hle
    have hsum : Rewrite.sumHwl p = Rewrite.sumHwl (p.take b) + (Rewrite.sumHwl (Rewrite.block p b e) + Rewrite.sumHwl (p.drop e)) := by
      conv => lhs; rw [hsplit]
      rw [sumHwl_append, sumHwl_append]
    have hblk : ¬ Rewrite.sumHwl (Rewrite.block p b e) ≥ 65536 := by omega
    cases hl : p[e - 1]? with
    | none => simp
    | some l =>
      cases hf : p[b]? with
      | none => simp
      | some f =>
        simp only [hblk, if_false]
        refine ⟨trivial, ?_⟩
        intro p' hp'
        by_cases h1 : l.eb < f.bb
        · simp [h1] at hp'
        · simp only [h1, if_false, Outcome.ok.injEq] at hp'
          rw [← hp', sumHwl_append, sumHwl_cons, hsum]
          simp [Rewrite.mergedOovNode]

theorem concatOov_sim0 (m : Mode) {p q : List Node} (h : p.map (er0 m) = q.map (er0 m))
    (hp : Rewrite.sumHwl p < 65536) (hq : Rewrite.sumHwl q < 65536) (b e pos : Nat) :
    OSim0 m (Rewrite.concatOovNodes p b e pos) (Rewrite.concatOovNodes q b e pos) := by
  obtain ⟨e1, s1⟩ := concatOov_fit p b e pos hp
  obtain ⟨e2, s2⟩ := concatOov_fit q b e pos hq
  by_cases hbe : b ≥ e
  · rw [e1, e2]; simp only [hbe, if_true]; exact .err
  · have g1 := rel0_get h (e - 1)
    have g2 := rel0_get h b
    cases hl1 : p[e - 1]? with
    | none =>
      rw [hl1] at g1
      cases hl2 : q[e - 1]? with
      | none => rw [e1, e2]; simp only [hbe, if_false, hl1, hl2]; exact .panic
      | some _ => rw [hl2] at g1; simp at g1
    | some l1 =>
      rw [hl1] at g1
      cases hl2 : q[e - 1]? with
      | none => rw [hl2] at g1; simp at g1
      | some l2 =>
        rw [hl2] at g1
        simp only [Option.map_some, Option.some.injEq] at g1
        cases hf1 : p[b]? with
        | none =>
          rw [hf1] at g2
          cases hf2 : q[b]? with
          | none => rw [e1, e2]; simp only [hbe, if_false, hl1, hl2, hf1, hf2]; exact .panic
          | some _ => rw [hf2] at g2; simp at g2
        | some f1 =>
          rw [hf1] at g2
          cases hf2 : q[b]? with
          | none => rw [hf2] at g2; simp at g2
          | some f2 =>
            rw [hf2] at g2
            simp only [Option.map_some, Option.some.injEq] at g2
            have hleb : l1.eb = l2.eb := congrArg Node.eb g1 ▸ rfl
            have hfbb : f1.bb = f2.bb := congrArg Node.bb g2 ▸ rfl
            have r1 := s1
            have r2 := s2
            rw [e1] at r1 ⊢
            rw [e2] at r2 ⊢
            simp only [hbe, if_false, hl1, hl2, hf1, hf2, hleb, hfbb] at r1 r2 ⊢
            by_cases hc : l2.eb < f2.bb
            · simp only [hc, if_true]; exact .panic
            · simp only [hc, if_false] at r1 r2 ⊢
              refine .ok ?_ (by rw [r1 _ rfl]; exact hp) (by rw [r2 _ rfl]; exact hq)
              have hblk : (Rewrite.block p b e).map (er0 m) = (Rewrite.block q b e).map (er0 m) := by
                rw [← block_map, ← block_map, h]
              have hm : er0 m (Rewrite.mergedOovNode f1 l1 (Rewrite.block p b e) pos) =
                  er0 m (Rewrite.mergedOovNode f2 l2 (Rewrite.block q b e) pos) := by
                rw [← mergedOovNode_er0 m f1 l1, ← mergedOovNode_er0 m f2 l2, g1, g2, hblk]
              simp only [List.map_append, List.map_cons, List.map_take, List.map_drop, h, hm]

theorem kstep_er0 (m : Mode) (cfg : Rewrite.KCfg) (cat : List Nat) (p : List Node) (i : Nat) (n : Node) :
    Rewrite.kstep cfg cat (p.map (er0 m)) i (er0 m n) = Rewrite.kstep cfg cat p i n := by
  have hk : ∀ x, Rewrite.isKatakana cat (er0 m x) = Rewrite.isKatakana cat x := fun _ => rfl
  have hbw : ∀ x, Rewrite.canOovBow cat (er0 m x) = Rewrite.canOovBow cat x := fun _ => rfl
  have sb : ∀ (l : List Node) (j : Nat), Rewrite.scanBackL cat (l.map (er0 m)) j = Rewrite.scanBackL cat l j := by
    intro l
    induction l with
    | nil => intro j; rfl
    | cons x r ih =>
      intro j
      simp only [List.map_cons, Rewrite.scanBackL, hk]
      cases Rewrite.isKatakana cat x with
      | ok b => cases b <;> simp [ih]
      | err => rfl
      | panic => rfl
      | fuel => rfl
  have sf : ∀ (l : List Node) (j : Nat), Rewrite.scanFwdL cat (l.map (er0 m)) j = Rewrite.scanFwdL cat l j := by
    intro l
    induction l with
    | nil => intro j; rfl
    | cons x r ih =>
      intro j
      simp only [List.map_cons, Rewrite.scanFwdL, hk]
      cases Rewrite.isKatakana cat x with
      | ok b => cases b <;> simp [ih]
      | err => rfl
      | panic => rfl
      | fuel => rfl
  have sk : ∀ (l : List Node) (j : Nat), Rewrite.skipBowL cat (l.map (er0 m)) j = Rewrite.skipBowL cat l j := by
    intro l
    induction l with
    | nil => intro j; rfl
    | cons x r ih =>
      intro j
      simp only [List.map_cons, Rewrite.skipBowL, hbw]
      cases Rewrite.canOovBow cat x with
      | ok b => cases b <;> simp [ih]
      | err => rfl
      | panic => rfl
      | fuel => rfl
  have a1 : Rewrite.isOov (er0 m n) = Rewrite.isOov n := rfl
  have a2 : Rewrite.isShorter cfg (er0 m n) = Rewrite.isShorter cfg n := rfl
  have b1 : Rewrite.scanBack cat (p.map (er0 m)) i = Rewrite.scanBack cat p i := by
    simp only [Rewrite.scanBack, ← List.map_take, ← List.map_reverse, sb]
  have b2 : Rewrite.scanFwd cat (p.map (er0 m)) i = Rewrite.scanFwd cat p i := by
    simp only [Rewrite.scanFwd, ← List.map_drop, sf]
  have b3 : ∀ b e, Rewrite.skipBow cat (p.map (er0 m)) b e = Rewrite.skipBow cat p b e := by
    intro b e
    simp only [Rewrite.skipBow, block_map, sk]
  simp only [Rewrite.kstep, a1, a2, hk, b1, b2, b3]

theorem kloop_sim0 (m : Mode) (cfg : Rewrite.KCfg) (cat : List Nat) :
    ∀ (fuel : Nat) (p q : List Node) (i : Nat), p.map (er0 m) = q.map (er0 m) →
      Rewrite.sumHwl p < 65536 → Rewrite.sumHwl q < 65536 →
      OSim0 m (Rewrite.kloop cfg cat fuel p i) (Rewrite.kloop cfg cat fuel q i) := by
  intro fuel
  induction fuel with
  | zero => intro p q i _ _ _; exact .fuel
  | succ fuel ih =>
    intro p q i h hp hq
    unfold Rewrite.kloop
    rw [rel0_length h]
    by_cases hi : i ≥ q.length
    · simp only [hi, if_true]; exact .ok h hp hq
    · simp only [hi, if_false]
      have hg := rel0_get h i
      cases h1 : p[i]? with
      | none =>
        rw [h1] at hg
        cases h2 : q[i]? with
        | none => exact .panic
        | some n2 => rw [h2] at hg; simp at hg
      | some n1 =>
        rw [h1] at hg
        cases h2 : q[i]? with
        | none => rw [h2] at hg; simp at hg
        | some n2 =>
          rw [h2] at hg
          simp only [Option.map_some, Option.some.injEq] at hg
          have hks : Rewrite.kstep cfg cat p i n1 = Rewrite.kstep cfg cat q i n2 := by
            rw [← kstep_er0 m cfg cat p i n1, ← kstep_er0 m cfg cat q i n2, h, hg]
          simp only [hks]
          cases hk : Rewrite.kstep cfg cat q i n2 with
          | err => exact .err
          | panic => exact .panic
          | fuel => exact .fuel
          | ok st =>
            cases st with
            | next => exact ih p q (i + 1) h hp hq
            | join b e =>
              simp only []
              have hc := concatOov_sim0 m h hp hq b e cfg.oovPos
              revert hc
              generalize Rewrite.concatOovNodes p b e cfg.oovPos = o1
              generalize Rewrite.concatOovNodes q b e cfg.oovPos = o2
              intro hc
              cases hc with
              | ok hpq h1' h2' => exact ih _ _ (b + 2) hpq h1' h2'
              | err => exact .err
              | panic => exact .panic
              | fuel => exact .fuel

/-- all plugins of the stack are `JoinKatakanaOovPlugin`s -/
theorem rewriteAll_sim0 (m : Mode) (v : Rewrite.NVariant) (cat : List Nat) (P : List Char → Rewrite.POut) :
    ∀ (pls : List Rewrite.Plugin), ¬ HasNumeric pls → ∀ (p q : List Node), p.map (er0 m) = q.map (er0 m) →
      Rewrite.sumHwl p < 65536 → Rewrite.sumHwl q < 65536 →
      OSim0 m (Rewrite.rewriteAll v cat P pls p) (Rewrite.rewriteAll v cat P pls q) := by
  intro pls
  induction pls with
  | nil => intro _ p q h hp hq; exact .ok h hp hq
  | cons pl rest ih =>
    intro hk p q h hp hq
    unfold Rewrite.rewriteAll
    have hk' : ¬ HasNumeric rest := fun ⟨cfg, hc⟩ => hk ⟨cfg, List.mem_cons_of_mem _ hc⟩
    cases pl with
    | numeric cfg => exact absurd ⟨cfg, by simp⟩ hk
    | katakana cfg =>
      have hs : OSim0 m (Rewrite.joinKatakana cfg cat p) (Rewrite.joinKatakana cfg cat q) := by
        unfold Rewrite.joinKatakana Rewrite.kFuel
        rw [rel0_length h]
        exact kloop_sim0 m cfg cat _ p q 0 h hp hq
      simp only [Rewrite.applyPlugin]
      revert hs
      generalize Rewrite.joinKatakana cfg cat p = o1
      generalize Rewrite.joinKatakana cfg cat q = o2
      intro hs
      cases hs with
      | ok h' h1' h2' => exact ih hk' _ _ h' h1' h2'
      | err => exact .err
      | panic => exact .panic
      | fuel => exact .fuel

theorem toRw_er0 (m : Mode) (x : XNode) {r1 r2 : RNode} (hw : r1.wid = r2.wid) (hb : r1.bb = r2.bb) (he : r1.be = r2.be)
    (hs : splitsOf m r1.info = splitsOf m r2.info) : er0 m (toRw x r1) = er0 m (toRw x r2) := by
  cases m <;> simp_all [er0, er, toRw, splitsOf]

theorem resolvePathX_agree0 (ls : LexSet) (m : Mode) (S1 S2 : Nat) (H : GwisAgree ls m S1 S2) :
    ∀ (path : List XNode),
      (resolvePathX ls S1 path = .panic ∧ resolvePathX ls S2 path = .panic) ∨
      ∃ ns1 ns2, resolvePathX ls S1 path = .ok ns1 ∧ resolvePathX ls S2 path = .ok ns2 ∧
        ns1.map (er0 m) = ns2.map (er0 m) := by
  intro path
  induction path with
  | nil => exact Or.inr ⟨[], [], rfl, rfl, rfl⟩
  | cons x xs ih =>
    have hnode : (resolveNode ls S1 x.toP = .panic ∧ resolveNode ls S2 x.toP = .panic) ∨
        ∃ r1 r2, resolveNode ls S1 x.toP = .ok r1 ∧ resolveNode ls S2 x.toP = .ok r2 ∧
          er0 m (toRw x r1) = er0 m (toRw x r2) := by
      unfold resolveNode
      by_cases hoov : widDic x.toP.wid = 0xf
      · simp only [hoov, if_true]
        exact Or.inr ⟨_, _, rfl, rfl, rfl⟩
      · simp only [hoov, if_false]
        rcases H x.toP.wid with ⟨p1, p2⟩ | ⟨i1, i2, e1, e2, hs, _⟩
        · left; simp only [p1, p2]; exact ⟨trivial, trivial⟩
        · right; simp only [e1, e2]
          exact ⟨_, _, rfl, rfl, toRw_er0 m x rfl rfl rfl hs⟩
    unfold resolvePathX
    rcases hnode with ⟨p1, p2⟩ | ⟨r1, r2, e1, e2, hn⟩
    · left; simp only [p1, p2]; exact ⟨trivial, trivial⟩
    · simp only [e1, e2]
      rcases ih with ⟨q1, q2⟩ | ⟨ns1, ns2, f1, f2, hp⟩
      · left; simp only [q1, q2]; exact ⟨trivial, trivial⟩
      · right; simp only [f1, f2]
        exact ⟨_, _, rfl, rfl, by simp only [List.map_cons, hn, hp]⟩

theorem pathAgree_of_er0 (m : Mode) : ∀ (q1 q2 : List Node), q1.map (er0 m) = q2.map (er0 m) →
    PathAgree m (q1.map ofRw) (q2.map ofRw) := by
  intro q1
  induction q1 with
  | nil =>
    intro q2 h
    cases q2 with
    | nil => trivial
    | cons _ _ => simp at h
  | cons a as ih =>
    intro q2 h
    cases q2 with
    | nil => simp at h
    | cons b bs =>
      simp only [List.map_cons, List.cons.injEq] at h
      obtain ⟨hab, htl⟩ := h
      refine ⟨⟨?_, ?_⟩, ih bs htl⟩
      · have h1 : a.wid = b.wid := congrArg Node.wid hab ▸ rfl
        have h2 : a.bb = b.bb := congrArg Node.bb hab ▸ rfl
        have h3 : a.eb = b.eb := congrArg Node.eb hab ▸ rfl
        simp [shape, ofRw, h1, h2, h3]
      · have h1 : (er0 m a).aSplit = (er0 m b).aSplit := congrArg Node.aSplit hab
        have h2 : (er0 m a).bSplit = (er0 m b).bSplit := congrArg Node.bSplit hab
        cases m <;> simp_all [er0, er, splitsOf, ofRw]

/-- **Stacks of `JoinKatakanaOovPlugin` only read NO word-info field**: two requests that agree on the
split list of the mode (and, for the units of a split, on the head-word length) give the same word ids
and byte boundaries as long as the `u16` sum of head-word lengths of the path overflows under neither. -/
theorem tokenizeRw_agree0 (nv : Rewrite.NVariant) (ls : LexSet) (m : Mode) (S1 S2 : Nat) (H : GwisAgree ls m S1 S2)
    (text : Bytes) (cat : List Nat) (P : List Char → Rewrite.POut) (pls : List Rewrite.Plugin) (hk : ¬ HasNumeric pls)
    (path : List XNode)
    (hfit1 : ∀ ns, resolvePathX ls S1 path = .ok ns → Rewrite.sumHwl ns < 65536)
    (hfit2 : ∀ ns, resolvePathX ls S2 path = .ok ns → Rewrite.sumHwl ns < 65536) :
    shapeOut (tokenizeRw nv ls ⟨m, S1⟩ text cat P pls path) = shapeOut (tokenizeRw nv ls ⟨m, S2⟩ text cat P pls path) := by
  unfold tokenizeRw
  rcases resolvePathX_agree0 ls m S1 S2 H path with ⟨p1, p2⟩ | ⟨ns1, ns2, e1, e2, hp⟩
  · simp only [p1, p2]
  · simp only [e1, e2]
    have hs := rewriteAll_sim0 m nv cat P pls hk ns1 ns2 hp (hfit1 _ e1) (hfit2 _ e2)
    revert hs
    generalize Rewrite.rewriteAll nv cat P pls ns1 = o1
    generalize Rewrite.rewriteAll nv cat P pls ns2 = o2
    intro hs
    cases hs with
    | err => rfl
    | panic => rfl
    | fuel => rfl
    | ok hq _hA _hB =>
      rename_i q1 q2
      simp only []
      have hsp := splitPath_agree ls m S1 S2 H text _ _ (pathAgree_of_er0 m q1 q2 hq)
      revert hsp
      generalize splitPath ls m S1 text (q1.map ofRw) = t1
      generalize splitPath ls m S2 text (q2.map ofRw) = t2
      intro hsp
      cases t1 <;> cases t2 <;> simp_all [shapeRes, shapeOut]

end Subset
