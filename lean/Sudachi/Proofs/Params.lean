import Sudachi.Model.Params
/-!
# C20: lemmas about the parameter checks, POS handling, inhibit edits and the lattice's matrix reads
-/
namespace Params
open Outcome

/-! ## casts -/

theorem asU16_of_lt {x : Int} (h0 : 0 ≤ x) (h : x < 65536) : ((asU16 x : Nat) : Int) = x := by
  unfold asU16
  omega

theorem asU16_toNat {x : Int} (h0 : 0 ≤ x) (h : x < 65536) : asU16 x = x.toNat := by
  unfold asU16
  omega

theorem asI16_of_fits {x : Int} (h0 : -32768 ≤ x) (h : x ≤ 32767) : asI16 x = x := by
  simp only [asI16]
  split <;> omega

theorem asUsize_nonneg {x : Int} (h0 : 0 ≤ x) (h : x < 18446744073709551616) : asUsize x = x.toNat := by
  unfold asUsize
  omega

theorem asUsize_neg {x : Int} (h0 : x < 0) (h : -32768 ≤ x) : asUsize x ≥ 18446744073709518848 := by
  unfold asUsize
  omega

/-! ## check_params -/

theorem checkId_ok {ge : Bool} {n : Nat} {x : Int} {w : Nat} (h : checkId ge n x = ok w) :
    0 ≤ x ∧ (if ge then x.toNat < n else x.toNat ≤ n) ∧ w = asU16 x := by
  unfold checkId at h
  by_cases hx : x < 0
  · simp [hx] at h
  · simp only [hx, if_false] at h
    cases ge
    · simp only [Bool.false_eq_true, if_false] at h ⊢
      split at h
      · cases h
      · injection h with h
        exact ⟨by omega, by omega, h.symm⟩
    · simp only [if_true] at h ⊢
      split at h
      · cases h
      · injection h with h
        exact ⟨by omega, by omega, h.symm⟩

theorem checkId_of {ge : Bool} {n : Nat} {x : Int} (h0 : 0 ≤ x)
    (h : if ge then x.toNat < n else x.toNat ≤ n) : checkId ge n x = ok (asU16 x) := by
  unfold checkId
  have : ¬ x < 0 := by omega
  simp only [this, if_false]
  cases ge <;> simp at h ⊢ <;> omega

theorem checkCost_ok {x c : Int} (h : checkCost x = ok c) : c = x ∧ -32768 ≤ x ∧ x ≤ 32767 := by
  unfold checkCost at h
  split at h
  · cases h
  · split at h
    · cases h
    · injection h with h
      have h1 : -32768 ≤ x := by omega
      have h2 : x ≤ 32767 := by omega
      exact ⟨by rw [← h, asI16_of_fits h1 h2], h1, h2⟩

/-! ## POS -/

theorem posMatch_iff_eq : ∀ (p q : Pos), p.length = q.length → (posMatch p q = true ↔ p = q)
  | [], [], _ => by simp [posMatch]
  | [], _ :: _, h => by simp at h
  | _ :: _, [], h => by simp at h
  | a :: p, b :: q, h => by
    have ih := posMatch_iff_eq p q (by simpa using h)
    simp only [posMatch, List.zip_cons_cons, List.all_cons, Bool.and_eq_true, beq_iff_eq] at ih ⊢
    rw [ih]
    simp

theorem getPosId_some {pl : List Pos} {p : Pos} {id : Nat} (h : getPosId pl p = some id)
    (hsz : pl.length ≤ 65536) :
    p.length = 6 ∧ ∃ (hlt : id < pl.length), posMatch p pl[id] = true ∧
      ∀ j (hj : j < id), posMatch p (pl[j]'(by omega)) = false := by
  unfold getPosId at h
  split at h
  · cases h
  · rename_i hlen
    simp only at h
    split at h
    · rename_i hi
      injection h with h
      have hid : id = pl.findIdx (posMatch p) := by omega
      subst hid
      refine ⟨by simpa using hlen, hi, List.findIdx_getElem, ?_⟩
      intro j hj
      have := List.not_of_lt_findIdx hj
      simpa using this
    · cases h

theorem getPosId_none {pl : List Pos} {p : Pos} (h : getPosId pl p = none) (hlen : p.length = 6) :
    ∀ q ∈ pl, posMatch p q = false := by
  unfold getPosId at h
  simp only [hlen, bne_self_eq_false, Bool.false_eq_true, if_false] at h
  split at h
  · cases h
  · rename_i hi
    intro q hq
    have hge : pl.length ≤ pl.findIdx (posMatch p) := by omega
    have := List.findIdx_eq_length.mp (Nat.le_antisymm List.findIdx_le_length hge) q hq
    simpa using this

/-! ## matrix -/

def Matrix.WF (m : Matrix) : Prop := m.cells.length = m.nl * m.nr

theorem index_lt {nl nr l r : Nat} (hl : l < nl) (hr : r < nr) : r * nl + l < nl * nr := by
  have : r * nl + l < (r + 1) * nl := by rw [Nat.add_mul]; omega
  have h2 : (r + 1) * nl ≤ nr * nl := Nat.mul_le_mul_right _ (by omega)
  rw [Nat.mul_comm nl nr]
  omega

theorem Matrix.index_ok (dbg : Bool) {m : Matrix} (hwf : m.WF) {l r : Nat} (hl : l < m.nl) (hr : r < m.nr) :
    m.index dbg l r = ok (r * m.nl + l) := by
  have hi : r * m.nl + l < m.cells.length := by rw [hwf]; exact index_lt hl hr
  simp [Matrix.index, hl, hr, hi]

theorem Matrix.cost_ok (dbg : Bool) {m : Matrix} (hwf : m.WF) {l r : Nat} (hl : l < m.nl) (hr : r < m.nr) :
    ∃ c, m.cost dbg l r = ok c := by
  have hi : r * m.nl + l < m.cells.length := by rw [hwf]; exact index_lt hl hr
  refine ⟨m.cells[r * m.nl + l], ?_⟩
  simp [Matrix.cost, Matrix.index_ok dbg hwf hl hr, hi]

/-- cell `(l, r)` of the matrix -/
def Matrix.cell (m : Matrix) (l r : Nat) : Option Int := m.cells[r * m.nl + l]?

theorem Matrix.update_ok (dbg : Bool) {m : Matrix} (hwf : m.WF) {l r : Nat} (hl : l < m.nl) (hr : r < m.nr) (v : Int) :
    m.update dbg l r v = ok { m with cells := m.cells.set (r * m.nl + l) v } := by
  have hi : r * m.nl + l < m.cells.length := by rw [hwf]; exact index_lt hl hr
  simp [Matrix.update, Matrix.index_ok dbg hwf hl hr, hi]

/-- two in-range coordinates address the same cell only when they are equal -/
theorem index_inj {nl l r l' r' : Nat} (hl : l < nl) (hl' : l' < nl) (h : r * nl + l = r' * nl + l') :
    l = l' ∧ r = r' := by
  have h1 : (r * nl + l) % nl = (r' * nl + l') % nl := by rw [h]
  rw [Nat.mul_add_mod_self_right, Nat.mul_add_mod_self_right, Nat.mod_eq_of_lt hl, Nat.mod_eq_of_lt hl'] at h1
  subst h1
  have h2 : r * nl = r' * nl := by omega
  exact ⟨rfl, Nat.eq_of_mul_eq_mul_right (by omega) h2⟩

/-! ## inhibit-connection edits -/

def PairOk (m : Matrix) (p : Int × Int) : Prop := 0 ≤ p.1 ∧ p.1 < m.nl ∧ 0 ≤ p.2 ∧ p.2 < m.nr

theorem pairInRange_ok {m : Matrix} {p : Int × Int} (h1 : fitsI16 p.1 = true) (h2 : fitsI16 p.2 = true)
    (h : pairInRange m p = true) : PairOk m p := by
  simp only [fitsI16, Bool.and_eq_true, decide_eq_true_eq] at h1 h2
  simp only [pairInRange, Bool.not_eq_true', Bool.or_eq_false_iff, decide_eq_false_iff_not] at h
  obtain ⟨⟨⟨ha, hb⟩, hc⟩, hd⟩ := h
  have e1 : asUsize p.1 = p.1.toNat := asUsize_nonneg (by omega) (by omega)
  have e2 : asUsize p.2 = p.2.toNat := asUsize_nonneg (by omega) (by omega)
  rw [e1] at hb
  rw [e2] at hd
  refine ⟨by omega, by omega, by omega, by omega⟩

/-- the cells after inhibiting `pairs`: cell `(l, r)` of every pair is overwritten, in order -/
def inhSpec (cells : List Int) (nl : Nat) (pairs : List (Int × Int)) : List Int :=
  pairs.foldl (fun cs p => cs.set (p.2.toNat * nl + p.1.toNat) INHIBITED) cells

theorem inhSpec_length (cells : List Int) (nl : Nat) (pairs : List (Int × Int)) :
    (inhSpec cells nl pairs).length = cells.length := by
  induction pairs generalizing cells with
  | nil => rfl
  | cons p rest ih => simp [inhSpec, List.foldl_cons] at ih ⊢; rw [ih]; simp

theorem inhSpec_cell {nl nr : Nat} (pairs : List (Int × Int)) :
    ∀ (cells : List Int), cells.length = nl * nr →
    (∀ p ∈ pairs, 0 ≤ p.1 ∧ p.1 < nl ∧ 0 ≤ p.2 ∧ p.2 < nr) →
    ∀ {l r : Nat}, l < nl → r < nr →
    (inhSpec cells nl pairs)[r * nl + l]? =
      if ((l : Int), (r : Int)) ∈ pairs then some INHIBITED else cells[r * nl + l]? := by
  induction pairs with
  | nil => intro cells _ _ l r _ _; simp [inhSpec]
  | cons p rest ih =>
    intro cells hlen hp l r hl hr
    have hp0 := hp p (by simp)
    have hrest : ∀ q ∈ rest, 0 ≤ q.1 ∧ q.1 < nl ∧ 0 ≤ q.2 ∧ q.2 < nr := fun q hq => hp q (by simp [hq])
    have hstep : inhSpec cells nl (p :: rest) =
        inhSpec (cells.set (p.2.toNat * nl + p.1.toNat) INHIBITED) nl rest := by
      simp [inhSpec]
    rw [hstep, ih _ (by simpa using hlen) hrest hl hr]
    by_cases hmem : ((l : Int), (r : Int)) ∈ rest
    · simp [hmem]
    · simp only [hmem, if_false, List.mem_cons, or_false]
      have hj : r * nl + l < cells.length := by rw [hlen]; exact index_lt hl hr
      by_cases hpe : ((l : Int), (r : Int)) = p
      · subst hpe
        simp [hj]
      · have hne : p.2.toNat * nl + p.1.toNat ≠ r * nl + l := by
          intro heq
          have := index_inj (l := p.1.toNat) (l' := l) (by omega) hl heq
          apply hpe
          obtain ⟨a, b⟩ := p
          simp only [Prod.mk.injEq] at *
          omega
        rw [List.getElem?_set_ne hne]
        simp [hpe]

theorem setConnectCost_ok (dbg : Bool) {m : Matrix} (hwf : m.WF) (hnl : m.nl ≤ 65536) (hnr : m.nr ≤ 65536)
    {l r : Int} (hp : PairOk m (l, r)) (c : Int) :
    setConnectCost dbg m l r c = ok { m with cells := m.cells.set (r.toNat * m.nl + l.toNat) c } := by
  obtain ⟨h1, h2, h3, h4⟩ := hp
  simp only at h1 h2 h3 h4
  unfold setConnectCost
  rw [asU16_toNat h1 (by omega), asU16_toNat h3 (by omega)]
  exact Matrix.update_ok dbg hwf (by omega) (by omega) c

theorem inhEdit_ok (dbg : Bool) (pairs : List (Int × Int)) :
    ∀ (m : Matrix), m.WF → m.nl ≤ 65536 → m.nr ≤ 65536 → (∀ p ∈ pairs, PairOk m p) →
    inhEdit dbg m pairs = ok { m with cells := inhSpec m.cells m.nl pairs } := by
  induction pairs with
  | nil => intro m _ _ _ _; simp [inhEdit, inhSpec]
  | cons p rest ih =>
    intro m hwf hnl hnr hp
    obtain ⟨l, r⟩ := p
    have h0 := hp (l, r) (by simp)
    simp only [inhEdit, setConnectCost_ok dbg hwf hnl hnr h0]
    have hwf' : Matrix.WF { m with cells := m.cells.set (r.toNat * m.nl + l.toNat) INHIBITED } := by
      simp [Matrix.WF] at hwf ⊢; exact hwf
    rw [ih _ hwf' hnl hnr (fun q hq => hp q (by simp [hq]))]
    simp [inhSpec]

theorem inhEdits_ok (dbg : Bool) (pss : List (List (Int × Int))) :
    ∀ (m : Matrix), m.WF → m.nl ≤ 65536 → m.nr ≤ 65536 → (∀ ps ∈ pss, ∀ p ∈ ps, PairOk m p) →
    inhEdits dbg m pss = ok { m with cells := inhSpec m.cells m.nl pss.flatten } := by
  induction pss with
  | nil => intro m _ _ _ _; simp [inhEdits, inhSpec]
  | cons ps rest ih =>
    intro m hwf hnl hnr hp
    simp only [inhEdits, inhEdit_ok dbg ps m hwf hnl hnr (hp ps (by simp))]
    have hwf' : Matrix.WF { m with cells := inhSpec m.cells m.nl ps } := by
      simp [Matrix.WF, inhSpec_length] at hwf ⊢; exact hwf
    rw [ih _ hwf' hnl hnr (fun qs hq q hq2 => hp qs (by simp [hq]) q hq2)]
    simp [inhSpec, List.foldl_append]

/-- dimensions and size survive any successful sequence of edits (also out-of-range ones in release builds) -/
theorem update_dims {dbg : Bool} {m m' : Matrix} {l r : Nat} {v : Int} (h : m.update dbg l r v = ok m') :
    m'.nl = m.nl ∧ m'.nr = m.nr ∧ m'.cells.length = m.cells.length := by
  unfold Matrix.update at h
  split at h
  · split at h
    · injection h with h; subst h; simp
    · cases h
  all_goals cases h

theorem inhEdit_dims {dbg : Bool} (pairs : List (Int × Int)) : ∀ {m m' : Matrix}, inhEdit dbg m pairs = ok m' →
    m'.nl = m.nl ∧ m'.nr = m.nr ∧ m'.cells.length = m.cells.length := by
  induction pairs with
  | nil => intro m m' h; simp [inhEdit] at h; subst h; simp
  | cons p rest ih =>
    intro m m' h
    obtain ⟨l, r⟩ := p
    simp only [inhEdit] at h
    split at h
    · rename_i m1 h1
      have d1 := update_dims h1
      have d2 := ih h
      omega
    all_goals cases h

theorem inhEdits_dims {dbg : Bool} (pss : List (List (Int × Int))) : ∀ {m m' : Matrix}, inhEdits dbg m pss = ok m' →
    m'.nl = m.nl ∧ m'.nr = m.nr ∧ m'.cells.length = m.cells.length := by
  induction pss with
  | nil => intro m m' h; simp [inhEdits] at h; subst h; simp
  | cons ps rest ih =>
    intro m m' h
    simp only [inhEdits] at h
    split at h
    · rename_i m1 h1
      have d1 := inhEdit_dims ps h1
      have d2 := ih h
      omega
    all_goals cases h

/-! ## what the providers store -/

/-- an id as accepted: `< n` by the repaired comparison, `≤ n` by the one in the tree -/
def IdOk (ge : Bool) (n : Nat) (x : Nat) : Prop := if ge then x < n else x ≤ n

def EOk (ge : Bool) (m : Matrix) (e : OovE) : Prop :=
  IdOk ge m.nl e.l ∧ IdOk ge m.nr e.r ∧ -32768 ≤ e.c ∧ e.c ≤ 32767

def RawOk (ge : Bool) (m : Matrix) (d : RawOov) : Prop :=
  0 ≤ d.l ∧ IdOk ge m.nl d.l.toNat ∧ 0 ≤ d.r ∧ IdOk ge m.nr d.r.toNat ∧ -32768 ≤ d.c ∧ d.c ≤ 32767

def AccOk (P : RawOov → Prop) (acc : List (Nat × List RawOov)) : Prop := ∀ kv ∈ acc, ∀ d ∈ kv.2, P d

theorem pushRaw_ok {P : RawOov → Prop} {k : Nat} {d : RawOov} (hd : P d) :
    ∀ {acc : List (Nat × List RawOov)}, AccOk P acc → AccOk P (pushRaw k d acc)
  | [], _ => by
    intro kv hkv x hx
    simp [pushRaw] at hkv
    subst hkv
    simp at hx
    subst hx
    exact hd
  | (k', ds) :: rest, h => by
    intro kv hkv x hx
    simp only [pushRaw] at hkv
    split at hkv
    · simp only [List.mem_cons] at hkv
      rcases hkv with hkv | hkv
      · subst hkv
        simp only [List.mem_append, List.mem_singleton] at hx
        rcases hx with hx | hx
        · exact h (k', ds) (by simp) x hx
        · subst hx; exact hd
      · exact h kv (by simp [hkv]) x hx
    · simp only [List.mem_cons] at hkv
      rcases hkv with hkv | hkv
      · subst hkv
        exact h (k', ds) (by simp) x hx
      · exact pushRaw_ok hd (fun kv' hkv' => h kv' (by simp [hkv'])) kv hkv x hx

theorem parseI16_range {s : List Char} {x : Int} (h : Oov.parseI16 s = some x) : -32768 ≤ x ∧ x ≤ 32767 := by
  unfold Oov.parseI16 at h
  simp only at h
  split at h
  · split at h
    · injection h with h; subst h; assumption
    · cases h
  · cases h

theorem unkIdBad_false {ge : Bool} {n : Nat} {x : Int} (h : unkIdBad ge n x = false)
    (h1 : -32768 ≤ x) (h2 : x ≤ 32767) (hn : n < 9223372036854775808) :
    0 ≤ x ∧ IdOk ge n x.toNat := by
  unfold unkIdBad at h
  unfold IdOk
  by_cases hx : x < 0
  · have := asUsize_neg hx h1
    cases ge <;> simp at h <;> omega
  · have e := asUsize_nonneg (x := x) (by omega) (by omega)
    rw [e] at h
    cases ge <;> simp at h ⊢ <;> omega

theorem readOovLine_ok {v : Variant} {cats : List (Nat × Oov.CatInfo)} {conn : Matrix} {mode : Mode}
    {line : List Char} {pl pl' : List Pos} {ct : Nat} {d : RawOov}
    (hnl : conn.nl < 9223372036854775808) (hnr : conn.nr < 9223372036854775808)
    (h : readOovLine v cats conn mode line pl = ok (some (pl', ct, d))) : RawOk v.unkGe conn d := by
  unfold readOovLine at h
  simp only at h
  split at h
  · cases h
  · split at h
    · cases h
    · split at h
      · split at h
        · cases h
        · split at h
          · cases h
          · split at h
            · cases h
            · split at h
              · cases h
              · split at h
                · cases h
                · rename_i _ l hl _ r hr _ c hc
                  split at h
                  · split at h
                    · cases h
                    · split at h
                      · cases h
                      · rename_i hbl hbr
                        injection h with h
                        injection h with h
                        simp only [Prod.mk.injEq] at h
                        obtain ⟨_, _, hd⟩ := h
                        subst hd
                        have rl := parseI16_range hl
                        have rr := parseI16_range hr
                        have rc := parseI16_range hc
                        have a := unkIdBad_false (by simpa using hbl) rl.1 rl.2 hnl
                        have b := unkIdBad_false (by simpa using hbr) rr.1 rr.2 hnr
                        exact ⟨a.1, a.2, b.1, b.2, rc.1, rc.2⟩
                  all_goals cases h
      · cases h

theorem readOov_ok {v : Variant} {cats : List (Nat × Oov.CatInfo)} {conn : Matrix} {mode : Mode}
    (hnl : conn.nl < 9223372036854775808) (hnr : conn.nr < 9223372036854775808) (lines : List (List Char)) :
    ∀ {pl pl' : List Pos} {acc acc' : List (Nat × List RawOov)},
    readOov v cats conn mode lines pl acc = ok (pl', acc') →
    AccOk (RawOk v.unkGe conn) acc → AccOk (RawOk v.unkGe conn) acc' := by
  induction lines with
  | nil => intro pl pl' acc acc' h hacc; simp [readOov] at h; rw [← h.2]; exact hacc
  | cons line rest ih =>
    intro pl pl' acc acc' h hacc
    simp only [readOov] at h
    split at h
    · exact ih h hacc
    · rename_i pl1 ct d hline
      exact ih h (pushRaw_ok (readOovLine_ok hnl hnr hline) hacc)
    all_goals cases h

def ProvOk (v : Variant) (m : Matrix) : Prov → Prop
  | .simple e => EOk v.jsonGe m e
  | .regex e => EOk v.jsonGe m e
  | .mecab es => AccOk (RawOk v.unkGe m) es

theorem checkId_IdOk {ge : Bool} {n : Nat} {x : Int} {w : Nat} (h : checkId ge n x = ok w) (hn : n ≤ 65535) :
    IdOk ge n w ∧ (w : Int) = x := by
  obtain ⟨h0, hb, hw⟩ := checkId_ok h
  have hx : x < 65536 := by cases ge <;> simp at hb <;> omega
  have e := asU16_toNat h0 hx
  subst hw
  rw [e]
  refine ⟨?_, by omega⟩
  unfold IdOk
  cases ge <;> simp at hb ⊢ <;> omega

theorem setUpSimple_ok {v : Variant} {g g' : Grammar} {pos : Pos} {l r c : Int} {mode : Mode} {p : Prov}
    (hnl : g.conn.nl ≤ 65535) (hnr : g.conn.nr ≤ 65535)
    (h : setUpSimple v g pos l r c mode = ok (g', p)) : g'.conn = g.conn ∧ ProvOk v g.conn p := by
  unfold setUpSimple at h
  split at h
  · split at h
    · split at h
      · split at h
        · rename_i _ pl pid _ _ l' hl _ r' hr _ c' hc
          injection h with h
          simp only [Prod.mk.injEq] at h
          obtain ⟨hg, hp⟩ := h
          subst hg hp
          have a := checkId_IdOk hl hnl
          have b := checkId_IdOk hr hnr
          have cc := checkCost_ok hc
          refine ⟨rfl, a.1, b.1, ?_, ?_⟩ <;> simp only <;> omega
        all_goals cases h
      all_goals cases h
    all_goals cases h
  all_goals cases h

theorem setUpRegex_ok {v : Variant} {g g' : Grammar} {pos : Pos} {l r c : Int} {mode : Mode} {p : Prov}
    (hnl : g.conn.nl ≤ 65535) (hnr : g.conn.nr ≤ 65535)
    (h : setUpRegex v g pos l r c mode = ok (g', p)) : g'.conn = g.conn ∧ ProvOk v g.conn p := by
  unfold setUpRegex at h
  split at h
  · split at h
    · split at h
      · split at h
        · rename_i _ l' hl _ r' hr _ c' hc _ pl pid _
          injection h with h
          simp only [Prod.mk.injEq] at h
          obtain ⟨hg, hp⟩ := h
          subst hg hp
          have a := checkId_IdOk hl hnl
          have b := checkId_IdOk hr hnr
          have cc := checkCost_ok hc
          refine ⟨rfl, a.1, b.1, ?_, ?_⟩ <;> simp only <;> omega
        all_goals cases h
      all_goals cases h
    all_goals cases h
  all_goals cases h

theorem setUpMecab_ok {v : Variant} {cdef : List (List Char)} {g g' : Grammar} {unk : List (List Char)} {mode : Mode} {p : Prov}
    (hnl : g.conn.nl ≤ 65535) (hnr : g.conn.nr ≤ 65535)
    (h : setUpMecab v cdef g unk mode = ok (g', p)) : g'.conn = g.conn ∧ ProvOk v g.conn p := by
  unfold setUpMecab at h
  split at h
  · cases h
  · split at h
    · rename_i _ cats _ _ pl es hro
      injection h with h
      simp only [Prod.mk.injEq] at h
      obtain ⟨hg, hp⟩ := h
      subst hg hp
      refine ⟨rfl, ?_⟩
      exact readOov_ok (by omega) (by omega) unk hro (by intro kv hkv; cases hkv)
    all_goals cases h

theorem setUpProv_ok {v : Variant} {cdef : List (List Char)} {g g' : Grammar} {c : ProvCfg} {p : Prov}
    (hnl : g.conn.nl ≤ 65535) (hnr : g.conn.nr ≤ 65535)
    (h : setUpProv v cdef g c = ok (g', p)) : g'.conn = g.conn ∧ ProvOk v g.conn p := by
  cases c with
  | simple pos l r c mode => exact setUpSimple_ok hnl hnr h
  | regex pos l r c mode => exact setUpRegex_ok hnl hnr h
  | mecab unk mode => exact setUpMecab_ok hnl hnr h

theorem setUpProvs_ok {v : Variant} {cdef : List (List Char)} (cs : List ProvCfg) :
    ∀ {g g' : Grammar} {ps : List Prov}, g.conn.nl ≤ 65535 → g.conn.nr ≤ 65535 →
    setUpProvs v cdef g cs = ok (g', ps) → g'.conn = g.conn ∧ ∀ p ∈ ps, ProvOk v g.conn p := by
  induction cs with
  | nil => intro g g' ps _ _ h; simp [setUpProvs] at h; obtain ⟨h1, h2⟩ := h; subst h1 h2; simp
  | cons c rest ih =>
    intro g g' ps hnl hnr h
    simp only [setUpProvs] at h
    split at h
    · rename_i g1 p1 h1
      split at h
      · rename_i g2 ps2 h2
        injection h with h
        simp only [Prod.mk.injEq] at h
        obtain ⟨hg, hp⟩ := h
        subst hg hp
        have a := setUpProv_ok hnl hnr h1
        have b := ih (g := g1) (by rw [a.1]; exact hnl) (by rw [a.1]; exact hnr) h2
        refine ⟨by rw [b.1, a.1], ?_⟩
        intro p hp
        simp only [List.mem_cons] at hp
        rcases hp with hp | hp
        · subst hp; exact a.2
        · have := b.2 p hp; rw [a.1] at this; exact this
      all_goals cases h
    all_goals cases h

/-- the ids a provider attaches to its nodes are the accepted ones -/
theorem provNodes_ok {v : Variant} {m : Matrix} (hnl : m.nl ≤ 65535) (hnr : m.nr ≤ 65535) {p : Prov}
    (hp : ProvOk v m p) : ∀ e ∈ provNodes p,
      IdOk (match p with | .mecab _ => v.unkGe | _ => v.jsonGe) m.nl e.l ∧
      IdOk (match p with | .mecab _ => v.unkGe | _ => v.jsonGe) m.nr e.r ∧ -32768 ≤ e.c ∧ e.c ≤ 32767 := by
  cases p with
  | simple e0 => intro e he; simp [provNodes] at he; subst he; exact hp
  | regex e0 => intro e he; simp [provNodes] at he; subst he; exact hp
  | mecab es =>
    intro e he
    simp only [provNodes, List.mem_flatten, List.mem_map] at he
    obtain ⟨ds, ⟨kv, hkv, hds⟩, hed⟩ := he
    subst hds
    simp only [List.mem_map] at hed
    obtain ⟨d, hd, hde⟩ := hed
    subst hde
    obtain ⟨h1, h2, h3, h4, h5, h6⟩ := hp kv hkv d hd
    have b1 : d.l < 65536 := by
      have := h2; unfold IdOk at this; split at this <;> omega
    have b2 : d.r < 65536 := by
      have := h4; unfold IdOk at this; split at this <;> omega
    simp only [rawNode, asU16_toNat h1 b1, asU16_toNat h3 b2]
    exact ⟨h2, h4, h5, h6⟩

/-! ## inhibit set-up and the whole load -/

theorem inhSetUp_ok {v : Variant} {g : Grammar} {pairs ps : List (Int × Int)} (h : inhSetUp v g pairs = ok ps) :
    ps = pairs ∧ (∀ p ∈ pairs, fitsI16 p.1 = true ∧ fitsI16 p.2 = true) ∧
    (v.inhChecked = true → ∀ p ∈ pairs, PairOk g.conn p) := by
  unfold inhSetUp at h
  split at h
  · rename_i hfit
    have hf : ∀ p ∈ pairs, fitsI16 p.1 = true ∧ fitsI16 p.2 = true := by
      intro p hp
      have := List.all_eq_true.mp hfit p hp
      simpa using this
    split at h
    · split at h
      · rename_i hall
        injection h with h
        refine ⟨h.symm, hf, fun _ p hp => ?_⟩
        exact pairInRange_ok (hf p hp).1 (hf p hp).2 (List.all_eq_true.mp hall p hp)
      · cases h
    · rename_i hc
      injection h with h
      exact ⟨h.symm, hf, fun hc' => absurd hc' hc⟩
  · cases h

theorem inhSetUps_ok {v : Variant} {g : Grammar} (pss : List (List (Int × Int))) :
    ∀ {as : List (List (Int × Int))}, inhSetUps v g pss = ok as →
    as = pss ∧ (v.inhChecked = true → ∀ ps ∈ pss, ∀ p ∈ ps, PairOk g.conn p) := by
  induction pss with
  | nil => intro as h; simp [inhSetUps] at h; exact ⟨h, fun _ ps hps => by cases hps⟩
  | cons ps rest ih =>
    intro as h
    simp only [inhSetUps] at h
    split at h
    · rename_i a ha
      split at h
      · rename_i as' has
        injection h with h
        have h1 := inhSetUp_ok ha
        have h2 := ih has
        refine ⟨by rw [← h, h1.1, h2.1], fun hc qs hqs => ?_⟩
        simp only [List.mem_cons] at hqs
        rcases hqs with hqs | hqs
        · subst hqs; exact h1.2.2 hc
        · exact h2.2 hc qs hqs
      all_goals cases h
    all_goals cases h

structure LoadFacts (v : Variant) (g : Grammar) (cfg : Cfg) (ld : Loaded) : Prop where
  provs_ne : ld.provs ≠ []
  provs_ok : ∀ p ∈ ld.provs, ProvOk v g.conn p
  nl_eq : ld.g.conn.nl = g.conn.nl
  nr_eq : ld.g.conn.nr = g.conn.nr
  len_eq : ld.g.conn.cells.length = g.conn.cells.length
  checked : v.inhChecked = true → g.conn.WF →
    (∀ ps ∈ cfg.inh, ∀ p ∈ ps, PairOk g.conn p) ∧
    ld.g.conn.cells = inhSpec g.conn.cells g.conn.nl cfg.inh.flatten

theorem load_facts {v : Variant} {cdef : List (List Char)} {g : Grammar} {cfg : Cfg} {ld : Loaded}
    (hnl : g.conn.nl ≤ 65535) (hnr : g.conn.nr ≤ 65535)
    (h : load v cdef g cfg = ok ld) : LoadFacts v g cfg ld := by
  unfold load at h
  split at h
  · rename_i inh hinh
    split at h
    · rename_i g1 provs hprov
      split at h
      · cases h
      · rename_i hne
        split at h
        · rename_i conn hconn
          injection h with h
          subst h
          have hi := inhSetUps_ok cfg.inh hinh
          have hp := setUpProvs_ok cfg.oov hnl hnr hprov
          have hd := inhEdits_dims inh hconn
          rw [hp.1] at hd
          refine ⟨?_, hp.2, hd.1, hd.2.1, hd.2.2, ?_⟩
          · intro hnil; apply hne; simp only at hnil; simp [hnil]
          · intro hc hwf
            have hpairs := hi.2 hc
            refine ⟨hpairs, ?_⟩
            have hwf1 : g1.conn.WF := by rw [hp.1]; exact hwf
            have := inhEdits_ok v.debug inh g1.conn hwf1 (by rw [hp.1]; omega) (by rw [hp.1]; omega)
              (by rw [hi.1, hp.1]; exact hpairs)
            rw [this] at hconn
            injection hconn with hconn
            rw [← hconn, hp.1, hi.1]
        all_goals cases h
    all_goals cases h
  all_goals cases h

/-! ## lattice: no index outside the matrix when every id is in range -/

def RowOk (m : Matrix) (row : List (Nat × Bool)) : Prop := ∀ rc ∈ row, rc.1 < m.nl
def EndsOk (m : Matrix) (ends : Ends) : Prop := ∀ row ∈ ends, RowOk m row

theorem connectNode_ok (dbg : Bool) {m : Matrix} (hwf : m.WF) {leftId : Nat} (hl : leftId < m.nr) :
    ∀ (ls : List (Nat × Bool)) (acc : Bool), RowOk m ls → ∃ c, connectNode dbg m ls leftId acc = ok c
  | [], acc, _ => ⟨acc, rfl⟩
  | (r, c) :: rest, acc, h => by
    have hrest : RowOk m rest := fun rc hrc => h rc (by simp [hrc])
    simp only [connectNode]
    split
    · exact connectNode_ok dbg hwf hl rest acc hrest
    · obtain ⟨cst, hc⟩ := Matrix.cost_ok dbg hwf (h (r, c) (by simp)) hl
      rw [hc]
      exact connectNode_ok dbg hwf hl rest true hrest

def NodeOk (m : Matrix) (len : Nat) (n : LNode) : Prop := n.left < m.nr ∧ n.right < m.nl ∧ n.b ≤ len ∧ n.e ≤ len

theorem buildLattice_ok (dbg : Bool) {m : Matrix} (hwf : m.WF) (hnr : 0 < m.nr) (len : Nat) :
    ∀ (nodes : List LNode) (ends : Ends), ends.length = len + 1 → EndsOk m ends →
    (∀ n ∈ nodes, NodeOk m len n) → ∃ c, buildLattice dbg m len nodes ends = ok c
  | [], ends, hlen, hends, _ => by
    simp only [buildLattice]
    have hlt : len < ends.length := by omega
    rw [List.getElem?_eq_getElem hlt]
    exact connectNode_ok dbg hwf hnr _ false (hends _ (List.getElem_mem hlt))
  | n :: rest, ends, hlen, hends, hn => by
    obtain ⟨h1, h2, h3, h4⟩ := hn n (by simp)
    have hb : n.b < ends.length := by omega
    have he : n.e < ends.length := by omega
    simp only [buildLattice]
    rw [List.getElem?_eq_getElem hb]
    obtain ⟨c, hc⟩ := connectNode_ok dbg hwf h1 ends[n.b] false (hends _ (List.getElem_mem hb))
    simp only [hc]
    rw [List.getElem?_eq_getElem he]
    apply buildLattice_ok dbg hwf hnr len rest
    · simpa using hlen
    · intro row hrow
      rcases List.mem_or_eq_of_mem_set hrow with hrow | hrow
      · exact hends row hrow
      · subst hrow
        intro rc hrc
        simp only [List.mem_append, List.mem_singleton] at hrc
        rcases hrc with hrc | hrc
        · exact hends _ (List.getElem_mem he) rc hrc
        · subst hrc; exact h2
    · exact fun k hk => hn k (by simp [hk])

theorem bosEnds_ok {m : Matrix} (hnl : 0 < m.nl) (len : Nat) :
    (bosEnds len).length = len + 1 ∧ EndsOk m (bosEnds len) := by
  refine ⟨by simp [bosEnds], ?_⟩
  intro row hrow
  simp only [bosEnds, List.mem_cons, List.mem_replicate] at hrow
  rcases hrow with hrow | ⟨_, hrow⟩
  · subst hrow; intro rc hrc; simp at hrc; subst hrc; exact hnl
  · subst hrow; intro rc hrc; cases hrc

end Params

/-! ## no panic while loading -/
namespace Params
open Outcome

/-- neither a panic nor undefined behaviour -/
def Outcome.isSafe {α : Type} : Outcome α → Bool
  | .ok _ => true
  | .err _ => true
  | .crash => false
  | .ub => false

theorem registerPos_safe (pl : List Pos) (p : Pos) : (registerPos pl p).isSafe = true := by
  unfold registerPos
  repeat' (first | split | dsimp only)
  all_goals rfl

theorem handleUserPos_safe (pl : List Pos) (p : Pos) (mode : Mode) : (handleUserPos pl p mode).isSafe = true := by
  unfold handleUserPos
  split
  · rfl
  · split
    · exact registerPos_safe pl p
    · rfl

theorem checkId_safe (ge : Bool) (n : Nat) (x : Int) : (checkId ge n x).isSafe = true := by
  unfold checkId
  repeat' (first | split | dsimp only)
  all_goals rfl

theorem checkCost_safe (x : Int) : (checkCost x).isSafe = true := by
  unfold checkCost
  repeat' (first | split | dsimp only)
  all_goals rfl

theorem isSafe_of_eq_crash {α : Type} {x : Outcome α} (hs : x.isSafe = true) (h : x = crash) : False := by
  subst h; cases hs

theorem isSafe_of_eq_ub {α : Type} {x : Outcome α} (hs : x.isSafe = true) (h : x = ub) : False := by
  subst h; cases hs

theorem setUpSimple_safe (v : Variant) (g : Grammar) (pos : Pos) (l r c : Int) (mode : Mode) :
    (setUpSimple v g pos l r c mode).isSafe = true := by
  unfold setUpSimple
  have a := handleUserPos_safe g.pos pos mode
  have b := checkId_safe v.jsonGe g.conn.nl l
  have b' := checkId_safe v.jsonGe g.conn.nr r
  have d := checkCost_safe c
  unfold checkLeftId checkRightId
  repeat' (first | split | dsimp only)
  all_goals first
    | rfl
    | exact (isSafe_of_eq_crash a ‹_›).elim | exact (isSafe_of_eq_ub a ‹_›).elim
    | exact (isSafe_of_eq_crash b ‹_›).elim | exact (isSafe_of_eq_ub b ‹_›).elim
    | exact (isSafe_of_eq_crash b' ‹_›).elim | exact (isSafe_of_eq_ub b' ‹_›).elim
    | exact (isSafe_of_eq_crash d ‹_›).elim | exact (isSafe_of_eq_ub d ‹_›).elim

theorem setUpRegex_safe (v : Variant) (g : Grammar) (pos : Pos) (l r c : Int) (mode : Mode) :
    (setUpRegex v g pos l r c mode).isSafe = true := by
  unfold setUpRegex
  have a := handleUserPos_safe g.pos pos mode
  have b := checkId_safe v.jsonGe g.conn.nl l
  have b' := checkId_safe v.jsonGe g.conn.nr r
  have d := checkCost_safe c
  unfold checkLeftId checkRightId
  repeat' (first | split | dsimp only)
  all_goals first
    | rfl
    | exact (isSafe_of_eq_crash a ‹_›).elim | exact (isSafe_of_eq_ub a ‹_›).elim
    | exact (isSafe_of_eq_crash b ‹_›).elim | exact (isSafe_of_eq_ub b ‹_›).elim
    | exact (isSafe_of_eq_crash b' ‹_›).elim | exact (isSafe_of_eq_ub b' ‹_›).elim
    | exact (isSafe_of_eq_crash d ‹_›).elim | exact (isSafe_of_eq_ub d ‹_›).elim

theorem readOovLine_safe (v : Variant) (cats : List (Nat × Oov.CatInfo)) (conn : Matrix) (mode : Mode)
    (line : List Char) (pl : List Pos) : (readOovLine v cats conn mode line pl).isSafe = true := by
  unfold readOovLine
  simp only
  repeat' (first | split | dsimp only)
  all_goals first
    | rfl
    | exact (isSafe_of_eq_crash (handleUserPos_safe _ _ _) ‹_›).elim
    | exact (isSafe_of_eq_ub (handleUserPos_safe _ _ _) ‹_›).elim

theorem readOov_safe (v : Variant) (cats : List (Nat × Oov.CatInfo)) (conn : Matrix) (mode : Mode)
    (lines : List (List Char)) : ∀ (pl : List Pos) (acc : List (Nat × List RawOov)),
    (readOov v cats conn mode lines pl acc).isSafe = true := by
  induction lines with
  | nil => intro pl acc; rfl
  | cons line rest ih =>
    intro pl acc
    simp only [readOov]
    have a := readOovLine_safe v cats conn mode line pl
    split
    · exact ih _ _
    · exact ih _ _
    · rfl
    · exact (isSafe_of_eq_crash a ‹_›).elim
    · exact (isSafe_of_eq_ub a ‹_›).elim

theorem setUpMecab_safe (v : Variant) (cdef : List (List Char)) (g : Grammar) (unk : List (List Char)) (mode : Mode) :
    (setUpMecab v cdef g unk mode).isSafe = true := by
  unfold setUpMecab
  split
  · rfl
  · rename_i cats _
    have a := readOov_safe v cats g.conn mode unk g.pos []
    split
    · rfl
    · rfl
    · exact (isSafe_of_eq_crash a ‹_›).elim
    · exact (isSafe_of_eq_ub a ‹_›).elim

theorem setUpProv_safe (v : Variant) (cdef : List (List Char)) (g : Grammar) (c : ProvCfg) :
    (setUpProv v cdef g c).isSafe = true := by
  cases c with
  | simple pos l r c mode => exact setUpSimple_safe v g pos l r c mode
  | regex pos l r c mode => exact setUpRegex_safe v g pos l r c mode
  | mecab unk mode => exact setUpMecab_safe v cdef g unk mode

theorem setUpProvs_safe (v : Variant) (cdef : List (List Char)) (cs : List ProvCfg) :
    ∀ (g : Grammar), (setUpProvs v cdef g cs).isSafe = true := by
  induction cs with
  | nil => intro g; rfl
  | cons c rest ih =>
    intro g
    simp only [setUpProvs]
    have a := setUpProv_safe v cdef g c
    split
    · rename_i g1 p1 _
      have b := ih g1
      split
      · rfl
      · rfl
      · exact (isSafe_of_eq_crash b ‹_›).elim
      · exact (isSafe_of_eq_ub b ‹_›).elim
    · rfl
    · exact (isSafe_of_eq_crash a ‹_›).elim
    · exact (isSafe_of_eq_ub a ‹_›).elim

theorem inhSetUp_safe (v : Variant) (g : Grammar) (pairs : List (Int × Int)) : (inhSetUp v g pairs).isSafe = true := by
  unfold inhSetUp
  repeat' (first | split | dsimp only)
  all_goals rfl

theorem inhSetUps_safe (v : Variant) (g : Grammar) (pss : List (List (Int × Int))) :
    (inhSetUps v g pss).isSafe = true := by
  induction pss with
  | nil => rfl
  | cons ps rest ih =>
    simp only [inhSetUps]
    have a := inhSetUp_safe v g ps
    split
    · split
      · rfl
      · rfl
      · exact (isSafe_of_eq_crash ih ‹_›).elim
      · exact (isSafe_of_eq_ub ih ‹_›).elim
    · rfl
    · exact (isSafe_of_eq_crash a ‹_›).elim
    · exact (isSafe_of_eq_ub a ‹_›).elim

/-- with the repaired `set_up` of the inhibit plugin the whole load returns a value or an error -/
theorem load_safe {v : Variant} (hv : v.inhChecked = true) (cdef : List (List Char)) (g : Grammar) (cfg : Cfg)
    (hnl : g.conn.nl ≤ 65535) (hnr : g.conn.nr ≤ 65535) (hwf : g.conn.WF) :
    (load v cdef g cfg).isSafe = true := by
  unfold load
  have a := inhSetUps_safe v g cfg.inh
  have b := setUpProvs_safe v cdef cfg.oov g
  split
  · rename_i inh hinh
    split
    · rename_i g1 provs hprov
      split
      · rfl
      · have hi := inhSetUps_ok cfg.inh hinh
        have hp := setUpProvs_ok cfg.oov hnl hnr hprov
        have hwf1 : g1.conn.WF := by rw [hp.1]; exact hwf
        have := inhEdits_ok v.debug inh g1.conn hwf1 (by rw [hp.1]; omega) (by rw [hp.1]; omega)
          (by rw [hi.1, hp.1]; exact hi.2 hv)
        rw [this]
        rfl
    · rfl
    · exact (isSafe_of_eq_crash b ‹_›).elim
    · exact (isSafe_of_eq_ub b ‹_›).elim
  · rfl
  · exact (isSafe_of_eq_crash a ‹_›).elim
  · exact (isSafe_of_eq_ub a ‹_›).elim

end Params

namespace Params
/-- the tree as it stands: `>` in check_params and mecab_oov, no check of inhibited pairs -/
def cur (dbg : Bool) : Variant := ⟨false, false, false, dbg⟩
/-- all three planned/considered repairs applied (`>=`, `>=`, range check in `set_up`) -/
def repaired (dbg : Bool) : Variant := ⟨true, true, true, dbg⟩
end Params
