import Sudachi.Proofs.Sentence
/-!
# Declarative specifications of the simple regular expressions of `sentence_detector.rs` (C16)

`RE` is a small regular-expression syntax (character class, sequence, alternation, `+`) with its
standard denotation `RE.Matches r u` ("the string `u` is in the language of `r`").  The patterns
ITEMIZE_HEADER, EOS_ITEMIZE_HEADER, PROHIBITED_BOS and QUOTE_MARKER are written down as `RE` values that
follow the pattern text token by token, and the hand-written matchers of `Model/Sentence.lean`
(`isItemizeHeader`, `endsWithItemize`, `prohibitedBos`, `quoteMarkerAt0`) are proved equal to what the
regex engine is documented to compute from that language (`is_match` with `^…$` = the whole string is in
the language; `…\z` unanchored = some suffix is; `\A(…)+` `find` = the longest prefix in the language,
greedy `+` over a single class; `find(..).start() == 0` = some prefix is in the language).  What
remains trusted for these four is only the character classes and this reading of the anchors.
-/
namespace Sentence

inductive RE where
  | cls (p : Nat → Bool) : RE       -- `[...]`, or a literal character `c` as `(· = c)`
  | seq (a b : RE) : RE
  | alt (a b : RE) : RE
  | plus (a : RE) : RE               -- `a+`

/-- `u` is in the language of `r` -/
inductive RE.Matches : RE → Text → Prop where
  | cls {p : Nat → Bool} {c : Nat} : p c = true → RE.Matches (.cls p) [c]
  | seq {a b : RE} {u w : Text} : RE.Matches a u → RE.Matches b w → RE.Matches (.seq a b) (u ++ w)
  | altL {a b : RE} {u : Text} : RE.Matches a u → RE.Matches (.alt a b) u
  | altR {a b : RE} {u : Text} : RE.Matches b u → RE.Matches (.alt a b) u
  | plusOne {a : RE} {u : Text} : RE.Matches a u → RE.Matches (.plus a) u
  | plusMore {a : RE} {u w : Text} : RE.Matches a u → RE.Matches (.plus a) w → RE.Matches (.plus a) (u ++ w)

def RE.chr (c : Nat) : RE := .cls (fun x => x == c)

theorem matches_cls {p : Nat → Bool} {u : Text} : RE.Matches (.cls p) u ↔ ∃ c, u = [c] ∧ p c = true := by
  constructor
  · intro h; cases h with | cls hp => exact ⟨_, rfl, hp⟩
  · rintro ⟨c, rfl, hp⟩; exact .cls hp

theorem matches_chr {c : Nat} {u : Text} : RE.Matches (RE.chr c) u ↔ u = [c] := by
  unfold RE.chr
  rw [matches_cls]
  constructor
  · rintro ⟨x, rfl, hx⟩; simp at hx; simp [hx]
  · rintro rfl; exact ⟨c, rfl, by simp⟩

theorem matches_seq {a b : RE} {u : Text} :
    RE.Matches (.seq a b) u ↔ ∃ x y, u = x ++ y ∧ RE.Matches a x ∧ RE.Matches b y := by
  constructor
  · intro h; cases h with | seq h1 h2 => exact ⟨_, _, rfl, h1, h2⟩
  · rintro ⟨x, y, rfl, h1, h2⟩; exact .seq h1 h2

theorem matches_alt {a b : RE} {u : Text} : RE.Matches (.alt a b) u ↔ RE.Matches a u ∨ RE.Matches b u := by
  constructor
  · intro h
    cases h with
    | altL h => exact Or.inl h
    | altR h => exact Or.inr h
  · rintro (h | h)
    · exact .altL h
    · exact .altR h

/-- `[class]+` = the non-empty strings over the class -/
theorem matches_plus_cls {p : Nat → Bool} {u : Text} :
    RE.Matches (.plus (.cls p)) u ↔ u ≠ [] ∧ ∀ c ∈ u, p c = true := by
  constructor
  · intro h
    generalize hr : RE.plus (.cls p) = r at h
    induction h with
    | cls _ => cases hr
    | seq _ _ => cases hr
    | altL _ => cases hr
    | altR _ => cases hr
    | plusOne h1 =>
      cases hr
      obtain ⟨c, rfl, hp⟩ := matches_cls.mp h1
      exact ⟨by simp, by simpa using hp⟩
    | plusMore h1 _ _ ih2 =>
      cases hr
      obtain ⟨c, rfl, hp⟩ := matches_cls.mp h1
      obtain ⟨_, hall⟩ := ih2 rfl
      refine ⟨by simp, ?_⟩
      intro x hx
      simp only [List.cons_append, List.nil_append, List.mem_cons] at hx
      rcases hx with rfl | hx
      · exact hp
      · exact hall x hx
  · rintro ⟨hne, hall⟩
    induction u with
    | nil => exact absurd rfl hne
    | cons c cs ih =>
      have hc : p c = true := hall c (by simp)
      cases cs with
      | nil => exact .plusOne (.cls hc)
      | cons d ds =>
        have := ih (by simp) (fun x hx => hall x (List.mem_cons_of_mem _ hx))
        exact .plusMore (u := [c]) (.cls hc) this

/-! ## ITEMIZE_HEADER `^([AN])([DOT])$` and EOS_ITEMIZE_HEADER `([AN])([DOT])\z` -/

/-- `([{ALPHABET_OR_NUMBER}])([{DOT}])` -/
def reItemize : RE := .seq (.cls isAN) (.cls isDot)

theorem reItemize_matches {u : Text} : reItemize.Matches u ↔ ∃ a d, u = [a, d] ∧ isAN a = true ∧ isDot d = true := by
  unfold reItemize
  rw [matches_seq]
  constructor
  · rintro ⟨x, y, rfl, hx, hy⟩
    obtain ⟨a, rfl, ha⟩ := matches_cls.mp hx
    obtain ⟨d, rfl, hd⟩ := matches_cls.mp hy
    exact ⟨a, d, rfl, ha, hd⟩
  · rintro ⟨a, d, rfl, ha, hd⟩
    exact ⟨[a], [d], rfl, .cls ha, .cls hd⟩

/-- ITEMIZE_HEADER.is_match(s) with `^…$`: the whole string is in the language -/
theorem isItemizeHeader_spec (s : Text) : isItemizeHeader s = true ↔ reItemize.Matches s := by
  rw [reItemize_matches]
  constructor
  · intro h
    match s, h with
    | [a, d], h =>
      simp only [isItemizeHeader, Bool.and_eq_true] at h
      exact ⟨a, d, rfl, h.1, h.2⟩
  · rintro ⟨a, d, rfl, ha, hd⟩
    simp [isItemizeHeader, ha, hd]

/-- EOS_ITEMIZE_HEADER.is_match(s) with `…\z` (unanchored at the start): some suffix is in the language -/
theorem endsWithItemize_spec (s : Text) :
    endsWithItemize s.reverse = true ↔ ∃ pre m, s = pre ++ m ∧ reItemize.Matches m := by
  constructor
  · intro h
    unfold endsWithItemize at h
    split at h
    · rename_i d a r hrev
      simp only [Bool.and_eq_true] at h
      have hs : s = r.reverse ++ [a, d] := by
        have := congrArg List.reverse hrev
        simpa using this
      exact ⟨r.reverse, [a, d], hs, reItemize_matches.mpr ⟨a, d, rfl, h.2, h.1⟩⟩
    · cases h
  · rintro ⟨pre, m, rfl, hm⟩
    obtain ⟨a, d, rfl, ha, hd⟩ := reItemize_matches.mp hm
    simp [endsWithItemize, ha, hd]

/-! ## PROHIBITED_BOS `\A([CLOSE COMMA PERIODS])+` -/

/-- `([{CLOSE_PARENTHESIS}{COMMA}{PERIODS}])+` -/
def reProhibitedBos : RE := .plus (.cls isProhibitedBos)

theorem spanLen_max (p : Nat → Bool) : ∀ (l : Text) (m : Nat), m ≤ l.length →
    (∀ c ∈ l.take m, p c = true) → m ≤ spanLen p l := by
  intro l
  induction l with
  | nil => intro m hm _; simp only [List.length_nil] at hm; omega
  | cons c cs ih =>
    intro m hm hall
    cases m with
    | zero => omega
    | succ m =>
      have hc : p c = true := hall c (by simp)
      simp only [spanLen, hc, if_true]
      have := ih m (by simpa using hm) (fun x hx => hall x (by simp [hx]))
      omega

/-- `prohibited_bos(s)`: `find` of `\A(class)+` returns the **longest** prefix in the language (greedy
`+` over one class never has to give a character back), and the function answers 0 when no prefix
matches.  Here: every prefix in the language is at most `prohibitedBos s` long; `prohibitedBos s` is 0
exactly when no non-empty prefix is in the language, otherwise the prefix of that length is in it. -/
theorem prohibitedBos_spec (s : Text) :
    prohibitedBos s ≤ s.length ∧
    (∀ m, m ≤ s.length → reProhibitedBos.Matches (s.take m) → m ≤ prohibitedBos s) ∧
    (prohibitedBos s = 0 → ∀ m, m ≤ s.length → ¬ reProhibitedBos.Matches (s.take m)) ∧
    (prohibitedBos s ≠ 0 → reProhibitedBos.Matches (s.take (prohibitedBos s))) := by
  have hmax : ∀ m, m ≤ s.length → reProhibitedBos.Matches (s.take m) → m ≤ prohibitedBos s ∧ 1 ≤ m := by
    intro m hm h
    obtain ⟨hne, hall⟩ := matches_plus_cls.mp h
    refine ⟨spanLen_max _ s m hm hall, ?_⟩
    cases m with
    | zero => simp at hne
    | succ m => omega
  refine ⟨spanLen_le _ _, fun m hm h => (hmax m hm h).1, ?_, ?_⟩
  · intro h0 m hm h
    have := hmax m hm h
    omega
  · intro hne
    apply matches_plus_cls.mpr
    refine ⟨?_, spanLen_all _ _⟩
    intro hnil
    have := congrArg List.length hnil
    have hle := spanLen_le isProhibitedBos s
    simp only [List.length_take, List.length_nil, prohibitedBos] at this hne
    omega

/-! ## QUOTE_MARKER `(！|？|\!|\?|[CLOSE])(と|っ|です)` -/

/-- `(！|？|\!|\?|[{CLOSE_PARENTHESIS}])(と|っ|です)` -/
def reQuoteMarker : RE :=
  .seq (.alt (RE.chr 0xFF01) (.alt (RE.chr 0xFF1F) (.alt (RE.chr 0x21) (.alt (RE.chr 0x3F) (.cls isClose)))))
       (.alt (RE.chr 0x3068) (.alt (RE.chr 0x3063) (.seq (RE.chr 0x3067) (RE.chr 0x3059))))

theorem reQuoteMarker_matches {u : Text} : reQuoteMarker.Matches u ↔
    ∃ c, (c = 0xFF01 ∨ c = 0xFF1F ∨ c = 0x21 ∨ c = 0x3F ∨ isClose c = true) ∧
      (u = [c, 0x3068] ∨ u = [c, 0x3063] ∨ u = [c, 0x3067, 0x3059]) := by
  unfold reQuoteMarker
  simp only [matches_seq, matches_alt, matches_chr, matches_cls]
  constructor
  · rintro ⟨x, y, rfl, hx, hy⟩
    have hx' : ∃ c, x = [c] ∧ (c = 0xFF01 ∨ c = 0xFF1F ∨ c = 0x21 ∨ c = 0x3F ∨ isClose c = true) := by
      rcases hx with rfl | rfl | rfl | rfl | ⟨c, rfl, hc⟩
      · exact ⟨_, rfl, Or.inl rfl⟩
      · exact ⟨_, rfl, Or.inr (Or.inl rfl)⟩
      · exact ⟨_, rfl, Or.inr (Or.inr (Or.inl rfl))⟩
      · exact ⟨_, rfl, Or.inr (Or.inr (Or.inr (Or.inl rfl)))⟩
      · exact ⟨c, rfl, Or.inr (Or.inr (Or.inr (Or.inr hc)))⟩
    obtain ⟨c, rfl, hc⟩ := hx'
    refine ⟨c, hc, ?_⟩
    rcases hy with rfl | rfl | ⟨a, b, rfl, rfl, rfl⟩
    · exact Or.inl rfl
    · exact Or.inr (Or.inl rfl)
    · exact Or.inr (Or.inr rfl)
  · rintro ⟨c, hc, hu⟩
    have hx : [c] = [0xFF01] ∨ [c] = [0xFF1F] ∨ [c] = [0x21] ∨ [c] = [0x3F] ∨ ∃ c', [c] = [c'] ∧ isClose c' = true := by
      rcases hc with rfl | rfl | rfl | rfl | hc
      · exact Or.inl rfl
      · exact Or.inr (Or.inl rfl)
      · exact Or.inr (Or.inr (Or.inl rfl))
      · exact Or.inr (Or.inr (Or.inr (Or.inl rfl)))
      · exact Or.inr (Or.inr (Or.inr (Or.inr ⟨c, rfl, hc⟩)))
    rcases hu with rfl | rfl | rfl
    · exact ⟨[c], [0x3068], rfl, hx, Or.inl rfl⟩
    · exact ⟨[c], [0x3063], rfl, hx, Or.inr (Or.inl rfl)⟩
    · exact ⟨[c], [0x3067, 0x3059], rfl, hx, Or.inr (Or.inr ⟨[0x3067], [0x3059], rfl, rfl, rfl⟩)⟩

/-- `QUOTE_MARKER.find(s)` is a match with `start() == 0` iff some prefix of `s` is in the language
(`find` returns the leftmost match; a match at 0 exists iff the leftmost one starts at 0) -/
theorem quoteMarkerAt0_spec (s : Text) :
    quoteMarkerAt0 s = true ↔ ∃ m post, s = m ++ post ∧ reQuoteMarker.Matches m := by
  constructor
  · intro h
    cases s with
    | nil => simp [quoteMarkerAt0] at h
    | cons c rest =>
      simp only [quoteMarkerAt0, Bool.and_eq_true, Bool.or_eq_true, decide_eq_true_eq] at h
      obtain ⟨hc, hp⟩ := h
      have hc' : c = 0xFF01 ∨ c = 0xFF1F ∨ c = 0x21 ∨ c = 0x3F ∨ isClose c = true := by
        rcases hc with (((h | h) | h) | h) | h
        · exact Or.inl h
        · exact Or.inr (Or.inl h)
        · exact Or.inr (Or.inr (Or.inl h))
        · exact Or.inr (Or.inr (Or.inr (Or.inl h)))
        · exact Or.inr (Or.inr (Or.inr (Or.inr h)))
      cases rest with
      | nil => simp [startsParticle] at hp
      | cons a rest' =>
        simp only [startsParticle, Bool.or_eq_true, Bool.and_eq_true, decide_eq_true_eq] at hp
        rcases hp with (ha | ha) | ⟨ha, hb⟩
        · subst ha
          exact ⟨[c, 0x3068], rest', rfl, reQuoteMarker_matches.mpr ⟨c, hc', Or.inl rfl⟩⟩
        · subst ha
          exact ⟨[c, 0x3063], rest', rfl, reQuoteMarker_matches.mpr ⟨c, hc', Or.inr (Or.inl rfl)⟩⟩
        · subst ha
          cases rest' with
          | nil => simp at hb
          | cons b r2 =>
            simp only [decide_eq_true_eq] at hb
            subst hb
            exact ⟨[c, 0x3067, 0x3059], r2, rfl, reQuoteMarker_matches.mpr ⟨c, hc', Or.inr (Or.inr rfl)⟩⟩
  · rintro ⟨m, post, rfl, hm⟩
    obtain ⟨c, hc, hu⟩ := reQuoteMarker_matches.mp hm
    have hcb : (c = 0xFF01 || c = 0xFF1F || c = 0x21 || c = 0x3F || isClose c) = true := by
      rcases hc with rfl | rfl | rfl | rfl | hc
      · decide
      · decide
      · decide
      · decide
      · simp [hc]
    rcases hu with rfl | rfl | rfl
    · simp only [List.cons_append, quoteMarkerAt0, hcb, startsParticle]; simp
    · simp only [List.cons_append, quoteMarkerAt0, hcb, startsParticle]; simp
    · simp only [List.cons_append, quoteMarkerAt0, hcb, startsParticle]; simp

/-! ## PARENTHESIS `([OPEN])|([CLOSE])` with `captures_iter` -/

/-- `([{OPEN_PARENTHESIS}])|([{CLOSE_PARENTHESIS}])` -/
def reParenthesis : RE := .alt (.cls isOpen) (.cls isClose)

/-- the language has one-character strings only, so the successive non-overlapping matches of
`captures_iter` are exactly the characters of the classes, in text order; group 1 is set iff the
character is an opening bracket (first alternative first) -/
theorem reParenthesis_matches {u : Text} :
    reParenthesis.Matches u ↔ ∃ c, u = [c] ∧ (isOpen c = true ∨ isClose c = true) := by
  unfold reParenthesis
  rw [matches_alt, matches_cls, matches_cls]
  constructor
  · rintro (⟨c, rfl, h⟩ | ⟨c, rfl, h⟩)
    · exact ⟨c, rfl, Or.inl h⟩
    · exact ⟨c, rfl, Or.inr h⟩
  · rintro ⟨c, rfl, h | h⟩
    · exact Or.inl ⟨c, rfl, h⟩
    · exact Or.inr ⟨c, rfl, h⟩

/-- the loop body of `parenthesis_level` for one match `c`: `caps.get(1)` is `Some` iff `c` is an
opening bracket -/
def parenBody (level : Nat) (c : Nat) : Nat :=
  if isOpen c then level + 1 else if level > 0 then level - 1 else level

/-- `parenthesis_level(s)` = the loop body folded over the matches of PARENTHESIS in `s` (the characters
of `s` that are in the language, in order) -/
theorem parenLevel_spec (s : Text) :
    parenLevel s = (s.filter (fun c => isOpen c || isClose c)).foldl parenBody 0 := by
  unfold parenLevel
  generalize (0 : Nat) = init
  induction s generalizing init with
  | nil => rfl
  | cons c cs ih =>
    simp only [List.foldl_cons, List.filter_cons]
    by_cases ho : isOpen c = true
    · simp only [ho, Bool.true_or, if_true, List.foldl_cons]
      rw [ih]
      simp [parenStep, parenBody, ho]
    · by_cases hc : isClose c = true
      · simp only [ho, hc, Bool.or_true, if_true, List.foldl_cons]
        rw [ih]
        simp [parenStep, parenBody, ho, hc]
      · simp only [ho, hc, Bool.or_self, Bool.false_eq_true, if_false]
        rw [ih]
        simp [parenStep, ho, hc]

end Sentence
