import Sudachi.Proofs.Sentence
import Sudachi.Proofs.SentenceConv
/-!
# Declarative specifications of the regular expressions of `sentence_detector.rs` (C16)

`RE` is a small regular-expression syntax (character class, sequence, alternation, `+`) with its
standard denotation `RE.Matches r u` ("the string `u` is in the language of `r`").  The patterns
ITEMIZE_HEADER, EOS_ITEMIZE_HEADER, PROHIBITED_BOS and QUOTE_MARKER are written down as `RE` values that
follow the pattern text token by token, and the hand-written matchers of `Model/Sentence.lean`
(`isItemizeHeader`, `endsWithItemize`, `prohibitedBos`, `quoteMarkerAt0`) are proved equal to what the
regex engine is documented to compute from that language (`is_match` with `^…$` = the whole string is in
the language; `…\z` unanchored = some suffix is; `\A(…)+` `find` = the longest prefix in the language,
greedy `+` over a single class; `find(..).start() == 0` = some prefix is in the language).  What
remains trusted for these four is only the character classes and this reading of the anchors.
-/
set_option linter.unusedSimpArgs false
namespace Sentence

inductive RE where
  | cls (p : Nat → Bool) : RE       -- `[...]`, or a literal character `c` as `(· = c)`
  | seq (a b : RE) : RE
  | alt (a b : RE) : RE
  | plus (a : RE) : RE               -- `a+`

/-- `u` is in the language of `r` -/
inductive RE.Matches : RE → Text → Prop where
  | cls {p : Nat → Bool} {c : Nat} : p c = true → RE.Matches (.cls p) [c]
  | seq {a b : RE} {u w : Text} : RE.Matches a u → RE.Matches b w → RE.Matches (.seq a b) (u ++ w)
  | altL {a b : RE} {u : Text} : RE.Matches a u → RE.Matches (.alt a b) u
  | altR {a b : RE} {u : Text} : RE.Matches b u → RE.Matches (.alt a b) u
  | plusOne {a : RE} {u : Text} : RE.Matches a u → RE.Matches (.plus a) u
  | plusMore {a : RE} {u w : Text} : RE.Matches a u → RE.Matches (.plus a) w → RE.Matches (.plus a) (u ++ w)

def RE.chr (c : Nat) : RE := .cls (fun x => x == c)

theorem matches_cls {p : Nat → Bool} {u : Text} : RE.Matches (.cls p) u ↔ ∃ c, u = [c] ∧ p c = true := by
  constructor
  · intro h; cases h with | cls hp => exact ⟨_, rfl, hp⟩
  · rintro ⟨c, rfl, hp⟩; exact .cls hp

theorem matches_chr {c : Nat} {u : Text} : RE.Matches (RE.chr c) u ↔ u = [c] := by
  unfold RE.chr
  rw [matches_cls]
  constructor
  · rintro ⟨x, rfl, hx⟩; simp at hx; simp [hx]
  · rintro rfl; exact ⟨c, rfl, by simp⟩

theorem matches_seq {a b : RE} {u : Text} :
    RE.Matches (.seq a b) u ↔ ∃ x y, u = x ++ y ∧ RE.Matches a x ∧ RE.Matches b y := by
  constructor
  · intro h; cases h with | seq h1 h2 => exact ⟨_, _, rfl, h1, h2⟩
  · rintro ⟨x, y, rfl, h1, h2⟩; exact .seq h1 h2

theorem matches_alt {a b : RE} {u : Text} : RE.Matches (.alt a b) u ↔ RE.Matches a u ∨ RE.Matches b u := by
  constructor
  · intro h
    cases h with
    | altL h => exact Or.inl h
    | altR h => exact Or.inr h
  · rintro (h | h)
    · exact .altL h
    · exact .altR h

/-- `[class]+` = the non-empty strings over the class -/
theorem matches_plus_cls {p : Nat → Bool} {u : Text} :
    RE.Matches (.plus (.cls p)) u ↔ u ≠ [] ∧ ∀ c ∈ u, p c = true := by
  constructor
  · intro h
    generalize hr : RE.plus (.cls p) = r at h
    induction h with
    | cls _ => cases hr
    | seq _ _ => cases hr
    | altL _ => cases hr
    | altR _ => cases hr
    | plusOne h1 =>
      cases hr
      obtain ⟨c, rfl, hp⟩ := matches_cls.mp h1
      exact ⟨by simp, by simpa using hp⟩
    | plusMore h1 _ _ ih2 =>
      cases hr
      obtain ⟨c, rfl, hp⟩ := matches_cls.mp h1
      obtain ⟨_, hall⟩ := ih2 rfl
      refine ⟨by simp, ?_⟩
      intro x hx
      simp only [List.cons_append, List.nil_append, List.mem_cons] at hx
      rcases hx with rfl | hx
      · exact hp
      · exact hall x hx
  · rintro ⟨hne, hall⟩
    induction u with
    | nil => exact absurd rfl hne
    | cons c cs ih =>
      have hc : p c = true := hall c (by simp)
      cases cs with
      | nil => exact .plusOne (.cls hc)
      | cons d ds =>
        have := ih (by simp) (fun x hx => hall x (List.mem_cons_of_mem _ hx))
        exact .plusMore (u := [c]) (.cls hc) this

/-! ## ITEMIZE_HEADER `^([AN])([DOT])$` and EOS_ITEMIZE_HEADER `([AN])([DOT])\z` -/

/-- `([{ALPHABET_OR_NUMBER}])([{DOT}])` -/
def reItemize : RE := .seq (.cls isAN) (.cls isDot)

theorem reItemize_matches {u : Text} : reItemize.Matches u ↔ ∃ a d, u = [a, d] ∧ isAN a = true ∧ isDot d = true := by
  unfold reItemize
  rw [matches_seq]
  constructor
  · rintro ⟨x, y, rfl, hx, hy⟩
    obtain ⟨a, rfl, ha⟩ := matches_cls.mp hx
    obtain ⟨d, rfl, hd⟩ := matches_cls.mp hy
    exact ⟨a, d, rfl, ha, hd⟩
  · rintro ⟨a, d, rfl, ha, hd⟩
    exact ⟨[a], [d], rfl, .cls ha, .cls hd⟩

/-- ITEMIZE_HEADER.is_match(s) with `^…$`: the whole string is in the language -/
theorem isItemizeHeader_spec (s : Text) : isItemizeHeader s = true ↔ reItemize.Matches s := by
  rw [reItemize_matches]
  constructor
  · intro h
    match s, h with
    | [a, d], h =>
      simp only [isItemizeHeader, Bool.and_eq_true] at h
      exact ⟨a, d, rfl, h.1, h.2⟩
  · rintro ⟨a, d, rfl, ha, hd⟩
    simp [isItemizeHeader, ha, hd]

/-- EOS_ITEMIZE_HEADER.is_match(s) with `…\z` (unanchored at the start): some suffix is in the language -/
theorem endsWithItemize_spec (s : Text) :
    endsWithItemize s.reverse = true ↔ ∃ pre m, s = pre ++ m ∧ reItemize.Matches m := by
  constructor
  · intro h
    unfold endsWithItemize at h
    split at h
    · rename_i d a r hrev
      simp only [Bool.and_eq_true] at h
      have hs : s = r.reverse ++ [a, d] := by
        have := congrArg List.reverse hrev
        simpa using this
      exact ⟨r.reverse, [a, d], hs, reItemize_matches.mpr ⟨a, d, rfl, h.2, h.1⟩⟩
    · cases h
  · rintro ⟨pre, m, rfl, hm⟩
    obtain ⟨a, d, rfl, ha, hd⟩ := reItemize_matches.mp hm
    simp [endsWithItemize, ha, hd]

/-! ## PROHIBITED_BOS `\A([CLOSE COMMA PERIODS])+` -/

/-- `([{CLOSE_PARENTHESIS}{COMMA}{PERIODS}])+` -/
def reProhibitedBos : RE := .plus (.cls isProhibitedBos)

theorem spanLen_max (p : Nat → Bool) : ∀ (l : Text) (m : Nat), m ≤ l.length →
    (∀ c ∈ l.take m, p c = true) → m ≤ spanLen p l := by
  intro l
  induction l with
  | nil => intro m hm _; simp only [List.length_nil] at hm; omega
  | cons c cs ih =>
    intro m hm hall
    cases m with
    | zero => omega
    | succ m =>
      have hc : p c = true := hall c (by simp)
      simp only [spanLen, hc, if_true]
      have := ih m (by simpa using hm) (fun x hx => hall x (by simp [hx]))
      omega

/-- `prohibited_bos(s)`: `find` of `\A(class)+` returns the **longest** prefix in the language (greedy
`+` over one class never has to give a character back), and the function answers 0 when no prefix
matches.  Here: every prefix in the language is at most `prohibitedBos s` long; `prohibitedBos s` is 0
exactly when no non-empty prefix is in the language, otherwise the prefix of that length is in it. -/
theorem prohibitedBos_spec (s : Text) :
    prohibitedBos s ≤ s.length ∧
    (∀ m, m ≤ s.length → reProhibitedBos.Matches (s.take m) → m ≤ prohibitedBos s) ∧
    (prohibitedBos s = 0 → ∀ m, m ≤ s.length → ¬ reProhibitedBos.Matches (s.take m)) ∧
    (prohibitedBos s ≠ 0 → reProhibitedBos.Matches (s.take (prohibitedBos s))) := by
  have hmax : ∀ m, m ≤ s.length → reProhibitedBos.Matches (s.take m) → m ≤ prohibitedBos s ∧ 1 ≤ m := by
    intro m hm h
    obtain ⟨hne, hall⟩ := matches_plus_cls.mp h
    refine ⟨spanLen_max _ s m hm hall, ?_⟩
    cases m with
    | zero => simp at hne
    | succ m => omega
  refine ⟨spanLen_le _ _, fun m hm h => (hmax m hm h).1, ?_, ?_⟩
  · intro h0 m hm h
    have := hmax m hm h
    omega
  · intro hne
    apply matches_plus_cls.mpr
    refine ⟨?_, spanLen_all _ _⟩
    intro hnil
    have := congrArg List.length hnil
    have hle := spanLen_le isProhibitedBos s
    simp only [List.length_take, List.length_nil, prohibitedBos] at this hne
    omega

/-! ## QUOTE_MARKER `(！|？|\!|\?|[CLOSE])(と|っ|です)` -/

/-- `(！|？|\!|\?|[{CLOSE_PARENTHESIS}])(と|っ|です)` -/
def reQuoteMarker : RE :=
  .seq (.alt (RE.chr 0xFF01) (.alt (RE.chr 0xFF1F) (.alt (RE.chr 0x21) (.alt (RE.chr 0x3F) (.cls isClose)))))
       (.alt (RE.chr 0x3068) (.alt (RE.chr 0x3063) (.seq (RE.chr 0x3067) (RE.chr 0x3059))))

theorem reQuoteMarker_matches {u : Text} : reQuoteMarker.Matches u ↔
    ∃ c, (c = 0xFF01 ∨ c = 0xFF1F ∨ c = 0x21 ∨ c = 0x3F ∨ isClose c = true) ∧
      (u = [c, 0x3068] ∨ u = [c, 0x3063] ∨ u = [c, 0x3067, 0x3059]) := by
  unfold reQuoteMarker
  simp only [matches_seq, matches_alt, matches_chr, matches_cls]
  constructor
  · rintro ⟨x, y, rfl, hx, hy⟩
    have hx' : ∃ c, x = [c] ∧ (c = 0xFF01 ∨ c = 0xFF1F ∨ c = 0x21 ∨ c = 0x3F ∨ isClose c = true) := by
      rcases hx with rfl | rfl | rfl | rfl | ⟨c, rfl, hc⟩
      · exact ⟨_, rfl, Or.inl rfl⟩
      · exact ⟨_, rfl, Or.inr (Or.inl rfl)⟩
      · exact ⟨_, rfl, Or.inr (Or.inr (Or.inl rfl))⟩
      · exact ⟨_, rfl, Or.inr (Or.inr (Or.inr (Or.inl rfl)))⟩
      · exact ⟨c, rfl, Or.inr (Or.inr (Or.inr (Or.inr hc)))⟩
    obtain ⟨c, rfl, hc⟩ := hx'
    refine ⟨c, hc, ?_⟩
    rcases hy with rfl | rfl | ⟨a, b, rfl, rfl, rfl⟩
    · exact Or.inl rfl
    · exact Or.inr (Or.inl rfl)
    · exact Or.inr (Or.inr rfl)
  · rintro ⟨c, hc, hu⟩
    have hx : [c] = [0xFF01] ∨ [c] = [0xFF1F] ∨ [c] = [0x21] ∨ [c] = [0x3F] ∨ ∃ c', [c] = [c'] ∧ isClose c' = true := by
      rcases hc with rfl | rfl | rfl | rfl | hc
      · exact Or.inl rfl
      · exact Or.inr (Or.inl rfl)
      · exact Or.inr (Or.inr (Or.inl rfl))
      · exact Or.inr (Or.inr (Or.inr (Or.inl rfl)))
      · exact Or.inr (Or.inr (Or.inr (Or.inr ⟨c, rfl, hc⟩)))
    rcases hu with rfl | rfl | rfl
    · exact ⟨[c], [0x3068], rfl, hx, Or.inl rfl⟩
    · exact ⟨[c], [0x3063], rfl, hx, Or.inr (Or.inl rfl)⟩
    · exact ⟨[c], [0x3067, 0x3059], rfl, hx, Or.inr (Or.inr ⟨[0x3067], [0x3059], rfl, rfl, rfl⟩)⟩

/-- `QUOTE_MARKER.find(s)` is a match with `start() == 0` iff some prefix of `s` is in the language
(`find` returns the leftmost match; a match at 0 exists iff the leftmost one starts at 0) -/
theorem quoteMarkerAt0_spec (s : Text) :
    quoteMarkerAt0 s = true ↔ ∃ m post, s = m ++ post ∧ reQuoteMarker.Matches m := by
  constructor
  · intro h
    cases s with
    | nil => simp [quoteMarkerAt0] at h
    | cons c rest =>
      simp only [quoteMarkerAt0, Bool.and_eq_true, Bool.or_eq_true, decide_eq_true_eq] at h
      obtain ⟨hc, hp⟩ := h
      have hc' : c = 0xFF01 ∨ c = 0xFF1F ∨ c = 0x21 ∨ c = 0x3F ∨ isClose c = true := by
        rcases hc with (((h | h) | h) | h) | h
        · exact Or.inl h
        · exact Or.inr (Or.inl h)
        · exact Or.inr (Or.inr (Or.inl h))
        · exact Or.inr (Or.inr (Or.inr (Or.inl h)))
        · exact Or.inr (Or.inr (Or.inr (Or.inr h)))
      cases rest with
      | nil => simp [startsParticle] at hp
      | cons a rest' =>
        simp only [startsParticle, Bool.or_eq_true, Bool.and_eq_true, decide_eq_true_eq] at hp
        rcases hp with (ha | ha) | ⟨ha, hb⟩
        · subst ha
          exact ⟨[c, 0x3068], rest', rfl, reQuoteMarker_matches.mpr ⟨c, hc', Or.inl rfl⟩⟩
        · subst ha
          exact ⟨[c, 0x3063], rest', rfl, reQuoteMarker_matches.mpr ⟨c, hc', Or.inr (Or.inl rfl)⟩⟩
        · subst ha
          cases rest' with
          | nil => simp at hb
          | cons b r2 =>
            simp only [decide_eq_true_eq] at hb
            subst hb
            exact ⟨[c, 0x3067, 0x3059], r2, rfl, reQuoteMarker_matches.mpr ⟨c, hc', Or.inr (Or.inr rfl)⟩⟩
  · rintro ⟨m, post, rfl, hm⟩
    obtain ⟨c, hc, hu⟩ := reQuoteMarker_matches.mp hm
    have hcb : (c = 0xFF01 || c = 0xFF1F || c = 0x21 || c = 0x3F || isClose c) = true := by
      rcases hc with rfl | rfl | rfl | rfl | hc
      · decide
      · decide
      · decide
      · decide
      · simp [hc]
    rcases hu with rfl | rfl | rfl
    · simp only [List.cons_append, quoteMarkerAt0, hcb, startsParticle]; simp
    · simp only [List.cons_append, quoteMarkerAt0, hcb, startsParticle]; simp
    · simp only [List.cons_append, quoteMarkerAt0, hcb, startsParticle]; simp

/-! ## PARENTHESIS `([OPEN])|([CLOSE])` with `captures_iter` -/

/-- `([{OPEN_PARENTHESIS}])|([{CLOSE_PARENTHESIS}])` -/
def reParenthesis : RE := .alt (.cls isOpen) (.cls isClose)

/-- the language has one-character strings only, so the successive non-overlapping matches of
`captures_iter` are exactly the characters of the classes, in text order; group 1 is set iff the
character is an opening bracket (first alternative first) -/
theorem reParenthesis_matches {u : Text} :
    reParenthesis.Matches u ↔ ∃ c, u = [c] ∧ (isOpen c = true ∨ isClose c = true) := by
  unfold reParenthesis
  rw [matches_alt, matches_cls, matches_cls]
  constructor
  · rintro (⟨c, rfl, h⟩ | ⟨c, rfl, h⟩)
    · exact ⟨c, rfl, Or.inl h⟩
    · exact ⟨c, rfl, Or.inr h⟩
  · rintro ⟨c, rfl, h | h⟩
    · exact Or.inl ⟨c, rfl, h⟩
    · exact Or.inr ⟨c, rfl, h⟩

/-- the loop body of `parenthesis_level` for one match `c`: `caps.get(1)` is `Some` iff `c` is an
opening bracket -/
def parenBody (level : Nat) (c : Nat) : Nat :=
  if isOpen c then level + 1 else if level > 0 then level - 1 else level

/-- `parenthesis_level(s)` = the loop body folded over the matches of PARENTHESIS in `s` (the characters
of `s` that are in the language, in order) -/
theorem parenLevel_spec (s : Text) :
    parenLevel s = (s.filter (fun c => isOpen c || isClose c)).foldl parenBody 0 := by
  unfold parenLevel
  generalize (0 : Nat) = init
  induction s generalizing init with
  | nil => rfl
  | cons c cs ih =>
    simp only [List.foldl_cons, List.filter_cons]
    by_cases ho : isOpen c = true
    · simp only [ho, Bool.true_or, if_true, List.foldl_cons]
      rw [ih]
      simp [parenStep, parenBody, ho]
    · by_cases hc : isClose c = true
      · simp only [ho, hc, Bool.or_true, if_true, List.foldl_cons]
        rw [ih]
        simp [parenStep, parenBody, ho, hc]
      · simp only [ho, hc, Bool.or_self, Bool.false_eq_true, if_false]
        rw [ih]
        simp [parenStep, ho, hc]

/-! ## backtracking (leftmost-first) semantics: SENTENCE_BREAKER with `find_iter`, SPACES with `find`

The two remaining patterns use what the `RE` language above cannot express: greedy `*`/`+`/`{n,}`, a
possessive repetition (`・{3,}+` is `(?>・{3,})` in `fancy_regex`), a negative look-behind and a negative
look-ahead, and what matters for them is not only the language but WHICH match the engine reports.
`RX` is that syntax; `RX.run r prev rest` is its backtracking semantics: the list of lengths the pattern
can consume at this position (`prev` = the character before it, for the look-behind), in the order a
backtracking engine tries them (alternatives left to right, greedy repetition longest first).  Both
engines are LEFTMOST-FIRST: `fancy_regex` runs a backtracking VM, the `regex` crate documents
leftmost-first ("as a backtracking engine would") semantics.  So `find` from a position reports the
leftmost start at which `run` is non-empty together with the HEAD of that list (`RX.findFrom`), and
`find_iter` repeats `find` from the end of the previous match (`RX.findIter`).

Proved: `breakerAt` is that head for `reBreaker` (`breakerAt_spec`), `matchEnds` (the traversal of `scan`)
are the ends `findIter reBreaker` yields (`matchEnds_findIter`), `spacesEnd` is the end `findFrom reSpaces`
yields (`spacesEnd_spec`).  For both patterns the head of `run` is also its MAXIMUM (`breakerAt_spec`,
`reSpaces_longest`): leftmost-longest (POSIX) semantics would report the same matches — the patterns do not
depend on the difference, the code does not either.  Trusted for these two is now only the transcription
of the pattern text into the `RX` value and this standard semantics of the constructs. -/

inductive RX where
  | eps : RX                              -- the empty pattern
  | cls (p : Nat → Bool) : RX             -- `[...]`, `.`, `\s`, or a literal character
  | seq (a b : RX) : RX                   -- `ab`
  | alt (a b : RX) : RX                   -- `a|b`, `a` tried first
  | star (a : RX) : RX                    -- greedy `a*`
  | atomic (a : RX) : RX                  -- `(?>a)`: only the first way `a` matches, no backtracking into it
  | notBehind (p : Nat → Bool) : RX       -- `(?<![p])`
  | notAhead (p : Nat → Bool) : RX        -- `(?![p])`

/-- the character before the position reached after consuming `n` characters of `rest` -/
def advPrev (prev : Option Nat) (rest : Text) (n : Nat) : Option Nat :=
  if n = 0 then prev else rest[n - 1]?

/-- greedy `a*` given the semantics `ra` of `a`: one more (non-empty) iteration first, then stop;
`fuel` = length of the rest (every iteration consumes at least one character) -/
def RX.starRun (ra : Option Nat → Text → List Nat) : Nat → Option Nat → Text → List Nat
  | 0, _, _ => [0]
  | f + 1, prev, rest =>
    ((ra prev rest).filter (fun n => 0 < n)).flatMap
        (fun n => (RX.starRun ra f (advPrev prev rest n) (rest.drop n)).map (n + ·)) ++ [0]

/-- the lengths `r` can consume at the head of `rest` (`prev` = the character before it), in the order a
backtracking engine tries them -/
def RX.run : RX → Option Nat → Text → List Nat
  | .eps, _, _ => [0]
  | .cls p, _, c :: _ => if p c then [1] else []
  | .cls _, _, [] => []
  | .seq a b, prev, rest =>
    (RX.run a prev rest).flatMap (fun n => (RX.run b (advPrev prev rest n) (rest.drop n)).map (n + ·))
  | .alt a b, prev, rest => RX.run a prev rest ++ RX.run b prev rest
  | .star a, prev, rest => RX.starRun (RX.run a) rest.length prev rest
  | .atomic a, prev, rest => (RX.run a prev rest).take 1
  | .notBehind p, prev, _ => match prev with | some c => if p c then [] else [0] | none => [0]
  | .notAhead p, _, rest => match rest with | c :: _ => if p c then [] else [0] | [] => [0]

/-- greedy `a{n,}` = `a … a a*` -/
def RX.atLeast : Nat → RX → RX
  | 0, a => .star a
  | n + 1, a => .seq a (RX.atLeast n a)

/-- greedy `a+` = `a a*` -/
def RX.plus (a : RX) : RX := .seq a (.star a)

def RX.chr (c : Nat) : RX := .cls (fun x => x == c)

/-- descending list `k, k-1, …, 0` -/
def desc : Nat → List Nat
  | 0 => [0]
  | k + 1 => (k + 1) :: desc k

theorem desc_head (k : Nat) : (desc k).head? = some k := by cases k <;> rfl

theorem desc_le : ∀ (k m : Nat), m ∈ desc k → m ≤ k := by
  intro k
  induction k with
  | zero => intro m h; simp [desc] at h; omega
  | succ k ih =>
    intro m h
    simp only [desc, List.mem_cons] at h
    rcases h with rfl | h
    · omega
    · have := ih m h; omega

theorem desc_shift : ∀ k, (desc k).map (1 + ·) ++ [0] = desc (k + 1) := by
  intro k
  induction k with
  | zero => rfl
  | succ k ih =>
    have : desc (k + 1) = (k + 1) :: desc k := rfl
    rw [this, List.map_cons, List.cons_append, ih]
    have h2 : 1 + (k + 1) = k + 1 + 1 := by omega
    rw [h2]
    rfl

/-- greedy `[class]*`: the possible lengths in backtracking order are `span, span-1, …, 0` -/
theorem starRun_cls (p : Nat → Bool) : ∀ (rest : Text) (f : Nat) (prev : Option Nat), rest.length ≤ f →
    RX.starRun (RX.run (.cls p)) f prev rest = desc (spanLen p rest) := by
  intro rest
  induction rest with
  | nil =>
    intro f prev _
    cases f with
    | zero => rfl
    | succ f => simp [RX.starRun, RX.run, spanLen, desc]
  | cons c cs ih =>
    intro f prev hf
    cases f with
    | zero => simp at hf
    | succ f =>
      simp only [List.length_cons] at hf
      by_cases hp : p c = true
      · simp only [RX.starRun, RX.run, hp, if_true, spanLen]
        simp only [List.filter_cons, List.filter_nil, Nat.zero_lt_one, decide_true, if_true,
          List.flatMap_cons, List.flatMap_nil, List.append_nil, List.drop_succ_cons, List.drop_zero]
        rw [ih f _ (by omega)]
        exact desc_shift _
      · simp only [RX.starRun, RX.run, hp, spanLen]
        simp [desc]

theorem run_star_cls (p : Nat → Bool) (prev : Option Nat) (rest : Text) :
    RX.run (.star (.cls p)) prev rest = desc (spanLen p rest) := by
  simp only [RX.run]
  exact starRun_cls p rest _ prev (Nat.le_refl _)

theorem desc_take1 (k : Nat) : (desc k).take 1 = [k] := by cases k <;> rfl

/-- `[class]{n,}` (greedy): the first length in backtracking order is the whole run of the class, if
that is at least `n` characters long; otherwise there is no match -/
theorem run_atLeast_cls_take1 (p : Nat → Bool) : ∀ (n : Nat) (prev : Option Nat) (l : Text),
    (RX.run (RX.atLeast n (.cls p)) prev l).take 1 = if n ≤ spanLen p l then [spanLen p l] else [] := by
  intro n
  induction n with
  | zero =>
    intro prev l
    simp only [RX.atLeast, run_star_cls, desc_take1, Nat.zero_le, if_true]
  | succ n ih =>
    intro prev l
    cases l with
    | nil => simp [RX.atLeast, RX.run, spanLen]
    | cons c cs =>
      by_cases hp : p c = true
      · simp only [RX.atLeast, RX.run, hp, if_true, List.flatMap_cons, List.flatMap_nil, List.append_nil,
          List.drop_succ_cons, List.drop_zero, spanLen]
        rw [← List.map_take, ih]
        by_cases hn : n ≤ spanLen p cs
        · have : n + 1 ≤ spanLen p cs + 1 := by omega
          simp [hn, this]; omega
        · have : ¬ (n + 1 ≤ spanLen p cs + 1) := by omega
          simp [hn, this]
      · simp [RX.atLeast, RX.run, hp, spanLen]

/-- every length `[class]{n,}` can take is at most the run of the class -/
theorem run_atLeast_cls_le (p : Nat → Bool) : ∀ (n : Nat) (prev : Option Nat) (l : Text),
    ∀ m ∈ RX.run (RX.atLeast n (.cls p)) prev l, m ≤ spanLen p l := by
  intro n
  induction n with
  | zero =>
    intro prev l m hm
    simp only [RX.atLeast, run_star_cls] at hm
    exact desc_le _ _ hm
  | succ n ih =>
    intro prev l m hm
    cases l with
    | nil => simp [RX.atLeast, RX.run] at hm
    | cons c cs =>
      by_cases hp : p c = true
      · simp only [RX.atLeast, RX.run, hp, if_true, List.flatMap_cons, List.flatMap_nil, List.append_nil,
          List.drop_succ_cons, List.drop_zero, List.mem_map] at hm
        obtain ⟨m', hm', rfl⟩ := hm
        have := ih _ cs m' hm'
        simp only [spanLen, hp, if_true]
        omega
      · simp [RX.atLeast, RX.run, hp] at hm

/-! ### the line-break tag `(<br>|<BR>)` -/

def reBrLower : RX := .seq (RX.chr 0x3C) (.seq (RX.chr 0x62) (.seq (RX.chr 0x72) (RX.chr 0x3E)))
def reBrUpper : RX := .seq (RX.chr 0x3C) (.seq (RX.chr 0x42) (.seq (RX.chr 0x52) (RX.chr 0x3E)))
/-- `(<br>|<BR>)` -/
def reTag : RX := .alt reBrLower reBrUpper

def tagHead : Text → Bool
  | a :: b :: c :: d :: _ => isBrTag a b c d
  | _ => false

theorem run_chr_cons (x c : Nat) (prev : Option Nat) (cs : Text) :
    RX.run (RX.chr x) prev (c :: cs) = if c = x then [1] else [] := by
  simp [RX.chr, RX.run]

theorem run_chr_nil (x : Nat) (prev : Option Nat) : RX.run (RX.chr x) prev [] = [] := by
  simp [RX.chr, RX.run]

theorem run_lit4 (w x y z : Nat) (prev : Option Nat) (l : Text) :
    RX.run (.seq (RX.chr w) (.seq (RX.chr x) (.seq (RX.chr y) (RX.chr z)))) prev l =
      match l with
      | a :: b :: c :: d :: _ => if a = w ∧ b = x ∧ c = y ∧ d = z then [4] else []
      | _ => [] := by
  match l with
  | [] => simp [RX.run, run_chr_nil]
  | [a] =>
    simp only [RX.run, run_chr_cons]
    by_cases h : a = w <;> simp [h, run_chr_nil]
  | [a, b] =>
    simp only [RX.run, run_chr_cons]
    by_cases h : a = w <;> by_cases h2 : b = x <;> simp [h, h2, run_chr_nil, run_chr_cons]
  | [a, b, c] =>
    simp only [RX.run, run_chr_cons]
    by_cases h : a = w <;> by_cases h2 : b = x <;> by_cases h3 : c = y <;>
      simp [h, h2, h3, run_chr_nil, run_chr_cons]
  | a :: b :: c :: d :: r =>
    simp only [RX.run, run_chr_cons]
    by_cases h : a = w <;> by_cases h2 : b = x <;> by_cases h3 : c = y <;> by_cases h4 : d = z <;>
      simp [h, h2, h3, h4, run_chr_cons]

theorem run_reTag (prev : Option Nat) (l : Text) :
    RX.run reTag prev l = if tagHead l = true then [4] else [] := by
  have halt : ∀ a b : RX, RX.run (.alt a b) prev l = RX.run a prev l ++ RX.run b prev l := by
    intro a b; simp [RX.run]
  simp only [reTag, reBrLower, reBrUpper]
  rw [halt, run_lit4, run_lit4]
  match l with
  | [] => simp [tagHead]
  | [a] => simp [tagHead]
  | [a, b] => simp [tagHead]
  | [a, b, c] => simp [tagHead]
  | a :: b :: c :: d :: r =>
    simp only [tagHead, isBrTag]
    by_cases h1 : a = 0x3C <;> by_cases h4 : d = 0x3E <;> by_cases h2 : b = 0x62 <;> by_cases h3 : c = 0x72 <;>
      by_cases h5 : b = 0x42 <;> by_cases h6 : c = 0x52 <;> simp [h1, h2, h3, h4, h5, h6] <;> omega

theorem brUnits_of_tagHead {l : Text} (h : tagHead l = true) : brUnits l = brUnits (l.drop 4) + 1 := by
  match l, h with
  | a :: b :: c :: d :: r, h =>
    simp only [tagHead] at h
    simp [brUnits, h]

theorem brUnits_of_not_tagHead {l : Text} (h : ¬ tagHead l = true) : brUnits l = 0 := by
  match l with
  | [] => rfl
  | [a] => rfl
  | [a, b] => rfl
  | [a, b, c] => rfl
  | a :: b :: c :: d :: r =>
    simp only [tagHead] at h
    simp [brUnits, h]

theorem tagHead_length {l : Text} (h : tagHead l = true) : 4 ≤ l.length := by
  match l, h with
  | a :: b :: c :: d :: r, _ => simp

/-- greedy `(<br>|<BR>)*`: the first length in backtracking order is all the leading tags, and no
length is larger -/
theorem starRun_tag : ∀ (f : Nat) (l : Text) (prev : Option Nat), l.length ≤ f →
    (RX.starRun (RX.run reTag) f prev l).head? = some (4 * brUnits l) ∧
    ∀ m ∈ RX.starRun (RX.run reTag) f prev l, m ≤ 4 * brUnits l := by
  intro f
  induction f with
  | zero =>
    intro l prev hl
    have : l = [] := List.length_eq_zero_iff.mp (by omega)
    subst this
    simp [RX.starRun, brUnits]
  | succ f ih =>
    intro l prev hl
    by_cases ht : tagHead l = true
    · have h4 := tagHead_length ht
      obtain ⟨ih1, ih2⟩ := ih (l.drop 4) (advPrev prev l 4) (by simp only [List.length_drop]; omega)
      simp only [RX.starRun, run_reTag, ht, if_true, List.filter_cons, List.filter_nil, Nat.lt_irrefl,
        decide_true, List.flatMap_cons, List.flatMap_nil, List.append_nil, brUnits_of_tagHead ht]
      have h04 : (0 < 4) = True := by simp
      simp only [h04, decide_true, if_true, List.flatMap_cons, List.flatMap_nil, List.append_nil]
      constructor
      · rw [List.head?_append, List.head?_map, ih1]
        simp; omega
      · intro m hm
        simp only [List.mem_append, List.mem_map, List.mem_singleton] at hm
        rcases hm with ⟨m', hm', rfl⟩ | rfl
        · have := ih2 m' hm'; omega
        · omega
    · simp [RX.starRun, run_reTag, ht, brUnits_of_not_tagHead ht]

/-- `(<br>|<BR>){n,}` -/
theorem run_atLeast_tag : ∀ (n : Nat) (l : Text) (prev : Option Nat),
    (RX.run (RX.atLeast n reTag) prev l).head? = (if n ≤ brUnits l then some (4 * brUnits l) else none) ∧
    ∀ m ∈ RX.run (RX.atLeast n reTag) prev l, n ≤ brUnits l ∧ m ≤ 4 * brUnits l := by
  intro n
  induction n with
  | zero =>
    intro l prev
    have := starRun_tag l.length l prev (Nat.le_refl _)
    simp only [RX.atLeast, RX.run, Nat.zero_le, if_true, true_and]
    exact this
  | succ n ih =>
    intro l prev
    have hseq : RX.run (RX.atLeast (n + 1) reTag) prev l =
        (RX.run reTag prev l).flatMap
          (fun k => (RX.run (RX.atLeast n reTag) (advPrev prev l k) (l.drop k)).map (k + ·)) := by
      simp [RX.atLeast, RX.run]
    rw [hseq, run_reTag]
    by_cases ht : tagHead l = true
    · obtain ⟨ih1, ih2⟩ := ih (l.drop 4) (advPrev prev l 4)
      have hb := brUnits_of_tagHead ht
      simp only [ht, if_true, List.flatMap_cons, List.flatMap_nil, List.append_nil]
      constructor
      · rw [List.head?_map, ih1, hb]
        by_cases hn : n ≤ brUnits (l.drop 4)
        · have : n + 1 ≤ brUnits (l.drop 4) + 1 := by omega
          simp [hn, this]; omega
        · have : ¬ (n + 1 ≤ brUnits (l.drop 4) + 1) := by omega
          simp [hn, this]
      · intro m hm
        simp only [List.mem_map] at hm
        obtain ⟨m', hm', rfl⟩ := hm
        have := ih2 m' hm'
        omega
    · have hb := brUnits_of_not_tagHead ht
      simp [ht, hb]

/-! ### SENTENCE_BREAKER -/

/-- `(?<![AN])[DOT](?![AN COMMA])` -/
def reDotAlt : RX :=
  .seq (.notBehind isAN) (.seq (.cls isDot) (.notAhead (fun c => isAN c || isComma c)))

/-- `[PERIODS]|・{3,}+|(?<![AN])[DOT](?![AN COMMA])` — `x{3,}+` is possessive in `fancy_regex`: `(?>x{3,})` -/
def reBreakerHead : RX :=
  .alt (.cls isPeriod) (.alt (.atomic (RX.atLeast 3 (.cls isCdot))) reDotAlt)

/-- SENTENCE_BREAKER: `([PERIODS]|・{3,}+|(?<![AN])[DOT](?![AN COMMA]))[DOT PERIODS]*|(<br>|<BR>){2,}` -/
def reBreaker : RX :=
  .alt (.seq reBreakerHead (.star (.cls isDotOrPeriod))) (RX.atLeast 2 reTag)

theorem run_alt (a b : RX) (prev : Option Nat) (l : Text) :
    RX.run (.alt a b) prev l = RX.run a prev l ++ RX.run b prev l := by simp [RX.run]

theorem run_seq (a b : RX) (prev : Option Nat) (l : Text) :
    RX.run (.seq a b) prev l =
      (RX.run a prev l).flatMap (fun n => (RX.run b (advPrev prev l n) (l.drop n)).map (n + ·)) := by
  simp [RX.run]

theorem run_atomic (a : RX) (prev : Option Nat) (l : Text) :
    RX.run (.atomic a) prev l = (RX.run a prev l).take 1 := by simp [RX.run]

theorem run_reDotAlt (prev : Option Nat) (c : Nat) (rest : Text) :
    RX.run reDotAlt prev (c :: rest) =
      if (isDot c && (notAfterAN prev && notBeforeANComma rest)) = true then [1] else [] := by
  unfold reDotAlt
  rw [run_seq]
  have hnb : RX.run (.notBehind isAN) prev (c :: rest) = if notAfterAN prev = true then [0] else [] := by
    cases prev with
    | none => simp [RX.run, notAfterAN]
    | some p => by_cases h : isAN p = true <;> simp [RX.run, notAfterAN, h]
  rw [hnb]
  by_cases h1 : notAfterAN prev = true
  · simp only [h1, if_true, List.flatMap_cons, List.flatMap_nil, List.append_nil, advPrev, if_true,
      List.drop_zero, Bool.true_and]
    rw [run_seq]
    by_cases h2 : isDot c = true
    · have hc : RX.run (.cls isDot) prev (c :: rest) = [1] := by simp [RX.run, h2]
      rw [hc]
      simp only [List.flatMap_cons, List.flatMap_nil, List.append_nil, List.drop_succ_cons, List.drop_zero, h2,
        Bool.true_and]
      cases rest with
      | nil => simp [RX.run, notBeforeANComma]
      | cons d ds =>
        by_cases h3 : (isAN d || isComma d) = true
        · simp [RX.run, notBeforeANComma, h3]
        · simp [RX.run, notBeforeANComma, h3]
    · have hc : RX.run (.cls isDot) prev (c :: rest) = [] := by simp [RX.run, h2]
      rw [hc]
      simp [h2]
  · simp [h1]

theorem run_reDotAlt_nil (prev : Option Nat) : RX.run reDotAlt prev [] = [] := by
  unfold reDotAlt
  rw [run_seq]
  have : ∀ pv : Option Nat, RX.run (.seq (.cls isDot) (.notAhead (fun c => isAN c || isComma c))) pv [] = [] := by
    intro pv; rw [run_seq]; simp [RX.run]
  simp [this]

theorem spanLen_cons (p : Nat → Bool) (c : Nat) (cs : Text) :
    spanLen p (c :: cs) = if p c = true then spanLen p cs + 1 else 0 := by simp [spanLen]

/-- the alternatives of the head group have disjoint first characters: at most one length -/
theorem run_reBreakerHead (prev : Option Nat) (c : Nat) (rest : Text) :
    RX.run reBreakerHead prev (c :: rest) =
      if isPeriod c = true then [1]
      else if isCdot c = true then (if 3 ≤ 1 + spanLen isCdot rest then [1 + spanLen isCdot rest] else [])
      else if isDot c = true then (if (notAfterAN prev && notBeforeANComma rest) = true then [1] else [])
      else [] := by
  unfold reBreakerHead
  rw [run_alt, run_alt, run_atomic, run_atLeast_cls_take1, run_reDotAlt, spanLen_cons]
  have hP : RX.run (.cls isPeriod) prev (c :: rest) = if isPeriod c = true then [1] else [] := by simp [RX.run]
  rw [hP]
  by_cases h1 : isPeriod c = true
  · have h2 : isCdot c = false := by
      simp only [isPeriod, Bool.or_eq_true, decide_eq_true_eq] at h1
      simp only [isCdot, decide_eq_false_iff_not]; omega
    have h3 : isDot c = false := by
      simp only [isPeriod, Bool.or_eq_true, decide_eq_true_eq] at h1
      simp only [isDot, Bool.or_eq_false_iff, decide_eq_false_iff_not]; omega
    simp [h1, h2, h3]
  · by_cases h2 : isCdot c = true
    · have h3 : isDot c = false := by
        simp only [isCdot, decide_eq_true_eq] at h2
        simp only [isDot, Bool.or_eq_false_iff, decide_eq_false_iff_not]; omega
      have e : spanLen isCdot rest + 1 = 1 + spanLen isCdot rest := by omega
      simp [h1, h2, h3, e]
    · by_cases h3 : isDot c = true
      · simp [h1, h2, h3]
      · simp [h1, h2, h3]

theorem run_reBreakerHead_nil (prev : Option Nat) : RX.run reBreakerHead prev [] = [] := by
  unfold reBreakerHead
  rw [run_alt, run_alt, run_atomic, run_atLeast_cls_take1, run_reDotAlt_nil]
  simp [RX.run, spanLen]

theorem tagHead_of_ne {c : Nat} {rest : Text} (h : c ≠ 0x3C) : ¬ tagHead (c :: rest) = true := by
  match rest with
  | [] => simp [tagHead]
  | [b] => simp [tagHead]
  | [b, d] => simp [tagHead]
  | b :: d :: e :: r => simp [tagHead, isBrTag, h]

/-- a one-length head followed by the greedy `[DOT PERIODS]*` -/
theorem run_head_then_star (prev : Option Nat) (l : Text) (g : Nat) (h : RX.run reBreakerHead prev l = [g]) :
    RX.run (.seq reBreakerHead (.star (.cls isDotOrPeriod))) prev l =
      (desc (spanLen isDotOrPeriod (l.drop g))).map (g + ·) := by
  rw [run_seq, h]
  simp [run_star_cls]

theorem run_head_then_star_nil (prev : Option Nat) (l : Text) (h : RX.run reBreakerHead prev l = []) :
    RX.run (.seq reBreakerHead (.star (.cls isDotOrPeriod))) prev l = [] := by
  rw [run_seq, h]
  simp

/-- **SENTENCE_BREAKER anchored at a position** (look-behind character `prev`): the hand-written matcher
`breakerAt` answers the FIRST length in backtracking order of the pattern (what the leftmost-first
engines of `fancy_regex` / `regex` report for a match starting here), and that length is also the
LARGEST one the pattern can take here — so leftmost-longest semantics would give the same match. -/
theorem breakerAt_spec (prev : Option Nat) (l : Text) :
    (RX.run reBreaker prev l).head? = breakerAt prev l ∧
    ∀ m ∈ RX.run reBreaker prev l, ∃ n, breakerAt prev l = some n ∧ m ≤ n := by
  unfold reBreaker
  rw [run_alt]
  obtain ⟨hT1, hT2⟩ := run_atLeast_tag 2 l prev
  cases l with
  | nil =>
    rw [run_head_then_star_nil _ _ (run_reBreakerHead_nil prev)]
    simp only [List.nil_append]
    have hb : brUnits ([] : Text) = 0 := rfl
    rw [hb] at hT1 hT2
    refine ⟨by rw [hT1]; simp [breakerAt], ?_⟩
    intro m hm
    have := (hT2 m hm).1
    omega
  | cons c rest =>
    have hH := run_reBreakerHead prev c rest
    -- the tag alternative needs `<` first
    have hTag : c ≠ 0x3C → RX.run (RX.atLeast 2 reTag) prev (c :: rest) = [] := by
      intro hc
      have hb := brUnits_of_not_tagHead (tagHead_of_ne (rest := rest) hc)
      cases hr : RX.run (RX.atLeast 2 reTag) prev (c :: rest) with
      | nil => rfl
      | cons m ms =>
        have := (hT2 m (by rw [hr]; simp)).1
        omega
    have one : ∀ g, RX.run reBreakerHead prev (c :: rest) = [g] → c ≠ 0x3C → 1 ≤ g →
        breakerAt prev (c :: rest) = some (g + spanLen isDotOrPeriod (rest.drop (g - 1))) →
        (RX.run (.seq reBreakerHead (.star (.cls isDotOrPeriod))) prev (c :: rest) ++
            RX.run (RX.atLeast 2 reTag) prev (c :: rest)).head? = breakerAt prev (c :: rest) ∧
        ∀ m ∈ RX.run (.seq reBreakerHead (.star (.cls isDotOrPeriod))) prev (c :: rest) ++
            RX.run (RX.atLeast 2 reTag) prev (c :: rest), ∃ n, breakerAt prev (c :: rest) = some n ∧ m ≤ n := by
      intro g hg hc h1 hb
      have hd : (c :: rest).drop g = rest.drop (g - 1) := by
        cases g with
        | zero => omega
        | succ g => simp
      rw [run_head_then_star _ _ g hg, hTag hc, List.append_nil, hd, hb]
      refine ⟨by rw [List.head?_map, desc_head]; rfl, ?_⟩
      intro m hm
      simp only [List.mem_map] at hm
      obtain ⟨m', hm', rfl⟩ := hm
      exact ⟨_, rfl, by have := desc_le _ _ hm'; omega⟩
    have none' : RX.run reBreakerHead prev (c :: rest) = [] → c ≠ 0x3C → breakerAt prev (c :: rest) = none →
        (RX.run (.seq reBreakerHead (.star (.cls isDotOrPeriod))) prev (c :: rest) ++
            RX.run (RX.atLeast 2 reTag) prev (c :: rest)).head? = breakerAt prev (c :: rest) ∧
        ∀ m ∈ RX.run (.seq reBreakerHead (.star (.cls isDotOrPeriod))) prev (c :: rest) ++
            RX.run (RX.atLeast 2 reTag) prev (c :: rest), ∃ n, breakerAt prev (c :: rest) = some n ∧ m ≤ n := by
      intro hg hc hb
      rw [run_head_then_star_nil _ _ hg, hTag hc, hb]
      simp
    by_cases h1 : isPeriod c = true
    · have hc : c ≠ 0x3C := by
        simp only [isPeriod, Bool.or_eq_true, decide_eq_true_eq] at h1; omega
      refine one 1 (by rw [hH]; simp [h1]) hc (Nat.le_refl _) ?_
      simp [breakerAt, h1]
    · by_cases h2 : isCdot c = true
      · have hc : c ≠ 0x3C := by simp only [isCdot, decide_eq_true_eq] at h2; omega
        by_cases h3 : 3 ≤ 1 + spanLen isCdot rest
        · refine one (1 + spanLen isCdot rest) (by rw [hH]; simp [h1, h2, h3]) hc (by omega) ?_
          simp [breakerAt, h1, h2, h3]
        · refine none' (by rw [hH]; simp [h1, h2, h3]) hc ?_
          simp [breakerAt, h1, h2, h3]
      · by_cases h3 : isDot c = true
        · have hc : c ≠ 0x3C := by
            simp only [isDot, Bool.or_eq_true, decide_eq_true_eq] at h3; omega
          by_cases h4 : (notAfterAN prev && notBeforeANComma rest) = true
          · refine one 1 (by rw [hH]; simp [h1, h2, h3, h4]) hc (Nat.le_refl _) ?_
            simp only [breakerAt, h1, h2, h3, h4]; simp
          · refine none' (by rw [hH]; simp [h1, h2, h3, h4]) hc ?_
            simp only [breakerAt, h1, h2, h3, h4]; simp
        · have hg : RX.run reBreakerHead prev (c :: rest) = [] := by rw [hH]; simp [h1, h2, h3]
          rw [run_head_then_star_nil _ _ hg, List.nil_append]
          by_cases hc : c = 0x3C
          · have hb : breakerAt prev (c :: rest) =
                if 2 ≤ brUnits (c :: rest) then some (4 * brUnits (c :: rest)) else none := by
              subst hc
              simp [breakerAt, isPeriod, isCdot, isDot]
            rw [hb, hT1]
            refine ⟨rfl, ?_⟩
            intro m hm
            obtain ⟨hk, hm'⟩ := hT2 m hm
            exact ⟨_, by simp [hk], hm'⟩
          · rw [hTag hc]
            have hb : breakerAt prev (c :: rest) = none := by
              simp only [breakerAt, h1, h2, h3, hc]; simp
            rw [hb]; simp

/-! ### `find` and `find_iter` -/

/-- `Regex::find` on the haystack from position `k` (look-behind character `prev`, the rest of the
haystack `l`): the LEFTMOST position at which the pattern can match, with the FIRST length in
backtracking order there (leftmost-first) — `(start, end)` in characters -/
def RX.findFrom (r : RX) : Nat → Option Nat → Text → Option (Nat × Nat)
  | k, prev, [] => (RX.run r prev []).head?.map (fun n => (k, k + n))
  | k, prev, c :: cs =>
    match (RX.run r prev (c :: cs)).head? with
    | some n => some (k, k + n)
    | none => RX.findFrom r (k + 1) (some c) cs

/-- `Regex::find_iter` for a pattern without empty matches: successive non-overlapping matches, each
search starting where the previous match ended, look-behind seeing the whole haystack.
`fuel` = number of matches asked for. -/
def RX.findIter (r : RX) : Nat → Nat → Option Nat → Text → List (Nat × Nat)
  | 0, _, _, _ => []
  | fuel + 1, k, prev, l =>
    match RX.findFrom r k prev l with
    | none => []
    | some (j, e) => (j, e) :: RX.findIter r fuel e (advPrev prev l (e - k)) (l.drop (e - k))

theorem advPrev_zero (prev : Option Nat) (l : Text) : advPrev prev l 0 = prev := by simp [advPrev]

theorem advPrev_cons (prev : Option Nat) (c : Nat) (cs : Text) (n : Nat) :
    advPrev prev (c :: cs) (n + 1) = advPrev (some c) cs n := by
  unfold advPrev
  cases n with
  | zero => simp
  | succ n => simp

/-- the `skip` counter of `matchEnds` (= of `scan`) is "continue behind the previous match" -/
theorem matchEnds_skip : ∀ (l : Text) (k : Nat) (prev : Option Nat) (skip : Nat),
    matchEnds k prev skip l = matchEnds (k + skip) (advPrev prev l skip) 0 (l.drop skip) := by
  intro l
  induction l with
  | nil => intro k prev skip; simp [matchEnds]
  | cons c cs ih =>
    intro k prev skip
    cases skip with
    | zero => simp [advPrev]
    | succ sk =>
      simp only [matchEnds, List.drop_succ_cons]
      rw [ih, advPrev_cons]
      congr 1
      omega

/-- one step of `find_iter` on SENTENCE_BREAKER = one reported end of `matchEnds` -/
theorem matchEnds_find : ∀ (l : Text) (k : Nat) (prev : Option Nat),
    match RX.findFrom reBreaker k prev l with
    | none => matchEnds k prev 0 l = []
    | some (j, e) => k ≤ j ∧ j < e ∧ e - k ≤ l.length ∧
        matchEnds k prev 0 l = e :: matchEnds e (advPrev prev l (e - k)) 0 (l.drop (e - k)) := by
  intro l
  induction l with
  | nil =>
    intro k prev
    have h := (breakerAt_spec prev []).1
    simp only [RX.findFrom, h, breakerAt, Option.map_none]
    simp [matchEnds]
  | cons c cs ih =>
    intro k prev
    have h := (breakerAt_spec prev (c :: cs)).1
    cases hb : breakerAt prev (c :: cs) with
    | none =>
      rw [hb] at h
      simp only [RX.findFrom, h, matchEnds, hb]
      have := ih (k + 1) (some c)
      cases hf : RX.findFrom reBreaker (k + 1) (some c) cs with
      | none => rw [hf] at this; exact this
      | some je =>
        obtain ⟨j, e⟩ := je
        rw [hf] at this
        obtain ⟨h1, h2, h3, h4⟩ := this
        refine ⟨by omega, h2, by simp only [List.length_cons]; omega, ?_⟩
        have he : e - k = (e - (k + 1)) + 1 := by omega
        rw [h4, he, advPrev_cons, List.drop_succ_cons]
    | some n =>
      rw [hb] at h
      have hn := breakerAt_bounds hb
      simp only [RX.findFrom, h, matchEnds, hb]
      refine ⟨Nat.le_refl _, by omega, by omega, ?_⟩
      rw [matchEnds_skip]
      have he : k + n - k = (n - 1) + 1 := by omega
      rw [he, advPrev_cons, List.drop_succ_cons]
      congr 2
      omega

/-- **`SENTENCE_BREAKER.find_iter(&s)`**: the ends of the successive non-overlapping leftmost-first
matches of the pattern `reBreaker` in `s` are exactly the ends the loop of `get_eos` examines
(`matchEnds`, the traversal of `scan`) -/
theorem matchEnds_findIter : ∀ (fuel : Nat) (l : Text) (k : Nat) (prev : Option Nat), l.length < fuel →
    (RX.findIter reBreaker fuel k prev l).map (·.2) = matchEnds k prev 0 l := by
  intro fuel
  induction fuel with
  | zero => intro l k prev h; omega
  | succ fuel ih =>
    intro l k prev hl
    have := matchEnds_find l k prev
    simp only [RX.findIter]
    cases hf : RX.findFrom reBreaker k prev l with
    | none => rw [hf] at this; simp [this]
    | some je =>
      obtain ⟨j, e⟩ := je
      rw [hf] at this
      obtain ⟨h1, h2, h3, h4⟩ := this
      simp only [List.map_cons]
      rw [h4, ih _ _ _ (by simp only [List.length_drop]; omega)]

/-! ### SPACES `.+\\s+` -/

/-- `.` of the `regex` crate without the `s` flag: any character except `\\n` -/
def isDotChar (c : Nat) : Bool := c != 0x0A

/-- SPACES: `.+\\s+`, with `x+` read as `x x*` (both quantifiers greedy) -/
def reSpaces : RX := .seq (RX.plus (.cls isDotChar)) (RX.plus (.cls isSpace))

/-- `(ab)c` and `a(bc)` take the same lengths in the same backtracking order -/
theorem run_seq_assoc (a b c : RX) (prev : Option Nat) (l : Text) :
    RX.run (.seq (.seq a b) c) prev l = RX.run (.seq a (.seq b c)) prev l := by
  have hadv : ∀ n m, advPrev (advPrev prev l n) (l.drop n) m = advPrev prev l (n + m) := by
    intro n m
    unfold advPrev
    by_cases hm : m = 0
    · subst hm; simp
    · have hnm : ¬ (n + m = 0) := by omega
      simp only [hm, hnm, if_false, List.getElem?_drop]
      congr 1; omega
  rw [run_seq, run_seq, run_seq]
  simp only [List.flatMap_assoc, List.flatMap_map, run_seq, List.map_flatMap, List.map_map]
  congr 1
  funext n
  congr 1
  funext m
  rw [hadv, List.drop_drop]
  congr 1
  funext x
  simp only [Function.comp]
  omega

/-- `[class]+` greedy: `span, span-1, …, 1` -/
theorem run_plus_cls (p : Nat → Bool) (prev : Option Nat) (l : Text) :
    RX.run (RX.plus (.cls p)) prev l =
      match l with
      | [] => []
      | c :: cs => if p c = true then (desc (spanLen p cs)).map (1 + ·) else [] := by
  unfold RX.plus
  rw [run_seq]
  cases l with
  | nil => simp [RX.run]
  | cons c cs =>
    by_cases hp : p c = true
    · have : RX.run (.cls p) prev (c :: cs) = [1] := by simp [RX.run, hp]
      rw [this]
      simp [hp, run_star_cls]
    · have : RX.run (.cls p) prev (c :: cs) = [] := by simp [RX.run, hp]
      rw [this]
      simp [hp]

/-- `.*\\s+` from a position (the part of SPACES after its first character) -/
def reSpacesTail : RX := .seq (.star (.cls isDotChar)) (RX.plus (.cls isSpace))

theorem run_reSpaces_cons (prev : Option Nat) (c : Nat) (cs : Text) :
    RX.run reSpaces prev (c :: cs) =
      if isDotChar c = true then (RX.run reSpacesTail (some c) cs).map (1 + ·) else [] := by
  unfold reSpaces RX.plus
  rw [run_seq_assoc, run_seq]
  by_cases hp : isDotChar c = true
  · have : RX.run (.cls isDotChar) prev (c :: cs) = [1] := by simp [RX.run, hp]
    rw [this]
    simp [hp, reSpacesTail, RX.plus, advPrev]
  · have : RX.run (.cls isDotChar) prev (c :: cs) = [] := by simp [RX.run, hp]
    rw [this]
    simp [hp]

theorem run_reSpaces_nil (prev : Option Nat) : RX.run reSpaces prev [] = [] := by
  unfold reSpaces RX.plus
  rw [run_seq_assoc, run_seq]
  simp [RX.run]

/-- one step of the greedy `.*`: either `.` takes the next character, or `\\s+` starts here -/
theorem run_reSpacesTail_cons (prev : Option Nat) (d : Nat) (ds : Text) :
    RX.run reSpacesTail prev (d :: ds) =
      (if isDotChar d = true then (RX.run reSpacesTail (some d) ds).map (1 + ·) else []) ++
        RX.run (RX.plus (.cls isSpace)) prev (d :: ds) := by
  unfold reSpacesTail
  rw [run_seq, run_star_cls, spanLen_cons]
  by_cases hp : isDotChar d = true
  · simp only [hp, if_true]
    rw [← desc_shift, List.flatMap_append, List.flatMap_map]
    simp only [List.flatMap_cons, List.flatMap_nil, List.append_nil, advPrev_zero, List.drop_zero,
      Nat.zero_add, List.map_id']
    congr 1
    rw [run_seq, run_star_cls, List.map_flatMap]
    congr 1
    funext n
    have h1 : (d :: ds).drop (1 + n) = ds.drop n := by rw [Nat.add_comm]; rfl
    have h2 : advPrev prev (d :: ds) (1 + n) = advPrev (some d) ds n := by
      rw [Nat.add_comm]; exact advPrev_cons _ _ _ _
    rw [h1, h2, List.map_map]
    congr 1
    funext x
    simp only [Function.comp]
    omega
  · simp [hp, desc, advPrev]

theorem run_reSpacesTail_nil (prev : Option Nat) : RX.run reSpacesTail prev [] = [] := by
  unfold reSpacesTail
  rw [run_seq, run_star_cls]
  simp [spanLen, desc, run_plus_cls]

theorem lastSpaceEnd_none : ∀ (l : Text), lastSpaceEnd l = none → ∀ x ∈ l, isSpace x = false := by
  intro l
  induction l with
  | nil => intro _ x hx; simp at hx
  | cons c cs ih =>
    intro h x hx
    simp only [lastSpaceEnd] at h
    cases hh : lastSpaceEnd cs with
    | some e => simp [hh] at h
    | none =>
      simp only [hh] at h
      simp only [List.mem_cons] at hx
      rcases hx with rfl | hx
      · by_cases hs : isSpace x = true
        · simp [hs] at h
        · simpa using hs
      · exact ih hh x hx

theorem spanLen_zero_of_all_false (p : Nat → Bool) (l : Text) (h : ∀ x ∈ l, p x = false) : spanLen p l = 0 := by
  cases l with
  | nil => rfl
  | cons c cs => simp [spanLen, h c (by simp)]

/-- on a final line (no `\\n`): `.*\\s+` backtracks to the LAST white-space character -/
theorem head_reSpacesTail_noNL : ∀ (l : Text) (prev : Option Nat), (∀ x ∈ l, isDotChar x = true) →
    (RX.run reSpacesTail prev l).head? = lastSpaceEnd l := by
  intro l
  induction l with
  | nil => intro prev _; simp [run_reSpacesTail_nil, lastSpaceEnd]
  | cons d ds ih =>
    intro prev hall
    have hd : isDotChar d = true := hall d (by simp)
    have hrec := ih (some d) (fun x hx => hall x (by simp [hx]))
    rw [run_reSpacesTail_cons, List.head?_append]
    simp only [hd, if_true, List.head?_map, hrec, lastSpaceEnd]
    cases hl : lastSpaceEnd ds with
    | some e => simp; omega
    | none =>
      have hz := spanLen_zero_of_all_false isSpace ds (lastSpaceEnd_none ds hl)
      rw [run_plus_cls]
      by_cases hs : isSpace d = true
      · simp [hs, hz, desc]
      · simp [hs]

/-- on a line that ends with `\\n`: `.*` takes the whole line and `\\s+` the `\\n` and all white space behind it -/
theorem head_reSpacesTail_NL : ∀ (l : Text) (prev : Option Nat),
    spanLen isDotChar l < l.length →
    (RX.run reSpacesTail prev l).head? =
      some (spanLen isDotChar l + spanLen isSpace (l.drop (spanLen isDotChar l))) := by
  intro l
  induction l with
  | nil => intro prev h; simp [spanLen] at h
  | cons d ds ih =>
    intro prev h
    rw [run_reSpacesTail_cons, List.head?_append, spanLen_cons]
    by_cases hd : isDotChar d = true
    · rw [spanLen_cons] at h
      simp only [hd, if_true, List.length_cons] at h
      have hrec := ih (some d) (by omega)
      simp only [hd, if_true, List.head?_map, hrec, List.drop_succ_cons]
      simp; omega
    · have hnl : d = 0x0A := by simpa [isDotChar] using hd
      have hs : isSpace d = true := by subst hnl; decide
      simp only [hd, if_false, List.head?_nil, List.drop_zero, Nat.zero_add, Bool.false_eq_true]
      rw [run_plus_cls]
      simp only [hs, if_true, List.head?_map, desc_head, spanLen_cons]
      simp; omega

/-- white space is absent ⇒ SPACES matches nowhere -/
theorem findFrom_reSpaces_none : ∀ (l : Text) (k : Nat) (prev : Option Nat),
    (∀ x ∈ l, isSpace x = false) → RX.findFrom reSpaces k prev l = none := by
  have htail : ∀ (l : Text) (prev : Option Nat), (∀ x ∈ l, isSpace x = false) → RX.run reSpacesTail prev l = [] := by
    intro l
    induction l with
    | nil => intro prev _; exact run_reSpacesTail_nil prev
    | cons d ds ih =>
      intro prev h
      rw [run_reSpacesTail_cons, ih (some d) (fun x hx => h x (by simp [hx])), run_plus_cls]
      simp [h d (by simp)]
  intro l
  induction l with
  | nil => intro k prev _; simp [RX.findFrom, run_reSpaces_nil]
  | cons c cs ih =>
    intro k prev h
    have hcs : ∀ x ∈ cs, isSpace x = false := fun x hx => h x (by simp [hx])
    simp only [RX.findFrom, run_reSpaces_cons, htail cs (some c) hcs]
    simp [ih (k + 1) (some c) hcs]

theorem spanLen_eq_length_all (p : Nat → Bool) : ∀ (l : Text), ¬ (spanLen p l < l.length) → ∀ x ∈ l, p x = true := by
  intro l
  induction l with
  | nil => intro _ x hx; simp at hx
  | cons c cs ih =>
    intro h x hx
    rw [spanLen_cons] at h
    by_cases hc : p c = true
    · simp only [hc, if_true, List.length_cons] at h
      simp only [List.mem_cons] at hx
      rcases hx with rfl | hx
      · exact hc
      · exact ih (by omega) x hx
    · simp [hc] at h

/-- **`SPACES.find(&s)`**: `spacesEnd` is the end of the leftmost-first match of `.+\\s+` in the window -/
theorem spacesEnd_spec : ∀ (s : Text) (k : Nat) (prev : Option Nat),
    (RX.findFrom reSpaces k prev s).map (·.2) = (spacesEnd s).map (k + ·) := by
  intro s
  induction s with
  | nil => intro k prev; simp [RX.findFrom, run_reSpaces_nil, spacesEnd]
  | cons c cs ih =>
    intro k prev
    by_cases hc : c = 0x0A
    · subst hc
      have hd : isDotChar 0x0A = false := by decide
      simp only [RX.findFrom, run_reSpaces_cons, hd, spacesEnd, if_true, Bool.false_eq_true, if_false,
        List.head?_nil]
      rw [ih (k + 1) (some 0x0A)]
      cases spacesEnd cs with
      | none => rfl
      | some e => simp; omega
    · have hd : isDotChar c = true := by simp [isDotChar, hc]
      simp only [RX.findFrom, run_reSpaces_cons, hd, if_true, spacesEnd, hc, if_false, List.head?_map]
      have hline : spanLen (fun x => x != 0x0A) (c :: cs) = 1 + spanLen isDotChar cs := by
        have : (fun x : Nat => x != 0x0A) = isDotChar := rfl
        rw [this, spanLen_cons, hd]; simp; omega
      simp only [spacesFrom, hline]
      by_cases hlt : 1 + spanLen isDotChar cs < (c :: cs).length
      · have hlt' : spanLen isDotChar cs < cs.length := by simp only [List.length_cons] at hlt; omega
        rw [head_reSpacesTail_NL cs (some c) hlt']
        have hdrop : (c :: cs).drop (1 + spanLen isDotChar cs) = cs.drop (spanLen isDotChar cs) := by
          rw [Nat.add_comm]; rfl
        simp only [hlt, if_true, hdrop, Option.map_some]
        congr 1
        omega
      · have hall := spanLen_eq_length_all isDotChar cs (by simp only [List.length_cons] at hlt; omega)
        rw [head_reSpacesTail_noNL cs (some c) hall]
        simp only [hlt, if_false]
        cases hl : lastSpaceEnd cs with
        | some e => simp; omega
        | none =>
          simp only [Option.map_none]
          rw [findFrom_reSpaces_none cs (k + 1) (some c) (lastSpaceEnd_none cs hl)]
          rfl

/-- leading white space is covered by the first match of `.*\\s+` -/
theorem head_reSpacesTail_ge : ∀ (l : Text) (prev : Option Nat), 1 ≤ spanLen isSpace l →
    ∃ h, (RX.run reSpacesTail prev l).head? = some h ∧ spanLen isSpace l ≤ h := by
  intro l
  induction l with
  | nil => intro prev h; simp [spanLen] at h
  | cons d ds ih =>
    intro prev h
    rw [spanLen_cons] at h
    have hs : isSpace d = true := by
      by_cases hs : isSpace d = true
      · exact hs
      · simp [hs] at h
    rw [run_reSpacesTail_cons, List.head?_append, run_plus_cls, spanLen_cons]
    simp only [hs, if_true, List.head?_map, desc_head]
    by_cases hd : isDotChar d = true
    · simp only [hd, if_true, List.head?_map]
      cases hh : (RX.run reSpacesTail (some d) ds).head? with
      | none => exact ⟨_, rfl, by simp; omega⟩
      | some h' =>
        by_cases hk : 1 ≤ spanLen isSpace ds
        · obtain ⟨h2, hh2, hle⟩ := ih (some d) hk
          rw [hh] at hh2
          cases hh2
          exact ⟨1 + h', rfl, by omega⟩
        · exact ⟨1 + h', rfl, by omega⟩
    · simp only [hd]
      exact ⟨_, rfl, by simp; omega⟩

/-- the first length of `.*\\s+` in backtracking order is also the largest -/
theorem reSpacesTail_longest : ∀ (l : Text) (prev : Option Nat), ∀ m ∈ RX.run reSpacesTail prev l,
    ∃ n, (RX.run reSpacesTail prev l).head? = some n ∧ m ≤ n := by
  intro l
  induction l with
  | nil => intro prev m hm; simp [run_reSpacesTail_nil] at hm
  | cons d ds ih =>
    intro prev m hm
    rw [run_reSpacesTail_cons] at hm ⊢
    rw [List.head?_append]
    rw [List.mem_append] at hm
    by_cases hd : isDotChar d = true
    · simp only [hd, if_true, List.mem_map, List.head?_map] at hm ⊢
      rcases hm with ⟨m', hm', rfl⟩ | hm
      · obtain ⟨n, hn, hle⟩ := ih (some d) m' hm'
        exact ⟨1 + n, by simp [hn], by omega⟩
      · rw [run_plus_cls] at hm ⊢
        by_cases hs : isSpace d = true
        · simp only [hs, if_true, List.mem_map, List.head?_map, desc_head] at hm ⊢
          obtain ⟨m', hm', rfl⟩ := hm
          have hm'' := desc_le _ _ hm'
          cases hh : (RX.run reSpacesTail (some d) ds).head? with
          | none => exact ⟨1 + spanLen isSpace ds, rfl, by omega⟩
          | some h' =>
            by_cases hk : 1 ≤ spanLen isSpace ds
            · obtain ⟨h2, hh2, hle⟩ := head_reSpacesTail_ge ds (some d) hk
              rw [hh] at hh2
              cases hh2
              exact ⟨1 + h', rfl, by omega⟩
            · exact ⟨1 + h', rfl, by omega⟩
        · simp [hs] at hm
    · simp only [hd] at hm ⊢
      simp only [Bool.false_eq_true, if_false, List.not_mem_nil, false_or] at hm
      rw [run_plus_cls] at hm ⊢
      by_cases hs : isSpace d = true
      · simp only [hs, if_true, List.mem_map, List.head?_map, desc_head] at hm ⊢
        obtain ⟨m', hm', rfl⟩ := hm
        have hm'' := desc_le _ _ hm'
        exact ⟨1 + spanLen isSpace ds, rfl, by omega⟩
      · simp [hs] at hm

/-- **SPACES at a position**: the first length in backtracking order is the largest one, so leftmost-longest
semantics would report the same match as the leftmost-first engine -/
theorem reSpaces_longest (l : Text) (prev : Option Nat) : ∀ m ∈ RX.run reSpaces prev l,
    ∃ n, (RX.run reSpaces prev l).head? = some n ∧ m ≤ n := by
  intro m hm
  cases l with
  | nil => simp [run_reSpaces_nil] at hm
  | cons c cs =>
    rw [run_reSpaces_cons] at hm ⊢
    by_cases hd : isDotChar c = true
    · simp only [hd, if_true, List.mem_map, List.head?_map] at hm ⊢
      obtain ⟨m', hm', rfl⟩ := hm
      obtain ⟨n, hn, hle⟩ := reSpacesTail_longest cs (some c) m' hm'
      exact ⟨1 + n, by simp [hn], by omega⟩
    · simp [hd] at hm

end Sentence
