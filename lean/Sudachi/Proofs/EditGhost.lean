import Sudachi.Model.EditGhost
import Sudachi.Proofs.EditExact
/-!
# The ghost-tagged run of `resolve_edits` (C08 `unreplaced_exact`)

1. erasing the ghost state of `EditG.commitAllVG` gives the executed run `EditM.commitAllV` (`commitAllVG_erase`);
2. the invariant `InvG` of the ghost-tagged buffer, kept by every committed batch (`commitAllVG_inv`):
   * `chain`  an unreplaced byte `k` is followed by an entry whose value is EXACTLY `endOf` (its own end `k + 1`, or the end `d` of
              the deletion run attached after it);
   * `val`    it still carries `o[k]` and its value is `startOf` (`k`, or 0 once it has been a first entry);
   * `cov`    an attached run `[k + 1, d)` lies after the byte and consists of original offsets that are in the image of a
              deleting edit (`D`);
   * `lead`   for a byte that has been a first entry every original offset before it is in the image of a deleting edit.
-/
namespace EditG
open EditM

variable {α : Type}

/-! ### lists -/

theorem nil_or_concat : ∀ (l : List α), l = [] ∨ ∃ a p, l = a ++ [p]
  | [] => Or.inl rfl
  | x :: r => by
    rcases nil_or_concat r with h | ⟨a, p, h⟩
    · exact Or.inr ⟨[], x, by simp [h]⟩
    · exact Or.inr ⟨x :: a, p, by simp [h]⟩

theorem chain_pair {R : α → α → Prop} : ∀ (a : List α) (p x : α), Chain R (a ++ [p, x]) ↔ Chain R (a ++ [p]) ∧ R p x
  | [], _, _ => ⟨fun h => ⟨trivial, h.1⟩, fun h => ⟨h.2, trivial⟩⟩
  | [_], _, _ => ⟨fun h => ⟨⟨h.1, trivial⟩, h.2.1⟩, fun h => ⟨h.1.1, h.2, trivial⟩⟩
  | _ :: z :: a, p, x => by
    have ih := chain_pair (R := R) (z :: a) p x
    constructor
    · intro h; exact ⟨⟨h.1, (ih.mp h.2).1⟩, (ih.mp h.2).2⟩
    · intro h; exact ⟨h.1.1, ih.mpr ⟨h.1.2, h.2⟩⟩

/-- value of the first entry (0 for the empty list) -/
def hd2 (a : List (P GB)) : Nat := match a with | [] => 0 | p :: _ => p.2

/-! ### the exact chain condition -/

/-- an unreplaced byte `k` is followed by an entry with value exactly `endOf` -/
def RelX (p q : P GB) : Prop := ∀ b t k, p.1 = some (b, t) → t.org = some k → q.2 = endOf t k

/-- written by a replacement, or the sentinel -/
def Unorg (p : P GB) : Prop := ∀ b t, p.1 = some (b, t) → t.org = none

theorem relX_congr {p q q' : P GB} (h : q.2 = q'.2) (hr : RelX p q) : RelX p q' := by
  intro b t k hb hk; rw [← h]; exact hr b t k hb hk

theorem relX_of_unorg {p : P GB} (q : P GB) (h : Unorg p) : RelX p q := by
  intro b t k hb hk
  rw [h b t hb] at hk; cases hk

theorem chain_last_congr : ∀ (a : List (P GB)) (x y : P GB), Chain RelX (a ++ [x]) → x.2 = y.2 → Chain RelX (a ++ [y])
  | [], _, _, _, _ => trivial
  | [_], _, _, h, hxy => ⟨relX_congr hxy h.1, trivial⟩
  | _ :: z :: a', x, y, h, hxy => ⟨h.1, chain_last_congr (z :: a') x y h.2 hxy⟩

theorem chain_unorg : ∀ (xs : List (P GB)) (y : P GB), (∀ p ∈ xs, Unorg p) → Chain RelX (xs ++ [y])
  | [], _, _ => trivial
  | [p], y, h => ⟨relX_of_unorg y (h p (by simp)), trivial⟩
  | p :: q :: r, y, h =>
    ⟨relX_of_unorg q (h p (by simp)), chain_unorg (q :: r) y (fun x hx => h x (by simp [hx]))⟩

theorem unorg_repl (l : List (P GB)) (ed : Edit Nat) : ∀ p ∈ repl l (tagE ed), Unorg p := by
  intro p hp
  unfold repl tagE at hp
  cases hwd : ed.w with
  | nil => simp [hwd] at hp
  | cons b bs =>
    simp only [hwd, List.map_cons, List.mem_cons, List.mem_map] at hp
    rcases hp with rfl | ⟨c, ⟨c0, _, rfl⟩, rfl⟩
    · intro b' t' h; cases h; rfl
    · intro b' t' h
      cases h; rfl

/-! ### `setAtt`, `attach` -/

theorem setAtt_snd (d : Nat) (p : P GB) : (setAtt d p).2 = p.2 := by
  obtain ⟨x, v⟩ := p
  cases x with
  | none => rfl
  | some bt => rfl

theorem relX_setAtt (d : Nat) (p y : P GB) (hy : y.2 = d) : RelX (setAtt d p) y := by
  obtain ⟨x, v⟩ := p
  cases x with
  | none => intro b t k hb; cases hb
  | some bt =>
    obtain ⟨b0, t0⟩ := bt
    intro b t k hb hk
    simp only [setAtt, Option.some.injEq, Prod.mk.injEq] at hb
    obtain ⟨_, rfl⟩ := hb
    simp [endOf, hy]

theorem attach_concat (d : Nat) : ∀ (a : List (P GB)) (p : P GB), attach d (a ++ [p]) = a ++ [setAtt d p]
  | [], _ => rfl
  | [_], _ => rfl
  | q :: r :: a, p => by
    have ih := attach_concat d (r :: a) p
    show q :: attach d ((r :: a) ++ [p]) = q :: ((r :: a) ++ [setAtt d p])
    rw [ih]

theorem mem_attach (d : Nat) (a : List (P GB)) (p : P GB) (h : p ∈ attach d a) :
    ∃ p0 ∈ a, p = p0 ∨ p = setAtt d p0 := by
  rcases nil_or_concat a with rfl | ⟨a', q, rfl⟩
  · simp [attach] at h
  · rw [attach_concat] at h
    rcases List.mem_append.mp h with h | h
    · exact ⟨p, by simp [h], Or.inl rfl⟩
    · simp only [List.mem_singleton] at h
      exact ⟨q, by simp, Or.inr h⟩

theorem mapP_setAtt (d : Nat) (p : P GB) : mapP Prod.fst [setAtt d p] = mapP Prod.fst [p] := by
  obtain ⟨x, v⟩ := p
  cases x with
  | none => rfl
  | some bt => rfl

theorem mapP_attach (d : Nat) (a : List (P GB)) : mapP Prod.fst (attach d a) = mapP Prod.fst a := by
  rcases nil_or_concat a with rfl | ⟨a', q, rfl⟩
  · rfl
  · rw [attach_concat, mapP_append, mapP_append, mapP_setAtt]

/-! ### erasing the ghost state gives the executed run -/

theorem isDel_iff (ed : Edit Nat) : isDel ed = true ↔ ed.w = [] ∧ ed.s < ed.e := by
  unfold isDel
  cases ed.w <;> simp

theorem mapE_tagE (ed : Edit Nat) : mapE Prod.fst (tagE ed) = ed := by
  cases ed with
  | mk s e w => simp [mapE, tagE, List.map_map, Function.comp_def]

theorem repl_erase (l : List (P GB)) (ed : Edit Nat) :
    mapP Prod.fst (repl l (tagE ed)) = repl (mapP Prod.fst l) ed := by
  have := repl_mapP Prod.fst l (tagE ed)
  rw [mapE_tagE] at this
  exact this.symm

theorem repl_nil_of_w {β : Type} (l : List (P β)) (ed : Edit β) (h : ed.w = []) : repl l ed = [] := by
  simp [repl, h]

theorem goG_erase (l : List (P GB)) : ∀ (es : List (Edit Nat)) (start : Nat) (acc : List (P GB)),
    mapP Prod.fst (goG l start es acc) = go (mapP Prod.fst l) start es (mapP Prod.fst acc) := by
  intro es
  induction es with
  | nil => intro start acc; simp [goG, go, mapP, List.map_drop]
  | cons ed es ih =>
    intro start acc
    simp only [goG, go]
    rw [ih]
    congr 1
    by_cases hd : isDel ed = true
    · rw [if_pos hd, mapP_attach, mapP_append, slice_mapP, repl_nil_of_w _ _ ((isDel_iff ed).mp hd).1, List.append_nil]
    · rw [if_neg hd, mapP_append, mapP_append, slice_mapP, repl_erase]

theorem force0G_erase (a : List (P GB)) : mapP Prod.fst (force0G a) = force0 (mapP Prod.fst a) := by
  cases a with
  | nil => rfl
  | cons p r =>
    obtain ⟨x, v⟩ := p
    cases x with
    | none => simp [force0G, force0, mapP]
    | some bt => obtain ⟨b, t⟩ := bt; simp [force0G, force0, mapP]

theorem resolveG_erase (l : List (P GB)) (es : List (Edit Nat)) :
    mapP Prod.fst (resolveG l es) = resolve (mapP Prod.fst l) es := by
  unfold resolveG resolve
  rw [force0G_erase, goG_erase]
  rfl

theorem commitVG_erase (lv : LenV) (l : List (P GB)) (es : List (Edit Nat)) :
    (commitVG lv l es).map (mapP Prod.fst) = commitV lv (mapP Prod.fst l) es := by
  unfold commitVG commitV
  rw [mapP_length]
  split
  · rfl
  · split
    · simp [resolveG_erase]
    · rfl

theorem commitAllVG_erase (lv : LenV) : ∀ (bs : List (List (Edit Nat))) (l : List (P GB)),
    (commitAllVG lv l bs).map (mapP Prod.fst) = commitAllV lv (mapP Prod.fst l) bs := by
  intro bs
  induction bs with
  | nil => intro l; rfl
  | cons es rest ih =>
    intro l
    simp only [commitAllVG, commitAllV]
    rw [← commitVG_erase]
    cases commitVG lv l es with
    | none => rfl
    | some l1 => exact ih l1

theorem ghostIdentFrom_erase (o : List Nat) : ∀ k, mapP Prod.fst (ghostIdentFrom k o) = identFrom k o := by
  induction o with
  | nil => intro k; rfl
  | cons b bs ih =>
    intro k
    simp only [ghostIdentFrom, identFrom, mapP, List.map_cons, Option.map_some]
    congr 1
    exact ih (k + 1)

theorem ghostIdent_erase (o : List Nat) : mapP Prod.fst (ghostIdent o) = identFrom 0 o := ghostIdentFrom_erase o 0

/-! ### predicates on entries that the ghost bookkeeping of deletions (`setAtt`) cannot break -/

/-- an unreplaced byte still carries the byte of the original it is tagged with and has value `startOf` -/
def ValOK (o : List Nat) (p : P GB) : Prop :=
  ∀ b t k, p.1 = some (b, t) → t.org = some k → (∃ hk : k < o.length, b = o[k]) ∧ p.2 = startOf t k

/-- an attached deletion run lies after the byte and consists of offsets in the image of a deleting edit -/
def Cov (D : Nat → Prop) (p : P GB) : Prop :=
  ∀ b t k d, p.1 = some (b, t) → t.org = some k → t.att = some d → k + 1 ≤ d ∧ ∀ j, k + 1 ≤ j → j < d → D j

/-- everything before a byte that has been a first entry is in the image of a deleting edit -/
def LeadCov (D : Nat → Prop) (p : P GB) : Prop :=
  ∀ b t k, p.1 = some (b, t) → t.org = some k → t.lead = true → ∀ j, j < k → D j

theorem valOK_setAtt (o : List Nat) (d : Nat) (p : P GB) (h : ValOK o p) : ValOK o (setAtt d p) := by
  obtain ⟨x, v⟩ := p
  cases x with
  | none => intro b t k hb; cases hb
  | some bt =>
    obtain ⟨b0, t0⟩ := bt
    intro b t k hb hk
    simp only [setAtt, Option.some.injEq, Prod.mk.injEq] at hb
    obtain ⟨rfl, rfl⟩ := hb
    exact h b0 t0 k rfl hk

theorem leadCov_setAtt (D : Nat → Prop) (d : Nat) (p : P GB) (h : LeadCov D p) : LeadCov D (setAtt d p) := by
  obtain ⟨x, v⟩ := p
  cases x with
  | none => intro b t k hb; cases hb
  | some bt =>
    obtain ⟨b0, t0⟩ := bt
    intro b t k hb hk hl
    simp only [setAtt, Option.some.injEq, Prod.mk.injEq] at hb
    obtain ⟨rfl, rfl⟩ := hb
    exact h b0 t0 k rfl hk hl

theorem valOK_of_unorg (o : List Nat) (p : P GB) (h : Unorg p) : ValOK o p := by
  intro b t k hb hk; rw [h b t hb] at hk; cases hk

theorem cov_of_unorg (D : Nat → Prop) (p : P GB) (h : Unorg p) : Cov D p := by
  intro b t k d hb hk; rw [h b t hb] at hk; cases hk

theorem leadCov_of_unorg (D : Nat → Prop) (p : P GB) (h : Unorg p) : LeadCov D p := by
  intro b t k hb hk; rw [h b t hb] at hk; cases hk

/-- a predicate that `setAtt` keeps, true of the source and of every replacement byte, is true of the result of the loop -/
theorem goG_all (Good : P GB → Prop) (hatt : ∀ d p, Good p → Good (setAtt d p)) (l : List (P GB))
    (hl : ∀ p ∈ l, Good p) :
    ∀ (es : List (Edit Nat)) (start : Nat) (acc : List (P GB)),
      (∀ ed ∈ es, ∀ p ∈ repl l (tagE ed), Good p) → (∀ p ∈ acc, Good p) → ∀ p ∈ goG l start es acc, Good p := by
  intro es
  induction es with
  | nil =>
    intro start acc _ hacc p hp
    simp only [goG] at hp
    rcases List.mem_append.mp hp with h | h
    · exact hacc p h
    · exact hl p (List.mem_of_mem_drop h)
  | cons ed es ih =>
    intro start acc hr hacc p hp
    simp only [goG] at hp
    refine ih ed.e _ (fun ed' h' => hr ed' (by simp [h'])) ?_ p hp
    have h1 : ∀ q ∈ acc ++ slice l start ed.s, Good q := by
      intro q hq
      rcases List.mem_append.mp hq with h | h
      · exact hacc q h
      · exact hl q (mem_slice_mem h)
    intro q hq
    split at hq
    · obtain ⟨q0, hq0, h | h⟩ := mem_attach _ _ _ hq
      · rw [h]; exact h1 q0 hq0
      · rw [h]; exact hatt _ q0 (h1 q0 hq0)
    · rcases List.mem_append.mp hq with h | h
      · exact h1 q h
      · exact hr ed (by simp) q h

/-! ### the loop keeps the exact chain condition, the coverage of attached runs and "everything before the head is deleted" -/

theorem hd2_concat_congr (a r r' : List (P GB)) (p p' : P GB) (h : p.2 = p'.2) :
    hd2 (a ++ [p] ++ r) = hd2 (a ++ [p'] ++ r') := by
  cases a with
  | nil => simpa [hd2] using h
  | cons q a' => simp [hd2]

theorem hd2_append_drop (a l : List (P GB)) (s : Nat) (hs : s < l.length) :
    hd2 (a ++ l.drop s) = hd2 (a ++ [l[s]]) := by
  rw [List.drop_eq_getElem_cons hs]
  cases a with
  | nil => rfl
  | cons q a' => rfl

theorem goG_inv (D : Nat → Prop) (l : List (P GB)) (n : Nat) (hn : n + 1 = l.length) (hm : Mono (snds l))
    (hl : Chain RelX l) (hc : ∀ p ∈ l, Cov D p) :
    ∀ (es : List (Edit Nat)) (start : Nat) (acc : List (P GB)),
      EditsOk n start es →
      (∀ ed ∈ es, ed.w = [] → ∀ j, valAt l ed.s ≤ j → j < valAt l ed.e → D j) →
      Chain RelX (acc ++ l.drop start) → (∀ p ∈ acc, Cov D p) → (∀ j, j < hd2 (acc ++ l.drop start) → D j) →
      Chain RelX (goG l start es acc) ∧ (∀ p ∈ goG l start es acc, Cov D p) ∧
        (∀ j, j < hd2 (goG l start es acc) → D j) := by
  intro es
  induction es with
  | nil =>
    intro start acc _ _ h hacc hh
    simp only [goG]
    refine ⟨h, ?_, hh⟩
    intro p hp
    rcases List.mem_append.mp hp with h' | h'
    · exact hacc p h'
    · exact hc p (List.mem_of_mem_drop h')
  | cons ed es ih =>
    intro start acc hok hD h hacc hh
    obtain ⟨h1, h2, h3, h4⟩ := hok
    simp only [goG]
    have hs : ed.s < l.length := by omega
    have he : ed.e < l.length := by omega
    have hDed := hD ed (by simp)
    have hvs : valAt l ed.s = (l[ed.s]).2 := valAt_eq l _ hs
    have hve : valAt l ed.e = (l[ed.e]).2 := valAt_eq l _ he
    have hse : (l[ed.s]).2 ≤ (l[ed.e]).2 := by
      have := mono_valAt hm h2 he
      rwa [hvs, hve] at this
    have hc1 : ∀ q ∈ acc ++ slice l start ed.s, Cov D q := by
      intro q hq
      rcases List.mem_append.mp hq with h' | h'
      · exact hacc q h'
      · exact hc q (mem_slice_mem h')
    -- split the rest of the source at the edit
    rw [← slice_append_drop l h1, ← List.append_assoc] at h hh
    have hC : Chain RelX (l[ed.e] :: l.drop (ed.e + 1)) := by
      rw [← List.drop_eq_getElem_cons he]; exact chain_drop _ _ hl
    generalize hacc1 : acc ++ slice l start ed.s = acc1 at h hh hc1 ⊢
    have hsplit : acc1 ++ l.drop ed.s = (acc1 ++ [l[ed.s]]) ++ l.drop (ed.s + 1) := by
      rw [List.drop_eq_getElem_cons hs]; simp
    have hA : Chain RelX (acc1 ++ [l[ed.s]]) := by
      rw [hsplit] at h
      exact chain_prefix _ _ h
    have hhd : hd2 (acc1 ++ l.drop ed.s) = hd2 (acc1 ++ [l[ed.s]]) := hd2_append_drop acc1 l ed.s hs
    apply ih ed.e _ h4 (fun ed' h' => hD ed' (by simp [h']))
    · -- chain
      by_cases hd : isDel ed = true
      · rw [if_pos hd]
        rcases nil_or_concat acc1 with rfl | ⟨a, p, rfl⟩
        · rw [List.drop_eq_getElem_cons he]; exact hC
        · rw [attach_concat, List.drop_eq_getElem_cons he]
          have hap := (chain_pair a p l[ed.s]).mp (by simpa using hA)
          have h5 : Chain RelX ((a ++ [setAtt (valAt l ed.e) p]) ++ [l[ed.e]]) := by
            have := (chain_pair a (setAtt (valAt l ed.e) p) l[ed.e]).mpr
              ⟨chain_last_congr a p _ hap.1 (setAtt_snd _ p).symm, relX_setAtt _ p _ hve.symm⟩
            simpa using this
          exact chain_glue _ _ _ h5 hC
      · rw [if_neg hd]
        cases hwd : ed.w with
        | nil =>
          have hes : ed.e = ed.s := by
            have : ¬ (ed.w = [] ∧ ed.s < ed.e) := fun hx => hd ((isDel_iff ed).mpr hx)
            have : ¬ ed.s < ed.e := fun hx => this ⟨hwd, hx⟩
            omega
          have : repl l (tagE ed) = [] := repl_nil_of_w _ _ (by simp [tagE, hwd])
          rw [this, List.append_nil, hes]
          exact h
        | cons b bs =>
          have hr : repl l (tagE ed) = (some (b, noTag), valAt l ed.s) :: (bs.map (fun b => (b, noTag))).map (fun c => (some c, valAt l ed.e)) := by
            simp [repl, tagE, hwd]
          have hU := unorg_repl l ed
          rw [hr] at hU ⊢
          have h5 : Chain RelX (acc1 ++ [((some (b, noTag) : Option GB), valAt l ed.s)]) :=
            chain_last_congr acc1 _ _ hA (by simp [hvs])
          have h6 := chain_unorg _ l[ed.e] hU
          have h7 := chain_glue _ _ _ h5 h6
          rw [List.drop_eq_getElem_cons he]
          have h8 := chain_glue (acc1 ++ ((some (b, noTag) : Option GB), valAt l ed.s) :: (bs.map (fun b => (b, noTag))).map (fun c => (some c, valAt l ed.e)))
            l[ed.e] (l.drop (ed.e + 1)) (by simpa [List.append_assoc] using h7) hC
          simpa [List.append_assoc] using h8
    · -- coverage of the runs attached to what has been written
      by_cases hd : isDel ed = true
      · rw [if_pos hd]
        obtain ⟨hw, hlt⟩ := (isDel_iff ed).mp hd
        rcases nil_or_concat acc1 with rfl | ⟨a, p, rfl⟩
        · intro q hq; simp [attach] at hq
        · rw [attach_concat]
          have hap := (chain_pair a p l[ed.s]).mp (by simpa using hA)
          intro q hq
          rcases List.mem_append.mp hq with hq | hq
          · exact hc1 q (by simp [hq])
          · simp only [List.mem_singleton] at hq
            subst hq
            have hcp := hc1 p (by simp)
            obtain ⟨x, v⟩ := p
            cases x with
            | none => intro b t k d hb; cases hb
            | some bt =>
              obtain ⟨b0, t0⟩ := bt
              intro b t k d hb hk hatt
              simp only [setAtt, Option.some.injEq, Prod.mk.injEq] at hb
              obtain ⟨rfl, rfl⟩ := hb
              simp only [Option.some.injEq] at hatt
              subst hatt
              have hk0 : t0.org = some k := hk
              have hnext : (l[ed.s]).2 = endOf t0 k := hap.2 b0 t0 k rfl hk0
              have hend : k + 1 ≤ endOf t0 k ∧ ∀ j, k + 1 ≤ j → j < endOf t0 k → D j := by
                cases hat : t0.att with
                | none =>
                  have : endOf t0 k = k + 1 := by simp [endOf, hat]
                  rw [this]
                  exact ⟨Nat.le_refl _, fun j h1 h2 => by omega⟩
                | some d0 =>
                  have : endOf t0 k = d0 := by simp [endOf, hat]
                  rw [this]
                  exact hcp b0 t0 k d0 rfl hk0 hat
              refine ⟨by omega, ?_⟩
              intro j hj1 hj2
              by_cases hj : j < endOf t0 k
              · exact hend.2 j hj1 hj
              · exact hDed hw j (by omega) (by omega)
      · rw [if_neg hd]
        intro q hq
        rcases List.mem_append.mp hq with hq | hq
        · exact hc1 q hq
        · exact cov_of_unorg D q (unorg_repl l ed q hq)
    · -- everything before the head is deleted
      by_cases hd : isDel ed = true
      · rw [if_pos hd]
        obtain ⟨hw, hlt⟩ := (isDel_iff ed).mp hd
        rcases nil_or_concat acc1 with rfl | ⟨a, p, rfl⟩
        · intro j hj
          rw [List.drop_eq_getElem_cons he] at hj
          simp only [attach, List.nil_append, hd2] at hj
          by_cases hj' : j < (l[ed.s]).2
          · exact hh j (by rw [hhd]; simpa [hd2] using hj')
          · exact hDed hw j (by omega) (by omega)
        · rw [attach_concat]
          intro j hj
          apply hh j
          rw [hd2_concat_congr a (l.drop ed.s) (l.drop ed.e) p (setAtt (valAt l ed.e) p) (setAtt_snd _ p).symm]
          exact hj
      · rw [if_neg hd]
        intro j hj
        apply hh j
        rw [hhd]
        cases hwd : ed.w with
        | nil =>
          have hes : ed.e = ed.s := by
            have : ¬ (ed.w = [] ∧ ed.s < ed.e) := fun hx => hd ((isDel_iff ed).mpr hx)
            have : ¬ ed.s < ed.e := fun hx => this ⟨hwd, hx⟩
            omega
          have : repl l (tagE ed) = [] := repl_nil_of_w _ _ (by simp [tagE, hwd])
          rw [this, List.append_nil, hes, hhd] at hj
          exact hj
        | cons b bs =>
          have hr : repl l (tagE ed) = (some (b, noTag), valAt l ed.s) :: (bs.map (fun b => (b, noTag))).map (fun c => (some c, valAt l ed.e)) := by
            simp [repl, tagE, hwd]
          rw [hr] at hj
          cases acc1 with
          | nil => simpa [hd2, hvs] using hj
          | cons q a' => simpa [hd2] using hj

/-! ### the invariant of the ghost-tagged buffer -/

/-- what the ghost-tagged buffer satisfies between batches; `D` = "is in the image of a deleting edit" -/
structure InvG (o : List Nat) (D : Nat → Prop) (l : List (P GB)) : Prop where
  chain : Chain RelX l
  val : ∀ p ∈ l, ValOK o p
  cov : ∀ p ∈ l, Cov D p
  lead : ∀ p ∈ l, LeadCov D p

theorem force0G_inv (o : List Nat) (D : Nat → Prop) (R : List (P GB)) (hch : Chain RelX R) (hv : ∀ p ∈ R, ValOK o p)
    (hc : ∀ p ∈ R, Cov D p) (hl : ∀ p ∈ R, LeadCov D p) (hh : ∀ j, j < hd2 R → D j) : InvG o D (force0G R) := by
  cases R with
  | nil => exact ⟨trivial, fun p hp => (by cases hp), fun p hp => (by cases hp), fun p hp => (by cases hp)⟩
  | cons p r =>
    obtain ⟨x, v⟩ := p
    cases x with
    | none =>
      have hf : force0G (((none : Option GB), v) :: r) = (none, 0) :: r := rfl
      rw [hf]
      refine ⟨?_, ?_, ?_, ?_⟩
      · cases r with
        | nil => trivial
        | cons q r' => exact ⟨fun b t k hb => (by cases hb), hch.2⟩
      · intro q hq
        simp only [List.mem_cons] at hq
        rcases hq with rfl | hq
        · intro b t k hb; cases hb
        · exact hv q (by simp [hq])
      · intro q hq
        simp only [List.mem_cons] at hq
        rcases hq with rfl | hq
        · intro b t k d hb; cases hb
        · exact hc q (by simp [hq])
      · intro q hq
        simp only [List.mem_cons] at hq
        rcases hq with rfl | hq
        · intro b t k hb; cases hb
        · exact hl q (by simp [hq])
    | some bt =>
      obtain ⟨b0, t0⟩ := bt
      have hf : force0G ((some (b0, t0), v) :: r) = (some (b0, { t0 with lead := true }), 0) :: r := rfl
      have hmem : ((some (b0, t0), v) : P GB) ∈ (some (b0, t0), v) :: r := by simp
      rw [hf]
      refine ⟨?_, ?_, ?_, ?_⟩
      · cases r with
        | nil => trivial
        | cons q r' =>
          refine ⟨?_, hch.2⟩
          intro b t k hb hk
          cases hb
          exact hch.1 b0 t0 k rfl hk
      · intro q hq
        simp only [List.mem_cons] at hq
        rcases hq with rfl | hq
        · intro b t k hb hk
          cases hb
          exact ⟨(hv _ hmem b0 t0 k rfl hk).1, by simp [startOf]⟩
        · exact hv q (by simp [hq])
      · intro q hq
        simp only [List.mem_cons] at hq
        rcases hq with rfl | hq
        · intro b t k d hb hk hatt
          cases hb
          exact hc _ hmem b0 t0 k d rfl hk hatt
        · exact hc q (by simp [hq])
      · intro q hq
        simp only [List.mem_cons] at hq
        rcases hq with rfl | hq
        · intro b t k hb hk _ j hj
          cases hb
          have hk0 : t0.org = some k := hk
          have hval : v = startOf t0 k := (hv _ hmem b0 t0 k rfl hk0).2
          by_cases hl0 : t0.lead = true
          · exact hl _ hmem b0 t0 k rfl hk0 hl0 j hj
          · have : startOf t0 k = k := by simp [startOf, hl0]
            exact hh j (by simp only [hd2]; omega)
        · exact hl q (by simp [hq])

/-- one batch keeps the invariant; `hD`: the images of the deleting edits of the batch are in `D` -/
theorem resolveG_inv (o : List Nat) (D : Nat → Prop) (l : List (P GB)) (hi : InvG o D l) (n : Nat)
    (hn : n + 1 = l.length) (hm : Mono (snds l)) (h0 : valAt l 0 = 0) (es : List (Edit Nat)) (hok : EditsOk n 0 es)
    (hD : ∀ ed ∈ es, ed.w = [] → ∀ j, valAt l ed.s ≤ j → j < valAt l ed.e → D j) : InvG o D (resolveG l es) := by
  have hhd : hd2 l = 0 := by
    cases l with
    | nil => rfl
    | cons p r => simpa [valAt, hd2] using h0
  obtain ⟨g1, g2, g3⟩ := goG_inv D l n hn hm hi.chain hi.cov es 0 [] hok hD (by simpa using hi.chain)
    (by intro p hp; cases hp) (by intro j hj; simp [hhd] at hj)
  have g4 := goG_all (ValOK o) (valOK_setAtt o) l hi.val es 0 []
    (fun ed _ p hp => valOK_of_unorg o p (unorg_repl l ed p hp)) (by intro p hp; cases hp)
  have g5 := goG_all (LeadCov D) (leadCov_setAtt D) l hi.lead es 0 []
    (fun ed _ p hp => leadCov_of_unorg D p (unorg_repl l ed p hp)) (by intro p hp; cases hp)
  exact force0G_inv o D _ g1 g4 g2 g5 g3

/-! ### any number of batches -/

/-- `j` is an offset of the ORIGINAL text in the image `[m2o[s], m2o[e])` of an edit with an empty replacement of some batch
(the map is the one the batch is applied to) -/
def Deleted {β : Type} : List (P β) → List (List (Edit β)) → Nat → Prop
  | _, [], _ => False
  | l, es :: rest, j => (∃ ed ∈ es, ed.w = [] ∧ valAt l ed.s ≤ j ∧ j < valAt l ed.e) ∨ Deleted (resolve l es) rest j

theorem commitVG_cases (lv : LenV) (l : List (P GB)) (es : List (Edit Nat)) (l1 : List (P GB))
    (h : commitVG lv l es = some l1) : (es = [] ∧ l1 = l) ∨ l1 = resolveG l es := by
  unfold commitVG at h
  split at h
  · rename_i he
    left
    exact ⟨by simpa using he, by simpa using h.symm⟩
  · split at h
    · right; simpa using h.symm
    · cases h

theorem commitAllVG_inv (o : List Nat) (D : Nat → Prop) (lv : LenV) : ∀ (bs : List (List (Edit Nat))) (lg lg' : List (P GB)),
    1 ≤ lg.length → valAt lg 0 = 0 → Mono (snds lg) → RangesOk (mapP Prod.fst lg) bs →
    (∀ j, Deleted (mapP Prod.fst lg) bs j → D j) → InvG o D lg →
    commitAllVG lv lg bs = some lg' → InvG o D lg' := by
  intro bs
  induction bs with
  | nil => intro lg lg' _ _ _ _ _ hi h; simp [commitAllVG] at h; subst h; exact hi
  | cons es rest ih =>
    intro lg lg' h1 h0 hm hok hD hi h
    obtain ⟨a1, a2⟩ := hok
    simp only [commitAllVG] at h
    cases hcv : commitVG lv lg es with
    | none => simp [hcv] at h
    | some l1 =>
      simp only [hcv] at h
      have hne : mapP Prod.fst lg ≠ [] := by
        intro hnil
        have := mapP_length Prod.fst lg
        rw [hnil] at this; simp at this; omega
      have h0' : valAt (mapP Prod.fst lg) 0 = 0 := by rw [valAt_mapP]; exact h0
      rcases commitVG_cases lv lg es l1 hcv with ⟨rfl, rfl⟩ | rfl
      · -- the empty batch: `commit` leaves the buffer alone
        have hr : resolve (mapP Prod.fst l1) ([] : List (Edit Nat)) = mapP Prod.fst l1 := resolve_nil _ h0' hne
        rw [hr] at a2
        refine ih l1 lg' h1 h0 hm a2 ?_ hi h
        intro j hj
        apply hD j
        right
        rw [hr]; exact hj
      · have hlen : (mapP Prod.fst lg).length - 1 + 1 = lg.length := by rw [mapP_length]; omega
        have hn : (lg.length - 1) + 1 = lg.length := by omega
        have a1' : EditsOk (lg.length - 1) 0 es := by rw [mapP_length] at a1; exact a1
        have hmp : Mono (snds (mapP Prod.fst lg)) := by rw [snds_mapP]; exact hm
        have h1p : 1 ≤ (mapP Prod.fst lg).length := by rw [mapP_length]; exact h1
        have he := resolveG_erase lg es
        rw [← he] at a2
        refine ih (resolveG lg es) lg' ?_ ?_ ?_ a2 ?_ ?_ h
        · rw [← mapP_length Prod.fst, he]
          exact resolve_length_pos _ es a1 h1p
        · rw [← valAt_mapP Prod.fst, he]
          unfold resolve
          apply valAt_force0_zero
          intro hnil
          have := resolve_length_pos _ es a1 h1p
          unfold resolve at this
          rw [hnil] at this
          simp [force0] at this
        · rw [← snds_mapP Prod.fst, he]
          exact resolve_mono _ _ (by rw [mapP_length]; omega) hmp es a1'
        · intro j hj
          apply hD j
          right
          rw [← he]; exact hj
        · apply resolveG_inv o D lg hi _ hn hm h0 es a1'
          intro ed hed hw j hj1 hj2
          apply hD j
          left
          exact ⟨ed, hed, hw, by rw [valAt_mapP]; exact hj1, by rw [valAt_mapP]; exact hj2⟩

/-! ### the identity map -/

theorem chain_ghostIdentFrom (o : List Nat) : ∀ k, Chain RelX (ghostIdentFrom k o) ∧
    ∃ x r, ghostIdentFrom k o = (x, k) :: r := by
  induction o with
  | nil => intro k; exact ⟨trivial, _, _, rfl⟩
  | cons b bs ih =>
    intro k
    obtain ⟨h1, x, r, h2⟩ := ih (k + 1)
    refine ⟨?_, _, _, rfl⟩
    simp only [ghostIdentFrom]
    rw [h2] at h1 ⊢
    refine ⟨?_, h1⟩
    intro b' t' k' hb hk
    simp only [Option.some.injEq, Prod.mk.injEq] at hb
    obtain ⟨_, rfl⟩ := hb
    simp only [Option.some.injEq] at hk
    subst hk
    rfl

/-- entries of the ghost identity: byte `o[k]`, value `k`, tagged `k`, nothing attached, never a first entry of a result -/
theorem mem_ghostIdentFrom (o : List Nat) : ∀ (pre : List Nat) (b : Nat) (t : Tag) (v : Nat),
    ((some (b, t), v) : P GB) ∈ ghostIdentFrom pre.length o →
    t = ⟨some v, none, false⟩ ∧ ∃ h : v < (pre ++ o).length, b = (pre ++ o)[v] := by
  induction o with
  | nil => intro pre b t v h; simp [ghostIdentFrom] at h
  | cons x xs ih =>
    intro pre b t v h
    simp only [ghostIdentFrom, List.mem_cons] at h
    rcases h with h | h
    · simp only [Prod.mk.injEq, Option.some.injEq] at h
      obtain ⟨⟨rfl, rfl⟩, rfl⟩ := h
      exact ⟨rfl, by simp, by simp⟩
    · have := ih (pre ++ [x]) b t v (by simpa using h)
      simpa using this

theorem invG_ghostIdent (o : List Nat) (D : Nat → Prop) : InvG o D (ghostIdent o) := by
  have hmem : ∀ p ∈ ghostIdent o, ∀ b t, p.1 = some (b, t) →
      t = ⟨some p.2, none, false⟩ ∧ ∃ h : p.2 < o.length, b = o[p.2] := by
    intro p hp b t hb
    obtain ⟨x, v⟩ := p
    simp only [] at hb
    subst hb
    have := mem_ghostIdentFrom o [] b t v (by simpa [ghostIdent] using hp)
    simpa using this
  refine ⟨(chain_ghostIdentFrom o 0).1, ?_, ?_, ?_⟩
  · intro p hp b t k hb hk
    obtain ⟨rfl, h2⟩ := hmem p hp b t hb
    simp only [Option.some.injEq] at hk
    subst hk
    exact ⟨h2, rfl⟩
  · intro p hp b t k d hb _ hatt
    obtain ⟨rfl, _⟩ := hmem p hp b t hb
    cases hatt
  · intro p hp b t k hb _ hl
    obtain ⟨rfl, _⟩ := hmem p hp b t hb
    cases hl

/-- **the ghost-tagged run of an executed run**: it exists, erasing the ghost state gives the executed buffer, and it
satisfies `InvG` with `D` = "in the image of a deleting edit of one of the batches" -/
theorem ghost_run (o : List Nat) (bs : List (List (Edit Nat))) (lv : LenV) (l : List (P Nat))
    (hok : BatchesOk isStart (identFrom 0 o) bs) (h : commitAllV lv (identFrom 0 o) bs = some l) :
    ∃ lg : List (P GB), commitAllVG lv (ghostIdent o) bs = some lg ∧ mapP Prod.fst lg = l ∧
      InvG o (Deleted (identFrom 0 o) bs) lg := by
  have hmap := commitAllVG_erase lv bs (ghostIdent o)
  rw [ghostIdent_erase, h] at hmap
  cases hc : commitAllVG lv (ghostIdent o) bs with
  | none => rw [hc] at hmap; cases hmap
  | some lg =>
    rw [hc] at hmap
    have hl : mapP Prod.fst lg = l := by simpa using hmap
    refine ⟨lg, rfl, hl, ?_⟩
    have hlen : 1 ≤ (ghostIdent o).length := by
      unfold ghostIdent; cases o <;> simp [ghostIdentFrom]
    have h0 : valAt (ghostIdent o) 0 = 0 := by
      unfold ghostIdent; cases o <;> simp [ghostIdentFrom, valAt]
    have hm : Mono (snds (ghostIdent o)) := by
      rw [← snds_mapP Prod.fst, ghostIdent_erase]; exact (ident_mono_from o 0).1
    refine commitAllVG_inv o _ lv bs (ghostIdent o) lg hlen h0 hm ?_ ?_ (invG_ghostIdent o _) hc
    · rw [ghostIdent_erase]; exact rangesOk_of_batchesOk isStart bs _ hok
    · rw [ghostIdent_erase]; exact fun j hj => hj

/-! ### what the driver prints: the tags in order are the ghost states of the entries before the sentinel -/

theorem tagsOf_getElem : ∀ (body : List (P GB)) (s : P GB), (∀ p ∈ body, p.1.isSome = true) → s.1 = none → ∀ (i : Nat) (t : Tag),
    (tagsOf (body ++ [s]))[i]? = some t → ∃ (hi : i < body.length) (b : Nat), (body[i]).1 = some (b, t)
  | [], s, _, hs, i, t, h => by
    obtain ⟨x, v⟩ := s
    simp only [] at hs
    subst hs
    simp [tagsOf] at h
  | p :: r, s, hall, hs, i, t, h => by
    obtain ⟨x, v⟩ := p
    have hx := hall (x, v) (by simp)
    cases x with
    | none => simp at hx
    | some bt =>
      obtain ⟨b0, t0⟩ := bt
      have hcons : tagsOf (((some (b0, t0), v) : P GB) :: r ++ [s]) = t0 :: tagsOf (r ++ [s]) := by
        simp [tagsOf]
      rw [hcons] at h
      cases i with
      | zero =>
        simp only [List.getElem?_cons_zero, Option.some.injEq] at h
        subst h
        exact ⟨by simp, b0, rfl⟩
      | succ j =>
        simp only [List.getElem?_cons_succ] at h
        obtain ⟨hj, b, hb⟩ := tagsOf_getElem r s (fun q hq => hall q (by simp [hq])) hs j t h
        exact ⟨by simpa using hj, b, by simpa using hb⟩

/-- the ghost-tagged buffer has the shape of the buffer it erases to: entries with a byte, then one sentinel entry -/
theorem shape_of_erase (lg : List (P GB)) (N : Nat) (h : Shape N (mapP Prod.fst lg)) :
    ∃ body s, lg = body ++ [s] ∧ s.1 = none ∧ ∀ p ∈ body, p.1.isSome = true := by
  obtain ⟨bodyN, hb, hall⟩ := h
  rcases nil_or_concat lg with rfl | ⟨a, p, rfl⟩
  · simp [mapP] at hb
  · rw [mapP_append] at hb
    obtain ⟨h1, h2⟩ := List.append_inj' hb (by simp [mapP])
    refine ⟨a, p, rfl, ?_, ?_⟩
    · obtain ⟨x, v⟩ := p
      cases x with
      | none => rfl
      | some bt => simp [mapP] at h2
    · intro q hq
      have hm : (q.1.map Prod.fst, q.2) ∈ mapP Prod.fst a := by
        unfold mapP; exact List.mem_map.mpr ⟨q, hq, rfl⟩
      rw [h1] at hm
      have := hall _ hm
      obtain ⟨x, v⟩ := q
      cases x with
      | none => simp at this
      | some bt => rfl

end EditG
