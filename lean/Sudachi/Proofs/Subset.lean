import Sudachi.Model.Subset
/-!
# Proofs for the subset-loading model (C11)

A. byte-level codecs of the ten fields (`enc…`) with `dec ∘ enc` and `skip ∘ enc` lemmas;
B. the generic theorem about the `parse_field!` scheme (`parseGo_spec`);
C. the concrete record: `encode`, `WF`, `parse_spec`;
D. `get_word_info`, `normalize`, accessors.
-/
namespace Subset

/-! ## A. codecs -/

/-- the writer's length prefix (`dic/build/primitives.rs: write_len`): one byte below 127, else two
(high bit set on the first).  The reader (`string_length_parser`) switches at 128, so 127 is the one
length with two encodings the reader accepts: `[127]` and the writer's `[128, 127]`
(`stringLength_short_127`). -/
def encLen (n : Nat) : Bytes := if n < 127 then [n] else [128 + n / 256, n % 256]

theorem stringLength_encLen {n : Nat} (h : n < 32768) (rest : Bytes) :
    stringLength (encLen n ++ rest) = .ok (n, rest) := by
  unfold encLen
  by_cases h1 : n < 127
  · have h2 : ¬ n ≥ 128 := by omega
    simp [h1, stringLength, leU8, h2]
  · have hq : n / 256 < 128 := by omega
    have hr : n % 256 < 256 := by omega
    have h3 : 128 + n / 256 ≥ 128 := by omega
    have hand : (128 + n / 256) &&& 0x7F = n / 256 := by
      have := Nat.and_two_pow_sub_one_eq_mod (128 + n / 256) 7
      simp at this
      omega
    have hval : (((128 + n / 256) &&& 0x7F) <<< 8) ||| n % 256 = n := by
      rw [hand, ← Nat.shiftLeft_add_eq_or_of_lt (by simpa using hr), Nat.shiftLeft_eq]
      omega
    simp only [h1, if_false, List.cons_append, List.nil_append, stringLength, leU8, h3, if_true, hval]

def encU16 (v : Nat) : Bytes := [v % 256, v / 256]

theorem leU16_encU16 {v : Nat} (_h : v < 65536) (rest : Bytes) : leU16 (encU16 v ++ rest) = .ok (v, rest) := by
  simp only [encU16, List.cons_append, List.nil_append, leU16]
  congr 2
  omega

def encU32 (v : Nat) : Bytes := [v % 256, v / 256 % 256, v / 65536 % 256, v / 16777216]

theorem leU32_encU32 {v : Nat} (_h : v < 4294967296) (rest : Bytes) : leU32 (encU32 v ++ rest) = .ok (v, rest) := by
  simp only [encU32, List.cons_append, List.nil_append, leU32]
  congr 2
  omega

/-- two's complement of an `i32` -/
def encI32 (i : Int) : Bytes := encU32 (if i < 0 then (i + 4294967296).toNat else i.toNat)

theorem leI32_encI32 {i : Int} (h1 : -2147483648 ≤ i) (h2 : i < 2147483648) (rest : Bytes) :
    leI32 (encI32 i ++ rest) = .ok (i, rest) := by
  unfold leI32 encI32
  by_cases hn : i < 0
  · have hlt : (i + 4294967296).toNat < 4294967296 := by omega
    rw [if_pos hn, leU32_encU32 hlt]
    simp only [asI32]
    have : ¬ (i + 4294967296).toNat < 2147483648 := by omega
    rw [if_neg this]
    congr 2
    omega
  · have hlt : i.toNat < 4294967296 := by omega
    rw [if_neg hn, leU32_encU32 hlt]
    simp only [asI32]
    have : i.toNat < 2147483648 := by omega
    rw [if_pos this]
    congr 2
    omega

/-! ### UTF-16 strings -/

def Scalar (c : Nat) : Prop := c < 0xD800 ∨ (0xE000 ≤ c ∧ c < 0x110000)

/-- `str::encode_utf16` -/
def toUtf16 : List Nat → List Nat
  | [] => []
  | c :: r =>
    if c < 0x10000 then c :: toUtf16 r
    else (0xD800 + (c - 0x10000) / 1024) :: (0xDC00 + (c - 0x10000) % 1024) :: toUtf16 r

def encUnits : List Nat → Bytes
  | [] => []
  | u :: r => u % 256 :: u / 256 :: encUnits r

def encStr (s : List Nat) : Bytes := encLen (toUtf16 s).length ++ encUnits (toUtf16 s)

/-- what the dictionary format can hold: scalar values, at most 32767 UTF-16 units -/
def StrOk (s : List Nat) : Prop := (∀ c ∈ s, Scalar c) ∧ (toUtf16 s).length < 32768

theorem length_encUnits (us : List Nat) : (encUnits us).length = us.length * 2 := by
  induction us with
  | nil => rfl
  | cons u r ih => simp [encUnits, ih]; omega

theorem codeUnits_encUnits (us : List Nat) (h : ∀ u ∈ us, u < 65536) : codeUnits (encUnits us) = some us := by
  induction us with
  | nil => rfl
  | cons u r ih =>
    have hu : u < 65536 := h u (by simp)
    simp only [encUnits, codeUnits, ih (fun x hx => h x (by simp [hx])), Option.map_some]
    congr 2
    omega

theorem toUtf16_cons_bmp {c : Nat} (r : List Nat) (h : c < 65536) : toUtf16 (c :: r) = c :: toUtf16 r := by
  rw [toUtf16]; simp [h]

theorem toUtf16_cons_astral {c : Nat} (r : List Nat) (h : ¬ c < 65536) :
    toUtf16 (c :: r) = (55296 + (c - 65536) / 1024) :: (56320 + (c - 65536) % 1024) :: toUtf16 r := by
  rw [toUtf16]; simp [h]

theorem decodeUtf16_bmp {u : Nat} (r : List Nat) (h : u < 55296 ∨ 57344 ≤ u) :
    decodeUtf16 (u :: r) = (decodeUtf16 r).map (u :: ·) := by
  rw [decodeUtf16.eq_def]; simp [h]

theorem decodeUtf16_pair {u u2 : Nat} (r : List Nat) (h1 : 55296 ≤ u) (h2 : u < 56320) (h3 : 56320 ≤ u2) (h4 : u2 ≤ 57343) :
    decodeUtf16 (u :: u2 :: r) = (decodeUtf16 r).map (((u % 1024) * 1024 + u2 % 1024 + 65536) :: ·) := by
  have a1 : ¬ (u < 55296 ∨ 57344 ≤ u) := by omega
  have a2 : ¬ (u ≥ 56320) := by omega
  have a3 : ¬ (u2 < 56320 ∨ u2 > 57343) := by omega
  rw [decodeUtf16.eq_def]; simp [a1, a2, a3]

theorem toUtf16_lt (s : List Nat) (h : ∀ c ∈ s, Scalar c) : ∀ u ∈ toUtf16 s, u < 65536 := by
  induction s with
  | nil => simp [toUtf16]
  | cons c r ih =>
    have hc : Scalar c := h c (by simp)
    have ih' := ih (fun x hx => h x (by simp [hx]))
    unfold Scalar at hc
    by_cases h1 : c < 65536
    · rw [toUtf16_cons_bmp r h1]
      intro u hu
      rcases List.mem_cons.mp hu with hu | hu
      · omega
      · exact ih' u hu
    · rw [toUtf16_cons_astral r h1]
      intro u hu
      rcases List.mem_cons.mp hu with hu | hu
      · omega
      · rcases List.mem_cons.mp hu with hu | hu
        · omega
        · exact ih' u hu

theorem decodeUtf16_toUtf16 (s : List Nat) (h : ∀ c ∈ s, Scalar c) : decodeUtf16 (toUtf16 s) = some s := by
  induction s with
  | nil => rfl
  | cons c r ih =>
    have hc : Scalar c := h c (by simp)
    have ih' := ih (fun x hx => h x (by simp [hx]))
    unfold Scalar at hc
    by_cases h1 : c < 65536
    · rw [toUtf16_cons_bmp r h1, decodeUtf16_bmp _ (by omega), ih']
      rfl
    · rw [toUtf16_cons_astral r h1, decodeUtf16_pair _ (by omega) (by omega) (by omega) (by omega), ih']
      simp only [Option.map_some]
      congr 2
      omega

theorem toUtf16_eq_nil {s : List Nat} (h : toUtf16 s = []) : s = [] := by
  cases s with
  | nil => rfl
  | cons c r =>
    by_cases h1 : c < 65536
    · rw [toUtf16_cons_bmp r h1] at h; simp at h
    · rw [toUtf16_cons_astral r h1] at h; simp at h

theorem utf16Data_encStr {s : List Nat} (h : StrOk s) (rest : Bytes) :
    utf16Data (encStr s ++ rest) = .ok (encUnits (toUtf16 s), rest) := by
  unfold utf16Data encStr
  rw [List.append_assoc, stringLength_encLen h.2]
  by_cases h0 : (toUtf16 s).length = 0
  · have : toUtf16 s = [] := List.length_eq_zero_iff.mp h0
    simp [this, encUnits]
  · have hl : (encUnits (toUtf16 s)).length = (toUtf16 s).length * 2 := length_encUnits _
    have hnot : ¬ (encUnits (toUtf16 s) ++ rest).length < (toUtf16 s).length * 2 := by
      simp [hl]
    simp only [h0, if_false, hnot]
    rw [← hl, List.take_left', List.drop_left'] <;> rfl

theorem utf16String_encStr {s : List Nat} (h : StrOk s) (rest : Bytes) :
    utf16String (encStr s ++ rest) = .ok (s, rest) := by
  unfold utf16String
  rw [utf16Data_encStr h]
  by_cases h0 : toUtf16 s = []
  · have : s = [] := toUtf16_eq_nil h0
    subst this
    simp [toUtf16, encUnits]
  · have hne : (encUnits (toUtf16 s)).isEmpty = false := by
      cases hu : toUtf16 s with
      | nil => exact absurd hu h0
      | cons u r => simp [encUnits]
    simp only [hne, Bool.false_eq_true, if_false, codeUnits_encUnits _ (toUtf16_lt s h.1), decodeUtf16_toUtf16 s h.1]

theorem skipU16String_encStr {s : List Nat} (h : StrOk s) (rest : Bytes) :
    skipU16String (encStr s ++ rest) = .ok rest := by
  unfold skipU16String
  rw [utf16Data_encStr h]

/-! ### `u32` arrays -/

def encBody : List Nat → Bytes
  | [] => []
  | v :: r => encU32 v ++ encBody r

def encArr (a : List Nat) : Bytes := a.length :: encBody a

def ArrOk (a : List Nat) : Prop := a.length < 256 ∧ ∀ v ∈ a, v < 4294967296

theorem length_encBody (a : List Nat) : (encBody a).length = a.length * 4 := by
  induction a with
  | nil => rfl
  | cons v r ih => simp [encBody, encU32, ih]; omega

theorem countU32_encBody (a : List Nat) (h : ∀ v ∈ a, v < 4294967296) (rest : Bytes) :
    countU32 a.length (encBody a ++ rest) = .ok (a, rest) := by
  induction a with
  | nil => rfl
  | cons v r ih =>
    simp only [List.length_cons, countU32, encBody, List.append_assoc,
      leU32_encU32 (h v (by simp)), ih (fun x hx => h x (by simp [hx]))]

theorem u32Array_encArr {a : List Nat} (h : ArrOk a) (rest : Bytes) : u32Array (encArr a ++ rest) = .ok (a, rest) := by
  simp only [u32Array, encArr, List.cons_append, leU8, countU32_encBody a h.2]

theorem skipArray_encArr {a : List Nat} (_h : ArrOk a) (rest : Bytes) : skipArray (encArr a ++ rest) = .ok rest := by
  have hl := length_encBody a
  have hnot : ¬ (encBody a ++ rest).length < a.length * 4 := by simp [hl]
  simp only [skipArray, encArr, List.cons_append, leU8, hnot, if_false]
  rw [← hl, List.drop_left']
  rfl

/-! ### skipping = parsing and dropping the value, on EVERY input -/

/-- the one-byte form of a length below 128 is read back as it is (127 included, which the writer never
emits in this form) -/
theorem stringLength_short {n : Nat} (h : n < 128) (rest : Bytes) : stringLength (n :: rest) = .ok (n, rest) := by
  have h2 : ¬ n ≥ 128 := by omega
  simp [stringLength, leU8, h2]

theorem utf16String_ok_skip {bs : Bytes} {s : List Nat} {r : Bytes} (h : utf16String bs = .ok (s, r)) :
    skipU16String bs = .ok r := by
  unfold utf16String at h
  unfold skipU16String
  cases hd : utf16Data bs with
  | err => rw [hd] at h; cases h
  | panic => rw [hd] at h; cases h
  | ok p =>
    obtain ⟨data, rest⟩ := p
    rw [hd] at h
    simp only [] at h ⊢
    by_cases he : data.isEmpty = true
    · simp only [he, if_true] at h
      cases h; rfl
    · simp only [he] at h
      cases hc : codeUnits data with
      | none => rw [hc] at h; cases h
      | some us =>
        rw [hc] at h
        simp only [] at h
        cases hu : decodeUtf16 us with
        | none => rw [hu] at h; cases h
        | some s' => rw [hu] at h; cases h; rfl

theorem countU32_ok : ∀ (n : Nat) (bs : Bytes) (vs : List Nat) (r : Bytes), countU32 n bs = .ok (vs, r) →
    ¬ bs.length < n * 4 ∧ r = bs.drop (n * 4) := by
  intro n
  induction n with
  | zero => intro bs vs r h; simp [countU32] at h; simp [h.2]
  | succ n ih =>
    intro bs vs r h
    unfold countU32 at h
    match bs, h with
    | b0 :: b1 :: b2 :: b3 :: rest, h =>
      simp only [leU32] at h
      cases hc : countU32 n rest with
      | err => rw [hc] at h; cases h
      | panic => rw [hc] at h; cases h
      | ok p =>
        obtain ⟨vs', r'⟩ := p
        rw [hc] at h
        simp only [Res.ok.injEq, Prod.mk.injEq] at h
        obtain ⟨hl, hr⟩ := ih rest vs' r' hc
        refine ⟨by simp only [List.length_cons]; omega, ?_⟩
        rw [← h.2, hr]
        have : (n + 1) * 4 = n * 4 + 4 := by omega
        rw [this]
        simp [List.drop_succ_cons]
    | [], h => simp [leU32] at h
    | [_], h => simp [leU32] at h
    | [_, _], h => simp [leU32] at h
    | [_, _, _], h => simp [leU32] at h

theorem u32Array_ok_skip {bs : Bytes} {a : List Nat} {r : Bytes} (h : u32Array bs = .ok (a, r)) :
    skipArray bs = .ok r := by
  unfold u32Array at h
  unfold skipArray
  cases bs with
  | nil => simp [leU8] at h
  | cons len rest =>
    simp only [leU8] at h ⊢
    obtain ⟨hl, hr⟩ := countU32_ok len rest a r h
    simp only [hl, if_false, hr]

theorem assign_ok {α : Type} {p : Bytes → Res (α × Bytes)} {set : WordInfoData → α → WordInfoData} {bs : Bytes}
    {upd : WordInfoData → WordInfoData} {next : Bytes} (h : assign p set bs = .ok (upd, next)) :
    ∃ v, p bs = .ok (v, next) := by
  unfold assign at h
  cases hp : p bs with
  | err => rw [hp] at h; cases h
  | panic => rw [hp] at h; cases h
  | ok q =>
    obtain ⟨v, n⟩ := q
    rw [hp] at h
    simp only [Res.ok.injEq, Prod.mk.injEq] at h
    exact ⟨v, by rw [h.2]⟩

theorem forget_of_ok {α : Type} {p : Bytes → Res (α × Bytes)} {bs : Bytes} {v : α} {next : Bytes}
    (h : p bs = .ok (v, next)) : forget p bs = .ok next := by
  unfold forget; rw [h]

theorem toUtf16_replicate (n : Nat) : toUtf16 (List.replicate n 97) = List.replicate n 97 := by
  induction n with
  | zero => rfl
  | succ n ih => rw [List.replicate_succ, toUtf16_cons_bmp _ (by omega), ih]

/-- `a` repeated `n` times is a representable string for every length the format allows -/
theorem strOk_replicate (n : Nat) (h : n < 32768) : StrOk (List.replicate n 97) := by
  refine ⟨?_, by rw [toUtf16_replicate]; simpa using h⟩
  intro c hc
  have := List.eq_of_mem_replicate hc
  subst this
  left; omega

theorem arrOk_replicate (n : Nat) (h : n < 256) : ArrOk (List.replicate n 7) := by
  refine ⟨by simpa using h, ?_⟩
  intro v hv
  have := List.eq_of_mem_replicate hv
  subst this
  omega

theorem length_encStr (s : List Nat) :
    (encStr s).length = (if (toUtf16 s).length < 127 then 1 else 2) + 2 * (toUtf16 s).length := by
  unfold encStr encLen
  rw [List.length_append, length_encUnits]
  split <;> simp <;> omega

theorem length_encArr (a : List Nat) : (encArr a).length = 1 + 4 * a.length := by
  unfold encArr
  rw [List.length_cons, length_encBody]
  omega

/-! ## B. the `parse_field!` scheme, generically -/

/-- the value of one field of the record -/
inductive Val where
  | str (s : List Nat)
  | num (n : Nat)
  | int (i : Int)
  | none
deriving DecidableEq, Repr

/-- field number `j` of `WordInfoData` (the number is the flag's bit) -/
def proj (j : Nat) (w : WordInfoData) : Val :=
  if j = 0 then .str w.surface
  else if j = 1 then .num w.headWordLength
  else if j = 2 then .num w.posId
  else if j = 3 then .str w.normalizedForm
  else if j = 4 then .int w.dictionaryFormWordId
  else if j = 5 then .str w.readingForm
  else if j = 6 then .str w.aUnitSplit
  else if j = 7 then .str w.bUnitSplit
  else if j = 8 then .str w.wordStructure
  else if j = 9 then .str w.synonymGroupIds
  else if j = 10 then .str w.dictionaryForm
  else .none

/-- the bytes `enc` are a correct encoding of field `f` of the word `w`: parsing yields the value
and touches no other field, skipping lands at the same place -/
structure FieldOk (w : WordInfoData) (f : Field) (enc : Bytes) : Prop where
  dec_enc : ∀ rest, ∃ upd, f.tfn (enc ++ rest) = .ok (upd, rest) ∧
    (∀ i, proj f.bit (upd i) = proj f.bit w) ∧ (∀ i j, j ≠ f.bit → proj j (upd i) = proj j i)
  skip_enc : ∀ rest, f.ffn (enc ++ rest) = .ok rest

def encAll (fe : List (Field × Bytes)) : Bytes := fe.foldr (fun p acc => p.2 ++ acc) []

theorem encAll_cons (p : Field × Bytes) (fs : List (Field × Bytes)) : encAll (p :: fs) = p.2 ++ encAll fs := rfl

theorem testBit_remove (s i j : Nat) : (remove s i).testBit j = (s.testBit j && !decide (i = j)) := by
  simp only [remove, Nat.testBit_xor, Nat.testBit_and, Nat.testBit_two_pow]
  cases s.testBit j <;> cases decide (i = j) <;> rfl

theorem testBit_insert (s i j : Nat) : (insert s i).testBit j = (s.testBit j || decide (i = j)) := by
  simp only [insert, Nat.testBit_or, Nat.testBit_two_pow]

theorem ne_zero_of_testBit {s j : Nat} (h : s.testBit j = true) : s ≠ 0 := by
  intro h0; subst h0; simp at h

/-- Invariant of the macro sequence: on the concatenated encodings (followed by anything) the
parser succeeds whatever the request; every requested field holds the word's value; a light
field holds it as soon as it or any later field is requested; other fields are untouched. -/
theorem parseGo_spec (w : WordInfoData) (rest : Bytes) :
    ∀ (fe : List (Field × Bytes)) (flds : Nat) (info : WordInfoData),
      (∀ p ∈ fe, FieldOk w p.1 p.2) → (fe.map (·.1.bit)).Pairwise (· ≠ ·) →
      ∃ info', parseGo (fe.map (·.1)) flds (encAll fe ++ rest) info = .ok info' ∧
        (∀ p ∈ fe, flds.testBit p.1.bit = true → proj p.1.bit info' = proj p.1.bit w) ∧
        (∀ pre p post, fe = pre ++ p :: post → p.1.heavy = false →
            (∃ c, flds.testBit c = true ∧ ∀ q ∈ pre, q.1.bit ≠ c) → proj p.1.bit info' = proj p.1.bit w) ∧
        (∀ j, (∀ p ∈ fe, p.1.bit ≠ j) → proj j info' = proj j info) := by
  intro fe
  induction fe with
  | nil =>
    intro flds info _ _
    refine ⟨info, rfl, by simp, ?_, fun _ _ => rfl⟩
    intro pre p post h; simp at h
  | cons fp fs ih =>
    intro flds info hok hd
    obtain ⟨f, enc⟩ := fp
    have hokf : FieldOk w f enc := hok (f, enc) (by simp)
    have hok' : ∀ p ∈ fs, FieldOk w p.1 p.2 := fun p hp => hok p (by simp [hp])
    have hd' : (fs.map (·.1.bit)).Pairwise (· ≠ ·) := by
      simp only [List.map, List.pairwise_cons] at hd; exact hd.2
    have hne : ∀ g ∈ fs, f.bit ≠ g.1.bit := by
      simp only [List.map, List.pairwise_cons] at hd
      intro g hg; exact hd.1 g.1.bit (List.mem_map.mpr ⟨g, hg, rfl⟩)
    simp only [List.map, parseGo, encAll_cons, List.append_assoc]
    by_cases hemp : flds = 0
    · -- early return: nothing is requested any more
      subst hemp
      simp only [if_true]
      refine ⟨info, rfl, ?_, ?_, fun _ _ => rfl⟩
      · intro g _ hg; simp at hg
      · intro pre p post _ _ hq
        obtain ⟨c, hq, _⟩ := hq; simp at hq
    · simp only [hemp, if_false]
      obtain ⟨upd, hdec, hown, hframe⟩ := hokf.dec_enc (encAll fs ++ rest)
      -- the "parse" arm, shared by light fields and requested heavy fields
      have parseBranch :
          ∃ info', parseGo (fs.map (·.1)) (remove flds f.bit) (encAll fs ++ rest) (upd info) = .ok info' ∧
            (∀ p ∈ (f, enc) :: fs, flds.testBit p.1.bit = true → proj p.1.bit info' = proj p.1.bit w) ∧
            (∀ pre p post, (f, enc) :: fs = pre ++ p :: post → p.1.heavy = false →
              (∃ c, flds.testBit c = true ∧ ∀ q ∈ pre, q.1.bit ≠ c) → proj p.1.bit info' = proj p.1.bit w) ∧
            (∀ j, (∀ p ∈ (f, enc) :: fs, p.1.bit ≠ j) → proj j info' = proj j info) := by
        obtain ⟨info', h1, h2, h3, h4⟩ := ih (remove flds f.bit) (upd info) hok' hd'
        have hfown : proj f.bit info' = proj f.bit w := by
          rw [h4 f.bit (fun g hg => (hne g hg).symm)]; exact hown info
        refine ⟨info', h1, ?_, ?_, ?_⟩
        · intro g hg hgm
          rcases List.mem_cons.mp hg with rfl | hg
          · exact hfown
          · apply h2 g hg
            rw [testBit_remove, hgm]
            simp [hne g hg]
        · intro pre p post hsplit hl hq
          cases pre with
          | nil =>
            simp only [List.nil_append, List.cons.injEq] at hsplit
            obtain ⟨rfl, _⟩ := hsplit
            exact hfown
          | cons a pre' =>
            simp only [List.cons_append, List.cons.injEq] at hsplit
            obtain ⟨ha, hfs⟩ := hsplit
            apply h3 pre' p post hfs hl
            obtain ⟨c, hcb, hcpre⟩ := hq
            refine ⟨c, ?_, fun q hq => hcpre q (by simp [hq])⟩
            have hfc : f.bit ≠ c := by
              have := hcpre a (by simp)
              rw [← ha] at this; exact this
            rw [testBit_remove, hcb]
            simp [hfc]
        · intro j hj
          rw [h4 j (fun g hg => hj g (by simp [hg]))]
          exact hframe info j (fun h => hj (f, enc) (by simp) h.symm)
      by_cases hh : f.heavy = true
      · simp only [hh, if_true]
        by_cases hc : flds.testBit f.bit = true
        · simp only [hc, if_true, hdec]
          exact parseBranch
        · simp only [hc, Bool.false_eq_true, if_false, hokf.skip_enc]
          obtain ⟨info', h1, h2, h3, h4⟩ := ih flds info hok' hd'
          refine ⟨info', h1, ?_, ?_, fun j hj => h4 j (fun g hg => hj g (by simp [hg]))⟩
          · intro g hg hgm
            rcases List.mem_cons.mp hg with rfl | hg
            · exact absurd hgm hc
            · exact h2 g hg hgm
          · intro pre p post hsplit hl hq
            cases pre with
            | nil =>
              simp only [List.nil_append, List.cons.injEq] at hsplit
              obtain ⟨rfl, _⟩ := hsplit
              simp [hh] at hl
            | cons a pre' =>
              simp only [List.cons_append, List.cons.injEq] at hsplit
              obtain ⟨c, hcb, hcpre⟩ := hq
              exact h3 pre' p post hsplit.2 hl ⟨c, hcb, fun q hq => hcpre q (by simp [hq])⟩
      · simp only [hh, Bool.false_eq_true, if_false, hdec]
        exact parseBranch

theorem eq_zero_of_testBit_false {s : Nat} (h : ∀ c, s.testBit c = false) : s = 0 :=
  Nat.eq_of_testBit_eq (by intro i; simp [h i])

/-- **Unloaded fields keep what they held.**  Frame of the macro sequence, for any outcome `info'`
of the parse: a heavy field that is not requested is skipped; a light field that is reached when
every bit still set in the request belongs to an earlier field is not reached at all (the macro has
returned); a field that is not in the sequence is never written. -/
theorem parseGo_unloaded (w : WordInfoData) (rest : Bytes) :
    ∀ (fe : List (Field × Bytes)) (flds : Nat) (info info' : WordInfoData),
      (∀ p ∈ fe, FieldOk w p.1 p.2) → (fe.map (·.1.bit)).Pairwise (· ≠ ·) →
      parseGo (fe.map (·.1)) flds (encAll fe ++ rest) info = .ok info' →
      (∀ p ∈ fe, p.1.heavy = true → flds.testBit p.1.bit = false → proj p.1.bit info' = proj p.1.bit info) ∧
      (∀ pre p post, fe = pre ++ p :: post → p.1.heavy = false →
          (∀ c, flds.testBit c = true → ∃ q ∈ pre, q.1.bit = c) → proj p.1.bit info' = proj p.1.bit info) ∧
      (∀ j, (∀ p ∈ fe, p.1.bit ≠ j) → proj j info' = proj j info) := by
  intro fe
  induction fe with
  | nil =>
    intro flds info info' _ _ h
    simp only [List.map, parseGo] at h
    cases h
    exact ⟨fun _ _ _ _ => rfl, fun _ _ _ _ _ _ => rfl, fun _ _ => rfl⟩
  | cons fp fs ih =>
    intro flds info info' hok hd h
    obtain ⟨f, enc⟩ := fp
    have hokf : FieldOk w f enc := hok (f, enc) (by simp)
    have hok' : ∀ p ∈ fs, FieldOk w p.1 p.2 := fun p hp => hok p (by simp [hp])
    have hd' : (fs.map (·.1.bit)).Pairwise (· ≠ ·) := by
      simp only [List.map, List.pairwise_cons] at hd; exact hd.2
    have hne : ∀ g ∈ fs, f.bit ≠ g.1.bit := by
      simp only [List.map, List.pairwise_cons] at hd
      intro g hg; exact hd.1 g.1.bit (List.mem_map.mpr ⟨g, hg, rfl⟩)
    simp only [List.map, parseGo, encAll_cons, List.append_assoc] at h
    by_cases hemp : flds = 0
    · subst hemp
      simp only [if_true] at h
      cases h
      exact ⟨fun _ _ _ _ => rfl, fun _ _ _ _ _ _ => rfl, fun _ _ => rfl⟩
    · simp only [hemp, if_false] at h
      obtain ⟨upd, hdec, hown, hframe⟩ := hokf.dec_enc (encAll fs ++ rest)
      have parseBranch : (f.heavy = true → flds.testBit f.bit = true) →
          parseGo (fs.map (·.1)) (remove flds f.bit) (encAll fs ++ rest) (upd info) = .ok info' →
          (∀ p ∈ (f, enc) :: fs, p.1.heavy = true → flds.testBit p.1.bit = false → proj p.1.bit info' = proj p.1.bit info) ∧
          (∀ pre p post, (f, enc) :: fs = pre ++ p :: post → p.1.heavy = false →
              (∀ c, flds.testBit c = true → ∃ q ∈ pre, q.1.bit = c) → proj p.1.bit info' = proj p.1.bit info) ∧
          (∀ j, (∀ p ∈ (f, enc) :: fs, p.1.bit ≠ j) → proj j info' = proj j info) := by
        intro harm h
        obtain ⟨h1, h2, h3⟩ := ih (remove flds f.bit) (upd info) info' hok' hd' h
        refine ⟨?_, ?_, ?_⟩
        · intro g hg hheavy hgm
          rcases List.mem_cons.mp hg with rfl | hg
          · rw [harm hheavy] at hgm; cases hgm
          · rw [h1 g hg hheavy (by rw [testBit_remove, hgm]; rfl)]
            exact hframe info g.1.bit (fun e => hne g hg e.symm)
        · intro pre p post hsplit hl hall
          cases pre with
          | nil =>
            exfalso; apply hemp; apply eq_zero_of_testBit_false; intro c
            cases hc : flds.testBit c with
            | false => rfl
            | true => obtain ⟨q, hq, _⟩ := hall c hc; simp at hq
          | cons a pre' =>
            simp only [List.cons_append, List.cons.injEq] at hsplit
            obtain ⟨ha, hfs⟩ := hsplit
            have hp : p ∈ fs := by rw [hfs]; simp
            have key := h2 pre' p post hfs hl (by
              intro c hc
              rw [testBit_remove] at hc
              simp only [Bool.and_eq_true, Bool.not_eq_true', decide_eq_false_iff_not] at hc
              obtain ⟨q, hq, hqc⟩ := hall c hc.1
              rcases List.mem_cons.mp hq with rfl | hq
              · exfalso; rw [← ha] at hqc; exact hc.2 hqc
              · exact ⟨q, hq, hqc⟩)
            rw [key]
            exact hframe info p.1.bit (fun e => hne p hp e.symm)
        · intro j hj
          rw [h3 j (fun g hg => hj g (by simp [hg]))]
          exact hframe info j (fun e => hj (f, enc) (by simp) e.symm)
      by_cases hh : f.heavy = true
      · simp only [hh, if_true] at h
        by_cases hc : flds.testBit f.bit = true
        · simp only [hc, if_true, hdec] at h
          exact parseBranch (fun _ => hc) h
        · simp only [hc, Bool.false_eq_true, if_false, hokf.skip_enc] at h
          obtain ⟨h1, h2, h3⟩ := ih flds info info' hok' hd' h
          refine ⟨?_, ?_, fun j hj => h3 j (fun g hg => hj g (by simp [hg]))⟩
          · intro g hg hheavy hgm
            rcases List.mem_cons.mp hg with rfl | hg
            · exact h3 _ (fun q hq => (hne q hq).symm)
            · exact h1 g hg hheavy hgm
          · intro pre p post hsplit hl hall
            cases pre with
            | nil =>
              simp only [List.nil_append, List.cons.injEq] at hsplit
              obtain ⟨rfl, _⟩ := hsplit
              simp [hh] at hl
            | cons a pre' =>
              simp only [List.cons_append, List.cons.injEq] at hsplit
              obtain ⟨ha, hfs⟩ := hsplit
              apply h2 pre' p post hfs hl
              intro c hcc
              obtain ⟨q, hq, hqc⟩ := hall c hcc
              rcases List.mem_cons.mp hq with rfl | hq
              · exfalso; rw [← ha] at hqc; simp only at hqc; rw [hqc] at hc; exact hc hcc
              · exact ⟨q, hq, hqc⟩
      · simp only [hh, Bool.false_eq_true, if_false, hdec] at h
        exact parseBranch (fun e => absurd e hh) h

/-! ## C. the concrete record -/

/-- what the binary format can represent -/
structure WF (w : WordInfoData) : Prop where
  surface : StrOk w.surface
  headWordLength : w.headWordLength < 32768
  posId : w.posId < 65536
  normalizedForm : StrOk w.normalizedForm
  dfLo : -2147483648 ≤ w.dictionaryFormWordId
  dfHi : w.dictionaryFormWordId < 2147483648
  readingForm : StrOk w.readingForm
  a : ArrOk w.aUnitSplit
  b : ArrOk w.bUnitSplit
  ws : ArrOk w.wordStructure
  syn : ArrOk w.synonymGroupIds

/-- the record the writer emits (`RawLexiconEntry::write_word_info`), field by field -/
def encode (w : WordInfoData) : List (Field × Bytes) :=
  [(fSurface, encStr w.surface), (fHeadWordLength, encLen w.headWordLength), (fPosId, encU16 w.posId),
   (fNormalizedForm, encStr w.normalizedForm), (fDicFormWordId, encI32 w.dictionaryFormWordId),
   (fReadingForm, encStr w.readingForm), (fSplitA, encArr w.aUnitSplit), (fSplitB, encArr w.bUnitSplit),
   (fWordStructure, encArr w.wordStructure), (fSynonymGroupIds, encArr w.synonymGroupIds)]

def encodeBytes (w : WordInfoData) : Bytes := encAll (encode w)

theorem fieldOk_heavy {α : Type} (w : WordInfoData) (bit : Nat) (p : Bytes → Res (α × Bytes)) (sk : Bytes → Res Bytes)
    (set : WordInfoData → α → WordInfoData) (enc : Bytes) (v : α)
    (hp : ∀ rest, p (enc ++ rest) = .ok (v, rest)) (hs : ∀ rest, sk (enc ++ rest) = .ok rest)
    (hown : ∀ i, proj bit (set i v) = proj bit w) (hframe : ∀ i j, j ≠ bit → proj j (set i v) = proj j i) :
    FieldOk w ⟨bit, true, assign p set, sk⟩ enc :=
  ⟨fun rest => ⟨fun i => set i v, by simp [assign, hp], hown, hframe⟩, hs⟩

theorem fieldOk_light {α : Type} (w : WordInfoData) (bit : Nat) (p : Bytes → Res (α × Bytes))
    (set : WordInfoData → α → WordInfoData) (enc : Bytes) (v : α)
    (hp : ∀ rest, p (enc ++ rest) = .ok (v, rest))
    (hown : ∀ i, proj bit (set i v) = proj bit w) (hframe : ∀ i j, j ≠ bit → proj j (set i v) = proj j i) :
    FieldOk w ⟨bit, false, assign p set, forget p⟩ enc :=
  ⟨fun rest => ⟨fun i => set i v, by simp [assign, hp], hown, hframe⟩, fun rest => by simp [forget, hp]⟩

theorem encode_ok (w : WordInfoData) (h : WF w) : ∀ p ∈ encode w, FieldOk w p.1 p.2 := by
  intro p hp
  simp only [encode, List.mem_cons, List.not_mem_nil, or_false] at hp
  rcases hp with rfl | rfl | rfl | rfl | rfl | rfl | rfl | rfl | rfl | rfl
  · exact fieldOk_heavy w SURFACE utf16String skipU16String _ _ w.surface
      (utf16String_encStr h.surface) (skipU16String_encStr h.surface)
      (by intro i; simp [proj, SURFACE]) (by intro i j hj; simp only [SURFACE] at hj; simp [proj, hj])
  · exact fieldOk_light w HEAD_WORD_LENGTH stringLength _ _ w.headWordLength
      (stringLength_encLen h.headWordLength)
      (by intro i; simp [proj, HEAD_WORD_LENGTH]) (by intro i j hj; simp only [HEAD_WORD_LENGTH] at hj; simp [proj, hj])
  · exact fieldOk_light w POS_ID leU16 _ _ w.posId (leU16_encU16 h.posId)
      (by intro i; simp [proj, POS_ID]) (by intro i j hj; simp only [POS_ID] at hj; simp [proj, hj])
  · exact fieldOk_heavy w NORMALIZED_FORM utf16String skipU16String _ _ w.normalizedForm
      (utf16String_encStr h.normalizedForm) (skipU16String_encStr h.normalizedForm)
      (by intro i; simp [proj, NORMALIZED_FORM]) (by intro i j hj; simp only [NORMALIZED_FORM] at hj; simp [proj, hj])
  · exact fieldOk_light w DIC_FORM_WORD_ID leI32 _ _ w.dictionaryFormWordId (leI32_encI32 h.dfLo h.dfHi)
      (by intro i; simp [proj, DIC_FORM_WORD_ID]) (by intro i j hj; simp only [DIC_FORM_WORD_ID] at hj; simp [proj, hj])
  · exact fieldOk_heavy w READING_FORM utf16String skipU16String _ _ w.readingForm
      (utf16String_encStr h.readingForm) (skipU16String_encStr h.readingForm)
      (by intro i; simp [proj, READING_FORM]) (by intro i j hj; simp only [READING_FORM] at hj; simp [proj, hj])
  · exact fieldOk_heavy w SPLIT_A u32Array skipArray _ _ w.aUnitSplit
      (u32Array_encArr h.a) (skipArray_encArr h.a)
      (by intro i; simp [proj, SPLIT_A]) (by intro i j hj; simp only [SPLIT_A] at hj; simp [proj, hj])
  · exact fieldOk_heavy w SPLIT_B u32Array skipArray _ _ w.bUnitSplit
      (u32Array_encArr h.b) (skipArray_encArr h.b)
      (by intro i; simp [proj, SPLIT_B]) (by intro i j hj; simp only [SPLIT_B] at hj; simp [proj, hj])
  · exact fieldOk_heavy w WORD_STRUCTURE u32Array skipArray _ _ w.wordStructure
      (u32Array_encArr h.ws) (skipArray_encArr h.ws)
      (by intro i; simp [proj, WORD_STRUCTURE]) (by intro i j hj; simp only [WORD_STRUCTURE] at hj; simp [proj, hj])
  · exact fieldOk_heavy w SYNONYM_GROUP_ID u32Array skipArray _ _ w.synonymGroupIds
      (u32Array_encArr h.syn) (skipArray_encArr h.syn)
      (by intro i; simp [proj, SYNONYM_GROUP_ID]) (by intro i j hj; simp only [SYNONYM_GROUP_ID] at hj; simp [proj, hj])

theorem encode_fields (w : WordInfoData) : (encode w).map (·.1) = fields := rfl

theorem encode_distinct (w : WordInfoData) : ((encode w).map (·.1.bit)).Pairwise (· ≠ ·) := by
  simp [encode, fSurface, fHeadWordLength, fPosId, fNormalizedForm, fDicFormWordId, fReadingForm, fSplitA, fSplitB,
    fWordStructure, fSynonymGroupIds, SURFACE, HEAD_WORD_LENGTH, POS_ID, NORMALIZED_FORM, DIC_FORM_WORD_ID,
    READING_FORM, SPLIT_A, SPLIT_B, WORD_STRUCTURE, SYNONYM_GROUP_ID]

/-- is field number `b` assigned by a parse with request `S`?  requested, or light with some bit
that is not below it still set when the macro reaches it (a later field, or a junk bit above the
ten flags: `flds` is then never empty) -/
def Loaded (S b : Nat) : Prop :=
  b < 10 ∧ (S.testBit b = true ∨ ((b = 1 ∨ b = 2 ∨ b = 4) ∧ ∃ c, b ≤ c ∧ S.testBit c = true))

/-- `WordInfoParser::parse` on a well-formed record: never fails, whatever the request and
whatever follows the record; loaded fields hold the word's values; the dictionary form string is
never touched. -/
theorem parse_spec (w : WordInfoData) (h : WF w) (S : Nat) (rest : Bytes) :
    ∃ info, parse S (encodeBytes w ++ rest) = .ok info ∧
      (∀ b, Loaded S b → proj b info = proj b w) ∧ info.dictionaryForm = [] := by
  obtain ⟨info, h1, h2, h3, h4⟩ := parseGo_spec w rest (encode w) S {} (encode_ok w h) (encode_distinct w)
  refine ⟨info, by rw [parse, encodeBytes, ← encode_fields w]; exact h1, ?_, ?_⟩
  · intro b hb
    obtain ⟨hb10, hb⟩ := hb
    rcases hb with hreq | ⟨hlight, c, hbc, hc⟩
    · have : b = 0 ∨ b = 1 ∨ b = 2 ∨ b = 3 ∨ b = 4 ∨ b = 5 ∨ b = 6 ∨ b = 7 ∨ b = 8 ∨ b = 9 := by omega
      rcases this with rfl | rfl | rfl | rfl | rfl | rfl | rfl | rfl | rfl | rfl
      · exact h2 (fSurface, encStr w.surface) (by simp [encode]) hreq
      · exact h2 (fHeadWordLength, encLen w.headWordLength) (by simp [encode]) hreq
      · exact h2 (fPosId, encU16 w.posId) (by simp [encode]) hreq
      · exact h2 (fNormalizedForm, encStr w.normalizedForm) (by simp [encode]) hreq
      · exact h2 (fDicFormWordId, encI32 w.dictionaryFormWordId) (by simp [encode]) hreq
      · exact h2 (fReadingForm, encStr w.readingForm) (by simp [encode]) hreq
      · exact h2 (fSplitA, encArr w.aUnitSplit) (by simp [encode]) hreq
      · exact h2 (fSplitB, encArr w.bUnitSplit) (by simp [encode]) hreq
      · exact h2 (fWordStructure, encArr w.wordStructure) (by simp [encode]) hreq
      · exact h2 (fSynonymGroupIds, encArr w.synonymGroupIds) (by simp [encode]) hreq
    · -- a requested field that is not before the light field keeps `flds` non-empty when it is reached
      rcases hlight with rfl | rfl | rfl
      · refine h3 [(fSurface, encStr w.surface)] (fHeadWordLength, encLen w.headWordLength) _ rfl rfl ⟨c, hc, ?_⟩
        intro q hq
        simp only [List.mem_cons, List.not_mem_nil, or_false] at hq
        subst hq
        show SURFACE ≠ c
        unfold SURFACE; omega
      · refine h3 [(fSurface, encStr w.surface), (fHeadWordLength, encLen w.headWordLength)] (fPosId, encU16 w.posId) _ rfl rfl ⟨c, hc, ?_⟩
        intro q hq
        simp only [List.mem_cons, List.not_mem_nil, or_false] at hq
        rcases hq with rfl | rfl
        · show SURFACE ≠ c
          unfold SURFACE; omega
        · show HEAD_WORD_LENGTH ≠ c
          unfold HEAD_WORD_LENGTH; omega
      · refine h3 [(fSurface, encStr w.surface), (fHeadWordLength, encLen w.headWordLength), (fPosId, encU16 w.posId), (fNormalizedForm, encStr w.normalizedForm)] (fDicFormWordId, encI32 w.dictionaryFormWordId) _ rfl rfl ⟨c, hc, ?_⟩
        intro q hq
        simp only [List.mem_cons, List.not_mem_nil, or_false] at hq
        rcases hq with rfl | rfl | rfl | rfl
        · show SURFACE ≠ c
          unfold SURFACE; omega
        · show HEAD_WORD_LENGTH ≠ c
          unfold HEAD_WORD_LENGTH; omega
        · show POS_ID ≠ c
          unfold POS_ID; omega
        · show NORMALIZED_FORM ≠ c
          unfold NORMALIZED_FORM; omega
  · have := h4 10 (by
      intro p hp
      simp only [encode, List.mem_cons, List.not_mem_nil, or_false] at hp
      rcases hp with rfl | rfl | rfl | rfl | rfl | rfl | rfl | rfl | rfl | rfl <;> (simp only []; decide))
    simpa [proj] using this

/-- field number `b` is NOT assigned by a parse with request `S`: a heavy field that is not
requested; a light field such that every bit set in `S` is below it (the macro returns before it).
Complement of `Loaded` (`loaded_or_unloaded`). -/
def Unloaded (S b : Nat) : Prop :=
  b < 10 ∧ (if b = 1 ∨ b = 2 ∨ b = 4 then ∀ c, S.testBit c = true → c < b else S.testBit b = false)

theorem loaded_or_unloaded (S b : Nat) (hb : b < 10) : Loaded S b ∨ Unloaded S b := by
  by_cases hl : b = 1 ∨ b = 2 ∨ b = 4
  · by_cases hc : ∃ c, b ≤ c ∧ S.testBit c = true
    · exact Or.inl ⟨hb, Or.inr ⟨hl, hc⟩⟩
    · refine Or.inr ⟨hb, ?_⟩
      rw [if_pos hl]
      intro c hcb
      apply Nat.lt_of_not_le
      intro hle
      exact hc ⟨c, hle, hcb⟩
  · cases hS : S.testBit b with
    | true => exact Or.inl ⟨hb, Or.inl hS⟩
    | false => exact Or.inr ⟨hb, by rw [if_neg hl]; exact hS⟩

theorem not_loaded_of_unloaded {S b : Nat} (hu : Unloaded S b) : ¬ Loaded S b := by
  intro hl
  obtain ⟨_, hu⟩ := hu
  obtain ⟨_, hl⟩ := hl
  by_cases hlight : b = 1 ∨ b = 2 ∨ b = 4
  · rw [if_pos hlight] at hu
    rcases hl with h | ⟨_, c, hbc, hc⟩
    · have := hu b h; omega
    · have := hu c hc; omega
  · rw [if_neg hlight] at hu
    rcases hl with h | ⟨h, _⟩
    · rw [hu] at h; cases h
    · exact hlight h

/-- **Fields that are not loaded keep their defaults** (`WordInfoData::default()`: 0 / empty). -/
theorem parse_unloaded (w : WordInfoData) (h : WF w) (S : Nat) (rest : Bytes) (info : WordInfoData)
    (hp : parse S (encodeBytes w ++ rest) = .ok info) : ∀ b, Unloaded S b → proj b info = proj b {} := by
  have hp' : parseGo ((encode w).map (·.1)) S (encAll (encode w) ++ rest) {} = .ok info := by
    rw [encode_fields w]; exact hp
  obtain ⟨h1, h2, _⟩ := parseGo_unloaded w rest (encode w) S {} info (encode_ok w h) (encode_distinct w) hp'
  intro b hb
  obtain ⟨hb10, hb⟩ := hb
  have : b = 0 ∨ b = 1 ∨ b = 2 ∨ b = 3 ∨ b = 4 ∨ b = 5 ∨ b = 6 ∨ b = 7 ∨ b = 8 ∨ b = 9 := by omega
  rcases this with rfl | rfl | rfl | rfl | rfl | rfl | rfl | rfl | rfl | rfl
  · exact h1 (fSurface, encStr w.surface) (by simp [encode]) rfl (by have hb' := hb; rw [if_neg (by omega)] at hb'; exact hb')
  · refine h2 [(fSurface, encStr w.surface)] (fHeadWordLength, encLen w.headWordLength) _ rfl rfl ?_
    intro c hc
    have hlt : c < 1 := by simpa using hb c hc
    have : c = 0 := by omega
    subst this
    exact ⟨(fSurface, encStr w.surface), by simp, rfl⟩
  · refine h2 [(fSurface, encStr w.surface), (fHeadWordLength, encLen w.headWordLength)] (fPosId, encU16 w.posId) _ rfl rfl ?_
    intro c hc
    have hlt : c < 2 := by simpa using hb c hc
    have : c = 0 ∨ c = 1 := by omega
    rcases this with rfl | rfl
    · exact ⟨(fSurface, encStr w.surface), by simp, rfl⟩
    · exact ⟨(fHeadWordLength, encLen w.headWordLength), by simp, rfl⟩
  · exact h1 (fNormalizedForm, encStr w.normalizedForm) (by simp [encode]) rfl (by have hb' := hb; rw [if_neg (by omega)] at hb'; exact hb')
  · refine h2 [(fSurface, encStr w.surface), (fHeadWordLength, encLen w.headWordLength), (fPosId, encU16 w.posId), (fNormalizedForm, encStr w.normalizedForm)] (fDicFormWordId, encI32 w.dictionaryFormWordId) _ rfl rfl ?_
    intro c hc
    have hlt : c < 4 := by simpa using hb c hc
    have : c = 0 ∨ c = 1 ∨ c = 2 ∨ c = 3 := by omega
    rcases this with rfl | rfl | rfl | rfl
    · exact ⟨(fSurface, encStr w.surface), by simp, rfl⟩
    · exact ⟨(fHeadWordLength, encLen w.headWordLength), by simp, rfl⟩
    · exact ⟨(fPosId, encU16 w.posId), by simp, rfl⟩
    · exact ⟨(fNormalizedForm, encStr w.normalizedForm), by simp, rfl⟩
  · exact h1 (fReadingForm, encStr w.readingForm) (by simp [encode]) rfl (by have hb' := hb; rw [if_neg (by omega)] at hb'; exact hb')
  · exact h1 (fSplitA, encArr w.aUnitSplit) (by simp [encode]) rfl (by have hb' := hb; rw [if_neg (by omega)] at hb'; exact hb')
  · exact h1 (fSplitB, encArr w.bUnitSplit) (by simp [encode]) rfl (by have hb' := hb; rw [if_neg (by omega)] at hb'; exact hb')
  · exact h1 (fWordStructure, encArr w.wordStructure) (by simp [encode]) rfl (by have hb' := hb; rw [if_neg (by omega)] at hb'; exact hb')
  · exact h1 (fSynonymGroupIds, encArr w.synonymGroupIds) (by simp [encode]) rfl (by have hb' := hb; rw [if_neg (by omega)] at hb'; exact hb')

/-- `parse_spec` with the complement: loaded fields hold the word's values, all others the defaults -/
theorem parse_spec_full (w : WordInfoData) (h : WF w) (S : Nat) (rest : Bytes) :
    ∃ info, parse S (encodeBytes w ++ rest) = .ok info ∧
      (∀ b, Loaded S b → proj b info = proj b w) ∧ (∀ b, Unloaded S b → proj b info = proj b {}) ∧
      info.dictionaryForm = [] := by
  obtain ⟨info, h1, h2, h3⟩ := parse_spec w h S rest
  exact ⟨info, h1, h2, parse_unloaded w h S rest info h1, h3⟩

/-! ## D. `get_word_info`, `normalize` -/

/-- a lexicon whose records are the encodings of `ws` -/
def lexOf (ws : List WordInfoData) (hasSyn : Bool) : Lexicon := ⟨ws.map encodeBytes, hasSyn⟩

/-- dictionary-form references stay inside the lexicon (what the builder validates) -/
def DfOk (ws : List WordInfoData) : Prop :=
  ∀ w ∈ ws, w.dictionaryFormWordId < 0 ∨ w.dictionaryFormWordId.toNat < ws.length

/-- the request `WordInfos::get_word_info` really parses with -/
def effSubset (hasSyn : Bool) (S : Nat) : Nat := if !hasSyn then remove S SYNONYM_GROUP_ID else S

/-- the dictionary-form string of word `k`: surface of the referenced word, or empty for "none"/"self" -/
def dicFormOf (ws : List WordInfoData) (k : Nat) (d : Int) : List Nat :=
  if d ≥ 0 ∧ d ≠ (k : Int) then (ws[d.toNat]?.map (·.surface)).getD [] else []

theorem parseWordInfo_spec (ws : List WordInfoData) (hwf : ∀ w ∈ ws, WF w) (hasSyn : Bool)
    (k : Nat) (hk : k < ws.length) (S : Nat) :
    ∃ info, parseWordInfo (lexOf ws hasSyn) k S = .ok info ∧
      (∀ b, Loaded S b → proj b info = proj b ws[k]) ∧ info.dictionaryForm = [] := by
  obtain ⟨info, h1, h2, h3⟩ := parse_spec ws[k] (hwf _ (List.getElem_mem hk)) S []
  refine ⟨info, ?_, h2, h3⟩
  simp only [parseWordInfo, lexOf, List.getElem?_map, List.getElem?_eq_getElem hk, Option.map_some]
  simpa using h1

theorem proj_setDicForm (b : Nat) (hb : b < 10) (wi : WordInfoData) (x : List Nat) :
    proj b { wi with dictionaryForm := x } = proj b wi := by
  have : b ≠ 10 := by omega
  simp [proj, this]

/-- `get_word_info` when the request reaches the dictionary-form id (any flag from
DIC_FORM_WORD_ID on is set after the synonym adjustment): succeeds, loaded fields hold the word's
values, the dictionary-form string is the referenced word's surface. -/
theorem getWordInfo_spec (ws : List WordInfoData) (hwf : ∀ w ∈ ws, WF w) (hdf : DfOk ws) (hasSyn : Bool)
    (k : Nat) (hk : k < ws.length) (S : Nat) (h4 : Loaded (effSubset hasSyn S) 4) :
    ∃ info, getWordInfo (lexOf ws hasSyn) k S = .ok info ∧
      (∀ b, Loaded (effSubset hasSyn S) b → proj b info = proj b ws[k]) ∧
      info.dictionaryForm = dicFormOf ws k ws[k].dictionaryFormWordId := by
  obtain ⟨i0, e0, l0, d0⟩ := parseWordInfo_spec ws hwf hasSyn k hk (effSubset hasSyn S)
  have hd : i0.dictionaryFormWordId = ws[k].dictionaryFormWordId := by
    have := l0 4 h4
    simpa [proj] using this
  have hlex : (lexOf ws hasSyn).hasSyn = hasSyn := rfl
  unfold getWordInfo
  simp only [hlex]
  change ∃ info, (match parseWordInfo (lexOf ws hasSyn) k (effSubset hasSyn S) with
      | .ok wi =>
        if wi.dictionaryFormWordId ≥ 0 ∧ wi.dictionaryFormWordId ≠ (k : Int) then
          match parseWordInfo (lexOf ws hasSyn) wi.dictionaryFormWordId.toNat (2 ^ SURFACE) with
          | .ok inner => Res.ok { wi with dictionaryForm := inner.surface }
          | .err => .err
          | .panic => .panic
        else .ok wi
      | .err => .err
      | .panic => .panic) = .ok info ∧ _
  rw [e0]
  simp only []
  by_cases hc : i0.dictionaryFormWordId ≥ 0 ∧ i0.dictionaryFormWordId ≠ (k : Int)
  · have hlt : i0.dictionaryFormWordId.toNat < ws.length := by
      rw [hd]
      rcases hdf _ (List.getElem_mem hk) with h | h
      · rw [hd] at hc; omega
      · exact h
    obtain ⟨inner, e1, l1, _⟩ := parseWordInfo_spec ws hwf hasSyn _ hlt (2 ^ SURFACE)
    have hs : inner.surface = ws[i0.dictionaryFormWordId.toNat].surface := by
      have := l1 0 ⟨by omega, Or.inl (by simp [SURFACE])⟩
      simpa [proj] using this
    rw [if_pos hc]
    simp only [e1]
    refine ⟨_, rfl, ?_, ?_⟩
    · intro b hb
      rw [proj_setDicForm b hb.1]
      exact l0 b hb
    · show inner.surface = _
      rw [← hd]
      simp [dicFormOf, hc, hs, List.getElem?_eq_getElem hlt]
  · rw [if_neg hc]
    refine ⟨i0, rfl, l0, ?_⟩
    rw [← hd]
    simp [dicFormOf, hc, d0]

theorem parseWordInfo_spec_full (ws : List WordInfoData) (hwf : ∀ w ∈ ws, WF w) (hasSyn : Bool)
    (k : Nat) (hk : k < ws.length) (S : Nat) :
    ∃ info, parseWordInfo (lexOf ws hasSyn) k S = .ok info ∧
      (∀ b, Loaded S b → proj b info = proj b ws[k]) ∧ (∀ b, Unloaded S b → proj b info = proj b {}) ∧
      info.dictionaryForm = [] := by
  obtain ⟨info, h1, h2, h3, h4⟩ := parse_spec_full ws[k] (hwf _ (List.getElem_mem hk)) S []
  refine ⟨info, ?_, h2, h3, h4⟩
  simp only [parseWordInfo, lexOf, List.getElem?_map, List.getElem?_eq_getElem hk, Option.map_some]
  simpa using h1

/-- the consult of `get_word_info`, given the outcome of the first parse: it cannot fail when the id
it reads (loaded, or the default 0) is negative or inside the lexicon -/
theorem getWordInfo_of_parse (ws : List WordInfoData) (hwf : ∀ w ∈ ws, WF w) (hasSyn : Bool)
    (k : Nat) (S : Nat) (i0 : WordInfoData)
    (e0 : parseWordInfo (lexOf ws hasSyn) k (effSubset hasSyn S) = .ok i0) (d0 : i0.dictionaryForm = [])
    (hin : i0.dictionaryFormWordId < 0 ∨ i0.dictionaryFormWordId.toNat < ws.length) :
    ∃ info, getWordInfo (lexOf ws hasSyn) k S = .ok info ∧
      (∀ b, b < 10 → proj b info = proj b i0) ∧
      info.dictionaryForm = dicFormOf ws k i0.dictionaryFormWordId := by
  have hlex : (lexOf ws hasSyn).hasSyn = hasSyn := rfl
  unfold getWordInfo
  simp only [hlex]
  change ∃ info, (match parseWordInfo (lexOf ws hasSyn) k (effSubset hasSyn S) with
      | .ok wi =>
        if wi.dictionaryFormWordId ≥ 0 ∧ wi.dictionaryFormWordId ≠ (k : Int) then
          match parseWordInfo (lexOf ws hasSyn) wi.dictionaryFormWordId.toNat (2 ^ SURFACE) with
          | .ok inner => Res.ok { wi with dictionaryForm := inner.surface }
          | .err => .err
          | .panic => .panic
        else .ok wi
      | .err => .err
      | .panic => .panic) = .ok info ∧ _
  rw [e0]
  simp only []
  by_cases hc : i0.dictionaryFormWordId ≥ 0 ∧ i0.dictionaryFormWordId ≠ (k : Int)
  · have hlt : i0.dictionaryFormWordId.toNat < ws.length := by
      rcases hin with h | h
      · omega
      · exact h
    obtain ⟨inner, e1, l1, _⟩ := parseWordInfo_spec ws hwf hasSyn _ hlt (2 ^ SURFACE)
    have hs : inner.surface = ws[i0.dictionaryFormWordId.toNat].surface := by
      have := l1 0 ⟨by omega, Or.inl (by simp [SURFACE])⟩
      simpa [proj] using this
    rw [if_pos hc]
    simp only [e1]
    refine ⟨_, rfl, fun b hb => proj_setDicForm b hb i0 _, ?_⟩
    show inner.surface = _
    simp [dicFormOf, hc, hs, List.getElem?_eq_getElem hlt]
  · rw [if_neg hc]
    refine ⟨i0, rfl, fun _ _ => rfl, ?_⟩
    simp [dicFormOf, hc, d0]

/-- **`get_word_info`, every request.**  Succeeds; loaded fields hold the word's values, all other
stored fields keep their defaults; the dictionary-form string is the surface of the word the id
designates — the word's own id when it is loaded, and the DEFAULT id 0 when it is not (the code
consults word 0 then; that consult cannot fail: word 0 exists because word `k` does). -/
theorem getWordInfo_spec_full (ws : List WordInfoData) (hwf : ∀ w ∈ ws, WF w) (hdf : DfOk ws) (hasSyn : Bool)
    (k : Nat) (hk : k < ws.length) (S : Nat) :
    ∃ info, getWordInfo (lexOf ws hasSyn) k S = .ok info ∧
      (∀ b, Loaded (effSubset hasSyn S) b → proj b info = proj b ws[k]) ∧
      (∀ b, Unloaded (effSubset hasSyn S) b → proj b info = proj b {}) ∧
      (Loaded (effSubset hasSyn S) 4 → info.dictionaryForm = dicFormOf ws k ws[k].dictionaryFormWordId) ∧
      (Unloaded (effSubset hasSyn S) 4 → info.dictionaryForm = dicFormOf ws k 0) := by
  obtain ⟨i0, e0, l0, u0, d0⟩ := parseWordInfo_spec_full ws hwf hasSyn k hk (effSubset hasSyn S)
  have hin : i0.dictionaryFormWordId < 0 ∨ i0.dictionaryFormWordId.toNat < ws.length := by
    rcases loaded_or_unloaded (effSubset hasSyn S) 4 (by omega) with h | h
    · have hd : i0.dictionaryFormWordId = ws[k].dictionaryFormWordId := by
        simpa [proj] using l0 4 h
      rw [hd]
      exact hdf _ (List.getElem_mem hk)
    · have hd : i0.dictionaryFormWordId = 0 := by
        simpa [proj] using u0 4 h
      right; rw [hd]; simpa using (by omega : 0 < ws.length)
  obtain ⟨info, e, hp, hdform⟩ := getWordInfo_of_parse ws hwf hasSyn k S i0 e0 d0 hin
  refine ⟨info, e, ?_, ?_, ?_, ?_⟩
  · intro b hb; rw [hp b hb.1]; exact l0 b hb
  · intro b hb; rw [hp b hb.1]; exact u0 b hb
  · intro h
    have hd : i0.dictionaryFormWordId = ws[k].dictionaryFormWordId := by simpa [proj] using l0 4 h
    rw [hdform, hd]
  · intro h
    have hd : i0.dictionaryFormWordId = 0 := by simpa [proj] using u0 4 h
    rw [hdform, hd]

theorem testBit_normalize_of (v : NzVariant) (S b : Nat) (h : S.testBit b = true) : (normalize v S).testBit b = true := by
  unfold normalize
  simp only []
  split <;> split <;> simp [testBit_insert, h]

theorem normalize_surface_of_forms (v : NzVariant) (S : Nat)
    (h : S.testBit READING_FORM = true ∨ S.testBit NORMALIZED_FORM = true) : (normalize v S).testBit SURFACE = true := by
  unfold normalize
  have hc : (S.testBit READING_FORM || S.testBit NORMALIZED_FORM || (v == .fix && S.testBit DIC_FORM_WORD_ID)) = true := by
    rcases h with h | h <;> simp [h]
  simp only [hc, if_true]
  split <;> simp [testBit_insert]

theorem normalize_fix_surface_of_dicform (S : Nat) (h : S.testBit DIC_FORM_WORD_ID = true) :
    (normalize .fix S).testBit SURFACE = true := by
  unfold normalize
  have hc : (S.testBit READING_FORM || S.testBit NORMALIZED_FORM || (NzVariant.fix == .fix && S.testBit DIC_FORM_WORD_ID)) = true := by
    simp [h]
  simp only [hc, if_true]
  split <;> simp [testBit_insert]

theorem normalize_head_of_splits (v : NzVariant) (S : Nat)
    (h : S.testBit SPLIT_A = true ∨ S.testBit SPLIT_B = true) : (normalize v S).testBit HEAD_WORD_LENGTH = true := by
  unfold normalize
  simp only []
  have key : ∀ T : Nat, (T.testBit SPLIT_A = true ∨ T.testBit SPLIT_B = true) →
      (if (T.testBit SPLIT_A || T.testBit SPLIT_B) = true then insert T HEAD_WORD_LENGTH else T).testBit HEAD_WORD_LENGTH = true := by
    intro T hT
    have : (T.testBit SPLIT_A || T.testBit SPLIT_B) = true := by rcases hT with h | h <;> simp [h]
    simp [this, testBit_insert]
  split
  · apply key
    rcases h with h | h
    · left; simp [testBit_insert, h]
    · right; simp [testBit_insert, h]
  · exact key S h

/-! ## E. statement helpers for `Props/C11.lean` -/

/-- requested stored fields agree -/
structure FieldsEq (S : Nat) (a b : WordInfoData) : Prop where
  surface : S.testBit SURFACE = true → a.surface = b.surface
  headWordLength : S.testBit HEAD_WORD_LENGTH = true → a.headWordLength = b.headWordLength
  posId : S.testBit POS_ID = true → a.posId = b.posId
  normalizedForm : S.testBit NORMALIZED_FORM = true → a.normalizedForm = b.normalizedForm
  dictionaryFormWordId : S.testBit DIC_FORM_WORD_ID = true → a.dictionaryFormWordId = b.dictionaryFormWordId
  readingForm : S.testBit READING_FORM = true → a.readingForm = b.readingForm
  aUnitSplit : S.testBit SPLIT_A = true → a.aUnitSplit = b.aUnitSplit
  bUnitSplit : S.testBit SPLIT_B = true → a.bUnitSplit = b.bUnitSplit
  wordStructure : S.testBit WORD_STRUCTURE = true → a.wordStructure = b.wordStructure
  synonymGroupIds : S.testBit SYNONYM_GROUP_ID = true → a.synonymGroupIds = b.synonymGroupIds

theorem all_testBit {j : Nat} (hj : j < 10) : ALL.testBit j = true := by
  have : j = 0 ∨ j = 1 ∨ j = 2 ∨ j = 3 ∨ j = 4 ∨ j = 5 ∨ j = 6 ∨ j = 7 ∨ j = 8 ∨ j = 9 := by omega
  rcases this with rfl | rfl | rfl | rfl | rfl | rfl | rfl | rfl | rfl | rfl <;> decide

theorem effSubset_all_of (hasSyn : Bool) (S : Nat) :
    ∀ j, j < 10 → (effSubset hasSyn S).testBit j = true → (effSubset hasSyn ALL).testBit j = true := by
  intro j hj h
  unfold effSubset at h ⊢
  split
  · rename_i hs
    rw [if_pos hs, testBit_remove] at h
    rw [testBit_remove, all_testBit hj]
    simp at h ⊢
    exact h.2
  · exact all_testBit hj

/-- helper: agreement with the word on the loaded fields gives `FieldsEq` -/
theorem fieldsEq_of_proj {S T U : Nat} {a b w : WordInfoData}
    (ha : ∀ j, Loaded T j → proj j a = proj j w) (hb : ∀ j, Loaded U j → proj j b = proj j w)
    (hST : ∀ j, j < 10 → S.testBit j = true → T.testBit j = true)
    (hSU : ∀ j, j < 10 → S.testBit j = true → U.testBit j = true) : FieldsEq S a b := by
  have key : ∀ j, j < 10 → S.testBit j = true → proj j a = proj j b := by
    intro j hj hS
    rw [ha j ⟨hj, Or.inl (hST j hj hS)⟩, hb j ⟨hj, Or.inl (hSU j hj hS)⟩]
  constructor
  · intro h; simpa [proj] using key 0 (by omega) h
  · intro h; simpa [proj] using key 1 (by omega) h
  · intro h; simpa [proj] using key 2 (by omega) h
  · intro h; simpa [proj] using key 3 (by omega) h
  · intro h; simpa [proj] using key 4 (by omega) h
  · intro h; simpa [proj] using key 5 (by omega) h
  · intro h; simpa [proj] using key 6 (by omega) h
  · intro h; simpa [proj] using key 7 (by omega) h
  · intro h; simpa [proj] using key 8 (by omega) h
  · intro h; simpa [proj] using key 9 (by omega) h

end Subset
