import Sudachi.Model.CodecBuild
import Sudachi.Proofs.Codec
/-!
# Layout of the lexicon section: the offsets table points at the records (C05 `dict_roundtrip`)
-/
namespace Codec

theorem drop_add_append {α : Type} (l1 l2 : List α) (k : Nat) : (l1 ++ l2).drop (l1.length + k) = l2.drop k := by
  rw [List.drop_append]
  simp

theorem drop_cons_of_get {α : Type} (l : List α) (i : Nat) (a : α) (h : l[i]? = some a) :
    l.drop i = a :: l.drop (i + 1) := by
  induction l generalizing i with
  | nil => simp at h
  | cons x xs ih =>
    cases i with
    | zero => simp at h; subst h; rfl
    | succ k => simp at h; simpa using ih k h

/-- start offsets of consecutive blocks -/
def offsFrom (base : Nat) : List Bytes → List Nat
  | [] => []
  | b :: bs => base :: offsFrom (base + b.length) bs

theorem offsFrom_length (base : Nat) (bs : List Bytes) : (offsFrom base bs).length = bs.length := by
  induction bs generalizing base with
  | nil => rfl
  | cons b bs ih => simp [offsFrom, ih]

theorem foldl_offs (ob : Nat) (infos : List Bytes) : ∀ (a : Nat) (racc : List Nat),
    (infos.foldl (fun (acc : Nat × List Nat) b => (acc.1 + b.length, (ob + acc.1) % 4294967296 :: acc.2)) (a, racc)).2.reverse
      = racc.reverse ++ (offsFrom (ob + a) infos).map (· % 4294967296) := by
  induction infos with
  | nil => intro a racc; simp [offsFrom]
  | cons b bs ih =>
    intro a racc
    simp only [List.foldl_cons, offsFrom, List.map_cons]
    rw [ih]
    simp [Nat.add_assoc]

/-- the block `i` starts at its recorded offset -/
theorem drop_at_off (bs : List Bytes) : ∀ (base i : Nat) (b : Bytes), bs[i]? = some b →
    ∃ o, (offsFrom base bs)[i]? = some o ∧ base ≤ o ∧ o + b.length ≤ base + bs.flatten.length ∧
      ∀ post, (bs.flatten ++ post).drop (o - base) = b ++ ((bs.drop (i + 1)).flatten ++ post) := by
  induction bs with
  | nil => intro base i b h; simp at h
  | cons x xs ih =>
    intro base i b h
    cases i with
    | zero =>
      simp at h; subst h
      refine ⟨base, by simp [offsFrom], Nat.le_refl _, by simp, ?_⟩
      intro post; simp
    | succ k =>
      simp at h
      obtain ⟨o, ho, hle, hlen, hd⟩ := ih (base + x.length) k b h
      refine ⟨o, by simp [offsFrom, ho], by omega, by simp only [List.flatten_cons, List.length_append]; omega, ?_⟩
      intro post
      have : o - base = x.length + (o - (base + x.length)) := by omega
      simp only [List.flatten_cons, List.append_assoc, this, drop_add_append]
      simpa using hd post

theorem le32_flatMap_drop (xs : List Nat) : ∀ i, (xs.flatMap le32).drop (4 * i) = (xs.drop i).flatMap le32 := by
  induction xs with
  | nil => intro i; simp
  | cons x xs ih =>
    intro i
    cases i with
    | zero => simp
    | succ k =>
      have : 4 * (k + 1) = (le32 x).length + 4 * k := by simp [le32]; omega
      simp only [List.flatMap_cons, this, drop_add_append]
      simpa using ih k

theorem le32_flatMap_length (xs : List Nat) : (xs.flatMap le32).length = 4 * xs.length := by
  induction xs with
  | nil => rfl
  | cons x xs ih => simp only [List.flatMap_cons, List.length_append, ih, le32, List.length_cons, List.length_nil]; omega

theorem encParams_flatMap_length (es : List Entry) : (es.flatMap encParams).length = 6 * es.length := by
  induction es with
  | nil => rfl
  | cons x xs ih => simp only [List.flatMap_cons, List.length_append, ih, encParams, le16, List.length_cons, List.length_nil]; omega

/-- the lexicon section as a `Lexicon` value: what `Lexicon::parse` computes for a file `pre ++ section`
whose index part ends at `pre.length` -/
def lexAt (pre : Bytes) (es : List Entry) : Lexicon :=
  { bytes := pre ++ lexiconBytes es (es.map encWordInfo) pre.length, trieOff := 0, trieSize := 0, widTableOff := 0, widTableSize := 0,
    paramsOff := pre.length + 4, size := es.length, infosOff := pre.length + 4 + 6 * es.length, hasSynonyms := true }

/-- the offsets table entry `i` is the position of record `i` -/
theorem record_at (pre : Bytes) (es : List Entry)
    (hsize : (pre ++ lexiconBytes es (es.map encWordInfo) pre.length).length < 4294967296)
    (i : Nat) (e : Entry) (hi : es[i]? = some e) :
    ∃ o tail, (lexAt pre es).wordIdToOffset i = .ok o ∧ ¬ (o > (lexAt pre es).bytes.length) ∧
      (lexAt pre es).bytes.drop o = encWordInfo e ++ tail := by
  have hlt : i < es.length := by
    rcases Nat.lt_or_ge i es.length with h | h
    · exact h
    · rw [List.getElem?_eq_none h] at hi; cases hi
  have hinfo : (es.map encWordInfo)[i]? = some (encWordInfo e) := by simp [hi]
  -- the offsets
  obtain ⟨ob, hobd⟩ : ∃ ob, ob = pre.length + (6 + 4) * es.length + 4 := ⟨_, rfl⟩
  obtain ⟨o, ho, hle, hlen, hd⟩ := drop_at_off (es.map encWordInfo) ob i (encWordInfo e) hinfo
  have hoffs : (lexiconBytes es (es.map encWordInfo) pre.length)
      = le32 es.length ++ es.flatMap encParams ++ ((offsFrom ob (es.map encWordInfo)).map (· % 4294967296)).flatMap le32 ++ (es.map encWordInfo).flatten := by
    unfold lexiconBytes
    simp only [foldl_offs, List.reverse_nil, List.nil_append, Nat.add_zero]
    rw [← hobd]
  have hbytes : (lexAt pre es).bytes = pre ++ (le32 es.length ++ es.flatMap encParams ++ ((offsFrom ob (es.map encWordInfo)).map (· % 4294967296)).flatMap le32 ++ (es.map encWordInfo).flatten) := by
    simp only [lexAt, hoffs]
  have hL : (lexAt pre es).bytes.length = pre.length + 4 + 6 * es.length + 4 * es.length + (es.map encWordInfo).flatten.length := by
    rw [hbytes]
    simp only [List.length_append, le32_flatMap_length, encParams_flatMap_length, List.length_map, offsFrom_length, le32, List.length_cons, List.length_nil]
    omega
  have hsz : (lexAt pre es).bytes.length < 4294967296 := hsize
  have hob : o < 4294967296 := by omega
  -- step 1: the offset read from the table
  have h1 : (lexAt pre es).wordIdToOffset i = .ok o := by
    unfold Lexicon.wordIdToOffset
    have hstart : ¬ ((lexAt pre es).infosOff + 4 * i > (lexAt pre es).bytes.length) := by
      rw [hL]; simp only [lexAt]; omega
    simp only [hstart, if_false]
    have hdrop : (lexAt pre es).bytes.drop ((lexAt pre es).infosOff + 4 * i)
        = (((offsFrom ob (es.map encWordInfo)).map (· % 4294967296)).drop i).flatMap le32 ++ (es.map encWordInfo).flatten := by
      rw [hbytes]
      have e1 : (lexAt pre es).infosOff + 4 * i = pre.length + ((le32 es.length ++ es.flatMap encParams).length + 4 * i) := by
        simp only [lexAt, List.length_append, encParams_flatMap_length, le32, List.length_cons, List.length_nil]; omega
      rw [e1, drop_add_append, List.append_assoc (le32 es.length ++ es.flatMap encParams), drop_add_append,
        List.drop_append_of_le_length (by rw [le32_flatMap_length, List.length_map, offsFrom_length, List.length_map]; omega),
        le32_flatMap_drop]
    rw [hdrop]
    have hget : ((offsFrom ob (es.map encWordInfo)).map (· % 4294967296))[i]? = some (o % 4294967296) := by simp [ho]
    have hcons : ((offsFrom ob (es.map encWordInfo)).map (· % 4294967296)).drop i
        = (o % 4294967296) :: ((offsFrom ob (es.map encWordInfo)).map (· % 4294967296)).drop (i + 1) := by
      exact drop_cons_of_get _ i _ hget
    rw [hcons]
    simp only [List.flatMap_cons, List.append_assoc]
    rw [leU32_le32 _ (Nat.mod_lt _ (by decide))]
    simp only [Nat.mod_eq_of_lt hob]
  -- step 2: the record at that offset
  have h2 : ∃ tail, (lexAt pre es).bytes.drop o = encWordInfo e ++ tail := by
    refine ⟨(((es.map encWordInfo).drop (i + 1)).flatten ++ []), ?_⟩
    rw [hbytes]
    have e2 : o = pre.length + ((le32 es.length ++ es.flatMap encParams ++ ((offsFrom ob (es.map encWordInfo)).map (· % 4294967296)).flatMap le32).length + (o - ob)) := by
      simp only [List.length_append, le32_flatMap_length, encParams_flatMap_length, List.length_map, offsFrom_length, le32, List.length_cons, List.length_nil]
      omega
    have := hd []
    simp only [List.append_nil] at this
    rw [e2, drop_add_append, drop_add_append]
    simpa using this
  obtain ⟨tail, h2⟩ := h2
  have hnot : ¬ (o > (lexAt pre es).bytes.length) := by rw [hL]; omega
  exact ⟨o, tail, h1, hnot, h2⟩

/-- Every record of the lexicon section is found through the offsets table: for any bytes `pre` before
the section (header, grammar, index) and well-formed entries, as long as the file stays below 4 GiB,
`parse_word_info(i)` returns exactly the written fields of entry `i`. -/
theorem parseWordInfo_lexAt (pre : Bytes) (es : List Entry) (hwf : ∀ e ∈ es, e.WF)
    (hsize : (pre ++ lexiconBytes es (es.map encWordInfo) pre.length).length < 4294967296)
    (i : Nat) (e : Entry) (hi : es[i]? = some e) :
    (lexAt pre es).parseWordInfo i = .ok
      { surface := e.headwordS, headWordLength := utf8LenStr e.surface, posId := e.pos,
        normalizedForm := stored e.normS e.headwordS, dicFormWordId := u32ToI e.dicForm,
        readingForm := stored e.readingS e.headwordS, aUnitSplit := e.splitsA, bUnitSplit := e.splitsB,
        wordStructure := e.wordStructure, synonymGroupIds := e.synonyms } := by
  obtain ⟨o, tail, h1, hnot, h2⟩ := record_at pre es hsize i e hi
  unfold Lexicon.parseWordInfo
  simp only [bind, Outcome.bind, h1]
  simp only [hnot, if_false, h2, parseWordInfo_enc e (hwf e (List.mem_of_getElem? hi)) tail, ofOpt]

/-- `parse_word_info(i, SURFACE)` returns the headword of entry `i` -/
theorem parseSurface_lexAt (pre : Bytes) (es : List Entry) (hwf : ∀ e ∈ es, e.WF)
    (hsize : (pre ++ lexiconBytes es (es.map encWordInfo) pre.length).length < 4294967296)
    (i : Nat) (e : Entry) (hi : es[i]? = some e) :
    (lexAt pre es).parseSurface i = .ok e.headwordS := by
  obtain ⟨o, tail, h1, hnot, h2⟩ := record_at pre es hsize i e hi
  have wf := hwf e (List.mem_of_getElem? hi)
  unfold Lexicon.parseSurface
  simp only [bind, Outcome.bind, h1]
  simp only [hnot, if_false, h2, Codec.parseSurface, encWordInfo, List.append_assoc,
    utf16StringParser_encStr _ wf.hw.1 wf.hw.2, Option.map_some, ofOpt]

/-- `WordInfos::get_word_info` on a SYSTEM lexicon: the dictionary form is the headword of the referenced
entry (`*` = no reference, or a reference to itself: nothing fetched) -/
theorem getWordInfo_lexAt (pre : Bytes) (es : List Entry) (hwf : ∀ e ∈ es, e.WF)
    (hsize : (pre ++ lexiconBytes es (es.map encWordInfo) pre.length).length < 4294967296)
    (i : Nat) (e : Entry) (hi : es[i]? = some e)
    (target : Option Entry)
    (hdf : (e.dicForm = INVALID_WID ∧ target = none) ∨ (e.dicForm = i ∧ target = none) ∨
           (e.dicForm < 2147483648 ∧ e.dicForm ≠ i ∧ ∃ t, es[e.dicForm]? = some t ∧ target = some t)) :
    ∃ wi, (lexAt pre es).getWordInfo i = .ok wi ∧ wi.surface = e.headwordS ∧
      wi.dictionaryFormA = (match target with
        | none => e.headwordS
        | some t => if t.headwordS = [] then e.headwordS else t.headwordS) := by
  have hp := parseWordInfo_lexAt pre es hwf hsize i e hi
  unfold Lexicon.getWordInfo
  have hsyn : (lexAt pre es).hasSynonyms = true := rfl
  simp only [bind, Outcome.bind, hp, hsyn, if_true]
  rcases hdf with ⟨h1, h2⟩ | ⟨h1, h2⟩ | ⟨h1, h2, t, ht, h3⟩
  · subst h2
    have : ¬ (u32ToI e.dicForm ≥ 0 ∧ u32ToI e.dicForm ≠ (i : Int)) := by
      rw [h1]; simp [u32ToI, INVALID_WID]
    simp only [this, if_false]
    exact ⟨_, rfl, rfl, by simp [WordInfoData.dictionaryFormA]⟩
  · subst h2
    have hw := (hwf e (List.mem_of_getElem? hi)).df
    have : ¬ (u32ToI e.dicForm ≥ 0 ∧ u32ToI e.dicForm ≠ (i : Int)) := by
      unfold u32ToI; split <;> omega
    simp only [this, if_false]
    exact ⟨_, rfl, rfl, by simp [WordInfoData.dictionaryFormA]⟩
  · subst h3
    have hc : (u32ToI e.dicForm ≥ 0 ∧ u32ToI e.dicForm ≠ (i : Int)) := by
      unfold u32ToI; simp only [h1, if_true]; omega
    have htn : (u32ToI e.dicForm).toNat = e.dicForm := by
      unfold u32ToI; simp only [h1, if_true]; omega
    have hs := parseSurface_lexAt pre es hwf hsize e.dicForm t ht
    rw [if_pos hc]
    simp only [htn, hs]
    refine ⟨_, rfl, rfl, ?_⟩
    simp only [WordInfoData.dictionaryFormA]
    cases hh : t.headwordS with
    | nil => simp
    | cons a b => simp

end Codec
