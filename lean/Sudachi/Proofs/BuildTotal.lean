import Sudachi.Proofs.Build
/-!
# No panic after the repairs (C06 `compile_total`)

Invariants carried through `read_lexicon` and `resolve` that make the `panic!` branches of
`validate_entries` / `validate_wid` unreachable, and the absence of `panic` steps in the writer
script once the trie builder's preconditions are checked (D4, D5).
-/
namespace Build

/-! ## word ids that come out of the parsers and the resolver name dictionary 0 or 1 -/

def WidOk (w : Nat) : Prop := widDic w ≤ 1

theorem widNew_ok (d i : Nat) (hd : d ≤ 1) : WidOk (widNew d i) := by
  unfold WidOk widDic widNew DIC_UNIT; omega

theorem parseWordIdRaw_ok {s : Str} {w : Nat} (h : parseWordIdRaw s = .ok w) : w ≤ WORD_MASK := by
  unfold parseWordIdRaw at h
  split at h
  · split at h
    · injection h with h; omega
    · simp at h
  · simp at h

theorem parseWordId_ok {s : Str} {w : Nat} (h : parseWordId s = .ok w) : WidOk w := by
  unfold parseWordId at h
  split at h
  · split at h
    · injection h with h; subst h; exact widNew_ok 1 _ (Nat.le_refl 1)
    · simp at h
  · have := parseWordIdRaw_ok h
    unfold WidOk widDic DIC_UNIT; unfold WORD_MASK at this; omega

theorem mapE_mem {α β : Type} {f : α → Except ErrKind β} {l : List α} {r : List β}
    (h : mapE f l = .ok r) : ∀ b ∈ r, ∃ a ∈ l, f a = .ok b := by
  induction l generalizing r with
  | nil => simp [mapE] at h; subst h; simp
  | cons a as ih =>
    unfold mapE at h
    split at h
    · simp at h
    · rename_i b hb
      split at h
      · simp at h
      · rename_i bs hbs
        injection h with h; subst h
        intro b' hb'
        rcases List.mem_cons.1 hb' with rfl | hm
        · exact ⟨a, List.mem_cons_self, hb⟩
        · obtain ⟨a', ha', hfa⟩ := ih hbs b' hm
          exact ⟨a', List.mem_cons_of_mem _ ha', hfa⟩

theorem slashList_mem {α : Type} {f : Str → Except ErrKind α} {s : Str} {r : List α}
    (h : slashList f s = .ok r) : (∀ b ∈ r, ∃ a, f a = .ok b) ∧ r.length ≤ 127 := by
  unfold slashList at h
  split at h
  · simp at h
  · rename_i l hl
    split at h
    · simp at h
    · injection h with h; subst h
      exact ⟨fun b hb => let ⟨a, _, ha⟩ := mapE_mem hl b hb; ⟨a, ha⟩, by omega⟩

theorem parseWordIdList_ok {s : Str} {l : List Nat} (h : parseWordIdList s = .ok l) :
    (∀ w ∈ l, WidOk w) ∧ l.length ≤ 127 := by
  unfold parseWordIdList at h
  split at h
  · injection h with h; subst h; simp
  · obtain ⟨h1, h2⟩ := slashList_mem h
    exact ⟨fun w hw => let ⟨a, ha⟩ := h1 w hw; parseWordId_ok ha, h2⟩

theorem parseDicForm_ok {s : Str} {w : Nat} (h : parseDicForm s = .ok w) : w = WID_INVALID ∨ WidOk w := by
  unfold parseDicForm at h
  split at h
  · injection h with h; exact Or.inl h.symm
  · exact Or.inr (parseWordId_ok h)

def UnitWf : SplitUnit → Prop
  | .ref w => WidOk w
  | .inline .. => True

theorem parseSplit_ok {x : Ext} {tab tab' : List PosKey} {s : Str} {u : SplitUnit}
    (h : parseSplit x tab s = .ok (u, tab')) : UnitWf u := by
  unfold parseSplit at h
  split at h
  · split at h
    · rename_i w hw
      injection h with h; injection h with h1 h2; subst h1
      exact parseWordId_ok hw
    · simp at h
  · cases u with
    | inline s p r => trivial
    | ref w =>
      exfalso
      repeat' (split at h)
      all_goals simp at h

theorem parseSplitList_ok {x : Ext} {tab tab' : List PosKey} {ss : List Str} {us : List SplitUnit}
    (h : parseSplitList x tab ss = .ok (us, tab')) : ∀ u ∈ us, UnitWf u := by
  induction ss generalizing tab us tab' with
  | nil => unfold parseSplitList at h; injection h with h; injection h with h1 h2; subst h1; simp
  | cons s ss ih =>
    unfold parseSplitList at h
    split at h
    · simp at h
    · rename_i u t1 hu
      split at h
      · simp at h
      · rename_i us' t2 hus
        injection h with h; injection h with h1 h2; subst h1
        intro u' hu'
        rcases List.mem_cons.1 hu' with rfl | hm
        · exact parseSplit_ok hu
        · exact ih hus u' hm

theorem parseSplits_ok {x : Ext} {tab tab' : List PosKey} {s : Str} {us : List SplitUnit}
    (h : parseSplits x tab s = .ok (us, tab')) : (∀ u ∈ us, UnitWf u) ∧ us.length ≤ 127 := by
  unfold parseSplits at h
  split at h
  · injection h with h; injection h with h1 h2; subst h1; simp
  · split at h
    · simp at h
    · rename_i us' t hl
      split at h
      · simp at h
      · injection h with h; injection h with h1 h2; subst h1
        exact ⟨parseSplitList_ok hl, by omega⟩

theorem fld_ok {α : Type} {fs : List Str} {i : Nat} {f : Str → Except ErrKind α} {a : α}
    (h : fld fs i f = .ok a) : ∃ s, fs[i]? = some s ∧ f s = .ok a := by
  unfold fld at h
  split at h
  · rename_i s hs; exact ⟨s, hs, h⟩
  · simp at h

/-! ## entries -/

def EntryWf (e : Entry) : Prop :=
  (e.dicForm = WID_INVALID ∨ WidOk e.dicForm) ∧ (∀ w ∈ e.wordStructure, WidOk w) ∧
  (∀ u ∈ e.splitsA, UnitWf u) ∧ (∀ u ∈ e.splitsB, UnitWf u)

def entryInline (e : Entry) : Nat := inlineCount e.splitsA + inlineCount e.splitsB

def NoInline (e : Entry) : Prop := entryInline e = 0

theorem parseRecord_ok {v : Variant} {x : Ext} {st st' : LexState} {fs : List Str}
    (h : parseRecord v x st fs = .ok st') :
    ∃ e tab, st' = ⟨tab, st.entries ++ [e], st.unresolved + inlineCount e.splitsA + inlineCount e.splitsB⟩ ∧
      (∃ t0 t1, fld fs 15 (parseSplits x st.pos) = .ok (e.splitsA, t0) ∧
        fld fs 16 (parseSplits x t0) = .ok (e.splitsB, t1)) ∧
      fld fs 13 parseDicForm = .ok e.dicForm ∧ fld fs 17 parseWordIdList = .ok e.wordStructure ∧
      fld fs 0 unescape = .ok e.surface ∧
      ¬ ((e.surface.isEmpty || v.d5 && e.surface.contains (Char.ofNat 0)) = true) := by
  simp only [parseRecord, bind, Except.bind] at h
  repeat' (split at h; try (exact absurd h (by simp)))
  injection h with h
  subst h
  exact ⟨_, _, rfl, ⟨_, _, by assumption, by assumption⟩, by assumption, by assumption, by assumption, by assumption⟩

/-- what `read_lexicon` maintains: the counter is at least the number of inline units (it is
exact until `resolve` replaces inline units without touching the counter) -/
def LexInv (v : Variant) (st : LexState) : Prop :=
  (∀ e ∈ st.entries, EntryWf e ∧ (v.d5 = true → hasNul e.surface = false)) ∧
  (st.entries.map entryInline).sum ≤ st.unresolved

theorem parseRecord_inv {v : Variant} {x : Ext} {st st' : LexState} {fs : List Str}
    (hi : LexInv v st) (h : parseRecord v x st fs = .ok st') : LexInv v st' := by
  obtain ⟨e, tab, rfl, ⟨t0, t1, ha, hb⟩, hd, hw, _, hs⟩ := parseRecord_ok h
  obtain ⟨_, _, ha'⟩ := fld_ok ha
  obtain ⟨_, _, hb'⟩ := fld_ok hb
  obtain ⟨_, _, hd'⟩ := fld_ok hd
  obtain ⟨_, _, hw'⟩ := fld_ok hw
  have hwf : EntryWf e := ⟨parseDicForm_ok hd', (parseWordIdList_ok hw').1, (parseSplits_ok ha').1, (parseSplits_ok hb').1⟩
  have hnul : v.d5 = true → hasNul e.surface = false := by
    intro h5
    simp only [h5, Bool.true_and, Bool.or_eq_true, not_or] at hs
    simpa [hasNul] using hs.2
  constructor
  · intro e' he'
    rcases List.mem_append.1 he' with hm | hm
    · exact hi.1 e' hm
    · simp only [List.mem_singleton] at hm; subst hm; exact ⟨hwf, hnul⟩
  · simp only [List.map_append, List.sum_append, List.map_cons, List.map_nil, List.sum_cons, List.sum_nil,
      entryInline]
    have := hi.2
    omega

theorem readLexicon_inv {v : Variant} {x : Ext} {st st' : LexState} {recs : List (Nat × List Str)}
    (hi : LexInv v st) (h : readLexicon v x st recs = .ok st') : LexInv v st' := by
  induction recs generalizing st with
  | nil => unfold readLexicon at h; injection h with h; subst h; exact hi
  | cons r rest ih =>
    obtain ⟨line, fs⟩ := r
    unfold readLexicon at h
    split at h
    · simp at h
    · rename_i st1 h1
      exact ih (parseRecord_inv hi h1) h

theorem readLexicon_no_panic (v : Variant) (x : Ext) (st : LexState) (recs : List (Nat × List Str)) :
    (readLexicon v x st recs).isPanic = false := by
  induction recs generalizing st with
  | nil => rfl
  | cons r rest ih =>
    obtain ⟨line, fs⟩ := r
    unfold readLexicon
    split
    · rfl
    · exact ih _

theorem readLex_ok {v : Variant} {x : Ext} {b b' : Builder} {recs : List (Nat × List Str)} {ce : Option Nat}
    (hi : LexInv v b.lex) (h : readLex v x b recs ce = .ok b') :
    LexInv v b'.lex ∧ b'.resolved = (if v.rf then false else b.resolved) := by
  unfold readLex at h
  split at h
  · rename_i st' hst
    split at h
    · simp at h
    · injection h with h; subst h
      exact ⟨readLexicon_inv hi hst, rfl⟩
  · simp at h
  · simp at h

theorem readLex_no_panic (v : Variant) (x : Ext) (b : Builder) (recs : List (Nat × List Str)) (ce : Option Nat) :
    (readLex v x b recs ce).isPanic = false := by
  unfold readLex
  have := readLexicon_no_panic v x b.lex recs
  split
  · split <;> rfl
  · rfl
  · rename_i w hw; rw [hw] at this; simp [Res.isPanic] at this

/-! ## a failing `read_lexicon` (`Op.lexIgn`) -/

/-- a `parse_record` that failed pushed no entry and can only have raised the `unresolved` counter
(not at all after the repair S7) -/
theorem parseRecordLeft_frame (v : Variant) (x : Ext) (st : LexState) (fs : List Str) :
    (parseRecordLeft v x st fs).entries = st.entries ∧
    st.unresolved ≤ (parseRecordLeft v x st fs).unresolved ∧
    (v.s7 = true → (parseRecordLeft v x st fs).unresolved = st.unresolved) := by
  unfold parseRecordLeft
  repeat' split
  all_goals first
    | exact ⟨rfl, Nat.le_refl _, fun _ => rfl⟩
    | (refine ⟨rfl, ?_, ?_⟩
       · simp only []; omega
       · intro h7; simp [*] at *)

/-- `read_bytes` seen through its result only is `readLexicon` -/
theorem readLexiconP_result (v : Variant) (x : Ext) (st : LexState) (recs : List (Nat × List Str)) :
    readLexicon v x st recs =
      (match readLexiconP v x st recs with
      | (st', .ok ()) => .ok st'
      | (_, .err k l) => .err k l
      | (_, .panic w) => .panic w) := by
  induction recs generalizing st with
  | nil => rfl
  | cons r rest ih =>
    obtain ⟨line, fs⟩ := r
    unfold readLexicon readLexiconP
    cases hp : parseRecord v x st fs with
    | error e => rfl
    | ok st' => exact ih st'

theorem readLexiconP_no_panic (v : Variant) (x : Ext) (st : LexState) (recs : List (Nat × List Str)) :
    (readLexiconP v x st recs).2.isPanic = false := by
  induction recs generalizing st with
  | nil => rfl
  | cons r rest ih =>
    obtain ⟨line, fs⟩ := r
    unfold readLexiconP
    split
    · rfl
    · exact ih _

/-- the invariant of the reader survives a failing `read_bytes`: the rows kept are rows that were
parsed like any other, and the counter is not below the number of inline units -/
theorem readLexiconP_inv {v : Variant} {x : Ext} {st : LexState} {recs : List (Nat × List Str)}
    (hi : LexInv v st) : LexInv v (readLexiconP v x st recs).1 := by
  induction recs generalizing st with
  | nil => exact hi
  | cons r rest ih =>
    obtain ⟨line, fs⟩ := r
    unfold readLexiconP
    cases hp : parseRecord v x st fs with
    | error e =>
      obtain ⟨f1, f2, _⟩ := parseRecordLeft_frame v x st fs
      simp only []
      refine ⟨?_, ?_⟩
      · rw [f1]; exact hi.1
      · rw [f1]; exact Nat.le_trans hi.2 f2
    | ok st' => exact ih (parseRecord_inv hi hp)

theorem readLexB_lex (v : Variant) (x : Ext) (b : Builder) (recs : List (Nat × List Str)) (ce : Option Nat) :
    (readLexB v x b recs ce).1.lex = (readLexiconP v x b.lex recs).1 ∨ (readLexB v x b recs ce).1.lex = b.lex := by
  unfold readLexB
  cases hr : readLexiconP v x b.lex recs with
  | mk st r =>
    cases r with
    | ok u =>
      cases u
      cases ce with
      | none => left; rfl
      | some l => cases hla : v.la <;> simp
    | err k l => cases hla : v.la <;> simp
    | panic w => cases hla : v.la <;> simp

theorem readLexB_no_panic (v : Variant) (x : Ext) (b : Builder) (recs : List (Nat × List Str)) (ce : Option Nat) :
    (readLexB v x b recs ce).2.isPanic = false := by
  have := readLexiconP_no_panic v x b.lex recs
  unfold readLexB
  cases hr : readLexiconP v x b.lex recs with
  | mk st r =>
    rw [hr] at this
    cases r with
    | ok u => cases u; cases ce <;> rfl
    | err k l => rfl
    | panic w => simp [Res.isPanic] at this

/-! ## resolve -/

theorem resolveInline_ok {dicId : Nat} {own : List Entry} {sys : List SysWord} {s : Str} {p : Nat}
    {r : Option Str} {w : Nat} (hd : dicId ≤ 1) (h : resolveInline dicId own sys s p r = some w) : WidOk w := by
  unfold resolveInline at h
  split at h
  · injection h with h; subst h; exact widNew_ok _ _ hd
  · split at h
    · injection h with h; subst h; exact widNew_ok _ _ (by omega)
    · simp at h

theorem inlineCount_cons_ref (w : Nat) (us : List SplitUnit) : inlineCount (.ref w :: us) = inlineCount us := by
  simp [inlineCount, List.filter, SplitUnit.isInline]

theorem resolveUnits_ok {f : Str → Nat → Option Str → Option Nat} (hf : ∀ s p r w, f s p r = some w → WidOk w)
    {us rs : List SplitUnit} {n : Nat} (h : resolveUnits f us = some (rs, n)) (hus : ∀ u ∈ us, UnitWf u) :
    (∀ u ∈ rs, UnitWf u) ∧ inlineCount rs = 0 ∧ rs.length = us.length := by
  induction us generalizing rs n with
  | nil => simp [resolveUnits] at h; obtain ⟨rfl, _⟩ := h; simp [inlineCount]
  | cons u us ih =>
    have hrest : ∀ u ∈ us, UnitWf u := fun u' hu' => hus u' (List.mem_cons_of_mem _ hu')
    cases u with
    | ref w =>
      unfold resolveUnits at h
      split at h
      · rename_i r m hr
        injection h with h; injection h with h1 h2; subst h1
        obtain ⟨i1, i2, i3⟩ := ih hr hrest
        refine ⟨?_, by rw [inlineCount_cons_ref]; exact i2, by simp [i3]⟩
        intro u' hu'
        rcases List.mem_cons.1 hu' with rfl | hm
        · exact hus _ List.mem_cons_self
        · exact i1 u' hm
      · simp at h
    | inline s p r =>
      unfold resolveUnits at h
      split at h
      · simp at h
      · rename_i w hw
        split at h
        · rename_i rs' m hr
          injection h with h; injection h with h1 h2; subst h1
          obtain ⟨i1, i2, i3⟩ := ih hr hrest
          refine ⟨?_, by rw [inlineCount_cons_ref]; exact i2, by simp [i3]⟩
          intro u' hu'
          rcases List.mem_cons.1 hu' with rfl | hm
          · exact hf s p r w hw
          · exact i1 u' hm
        · simp at h

theorem resolveEntries_ok {f : Str → Nat → Option Str → Option Nat} (hf : ∀ s p r w, f s p r = some w → WidOk w)
    (P : Str → Prop) {es rs : List Entry} {line n : Nat} (h : resolveEntries f es line = .ok (rs, n))
    (hes : ∀ e ∈ es, EntryWf e ∧ P e.surface) :
    ∀ e ∈ rs, EntryWf e ∧ P e.surface ∧ NoInline e := by
  induction es generalizing rs n line with
  | nil => simp [resolveEntries] at h; obtain ⟨rfl, _⟩ := h; simp
  | cons e es ih =>
    unfold resolveEntries at h
    split at h
    · simp at h
    · rename_i a na ha
      split at h
      · simp at h
      · rename_i b nb hb
        split at h
        · rename_i rs' m hr
          injection h with h; injection h with h1 h2; subst h1
          obtain ⟨hwf, hp⟩ := hes e List.mem_cons_self
          obtain ⟨a1, a2, _⟩ := resolveUnits_ok hf ha hwf.2.2.1
          obtain ⟨b1, b2, _⟩ := resolveUnits_ok hf hb hwf.2.2.2
          intro e' he'
          rcases List.mem_cons.1 he' with rfl | hm
          · exact ⟨⟨hwf.1, hwf.2.1, a1, b1⟩, hp, by simp [NoInline, entryInline, a2, b2]⟩
          · exact ih hr (fun e'' he'' => hes e'' (List.mem_cons_of_mem _ he'')) e' hm
        · simp at h
        · simp at h

theorem resolveEntries_no_panic (f : Str → Nat → Option Str → Option Nat) (es : List Entry) (line : Nat) :
    (resolveEntries f es line).isPanic = false := by
  induction es generalizing line with
  | nil => rfl
  | cons e es ih =>
    unfold resolveEntries
    split
    · rfl
    · split
      · rfl
      · have := ih (line + 1)
        split
        · rfl
        · rfl
        · rename_i w hw; rw [hw] at this; simp [Res.isPanic] at this

theorem resolve_no_panic (b : Builder) : (resolve b).isPanic = false := by
  unfold resolve
  split
  · rfl
  · have := resolveEntries_no_panic (resolveInline (if b.base.isUser then 1 else 0) b.lex.entries b.base.sysWords) b.lex.entries 0
    split
    · rfl
    · rfl
    · rename_i w hw; rw [hw] at this; simp [Res.isPanic] at this

theorem sum_eq_zero {l : List Nat} (h : l.sum = 0) : ∀ x ∈ l, x = 0 := by
  induction l with
  | nil => simp
  | cons a as ih =>
    simp only [List.sum_cons] at h
    intro x hx
    rcases List.mem_cons.1 hx with rfl | hm
    · omega
    · exact ih (by omega) x hm

theorem sum_zero_of_all {l : List Nat} (h : ∀ x ∈ l, x = 0) : l.sum = 0 := by
  induction l with
  | nil => rfl
  | cons a as ih =>
    simp only [List.sum_cons]
    have := h a List.mem_cons_self
    have := ih (fun x hx => h x (List.mem_cons_of_mem _ hx))
    omega

theorem noInline_of_unresolved_zero {v : Variant} {st : LexState} (hi : LexInv v st) (h0 : st.unresolved = 0) :
    ∀ e ∈ st.entries, NoInline e := by
  intro e he
  have := hi.2
  rw [h0] at this
  exact sum_eq_zero (Nat.le_zero.1 this) _ (List.mem_map.2 ⟨e, he, rfl⟩)

/-- what `compile` may rely on after any sequence of calls.  The last clause is the one the code
as it stands does not have: with the flag cleared by `read_lexicon` (`v.rf`), a set flag means
that no inline unit is left. -/
def BuilderInv (v : Variant) (b : Builder) : Prop :=
  LexInv v b.lex ∧ (v.rf = true → b.resolved = true → ∀ e ∈ b.lex.entries, NoInline e)

theorem init_inv (v : Variant) (base : Base) : BuilderInv v (Builder.init v base) :=
  ⟨⟨by simp [Builder.init], by simp [Builder.init]⟩, fun _ h => by simp [Builder.init] at h⟩

theorem readLex_inv {v : Variant} {x : Ext} {b b' : Builder} {recs : List (Nat × List Str)} {ce : Option Nat}
    (hi : BuilderInv v b) (h : readLex v x b recs ce = .ok b') : BuilderInv v b' := by
  obtain ⟨h1, h2⟩ := readLex_ok hi.1 h
  refine ⟨h1, fun hrf hres => ?_⟩
  rw [h2, hrf] at hres
  cases hres

/-- what `compile` may rely on also holds in the state a FAILED `read_lexicon` leaves: the rows it
kept went through `parse_record` like any other, and the flag was cleared -/
theorem readLexB_inv {v : Variant} {x : Ext} {b : Builder} {recs : List (Nat × List Str)} {ce : Option Nat}
    (hi : BuilderInv v b) : BuilderInv v (readLexB v x b recs ce).1 := by
  refine ⟨?_, fun hrf hres => ?_⟩
  · rcases readLexB_lex v x b recs ce with h | h
    · rw [h]; exact readLexiconP_inv hi.1
    · rw [h]; exact hi.1
  · rw [(readLexB_frame v x b recs ce).2.2.2.2.2, hrf] at hres
    cases hres

theorem resolve_inv {v : Variant} {b b' : Builder} {n : Nat} (hi : BuilderInv v b) (h : resolve b = .ok (b', n)) :
    BuilderInv v b' ∧ ∀ e ∈ b'.lex.entries, NoInline e := by
  unfold resolve at h
  split at h
  · rename_i h0
    injection h with h; injection h with h1 h2; subst h1
    have hn := noInline_of_unresolved_zero hi.1 h0
    exact ⟨⟨hi.1, fun _ _ => hn⟩, hn⟩
  · split at h
    · rename_i es m hr
      injection h with h; injection h with h1 h2; subst h1
      have hd : (if b.base.isUser then 1 else 0) ≤ 1 := by split <;> omega
      have := resolveEntries_ok (fun s p r w hw => resolveInline_ok hd hw)
        (fun s => v.d5 = true → hasNul s = false) hr hi.1.1
      have hn : ∀ e ∈ es, NoInline e := fun e he => (this e he).2.2
      refine ⟨⟨⟨fun e he => ⟨(this e he).1, (this e he).2.1⟩, ?_⟩, fun _ _ => hn⟩, hn⟩
      have hz : (es.map entryInline).sum = 0 :=
        sum_zero_of_all (fun x hx => by
          obtain ⟨e, he, rfl⟩ := List.mem_map.1 hx
          exact hn e he)
      simp only [hz]; exact Nat.zero_le _
    · simp at h
    · simp at h

theorem runOp_inv {v : Variant} {x : Ext} {s s' : Builder × Nat} {op : Op}
    (hi : BuilderInv v s.1) (h : runOp v x s op = .ok s') : BuilderInv v s'.1 := by
  cases op with
  | conn lines =>
    obtain ⟨_, rfl⟩ := runOp_conn h
    obtain ⟨_, f2, f3⟩ := readConnB_frame v s.1 lines
    unfold BuilderInv; simp only [f2, f3]; exact hi
  | connIgn lines =>
    obtain ⟨_, rfl⟩ := runOp_connIgn h
    obtain ⟨_, f2, f3⟩ := readConnB_frame v s.1 lines
    unfold BuilderInv; simp only [f2, f3]; exact hi
  | lex recs ce => obtain ⟨b, hb, rfl⟩ := runOp_lex h; exact readLex_inv hi hb
  | lexIgn recs ce => obtain ⟨_, rfl⟩ := runOp_lexIgn h; exact readLexB_inv hi
  | resolve => obtain ⟨b, n, hb, rfl⟩ := runOp_resolve h; exact (resolve_inv hi hb).1

theorem runOps_inv {v : Variant} {x : Ext} {s s' : Builder × Nat} {ops : List Op}
    (hi : BuilderInv v s.1) (h : runOps v x s ops = .ok s') : BuilderInv v s'.1 := by
  induction ops generalizing s with
  | nil => simp only [runOps, Except.ok.injEq] at h; subst h; exact hi
  | cons op ops ih =>
    obtain ⟨s1, h1, h2⟩ := runOps_cons h
    exact ih (runOp_inv hi h1) h2

theorem prepare_inv {v : Variant} {x : Ext} {inp : Input} {b : Builder} {cnt : Nat}
    (h : prepare v x inp = .ok (b, cnt)) : BuilderInv v b :=
  runOps_inv (s := (Builder.init v inp.base, 0)) (init_inv v inp.base) h

/-! ## validation does not panic on such entries -/

theorem validateWid_no_panic {w max0 max1 : Nat} (h : WidOk w) : (validateWid w max0 max1).isPanic = false := by
  unfold validateWid
  unfold WidOk at h
  split
  · split <;> rfl
  · split <;> rfl
  · rename_i h0 h1
    exfalso
    have : widDic w = 0 ∨ widDic w = 1 := by omega
    rcases this with h' | h'
    · exact h0 h'
    · exact h1 h'

theorem validateWids_no_panic {max0 max1 : Nat} {ws : List Nat} (h : ∀ w ∈ ws, WidOk w) :
    (validateWids max0 max1 ws).isPanic = false := by
  induction ws with
  | nil => rfl
  | cons w ws ih =>
    unfold validateWids
    exact andThen_not_panic (validateWid_no_panic (h w List.mem_cons_self))
      (ih fun w' hw' => h w' (List.mem_cons_of_mem _ hw'))

theorem validateUnits_no_panic {max0 max1 : Nat} {us : List SplitUnit} (h : ∀ u ∈ us, UnitWf u)
    (hn : inlineCount us = 0) : (validateUnits max0 max1 us).isPanic = false := by
  induction us with
  | nil => rfl
  | cons u us ih =>
    cases u with
    | inline s p r => simp [inlineCount, List.filter, SplitUnit.isInline] at hn
    | ref w =>
      unfold validateUnits
      rw [inlineCount_cons_ref] at hn
      exact andThen_not_panic (validateWid_no_panic (h _ List.mem_cons_self))
        (ih (fun u' hu' => h u' (List.mem_cons_of_mem _ hu')) hn)

theorem atLine_isPanic {α : Type} (r : Res α) (n : Nat) : (r.atLine n).isPanic = r.isPanic := by
  cases r <;> rfl

theorem validateEntry_no_panic {v : Variant} {ml mr : Int} {max0 max1 : Nat} {e : Entry}
    (hw : EntryWf e) (hn : NoInline e) : (validateEntry v ml mr max0 max1 e).isPanic = false := by
  unfold validateEntry
  have hn' : inlineCount e.splitsA = 0 ∧ inlineCount e.splitsB = 0 := by
    unfold NoInline entryInline at hn; omega
  split
  · rfl
  · split
    · rfl
    · refine andThen_not_panic ?_ (andThen_not_panic (validateUnits_no_panic hw.2.2.1 hn'.1)
        (andThen_not_panic (validateUnits_no_panic hw.2.2.2 hn'.2) (validateWids_no_panic hw.2.1)))
      split
      · rename_i hne
        rcases hw.1 with h | h
        · exact absurd h hne
        · exact validateWid_no_panic h
      · rfl

theorem validateFrom_no_panic {v : Variant} {ml mr : Int} {max0 max1 : Nat} {es : List Entry} {line : Nat}
    (h : ∀ e ∈ es, EntryWf e ∧ NoInline e) : (validateFrom v ml mr max0 max1 es line).isPanic = false := by
  induction es generalizing line with
  | nil => rfl
  | cons e es ih =>
    unfold validateFrom
    refine andThen_not_panic ?_ (ih fun e' he' => h e' (List.mem_cons_of_mem _ he'))
    rw [atLine_isPanic]
    exact validateEntry_no_panic (h e List.mem_cons_self).1 (h e List.mem_cons_self).2

theorem validateEntries_no_panic {v : Variant} {ml mr : Int} {ns : Option Nat} {es : List Entry}
    (h : ∀ e ∈ es, EntryWf e ∧ NoInline e) : (validateEntries v ml mr ns es).isPanic = false := by
  unfold validateEntries
  split <;> exact validateFrom_no_panic h

/-! ## … and on well-formed entries its only panic is the one about an inline unit -/

theorem andThen_panic {r n : Res Unit} {w : PanicWhy} (h : r.andThen n = .panic w) :
    r = .panic w ∨ (r = .ok () ∧ n = .panic w) := by
  cases r with
  | ok u => right; exact ⟨rfl, by simpa [Res.andThen] using h⟩
  | err k l => simp [Res.andThen] at h
  | panic w' => left; simpa [Res.andThen] using h

theorem not_panic_of_isPanic {α : Type} {r : Res α} {w : PanicWhy} (h : r.isPanic = false) : r ≠ .panic w := by
  intro he; rw [he] at h; simp [Res.isPanic] at h

theorem validateUnits_panic {max0 max1 : Nat} {us : List SplitUnit} {w : PanicWhy} (h : ∀ u ∈ us, UnitWf u)
    (hp : validateUnits max0 max1 us = .panic w) : w = .unresolvedSplit ∧ inlineCount us ≠ 0 := by
  induction us with
  | nil => simp [validateUnits] at hp
  | cons u us ih =>
    cases u with
    | inline s p r =>
      simp only [validateUnits, Res.panic.injEq] at hp
      exact ⟨hp.symm, by simp [inlineCount, List.filter, SplitUnit.isInline]⟩
    | ref w' =>
      unfold validateUnits at hp
      rcases andThen_panic hp with h1 | ⟨_, h2⟩
      · exact absurd h1 (not_panic_of_isPanic (validateWid_no_panic (h _ List.mem_cons_self)))
      · rw [inlineCount_cons_ref]
        exact ih (fun u' hu' => h u' (List.mem_cons_of_mem _ hu')) h2

theorem validateEntry_panic {v : Variant} {ml mr : Int} {max0 max1 : Nat} {e : Entry} {w : PanicWhy}
    (hw : EntryWf e) (hp : validateEntry v ml mr max0 max1 e = .panic w) :
    w = .unresolvedSplit ∧ ¬ NoInline e := by
  unfold validateEntry at hp
  split at hp
  · simp at hp
  · split at hp
    · simp at hp
    · rcases andThen_panic hp with h1 | ⟨_, h2⟩
      · exfalso
        split at h1
        · rename_i hne
          rcases hw.1 with h | h
          · exact absurd h hne
          · exact not_panic_of_isPanic (validateWid_no_panic h) h1
        · simp at h1
      · rcases andThen_panic h2 with h3 | ⟨_, h4⟩
        · obtain ⟨k1, k2⟩ := validateUnits_panic hw.2.2.1 h3
          exact ⟨k1, by unfold NoInline entryInline; omega⟩
        · rcases andThen_panic h4 with h5 | ⟨_, h6⟩
          · obtain ⟨k1, k2⟩ := validateUnits_panic hw.2.2.2 h5
            exact ⟨k1, by unfold NoInline entryInline; omega⟩
          · exact absurd h6 (not_panic_of_isPanic (validateWids_no_panic hw.2.1))

theorem atLine_panic {α : Type} {r : Res α} {n : Nat} {w : PanicWhy} (h : r.atLine n = .panic w) : r = .panic w := by
  cases r <;> simp [Res.atLine] at h ⊢; exact h

theorem validateFrom_panic {v : Variant} {ml mr : Int} {max0 max1 : Nat} {es : List Entry} {line : Nat} {w : PanicWhy}
    (h : ∀ e ∈ es, EntryWf e) (hp : validateFrom v ml mr max0 max1 es line = .panic w) :
    w = .unresolvedSplit ∧ ∃ e ∈ es, ¬ NoInline e := by
  induction es generalizing line with
  | nil => simp [validateFrom] at hp
  | cons e es ih =>
    unfold validateFrom at hp
    rcases andThen_panic hp with h1 | ⟨_, h2⟩
    · obtain ⟨k1, k2⟩ := validateEntry_panic (h e List.mem_cons_self) (atLine_panic h1)
      exact ⟨k1, e, List.mem_cons_self, k2⟩
    · obtain ⟨k1, e', he', k2⟩ := ih (fun e' he' => h e' (List.mem_cons_of_mem _ he')) h2
      exact ⟨k1, e', List.mem_cons_of_mem _ he', k2⟩

/-- the `panic!` of `validate_wid` is unreachable, the one of `validate_entries` needs an entry
that still has an inline unit -/
theorem validateEntries_panic {v : Variant} {ml mr : Int} {ns : Option Nat} {es : List Entry} {w : PanicWhy}
    (h : ∀ e ∈ es, EntryWf e) (hp : validateEntries v ml mr ns es = .panic w) :
    w = .unresolvedSplit ∧ ∃ e ∈ es, ¬ NoInline e := by
  unfold validateEntries at hp
  split at hp <;> exact validateFrom_panic h hp

/-! ## the script has no panic step -/

def Step.isPanic : Step → Bool
  | .panic _ => true
  | _ => false

def NoPanicSteps (l : List Step) : Prop := ∀ s ∈ l, s.isPanic = false

theorem noPanic_append {a b : List Step} (ha : NoPanicSteps a) (hb : NoPanicSteps b) : NoPanicSteps (a ++ b) := by
  intro s hs
  rcases List.mem_append.1 hs with h | h
  · exact ha s h
  · exact hb s h

theorem noPanic_cons {s : Step} {l : List Step} (hs : s.isPanic = false) (hl : NoPanicSteps l) :
    NoPanicSteps (s :: l) := by
  intro s' hs'
  rcases List.mem_cons.1 hs' with rfl | h
  · exact hs
  · exact hl s' h

theorem noPanic_nil : NoPanicSteps [] := by intro s hs; cases hs

theorem exec_no_panic {limit : Option Nat} {steps : List Step} {pos : Nat} (h : NoPanicSteps steps) :
    (exec limit steps pos).isPanic = false := by
  induction steps generalizing pos with
  | nil => rfl
  | cons s rest ih =>
    have hr : NoPanicSteps rest := fun s' hs' => h s' (List.mem_cons_of_mem _ hs')
    cases s with
    | write m =>
      simp only [exec]
      split
      · exact ih hr
      · split
        · split
          · rfl
          · exact ih hr
        · exact ih hr
    | abort k l => rfl
    | panic w => have := h _ List.mem_cons_self; simp [Step.isPanic] at this

theorem headerSteps_noPanic (n : Nat) : NoPanicSteps (headerSteps n) := by
  unfold headerSteps
  split
  · exact noPanic_cons rfl noPanic_nil
  · refine noPanic_append (noPanic_cons rfl (noPanic_cons rfl (noPanic_cons rfl noPanic_nil))) ?_
    intro s hs
    rw [List.eq_of_mem_replicate hs]; rfl

theorem u16Steps_noPanic (line : Nat) (s : Str) : NoPanicSteps (u16Steps line s) := by
  unfold u16Steps
  split
  · exact noPanic_cons rfl noPanic_nil
  · split
    · exact noPanic_cons rfl noPanic_nil
    · exact noPanic_cons rfl (noPanic_cons rfl noPanic_nil)

theorem posRowsSteps_noPanic (ks : List PosKey) (line : Nat) : NoPanicSteps (posRowsSteps ks line) := by
  induction ks generalizing line with
  | nil => exact noPanic_nil
  | cons k ks ih =>
    unfold posRowsSteps
    refine noPanic_append ?_ (ih _)
    intro s hs
    obtain ⟨f, _, hf⟩ := List.mem_flatMap.1 hs
    exact u16Steps_noPanic line f s hf

theorem posSteps_noPanic (tab : List PosKey) (start : Nat) : NoPanicSteps (posSteps tab start) :=
  noPanic_cons rfl (posRowsSteps_noPanic _ _)

theorem connSteps_noPanic (c : Conn) : NoPanicSteps (connSteps c) := by
  unfold connSteps
  split
  · exact noPanic_cons rfl noPanic_nil
  · split
    · exact noPanic_cons rfl noPanic_nil
    · exact noPanic_cons rfl (noPanic_cons rfl (noPanic_cons rfl noPanic_nil))

theorem paramSteps_noPanic (es : List Entry) : NoPanicSteps (paramSteps es) := by
  induction es with
  | nil => exact noPanic_nil
  | cons e es ih => exact noPanic_cons rfl (noPanic_cons rfl (noPanic_cons rfl ih))

theorem offsetSteps_noPanic (es : List Entry) (line : Nat) : NoPanicSteps (offsetSteps es line) := by
  induction es generalizing line with
  | nil => exact noPanic_nil
  | cons e es ih =>
    unfold offsetSteps
    split
    · exact noPanic_cons rfl (noPanic_cons rfl noPanic_nil)
    · exact noPanic_cons rfl (ih _)

theorem lexSteps_noPanic (es : List Entry) : NoPanicSteps (lexSteps es) :=
  noPanic_cons rfl (noPanic_append (noPanic_append (paramSteps_noPanic _) (offsetSteps_noPanic _ _))
    (noPanic_cons rfl noPanic_nil))

theorem addKey_fst {k : Str} {acc : List (Str × Nat)} :
    ∀ q ∈ addKey k acc, q.1 = k ∨ ∃ q' ∈ acc, q'.1 = q.1 := by
  induction acc with
  | nil => intro q hq; simp [addKey] at hq; left; rw [hq]
  | cons a acc ih =>
    obtain ⟨k', n⟩ := a
    intro q hq
    unfold addKey at hq
    split at hq
    · rcases List.mem_cons.1 hq with rfl | hm
      · right; exact ⟨(k', n), List.mem_cons_self, rfl⟩
      · right; exact ⟨q, List.mem_cons_of_mem _ hm, rfl⟩
    · rcases List.mem_cons.1 hq with rfl | hm
      · right; exact ⟨(k', n), List.mem_cons_self, rfl⟩
      · rcases ih q hm with h | ⟨q', hq', he⟩
        · exact Or.inl h
        · right; exact ⟨q', List.mem_cons_of_mem _ hq', he⟩

theorem foldl_addKey_fst (l : List Entry) (acc : List (Str × Nat)) :
    ∀ q ∈ l.foldl (fun acc e => addKey e.surface acc) acc,
      (∃ e ∈ l, e.surface = q.1) ∨ ∃ q' ∈ acc, q'.1 = q.1 := by
  induction l generalizing acc with
  | nil => intro q hq; right; exact ⟨q, hq, rfl⟩
  | cons e l ih =>
    intro q hq
    simp only [List.foldl_cons] at hq
    rcases ih _ q hq with ⟨e', he', hs⟩ | ⟨q', hq', he⟩
    · left; exact ⟨e', List.mem_cons_of_mem _ he', hs⟩
    · rcases addKey_fst q' hq' with h | ⟨q'', hq'', he'⟩
      · left; exact ⟨e, List.mem_cons_self, by rw [← he, h]⟩
      · right; exact ⟨q'', hq'', by rw [he', he]⟩

theorem indexKeys_fst (es : List Entry) : ∀ q ∈ indexKeys es, ∃ e ∈ es, e.surface = q.1 := by
  intro q hq
  unfold indexKeys at hq
  rcases foldl_addKey_fst _ [] q hq with ⟨e, he, hs⟩ | ⟨q', hq', _⟩
  · exact ⟨e, (List.mem_filter.1 he).1, hs⟩
  · cases hq'

theorem indexSteps_noPanic {v : Variant} {es : List Entry} (tl : Nat) (h4 : v.d4 = true)
    (hnul : ∀ e ∈ es, hasNul e.surface = false) : NoPanicSteps (indexSteps v es tl) := by
  unfold indexSteps
  split
  · exact noPanic_cons rfl noPanic_nil
  · unfold indexStepsK
    split
    · exact noPanic_cons rfl noPanic_nil
    · split
      · first
          | exact noPanic_cons rfl noPanic_nil
          | (split
             · exact noPanic_cons rfl noPanic_nil
             · rename_i hn; exact absurd h4 hn)
      · split
        · rename_i hany
          exfalso
          obtain ⟨q, hq, hn⟩ := List.any_eq_true.1 hany
          obtain ⟨e, he, hs⟩ := indexKeys_fst es q hq
          have := hnul e he
          rw [hs, hn] at this
          cases this
        · exact noPanic_cons rfl (noPanic_cons rfl (noPanic_cons rfl (noPanic_cons rfl noPanic_nil)))

theorem compileSteps_noPanic {v : Variant} {b : Builder} (dl tl : Nat) (h4 : v.d4 = true)
    (hnul : ∀ e ∈ b.lex.entries, hasNul e.surface = false) : NoPanicSteps (compileSteps v b dl tl) := by
  unfold compileSteps
  exact noPanic_append (noPanic_append (noPanic_append (noPanic_append (headerSteps_noPanic _)
    (posSteps_noPanic _ _)) (connSteps_noPanic _)) (indexSteps_noPanic tl h4 hnul)) (lexSteps_noPanic _)

/-- `check_if_resolved` passed: no inline unit is left — provided the flag can be trusted -/
theorem checked_noInline {v : Variant} {b : Builder} (hrf : v.rf = true) (hi : BuilderInv v b)
    (hc : ¬ (b.lex.unresolved > 0 ∧ (!b.resolved) = true)) : ∀ e ∈ b.lex.entries, NoInline e := by
  by_cases h0 : b.lex.unresolved = 0
  · exact noInline_of_unresolved_zero hi.1 h0
  · cases hr : b.resolved with
    | true => exact hi.2 hrf hr
    | false => exact absurd ⟨by omega, by simp [hr]⟩ hc

theorem compile_no_panic {v : Variant} {b : Builder} (dl tl : Nat) (limit : Option Nat)
    (h4 : v.d4 = true) (h5 : v.d5 = true) (hrf : v.rf = true) (hi : BuilderInv v b) :
    (compile v b dl tl limit).isPanic = false := by
  unfold compile
  split
  · rfl
  · rename_i hc
    have hall : ∀ e ∈ b.lex.entries, EntryWf e ∧ NoInline e :=
      fun e he => ⟨(hi.1.1 e he).1, checked_noInline hrf hi hc e he⟩
    have hv := validateEntries_no_panic (v := v) (ml := b.maxLeft) (mr := b.maxRight) (ns := b.base.numSystem) hall
    split
    · rfl
    · rename_i w hw; rw [hw] at hv; simp [Res.isPanic] at hv
    · have he := exec_no_panic (limit := limit) (pos := 0)
        (compileSteps_noPanic (v := v) (b := b) dl tl h4 (fun e he => (hi.1.1 e he).2 h5))
      split
      · rfl
      · rfl
      · rename_i w hw; rw [hw] at he; simp [Res.isPanic] at he

/-! ## the matrix reader -/

theorem writeElem_no_panic {v : Variant} (h2 : v.d2 = true) (c : Conn) (l r : Int) :
    (writeElem v c l r).isPanic = false := by
  unfold writeElem
  simp only [h2, ↓reduceIte]
  split
  · rfl
  · split <;> rfl

theorem parseLine_no_panic {v : Variant} (h2 : v.d2 = true) (c : Conn) (line : Str) :
    (parseLine v c line).isPanic = false := by
  unfold parseLine
  repeat' split
  all_goals first | rfl | (rename_i hw; have hn := not_panic_of_isPanic (writeElem_no_panic h2 c _ _) hw; exact hn.elim)

theorem readBody_no_panic {v : Variant} (h2 : v.d2 = true) (c : Conn) (lines : List (Option Str)) (n : Nat)
    (cells : List (Nat × Int)) : (readBody v c lines n cells).2.isPanic = false := by
  induction lines generalizing n cells with
  | nil => rfl
  | cons l ls ih =>
    cases l with
    | none => rfl
    | some l =>
      unfold readBody
      split
      · exact ih _ _
      · have := parseLine_no_panic h2 c l
        rw [← atLine_isPanic _ (n + 1)] at this
        split
        · exact ih _ _
        · rfl
        · rename_i w hw; rw [hw] at this; simp [Res.isPanic] at this

theorem readHead_no_panic {v : Variant} (h1 : v.d1 = true) (lines : List (Option Str)) (acc : Str) (n : Nat) :
    (readHead v lines acc n).2.isPanic = false := by
  induction lines generalizing acc n with
  | nil => simp [readHead, h1, Res.isPanic]
  | cons l ls ih =>
    cases l with
    | none => rfl
    | some l =>
      unfold readHead
      split
      · exact ih _ _
      · rfl

theorem readConn_no_panic {v : Variant} (h1 : v.d1 = true) (h2 : v.d2 = true) (buf : ConnBuf)
    (lines : List (Option Str)) : (readConn v buf lines).2.isPanic = false := by
  unfold readConn
  have hh := readHead_no_panic h1 lines (if v.s5 then [] else buf.line) 0
  cases hhd : readHead v lines (if v.s5 then [] else buf.line) 0 with
  | mk hd r =>
    rw [hhd] at hh
    cases r with
    | err k l => rfl
    | panic w => simp [Res.isPanic] at hh
    | ok p =>
      obtain ⟨n, rest⟩ := p
      simp only []
      cases hph : parseHeader hd with
      | error e => rfl
      | ok q =>
        obtain ⟨l, r⟩ := q
        simp only []
        split
        · rfl
        · split
          · rfl
          · exact readBody_no_panic h2 _ rest n _

theorem readConnB_no_panic {v : Variant} (h1 : v.d1 = true) (h2 : v.d2 = true) (b : Builder)
    (lines : List (Option Str)) : (readConnB v b lines).2.isPanic = false := by
  rw [(readConnB_eq v b lines).1]; exact readConn_no_panic h1 h2 _ lines

theorem toExcept_not_panic {α : Type} {st : Stage} {r : Res α} (h : r.isPanic = false) :
    ∀ f, r.toExcept st = .error f → ∀ s w, f ≠ .panic s w := by
  intro f hf s w
  cases r with
  | ok a => simp [Res.toExcept] at hf
  | err k l => simp [Res.toExcept] at hf; subst hf; simp
  | panic w' => simp [Res.isPanic] at h

theorem runOp_no_panic {v : Variant} {x : Ext} {s : Builder × Nat} {op : Op} (h1 : v.d1 = true) (h2 : v.d2 = true) :
    ∀ f, runOp v x s op = .error f → ∀ st w, f ≠ .panic st w := by
  intro f hf
  cases op with
  | conn lines =>
    simp only [runOp] at hf
    have hp := readConnB_no_panic h1 h2 s.1 lines
    cases hc : readConnB v s.1 lines with
    | mk b r =>
      rw [hc] at hp
      cases r with
      | ok u => simp [hc] at hf
      | err k l => simp only [hc, Except.error.injEq] at hf; subst hf; intro st w; simp
      | panic w => simp [Res.isPanic] at hp
  | connIgn lines =>
    simp only [runOp] at hf
    have hp := readConnB_no_panic h1 h2 s.1 lines
    cases hc : readConnB v s.1 lines with
    | mk b r =>
      rw [hc] at hp
      cases r with
      | ok u => simp [hc] at hf
      | err k l => simp [hc] at hf
      | panic w => simp [Res.isPanic] at hp
  | lex recs ce =>
    simp only [runOp] at hf
    cases hc : (readLex v x s.1 recs ce).toExcept .lex with
    | error f' =>
      simp only [hc] at hf; injection hf with hf; subst hf
      exact toExcept_not_panic (readLex_no_panic v x s.1 recs ce) _ hc
    | ok c => simp [hc] at hf
  | lexIgn recs ce =>
    simp only [runOp] at hf
    have hp := readLexB_no_panic v x s.1 recs ce
    cases hc : readLexB v x s.1 recs ce with
    | mk b r =>
      rw [hc] at hp
      cases r with
      | ok u => simp [hc] at hf
      | err k l => simp [hc] at hf
      | panic w => simp [Res.isPanic] at hp
  | resolve =>
    simp only [runOp] at hf
    cases hc : (resolve s.1).toExcept .resolve with
    | error f' =>
      simp only [hc] at hf; injection hf with hf; subst hf
      exact toExcept_not_panic (resolve_no_panic s.1) _ hc
    | ok c => simp [hc] at hf

theorem runOps_no_panic {v : Variant} {x : Ext} {s : Builder × Nat} {ops : List Op} (h1 : v.d1 = true) (h2 : v.d2 = true) :
    ∀ f, runOps v x s ops = .error f → ∀ st w, f ≠ .panic st w := by
  induction ops generalizing s with
  | nil => intro f hf; simp [runOps] at hf
  | cons op ops ih =>
    intro f hf
    simp only [runOps] at hf
    cases ho : runOp v x s op with
    | error f' =>
      simp only [ho] at hf; injection hf with hf; subst hf
      exact runOp_no_panic h1 h2 _ ho
    | ok s' => simp only [ho] at hf; exact ih _ hf

/-- no call before `compile` panics once the matrix reader is repaired -/
theorem prepare_no_panic {v : Variant} {x : Ext} {inp : Input} (h1 : v.d1 = true) (h2 : v.d2 = true) :
    ∀ f, prepare v x inp = .error f → ∀ s w, f ≠ .panic s w :=
  fun f hf => runOps_no_panic h1 h2 f hf

theorem build_no_panic {v : Variant} (x : Ext) (inp : Input) (limit : Option Nat)
    (h1 : v.d1 = true) (h2 : v.d2 = true) (h4 : v.d4 = true) (h5 : v.d5 = true) (hrf : v.rf = true) :
    ∀ s w, build v x inp limit ≠ .panic s w := by
  intro s w
  unfold build
  cases hp : prepare v x inp with
  | error f =>
    have := prepare_no_panic (x := x) (inp := inp) h1 h2 f hp
    cases f with
    | err s' k l => simp [Fail.toOutcome]
    | panic s' w' => exact absurd rfl (this s' w')
  | ok p =>
    obtain ⟨b, cnt⟩ := p
    have hi := prepare_inv hp
    have hc := compile_no_panic inp.descLen inp.trieLen limit h4 h5 hrf hi
    simp only [finish]
    cases hcmp : compile v b inp.descLen inp.trieLen limit with
    | ok r => simp
    | err k l => simp
    | panic w' => rw [hcmp] at hc; simp [Res.isPanic] at hc

/-! ## which panics exist at all (any variant, in particular the code as it stands) -/

theorem exec_panic_mem {limit : Option Nat} {steps : List Step} {pos : Nat} {w : PanicWhy}
    (h : exec limit steps pos = .panic w) : Step.panic w ∈ steps := by
  induction steps generalizing pos with
  | nil => simp [exec] at h
  | cons s rest ih =>
    cases s with
    | write m =>
      simp only [exec] at h
      split at h
      · exact List.mem_cons_of_mem _ (ih h)
      · split at h
        · split at h
          · simp at h
          · exact List.mem_cons_of_mem _ (ih h)
        · exact List.mem_cons_of_mem _ (ih h)
    | abort k l => simp [exec] at h
    | panic w' => simp only [exec] at h; injection h with h; subst h; exact List.mem_cons_self

theorem indexSteps_panics {v : Variant} {es : List Entry} {tl : Nat} {w : PanicWhy}
    (h : Step.panic w ∈ indexSteps v es tl) :
    (w = .emptyKeys ∧ v.d4 = false ∧ (es.filter Entry.shouldIndex) = []) ∨
    (w = .nulKey ∧ ∃ e ∈ es, e.shouldIndex = true ∧ hasNul e.surface = true) := by
  unfold indexSteps at h
  split at h
  · simp at h
  · unfold indexStepsK at h
    split at h
    · simp at h
    · split at h
      · rename_i hemp
        split at h
        · simp at h
        · rename_i h4
          simp only [List.mem_singleton, Step.panic.injEq] at h
          left
          refine ⟨h, by simpa using h4, ?_⟩
          -- an empty key list means no indexable entry
          cases hf : es.filter Entry.shouldIndex with
          | nil => rfl
          | cons e rest =>
            exfalso
            unfold indexKeys at hemp
            rw [hf, List.foldl_cons] at hemp
            have hne : ∀ (l : List Entry) (acc : List (Str × Nat)), acc ≠ [] →
                l.foldl (fun acc e => addKey e.surface acc) acc ≠ [] := by
              intro l
              induction l with
              | nil => intro acc h; exact h
              | cons e' l ih =>
                intro acc hacc
                simp only [List.foldl_cons]
                apply ih
                cases acc with
                | nil => exact absurd rfl hacc
                | cons a acc => obtain ⟨k', n⟩ := a; unfold addKey; split <;> simp
            have := hne rest (addKey e.surface []) (by simp [addKey])
            cases hk : List.foldl (fun acc e => addKey e.surface acc) (addKey e.surface []) rest with
            | nil => exact this hk
            | cons a l => rw [hk] at hemp; simp at hemp
      · split at h
        · rename_i hany
          simp only [List.mem_singleton, Step.panic.injEq] at h
          right
          obtain ⟨q, hq, hn⟩ := List.any_eq_true.1 hany
          unfold indexKeys at hq
          rcases foldl_addKey_fst _ [] q hq with ⟨e, he, hs⟩ | ⟨q', hq', _⟩
          · exact ⟨h, e, (List.mem_filter.1 he).1, (List.mem_filter.1 he).2, by rw [hs]; exact hn⟩
          · cases hq'
        · simp at h

/-- a panic of `compile` is one of the two panics of the index step, or — with the flag as the
code has it — the `panic!` of `validate_entries` about an inline unit -/
theorem compile_panic_kind {v : Variant} {b : Builder} {dl tl : Nat} {limit : Option Nat} {w : PanicWhy}
    (hi : BuilderInv v b) (h : compile v b dl tl limit = .panic w) :
    (w = .emptyKeys ∧ v.d4 = false ∧ (b.lex.entries.filter Entry.shouldIndex) = []) ∨
    (w = .nulKey ∧ ∃ e ∈ b.lex.entries, e.shouldIndex = true ∧ hasNul e.surface = true) ∨
    (w = .unresolvedSplit ∧ v.rf = false ∧ b.resolved = true ∧ ∃ e ∈ b.lex.entries, ¬ NoInline e) := by
  unfold compile at h
  split at h
  · simp at h
  · rename_i hc
    split at h
    · simp at h
    · rename_i w' hw
      injection h with h; subst h
      obtain ⟨k1, e, he, k2⟩ := validateEntries_panic (fun e he => (hi.1.1 e he).1) hw
      right; right
      refine ⟨k1, ?_, ?_, e, he, k2⟩
      · cases hrf : v.rf with
        | false => rfl
        | true => exact absurd (checked_noInline hrf hi hc e he) k2
      · cases hr : b.resolved with
        | true => rfl
        | false =>
          exfalso
          have h0 : b.lex.unresolved = 0 := by
            by_cases h0 : b.lex.unresolved = 0
            · exact h0
            · exact absurd ⟨by omega, by simp [hr]⟩ hc
          exact k2 (noInline_of_unresolved_zero hi.1 h0 e he)
    · split at h
      · simp at h
      · simp at h
      · rename_i w' hw
        injection h with h; subst h
        have hm := exec_panic_mem hw
        unfold compileSteps at hm
        simp only [List.mem_append] at hm
        rcases hm with (((hm | hm) | hm) | hm) | hm
        · have := headerSteps_noPanic dl _ hm; simp [Step.isPanic] at this
        · have := posSteps_noPanic _ _ _ hm; simp [Step.isPanic] at this
        · have := connSteps_noPanic _ _ hm; simp [Step.isPanic] at this
        · rcases indexSteps_panics hm with h' | h'
          · exact Or.inl h'
          · exact Or.inr (Or.inl h')
        · have := lexSteps_noPanic _ _ hm; simp [Step.isPanic] at this

theorem runOp_panic_stage {v : Variant} {x : Ext} {s : Builder × Nat} {op : Op} {st : Stage} {w : PanicWhy}
    (hf : runOp v x s op = .error (.panic st w)) : st = .conn := by
  cases op with
  | conn lines =>
    simp only [runOp] at hf
    cases hc : readConnB v s.1 lines with
    | mk b r =>
      cases r with
      | ok u => simp [hc] at hf
      | err k l => simp [hc] at hf
      | panic w' => simp [hc] at hf; exact hf.1.symm
  | connIgn lines =>
    simp only [runOp] at hf
    cases hc : readConnB v s.1 lines with
    | mk b r =>
      cases r with
      | ok u => simp [hc] at hf
      | err k l => simp [hc] at hf
      | panic w' => simp [hc] at hf; exact hf.1.symm
  | lex recs ce =>
    simp only [runOp] at hf
    cases hc : (readLex v x s.1 recs ce).toExcept .lex with
    | error f' =>
      simp only [hc] at hf; injection hf with hf; subst hf
      exact absurd rfl (toExcept_not_panic (readLex_no_panic v x s.1 recs ce) _ hc st w)
    | ok c => simp [hc] at hf
  | lexIgn recs ce =>
    simp only [runOp] at hf
    have hp := readLexB_no_panic v x s.1 recs ce
    cases hc : readLexB v x s.1 recs ce with
    | mk b r =>
      rw [hc] at hp
      cases r with
      | ok u => simp [hc] at hf
      | err k l => simp [hc] at hf
      | panic w' => simp [Res.isPanic] at hp
  | resolve =>
    simp only [runOp] at hf
    cases hc : (resolve s.1).toExcept .resolve with
    | error f' =>
      simp only [hc] at hf; injection hf with hf; subst hf
      exact absurd rfl (toExcept_not_panic (resolve_no_panic s.1) _ hc st w)
    | ok c => simp [hc] at hf

theorem runOps_panic_stage {v : Variant} {x : Ext} {s0 : Builder × Nat} {ops : List Op} {s : Stage} {w : PanicWhy}
    (hf : runOps v x s0 ops = .error (.panic s w)) : s = .conn := by
  induction ops generalizing s0 with
  | nil => simp [runOps] at hf
  | cons op ops ih =>
    simp only [runOps] at hf
    cases ho : runOp v x s0 op with
    | error f' =>
      simp only [ho] at hf; injection hf with hf; subst hf
      exact runOp_panic_stage ho
    | ok s' => simp only [ho] at hf; exact ih hf

/-- a panic before `compile` is a panic of the matrix reader -/
theorem prepare_panic_stage {v : Variant} {x : Ext} {inp : Input} {s : Stage} {w : PanicWhy}
    (hf : prepare v x inp = .error (.panic s w)) : s = .conn :=
  runOps_panic_stage hf

theorem build_panic_kind {v : Variant} {x : Ext} {inp : Input} {limit : Option Nat} {s : Stage} {w : PanicWhy}
    (h : build v x inp limit = .panic s w) :
    s = .conn ∨ (s = .compile ∧ ((w = .emptyKeys ∧ v.d4 = false) ∨ (w = .nulKey ∧ v.d5 = false) ∨
      (w = .unresolvedSplit ∧ v.rf = false))) := by
  unfold build at h
  cases hp : prepare v x inp with
  | error f =>
    simp only [hp] at h
    cases f with
    | err s' k l => simp [Fail.toOutcome] at h
    | panic s' w' =>
      simp only [Fail.toOutcome, Outcome.panic.injEq] at h
      obtain ⟨rfl, rfl⟩ := h
      exact Or.inl (prepare_panic_stage hp)
  | ok p =>
    obtain ⟨b, cnt⟩ := p
    simp only [hp, finish] at h
    have hi := prepare_inv hp
    cases hcmp : compile v b inp.descLen inp.trieLen limit with
    | ok r => simp [hcmp] at h
    | err k l => simp [hcmp] at h
    | panic w' =>
      simp only [hcmp, Outcome.panic.injEq] at h
      obtain ⟨rfl, rfl⟩ := h
      right
      refine ⟨rfl, ?_⟩
      rcases compile_panic_kind hi hcmp with ⟨h1, h2, _⟩ | ⟨h1, e, he, _, hn⟩ | ⟨h1, h2, _⟩
      · exact Or.inl ⟨h1, h2⟩
      · right; left
        refine ⟨h1, ?_⟩
        cases h5 : v.d5 with
        | false => rfl
        | true => have := (hi.1.1 e he).2 h5; rw [this] at hn; cases hn
      · exact Or.inr (Or.inr ⟨h1, h2⟩)

end Build
