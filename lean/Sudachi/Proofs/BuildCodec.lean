import Sudachi.Model.BuildLoad
import Sudachi.Proofs.BuildShape
import Sudachi.Proofs.BuildLimits
import Sudachi.Proofs.CodecFile
import Sudachi.Model.Oov
/-!
# C06's accepted builder state is a builder state of C05's writer within the format limits

`BuildLoad.toCodec` translates the `Build.Dict` a successful `Build.compile` returns into a
`Codec.CompileInput`.  Here: the translated state satisfies `Codec.FileOk` (every clause but the 4 GiB bound
on the file, which is a hypothesis on the external trie blob's size as much as on the input) and passes
`Codec.validateEntries` - so `C05.dict_roundtrip` applies to it.
-/
namespace BuildLoad
open Build

/-! ## strings -/

theorem isScalar_toNat (c : Char) : Codec.IsScalar c.toNat := by
  have h := c.valid
  simp only [UInt32.isValidChar, Nat.isValidChar] at h
  unfold Codec.IsScalar Char.toNat
  omega

theorem scalars_str (s : Build.Str) : Codec.Scalars (str s) := by
  intro c hc
  simp only [str, List.mem_map] at hc
  obtain ⟨ch, _, rfl⟩ := hc
  exact isScalar_toNat ch

theorem units_length (s : Build.Str) : (Codec.units (str s)).length = utf16Len s := by
  induction s with
  | nil => rfl
  | cons c cs ih =>
    have h1 : Codec.units (str (c :: cs)) = Codec.encodeUtf16 c.toNat ++ Codec.units (str cs) := by
      simp [Codec.units, str]
    have h2 : utf16Len (c :: cs) = utf16Units c + utf16Len cs := by simp [utf16Len]
    rw [h1, h2, List.length_append, ih]
    congr 1
    unfold Codec.encodeUtf16 utf16Units
    by_cases h : c.toNat < 0x10000
    · have : ¬ c.toNat ≥ 0x10000 := by omega
      simp [h, this]
    · have : c.toNat ≥ 0x10000 := by omega
      simp [h, this]

theorem utf8Len_char (c : Char) : Codec.utf8Len c.toNat = c.utf8Size := by
  unfold Codec.utf8Len Char.utf8Size Char.toNat
  simp only [UInt32.le_iff_toNat_le]
  repeat' split
  all_goals (simp at *; try omega)

theorem utf8Len_str (s : Build.Str) : Codec.utf8LenStr (str s) = Build.utf8Len s := by
  induction s with
  | nil => rfl
  | cons c cs ih =>
    simp only [Codec.utf8LenStr, str, Build.utf8Len, List.map_cons, List.sum_cons, List.map_map] at ih ⊢
    rw [utf8Len_char c, ih]

theorem strOk_str (s : Build.Str) (h : utf16Len s ≤ 32767) : Codec.StrOk (str s) :=
  ⟨scalars_str s, by rw [units_length]; exact h⟩

theorem str_inj {a b : Build.Str} (h : str a = str b) : a = b := by
  induction a generalizing b with
  | nil => cases b with
    | nil => rfl
    | cons _ _ => simp [str] at h
  | cons x xs ih =>
    cases b with
    | nil => simp [str] at h
    | cons y ys =>
      simp only [str, List.map_cons, List.cons.injEq] at h
      have hx : x = y := Char.ext (UInt32.toNat_inj.1 h.1)
      rw [hx, ih (b := ys) h.2]

/-! ## entries -/

theorem entry_headwordS (e : Build.Entry) : (entry e).headwordS = str e.headwordStr := by
  unfold Codec.Entry.headwordS Build.Entry.headwordStr entry
  cases e.headword <;> rfl

theorem entry_normS (e : Build.Entry) : (entry e).normS = str e.normStr := by
  unfold Codec.Entry.normS Build.Entry.normStr
  rw [entry_headwordS]
  unfold entry
  cases e.normForm <;> rfl

theorem entry_readingS (e : Build.Entry) : (entry e).readingS = str e.readingStr := by
  unfold Codec.Entry.readingS Build.Entry.readingStr
  rw [entry_headwordS]
  unfold entry
  cases e.reading <;> rfl

theorem widOk_lt {w : Nat} (h : Build.WidOk w) : w < 4294967296 := by
  unfold Build.WidOk Build.widDic Build.DIC_UNIT at h
  omega

theorem unitRaw_lt {u : SplitUnit} (h : UnitWf u) : unitRaw u < 4294967296 := by
  cases u with
  | ref w => exact widOk_lt h
  | inline s p r => simp [unitRaw, Codec.INVALID_WID]

theorem entry_wf (e : Build.Entry) (hl : EntryLimits e) (hr : EntryRange e) (hw : EntryWf e) (hp : e.pos < 65536) :
    (entry e).WF ∧ Codec.ParamsOk (entry e) := by
  obtain ⟨l1, l2, l3, l4, l5, l6, l7, l8⟩ := hl
  obtain ⟨r1, r2, r3, r4⟩ := hr
  obtain ⟨w1, w2, w3, w4⟩ := hw
  refine ⟨{ hw := ?_, nf := ?_, rd := ?_, key := ?_, pos := hp, df := ?_, a := ⟨?_, ?_⟩, b := ⟨?_, ?_⟩, ws := ⟨l7, ?_⟩, syn := ⟨l8, r4⟩ },
    ⟨r1.1, r1.2, r2.1, r2.2, r3.1, r3.2⟩⟩
  · rw [entry_headwordS]; exact strOk_str _ l1
  · rw [entry_normS]; exact strOk_str _ l3
  · rw [entry_readingS]; exact strOk_str _ l4
  · show Codec.utf8LenStr (str e.surface) ≤ 32767
    rw [utf8Len_str]; exact l2
  · show e.dicForm < 4294967296
    rcases w1 with h | h
    · rw [h]; decide
    · exact widOk_lt h
  · simpa [entry] using l5
  · intro x hx
    simp only [entry, List.mem_map] at hx
    obtain ⟨u, hu, rfl⟩ := hx
    exact unitRaw_lt (w3 u hu)
  · simpa [entry] using l6
  · intro x hx
    simp only [entry, List.mem_map] at hx
    obtain ⟨u, hu, rfl⟩ := hx
    exact unitRaw_lt (w4 u hu)
  · intro x hx; exact widOk_lt (w2 x hx)

/-! ## validation -/

theorem wid_bridge (w : Nat) : Codec.widDic w = Build.widDic w ∧ Codec.widWord w = Build.widWord w := by
  unfold Codec.widDic Codec.widWord Codec.WORD_MASK Build.widDic Build.widWord Build.DIC_UNIT
  constructor
  · rw [Nat.shiftRight_eq_div_pow]
  · have := Nat.and_two_pow_sub_one_eq_mod w 28
    simpa using this

theorem validateWid_bridge {w max0 max1 : Nat} (h : Build.validateWid w max0 max1 = .ok ()) :
    Codec.validateWid w max0 max1 = true := by
  obtain ⟨h1, h2⟩ := wid_bridge w
  unfold Codec.validateWid
  rw [h1, h2]
  rcases Build.validateWid_ok h with ⟨a, b⟩ | ⟨a, b⟩
  · simp [a, b]
  · simp [a, b]

theorem validateEntry_bridge {v : Variant} {ml mr : Int} {max0 max1 : Nat} {e : Build.Entry} (user : Bool)
    (h3 : v.d3 = true) (h : Build.validateEntry v ml mr max0 max1 e = .ok ()) :
    Codec.validateEntry false user ml mr max0 max1 (entry e) = true := by
  obtain ⟨a, b, c, d, ea, eb, ew⟩ := Build.validateEntry_ok h
  have hc : (decide (e.left ≥ 0) && decide (e.right < 0)) = false := by
    by_cases hl : e.left ≥ 0
    · have := c h3 (by simp [Build.Entry.shouldIndex, hl])
      have : ¬ e.right < 0 := by omega
      simp [this]
    · simp [hl]
  have hd : (decide ((entry e).dicForm = Codec.INVALID_WID) || Codec.validateWid (Codec.dfCheckId false user (entry e).dicForm) max0 max1) = true := by
    have : (entry e).dicForm = e.dicForm := rfl
    rw [this]
    rcases d with h | h
    · have : e.dicForm = Codec.INVALID_WID := h
      simp [this]
    · simp [Codec.dfCheckId, validateWid_bridge h]
  have hu : ∀ us : List SplitUnit, Build.validateUnits max0 max1 us = .ok () →
      (us.map unitRaw).all (Codec.validateWid · max0 max1) = true := by
    intro us hus
    simp only [List.all_eq_true, List.mem_map]
    rintro x ⟨u, hu, rfl⟩
    obtain ⟨w, rfl, hw⟩ := Build.validateUnits_ok hus u hu
    exact validateWid_bridge hw
  have hws : e.wordStructure.all (Codec.validateWid · max0 max1) = true := by
    simp only [List.all_eq_true]
    intro w hw
    exact validateWid_bridge (Build.validateWids_ok ew w hw)
  unfold Codec.validateEntry
  have e1 : (entry e).left = e.left := rfl
  have e2 : (entry e).right = e.right := rfl
  have e3 : (entry e).splitsA = e.splitsA.map unitRaw := rfl
  have e4 : (entry e).splitsB = e.splitsB.map unitRaw := rfl
  have e5 : (entry e).wordStructure = e.wordStructure := rfl
  rw [e1, e2, e3, e4, e5, hc, hd, hu _ ea, hu _ eb, hws]
  simp [a, b]

theorem validateEntries_bridge {v : Variant} {ml mr : Int} {ns : Option Nat} {es : List Build.Entry}
    (h3 : v.d3 = true) (h : Build.validateEntries v ml mr ns es = .ok ()) :
    Codec.validateEntries false ml mr ns (es.map entry) = true := by
  unfold Codec.validateEntries
  unfold Build.validateEntries at h
  cases ns with
  | none =>
    simp only [List.length_map, List.all_eq_true, List.mem_map] at h ⊢
    rintro x ⟨e, he, rfl⟩
    exact validateEntry_bridge _ h3 (Build.validateFrom_ok h e he)
  | some n =>
    simp only [List.length_map, List.all_eq_true, List.mem_map] at h ⊢
    rintro x ⟨e, he, rfl⟩
    exact validateEntry_bridge _ h3 (Build.validateFrom_ok h e he)

/-! ## matrix -/

theorem flatMap_const_length {α β : Type} (f : α → List β) (k : Nat) (l : List α) (h : ∀ a ∈ l, (f a).length = k) :
    (l.flatMap f).length = k * l.length := by
  induction l with
  | nil => simp
  | cons a as ih =>
    simp only [List.flatMap_cons, List.length_append, List.length_cons]
    rw [h a List.mem_cons_self, ih (fun b hb => h b (List.mem_cons_of_mem _ hb)), Nat.mul_succ]
    omega

theorem matrixBytes_length (c : Build.Conn) : (matrixBytes c).length = 2 * (c.nl.toNat * c.nr.toNat) := by
  unfold matrixBytes
  rw [flatMap_const_length _ 2 _ (fun _ _ => rfl), List.length_range]

/-! ## what the writer script's success says about description and POS strings -/

theorem headerSteps_writes {n : Nat} (h : Writes (headerSteps n)) : n ≤ 256 := by
  unfold headerSteps at h
  split at h
  · obtain ⟨m, hm⟩ := h _ List.mem_cons_self; cases hm
  · omega

theorem u16Steps_writes {line : Nat} {s : Build.Str} (h : Writes (u16Steps line s)) : utf16Len s ≤ 32767 := by
  unfold u16Steps at h
  split at h
  · obtain ⟨m, hm⟩ := h _ List.mem_cons_self; cases hm
  · split at h
    · obtain ⟨m, hm⟩ := h _ List.mem_cons_self; cases hm
    · rename_i p hp; exact Build.lenSize_ok hp

theorem posRowsSteps_writes {ks : List PosKey} {line : Nat} (h : Writes (posRowsSteps ks line)) :
    ∀ k ∈ ks, ∀ s ∈ k, utf16Len s ≤ 32767 := by
  induction ks generalizing line with
  | nil => simp
  | cons k ks ih =>
    simp only [posRowsSteps] at h
    intro k' hk' s hs
    rcases List.mem_cons.1 hk' with rfl | hm
    · apply u16Steps_writes (line := line)
      intro st hst
      apply h
      exact List.mem_append_left _ (List.mem_flatMap.2 ⟨s, hs, hst⟩)
    · exact ih (fun st hst => h st (List.mem_append_right _ hst)) k' hm s hs

theorem posOk_bridge {tab : List PosKey} {n0 : Nat} (hs : TabShape n0 tab) (hw : Writes (posSteps tab n0)) :
    Codec.PosOk ((tab.map (fun k => k.map str)).drop n0) := by
  obtain ⟨h1, h2, h3⟩ := hs
  have hrows : Writes (posRowsSteps (tab.drop n0) 0) := by
    intro st hst; apply hw; unfold posSteps; exact List.mem_cons_of_mem _ hst
  have hstr := posRowsSteps_writes hrows
  rw [← List.map_drop]
  refine ⟨?_, ?_⟩
  · rw [List.length_map, List.length_drop]; omega
  · intro p hp
    simp only [List.mem_map] at hp
    obtain ⟨k, hk, rfl⟩ := hp
    refine ⟨by rw [List.length_map]; exact h3 k hk, ?_⟩
    intro s hs
    simp only [List.mem_map] at hs
    obtain ⟨s0, hs0, rfl⟩ := hs
    exact strOk_str _ (hstr k hk s0 hs0)

/-! ## the word-id table: `IndexBuilder` as C06 counts it and as C05 lists it -/

/-- one `IndexBuilder::add` in C05's model -/
def stepC (acc : List (Codec.Str × List Nat)) (s : Codec.Str) (id : Nat) : List (Codec.Str × List Nat) :=
  match acc.findIdx? (fun g => g.1 = s) with
  | some k => Codec.modifyAt (fun g => (g.1, g.2 ++ [id])) k acc
  | none => acc ++ [(s, [id])]

theorem stepC_cons (g : Codec.Str × List Nat) (rest : List (Codec.Str × List Nat)) (s : Codec.Str) (id : Nat) :
    stepC (g :: rest) s id = if g.1 = s then (g.1, g.2 ++ [id]) :: rest else g :: stepC rest s id := by
  unfold stepC
  rw [List.findIdx?_cons]
  by_cases h : g.1 = s
  · simp [h, Codec.modifyAt]
  · simp only [h, decide_false, Bool.false_eq_true, if_false]
    cases hr : rest.findIdx? (fun g => decide (g.1 = s)) with
    | none => simp
    | some k => simp [Codec.modifyAt]

def sizes (acc : List (Codec.Str × List Nat)) : List (Codec.Str × Nat) := acc.map (fun g => (g.1, g.2.length))
def keysB (acc : List (Build.Str × Nat)) : List (Codec.Str × Nat) := acc.map (fun k => (str k.1, k.2))

theorem step_sim (s : Build.Str) (id : Nat) : ∀ (accC : List (Codec.Str × List Nat)) (accB : List (Build.Str × Nat)),
    sizes accC = keysB accB → sizes (stepC accC (str s) id) = keysB (addKey s accB) := by
  intro accC
  induction accC with
  | nil =>
    intro accB h
    cases accB with
    | nil => simp [stepC, sizes, keysB, addKey]
    | cons _ _ => simp [sizes, keysB] at h
  | cons g rest ih =>
    intro accB h
    cases accB with
    | nil => simp [sizes, keysB] at h
    | cons k restB =>
      obtain ⟨k', n⟩ := k
      simp only [sizes, keysB, List.map_cons, List.cons.injEq, Prod.mk.injEq] at h
      obtain ⟨⟨h1, h2⟩, h3⟩ := h
      rw [stepC_cons]
      simp only [addKey]
      by_cases hk : k' = s
      · have : g.1 = str s := by rw [h1, hk]
        simp only [this, hk, if_true]
        simp [sizes, keysB, h2, ← hk, ← h1] at h3 ⊢
        exact h3
      · have : ¬ g.1 = str s := by rw [h1]; intro hh; exact hk (str_inj hh)
        simp only [this, hk, if_false]
        have := ih restB h3
        simp only [sizes, keysB, List.map_cons, List.cons.injEq, Prod.mk.injEq] at this ⊢
        exact ⟨⟨h1, h2⟩, this⟩

theorem go_sim : ∀ (l : List (Nat × Build.Entry)) (accC : List (Codec.Str × List Nat)) (accB : List (Build.Str × Nat)),
    sizes accC = keysB accB →
    sizes (Codec.indexGroups.go (l.map (fun p => (p.1, entry p.2))) accC)
      = keysB (((l.map (·.2)).filter Build.Entry.shouldIndex).foldl (fun acc e => addKey e.surface acc) accB) := by
  intro l
  induction l with
  | nil => intro accC accB h; simpa [Codec.indexGroups.go] using h
  | cons p l ih =>
    intro accC accB h
    obtain ⟨i, e⟩ := p
    have hgo : Codec.indexGroups.go ((i, entry e) :: l.map (fun p => (p.1, entry p.2))) accC
        = if e.left ≥ 0 then Codec.indexGroups.go (l.map (fun p => (p.1, entry p.2))) (stepC accC (str e.surface) (Codec.widNew 0 i))
          else Codec.indexGroups.go (l.map (fun p => (p.1, entry p.2))) accC := by
      have e1 : (entry e).left = e.left := rfl
      have e2 : (entry e).surface = str e.surface := rfl
      by_cases hl : e.left ≥ 0
      · simp only [Codec.indexGroups.go, e1, e2, hl, if_true]
        unfold stepC
        cases List.findIdx? (fun g => decide (g.1 = str e.surface)) accC <;> rfl
      · simp only [Codec.indexGroups.go, e1, e2, hl, if_false]
    simp only [List.map_cons]
    rw [hgo]
    by_cases hl : e.left ≥ 0
    · have hs : e.shouldIndex = true := by simp [Build.Entry.shouldIndex, hl]
      simp only [hl, if_true, List.filter_cons, hs, List.foldl_cons]
      exact ih _ _ (step_sim e.surface _ accC accB h)
    · have hs : e.shouldIndex = false := by simp [Build.Entry.shouldIndex, hl]
      simp only [hl, if_false, List.filter_cons, hs]
      exact ih _ _ h

theorem indexGroups_sizes (es : List Build.Entry) : sizes (Codec.indexGroups (es.map entry)) = keysB (indexKeys es) := by
  unfold Codec.indexGroups indexKeys
  have hz : (List.range (es.map entry).length).zip (es.map entry)
      = ((List.range es.length).zip es).map (fun p => (p.1, entry p.2)) := by
    rw [List.length_map, List.zip_map_right]
    simp [Prod.map]
  rw [hz]
  have := go_sim ((List.range es.length).zip es) [] [] rfl
  rw [this]
  congr 3
  rw [List.map_snd_zip]
  simp

theorem widOk_bridge {es : List Build.Entry} (h : ∀ q ∈ indexKeys es, q.2 ≤ 127) : Codec.WidOk (es.map entry) := by
  intro g hg
  have hm : (g.1, g.2.length) ∈ sizes (Codec.indexGroups (es.map entry)) := List.mem_map.2 ⟨g, hg, rfl⟩
  rw [indexGroups_sizes] at hm
  obtain ⟨q, hq, he⟩ := List.mem_map.1 hm
  have := h q hq
  simp only [Prod.mk.injEq] at he
  omega

/-! ## the accepted builder state is within the limits of the format -/

/-- Everything `Codec.FileOk` asks, from `compile … = ok` and the two invariants of the builder; the 4 GiB bound stays
a hypothesis (`hsize`), the parameters C06's model does not keep are constrained by what C06 keeps of them. -/
theorem fileOk_of_compile {v : Variant} {b : Builder} {dl tl n : Nat} {limit : Option Nat} {d : Dict} (a : Aux)
    (hsh : BuilderShape b) (hinv : BuilderInv v b) (hc : compile v b dl tl limit = .ok (n, d))
    (hbase : b.base.pos0.length ≤ 32768)
    (hdesc : a.desc.length = dl) (htime : a.time < 18446744073709551616) (htrie : a.trie.length % 4 = 0)
    (hsize : (Codec.fileBytes (toCodec d b.base.pos0.length a)).length < 4294967296) :
    Codec.FileOk (toCodec d b.base.pos0.length a) := by
  obtain ⟨_, _, he, hd⟩ := (compile_ok_iff ..).1 hc
  have hw := exec_ok_writes he
  have hlim := compile_ok_limits hc
  subst hd
  obtain ⟨⟨hts, hents⟩, hcs⟩ := hsh
  have hhdr : Writes (headerSteps dl) := by
    intro st hst; apply hw; unfold compileSteps; simp [hst]
  have hpos : Writes (posSteps b.lex.pos b.base.pos0.length) := by
    intro st hst; apply hw; unfold compileSteps; simp [hst]
  obtain ⟨c1, c2, c3, c4, c5⟩ := hcs
  refine { desc := ?_, time := htime, pos := posOk_bridge hts hpos, nl0 := c1, nl1 := ?_, nr0 := c3, nr1 := ?_,
           mat := matrixBytes_length b.conn, entries := ?_, wid := ?_, trie := htrie, size := hsize }
  · show a.desc.length ≤ 256
    rw [hdesc]; exact headerSteps_writes hhdr
  · show b.conn.nl < 32768
    omega
  · show b.conn.nr < 32768
    omega
  · intro e he'
    simp only [toCodec, List.mem_map] at he'
    obtain ⟨e0, he0, rfl⟩ := he'
    have hp := (hents e0 he0).2
    have : b.lex.pos.length ≤ max b.base.pos0.length 32768 := hts.2.1
    -- a POS id is a `u16`: the table the builder started from has at most 32768 rows or the table did not grow
    exact entry_wf e0 (hlim.1 e0 he0) (hents e0 he0).1 (hinv.1.1 e0 he0).1 (by omega)
  · exact widOk_bridge (fun q hq => (hlim.2.1 q hq).1)

/-! ## the matrix bytes hold the cells -/

theorem flatMap_le16_get {α : Type} (g : α → Nat) : ∀ (l : List α) (k : Nat) (x : α), l[k]? = some x →
    (l.flatMap (fun y => Codec.le16 (g y)))[2 * k]? = some (g x % 256) ∧
    (l.flatMap (fun y => Codec.le16 (g y)))[2 * k + 1]? = some (g x / 256 % 256) := by
  intro l
  induction l with
  | nil => intro k x h; simp at h
  | cons y ys ih =>
    intro k x h
    cases k with
    | zero =>
      simp only [List.getElem?_cons_zero, Option.some.injEq] at h
      subst h
      simp [Codec.le16]
    | succ k =>
      simp only [List.getElem?_cons_succ] at h
      obtain ⟨a, b⟩ := ih k x h
      have e1 : 2 * (k + 1) = (2 * k) + 1 + 1 := by omega
      have e2 : 2 * (k + 1) + 1 = (2 * k + 1) + 1 + 1 := by omega
      simp only [List.flatMap_cons, Codec.le16, List.cons_append, List.nil_append]
      rw [e1]
      simp only [List.getElem?_cons_succ]
      exact ⟨a, b⟩

/-- the cost the loaded matrix answers for cell `(l, r)`: the stored 16 bits of the last cost written there -/
def cellCost (c : Build.Conn) (l r : Nat) : Int :=
  Codec.u16ToI (Codec.i16ToU (c.cell (Codec.connIndex c.nl.toNat l r)))

theorem i16ToU_lt (x : Int) : Codec.i16ToU x < 65536 := by
  unfold Codec.i16ToU; omega

theorem u16ToI_range {n : Nat} (h : n < 65536) : -32768 ≤ Codec.u16ToI n ∧ Codec.u16ToI n ≤ 32767 := by
  unfold Codec.u16ToI; split <;> omega

theorem cellCost_range (c : Build.Conn) (l r : Nat) : -32768 ≤ cellCost c l r ∧ cellCost c l r ≤ 32767 :=
  u16ToI_range (i16ToU_lt _)

theorem holds_matrixBytes (c : Build.Conn) : Codec.Holds (matrixBytes c) c.nl.toNat c.nr.toNat (cellCost c) := by
  refine ⟨by rw [matrixBytes_length]; omega, ?_⟩
  intro l r hl hr
  have hk := Codec.idx_lt c.nl.toNat c.nr.toNat l r hl hr
  have hget : (List.range (c.nl.toNat * c.nr.toNat))[Codec.connIndex c.nl.toNat l r]? = some (Codec.connIndex c.nl.toNat l r) := by
    simp [hk]
  obtain ⟨a, b⟩ := flatMap_le16_get (fun i => Codec.i16ToU (c.cell i)) _ _ _ hget
  have := Codec.i16At_of_get (matrixBytes c) _ _ _ a b
  rw [this]
  unfold cellCost
  congr 2
  have := i16ToU_lt (c.cell (Codec.connIndex c.nl.toNat l r))
  omega

/-! ## what the analysis model (C03, `Total.Cfg`) is given by the loaded dictionary -/

/-- the words `Lexicon::lookup` can return: the indexed entries with their key bytes, ids (as the `u16` of the node)
and cost -/
def lexWords (d : Dict) : List Oov.Word :=
  (d.entries.filter Build.Entry.shouldIndex).map (fun e =>
    ⟨(str e.surface).flatMap Codec.utf8Enc, e.left.toNat, e.right.toNat, e.cost⟩)

/-- `conn_matrix().cost(l, r)` of the loaded grammar as the total function the lattice model takes; the default is
never used for ids inside the matrix -/
def connFn (g : Codec.Grammar) (l r : Nat) : Int :=
  match g.cost l r with
  | .ok c => c
  | _ => 0

end BuildLoad
