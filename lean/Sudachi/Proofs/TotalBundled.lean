import Sudachi.Proofs.Partition
/-!
# C03, depth round 2: the bundled OOV providers, the row-size bound from the configuration, the overflow threshold

Helper lemmas for `Props/C03.lean`:

* the contract of the bundled OOV providers (`provide_fields`, `provide_contract`): what `provide_oov` of the MeCab, the
  Simple and the (repaired) Regex provider can put into the lattice — on top of `Oov.provide_ok` (position/extent),
  `Total.provide_cost` (cost) and `Total.provide_noPanic`;
* `Bundled`: a configuration made of bundled providers (the regex provider being the one of the tree, i.e. with the
  empty-match guard), non-empty by construction as the loader demands;
* `rowCap`: an explicit bound of the number of candidates `build_lattice` inserts at one position, computed from the
  configuration (lexicon rows, providers, `unk.def` lines × class lengths), and `rows_of_cap`: `rowCap · |text| ≤ 65535`
  implies the hypothesis `hrowsz` of `C03.tokenize_total`;
* the chain lattice in closed form (`chain_buildAll`): `n` one-character words of cost `c` over a constant matrix `k`
  have the stored totals `i·(k+c)` — the exact overflow threshold of the `i32` accumulator.
-/
namespace Total
open Oov (Outcome)

/-! ## `mapM` -/

theorem mapM_ok_mem {α β : Type} (f : α → Outcome β) : ∀ (as : List α) (bs : List β), mapM f as = .ok bs →
    ∀ a ∈ as, ∃ b ∈ bs, f a = .ok b
  | [], bs, _, a, ha => by cases ha
  | a0 :: as, bs, h, a, ha => by
    unfold mapM at h
    cases h1 : f a0 with
    | err k => rw [h1] at h; cases h
    | panic w => rw [h1] at h; cases h
    | ok b1 =>
      rw [h1] at h; simp only [] at h
      cases h2 : mapM f as with
      | err k => rw [h2] at h; cases h
      | panic w => rw [h2] at h; cases h
      | ok bs' =>
        rw [h2] at h; simp only [] at h
        cases h
        rcases List.mem_cons.mp ha with rfl | ha
        · exact ⟨b1, List.mem_cons_self, h1⟩
        · obtain ⟨b, hb, hf⟩ := mapM_ok_mem f as bs' h2 a ha
          exact ⟨b, List.mem_cons_of_mem _ hb, hf⟩

/-- every entry of a chain is non-empty -/
theorem echain_mem_lt : ∀ (a : List Entry) (s t : Nat), Partition.EChain a s t → ∀ x ∈ a, x.node.b < x.node.e
  | [], _, _, _, x, hx => by cases hx
  | y :: ys, s, t, h, x, hx => by
    obtain ⟨_, h2, h3⟩ := h
    rcases List.mem_cons.mp hx with rfl | hx
    · exact h2
    · exact echain_mem_lt ys _ t h3 x hx

/-! ## what a bundled provider can put into the lattice -/

/-- the (left id, right id, cost, POS id) quadruples a provider is configured with: the `unk.def` lines of the MeCab
provider, the one `leftId/rightId/cost/oovPOS` setting of the Simple and of the Regex provider — what the loader
validates (`check_params`, `read_oov`: ids against the matrix, cost parsed into an `i16`, POS looked up / registered) -/
def providerDefs : Oov.Provider → List Oov.OovDef
  | .mecab c => c.oovs.flatMap (fun kv => kv.2)
  | .simple c => [⟨c.l, c.r, c.c, c.pos⟩]
  | .regex c => [⟨c.l, c.r, c.c, c.pos⟩]

/-- the quadruple a node carries -/
def defOf (x : Oov.Node) : Oov.OovDef := ⟨x.l, x.r, x.c, x.pos⟩

theorem defOf_mkNode (b e : Nat) (d : Oov.OovDef) : defOf (Oov.mkNode b e d) = d := by
  cases d; rfl

theorem regexProvide_fields (cfg : Oov.RegexCfg) (buf : Oov.Buf) (o created : Nat) (existing nodes : List Oov.Node)
    (h : Oov.regexProvide cfg buf o created existing = .ok nodes) :
    ∀ x ∈ nodes, x.oov = true ∧ defOf x = ⟨cfg.l, cfg.r, cfg.c, cfg.pos⟩ := by
  unfold Oov.regexProvide at h
  split at h
  · cases h
  · cases h; intro x hx; cases hx
  · unfold Oov.regexCore at h
    split at h
    · cases h
    · split at h
      · cases h; intro x hx; cases hx
      · split at h
        · split at h
          · cases h; intro x hx; cases hx
          · cases h
        · split at h
          · cases h; intro x hx; cases hx
          · cases h; intro x hx; simp only [List.mem_singleton] at hx; subst hx; exact ⟨rfl, rfl⟩
          · split at h
            · cases h; intro x hx; cases hx
            · cases h; intro x hx; simp only [List.mem_singleton] at hx; subst hx; exact ⟨rfl, rfl⟩

/-- **every node a bundled provider returns is an OOV node carrying one of its configured quadruples** -/
theorem provide_fields (p : Oov.Provider) (buf : Oov.Buf) (o created : Nat) (existing nodes : List Oov.Node)
    (h : Oov.provide p buf o created existing = .ok nodes) : ∀ x ∈ nodes, x.oov = true ∧ defOf x ∈ providerDefs p := by
  cases p with
  | mecab cfg =>
    obtain ⟨charLen, cat, _, _, hspec⟩ := Oov.mecabProvide_spec cfg buf o created nodes h
    intro x hx
    obtain ⟨_, ct, _, ci, oovs, d, _, _, hf, hd, hsh⟩ := (hspec x).mp hx
    obtain ⟨k', hk'⟩ := findKey_mem _ _ _ hf
    have hmem : d ∈ providerDefs (.mecab cfg) := by
      simp only [providerDefs, List.mem_flatMap]
      exact ⟨(k', oovs), hk', hd⟩
    rcases hsh with ⟨_, rfl⟩ | ⟨i, _, _, _, rfl⟩
    · exact ⟨rfl, by rw [defOf_mkNode]; exact hmem⟩
    · exact ⟨rfl, by rw [defOf_mkNode]; exact hmem⟩
  | simple cfg =>
    simp only [Oov.provide, Oov.simpleProvide] at h
    split at h
    · cases h; intro x hx; cases hx
    · split at h
      · cases h
      · cases h; intro x hx; simp only [List.mem_singleton] at hx; subst hx
        exact ⟨rfl, by simp [providerDefs, defOf]⟩
  | regex cfg =>
    intro x hx
    obtain ⟨a, b⟩ := regexProvide_fields cfg buf o created existing nodes h x hx
    exact ⟨a, by rw [b]; simp [providerDefs]⟩

/-- `ProviderCostOk` is "every configured quadruple has an `i16` cost" -/
theorem providerCostOk_of_defs (p : Oov.Provider) (h : ∀ d ∈ providerDefs p, I16 d.c) : ProviderCostOk p := by
  cases p with
  | mecab cfg =>
    intro kv hkv d hd
    exact h d (by simp only [providerDefs, List.mem_flatMap]; exact ⟨kv, hkv, hd⟩)
  | simple cfg => exact h ⟨cfg.l, cfg.r, cfg.c, cfg.pos⟩ (by simp [providerDefs])
  | regex cfg => exact h ⟨cfg.l, cfg.r, cfg.c, cfg.pos⟩ (by simp [providerDefs])

/-- dictionary nodes: not OOV, ids and cost of a lexicon row -/
theorem lexNodes_fields (lex : List Oov.Word) (buf : Oov.Buf) (o : Nat) (x : Oov.Node) (hx : x ∈ Oov.lexNodes lex buf o) :
    x.oov = false ∧ ∃ w ∈ lex, x.l = w.l ∧ x.r = w.r ∧ x.c = w.c := by
  unfold Oov.lexNodes at hx
  simp only [List.mem_filterMap, List.mem_filter] at hx
  obtain ⟨w, ⟨hw, _⟩, hx⟩ := hx
  split at hx
  · split at hx
    · cases hx
    · cases hx; exact ⟨rfl, w, hw, rfl, rfl, rfl⟩
  · cases hx; exact ⟨rfl, w, hw, rfl, rfl, rfl⟩

/-- where a node of the lattice comes from: a lexicon row, or a configured quadruple of a configured provider -/
def Sourced (ps : List Oov.Provider) (lex : List Oov.Word) (x : Oov.Node) : Prop :=
  (x.oov = false ∧ ∃ w ∈ lex, x.l = w.l ∧ x.r = w.r ∧ x.c = w.c) ∨
  (x.oov = true ∧ ∃ p ∈ ps, defOf x ∈ providerDefs p)

theorem buildLattice_sourced (ps : List Oov.Provider) (lex : List Oov.Word) (buf : Oov.Buf) (nodes : List Oov.Node)
    (h : Oov.buildLattice ps lex buf = .ok nodes) : ∀ x ∈ nodes, Sourced ps lex x := by
  unfold Oov.buildLattice at h
  split at h
  · rename_i ns hns
    split at h
    · cases h
      refine Oov.buildFrom_forall (Sourced ps lex) ps lex buf _ [] _ ?_ (fun x hx => by cases hx) hns
      intro p new hnew
      refine Oov.stepAt_forall (Sourced ps lex) ps lex buf p new ?_ ?_ hnew
      · intro x hx; exact Or.inl (lexNodes_fields lex buf p x hx)
      · intro q hq c ex out hout x hx
        obtain ⟨a, b⟩ := provide_fields q buf p c ex out hout x hx
        exact Or.inr ⟨a, q, hq, b⟩
    · cases h
  · cases h
  · cases h

/-! ## configurations made of bundled providers -/

/-- a bundled OOV provider with its settings; the regex provider is the one of the tree as it is now
(`fix: the regex OOV provider ignores an empty match`), so the variant flag of `Oov.RegexCfg` is not a setting -/
inductive Bundled where
  | mecab (c : Oov.MecabCfg)
  | simple (c : Oov.SimpleCfg)
  | regex (c : Oov.RegexCfg)

def Bundled.prov : Bundled → Oov.Provider
  | .mecab c => .mecab c
  | .simple c => .simple c
  | .regex c => .regex { c with skipEmpty := true }

theorem bundled_regexRepaired (bs : List Bundled) : RegexRepaired (bs.map Bundled.prov) := by
  intro p hp c hc
  obtain ⟨b, _, rfl⟩ := List.mem_map.mp hp
  cases b with
  | mecab c' => cases hc
  | simple c' => cases hc
  | regex c' => simp only [Bundled.prov] at hc; cases hc; rfl

/-! ## (b) candidates per position, bounded from the configuration -/

def maxOf (l : List Nat) : Nat := l.foldr max 0

theorem le_maxOf : ∀ (l : List Nat) (x : Nat), x ∈ l → x ≤ maxOf l
  | [], _, h => by cases h
  | y :: ys, x, h => by
    simp only [maxOf, List.foldr_cons]
    rcases List.mem_cons.mp h with rfl | h
    · exact Nat.le_max_left _ _
    · exact Nat.le_trans (le_maxOf ys x h) (Nat.le_max_right _ _)

/-- candidates one call of the MeCab provider can return: at most 19 classes are visited (`bitflags` iteration: 18 named
flags + one remainder), each contributes per `unk.def` line one grouped candidate and one per length `1..=length` -/
def mecabCap (c : Oov.MecabCfg) : Nat :=
  19 * (maxOf (c.oovs.map (fun kv => kv.2.length)) * (1 + maxOf (c.cats.map (fun kv => kv.2.length))))

/-- candidates one `provide_oov` call can return -/
def providerCap : Oov.Provider → Nat
  | .mecab c => mecabCap c
  | .simple _ => 1
  | .regex _ => 1

/-- **an explicit bound of the number of candidates `build_lattice` inserts at one position**: every lexicon row (at most
all of them are prefixes of the rest of the text: homographs and one row per length), every provider once in the provider
loop and the last one once more (the re-invocation) -/
def rowCap (ps : List Oov.Provider) (lex : List Oov.Word) : Nat := lex.length + 2 * (ps.map providerCap).sum

theorem lenLoop_length (stop : Bool) (oovs : List Oov.OovDef) (o n ll : Nat) :
    ∀ (cnt i : Nat), (Oov.lenLoop stop oovs o n ll cnt i).length ≤ oovs.length * cnt
  | 0, _ => by simp [Oov.lenLoop]
  | cnt + 1, i => by
    simp only [Oov.lenLoop]
    split
    · simp
    · have := lenLoop_length stop oovs o n ll cnt (i + 1)
      simp only [List.length_append, List.length_map, Nat.mul_add, Nat.mul_one]
      omega

theorem iterGo_length (src : Nat) : ∀ (fs : List Nat) (rem : Nat), (Oov.iterGo src fs rem).length ≤ fs.length + 1
  | [], rem => by simp only [Oov.iterGo]; split <;> simp
  | f :: fs, rem => by
    simp only [Oov.iterGo]
    split
    · simp
    · split
      · have := iterGo_length src fs (rem ^^^ (rem &&& f))
        simp only [List.length_cons]; omega
      · have := iterGo_length src fs rem
        simp only [List.length_cons]; omega

theorem length_flatMap_le {α β : Type} (f : α → List β) (K : Nat) : ∀ (l : List α), (∀ a ∈ l, (f a).length ≤ K) →
    (l.flatMap f).length ≤ l.length * K
  | [], _ => by simp
  | a :: as, h => by
    have h1 := h a List.mem_cons_self
    have h2 := length_flatMap_le f K as (fun x hx => h x (List.mem_cons_of_mem _ hx))
    simp only [List.flatMap_cons, List.length_append, List.length_cons, Nat.add_mul, Nat.one_mul]
    omega

theorem mecabClass_length (cfg : Oov.MecabCfg) (n o charLen created ct : Nat) :
    (Oov.mecabClass cfg n o charLen created ct).length ≤
      maxOf (cfg.oovs.map (fun kv => kv.2.length)) * (1 + maxOf (cfg.cats.map (fun kv => kv.2.length))) := by
  unfold Oov.mecabClass
  split
  · simp
  · rename_i ci hci
    split
    · simp
    · split
      · simp
      · rename_i oovs hoovs
        obtain ⟨k1, hk1⟩ := findKey_mem _ _ _ hci
        obtain ⟨k2, hk2⟩ := findKey_mem _ _ _ hoovs
        have hl : ci.length ≤ maxOf (cfg.cats.map (fun kv => kv.2.length)) :=
          le_maxOf _ _ (List.mem_map.mpr ⟨(k1, ci), hk1, rfl⟩)
        have hd : oovs.length ≤ maxOf (cfg.oovs.map (fun kv => kv.2.length)) :=
          le_maxOf _ _ (List.mem_map.mpr ⟨(k2, oovs), hk2, rfl⟩)
        have h1 := lenLoop_length cfg.stopAtEnd oovs o n (if ci.group then charLen - 1 else charLen) ci.length 1
        have hg : (if ci.group = true then oovs.map (Oov.mkNode o (o + charLen)) else []).length ≤ oovs.length := by
          split <;> simp
        simp only [List.length_append]
        calc _ ≤ oovs.length + oovs.length * ci.length := Nat.add_le_add hg h1
          _ = oovs.length * (1 + ci.length) := by rw [Nat.mul_add, Nat.mul_one]
          _ ≤ _ := Nat.mul_le_mul hd (by omega)

theorem provide_cap (p : Oov.Provider) (buf : Oov.Buf) (o created : Nat) (existing nodes : List Oov.Node)
    (h : Oov.provide p buf o created existing = .ok nodes) : nodes.length ≤ providerCap p := by
  cases p with
  | mecab cfg =>
    simp only [Oov.provide, Oov.mecabProvide] at h
    split at h
    · split at h
      · cases h; simp
      · cases h
        rename_i charLen cat _ _ _
        have h1 := length_flatMap_le (Oov.mecabClass cfg buf.chars.length o charLen created) _ (Oov.flagsIter cat)
          (fun ct _ => mecabClass_length cfg buf.chars.length o charLen created ct)
        have h2 : (Oov.flagsIter cat).length ≤ 19 := by
          have := iterGo_length cat Oov.flagDefs cat
          simpa [Oov.flagsIter, Oov.flagDefs] using this
        exact Nat.le_trans h1 (Nat.mul_le_mul_right _ h2)
    · cases h
  | simple cfg =>
    simp only [Oov.provide, Oov.simpleProvide] at h
    split at h
    · cases h; simp
    · split at h
      · cases h
      · cases h; simp [providerCap]
  | regex cfg =>
    simp only [Oov.provide] at h
    show nodes.length ≤ 1
    unfold Oov.regexProvide at h
    split at h
    · cases h
    · cases h; simp
    · unfold Oov.regexCore at h
      split at h
      · cases h
      · split at h
        · cases h; simp
        · split at h
          · split at h
            · cases h; simp
            · cases h
          · split at h
            · cases h; simp
            · cases h; simp
            · split at h
              · cases h; simp
              · cases h; simp

theorem provideOovs_cap (p : Oov.Provider) (buf : Oov.Buf) (o : Nat) (st st' : Nat × List Oov.Node)
    (h : Oov.provideOovs p buf o st = .ok st') : st'.2.length ≤ st.2.length + providerCap p := by
  unfold Oov.provideOovs at h
  split at h
  · rename_i new hnew
    cases h
    have := provide_cap p buf o _ _ new hnew
    simp only [List.length_append]; omega
  · cases h
  · cases h

theorem provideAll_cap (buf : Oov.Buf) (o : Nat) :
    ∀ (ps : List Oov.Provider) (st st' : Nat × List Oov.Node),
      Oov.provideAll ps buf o st = .ok st' → st'.2.length ≤ st.2.length + (ps.map providerCap).sum
  | [], st, st', h => by simp only [Oov.provideAll] at h; cases h; simp
  | p :: rest, st, st', h => by
    simp only [Oov.provideAll] at h
    split at h
    · rename_i st1 h1
      have a := provideOovs_cap p buf o st st1 h1
      have b := provideAll_cap buf o rest st1 st' h
      simp only [List.map_cons, List.sum_cons]; omega
    · cases h
    · cases h

theorem providerCap_le_sum : ∀ (ps : List Oov.Provider) (p : Oov.Provider), p ∈ ps → providerCap p ≤ (ps.map providerCap).sum
  | [], _, h => by cases h
  | q :: qs, p, h => by
    simp only [List.map_cons, List.sum_cons]
    rcases List.mem_cons.mp h with rfl | h
    · omega
    · have := providerCap_le_sum qs p h; omega

/-- one iteration of the position loop inserts at most `rowCap` candidates -/
theorem stepAt_cap (ps : List Oov.Provider) (lex : List Oov.Word) (buf : Oov.Buf) (o : Nat) (new : List Oov.Node)
    (h : Oov.stepAt ps lex buf o = .ok new) : new.length ≤ rowCap ps lex := by
  unfold Oov.stepAt at h
  split at h
  · cases h
  · obtain ⟨st1, h1, h⟩ := Oov.bind_eq_ok _ _ _ h
    obtain ⟨st2, h2, h⟩ := Oov.bind_eq_ok _ _ _ h
    have hl := (lexNodes_small lex buf o).1
    have c1 : st1.2.length ≤ lex.length + (ps.map providerCap).sum := by
      unfold Oov.afterLoop at h1
      split at h1
      · have := provideAll_cap buf o ps _ st1 h1
        simp only [] at this; omega
      · cases h1; simp only []; omega
    have c2 : st2.2.length ≤ st1.2.length + (ps.map providerCap).sum := by
      unfold Oov.fallback at h2
      split at h2
      · split at h2
        · cases h2
        · rename_i p hl'
          have := provideOovs_cap p buf o st1 st2 h2
          have := providerCap_le_sum ps p (List.mem_of_getLast? hl')
          omega
      · cases h2; omega
    unfold Oov.finish at h
    split at h
    · cases h
    · cases h; unfold rowCap; omega

/-- **`hrowsz` from the configuration**: if `rowCap · (number of characters) ≤ 65535`, fewer than 65536 candidates end at
any one boundary (every candidate lies inside the text, so it is at most `|text|` characters long) -/
theorem rows_of_cap (ps : List Oov.Provider) (lex : List Oov.Word) (buf : Oov.Buf) (hwf : buf.WF)
    (hcap : rowCap ps lex * buf.chars.length ≤ 65535) (nodes : List Oov.Node)
    (h : Oov.buildLattice ps lex buf = .ok nodes) (e : Nat) :
    (nodes.map toVit).countP (fun n => n.e == e) ≤ 65535 := by
  have hin := buildLattice_cand ps lex buf (wf_bufOk buf hwf) nodes h
  by_cases hr : rowCap ps lex = 0
  · -- no candidate at any position
    have : nodes = [] := by
      cases nodes with
      | nil => rfl
      | cons x xs =>
        exfalso
        have hx : x ∈ x :: xs := List.mem_cons_self
        unfold Oov.buildLattice at h
        split at h
        · rename_i ns hns
          split at h
          · cases h
            refine Oov.buildFrom_forall (fun _ => False) ps lex buf _ [] _ ?_ (fun y hy => by cases hy) hns x hx
            intro p new hnew y hy
            have := stepAt_cap ps lex buf p new hnew
            rw [hr] at this
            cases new with
            | nil => cases hy
            | cons _ _ => simp at this
          · cases h
        · cases h
        · cases h
    subst this; simp
  have hn : buf.chars.length ≤ 65535 := by
    have h1 : 1 ≤ rowCap ps lex := by omega
    calc buf.chars.length = 1 * buf.chars.length := by omega
      _ ≤ rowCap ps lex * buf.chars.length := Nat.mul_le_mul_right _ h1
      _ ≤ 65535 := hcap
  refine Nat.le_trans (countP_toVit nodes (fun x hx => by have := (hin x hx).2; omega) e) ?_
  refine Nat.le_trans (buildLattice_rows ps lex buf (rowCap ps lex) buf.chars.length ?_ nodes h e) hcap
  intro p new hnew
  refine ⟨stepAt_cap ps lex buf p new hnew, fun x hx => ?_⟩
  obtain ⟨c1, c2, c3⟩ := (Oov.stepAt_ok ps lex buf p new hwf hnew).2 x hx
  exact ⟨c1, by omega, by omega⟩

/-- every row holds at most `rowCap · |text|` candidates (texts of at most 65535 characters, where the `as u16` casts of
`toVit` are the identity) -/
theorem rows_le_cap_mul (ps : List Oov.Provider) (lex : List Oov.Word) (buf : Oov.Buf) (hwf : buf.WF)
    (hn : buf.chars.length ≤ 65535) (nodes : List Oov.Node)
    (h : Oov.buildLattice ps lex buf = .ok nodes) (e : Nat) :
    (nodes.map toVit).countP (fun n => n.e == e) ≤ rowCap ps lex * buf.chars.length := by
  have hin := buildLattice_cand ps lex buf (wf_bufOk buf hwf) nodes h
  refine Nat.le_trans (countP_toVit nodes (fun x hx => by have := (hin x hx).2; omega) e) ?_
  refine buildLattice_rows ps lex buf (rowCap ps lex) buf.chars.length ?_ nodes h e
  intro p new hnew
  refine ⟨stepAt_cap ps lex buf p new hnew, fun x hx => ?_⟩
  obtain ⟨c1, c2, c3⟩ := (Oov.stepAt_ok ps lex buf p new hwf hnew).2 x hx
  exact ⟨c1, by omega, by omega⟩

/-- **`hrowsz` for the `u32` row index (the tree since 9fb3dd8), from the configuration ALONE**: a text the length guards admit
has at most 65535 characters, so `rowCap ≤ 65537` keeps every row below 2^32 entries (65537 · 65535 = 2^32 - 1) — no
condition on the text is left.  (With the `u16` index of the pinned tree the condition was `rowCap · |text| ≤ 65535`, which a
16 KiB text violates for a grouped class with four `unk.def` lines: `C03.row_size_grows_with_run_counterexample`.) -/
theorem rows_of_cap_u32 (ps : List Oov.Provider) (lex : List Oov.Word) (buf : Oov.Buf) (hwf : buf.WF)
    (hn : buf.chars.length ≤ 65535) (hcap : rowCap ps lex ≤ 65537) (nodes : List Oov.Node)
    (h : Oov.buildLattice ps lex buf = .ok nodes) (e : Nat) :
    (nodes.map toVit).countP (fun n => n.e == e) ≤ 4294967295 := by
  refine Nat.le_trans (rows_le_cap_mul ps lex buf hwf hn nodes h e) ?_
  calc rowCap ps lex * buf.chars.length ≤ 65537 * 65535 := Nat.mul_le_mul hcap hn
    _ = 4294967295 := by decide

/-! ## (e) the chain lattice in closed form: the exact overflow threshold of the `i32` accumulator -/

/-- `n` one-character words `i..i+1`, connection ids 0, all of cost `c` (the lattice of the text `1`×n over the D7
dictionary; the `gen=chain` cases of the `cost` correspondence) -/
def chainNodes (n : Nat) (c : Int) : List Vit.Node := (List.range n).map (fun i => (⟨i, i + 1, 0, 0, c⟩ : Vit.Node))

/-- state of the rows after the first `j` words of a chain over a text of `n` characters: row `j` holds exactly one
entry, whose total is `j·(k+c)`; the rows behind it are still empty -/
def ChainInv (n : Nat) (d : Int) (j : Nat) (rows : Rows) : Prop :=
  rows.size = n + 1 ∧ (∃ ent, rows[j]? = some [ent] ∧ ent.total = (j : Int) * d) ∧
  ∀ i, j < i → i ≤ n → rows[i]? = some []

theorem chain_reset (n : Nat) (d : Int) : ChainInv n d 0 (reset n) := by
  refine ⟨by simp [reset], ⟨bosEntry, ?_, by simp [bosEntry]⟩, ?_⟩
  · unfold reset
    rw [Array.getElem?_setIfInBounds]
    simp
  · intro i h1 h2
    unfold reset
    rw [Array.getElem?_setIfInBounds, if_neg (by omega), Array.getElem?_replicate, if_pos (by omega)]

/-- the two additions of one step stay inside `i32` and the new total is not the sentinel -/
def StepOk (k c : Int) (j : Nat) : Prop :=
  -2147483648 ≤ (j : Int) * (k + c) + k ∧ (j : Int) * (k + c) + k ≤ 2147483647 ∧
  -2147483648 ≤ ((j : Int) + 1) * (k + c) ∧ ((j : Int) + 1) * (k + c) < 2147483647 ∧ (j : Int) * (k + c) ≠ 2147483647

theorem chain_insert (k c : Int) (n j : Nat) (hj : j < n) (hn : n ≤ 65535) (rows : Rows)
    (hinv : ChainInv n (k + c) j rows) (hs : StepOk k c j) :
    ∃ rows' ent, insert addI32 I32_MAX (fun _ _ => k) rows ⟨j, j + 1, 0, 0, c⟩ = .ok (rows', ent) ∧
      ChainInv n (k + c) (j + 1) rows' := by
  obtain ⟨hsz, ⟨ent, hrow, htot⟩, hemp⟩ := hinv
  obtain ⟨s1, s2, s3, s4, s5⟩ := hs
  have hrow1 := hemp (j + 1) (by omega) (by omega)
  have e1 : addI32 ent.total k = some ((j : Int) * (k + c) + k) := by
    unfold addI32 addW I32_MAX; rw [htot, if_pos ⟨by omega, by omega⟩]
  have e2 : addI32 ((j : Int) * (k + c) + k) c = some (((j : Int) + 1) * (k + c)) := by
    unfold addI32 addW I32_MAX
    have : (j : Int) * (k + c) + k + c = ((j : Int) + 1) * (k + c) := by
      rw [Int.add_mul, Int.one_mul]; omega
    rw [this, if_pos ⟨by omega, by omega⟩]
  have hc : connectNode addI32 I32_MAX (fun _ _ => k) [ent] ⟨j, j + 1, 0, 0, c⟩
      = some (((j : Int) + 1) * (k + c), asU16 j, asU32 0) := by
    unfold connectNode
    simp only [connGo]
    rw [if_neg (by rw [htot]; unfold I32_MAX; exact s5), e1]
    simp only []
    rw [e2]
    simp only []
    rw [if_pos (by unfold I32_MAX; exact s4)]
  refine ⟨rows.setIfInBounds (j + 1) ([] ++ [⟨⟨j, j + 1, 0, 0, c⟩, ((j : Int) + 1) * (k + c), asU16 j, asU32 0⟩]),
    ⟨⟨j, j + 1, 0, 0, c⟩, ((j : Int) + 1) * (k + c), asU16 j, asU32 0⟩, ?_, ?_⟩
  · unfold insert
    simp only [hrow, hc, hrow1]
  · refine ⟨by rw [Array.size_setIfInBounds]; exact hsz,
      ⟨⟨⟨j, j + 1, 0, 0, c⟩, ((j : Int) + 1) * (k + c), asU16 j, asU32 0⟩, ?_, by rw [Int.natCast_add]; rfl⟩, ?_⟩
    · rw [Array.getElem?_setIfInBounds, if_pos rfl, if_pos (by omega)]; rfl
    · intro i h1 h2
      rw [Array.getElem?_setIfInBounds, if_neg (by omega)]
      exact hemp i (by omega) h2

theorem chain_buildAll (k c : Int) (n : Nat) (hn : n ≤ 65535) :
    ∀ (m j : Nat) (rows : Rows) (acc : List Entry), j + m ≤ n → ChainInv n (k + c) j rows →
      (∀ i, j ≤ i → i < j + m → StepOk k c i) →
      ∃ rows' ents, buildAll addI32 I32_MAX (fun _ _ => k)
          ((List.range' j m).map (fun i => (⟨i, i + 1, 0, 0, c⟩ : Vit.Node))) rows acc = .ok (rows', ents) ∧
        ChainInv n (k + c) (j + m) rows'
  | 0, j, rows, acc, _, hinv, _ => ⟨rows, acc.reverse, by simp [buildAll], hinv⟩
  | m + 1, j, rows, acc, hjm, hinv, hs => by
    obtain ⟨rows1, ent, h1, hinv1⟩ := chain_insert k c n j (by omega) hn rows hinv (hs j (Nat.le_refl _) (by omega))
    obtain ⟨rows', ents, h2, hinv2⟩ := chain_buildAll k c n hn m (j + 1) rows1 (ent :: acc) (by omega) hinv1
      (fun i a b => hs i (by omega) (by omega))
    refine ⟨rows', ents, ?_, by rw [show j + (m + 1) = j + 1 + m by omega]; exact hinv2⟩
    simp only [List.range'_succ, List.map_cons, buildAll, h1]
    exact h2

/-- **a chain of `n` words in closed form**: when every step stays inside `i32`, all inserts succeed and the last row
holds the one total `n·(k+c)` -/
theorem chain_closed (k c : Int) (n : Nat) (hn : n ≤ 65535) (hs : ∀ i, i < n → StepOk k c i) :
    ∃ rows ents ent, buildAll addI32 I32_MAX (fun _ _ => k) (chainNodes n c) (reset n) [] = .ok (rows, ents) ∧
      rows[n]? = some [ent] ∧ ent.total = (n : Int) * (k + c) := by
  obtain ⟨rows, ents, h, _, ⟨ent, h1, h2⟩, _⟩ := chain_buildAll k c n hn n 0 (reset n) [] (by omega) (chain_reset n (k + c))
    (fun i _ b => hs i (by omega))
  refine ⟨rows, ents, ent, ?_, by simpa using h1, by simpa using h2⟩
  unfold chainNodes
  rw [List.range_eq_range']
  exact h

/-- `connect_eos` of a chain: one left neighbour with total `T`; the first addition is `T + k` -/
theorem chain_eos (k : Int) (n : Nat) (hn : n ≤ 65535) (rows : Rows) (ent : Entry) (hrow : rows[n]? = some [ent])
    (hne : ent.total ≠ I32_MAX) :
    (addI32 ent.total k = none → connectEos addI32 I32_MAX (fun _ _ => k) rows n = .panic "overflow") ∧
    (∀ x, addI32 ent.total k = some x → x < I32_MAX →
      connectEos addI32 I32_MAX (fun _ _ => k) rows n = .ok (x, n, 0)) := by
  have hid : asU16 n = n := asU16_id n hn
  constructor
  · intro h
    unfold connectEos eosNode
    simp only [hid, hrow, connectNode, connGo, if_neg hne, h]
  · intro x h hx
    have h0 : addI32 x 0 = some x := by
      unfold addI32 addW at h ⊢
      split at h
      · cases h; rw [if_pos (by omega)]; simp
      · cases h
    unfold connectEos eosNode
    simp only [hid, hrow, connectNode, connGo, if_neg hne, h, h0, if_pos hx]
    rw [if_neg (by omega)]
    simp [asU16, asU32]

/-- a chain whose steps all stay inside `i32` but whose `connect_eos` addition does not: `attempt to add with overflow`
(stated for a variable length so that nothing of the size of the text is ever evaluated) -/
theorem chain_outcome_overflow (k c : Int) (n : Nat) (hn : n ≤ 65535) (hs : ∀ i, i < n → StepOk k c i)
    (hne : (n : Int) * (k + c) ≠ 2147483647)
    (hov : ¬ (-2147483648 ≤ (n : Int) * (k + c) + k ∧ (n : Int) * (k + c) + k ≤ 2147483647)) :
    latticeOutcome addI32 I32_MAX (fun _ _ => k) (chainNodes n c) n = .panic "overflow" := by
  obtain ⟨rows, ents, ent, h1, h2, h3⟩ := chain_closed k c n hn hs
  unfold latticeOutcome
  rw [h1]
  refine (chain_eos k n hn rows ent h2 (by rw [h3]; unfold I32_MAX; exact hne)).1 ?_
  unfold addI32 addW I32_MAX
  rw [h3, if_neg (by omega)]

/-- a chain that stays inside `i32` up to and including `connect_eos` -/
theorem chain_outcome_ok (k c : Int) (n : Nat) (hn : n ≤ 65535) (hs : ∀ i, i < n → StepOk k c i)
    (hne : (n : Int) * (k + c) ≠ 2147483647)
    (hok : -2147483648 ≤ (n : Int) * (k + c) + k ∧ (n : Int) * (k + c) + k < 2147483647) :
    latticeOutcome addI32 I32_MAX (fun _ _ => k) (chainNodes n c) n = .ok ((n : Int) * (k + c) + k, n, 0) := by
  obtain ⟨rows, ents, ent, h1, h2, h3⟩ := chain_closed k c n hn hs
  unfold latticeOutcome
  rw [h1]
  refine (chain_eos k n hn rows ent h2 (by rw [h3]; unfold I32_MAX; exact hne)).2 _ ?_ (by unfold I32_MAX; exact hok.2)
  unfold addI32 addW I32_MAX
  rw [h3, if_pos ⟨by omega, by omega⟩]

end Total
