import Sudachi.Model.CodecBuild
import Sudachi.Proofs.CodecDec
/-!
# The CSV FIELD layer of the dictionary builder (property C05): helper lemmas

`dic/build/parse.rs` (`unescape`, number / id parsers, slash lists), `lexicon.rs` (`parse_split(s)`, `pos_of`,
`parse_record`) and `resolve.rs` (the inline-reference resolver) as modelled in `Model/CodecBuild.lean`, against
the REFERENCE RENDERER the generator of the harness uses (`esc_text`, `to_string`, `join("/")`, `join(",")`).
-/
namespace Codec

/-! ## `unescape` -/

/-- the text after `\u` has the shape of a literal: `{` 1..6 hex digits `}`, or 4 hex digits
(`UNICODE_LITERAL = \\u(?:\{([0-9a-fA-F]{1,6})\}|([0-9a-fA-F]{4}))`) -/
def escShape (rest : Str) : Bool :=
  match rest with
  | 123 :: r2 =>
    let h := r2.takeWhile isHex
    decide (1 ≤ h.length ∧ h.length ≤ 6 ∧ (r2.drop h.length).head? = some 125)
  | _ => decide ((rest.take 4).length = 4 ∧ (rest.take 4).all isHex)

/-- the text after a backslash begins a literal -/
def startsEsc (t : Str) : Bool :=
  match t with
  | 117 :: r => escShape r
  | _ => false

theorem unescapeGo_nil (f : Nat) : unescapeGo f [] = some [] := by
  cases f <;> rfl

/-- a character other than the backslash is copied -/
theorem unescapeGo_plain (f : Nat) (c : Nat) (rest : Str) (hc : c ≠ 92) :
    unescapeGo (f + 1) (c :: rest) = (unescapeGo f rest).map (c :: ·) := by
  rw [unescapeGo]
  intro r h
  cases h
  exact absurd rfl hc

/-- a backslash that does not begin a literal is copied (the regex finds no match at this position) -/
theorem unescapeGo_backslash (f : Nat) (rest : Str) (h : startsEsc rest = false) :
    unescapeGo (f + 1) (92 :: rest) = (unescapeGo f rest).map (92 :: ·) := by
  cases rest with
  | nil =>
    rw [unescapeGo]
    intro r _ h; cases h
  | cons c r =>
    by_cases hc : c = 117
    · subst hc
      simp only [startsEsc] at h
      cases r with
      | nil =>
        rw [unescapeGo]
        · simp
        · intro r2 h2; cases h2
      | cons d r2 =>
        by_cases hd : d = 123
        · subst hd
          simp only [escShape, decide_eq_false_iff_not] at h
          rw [unescapeGo]
          simp only [h, if_false]
        · have h' : ¬ (((d :: r2).take 4).length = 4 ∧ ((d :: r2).take 4).all isHex = true) := by
            unfold escShape at h
            split at h
            · rename_i heq; cases heq; exact absurd rfl hd
            · simpa using h
          rw [unescapeGo]
          · simp only [h', if_false]
          · intro r3 heq; cases heq; exact hd rfl
    · rw [unescapeGo]
      intro r3 _ heq; cases heq; exact hc rfl

theorem takeWhile_hex (h rest : Str) (hh : h.all isHex = true) :
    (h ++ 125 :: rest).takeWhile isHex = h := by
  induction h with
  | nil => simp [show isHex 125 = false by decide]
  | cons a t ih =>
    simp only [List.all_cons, Bool.and_eq_true] at hh
    simp [hh.1, ih hh.2]

/-- `\u{H}` with 1..6 hex digits is ONE match of the literal, whatever follows -/
theorem unescapeGo_brace (f : Nat) (h rest : Str) (hh : h.all isHex = true) (h1 : 1 ≤ h.length) (h6 : h.length ≤ 6) :
    unescapeGo (f + 1) (92 :: 117 :: 123 :: (h ++ 125 :: rest)) =
      if isScalar (hexNum h) then (unescapeGo f rest).map (hexNum h :: ·) else none := by
  rw [unescapeGo]
  simp only [takeWhile_hex h rest hh, List.drop_left, List.head?_cons, h1, h6, and_self, if_true, List.drop_succ_cons, List.drop_zero]

/-- `\uXXXX` with exactly four hex digits is ONE match of the literal, whatever follows (a fifth hex digit is text) -/
theorem unescapeGo_u4 (f : Nat) (h rest : Str) (hh : h.all isHex = true) (h4 : h.length = 4) :
    unescapeGo (f + 1) (92 :: 117 :: (h ++ rest)) =
      if isScalar (hexNum h) then (unescapeGo f rest).map (hexNum h :: ·) else none := by
  match h, h4 with
  | [a, b, c, d], _ =>
    have ha : a ≠ 123 := by
      intro e; subst e; simp [isHex, isDigit] at hh
    rw [show [a, b, c, d] ++ rest = a :: b :: c :: d :: rest from rfl, unescapeGo]
    · have : (List.take 4 (a :: b :: c :: d :: rest)) = [a, b, c, d] := rfl
      simp only [this, hh, List.length_cons, List.length_nil, and_self, if_true]
      rfl
    · intro r2 heq; cases heq; exact ha rfl

/-! ### the reference escaper (`esc_text` of the generator) -/

/-- one unit of an escaped text: a character written as itself, as `\uXXXX`, or as `\u{H}` -/
inductive Tok where
  | raw (c : Nat)
  | u4 (h : Str)
  | br (h : Str)
deriving Repr, DecidableEq

namespace Tok
def text : Tok → Str
  | .raw c => [c]
  | .u4 h => 92 :: 117 :: h
  | .br h => 92 :: 117 :: 123 :: (h ++ [125])
def val : Tok → Nat
  | .raw c => c
  | .u4 h => hexNum h
  | .br h => hexNum h
/-- the digits have the shape the literal needs -/
def shapeOk : Tok → Bool
  | .raw _ => true
  | .u4 h => h.length = 4 && h.all isHex
  | .br h => 1 ≤ h.length && h.length ≤ 6 && h.all isHex
/-- `char::from_u32` accepts the value of a literal (raw characters are characters already) -/
def valOk : Tok → Bool
  | .raw _ => true
  | t => isScalar t.val
end Tok

def toksText (ts : List Tok) : Str := ts.flatMap Tok.text

/-- no backslash written as itself begins a literal in the finished text (`has_escape` of the generator) -/
def noAccident : List Tok → Bool
  | [] => true
  | .raw c :: rest => (c != 92 || !startsEsc (toksText rest)) && noAccident rest
  | _ :: rest => noAccident rest

theorem toksText_cons (t : Tok) (ts : List Tok) : toksText (t :: ts) = t.text ++ toksText ts := by
  simp [toksText]

/-- **`unescape_slow` on a tokenised text**: every well-shaped literal is replaced by its value, every other character
(also a backslash that begins no literal) is copied; the result is an error iff some literal names no scalar value. -/
theorem unescapeGo_toks (ts : List Tok) : ∀ (f : Nat), (∀ t ∈ ts, t.shapeOk = true) → noAccident ts = true →
    (toksText ts).length ≤ f →
    unescapeGo f (toksText ts) = if ts.all Tok.valOk then some (ts.map Tok.val) else none := by
  induction ts with
  | nil => intro f _ _ _; simp [toksText, unescapeGo_nil]
  | cons t ts ih =>
    intro f hs hn hl
    have hs' : ∀ t ∈ ts, t.shapeOk = true := fun x hx => hs x (List.mem_cons_of_mem _ hx)
    rw [toksText_cons] at hl ⊢
    cases t with
    | raw c =>
      simp only [noAccident, Bool.and_eq_true, Bool.or_eq_true, bne_iff_ne, ne_eq, Bool.not_eq_true'] at hn
      simp only [Tok.text, List.cons_append, List.nil_append, List.length_cons] at hl ⊢
      obtain ⟨f', rfl⟩ : ∃ f', f = f' + 1 := ⟨f - 1, by omega⟩
      have ih' := ih f' hs' hn.2 (by omega)
      have step : unescapeGo (f' + 1) (c :: toksText ts) = (unescapeGo f' (toksText ts)).map (c :: ·) := by
        rcases hn.1 with h | h
        · exact unescapeGo_plain f' c _ h
        · by_cases hc : c = 92
          · subst hc; exact unescapeGo_backslash f' _ h
          · exact unescapeGo_plain f' c _ hc
      rw [step, ih']
      simp only [List.all_cons, Tok.valOk, Bool.true_and, List.map_cons, Tok.val]
      split <;> simp
    | u4 h =>
      have hsh := hs (.u4 h) (List.mem_cons_self ..)
      simp only [Tok.shapeOk, Bool.and_eq_true, decide_eq_true_eq] at hsh
      simp only [noAccident] at hn
      simp only [Tok.text, List.cons_append, List.length_cons, List.length_append] at hl ⊢
      obtain ⟨f', rfl⟩ : ∃ f', f = f' + 1 := ⟨f - 1, by omega⟩
      rw [unescapeGo_u4 f' h _ hsh.2 hsh.1, ih f' hs' hn (by omega)]
      simp only [List.all_cons, Tok.valOk, Tok.val, List.map_cons]
      cases isScalar (hexNum h) <;> simp
    | br h =>
      have hsh := hs (.br h) (List.mem_cons_self ..)
      simp only [Tok.shapeOk, Bool.and_eq_true, decide_eq_true_eq] at hsh
      simp only [noAccident] at hn
      simp only [Tok.text, List.cons_append, List.length_cons, List.length_append, List.append_assoc, List.nil_append] at hl ⊢
      obtain ⟨f', rfl⟩ : ∃ f', f = f' + 1 := ⟨f - 1, by omega⟩
      rw [unescapeGo_brace f' h _ hsh.2 hsh.1.1 hsh.1.2, ih f' hs' hn (by omega)]
      simp only [List.all_cons, Tok.valOk, Tok.val, List.map_cons]
      cases isScalar (hexNum h) <;> simp

/-- `{:X}` / `{:x}` digit -/
def hexDigit (upper : Bool) (d : Nat) : Nat := if d < 10 then 48 + d else if upper then 55 + d else 87 + d

/-- `format!("{:0w$x}", v)` for a value below `16^w`: exactly `w` digits, zero padded -/
def hexFixed (upper : Bool) : Nat → Nat → Str
  | 0, _ => []
  | w + 1, v => hexFixed upper w (v / 16) ++ [hexDigit upper (v % 16)]

theorem hexDigit_spec : ∀ (up : Bool), ∀ d, d < 16 → isHex (hexDigit up d) = true ∧ hexVal (hexDigit up d) = d := by
  decide

theorem hexFixed_length (up : Bool) (w v : Nat) : (hexFixed up w v).length = w := by
  induction w generalizing v with
  | zero => rfl
  | succ w ih => simp [hexFixed, ih]

theorem hexFixed_all (up : Bool) (w v : Nat) : (hexFixed up w v).all isHex = true := by
  induction w generalizing v with
  | zero => rfl
  | succ w ih =>
    simp only [hexFixed, List.all_append, ih, List.all_cons, List.all_nil, Bool.and_true, Bool.true_and]
    exact (hexDigit_spec up _ (Nat.mod_lt _ (by decide))).1

theorem hexNum_append (xs : Str) (d : Nat) : hexNum (xs ++ [d]) = hexNum xs * 16 + hexVal d := by
  simp [hexNum, List.foldl_append]

theorem hexNum_hexFixed (up : Bool) (w v : Nat) : hexNum (hexFixed up w v) = v % 16 ^ w := by
  induction w generalizing v with
  | zero => simp [hexFixed, hexNum, Nat.mod_one]
  | succ w ih =>
    rw [hexFixed, hexNum_append, ih, (hexDigit_spec up _ (Nat.mod_lt _ (by decide))).2, Nat.pow_succ,
      Nat.mul_comm (16 ^ w) 16, Nat.mod_mul]
    omega

theorem unescapeGo_no_backslash (s : Str) : ∀ f, 92 ∉ s → s.length ≤ f → unescapeGo f s = some s := by
  induction s with
  | nil => intro f _ _; exact unescapeGo_nil f
  | cons c r ih =>
    intro f h hl
    simp only [List.mem_cons, not_or] at h
    simp only [List.length_cons] at hl
    obtain ⟨f', rfl⟩ : ∃ f', f = f' + 1 := ⟨f - 1, by omega⟩
    rw [unescapeGo_plain f' c r (fun e => h.1 e.symm), ih f' h.2 (by omega)]
    rfl

/-- how the generator writes one character -/
inductive Choice where
  | raw
  | u4 (upper : Bool)
  | br (width : Nat) (upper : Bool)
deriving Repr, DecidableEq

def escChar (c : Nat) : Choice → Tok
  | .raw => .raw c
  | .u4 up => .u4 (hexFixed up 4 c)
  | .br w up => .br (hexFixed up w c)

/-- `\uXXXX` only for the BMP; `\u{H}` with at least the minimal and at most six digits -/
def choiceOk (c : Nat) : Choice → Bool
  | .raw => true
  | .u4 _ => c < 65536
  | .br w _ => 1 ≤ w && w ≤ 6 && c < 16 ^ w

/-- a declared string together with the way each of its characters is written in the CSV field -/
abbrev EStr := List (Nat × Choice)

namespace EStr
/-- the declared string -/
def val (e : EStr) : Str := e.map (·.1)
def toks (e : EStr) : List Tok := e.map (fun x => escChar x.1 x.2)
/-- the field text (`esc_text`) -/
def text (e : EStr) : Str := toksText e.toks
/-- every character is a scalar value, every choice is one the generator makes, no raw backslash begins a literal,
and the field passes `check_str_len` -/
def ok (e : EStr) : Bool :=
  e.all (fun x => isScalar x.1 && choiceOk x.1 x.2) && noAccident e.toks && decide (utf8LenStr e.text ≤ 32767)
/-- written without any literal -/
def plain (s : Str) : EStr := s.map (fun c => (c, Choice.raw))
end EStr

theorem escChar_spec (c : Nat) (ch : Choice) (h : choiceOk c ch = true) :
    (escChar c ch).shapeOk = true ∧ (escChar c ch).val = c := by
  cases ch with
  | raw => exact ⟨rfl, rfl⟩
  | u4 up =>
    simp only [choiceOk, decide_eq_true_eq] at h
    refine ⟨by simp [escChar, Tok.shapeOk, hexFixed_length, hexFixed_all], ?_⟩
    simp only [escChar, Tok.val, hexNum_hexFixed]
    exact Nat.mod_eq_of_lt (by simpa using h)
  | br w up =>
    simp only [choiceOk, Bool.and_eq_true, decide_eq_true_eq] at h
    refine ⟨by simp [escChar, Tok.shapeOk, hexFixed_length, hexFixed_all, h.1.1, h.1.2], ?_⟩
    simp only [escChar, Tok.val, hexNum_hexFixed]
    exact Nat.mod_eq_of_lt h.2

/-- **`unescape` undoes the reference escaper** -/
theorem unescape_estr (e : EStr) (h : e.ok = true) : unescape e.text = some e.val := by
  simp only [EStr.ok, Bool.and_eq_true, List.all_eq_true, decide_eq_true_eq] at h
  obtain ⟨⟨hall, hacc⟩, hlen⟩ := h
  unfold unescape
  simp only [show ¬ utf8LenStr e.text > 32767 by omega, if_false]
  have hshape : ∀ t ∈ e.toks, t.shapeOk = true := by
    intro t ht
    simp only [EStr.toks, List.mem_map] at ht
    obtain ⟨x, hx, rfl⟩ := ht
    exact (escChar_spec x.1 x.2 (hall x hx).2).1
  have hval : e.toks.map Tok.val = e.val := by
    simp only [EStr.toks, EStr.val, List.map_map]
    apply List.map_congr_left
    intro x hx
    exact (escChar_spec x.1 x.2 (hall x hx).2).2
  have hvok : e.toks.all Tok.valOk = true := by
    simp only [List.all_eq_true, EStr.toks, List.mem_map]
    rintro t ⟨x, hx, rfl⟩
    have h1 := (hall x hx).1
    have h2 := (escChar_spec x.1 x.2 (hall x hx).2).2
    cases hc : x.2 with
    | raw => simp [escChar, Tok.valOk]
    | u4 up => rw [hc] at h2; simp only [escChar, Tok.valOk] at h2 ⊢; rw [h2]; exact h1
    | br w up => rw [hc] at h2; simp only [escChar, Tok.valOk] at h2 ⊢; rw [h2]; exact h1
  have := unescapeGo_toks e.toks (e.text.length + 1) hshape hacc (by unfold EStr.text; omega)
  unfold EStr.text at this ⊢
  rw [this, hvok, hval]
  rfl

theorem noAccident_plain_no_backslash (s : Str) (h : 92 ∉ s) : noAccident (EStr.plain s).toks = true := by
  induction s with
  | nil => rfl
  | cons c r ih =>
    simp only [List.mem_cons, not_or] at h
    simp only [EStr.plain, EStr.toks, List.map_cons, escChar, noAccident, Bool.and_eq_true, Bool.or_eq_true, bne_iff_ne, ne_eq]
    exact ⟨Or.inl (fun e => h.1 e.symm), ih h.2⟩

theorem plain_text (s : Str) : (EStr.plain s).text = s := by
  induction s with
  | nil => rfl
  | cons c r ih =>
    show toksText (escChar c .raw :: (EStr.plain r).toks) = c :: r
    rw [toksText_cons]
    show [c] ++ (EStr.plain r).text = c :: r
    rw [ih]; rfl

theorem plain_val (s : Str) : (EStr.plain s).val = s := by
  induction s with
  | nil => rfl
  | cons c r ih =>
    show c :: (EStr.plain r).val = c :: r
    rw [ih]

/-! ## `Wire.allSome` (the `?` inside a loop) -/

theorem allSome_eq_some_iff {α : Type} (l : List (Option α)) (r : List α) :
    Wire.allSome l = some r ↔ l = r.map some := by
  induction l generalizing r with
  | nil => cases r <;> simp [Wire.allSome]
  | cons a t ih =>
    cases a with
    | none => cases r <;> simp [Wire.allSome]
    | some a =>
      cases r with
      | nil => simp [Wire.allSome]
      | cons b r' =>
        simp only [Wire.allSome, Option.map_eq_some_iff, List.map_cons, List.cons.injEq, Option.some.injEq]
        constructor
        · rintro ⟨x, hx, rfl, rfl⟩; exact ⟨rfl, (ih _).1 hx⟩
        · rintro ⟨rfl, h⟩; exact ⟨r', (ih _).2 h, rfl, rfl⟩

theorem allSome_map_some {α β : Type} (f : α → Option β) (g : α → β) (l : List α) (h : ∀ x ∈ l, f x = some (g x)) :
    Wire.allSome (l.map f) = some (l.map g) := by
  rw [allSome_eq_some_iff, List.map_map]
  exact List.map_congr_left (fun x hx => h x hx)

theorem allSome_eq_none_iff {α : Type} (l : List (Option α)) : Wire.allSome l = none ↔ none ∈ l := by
  induction l with
  | nil => simp [Wire.allSome]
  | cons a t ih =>
    cases a with
    | none => simp [Wire.allSome]
    | some a => simp [Wire.allSome, ih]

/-! ## the inline-reference resolver (`resolve.rs`) -/

/-- a resolver row answers the reference `surface,pos,reading` -/
def rowMatches (s : Str) (p : Nat) (r : Option Str) (row : ResolverRow) : Bool :=
  row.1 = s && row.2.1 = p && row.2.2.1 = r

theorem resolveInline_eq (rows : List ResolverRow) (s : Str) (p : Nat) (r : Option Str) :
    resolveInline rows s p r = (rows.find? (rowMatches s p r)).map (·.2.2.2) := rfl

/-- FIRST matching row, by position -/
theorem resolveInline_eq_some_iff (rows : List ResolverRow) (s : Str) (p : Nat) (r : Option Str) (w : Nat) :
    resolveInline rows s p r = some w ↔
      ∃ i row, rows[i]? = some row ∧ rowMatches s p r row = true ∧ row.2.2.2 = w ∧
        ∀ (j : Nat) (row' : ResolverRow), j < i → rows[j]? = some row' → rowMatches s p r row' = false := by
  rw [resolveInline_eq, Option.map_eq_some_iff]
  constructor
  · rintro ⟨row, hf, rfl⟩
    obtain ⟨hm, i, hi, hrow, hbefore⟩ := List.find?_eq_some_iff_getElem.1 hf
    refine ⟨i, row, by rw [List.getElem?_eq_some_iff]; exact ⟨hi, hrow⟩, hm, rfl, ?_⟩
    intro j row' hj hrow'
    obtain ⟨hj', e⟩ := List.getElem?_eq_some_iff.1 hrow'
    have := hbefore j hj
    rw [e] at this
    simpa using this
  · rintro ⟨i, row, hi, hm, rfl, hbefore⟩
    obtain ⟨hi', e⟩ := List.getElem?_eq_some_iff.1 hi
    refine ⟨row, List.find?_eq_some_iff_getElem.2 ⟨hm, i, hi', e, ?_⟩, rfl⟩
    intro j hj
    have := hbefore j rows[j] hj (by rw [List.getElem?_eq_some_iff]; exact ⟨by omega, rfl⟩)
    simp [this]

theorem resolveInline_eq_none_iff (rows : List ResolverRow) (s : Str) (p : Nat) (r : Option Str) :
    resolveInline rows s p r = none ↔ ∀ row ∈ rows, rowMatches s p r row = false := by
  rw [resolveInline_eq, Option.map_eq_none_iff, List.find?_eq_none]
  constructor
  · intro h row hr; simpa using h row hr
  · intro h row hr; simp [h row hr]

/-- `RawDictResolver::new`: row `i` is entry `i` - key (column 0), POS id, reading unless equal to the key - under the
word id `(dic, i)` -/
theorem rawResolverRows_getElem? (es : List RawEntry) (user : Bool) (i : Nat) :
    (rawResolverRows es user)[i]? = es[i]?.map (fun e =>
      (e.surface, e.pos, (if e.surface = e.readingS then none else some e.readingS), widNew (if user then 1 else 0) i)) := by
  unfold rawResolverRows
  rw [List.getElem?_map, List.zip_eq_zipWith, List.getElem?_zipWith]
  by_cases h : i < es.length
  · rw [List.getElem?_range h, List.getElem?_eq_getElem h]; rfl
  · have : es[i]? = none := by simp; omega
    rw [this]
    cases (List.range es.length)[i]? <;> rfl

/-- the ids `resolve_splits` leaves in an entry -/
def resolvedIds (own sys : List ResolverRow) (e : RawEntry) : List Nat × List Nat :=
  ((Wire.allSome (e.splitsA.map (resolveUnit own sys))).getD [], (Wire.allSome (e.splitsB.map (resolveUnit own sys))).getD [])

theorem resolveSplits_some (own sys : List ResolverRow) (es : List RawEntry) : ∀ (out : List Entry),
    resolveSplits own sys es = some out →
    out = es.map (fun e => toEntry e (resolvedIds own sys e).1 (resolvedIds own sys e).2) ∧
    ∀ e ∈ es, e.splitsA.map (resolveUnit own sys) = (resolvedIds own sys e).1.map some ∧
      e.splitsB.map (resolveUnit own sys) = (resolvedIds own sys e).2.map some := by
  induction es with
  | nil =>
    intro out h
    simp only [resolveSplits, List.map_nil, Wire.allSome, Option.some.injEq] at h
    subst h
    exact ⟨rfl, fun e he => by cases he⟩
  | cons e r ih =>
    intro out h
    unfold resolveSplits at h
    simp only [List.map_cons] at h
    cases hA : Wire.allSome (e.splitsA.map (resolveUnit own sys)) with
    | none => rw [hA] at h; simp [Wire.allSome] at h
    | some a =>
      cases hB : Wire.allSome (e.splitsB.map (resolveUnit own sys)) with
      | none => rw [hA, hB] at h; simp [Wire.allSome] at h
      | some b =>
        rw [hA, hB] at h
        simp only [Wire.allSome, Option.map_eq_some_iff] at h
        obtain ⟨out', hout', rfl⟩ := h
        obtain ⟨h1, h2⟩ := ih out' hout'
        have ea : (resolvedIds own sys e).1 = a := by simp [resolvedIds, hA]
        have eb : (resolvedIds own sys e).2 = b := by simp [resolvedIds, hB]
        refine ⟨by simp only [List.map_cons, ea, eb, ← h1], ?_⟩
        intro x hx
        rcases List.mem_cons.1 hx with rfl | hx
        · rw [ea, eb]
          exact ⟨(allSome_eq_some_iff _ _).1 hA, (allSome_eq_some_iff _ _).1 hB⟩
        · exact h2 x hx

/-! ## POS interning (`pos_of`) -/

/-- `pos_of` in one statement -/
theorem posOf_spec (rd : Reader) (p : List Str) :
    (p ∈ rd.pos.toList → ∃ i, posOf rd p = some (i, rd) ∧ rd.pos.toList[i]? = some p ∧
        ∀ j, j < i → rd.pos.toList[j]? ≠ some p) ∧
    (p ∉ rd.pos.toList → rd.pos.size ≤ 32767 → posOf rd p = some (rd.pos.size, { rd with pos := rd.pos.push p })) ∧
    (p ∉ rd.pos.toList → rd.pos.size > 32767 → posOf rd p = none) := by
  refine ⟨?_, ?_, ?_⟩
  · intro hmem
    cases hf : rd.pos.toList.findIdx? (· = p) with
    | none =>
      have := List.findIdx?_eq_none_iff.1 hf p hmem
      simp at this
    | some i =>
      obtain ⟨hi, hp, hbefore⟩ := List.findIdx?_eq_some_iff_getElem.1 hf
      refine ⟨i, by unfold posOf; rw [hf], ?_, ?_⟩
      · rw [List.getElem?_eq_some_iff]; exact ⟨hi, by simpa using hp⟩
      · intro j hj hc
        obtain ⟨hj', e⟩ := List.getElem?_eq_some_iff.1 hc
        exact hbefore j hj (by simp [e])
  · intro hmem hsz
    have hf : rd.pos.toList.findIdx? (· = p) = none := by
      rw [List.findIdx?_eq_none_iff]; intro x hx; simp; intro e; exact hmem (e ▸ hx)
    unfold posOf; rw [hf]
    simp [show ¬ rd.pos.size > 32767 by omega]
  · intro hmem hsz
    have hf : rd.pos.toList.findIdx? (· = p) = none := by
      rw [List.findIdx?_eq_none_iff]; intro x hx; simp; intro e; exact hmem (e ▸ hx)
    unfold posOf; rw [hf]
    simp [hsz]

/-! ## `join` / `split` -/

/-- `parts.join(sep)` -/
def joinSep (sep : Nat) : List Str → Str
  | [] => []
  | [a] => a
  | a :: b :: r => a ++ sep :: joinSep sep (b :: r)

theorem splitGo_part (sep : Nat) (p rest cur : Str) (acc : List Str) (h : sep ∉ p) :
    splitChar.go sep (p ++ rest) cur acc = splitChar.go sep rest (p.reverse ++ cur) acc := by
  induction p generalizing cur with
  | nil => rfl
  | cons c t ih =>
    simp only [List.mem_cons, not_or] at h
    have hc : ¬ c = sep := fun e => h.1 e.symm
    simp only [List.cons_append, splitChar.go, hc, if_false]
    rw [ih _ h.2]
    simp

theorem splitGo_join (sep : Nat) (ps : List Str) : ∀ (cur : Str) (acc : List Str), ps ≠ [] → (∀ p ∈ ps, sep ∉ p) →
    splitChar.go sep (joinSep sep ps) cur acc = acc.reverse ++ ((cur.reverse ++ ps.headD []) :: ps.tail) := by
  induction ps with
  | nil => intro _ _ h; exact absurd rfl h
  | cons a r ih =>
    intro cur acc _ h
    cases r with
    | nil =>
      have := splitGo_part sep a [] cur acc (h a (List.mem_cons_self ..))
      simp only [List.append_nil] at this
      simp only [joinSep, this, splitChar.go]
      simp
    | cons b r' =>
      simp only [joinSep]
      rw [splitGo_part sep a _ cur acc (h a (List.mem_cons_self ..))]
      simp only [splitChar.go, if_true]
      rw [ih [] _ (by simp) (fun p hp => h p (List.mem_cons_of_mem _ hp))]
      simp

theorem splitChar_joinSep (sep : Nat) (ps : List Str) (hne : ps ≠ []) (h : ∀ p ∈ ps, sep ∉ p) :
    splitChar sep (joinSep sep ps) = ps := by
  unfold splitChar
  rw [splitGo_join sep ps [] [] hne h]
  cases ps with
  | nil => exact absurd rfl hne
  | cons a r => simp

/-- `parse_slash_list` over a joined list: every part parses, at most 127 parts -/
theorem parseSlashList_joinSep {α β : Type} (f : Str → Option β) (render : α → Str) (val : α → β) (xs : List α)
    (hne : xs ≠ []) (hlen : xs.length ≤ 127) (hsep : ∀ x ∈ xs, 47 ∉ render x) (hf : ∀ x ∈ xs, f (render x) = some (val x)) :
    parseSlashList (joinSep 47 (xs.map render)) f = some (xs.map val) := by
  unfold parseSlashList
  rw [splitChar_joinSep 47 _ (by simpa using hne) (by
    intro p hp; simp only [List.mem_map] at hp; obtain ⟨x, hx, rfl⟩ := hp; exact hsep x hx)]
  rw [List.map_map, allSome_map_some (f ∘ render) val xs (fun x hx => hf x hx)]
  simp only [List.length_map]
  simp [show ¬ xs.length > 127 by omega]

theorem joinSep_head (sep : Nat) (a : Str) (r : List Str) (h : a ≠ []) : ∃ d t, joinSep sep (a :: r) = d :: t ∧ a.head? = some d := by
  cases a with
  | nil => exact absurd rfl h
  | cons d t => cases r <;> exact ⟨d, _, rfl, rfl⟩

/-- the text of a reference list column (`word-structure`, id-only split columns): `*` when empty -/
def showRefs (xs : List (Bool × Nat)) : Str := if xs = [] then [42] else joinSep 47 (xs.map showRef)

theorem parseWordIdList_showRefs (xs : List (Bool × Nat)) (hlen : xs.length ≤ 127) (h : ∀ x ∈ xs, x.2 < 268435456) :
    parseWordIdList (showRefs xs) = some (xs.map refId) := by
  unfold parseWordIdList showRefs
  by_cases he : xs = []
  · subst he; rfl
  · simp only [he, if_false]
    have hns : emptyOrStar (joinSep 47 (xs.map showRef)) = false := by
      cases xs with
      | nil => exact absurd rfl he
      | cons x r =>
        obtain ⟨d, t, e, hd⟩ := joinSep_head 47 (showRef x) (r.map showRef) (showRef_ne_nil x)
        simp only [List.map_cons]
        rw [e]
        have hm := showRef_mem x d (List.mem_of_mem_head? hd)
        simp only [emptyOrStar, List.isEmpty_cons, Bool.false_or, decide_eq_false_iff_not]
        intro hc
        have : d = 42 := by
          have := congrArg List.head? hc
          simpa [lit] using this
        omega
    rw [hns]
    simp only [Bool.false_eq_true, if_false]
    exact parseSlashList_joinSep parseWordId showRef refId xs he hlen
      (fun x _ hc => by have := showRef_mem x 47 hc; omega) (fun x hx => parseWordId_showRef x (h x hx))

theorem emptyOrStar_joinRefs_false (x : Str) (r : List Str) (hne : x ≠ []) (hd : ∀ c, x.head? = some c → c ≠ 42) :
    emptyOrStar (joinSep 47 (x :: r)) = false := by
  obtain ⟨d, t, e, hh⟩ := joinSep_head 47 x r hne
  rw [e]
  simp only [emptyOrStar, List.isEmpty_cons, Bool.false_or, decide_eq_false_iff_not]
  intro hc
  have : d = 42 := by
    have := congrArg List.head? hc
    simpa [lit] using this
  exact hd d hh this

/-- the text of the synonym-group column: `*` when empty -/
def showSyn (xs : List Nat) : Str := if xs = [] then [42] else joinSep 47 (xs.map showNat)

theorem parseU32List_showSyn (xs : List Nat) (hlen : xs.length ≤ 127) (h : ∀ x ∈ xs, x < 4294967296) :
    parseU32List (showSyn xs) = some xs := by
  unfold parseU32List showSyn
  by_cases he : xs = []
  · subst he; rfl
  · simp only [he, if_false]
    have hns : emptyOrStar (joinSep 47 (xs.map showNat)) = false := by
      cases xs with
      | nil => exact absurd rfl he
      | cons x r =>
        simp only [List.map_cons]
        apply emptyOrStar_joinRefs_false _ _ (showNat_spec x).1
        intro c hc
        have := showNat_mem_digit x c (List.mem_of_mem_head? hc)
        omega
    rw [hns]
    simp only [Bool.false_eq_true, if_false]
    have := parseSlashList_joinSep parseU32 showNat id xs he hlen
      (fun x _ hc => by have := showNat_mem_digit x 47 hc; omega) (fun x hx => parseU32_showNat x (h x hx))
    simpa using this

theorem parseSplitList_refs (rd : Reader) (xs : List (Bool × Nat)) (h : ∀ x ∈ xs, x.2 < 268435456) :
    parseSplitList rd (xs.map showRef) = some (xs.map (fun x => SplitUnit.ref (refId x)), rd) := by
  induction xs with
  | nil => rfl
  | cons x r ih =>
    simp only [List.map_cons, parseSplitList, parseSplit, isWordIdLiteral_showRef, if_true,
      parseWordId_showRef x (h x (List.mem_cons_self ..)), Option.map_some,
      ih (fun y hy => h y (List.mem_cons_of_mem _ hy))]

/-- a split column made of numeric references only (`*` when empty) -/
theorem parseSplits_refs (rd : Reader) (xs : List (Bool × Nat)) (hlen : xs.length ≤ 127) (h : ∀ x ∈ xs, x.2 < 268435456) :
    parseSplits rd (showRefs xs) = some (xs.map (fun x => SplitUnit.ref (refId x)), 0, rd) := by
  unfold parseSplits showRefs
  by_cases he : xs = []
  · subst he; rfl
  · simp only [he, if_false]
    have hns : emptyOrStar (joinSep 47 (xs.map showRef)) = false := by
      cases xs with
      | nil => exact absurd rfl he
      | cons x r =>
        simp only [List.map_cons]
        apply emptyOrStar_joinRefs_false _ _ (showRef_ne_nil x)
        intro c hc
        have := showRef_mem x c (List.mem_of_mem_head? hc)
        omega
    rw [hns]
    simp only [Bool.false_eq_true, if_false]
    rw [splitChar_joinSep 47 _ (by simpa using he) (by
      intro p hp; simp only [List.mem_map] at hp; obtain ⟨x, _, rfl⟩ := hp
      intro hc; have := showRef_mem x 47 hc; omega)]
    rw [parseSplitList_refs rd xs h]
    simp only [List.length_map, show ¬ xs.length > 127 by omega, if_false]
    have hz : ∀ (q : SplitUnit → Bool), (∀ w, q (.ref w) = false) → ∀ l : List (Bool × Nat),
        (List.filter q (l.map (fun x => SplitUnit.ref (refId x)))).length = 0 := by
      intro q hq l; induction l with
      | nil => rfl
      | cons a t ih => simpa [List.filter, hq] using ih
    rw [hz _ (fun _ => rfl)]

/-- the text of the dictionary-form column -/
def showDf : Option (Bool × Nat) → Str
  | none => [42]
  | some x => showRef x
def dfId : Option (Bool × Nat) → Nat
  | none => INVALID_WID
  | some x => refId x

theorem parseDicForm_showDf (x : Option (Bool × Nat)) (h : ∀ y, x = some y → y.2 < 268435456) :
    parseDicForm (showDf x) = some (dfId x) := by
  cases x with
  | none => rfl
  | some y =>
    unfold parseDicForm showDf dfId
    have : showRef y ≠ lit "*" := by
      intro hc
      have hne := showRef_ne_nil y
      cases hs : showRef y with
      | nil => exact hne hs
      | cons d t =>
        have := showRef_mem y d (by rw [hs]; exact List.mem_cons_self ..)
        rw [hs] at hc
        have : d = 42 := by have := congrArg List.head? hc; simpa [lit] using this
        omega
    simp only [this, if_false]
    exact parseWordId_showRef y (h y rfl)

/-- one declared lexicon row: strings with the way they are written, numbers, references by number -/
structure DeclRow where
  surface : EStr
  left : Int
  right : Int
  cost : Int
  headword : EStr
  p1 : EStr
  p2 : EStr
  p3 : EStr
  p4 : EStr
  p5 : EStr
  p6 : EStr
  reading : EStr
  norm : EStr
  dicForm : Option (Bool × Nat)
  /-- the text of the mode column, as written -/
  mode : Str
  splitsA : List (Bool × Nat)
  splitsB : List (Bool × Nat)
  ws : List (Bool × Nat)
  syn : List Nat

namespace DeclRow
/-- the 19 fields of the CSV record (the reference renderer `csv_of` of the generator) -/
def fields (d : DeclRow) : Array Str :=
  #[d.surface.text, showInt d.left, showInt d.right, showInt d.cost, d.headword.text,
    d.p1.text, d.p2.text, d.p3.text, d.p4.text, d.p5.text, d.p6.text, d.reading.text, d.norm.text,
    showDf d.dicForm, d.mode, showRefs d.splitsA, showRefs d.splitsB, showRefs d.ws, showSyn d.syn]
def posKey (d : DeclRow) : List Str := [d.p1.val, d.p2.val, d.p3.val, d.p4.val, d.p5.val, d.p6.val]
def i16 (x : Int) : Bool := decide (-32768 ≤ x ∧ x ≤ 32767)
def refsOk (xs : List (Bool × Nat)) : Bool := decide (xs.length ≤ 127) && xs.all (fun x => decide (x.2 < 268435456))
/-- the limits of the row format (decidable) -/
def ok (d : DeclRow) : Bool :=
  d.surface.ok && d.headword.ok && d.p1.ok && d.p2.ok && d.p3.ok && d.p4.ok && d.p5.ok && d.p6.ok && d.reading.ok && d.norm.ok
    && i16 d.left && i16 d.right && i16 d.cost
    && (match d.dicForm with | none => true | some y => decide (y.2 < 268435456))
    && (parseMode d.mode).isSome
    && !(decide (parseMode d.mode = some .A) && !(d.splitsA.isEmpty && d.splitsB.isEmpty))
    && refsOk d.splitsA && refsOk d.splitsB && refsOk d.ws
    && decide (d.syn.length ≤ 127) && d.syn.all (fun x => decide (x < 4294967296))
    && !d.surface.val.isEmpty && !d.surface.val.contains 0
/-- the `RawLexiconEntry` the row declares, given its POS id -/
def raw (d : DeclRow) (pos : Nat) : RawEntry :=
  { left := d.left, right := d.right, cost := d.cost, surface := d.surface.val,
    headword := noneIfEqual d.surface.val d.headword.val, dicForm := dfId d.dicForm,
    normForm := noneIfEqual d.headword.val d.norm.val, pos := pos,
    splitsA := d.splitsA.map (fun x => .ref (refId x)), splitsB := d.splitsB.map (fun x => .ref (refId x)),
    reading := noneIfEqual d.headword.val d.reading.val, wordStructure := d.ws.map refId, synonyms := d.syn }
end DeclRow

theorem refsOk_spec (xs : List (Bool × Nat)) (h : DeclRow.refsOk xs = true) :
    xs.length ≤ 127 ∧ ∀ x ∈ xs, x.2 < 268435456 := by
  simp only [DeclRow.refsOk, Bool.and_eq_true, decide_eq_true_eq, List.all_eq_true] at h
  exact h

/-- **`parse_record` on a rendered row** -/
theorem parseRecord_fields (rd : Reader) (d : DeclRow) (h : d.ok = true) :
    parseRecord rd d.fields = (posOf rd d.posKey).map (fun x =>
      { x.2 with unresolved := x.2.unresolved + 0 + 0, entries := x.2.entries.push (d.raw x.1) }) := by
  simp only [DeclRow.ok, Bool.and_eq_true, DeclRow.i16, decide_eq_true_eq, Bool.not_eq_true', List.all_eq_true] at h
  obtain ⟨⟨⟨⟨⟨⟨⟨⟨⟨⟨⟨⟨⟨⟨⟨⟨⟨⟨⟨⟨⟨⟨hs, hh⟩, h1⟩, h2⟩, h3⟩, h4⟩, h5⟩, h6⟩, hr⟩, hn⟩, hl⟩, hrt⟩, hc⟩, hdf⟩, hm⟩, hA⟩, ha⟩, hb⟩, hw⟩, hsl⟩, hsy⟩, hne⟩, hnul⟩ := h
  obtain ⟨m, hm⟩ := Option.isSome_iff_exists.1 hm
  obtain ⟨ha1, ha2⟩ := refsOk_spec _ ha
  obtain ⟨hb1, hb2⟩ := refsOk_spec _ hb
  obtain ⟨hw1, hw2⟩ := refsOk_spec _ hw
  have hdf' : ∀ y, d.dicForm = some y → y.2 < 268435456 := by
    intro y hy; rw [hy] at hdf; simpa using hdf
  unfold parseRecord DeclRow.fields
  simp only [List.getElem?_toArray, List.getElem?_cons_zero, List.getElem?_cons_succ, Option.bind_eq_bind, Option.bind_some,
    unescape_estr _ hs, unescape_estr _ hh, unescape_estr _ h1, unescape_estr _ h2, unescape_estr _ h3,
    unescape_estr _ h4, unescape_estr _ h5, unescape_estr _ h6, unescape_estr _ hr, unescape_estr _ hn,
    parseI16_showInt _ hl, parseI16_showInt _ hrt, parseI16_showInt _ hc, parseDicForm_showDf _ hdf', hm,
    parseSplits_refs rd _ ha1 ha2, parseSplits_refs rd _ hb1 hb2, parseWordIdList_showRefs _ hw1 hw2,
    parseU32List_showSyn _ hsl (by simpa using hsy)]
  have hmode : ¬ (m = Mode.A ∧ (!(List.map (fun x => SplitUnit.ref (refId x)) d.splitsA).isEmpty ||
      !(List.map (fun x => SplitUnit.ref (refId x)) d.splitsB).isEmpty) = true) := by
    rintro ⟨rfl, h2⟩
    rw [hm] at hA
    simp only [decide_true, Bool.true_and, Bool.not_eq_false'] at hA
    simp only [List.isEmpty_map] at h2
    simp only [Bool.and_eq_true] at hA
    simp [hA.1, hA.2] at h2
  simp only [hmode, if_false, hne, hnul, Bool.or_self, Bool.false_eq_true, DeclRow.posKey]
  cases posOf rd [d.p1.val, d.p2.val, d.p3.val, d.p4.val, d.p5.val, d.p6.val] <;> rfl

/-- `read_record` over declared rows, on the DECLARED values (no text): POS interning + push -/
def declRead (rd : Reader) : List DeclRow → Option Reader
  | [] => some rd
  | d :: rest =>
    match posOf rd d.posKey with
    | none => none
    | some (i, rd') => declRead { rd' with unresolved := rd'.unresolved + 0 + 0, entries := rd'.entries.push (d.raw i) } rest

theorem readRecords_fields (ds : List DeclRow) : ∀ (rd : Reader), (∀ d ∈ ds, d.ok = true) →
    readRecords rd (ds.map DeclRow.fields) = declRead rd ds := by
  induction ds with
  | nil => intro rd _; rfl
  | cons d rest ih =>
    intro rd h
    simp only [List.map_cons, readRecords, declRead, parseRecord_fields rd d (h d (List.mem_cons_self ..))]
    cases posOf rd d.posKey with
    | none => rfl
    | some x => exact ih _ (fun y hy => h y (List.mem_cons_of_mem _ hy))

/-- numeric references need no resolver -/
theorem resolve_refs (own sys : List ResolverRow) (ids : List Nat) :
    Wire.allSome ((ids.map SplitUnit.ref).map (resolveUnit own sys)) = some ids := by
  rw [allSome_eq_some_iff, List.map_map]
  exact List.map_congr_left (fun _ _ => rfl)

end Codec
