import Sudachi.Proofs.Edit
import Sudachi.Model.EditAccess
/-!
# Lemmas for the accessor family of `InputBuffer` (C08 depth round)

`EditM.Inv` (the offset-map invariant reached by any admissible batches) is read through the tables built by
`InputBuffer::build`: `mod_c2b` (`c2b`), `mod_b2c` (`b2c`) and the original byte → code-point table (`origB2C`).
-/
namespace EditM

/-! ### counting characters in prefixes and slices -/

theorem nchars_append (a b : List Nat) : nchars (a ++ b) = nchars a + nchars b := by
  simp [nchars, List.filter_append]

theorem take_eq_take_append_slice {α : Type} (o : List α) {a b : Nat} (hab : a ≤ b) :
    o.take b = o.take a ++ slice o a b := by
  have : b = a + (b - a) := by omega
  rw [this, List.take_add]
  simp [slice]

/-- code points of a byte slice = difference of the code-point counts of the two prefixes -/
theorem nchars_slice (o : List Nat) {a b : Nat} (hab : a ≤ b) :
    nchars (slice o a b) = nchars (o.take b) - nchars (o.take a) := by
  rw [take_eq_take_append_slice o hab, nchars_append]; omega

theorem nchars_take_mono (o : List Nat) {a b : Nat} (hab : a ≤ b) : nchars (o.take a) ≤ nchars (o.take b) := by
  rw [take_eq_take_append_slice o hab, nchars_append]; omega

theorem nchars_take_length (o : List Nat) : nchars (o.take o.length) = nchars o := by simp

theorem nchars_pos_of (o : List Nat) (hne : o ≠ []) (h0 : BoOf o 0) : 0 < nchars o := by
  cases o with
  | nil => exact absurd rfl hne
  | cons b bs =>
    rcases h0 with h | ⟨_, h⟩
    · simp at h
    · simp at h; simp [nchars, h]

/-! ### `mod_c2b` read by index -/

theorem c2b_getElem_some (t : List Nat) (i : Nat) (h : i ≤ nchars t) : ∃ x, (c2b t)[i]? = some x := by
  have := c2b_length t
  have hi : i < (c2b t).length := by omega
  exact ⟨_, List.getElem?_eq_getElem hi⟩

theorem c2b_getElem_none (t : List Nat) (i : Nat) (h : nchars t < i) : (c2b t)[i]? = none := by
  have := c2b_length t
  exact List.getElem?_eq_none (by omega)

theorem c2b_getElem_boOf (t : List Nat) (i x : Nat) (h : (c2b t)[i]? = some x) : BoOf t x ∧ x ≤ t.length := by
  have hm : x ∈ c2b t := List.mem_of_getElem? h
  have hb := (c2b_spec t).2 x hm
  refine ⟨hb, ?_⟩
  rcases hb with h1 | ⟨h1, _⟩ <;> omega

theorem c2b_getElem_mono (t : List Nat) (i j x y : Nat) (hij : i ≤ j) (hi : (c2b t)[i]? = some x)
    (hj : (c2b t)[j]? = some y) : x ≤ y := by
  rcases Nat.lt_or_eq_of_le hij with hlt | rfl
  · have hm := (c2b_spec t).1
    obtain ⟨hi', hx⟩ := List.getElem?_eq_some_iff.mp hi
    obtain ⟨hj', hy⟩ := List.getElem?_eq_some_iff.mp hj
    have := (List.pairwise_iff_getElem.mp hm) i j hi' hj' hlt
    omega
  · rw [hi] at hj; cases hj; exact Nat.le_refl _

/-- **inverse of the code-point count**: the `k`-th character of `t`, `k` = number of characters before the first byte
`b`, begins at byte `b` -/
theorem c2bFrom_nchars_take (t : List Nat) : ∀ (k b : Nat) (h : b < t.length), isStart t[b] = true →
    (c2bFrom k t)[nchars (t.take b)]? = some (k + b) := by
  induction t with
  | nil => intro k b h; simp at h
  | cons x xs ih =>
    intro k b h hst
    cases b with
    | zero =>
      simp at hst
      simp [c2bFrom, hst, nchars]
    | succ b' =>
      have h' : b' < xs.length := by simpa using h
      have hst' : isStart xs[b'] = true := by simpa using hst
      have := ih (k + 1) b' h' hst'
      by_cases hx : isStart x = true
      · simp only [c2bFrom, hx, if_true, List.take_succ_cons, nchars, List.filter_cons, List.length_cons,
          List.getElem?_cons_succ]
        simp only [nchars] at this
        rw [this]; congr 1; omega
      · have hx' : isStart x = false := by simpa using hx
        simp only [c2bFrom, hx', Bool.false_eq_true, if_false, List.take_succ_cons, nchars, List.filter_cons]
        simp only [nchars] at this
        rw [this]; congr 1; omega

/-- at every character boundary `b` of `t`, entry number "code points before `b`" of the character → byte table is `b` -/
theorem c2b_nchars_take (t : List Nat) (b : Nat) (hb : BoOf t b) : (c2b t)[nchars (t.take b)]? = some b := by
  rcases hb with rfl | ⟨hlt, hst⟩
  · rw [nchars_take_length]; exact c2b_last t
  · unfold c2b
    have hlen : nchars (t.take b) < (c2bFrom 0 t).length := by
      have h1 := c2bFrom_nchars_take t 0 b hlt hst
      exact (List.getElem?_eq_some_iff.mp h1).1
    rw [List.getElem?_append_left hlen]
    simpa using c2bFrom_nchars_take t 0 b hlt hst

/-! ### `mod_b2c ∘ mod_c2b` -/

theorem b2cFrom_c2bFrom (t : List Nat) : ∀ (k cnt i x : Nat), (c2bFrom k t)[i]? = some x →
    (b2cFrom cnt t)[x - k]? = some (cnt + i) := by
  induction t with
  | nil => intro k cnt i x h; simp [c2bFrom] at h
  | cons y ys ih =>
    intro k cnt i x h
    by_cases hy : isStart y = true
    · simp only [c2bFrom, hy, if_true] at h
      cases i with
      | zero =>
        simp at h; subst h
        simp [b2cFrom, hy]
      | succ i' =>
        simp only [List.getElem?_cons_succ] at h
        have hk : k + 1 ≤ x := ((c2bFrom_spec ys (k + 1)).2 x (List.mem_of_getElem? h)).1
        have := ih (k + 1) (cnt + 1) i' x h
        have hx : x - k = (x - (k + 1)) + 1 := by omega
        simp only [b2cFrom, hy, if_true, hx, List.getElem?_cons_succ]
        rw [this]; congr 1; omega
    · have hy' : isStart y = false := by simpa using hy
      simp only [c2bFrom, hy', Bool.false_eq_true, if_false] at h
      have hk : k + 1 ≤ x := ((c2bFrom_spec ys (k + 1)).2 x (List.mem_of_getElem? h)).1
      have := ih (k + 1) cnt i x h
      have hx : x - k = (x - (k + 1)) + 1 := by omega
      simp only [b2cFrom, hy', Bool.false_eq_true, if_false, hx, List.getElem?_cons_succ]
      exact this

theorem b2cFrom_length (t : List Nat) (cnt : Nat) : (b2cFrom cnt t).length = t.length := by
  induction t generalizing cnt with
  | nil => rfl
  | cons x xs ih => simp [b2cFrom, ih]

/-- `ch_idx(to_curr_byte_idx(i)) = i` for every character index inside the text, and for the end index when the
text has a character (the sentinel of `mod_b2c` is `last_chidx + 1`) -/
theorem b2c_c2b (t : List Nat) (i x : Nat) (hi : i ≤ nchars t) (hpos : 0 < nchars t) (h : (c2b t)[i]? = some x) :
    (b2c t)[x]? = some i := by
  unfold c2b at h
  rcases Nat.lt_or_eq_of_le hi with hlt | rfl
  · rw [List.getElem?_append_left (by rw [c2bFrom_length]; exact hlt)] at h
    have hx := b2cFrom_c2bFrom t 0 0 i x h
    have hxl : x < t.length := by
      obtain ⟨_, h2, _⟩ := (c2bFrom_spec t 0).2 x (List.mem_of_getElem? h)
      simpa using h2
    unfold b2c
    rw [List.getElem?_append_left (by rw [b2cFrom_length]; exact hxl)]
    simpa using hx
  · rw [List.getElem?_append_right (by rw [c2bFrom_length]; exact Nat.le_refl _)] at h
    simp [c2bFrom_length] at h
    subst h
    unfold b2c
    rw [List.getElem?_append_right (by rw [b2cFrom_length]; exact Nat.le_refl _)]
    have : nchars t ≠ 0 := by omega
    simp [b2cFrom_length, this]

/-! ### the character route through the invariant -/

/-- `to_orig_byte_idx(ci)` for a character index inside the rewritten text: defined, the image of the character's
first byte, a character boundary of the original -/
theorem toOrigByteIdx_spec (o : List Nat) (l : List (P Nat)) (hinv : Inv isStart (BoOf o) o.length l)
    (ci : Nat) (h : ci ≤ nchars (textOf l)) :
    ∃ x, (c2b (textOf l))[ci]? = some x ∧ x < l.length ∧ x ≤ (textOf l).length ∧ BoOf (textOf l) x ∧
      toOrigByteIdx l ci = some (valAt l x) ∧ BoOf o (valAt l x) ∧ valAt l x ≤ o.length := by
  obtain ⟨x, hx⟩ := c2b_getElem_some (textOf l) ci h
  obtain ⟨hb, hxl⟩ := c2b_getElem_boOf _ _ _ hx
  have hlen := shape_length hinv.shape
  have hlt : x < l.length := by omega
  refine ⟨x, hx, hlt, hxl, hb, ?_, inv_boundary hinv x hlt (isB_of_boOf hinv.shape x hb hlt), inv_le_last hinv x hxl⟩
  unfold toOrigByteIdx
  rw [hx]
  exact snds_getElem? l x hlt

/-- `to_orig_char_idx(ci)`: never the `usize::MAX` marker; the number of code points of the original before the byte
`to_orig_byte_idx(ci)` -/
theorem toOrigCharIdx_spec (o : List Nat) (hne : o ≠ []) (h0 : BoOf o 0) (l : List (P Nat))
    (hinv : Inv isStart (BoOf o) o.length l) (ci : Nat) (h : ci ≤ nchars (textOf l)) :
    ∃ ob, toOrigByteIdx l ci = some ob ∧ BoOf o ob ∧ toOrigCharIdx o l ci = some (nchars (o.take ob)) := by
  obtain ⟨x, _, _, _, _, h5, h6, _⟩ := toOrigByteIdx_spec o l hinv ci h
  refine ⟨_, h5, h6, ?_⟩
  unfold toOrigCharIdx
  rw [h5]; simp only []
  rw [origB2C_counts o (nchars_pos_of o hne h0) _ h6]

/-- the hypotheses of `m2o_inv`, bundled -/
def Reached (o : List Nat) (bs : List (List (Edit Nat))) (lv : LenV) (l : List (P Nat)) : Prop :=
  o ≠ [] ∧ BoOf o 0 ∧ BatchesOk isStart (identFrom 0 o) bs ∧ commitAllV lv (identFrom 0 o) bs = some l

theorem Reached.inv {o : List Nat} {bs : List (List (Edit Nat))} {lv : LenV} {l : List (P Nat)}
    (h : Reached o bs lv l) : Inv isStart (BoOf o) o.length l :=
  commitAllV_inv lv isStart (BoOf o) o.length h.2.1 bs _ l (ident_inv o h.1) h.2.2.1 h.2.2.2

end EditM

namespace EditAcc
open EditM

theorem isCharBoundary_of_boOf (t : List Nat) (x : Nat) (h : BoOf t x) : isCharBoundary t x = true := by
  unfold isCharBoundary
  rcases h with rfl | ⟨hlt, hst⟩
  · simp
  · simp [List.getElem?_eq_getElem hlt, hst]

theorem boOf_of_isCharBoundary (t : List Nat) (x : Nat) (hx : 0 < x) (h : isCharBoundary t x = true) : BoOf t x := by
  unfold isCharBoundary at h
  simp only [Bool.or_eq_true, beq_iff_eq] at h
  rcases h with (h | h) | h
  · omega
  · exact Or.inl h
  · cases hg : t[x]? with
    | none => simp [hg] at h
    | some y =>
      simp only [hg] at h
      obtain ⟨hlt, hy⟩ := List.getElem?_eq_some_iff.mp hg
      exact Or.inr ⟨hlt, by rw [hy]; exact h⟩

theorem idx_ok {α : Type} (v : List α) (i : Nat) (x : α) (w : String) (h : v[i]? = some x) : idx v i w = .ok x := by
  simp [idx, h]

theorem strSlice_ok (t : List Nat) (a b : Nat) (hab : a ≤ b) (ha : BoOf t a) (hb : BoOf t b) :
    strSlice t a b = .ok (slice t a b) := by
  have hbl : b ≤ t.length := by rcases hb with h | ⟨h, _⟩ <;> omega
  unfold strSlice
  rw [if_pos ⟨hab, hbl, isCharBoundary_of_boOf t a ha, isCharBoundary_of_boOf t b hb⟩]

/-- the `Acc` form of `to_orig_byte_idx` is the `Option` form of `Model/Edit.lean` (what C01/C03/C19 use) -/
theorem toOrigByteIdxA_eq (b : Buf) (ci v : Nat) (h : toOrigByteIdx b.l ci = some v) : toOrigByteIdxA b ci = .ok v := by
  unfold toOrigByteIdx at h
  unfold toOrigByteIdxA toCurrByteIdx idx Buf.cur Buf.m2o
  cases hc : (c2b (textOf b.l))[ci]? with
  | none => simp [hc] at h
  | some bi => simp only [hc] at h ⊢; simp [h]

theorem toOrigCharIdxA_eq (b : Buf) (ci v c : Nat) (h : toOrigByteIdx b.l ci = some v)
    (hc : (origB2C b.orig)[v]? = some (some c)) : toOrigCharIdxA b ci = .ok c := by
  unfold toOrigCharIdxA
  rw [toOrigByteIdxA_eq b ci v h]
  simp [idx, hc]

end EditAcc
