import Sudachi.Model.Build
/-! # Lemmas about the dictionary-compiler model (C06) -/
namespace Build

/-! ## the sink -/

theorem exec_none_ge (steps : List Step) (pos n : Nat) (h : exec none steps pos = .ok n) : pos ≤ n := by
  induction steps generalizing pos with
  | nil => simp [exec] at h; omega
  | cons s rest ih =>
    cases s with
    | write m =>
      simp only [exec] at h
      split at h
      · exact ih pos h
      · have := ih (pos + m) h; omega
    | abort k l => simp [exec] at h
    | panic w => simp [exec] at h

/-- a sink that gives up after `k` bytes, `k` smaller than what the script writes: I/O error -/
theorem exec_fail (steps : List Step) (pos n k : Nat) (h : exec none steps pos = .ok n)
    (hpos : pos ≤ k) (hk : k < n) : exec (some k) steps pos = .err .Io 0 := by
  induction steps generalizing pos with
  | nil => simp [exec] at h; omega
  | cons s rest ih =>
    cases s with
    | write m =>
      simp only [exec] at h ⊢
      split
      · rename_i hm; simp only [hm, ↓reduceIte] at h; exact ih pos h hpos
      · rename_i hm; simp only [hm, ↓reduceIte] at h
        split
        · rfl
        · exact ih (pos + m) h (by omega)
    | abort k l => simp [exec] at h
    | panic w => simp [exec] at h

/-- a sink that accepts at least as much as the script writes behaves like the unlimited one -/
theorem exec_enough (steps : List Step) (pos n k : Nat) (h : exec none steps pos = .ok n)
    (hk : n ≤ k) : exec (some k) steps pos = .ok n := by
  induction steps generalizing pos with
  | nil => simpa [exec] using h
  | cons s rest ih =>
    cases s with
    | write m =>
      simp only [exec] at h ⊢
      split
      · rename_i hm; simp only [hm, ↓reduceIte] at h; exact ih pos h
      · rename_i hm; simp only [hm, ↓reduceIte] at h
        have := exec_none_ge rest (pos + m) n h
        split
        · omega
        · exact ih (pos + m) h
    | abort k l => simp [exec] at h
    | panic w => simp [exec] at h

/-- success with a limited sink happens only when everything fitted, and then the unlimited run
succeeds with the same length -/
theorem exec_some_ok (steps : List Step) (pos n k : Nat) (h : exec (some k) steps pos = .ok n) :
    exec none steps pos = .ok n ∧ (pos ≤ k → n ≤ k) := by
  induction steps generalizing pos with
  | nil => simp [exec] at h ⊢; omega
  | cons s rest ih =>
    cases s with
    | write m =>
      simp only [exec] at h ⊢
      split
      · rename_i hm; simp only [hm, ↓reduceIte] at h; exact ih pos h
      · rename_i hm; simp only [hm, ↓reduceIte] at h
        split at h
        · simp at h
        · have := ih (pos + m) h
          exact ⟨this.1, fun _ => this.2 (by omega)⟩
    | abort k l => simp [exec] at h
    | panic w => simp [exec] at h

/-! ## `compile` and `build` in terms of `exec` -/

theorem compile_ok_iff (v : Variant) (b : Builder) (dl tl : Nat) (limit : Option Nat) (n : Nat) (d : Dict) :
    compile v b dl tl limit = .ok (n, d) ↔
      ¬ (b.lex.unresolved > 0 ∧ (!b.resolved) = true) ∧
      validateEntries v b.maxLeft b.maxRight b.base.numSystem b.lex.entries = .ok () ∧
      exec limit (compileSteps v b dl tl) 0 = .ok n ∧
      d = ⟨b.conn, b.lex.entries, b.lex.pos, b.base.numSystem, b.maxLeft, b.maxRight⟩ := by
  unfold compile
  by_cases hc : b.lex.unresolved > 0 ∧ (!b.resolved) = true
  · simp [hc]
  · simp only [hc, ↓reduceIte, not_false_eq_true, true_and]
    cases hv : validateEntries v b.maxLeft b.maxRight b.base.numSystem b.lex.entries with
    | err k l => simp
    | panic w => simp
    | ok u =>
      cases he : exec limit (compileSteps v b dl tl) 0 with
      | err k l => simp
      | panic w => simp
      | ok m =>
        simp only [Res.ok.injEq, Prod.mk.injEq, true_and]
        constructor
        · rintro ⟨rfl, rfl⟩; exact ⟨rfl, rfl⟩
        · rintro ⟨rfl, rfl⟩; exact ⟨rfl, rfl⟩

theorem compile_sink_failure (v : Variant) (b : Builder) (dl tl n k : Nat) (d : Dict)
    (h : compile v b dl tl none = .ok (n, d)) (hk : k < n) :
    compile v b dl tl (some k) = .err .Io 0 := by
  obtain ⟨hc, hv, he, _⟩ := (compile_ok_iff ..).1 h
  unfold compile
  simp only [hc, ↓reduceIte, hv, exec_fail _ 0 n k he (Nat.zero_le _) hk]

theorem compile_sink_enough (v : Variant) (b : Builder) (dl tl n k : Nat) (d : Dict)
    (h : compile v b dl tl none = .ok (n, d)) (hk : n ≤ k) :
    compile v b dl tl (some k) = .ok (n, d) := by
  obtain ⟨hc, hv, he, hd⟩ := (compile_ok_iff ..).1 h
  exact (compile_ok_iff ..).2 ⟨hc, hv, exec_enough _ 0 n k he hk, hd⟩

theorem compile_sink_ok (v : Variant) (b : Builder) (dl tl n k : Nat) (d : Dict)
    (h : compile v b dl tl (some k) = .ok (n, d)) :
    compile v b dl tl none = .ok (n, d) ∧ n ≤ k := by
  obtain ⟨hc, hv, he, hd⟩ := (compile_ok_iff ..).1 h
  have := exec_some_ok _ 0 n k he
  exact ⟨(compile_ok_iff ..).2 ⟨hc, hv, this.1, hd⟩, this.2 (Nat.zero_le _)⟩

theorem build_ok_iff (v : Variant) (x : Ext) (inp : Input) (limit : Option Nat) (n cnt : Nat) (d : Dict) :
    build v x inp limit = .ok n cnt d ↔
      ∃ b, prepare v x inp = .ok (b, cnt) ∧ compile v b inp.descLen inp.trieLen limit = .ok (n, d) := by
  unfold build
  cases hp : prepare v x inp with
  | error f => cases f <;> simp [Fail.toOutcome]
  | ok p =>
    obtain ⟨b, c⟩ := p
    simp only [finish, Except.ok.injEq, Prod.mk.injEq]
    cases hcmp : compile v b inp.descLen inp.trieLen limit with
    | err k l => simp [hcmp]
    | panic w => simp [hcmp]
    | ok r =>
      obtain ⟨m, d'⟩ := r
      constructor
      · intro h
        injection h with h1 h2 h3
        subst h1 h2 h3
        exact ⟨b, ⟨rfl, rfl⟩, hcmp⟩
      · rintro ⟨b', ⟨hb, hc⟩, h2⟩
        subst hb hc
        rw [hcmp] at h2
        injection h2 with h2
        injection h2 with h3 h4
        subst h3 h4
        rfl

/-! ## validity of what `compile` accepts -/

/-- a word reference points to an existing entry: of the dictionary itself (system dictionary),
of the system dictionary or of the user dictionary itself (user dictionary) -/
def RefOk (d : Dict) (w : Nat) : Prop :=
  match d.numSystem with
  | none => widDic w = 0 ∧ widWord w < d.entries.length
  | some n => (widDic w = 0 ∧ widWord w < n) ∨ (widDic w = 1 ∧ widWord w < d.entries.length)

def UnitRefOk (d : Dict) : SplitUnit → Prop
  | .ref w => RefOk d w
  | .inline .. => False

/-- upper bounds of the connection ids of every entry, and `left ≥ 0` of the indexed ones -/
def IdsUpper (d : Dict) : Prop :=
  ∀ e ∈ d.entries, e.left < d.maxLeft ∧ e.right < d.maxRight

/-- the right id of an indexed entry is not negative -/
def RightNonneg (d : Dict) : Prop :=
  ∀ e ∈ d.entries, e.shouldIndex = true → 0 ≤ e.right

/-- every word reference (dictionary form, splits, word structure) points to an existing entry -/
def RefsOk (d : Dict) : Prop :=
  ∀ e ∈ d.entries,
    (e.dicForm = WID_INVALID ∨ RefOk d e.dicForm) ∧
    (∀ u ∈ e.splitsA, UnitRefOk d u) ∧ (∀ u ∈ e.splitsB, UnitRefOk d u) ∧
    (∀ w ∈ e.wordStructure, RefOk d w)

theorem validateWid_ok {raw max0 max1 : Nat} (h : validateWid raw max0 max1 = .ok ()) :
    (widDic raw = 0 ∧ widWord raw < max0) ∨ (widDic raw = 1 ∧ widWord raw < max1) := by
  unfold validateWid at h
  split at h
  · rename_i h0; split at h
    · simp at h
    · left; exact ⟨h0, by omega⟩
  · rename_i h1; split at h
    · simp at h
    · right; exact ⟨h1, by omega⟩
  · simp at h

theorem andThen_ok {r n : Res Unit} : r.andThen n = .ok () ↔ r = .ok () ∧ n = .ok () := by
  cases r <;> simp [Res.andThen]

theorem andThen_not_panic {r n : Res Unit} (hr : r.isPanic = false) (hn : n.isPanic = false) :
    (r.andThen n).isPanic = false := by
  cases r <;> simp_all [Res.andThen, Res.isPanic]

theorem validateWids_ok {max0 max1 : Nat} {ws : List Nat} (h : validateWids max0 max1 ws = .ok ()) :
    ∀ w ∈ ws, validateWid w max0 max1 = .ok () := by
  induction ws with
  | nil => simp
  | cons w ws ih =>
    simp only [validateWids, andThen_ok] at h
    intro w' hw'
    rcases List.mem_cons.1 hw' with rfl | hm
    · exact h.1
    · exact ih h.2 w' hm

theorem validateUnits_ok {max0 max1 : Nat} {us : List SplitUnit} (h : validateUnits max0 max1 us = .ok ()) :
    ∀ u ∈ us, ∃ w, u = .ref w ∧ validateWid w max0 max1 = .ok () := by
  induction us with
  | nil => simp
  | cons u us ih =>
    cases u with
    | inline s p r => simp [validateUnits] at h
    | ref w =>
      simp only [validateUnits, andThen_ok] at h
      intro u' hu'
      rcases List.mem_cons.1 hu' with rfl | hm
      · exact ⟨w, rfl, h.1⟩
      · exact ih h.2 u' hm

theorem atLine_ok {α : Type} {r : Res α} {n : Nat} {a : α} (h : r.atLine n = .ok a) : r = .ok a := by
  cases r <;> simp [Res.atLine] at h ⊢; exact h

theorem validateFrom_ok {v : Variant} {ml mr : Int} {max0 max1 : Nat} {es : List Entry} {line : Nat}
    (h : validateFrom v ml mr max0 max1 es line = .ok ()) :
    ∀ e ∈ es, validateEntry v ml mr max0 max1 e = .ok () := by
  induction es generalizing line with
  | nil => simp
  | cons e es ih =>
    simp only [validateFrom, andThen_ok] at h
    intro e' he'
    rcases List.mem_cons.1 he' with rfl | hm
    · exact atLine_ok h.1
    · exact ih h.2 e' hm

/-- what one accepted entry satisfies -/
theorem validateEntry_ok {v : Variant} {ml mr : Int} {max0 max1 : Nat} {e : Entry}
    (h : validateEntry v ml mr max0 max1 e = .ok ()) :
    e.left < ml ∧ e.right < mr ∧ (v.d3 = true → e.shouldIndex = true → 0 ≤ e.right) ∧
    (e.dicForm = WID_INVALID ∨ validateWid e.dicForm max0 max1 = .ok ()) ∧
    validateUnits max0 max1 e.splitsA = .ok () ∧ validateUnits max0 max1 e.splitsB = .ok () ∧
    validateWids max0 max1 e.wordStructure = .ok () := by
  unfold validateEntry at h
  split at h
  · simp at h
  · rename_i hl
    split at h
    · simp at h
    · rename_i hr
      simp only [andThen_ok] at h
      obtain ⟨hd, ha, hb, hw⟩ := h
      refine ⟨by omega, by omega, ?_, ?_, ha, hb, hw⟩
      · intro h3 hi
        by_cases hneg : e.right < 0
        · exact absurd (Or.inr ⟨h3, hi, hneg⟩) hr
        · omega
      · by_cases hinv : e.dicForm = WID_INVALID
        · exact Or.inl hinv
        · right; simpa [hinv] using hd

theorem refOk_of_validateWid {d : Dict} {w : Nat}
    (h : validateWid w (match d.numSystem with | none => d.entries.length | some x => x)
            (match d.numSystem with | none => 0 | some _ => d.entries.length) = .ok ()) : RefOk d w := by
  have := validateWid_ok h
  unfold RefOk
  cases hn : d.numSystem with
  | none =>
    simp only [hn] at this
    rcases this with h0 | h1
    · exact h0
    · omega
  | some x =>
    simp only [hn] at this
    exact this

/-- everything `validate_entries` guarantees about an accepted dictionary -/
theorem compile_ok_valid {v : Variant} {b : Builder} {dl tl n : Nat} {limit : Option Nat} {d : Dict}
    (h : compile v b dl tl limit = .ok (n, d)) :
    IdsUpper d ∧ (v.d3 = true → RightNonneg d) ∧ RefsOk d := by
  obtain ⟨_, hv, _, hd⟩ := (compile_ok_iff ..).1 h
  have hall : ∀ e ∈ d.entries, validateEntry v d.maxLeft d.maxRight
      (match d.numSystem with | none => d.entries.length | some x => x)
      (match d.numSystem with | none => 0 | some _ => d.entries.length) e = .ok () := by
    subst hd
    unfold validateEntries at hv
    cases hn : b.base.numSystem with
    | none => simp only [hn] at hv ⊢; exact validateFrom_ok hv
    | some x => simp only [hn] at hv ⊢; exact validateFrom_ok hv
  refine ⟨?_, ?_, ?_⟩
  · intro e he
    have := validateEntry_ok (hall e he)
    exact ⟨this.1, this.2.1⟩
  · intro h3 e he hi
    exact (validateEntry_ok (hall e he)).2.2.1 h3 hi
  · intro e he
    obtain ⟨_, _, _, hdf, ha, hb, hw⟩ := validateEntry_ok (hall e he)
    refine ⟨?_, ?_, ?_, ?_⟩
    · rcases hdf with h | h
      · exact Or.inl h
      · exact Or.inr (refOk_of_validateWid h)
    · intro u hu
      obtain ⟨w, rfl, hw'⟩ := validateUnits_ok ha u hu
      exact refOk_of_validateWid hw'
    · intro u hu
      obtain ⟨w, rfl, hw'⟩ := validateUnits_ok hb u hu
      exact refOk_of_validateWid hw'
    · intro w hw'
      exact refOk_of_validateWid (validateWids_ok hw w hw')

theorem resolve_frame {b b' : Builder} {n : Nat} (h : resolve b = .ok (b', n)) :
    b'.conn = b.conn ∧ b'.maxLeft = b.maxLeft ∧ b'.maxRight = b.maxRight ∧ b'.base = b.base ∧
    b'.lex.pos = b.lex.pos ∧ b'.lex.unresolved = b.lex.unresolved ∧ b'.resolved = true ∧
    b'.connLine = b.connLine := by
  unfold resolve at h
  split at h
  · injection h with h; injection h with h1 h2; subst h1; simp
  · cases hr : resolveEntries (resolveInline (if b.base.isUser then 1 else 0) b.lex.entries b.base.sysWords) b.lex.entries 0 with
    | err k l => simp [hr] at h
    | panic w => simp [hr] at h
    | ok p =>
      obtain ⟨es, m⟩ := p
      simp only [hr] at h
      injection h with h; injection h with h1 h2; subst h1; simp

theorem toExcept_ok {α : Type} {s : Stage} {r : Res α} {a : α} : r.toExcept s = .ok a ↔ r = .ok a := by
  cases r <;> simp [Res.toExcept]

/-! ## the calls before `compile`: what each of them leaves alone -/

theorem readLex_frame {v : Variant} {x : Ext} {b b' : Builder} {recs : List (Nat × List Str)} {ce : Option Nat}
    (h : readLex v x b recs ce = .ok b') :
    b'.conn = b.conn ∧ b'.maxLeft = b.maxLeft ∧ b'.maxRight = b.maxRight ∧ b'.base = b.base ∧
    b'.connLine = b.connLine := by
  unfold readLex at h
  split at h
  · split at h
    · simp at h
    · injection h with h; subst h; simp
  · simp at h
  · simp at h

/-- a `read_lexicon` — failed or not — touches the reader and the `resolved` flag only -/
theorem readLexB_frame (v : Variant) (x : Ext) (b : Builder) (recs : List (Nat × List Str)) (ce : Option Nat) :
    (readLexB v x b recs ce).1.conn = b.conn ∧ (readLexB v x b recs ce).1.maxLeft = b.maxLeft ∧
    (readLexB v x b recs ce).1.maxRight = b.maxRight ∧ (readLexB v x b recs ce).1.base = b.base ∧
    (readLexB v x b recs ce).1.connLine = b.connLine ∧
    (readLexB v x b recs ce).1.resolved = (if v.rf then false else b.resolved) := by
  unfold readLexB
  cases hr : readLexiconP v x b.lex recs with
  | mk st r =>
    cases r with
    | ok u => cases u; cases ce <;> simp
    | err k l => simp
    | panic w => simp

/-! ### `read_conn` -/

theorem syncSizes_frame (v : Variant) (b : Builder) :
    (syncSizes v b).conn = b.conn ∧ (syncSizes v b).base = b.base ∧ (syncSizes v b).lex = b.lex ∧
    (syncSizes v b).resolved = b.resolved ∧ (syncSizes v b).connLine = b.connLine := by
  unfold syncSizes; split <;> simp

/-- the builder after `read_conn`: the buffer is what `ConnBuffer::read` left, the sizes are
synchronised with it or left alone -/
theorem readConnB_eq (v : Variant) (b : Builder) (lines : List (Option Str)) :
    (readConnB v b lines).2 = (readConn v ⟨b.conn, b.connLine⟩ lines).2 ∧
    ((readConnB v b lines).1 =
        syncSizes v { b with conn := (readConn v ⟨b.conn, b.connLine⟩ lines).1.conn,
                             connLine := (readConn v ⟨b.conn, b.connLine⟩ lines).1.line } ∨
     ((readConnB v b lines).2 ≠ .ok () ∧ v.s6 = false ∧
      (readConnB v b lines).1 =
        { b with conn := (readConn v ⟨b.conn, b.connLine⟩ lines).1.conn,
                 connLine := (readConn v ⟨b.conn, b.connLine⟩ lines).1.line })) := by
  unfold readConnB
  cases hr : readConn v ⟨b.conn, b.connLine⟩ lines with
  | mk buf r =>
    cases r with
    | ok u => cases u; exact ⟨rfl, Or.inl rfl⟩
    | err k l =>
      refine ⟨rfl, ?_⟩
      cases h6 : v.s6 with
      | true => left; simp
      | false => right; exact ⟨by simp, rfl, by simp⟩
    | panic w =>
      refine ⟨rfl, ?_⟩
      cases h6 : v.s6 with
      | true => left; simp
      | false => right; exact ⟨by simp, rfl, by simp⟩

theorem readConnB_frame (v : Variant) (b : Builder) (lines : List (Option Str)) :
    (readConnB v b lines).1.base = b.base ∧ (readConnB v b lines).1.lex = b.lex ∧
    (readConnB v b lines).1.resolved = b.resolved := by
  rcases (readConnB_eq v b lines).2 with h | ⟨_, _, h⟩
  · rw [h]
    obtain ⟨_, f2, f3, f4, _⟩ := syncSizes_frame v
      { b with conn := (readConn v ⟨b.conn, b.connLine⟩ lines).1.conn,
               connLine := (readConn v ⟨b.conn, b.connLine⟩ lines).1.line }
    exact ⟨f2, f3, f4⟩
  · rw [h]; exact ⟨rfl, rfl, rfl⟩

/-- the ids are validated against the sizes of the matrix that is written -/
def Sized (b : Builder) : Prop := b.maxLeft = b.conn.nl ∧ b.maxRight = b.conn.nr

theorem syncSizes_sized {v : Variant} {b : Builder} (h : v.n3 = false ∨ b.base.isUser = false) :
    Sized (syncSizes v b) := by
  unfold syncSizes
  rcases h with h | h <;> simp [h, Sized]

theorem syncSizes_keeps {v : Variant} {b : Builder} (h3 : v.n3 = true) (hu : b.base.isUser = true) :
    syncSizes v b = b := by
  unfold syncSizes; simp [h3, hu]

/-- a `read_conn` that succeeded — or, after the repair S6, any `read_conn` — leaves the sizes of
a builder equal to those of the matrix buffer (for a user builder: as the code stands) -/
theorem readConnB_sized {v : Variant} {b : Builder} {lines : List (Option Str)}
    (hsys : v.n3 = false ∨ b.base.isUser = false)
    (hok : (readConnB v b lines).2 = .ok () ∨ v.s6 = true) : Sized (readConnB v b lines).1 := by
  rcases (readConnB_eq v b lines).2 with h | ⟨hne, h6, _⟩
  · rw [h]; exact syncSizes_sized hsys
  · rcases hok with hok | hok
    · exact absurd hok hne
    · rw [h6] at hok; cases hok

/-- after the repair N3 a user builder keeps the sizes of the system dictionary's matrix -/
theorem readConnB_user_keeps {v : Variant} {b : Builder} {lines : List (Option Str)}
    (h3 : v.n3 = true) (hu : b.base.isUser = true) :
    (readConnB v b lines).1.maxLeft = b.maxLeft ∧ (readConnB v b lines).1.maxRight = b.maxRight := by
  rcases (readConnB_eq v b lines).2 with h | ⟨_, _, h⟩
  · rw [h]; unfold syncSizes; simp [h3, hu]
  · rw [h]; exact ⟨rfl, rfl⟩

theorem runOp_conn {v : Variant} {x : Ext} {s s' : Builder × Nat} {lines : List (Option Str)}
    (h : runOp v x s (.conn lines) = .ok s') :
    (readConnB v s.1 lines).2 = .ok () ∧ s' = ((readConnB v s.1 lines).1, s.2) := by
  simp only [runOp] at h
  cases hc : readConnB v s.1 lines with
  | mk b r =>
    cases r with
    | ok u => cases u; simp only [hc, Except.ok.injEq] at h; exact ⟨rfl, h.symm⟩
    | err k l => simp [hc] at h
    | panic w => simp [hc] at h

theorem runOp_connIgn {v : Variant} {x : Ext} {s s' : Builder × Nat} {lines : List (Option Str)}
    (h : runOp v x s (.connIgn lines) = .ok s') :
    (∀ w, (readConnB v s.1 lines).2 ≠ .panic w) ∧ s' = ((readConnB v s.1 lines).1, s.2) := by
  simp only [runOp] at h
  cases hc : readConnB v s.1 lines with
  | mk b r =>
    cases r with
    | ok u => simp only [hc, Except.ok.injEq] at h; exact ⟨fun w => by simp, h.symm⟩
    | err k l => simp only [hc, Except.ok.injEq] at h; exact ⟨fun w => by simp, h.symm⟩
    | panic w => simp [hc] at h

theorem runOp_lex {v : Variant} {x : Ext} {s s' : Builder × Nat} {recs : List (Nat × List Str)} {ce : Option Nat}
    (h : runOp v x s (.lex recs ce) = .ok s') :
    ∃ b, readLex v x s.1 recs ce = .ok b ∧ s' = (b, s.2) := by
  simp only [runOp] at h
  cases hc : readLex v x s.1 recs ce with
  | err k l => simp [hc, Res.toExcept] at h
  | panic w => simp [hc, Res.toExcept] at h
  | ok b =>
    simp only [hc, Res.toExcept, Except.ok.injEq] at h
    exact ⟨b, rfl, h.symm⟩

theorem runOp_lexIgn {v : Variant} {x : Ext} {s s' : Builder × Nat} {recs : List (Nat × List Str)} {ce : Option Nat}
    (h : runOp v x s (.lexIgn recs ce) = .ok s') :
    (∀ w, (readLexB v x s.1 recs ce).2 ≠ .panic w) ∧ s' = ((readLexB v x s.1 recs ce).1, s.2) := by
  simp only [runOp] at h
  cases hc : readLexB v x s.1 recs ce with
  | mk b r =>
    cases r with
    | ok u => simp only [hc, Except.ok.injEq] at h; exact ⟨fun w => by simp, h.symm⟩
    | err k l => simp only [hc, Except.ok.injEq] at h; exact ⟨fun w => by simp, h.symm⟩
    | panic w => simp [hc] at h

theorem runOp_resolve {v : Variant} {x : Ext} {s s' : Builder × Nat}
    (h : runOp v x s .resolve = .ok s') :
    ∃ b n, resolve s.1 = .ok (b, n) ∧ s' = (b, s.2 + n) := by
  simp only [runOp] at h
  cases hc : resolve s.1 with
  | err k l => simp [hc, Res.toExcept] at h
  | panic w => simp [hc, Res.toExcept] at h
  | ok p =>
    obtain ⟨b, n⟩ := p
    simp only [hc, Res.toExcept, Except.ok.injEq] at h
    exact ⟨b, n, rfl, h.symm⟩

theorem runOps_cons {v : Variant} {x : Ext} {s s'' : Builder × Nat} {op : Op} {ops : List Op}
    (h : runOps v x s (op :: ops) = .ok s'') :
    ∃ s', runOp v x s op = .ok s' ∧ runOps v x s' ops = .ok s'' := by
  simp only [runOps] at h
  cases ho : runOp v x s op with
  | error f => simp [ho] at h
  | ok s' => simp only [ho] at h; exact ⟨s', rfl, h⟩

theorem runOps_append {v : Variant} {x : Ext} {s s'' : Builder × Nat} {ops1 ops2 : List Op}
    (h : runOps v x s (ops1 ++ ops2) = .ok s'') :
    ∃ s', runOps v x s ops1 = .ok s' ∧ runOps v x s' ops2 = .ok s'' := by
  induction ops1 generalizing s with
  | nil => exact ⟨s, rfl, h⟩
  | cons op ops ih =>
    obtain ⟨s1, h1, h2⟩ := runOps_cons (ops := ops ++ ops2) h
    obtain ⟨s', h3, h4⟩ := ih h2
    refine ⟨s', ?_, h4⟩
    simp only [runOps, h1]; exact h3

/-- no matrix was read: the matrix buffer is the empty one -/
def Untouched (b : Builder) : Prop := b.conn = Conn.empty ∧ b.connLine = []

/-- `read_conn(..)?` -/
def Op.isConn : Op → Bool
  | .conn _ => true
  | _ => false

/-- `let _ = read_conn(..)` -/
def Op.isConnIgn : Op → Bool
  | .connIgn _ => true
  | _ => false

theorem runOp_base {v : Variant} {x : Ext} {s s' : Builder × Nat} {op : Op} (h : runOp v x s op = .ok s') :
    s'.1.base = s.1.base := by
  cases op with
  | conn lines => obtain ⟨_, rfl⟩ := runOp_conn h; exact (readConnB_frame ..).1
  | connIgn lines => obtain ⟨_, rfl⟩ := runOp_connIgn h; exact (readConnB_frame ..).1
  | lex recs ce => obtain ⟨b, hb, rfl⟩ := runOp_lex h; exact (readLex_frame hb).2.2.2.1
  | lexIgn recs ce => obtain ⟨_, rfl⟩ := runOp_lexIgn h; exact (readLexB_frame ..).2.2.2.1
  | resolve => obtain ⟨b, n, hb, rfl⟩ := runOp_resolve h; exact (resolve_frame hb).2.2.2.1

theorem runOp_sized {v : Variant} {x : Ext} {s s' : Builder × Nat} {op : Op} (h : runOp v x s op = .ok s')
    (hsys : v.n3 = false ∨ s.1.base.isUser = false) (hign : v.s6 = true ∨ op.isConnIgn = false)
    (hs : op.isConn = true ∨ Sized s.1) : Sized s'.1 := by
  cases op with
  | conn lines => obtain ⟨hok, rfl⟩ := runOp_conn h; exact readConnB_sized hsys (Or.inl hok)
  | connIgn lines =>
    obtain ⟨_, rfl⟩ := runOp_connIgn h
    rcases hign with h6 | h6
    · exact readConnB_sized hsys (Or.inr h6)
    · cases h6
  | lex recs ce =>
    obtain ⟨b, hb, rfl⟩ := runOp_lex h
    obtain ⟨f1, f2, f3, _⟩ := readLex_frame hb
    rcases hs with hs | hs
    · cases hs
    · unfold Sized at hs ⊢; simp only [f1, f2, f3]; exact hs
  | lexIgn recs ce =>
    obtain ⟨_, rfl⟩ := runOp_lexIgn h
    obtain ⟨f1, f2, f3, _⟩ := readLexB_frame v x s.1 recs ce
    rcases hs with hs | hs
    · cases hs
    · unfold Sized at hs ⊢; simp only [f1, f2, f3]; exact hs
  | resolve =>
    obtain ⟨b, n, hb, rfl⟩ := runOp_resolve h
    obtain ⟨f1, f2, f3, _⟩ := resolve_frame hb
    rcases hs with hs | hs
    · cases hs
    · unfold Sized at hs ⊢; simp only [f1, f2, f3]; exact hs

/-- the sizes ids are validated against stay what they are: no `read_conn` at all, or — after the
repair N3 — a user-dictionary builder -/
theorem runOp_keeps {v : Variant} {x : Ext} {s s' : Builder × Nat} {op : Op} (h : runOp v x s op = .ok s')
    (hop : (v.n3 = true ∧ s.1.base.isUser = true) ∨ (op.isConn = false ∧ op.isConnIgn = false)) :
    s'.1.maxLeft = s.1.maxLeft ∧ s'.1.maxRight = s.1.maxRight := by
  cases op with
  | conn lines =>
    obtain ⟨_, rfl⟩ := runOp_conn h
    rcases hop with ⟨h3, hu⟩ | ⟨hc, _⟩
    · exact readConnB_user_keeps h3 hu
    · cases hc
  | connIgn lines =>
    obtain ⟨_, rfl⟩ := runOp_connIgn h
    rcases hop with ⟨h3, hu⟩ | ⟨_, hc⟩
    · exact readConnB_user_keeps h3 hu
    · cases hc
  | lex recs ce =>
    obtain ⟨b, hb, rfl⟩ := runOp_lex h
    obtain ⟨_, f2, f3, _⟩ := readLex_frame hb
    exact ⟨f2, f3⟩
  | lexIgn recs ce =>
    obtain ⟨_, rfl⟩ := runOp_lexIgn h
    obtain ⟨_, f2, f3, _⟩ := readLexB_frame v x s.1 recs ce
    exact ⟨f2, f3⟩
  | resolve =>
    obtain ⟨b, n, hb, rfl⟩ := runOp_resolve h
    obtain ⟨_, f2, f3, _⟩ := resolve_frame hb
    exact ⟨f2, f3⟩

/-- calls other than `read_conn` leave the matrix buffer alone -/
theorem runOp_buf {v : Variant} {x : Ext} {s s' : Builder × Nat} {op : Op} (h : runOp v x s op = .ok s')
    (hop : op.isConn = false ∧ op.isConnIgn = false) :
    s'.1.conn = s.1.conn ∧ s'.1.connLine = s.1.connLine := by
  cases op with
  | conn lines => cases hop.1
  | connIgn lines => cases hop.2
  | lex recs ce =>
    obtain ⟨b, hb, rfl⟩ := runOp_lex h
    obtain ⟨f1, _, _, _, f5⟩ := readLex_frame hb
    exact ⟨f1, f5⟩
  | lexIgn recs ce =>
    obtain ⟨_, rfl⟩ := runOp_lexIgn h
    obtain ⟨f1, _, _, _, f5, _⟩ := readLexB_frame v x s.1 recs ce
    exact ⟨f1, f5⟩
  | resolve =>
    obtain ⟨b, n, hb, rfl⟩ := runOp_resolve h
    obtain ⟨f1, _, _, _, _, _, _, f8⟩ := resolve_frame hb
    exact ⟨f1, f8⟩

theorem runOps_base {v : Variant} {x : Ext} {s s' : Builder × Nat} {ops : List Op}
    (h : runOps v x s ops = .ok s') : s'.1.base = s.1.base := by
  induction ops generalizing s with
  | nil => simp only [runOps, Except.ok.injEq] at h; subst h; rfl
  | cons op ops ih =>
    obtain ⟨s1, h1, h2⟩ := runOps_cons h
    rw [ih h2, runOp_base h1]

/-- once a matrix was read (or if the builder started that way) the sizes are those of the
matrix: every later `read_conn` replaces both together.  Needs: the builder is not a user builder
with the repair N3 (there the sizes are those of the system matrix on purpose), and no `Err` of a
`read_conn` was ignored unless S6 is repaired. -/
theorem runOps_sized {v : Variant} {x : Ext} {s s' : Builder × Nat} {ops : List Op}
    (h : runOps v x s ops = .ok s') (hsys : v.n3 = false ∨ s.1.base.isUser = false)
    (hign : v.s6 = true ∨ ∀ op ∈ ops, op.isConnIgn = false)
    (hs : (∃ op ∈ ops, op.isConn = true) ∨ Sized s.1) : Sized s'.1 := by
  induction ops generalizing s with
  | nil =>
    simp only [runOps, Except.ok.injEq] at h; subst h
    rcases hs with ⟨op, hm, _⟩ | hs
    · cases hm
    · exact hs
  | cons op ops ih =>
    obtain ⟨s1, h1, h2⟩ := runOps_cons h
    have hsys1 : v.n3 = false ∨ s1.1.base.isUser = false := by rw [runOp_base h1]; exact hsys
    have hign1 : v.s6 = true ∨ ∀ op ∈ ops, op.isConnIgn = false :=
      hign.imp id (fun hh op' hm => hh op' (List.mem_cons_of_mem _ hm))
    have hign0 : v.s6 = true ∨ op.isConnIgn = false := hign.imp id (fun hh => hh op List.mem_cons_self)
    cases hc : op.isConn with
    | true => exact ih h2 hsys1 hign1 (Or.inr (runOp_sized h1 hsys hign0 (Or.inl hc)))
    | false =>
      rcases hs with ⟨op', hm, hop'⟩ | hs
      · rcases List.mem_cons.1 hm with rfl | hm'
        · rw [hc] at hop'; cases hop'
        · exact ih h2 hsys1 hign1 (Or.inl ⟨op', hm', hop'⟩)
      · exact ih h2 hsys1 hign1 (Or.inr (runOp_sized h1 hsys hign0 (Or.inr hs)))

theorem runOps_keeps {v : Variant} {x : Ext} {s s' : Builder × Nat} {ops : List Op}
    (h : runOps v x s ops = .ok s')
    (hops : (v.n3 = true ∧ s.1.base.isUser = true) ∨ ∀ op ∈ ops, op.isConn = false ∧ op.isConnIgn = false) :
    s'.1.maxLeft = s.1.maxLeft ∧ s'.1.maxRight = s.1.maxRight := by
  induction ops generalizing s with
  | nil => simp only [runOps, Except.ok.injEq] at h; subst h; exact ⟨rfl, rfl⟩
  | cons op ops ih =>
    obtain ⟨s1, h1, h2⟩ := runOps_cons h
    have k1 := runOp_keeps h1 (hops.imp id (fun hh => hh op List.mem_cons_self))
    have k2 := ih h2 (by
      rcases hops with ⟨h3, hu⟩ | hh
      · left; rw [runOp_base h1]; exact ⟨h3, hu⟩
      · right; exact fun op' hm => hh op' (List.mem_cons_of_mem _ hm))
    exact ⟨k2.1.trans k1.1, k2.2.trans k1.2⟩

theorem runOps_buf {v : Variant} {x : Ext} {s s' : Builder × Nat} {ops : List Op}
    (h : runOps v x s ops = .ok s') (hops : ∀ op ∈ ops, op.isConn = false ∧ op.isConnIgn = false) :
    s'.1.conn = s.1.conn ∧ s'.1.connLine = s.1.connLine := by
  induction ops generalizing s with
  | nil => simp only [runOps, Except.ok.injEq] at h; subst h; exact ⟨rfl, rfl⟩
  | cons op ops ih =>
    obtain ⟨s1, h1, h2⟩ := runOps_cons h
    have k1 := runOp_buf h1 (hops op List.mem_cons_self)
    have k2 := ih h2 (fun op' hm => hops op' (List.mem_cons_of_mem _ hm))
    exact ⟨k2.1.trans k1.1, k2.2.trans k1.2⟩

theorem init_sized {v : Variant} {base : Base} (h1 : v.n1 = true) (hu : base.isUser = false) :
    Sized (Builder.init v base) := by
  simp [Sized, Builder.init, Base.initLeft, Base.initRight, hu, h1, Conn.empty]

theorem noConn_of_not_mem {ops : List Op}
    (hn : ∀ lines, Op.conn lines ∉ ops ∧ Op.connIgn lines ∉ ops) :
    ∀ op ∈ ops, op.isConn = false ∧ op.isConnIgn = false := by
  intro op hm
  cases op with
  | conn lines => exact absurd hm (hn lines).1
  | connIgn lines => exact absurd hm (hn lines).2
  | lex recs ce => exact ⟨rfl, rfl⟩
  | lexIgn recs ce => exact ⟨rfl, rfl⟩
  | resolve => exact ⟨rfl, rfl⟩

theorem noIgn_of_not_mem {ops : List Op} (hn : ∀ lines, Op.connIgn lines ∉ ops) :
    ∀ op ∈ ops, op.isConnIgn = false := by
  intro op hm
  cases op with
  | connIgn lines => exact absurd hm (hn lines)
  | conn lines => rfl
  | lex recs ce => rfl
  | lexIgn recs ce => rfl
  | resolve => rfl

/-- the builder `prepare` hands to `compile`: the sizes the ids are validated against.
(1) those of the matrix that is written, when a matrix was read or — after the repair N1 — from
the start, for every builder that is not a user builder with the repair N3, provided no `Err` of a
`read_conn` was ignored (or S6 is repaired);
(2) those the builder started with, when no `read_conn` was made or — after the repair N3 — for a
user builder; (3) without any `read_conn` the matrix buffer is untouched. -/
theorem prepare_conn {v : Variant} {x : Ext} {inp : Input} {b : Builder} {cnt : Nat}
    (h : prepare v x inp = .ok (b, cnt)) :
    b.base = inp.base ∧
    ((v.n3 = false ∨ inp.base.isUser = false) → (v.s6 = true ∨ ∀ lines, Op.connIgn lines ∉ inp.ops) →
      ((v.n1 = true ∧ inp.base.isUser = false) ∨ ∃ lines, Op.conn lines ∈ inp.ops) →
      b.maxLeft = b.conn.nl ∧ b.maxRight = b.conn.nr) ∧
    (((v.n3 = true ∧ inp.base.isUser = true) ∨ ∀ lines, Op.conn lines ∉ inp.ops ∧ Op.connIgn lines ∉ inp.ops) →
      b.maxLeft = inp.base.initLeft v ∧ b.maxRight = inp.base.initRight v) ∧
    ((∀ lines, Op.conn lines ∉ inp.ops ∧ Op.connIgn lines ∉ inp.ops) → b.conn = Conn.empty) := by
  unfold prepare at h
  have hb := runOps_base h
  refine ⟨hb, ?_, ?_, ?_⟩
  · intro hsys hign hc
    refine runOps_sized h hsys (hign.imp id noIgn_of_not_mem) ?_
    rcases hc with ⟨h1, hu⟩ | ⟨lines, hl⟩
    · exact Or.inr (init_sized h1 hu)
    · exact Or.inl ⟨_, hl, rfl⟩
  · intro hk
    exact runOps_keeps h (hk.imp id noConn_of_not_mem)
  · intro hn
    exact (runOps_buf h (noConn_of_not_mem hn)).1

/-! ### the content of the matrix buffer -/

/-- the result of the body loop and the line it leaves behind do not depend on the content of the
buffer; the content is the writes of this text on top of what was there -/
theorem readBody_cells (v : Variant) (c : Conn) (ls : List (Option Str)) (n : Nat) (cells : List (Nat × Int)) :
    (readBody v c ls n cells).2 = (readBody v c ls n []).2 ∧
    (readBody v c ls n cells).1.2 = (readBody v c ls n []).1.2 ∧
    (readBody v c ls n cells).1.1 = (readBody v c ls n []).1.1 ++ cells := by
  induction ls generalizing n cells with
  | nil => simp [readBody]
  | cons l ls ih =>
    cases l with
    | none => simp [readBody]
    | some l =>
      unfold readBody
      split
      · exact ih _ _
      · cases hp : (parseLine v c l).atLine (n + 1) with
        | ok w =>
          simp only []
          obtain ⟨a1, a2, a3⟩ := ih (n + 1) (w :: cells)
          obtain ⟨b1, b2, b3⟩ := ih (n + 1) [w]
          refine ⟨a1.trans b1.symm, a2.trans b2.symm, ?_⟩
          rw [a3, b3]; simp
        | err k ln => simp
        | panic w => simp

/-- S5 repaired: whether `read_conn` accepts a text, with which error it rejects it, the size of
the matrix and the line left behind do not depend on what earlier calls left in the buffer -/
theorem readConn_result_fresh {v : Variant} (h5 : v.s5 = true) (buf : ConnBuf) (lines : List (Option Str)) :
    (readConn v buf lines).2 = (readConn v ConnBuf.new lines).2 ∧
    (readConn v buf lines).1.line = (readConn v ConnBuf.new lines).1.line ∧
    ((readConn v buf lines).2 = .ok () →
      (readConn v buf lines).1.conn.nl = (readConn v ConnBuf.new lines).1.conn.nl ∧
      (readConn v buf lines).1.conn.nr = (readConn v ConnBuf.new lines).1.conn.nr ∧
      (readConn v buf lines).1.conn.bytes = (readConn v ConnBuf.new lines).1.conn.bytes) := by
  unfold readConn
  simp only [h5, ↓reduceIte]
  cases hh : readHead v lines [] 0 with
  | mk hd r =>
    cases r with
    | err k l => simp
    | panic w => simp
    | ok p =>
      obtain ⟨n, rest⟩ := p
      simp only []
      cases hp : parseHeader hd with
      | error e => simp
      | ok q =>
        obtain ⟨l, r⟩ := q
        simp only []
        split
        · simp
        · split
          · simp
          · obtain ⟨a1, a2, _⟩ := readBody_cells v ⟨l, r, l.toNat * r.toNat * 2, []⟩ rest n
              (resizeCells v buf.conn.cells (l.toNat * r.toNat))
            obtain ⟨b1, b2, _⟩ := readBody_cells v ⟨l, r, l.toNat * r.toNat * 2, []⟩ rest n
              (resizeCells v ConnBuf.new.conn.cells (l.toNat * r.toNat))
            exact ⟨a1.trans b1.symm, a2.trans b2.symm, fun _ => ⟨rfl, rfl, rfl⟩⟩

/-- S4 and S5 repaired: `read_conn` is a function of the text it reads — same result as on a new
buffer, and when it succeeds the same buffer (sizes, every cell, line) -/
theorem readConn_fresh {v : Variant} (h4 : v.s4 = true) (h5 : v.s5 = true) (buf : ConnBuf) (lines : List (Option Str)) :
    (readConn v buf lines).2 = (readConn v ConnBuf.new lines).2 ∧
    ((readConn v buf lines).2 = .ok () → (readConn v buf lines).1 = (readConn v ConnBuf.new lines).1) := by
  refine ⟨(readConn_result_fresh h5 buf lines).1, ?_⟩
  unfold readConn
  simp only [h5, ↓reduceIte, resizeCells, h4]
  cases hh : readHead v lines [] 0 with
  | mk hd r =>
    cases r with
    | err k l => simp
    | panic w => simp
    | ok p =>
      obtain ⟨n, rest⟩ := p
      simp only []
      cases hp : parseHeader hd with
      | error e => simp
      | ok q =>
        obtain ⟨l, r⟩ := q
        simp only []
        split
        · simp
        · split
          · simp
          · intro _; rfl

/-- the matrix `compile` writes is the buffer the LAST `read_conn(..)?` left, when no later call
touched it -/
theorem prepare_last_conn {v : Variant} {x : Ext} {inp : Input} {b : Builder} {cnt : Nat}
    {pre post : List Op} {lines : List (Option Str)}
    (h : prepare v x inp = .ok (b, cnt)) (hops : inp.ops = pre ++ Op.conn lines :: post)
    (hpost : ∀ op ∈ post, op.isConn = false ∧ op.isConnIgn = false) :
    ∃ buf : ConnBuf, (readConn v buf lines).2 = .ok () ∧ b.conn = (readConn v buf lines).1.conn := by
  unfold prepare at h
  rw [hops] at h
  obtain ⟨s1, _, h2⟩ := runOps_append h
  obtain ⟨s2, h3, h4⟩ := runOps_cons h2
  obtain ⟨hok, rfl⟩ := runOp_conn h3
  have hb := (runOps_buf h4 hpost).1
  simp only at hb
  refine ⟨⟨s1.1.conn, s1.1.connLine⟩, ?_, ?_⟩
  · rw [← (readConnB_eq v s1.1 lines).1]; exact hok
  · rw [hb]
    rcases (readConnB_eq v s1.1 lines).2 with he | ⟨hne, _, _⟩
    · rw [he]; exact (syncSizes_frame ..).1
    · exact absurd hok hne

/-! ### the hypotheses of the id theorems -/

/-- the connection ids are validated against the sizes of the matrix that is written: the builder
is not a user-dictionary builder with the repair N3 (there they are validated against the system
matrix, on purpose); no `Err` of a `read_conn` was ignored, or S6 is repaired; and a matrix was
read, or it is a system-dictionary builder and N1 is repaired -/
def SizesFollowMatrix (v : Variant) (inp : Input) : Prop :=
  (v.n3 = false ∨ inp.base.isUser = false) ∧ (v.s6 = true ∨ ∀ lines, Op.connIgn lines ∉ inp.ops) ∧
  ((v.n1 = true ∧ inp.base.isUser = false) ∨ ∃ lines, Op.conn lines ∈ inp.ops)

/-- the connection ids are validated against the sizes the builder started with (for a user
dictionary: those of the system dictionary's matrix): no `read_conn` was made, or N3 is repaired
and the builder is a user-dictionary builder -/
def SizesStay (v : Variant) (inp : Input) : Prop :=
  (v.n3 = true ∧ inp.base.isUser = true) ∨ ∀ lines, Op.conn lines ∉ inp.ops ∧ Op.connIgn lines ∉ inp.ops

/-- with N1 and S6 repaired the hypothesis of `compile_valid` holds for every system dictionary -/
theorem sizesFollow_repaired (v : Variant) (inp : Input) (hn1 : v.n1 = true) (hs6 : v.s6 = true)
    (hsys : inp.base.isUser = false) : SizesFollowMatrix v inp :=
  ⟨Or.inr hsys, Or.inl hs6, Or.inl ⟨hn1, hsys⟩⟩

/-- as the code stands it holds when a matrix was read and every `Err` was propagated -/
theorem sizesFollow_pinned (v : Variant) (inp : Input) (hn3 : v.n3 = false) (lines : List (Option Str))
    (hconn : Op.conn lines ∈ inp.ops) (hplain : ∀ lines, Op.connIgn lines ∉ inp.ops) : SizesFollowMatrix v inp :=
  ⟨Or.inl hn3, Or.inr hplain, Or.inr ⟨lines, hconn⟩⟩

end Build
