import Sudachi.Model.Build
/-! # Lemmas about the dictionary-compiler model (C06) -/
namespace Build

/-! ## the sink -/

theorem exec_none_ge (steps : List Step) (pos n : Nat) (h : exec none steps pos = .ok n) : pos ≤ n := by
  induction steps generalizing pos with
  | nil => simp [exec] at h; omega
  | cons s rest ih =>
    cases s with
    | write m =>
      simp only [exec] at h
      split at h
      · exact ih pos h
      · have := ih (pos + m) h; omega
    | abort k l => simp [exec] at h
    | panic w => simp [exec] at h

/-- a sink that gives up after `k` bytes, `k` smaller than what the script writes: I/O error -/
theorem exec_fail (steps : List Step) (pos n k : Nat) (h : exec none steps pos = .ok n)
    (hpos : pos ≤ k) (hk : k < n) : exec (some k) steps pos = .err .Io 0 := by
  induction steps generalizing pos with
  | nil => simp [exec] at h; omega
  | cons s rest ih =>
    cases s with
    | write m =>
      simp only [exec] at h ⊢
      split
      · rename_i hm; simp only [hm, ↓reduceIte] at h; exact ih pos h hpos
      · rename_i hm; simp only [hm, ↓reduceIte] at h
        split
        · rfl
        · exact ih (pos + m) h (by omega)
    | abort k l => simp [exec] at h
    | panic w => simp [exec] at h

/-- a sink that accepts at least as much as the script writes behaves like the unlimited one -/
theorem exec_enough (steps : List Step) (pos n k : Nat) (h : exec none steps pos = .ok n)
    (hk : n ≤ k) : exec (some k) steps pos = .ok n := by
  induction steps generalizing pos with
  | nil => simpa [exec] using h
  | cons s rest ih =>
    cases s with
    | write m =>
      simp only [exec] at h ⊢
      split
      · rename_i hm; simp only [hm, ↓reduceIte] at h; exact ih pos h
      · rename_i hm; simp only [hm, ↓reduceIte] at h
        have := exec_none_ge rest (pos + m) n h
        split
        · omega
        · exact ih (pos + m) h
    | abort k l => simp [exec] at h
    | panic w => simp [exec] at h

/-- success with a limited sink happens only when everything fitted, and then the unlimited run
succeeds with the same length -/
theorem exec_some_ok (steps : List Step) (pos n k : Nat) (h : exec (some k) steps pos = .ok n) :
    exec none steps pos = .ok n ∧ (pos ≤ k → n ≤ k) := by
  induction steps generalizing pos with
  | nil => simp [exec] at h ⊢; omega
  | cons s rest ih =>
    cases s with
    | write m =>
      simp only [exec] at h ⊢
      split
      · rename_i hm; simp only [hm, ↓reduceIte] at h; exact ih pos h
      · rename_i hm; simp only [hm, ↓reduceIte] at h
        split at h
        · simp at h
        · have := ih (pos + m) h
          exact ⟨this.1, fun _ => this.2 (by omega)⟩
    | abort k l => simp [exec] at h
    | panic w => simp [exec] at h

/-! ## `compile` and `build` in terms of `exec` -/

theorem compile_ok_iff (v : Variant) (b : Builder) (dl tl : Nat) (limit : Option Nat) (n : Nat) (d : Dict) :
    compile v b dl tl limit = .ok (n, d) ↔
      ¬ (b.lex.unresolved > 0 ∧ (!b.resolved) = true) ∧
      validateEntries v b.maxLeft b.maxRight b.base.numSystem b.lex.entries = .ok () ∧
      exec limit (compileSteps v b dl tl) 0 = .ok n ∧
      d = ⟨b.conn, b.lex.entries, b.lex.pos, b.base.numSystem, b.maxLeft, b.maxRight⟩ := by
  unfold compile
  by_cases hc : b.lex.unresolved > 0 ∧ (!b.resolved) = true
  · simp [hc]
  · simp only [hc, ↓reduceIte, not_false_eq_true, true_and]
    cases hv : validateEntries v b.maxLeft b.maxRight b.base.numSystem b.lex.entries with
    | err k l => simp
    | panic w => simp
    | ok u =>
      cases he : exec limit (compileSteps v b dl tl) 0 with
      | err k l => simp
      | panic w => simp
      | ok m =>
        simp only [Res.ok.injEq, Prod.mk.injEq, true_and]
        constructor
        · rintro ⟨rfl, rfl⟩; exact ⟨rfl, rfl⟩
        · rintro ⟨rfl, rfl⟩; exact ⟨rfl, rfl⟩

theorem compile_sink_failure (v : Variant) (b : Builder) (dl tl n k : Nat) (d : Dict)
    (h : compile v b dl tl none = .ok (n, d)) (hk : k < n) :
    compile v b dl tl (some k) = .err .Io 0 := by
  obtain ⟨hc, hv, he, _⟩ := (compile_ok_iff ..).1 h
  unfold compile
  simp only [hc, ↓reduceIte, hv, exec_fail _ 0 n k he (Nat.zero_le _) hk]

theorem compile_sink_enough (v : Variant) (b : Builder) (dl tl n k : Nat) (d : Dict)
    (h : compile v b dl tl none = .ok (n, d)) (hk : n ≤ k) :
    compile v b dl tl (some k) = .ok (n, d) := by
  obtain ⟨hc, hv, he, hd⟩ := (compile_ok_iff ..).1 h
  exact (compile_ok_iff ..).2 ⟨hc, hv, exec_enough _ 0 n k he hk, hd⟩

theorem compile_sink_ok (v : Variant) (b : Builder) (dl tl n k : Nat) (d : Dict)
    (h : compile v b dl tl (some k) = .ok (n, d)) :
    compile v b dl tl none = .ok (n, d) ∧ n ≤ k := by
  obtain ⟨hc, hv, he, hd⟩ := (compile_ok_iff ..).1 h
  have := exec_some_ok _ 0 n k he
  exact ⟨(compile_ok_iff ..).2 ⟨hc, hv, this.1, hd⟩, this.2 (Nat.zero_le _)⟩

theorem build_ok_iff (v : Variant) (x : Ext) (inp : Input) (limit : Option Nat) (n cnt : Nat) (d : Dict) :
    build v x inp limit = .ok n cnt d ↔
      ∃ b, prepare v x inp = .ok (b, cnt) ∧ compile v b inp.descLen inp.trieLen limit = .ok (n, d) := by
  unfold build
  cases hp : prepare v x inp with
  | error f => cases f <;> simp [Fail.toOutcome]
  | ok p =>
    obtain ⟨b, c⟩ := p
    simp only [finish, Except.ok.injEq, Prod.mk.injEq]
    cases hcmp : compile v b inp.descLen inp.trieLen limit with
    | err k l => simp [hcmp]
    | panic w => simp [hcmp]
    | ok r =>
      obtain ⟨m, d'⟩ := r
      constructor
      · intro h
        injection h with h1 h2 h3
        subst h1 h2 h3
        exact ⟨b, ⟨rfl, rfl⟩, hcmp⟩
      · rintro ⟨b', ⟨hb, hc⟩, h2⟩
        subst hb hc
        rw [hcmp] at h2
        injection h2 with h2
        injection h2 with h3 h4
        subst h3 h4
        rfl

/-! ## validity of what `compile` accepts -/

/-- a word reference points to an existing entry: of the dictionary itself (system dictionary),
of the system dictionary or of the user dictionary itself (user dictionary) -/
def RefOk (d : Dict) (w : Nat) : Prop :=
  match d.numSystem with
  | none => widDic w = 0 ∧ widWord w < d.entries.length
  | some n => (widDic w = 0 ∧ widWord w < n) ∨ (widDic w = 1 ∧ widWord w < d.entries.length)

def UnitRefOk (d : Dict) : SplitUnit → Prop
  | .ref w => RefOk d w
  | .inline .. => False

/-- upper bounds of the connection ids of every entry, and `left ≥ 0` of the indexed ones -/
def IdsUpper (d : Dict) : Prop :=
  ∀ e ∈ d.entries, e.left < d.maxLeft ∧ e.right < d.maxRight

/-- the right id of an indexed entry is not negative -/
def RightNonneg (d : Dict) : Prop :=
  ∀ e ∈ d.entries, e.shouldIndex = true → 0 ≤ e.right

/-- every word reference (dictionary form, splits, word structure) points to an existing entry -/
def RefsOk (d : Dict) : Prop :=
  ∀ e ∈ d.entries,
    (e.dicForm = WID_INVALID ∨ RefOk d e.dicForm) ∧
    (∀ u ∈ e.splitsA, UnitRefOk d u) ∧ (∀ u ∈ e.splitsB, UnitRefOk d u) ∧
    (∀ w ∈ e.wordStructure, RefOk d w)

theorem validateWid_ok {raw max0 max1 : Nat} (h : validateWid raw max0 max1 = .ok ()) :
    (widDic raw = 0 ∧ widWord raw < max0) ∨ (widDic raw = 1 ∧ widWord raw < max1) := by
  unfold validateWid at h
  split at h
  · rename_i h0; split at h
    · simp at h
    · left; exact ⟨h0, by omega⟩
  · rename_i h1; split at h
    · simp at h
    · right; exact ⟨h1, by omega⟩
  · simp at h

theorem andThen_ok {r n : Res Unit} : r.andThen n = .ok () ↔ r = .ok () ∧ n = .ok () := by
  cases r <;> simp [Res.andThen]

theorem andThen_not_panic {r n : Res Unit} (hr : r.isPanic = false) (hn : n.isPanic = false) :
    (r.andThen n).isPanic = false := by
  cases r <;> simp_all [Res.andThen, Res.isPanic]

theorem validateWids_ok {max0 max1 : Nat} {ws : List Nat} (h : validateWids max0 max1 ws = .ok ()) :
    ∀ w ∈ ws, validateWid w max0 max1 = .ok () := by
  induction ws with
  | nil => simp
  | cons w ws ih =>
    simp only [validateWids, andThen_ok] at h
    intro w' hw'
    rcases List.mem_cons.1 hw' with rfl | hm
    · exact h.1
    · exact ih h.2 w' hm

theorem validateUnits_ok {max0 max1 : Nat} {us : List SplitUnit} (h : validateUnits max0 max1 us = .ok ()) :
    ∀ u ∈ us, ∃ w, u = .ref w ∧ validateWid w max0 max1 = .ok () := by
  induction us with
  | nil => simp
  | cons u us ih =>
    cases u with
    | inline s p r => simp [validateUnits] at h
    | ref w =>
      simp only [validateUnits, andThen_ok] at h
      intro u' hu'
      rcases List.mem_cons.1 hu' with rfl | hm
      · exact ⟨w, rfl, h.1⟩
      · exact ih h.2 u' hm

theorem atLine_ok {α : Type} {r : Res α} {n : Nat} {a : α} (h : r.atLine n = .ok a) : r = .ok a := by
  cases r <;> simp [Res.atLine] at h ⊢; exact h

theorem validateFrom_ok {v : Variant} {ml mr : Int} {max0 max1 : Nat} {es : List Entry} {line : Nat}
    (h : validateFrom v ml mr max0 max1 es line = .ok ()) :
    ∀ e ∈ es, validateEntry v ml mr max0 max1 e = .ok () := by
  induction es generalizing line with
  | nil => simp
  | cons e es ih =>
    simp only [validateFrom, andThen_ok] at h
    intro e' he'
    rcases List.mem_cons.1 he' with rfl | hm
    · exact atLine_ok h.1
    · exact ih h.2 e' hm

/-- what one accepted entry satisfies -/
theorem validateEntry_ok {v : Variant} {ml mr : Int} {max0 max1 : Nat} {e : Entry}
    (h : validateEntry v ml mr max0 max1 e = .ok ()) :
    e.left < ml ∧ e.right < mr ∧ (v.d3 = true → e.shouldIndex = true → 0 ≤ e.right) ∧
    (e.dicForm = WID_INVALID ∨ validateWid e.dicForm max0 max1 = .ok ()) ∧
    validateUnits max0 max1 e.splitsA = .ok () ∧ validateUnits max0 max1 e.splitsB = .ok () ∧
    validateWids max0 max1 e.wordStructure = .ok () := by
  unfold validateEntry at h
  split at h
  · simp at h
  · rename_i hl
    split at h
    · simp at h
    · rename_i hr
      simp only [andThen_ok] at h
      obtain ⟨hd, ha, hb, hw⟩ := h
      refine ⟨by omega, by omega, ?_, ?_, ha, hb, hw⟩
      · intro h3 hi
        by_cases hneg : e.right < 0
        · exact absurd (Or.inr ⟨h3, hi, hneg⟩) hr
        · omega
      · by_cases hinv : e.dicForm = WID_INVALID
        · exact Or.inl hinv
        · right; simpa [hinv] using hd

theorem refOk_of_validateWid {d : Dict} {w : Nat}
    (h : validateWid w (match d.numSystem with | none => d.entries.length | some x => x)
            (match d.numSystem with | none => 0 | some _ => d.entries.length) = .ok ()) : RefOk d w := by
  have := validateWid_ok h
  unfold RefOk
  cases hn : d.numSystem with
  | none =>
    simp only [hn] at this
    rcases this with h0 | h1
    · exact h0
    · omega
  | some x =>
    simp only [hn] at this
    exact this

/-- everything `validate_entries` guarantees about an accepted dictionary -/
theorem compile_ok_valid {v : Variant} {b : Builder} {dl tl n : Nat} {limit : Option Nat} {d : Dict}
    (h : compile v b dl tl limit = .ok (n, d)) :
    IdsUpper d ∧ (v.d3 = true → RightNonneg d) ∧ RefsOk d := by
  obtain ⟨_, hv, _, hd⟩ := (compile_ok_iff ..).1 h
  have hall : ∀ e ∈ d.entries, validateEntry v d.maxLeft d.maxRight
      (match d.numSystem with | none => d.entries.length | some x => x)
      (match d.numSystem with | none => 0 | some _ => d.entries.length) e = .ok () := by
    subst hd
    unfold validateEntries at hv
    cases hn : b.base.numSystem with
    | none => simp only [hn] at hv ⊢; exact validateFrom_ok hv
    | some x => simp only [hn] at hv ⊢; exact validateFrom_ok hv
  refine ⟨?_, ?_, ?_⟩
  · intro e he
    have := validateEntry_ok (hall e he)
    exact ⟨this.1, this.2.1⟩
  · intro h3 e he hi
    exact (validateEntry_ok (hall e he)).2.2.1 h3 hi
  · intro e he
    obtain ⟨_, _, _, hdf, ha, hb, hw⟩ := validateEntry_ok (hall e he)
    refine ⟨?_, ?_, ?_, ?_⟩
    · rcases hdf with h | h
      · exact Or.inl h
      · exact Or.inr (refOk_of_validateWid h)
    · intro u hu
      obtain ⟨w, rfl, hw'⟩ := validateUnits_ok ha u hu
      exact refOk_of_validateWid hw'
    · intro u hu
      obtain ⟨w, rfl, hw'⟩ := validateUnits_ok hb u hu
      exact refOk_of_validateWid hw'
    · intro w hw'
      exact refOk_of_validateWid (validateWids_ok hw w hw')

theorem resolve_frame {b b' : Builder} {n : Nat} (h : resolve b = .ok (b', n)) :
    b'.conn = b.conn ∧ b'.maxLeft = b.maxLeft ∧ b'.maxRight = b.maxRight ∧ b'.base = b.base ∧
    b'.lex.pos = b.lex.pos ∧ b'.lex.unresolved = b.lex.unresolved ∧ b'.resolved = true := by
  unfold resolve at h
  split at h
  · injection h with h; injection h with h1 h2; subst h1; simp
  · cases hr : resolveEntries (resolveInline (if b.base.isUser then 1 else 0) b.lex.entries b.base.sysWords) b.lex.entries 0 with
    | err k l => simp [hr] at h
    | panic w => simp [hr] at h
    | ok p =>
      obtain ⟨es, m⟩ := p
      simp only [hr] at h
      injection h with h; injection h with h1 h2; subst h1; simp

theorem toExcept_ok {α : Type} {s : Stage} {r : Res α} {a : α} : r.toExcept s = .ok a ↔ r = .ok a := by
  cases r <;> simp [Res.toExcept]

/-! ## the calls before `compile`: what each of them leaves alone -/

theorem readLex_frame {v : Variant} {x : Ext} {b b' : Builder} {recs : List (Nat × List Str)} {ce : Option Nat}
    (h : readLex v x b recs ce = .ok b') :
    b'.conn = b.conn ∧ b'.maxLeft = b.maxLeft ∧ b'.maxRight = b.maxRight ∧ b'.base = b.base := by
  unfold readLex at h
  split at h
  · split at h
    · simp at h
    · injection h with h; subst h; simp
  · simp at h
  · simp at h

theorem runOp_conn {v : Variant} {x : Ext} {s s' : Builder × Nat} {lines : List (Option Str)}
    (h : runOp v x s (.conn lines) = .ok s') :
    ∃ c, readConn v lines = .ok c ∧ s' = (setConn s.1 c, s.2) := by
  simp only [runOp] at h
  cases hc : readConn v lines with
  | err k l => simp [hc, Res.toExcept] at h
  | panic w => simp [hc, Res.toExcept] at h
  | ok c =>
    simp only [hc, Res.toExcept, Except.ok.injEq] at h
    exact ⟨c, rfl, h.symm⟩

theorem runOp_lex {v : Variant} {x : Ext} {s s' : Builder × Nat} {recs : List (Nat × List Str)} {ce : Option Nat}
    (h : runOp v x s (.lex recs ce) = .ok s') :
    ∃ b, readLex v x s.1 recs ce = .ok b ∧ s' = (b, s.2) := by
  simp only [runOp] at h
  cases hc : readLex v x s.1 recs ce with
  | err k l => simp [hc, Res.toExcept] at h
  | panic w => simp [hc, Res.toExcept] at h
  | ok b =>
    simp only [hc, Res.toExcept, Except.ok.injEq] at h
    exact ⟨b, rfl, h.symm⟩

theorem runOp_resolve {v : Variant} {x : Ext} {s s' : Builder × Nat}
    (h : runOp v x s .resolve = .ok s') :
    ∃ b n, resolve s.1 = .ok (b, n) ∧ s' = (b, s.2 + n) := by
  simp only [runOp] at h
  cases hc : resolve s.1 with
  | err k l => simp [hc, Res.toExcept] at h
  | panic w => simp [hc, Res.toExcept] at h
  | ok p =>
    obtain ⟨b, n⟩ := p
    simp only [hc, Res.toExcept, Except.ok.injEq] at h
    exact ⟨b, n, rfl, h.symm⟩

theorem runOps_cons {v : Variant} {x : Ext} {s s'' : Builder × Nat} {op : Op} {ops : List Op}
    (h : runOps v x s (op :: ops) = .ok s'') :
    ∃ s', runOp v x s op = .ok s' ∧ runOps v x s' ops = .ok s'' := by
  simp only [runOps] at h
  cases ho : runOp v x s op with
  | error f => simp [ho] at h
  | ok s' => simp only [ho] at h; exact ⟨s', rfl, h⟩

/-- the ids are validated against the sizes of the matrix that is written -/
def Sized (b : Builder) : Prop := b.maxLeft = b.conn.nl ∧ b.maxRight = b.conn.nr

/-- no matrix was read: the matrix is the empty one, the sizes are those the builder started with -/
def Untouched (b : Builder) : Prop :=
  b.conn = Conn.empty ∧ b.maxLeft = b.base.maxLeft ∧ b.maxRight = b.base.maxRight

def Op.isConn : Op → Bool
  | .conn _ => true
  | _ => false

theorem runOp_base {v : Variant} {x : Ext} {s s' : Builder × Nat} {op : Op} (h : runOp v x s op = .ok s') :
    s'.1.base = s.1.base := by
  cases op with
  | conn lines => obtain ⟨c, _, rfl⟩ := runOp_conn h; rfl
  | lex recs ce => obtain ⟨b, hb, rfl⟩ := runOp_lex h; exact (readLex_frame hb).2.2.2
  | resolve => obtain ⟨b, n, hb, rfl⟩ := runOp_resolve h; exact (resolve_frame hb).2.2.2.1

theorem runOp_sized {v : Variant} {x : Ext} {s s' : Builder × Nat} {op : Op} (h : runOp v x s op = .ok s')
    (hs : op.isConn = true ∨ Sized s.1) : Sized s'.1 := by
  cases op with
  | conn lines => obtain ⟨c, _, rfl⟩ := runOp_conn h; exact ⟨rfl, rfl⟩
  | lex recs ce =>
    obtain ⟨b, hb, rfl⟩ := runOp_lex h
    obtain ⟨f1, f2, f3, _⟩ := readLex_frame hb
    rcases hs with hs | hs
    · cases hs
    · unfold Sized at hs ⊢; simp only [f1, f2, f3]; exact hs
  | resolve =>
    obtain ⟨b, n, hb, rfl⟩ := runOp_resolve h
    obtain ⟨f1, f2, f3, _⟩ := resolve_frame hb
    rcases hs with hs | hs
    · cases hs
    · unfold Sized at hs ⊢; simp only [f1, f2, f3]; exact hs

theorem runOp_untouched {v : Variant} {x : Ext} {s s' : Builder × Nat} {op : Op} (h : runOp v x s op = .ok s')
    (hop : op.isConn = false) (hs : Untouched s.1) : Untouched s'.1 := by
  cases op with
  | conn lines => cases hop
  | lex recs ce =>
    obtain ⟨b, hb, rfl⟩ := runOp_lex h
    obtain ⟨f1, f2, f3, f4⟩ := readLex_frame hb
    unfold Untouched at hs ⊢; simp only [f1, f2, f3, f4]; exact hs
  | resolve =>
    obtain ⟨b, n, hb, rfl⟩ := runOp_resolve h
    obtain ⟨f1, f2, f3, f4, _⟩ := resolve_frame hb
    unfold Untouched at hs ⊢; simp only [f1, f2, f3, f4]; exact hs

theorem runOps_base {v : Variant} {x : Ext} {s s' : Builder × Nat} {ops : List Op}
    (h : runOps v x s ops = .ok s') : s'.1.base = s.1.base := by
  induction ops generalizing s with
  | nil => simp only [runOps, Except.ok.injEq] at h; subst h; rfl
  | cons op ops ih =>
    obtain ⟨s1, h1, h2⟩ := runOps_cons h
    rw [ih h2, runOp_base h1]

/-- once a matrix was read (or if the builder started that way) the sizes are those of the
matrix: every later `read_conn` replaces both together -/
theorem runOps_sized {v : Variant} {x : Ext} {s s' : Builder × Nat} {ops : List Op}
    (h : runOps v x s ops = .ok s') (hs : (∃ op ∈ ops, op.isConn = true) ∨ Sized s.1) : Sized s'.1 := by
  induction ops generalizing s with
  | nil =>
    simp only [runOps, Except.ok.injEq] at h; subst h
    rcases hs with ⟨op, hm, _⟩ | hs
    · cases hm
    · exact hs
  | cons op ops ih =>
    obtain ⟨s1, h1, h2⟩ := runOps_cons h
    cases hc : op.isConn with
    | true => exact ih h2 (Or.inr (runOp_sized h1 (Or.inl hc)))
    | false =>
      rcases hs with ⟨op', hm, hop'⟩ | hs
      · rcases List.mem_cons.1 hm with rfl | hm'
        · rw [hc] at hop'; cases hop'
        · exact ih h2 (Or.inl ⟨op', hm', hop'⟩)
      · exact ih h2 (Or.inr (runOp_sized h1 (Or.inr hs)))

theorem runOps_untouched {v : Variant} {x : Ext} {s s' : Builder × Nat} {ops : List Op}
    (h : runOps v x s ops = .ok s') (hops : ∀ op ∈ ops, op.isConn = false) (hs : Untouched s.1) :
    Untouched s'.1 := by
  induction ops generalizing s with
  | nil => simp only [runOps, Except.ok.injEq] at h; subst h; exact hs
  | cons op ops ih =>
    obtain ⟨s1, h1, h2⟩ := runOps_cons h
    exact ih h2 (fun op' hm => hops op' (List.mem_cons_of_mem _ hm))
      (runOp_untouched h1 (hops op List.mem_cons_self) hs)

/-- the builder `prepare` hands to `compile`: the matrix that was read last and the sizes the ids
are validated against -/
theorem prepare_conn {v : Variant} {x : Ext} {inp : Input} {b : Builder} {cnt : Nat}
    (h : prepare v x inp = .ok (b, cnt)) :
    b.base = inp.base ∧
    ((∃ lines, Op.conn lines ∈ inp.ops) → b.maxLeft = b.conn.nl ∧ b.maxRight = b.conn.nr) ∧
    ((∀ lines, Op.conn lines ∉ inp.ops) →
      b.conn = Conn.empty ∧ b.maxLeft = inp.base.maxLeft ∧ b.maxRight = inp.base.maxRight) := by
  unfold prepare at h
  have hb := runOps_base h
  refine ⟨hb, ?_, ?_⟩
  · rintro ⟨lines, hl⟩
    exact runOps_sized h (Or.inl ⟨_, hl, rfl⟩)
  · intro hn
    have hu := runOps_untouched h (fun op hm => by
      cases op with
      | conn lines => exact absurd hm (hn lines)
      | lex recs ce => rfl
      | resolve => rfl) ⟨rfl, rfl, rfl⟩
    unfold Untouched at hu
    rw [hb] at hu
    exact hu

end Build
