import Sudachi.Model.Build
/-! # Lemmas about the dictionary-compiler model (C06) -/
namespace Build

/-! ## the sink -/

theorem exec_none_ge (steps : List Step) (pos n : Nat) (h : exec none steps pos = .ok n) : pos ≤ n := by
  induction steps generalizing pos with
  | nil => simp [exec] at h; omega
  | cons s rest ih =>
    cases s with
    | write m =>
      simp only [exec] at h
      split at h
      · exact ih pos h
      · have := ih (pos + m) h; omega
    | abort k l => simp [exec] at h
    | panic w => simp [exec] at h

/-- a sink that gives up after `k` bytes, `k` smaller than what the script writes: I/O error -/
theorem exec_fail (steps : List Step) (pos n k : Nat) (h : exec none steps pos = .ok n)
    (hpos : pos ≤ k) (hk : k < n) : exec (some k) steps pos = .err .Io 0 := by
  induction steps generalizing pos with
  | nil => simp [exec] at h; omega
  | cons s rest ih =>
    cases s with
    | write m =>
      simp only [exec] at h ⊢
      split
      · rename_i hm; simp only [hm, ↓reduceIte] at h; exact ih pos h hpos
      · rename_i hm; simp only [hm, ↓reduceIte] at h
        split
        · rfl
        · exact ih (pos + m) h (by omega)
    | abort k l => simp [exec] at h
    | panic w => simp [exec] at h

/-- a sink that accepts at least as much as the script writes behaves like the unlimited one -/
theorem exec_enough (steps : List Step) (pos n k : Nat) (h : exec none steps pos = .ok n)
    (hk : n ≤ k) : exec (some k) steps pos = .ok n := by
  induction steps generalizing pos with
  | nil => simpa [exec] using h
  | cons s rest ih =>
    cases s with
    | write m =>
      simp only [exec] at h ⊢
      split
      · rename_i hm; simp only [hm, ↓reduceIte] at h; exact ih pos h
      · rename_i hm; simp only [hm, ↓reduceIte] at h
        have := exec_none_ge rest (pos + m) n h
        split
        · omega
        · exact ih (pos + m) h
    | abort k l => simp [exec] at h
    | panic w => simp [exec] at h

/-- success with a limited sink happens only when everything fitted, and then the unlimited run
succeeds with the same length -/
theorem exec_some_ok (steps : List Step) (pos n k : Nat) (h : exec (some k) steps pos = .ok n) :
    exec none steps pos = .ok n ∧ (pos ≤ k → n ≤ k) := by
  induction steps generalizing pos with
  | nil => simp [exec] at h ⊢; omega
  | cons s rest ih =>
    cases s with
    | write m =>
      simp only [exec] at h ⊢
      split
      · rename_i hm; simp only [hm, ↓reduceIte] at h; exact ih pos h
      · rename_i hm; simp only [hm, ↓reduceIte] at h
        split at h
        · simp at h
        · have := ih (pos + m) h
          exact ⟨this.1, fun _ => this.2 (by omega)⟩
    | abort k l => simp [exec] at h
    | panic w => simp [exec] at h

/-! ## `compile` and `build` in terms of `exec` -/

theorem compile_ok_iff (v : Variant) (b : Builder) (dl tl : Nat) (limit : Option Nat) (n : Nat) (d : Dict) :
    compile v b dl tl limit = .ok (n, d) ↔
      ¬ (b.lex.unresolved > 0 ∧ (!b.resolved) = true) ∧
      validateEntries v b.maxLeft b.maxRight b.base.numSystem b.lex.entries = .ok () ∧
      exec limit (compileSteps v b dl tl) 0 = .ok n ∧
      d = ⟨b.conn, b.lex.entries, b.lex.pos, b.base.numSystem, b.maxLeft, b.maxRight⟩ := by
  unfold compile
  by_cases hc : b.lex.unresolved > 0 ∧ (!b.resolved) = true
  · simp [hc]
  · simp only [hc, ↓reduceIte, not_false_eq_true, true_and]
    cases hv : validateEntries v b.maxLeft b.maxRight b.base.numSystem b.lex.entries with
    | err k l => simp
    | panic w => simp
    | ok u =>
      cases he : exec limit (compileSteps v b dl tl) 0 with
      | err k l => simp
      | panic w => simp
      | ok m =>
        simp only [Res.ok.injEq, Prod.mk.injEq, true_and]
        constructor
        · rintro ⟨rfl, rfl⟩; exact ⟨rfl, rfl⟩
        · rintro ⟨rfl, rfl⟩; exact ⟨rfl, rfl⟩

theorem compile_sink_failure (v : Variant) (b : Builder) (dl tl n k : Nat) (d : Dict)
    (h : compile v b dl tl none = .ok (n, d)) (hk : k < n) :
    compile v b dl tl (some k) = .err .Io 0 := by
  obtain ⟨hc, hv, he, _⟩ := (compile_ok_iff ..).1 h
  unfold compile
  simp only [hc, ↓reduceIte, hv, exec_fail _ 0 n k he (Nat.zero_le _) hk]

theorem compile_sink_enough (v : Variant) (b : Builder) (dl tl n k : Nat) (d : Dict)
    (h : compile v b dl tl none = .ok (n, d)) (hk : n ≤ k) :
    compile v b dl tl (some k) = .ok (n, d) := by
  obtain ⟨hc, hv, he, hd⟩ := (compile_ok_iff ..).1 h
  exact (compile_ok_iff ..).2 ⟨hc, hv, exec_enough _ 0 n k he hk, hd⟩

theorem compile_sink_ok (v : Variant) (b : Builder) (dl tl n k : Nat) (d : Dict)
    (h : compile v b dl tl (some k) = .ok (n, d)) :
    compile v b dl tl none = .ok (n, d) ∧ n ≤ k := by
  obtain ⟨hc, hv, he, hd⟩ := (compile_ok_iff ..).1 h
  have := exec_some_ok _ 0 n k he
  exact ⟨(compile_ok_iff ..).2 ⟨hc, hv, this.1, hd⟩, this.2 (Nat.zero_le _)⟩

theorem build_ok_iff (v : Variant) (x : Ext) (inp : Input) (limit : Option Nat) (n cnt : Nat) (d : Dict) :
    build v x inp limit = .ok n cnt d ↔
      ∃ b, prepare v x inp = .ok (b, cnt) ∧ compile v b inp.descLen inp.trieLen limit = .ok (n, d) := by
  unfold build
  cases hp : prepare v x inp with
  | error f => cases f <;> simp [Fail.toOutcome]
  | ok p =>
    obtain ⟨b, c⟩ := p
    simp only [finish, Except.ok.injEq, Prod.mk.injEq]
    cases hcmp : compile v b inp.descLen inp.trieLen limit with
    | err k l => simp [hcmp]
    | panic w => simp [hcmp]
    | ok r =>
      obtain ⟨m, d'⟩ := r
      constructor
      · intro h
        injection h with h1 h2 h3
        subst h1 h2 h3
        exact ⟨b, ⟨rfl, rfl⟩, hcmp⟩
      · rintro ⟨b', ⟨hb, hc⟩, h2⟩
        subst hb hc
        rw [hcmp] at h2
        injection h2 with h2
        injection h2 with h3 h4
        subst h3 h4
        rfl

/-! ## validity of what `compile` accepts -/

/-- a word reference points to an existing entry: of the dictionary itself (system dictionary),
of the system dictionary or of the user dictionary itself (user dictionary) -/
def RefOk (d : Dict) (w : Nat) : Prop :=
  match d.numSystem with
  | none => widDic w = 0 ∧ widWord w < d.entries.length
  | some n => (widDic w = 0 ∧ widWord w < n) ∨ (widDic w = 1 ∧ widWord w < d.entries.length)

def UnitRefOk (d : Dict) : SplitUnit → Prop
  | .ref w => RefOk d w
  | .inline .. => False

/-- upper bounds of the connection ids of every entry, and `left ≥ 0` of the indexed ones -/
def IdsUpper (d : Dict) : Prop :=
  ∀ e ∈ d.entries, e.left < d.maxLeft ∧ e.right < d.maxRight

/-- the right id of an indexed entry is not negative -/
def RightNonneg (d : Dict) : Prop :=
  ∀ e ∈ d.entries, e.shouldIndex = true → 0 ≤ e.right

/-- every word reference (dictionary form, splits, word structure) points to an existing entry -/
def RefsOk (d : Dict) : Prop :=
  ∀ e ∈ d.entries,
    (e.dicForm = WID_INVALID ∨ RefOk d e.dicForm) ∧
    (∀ u ∈ e.splitsA, UnitRefOk d u) ∧ (∀ u ∈ e.splitsB, UnitRefOk d u) ∧
    (∀ w ∈ e.wordStructure, RefOk d w)

theorem validateWid_ok {raw max0 max1 : Nat} (h : validateWid raw max0 max1 = .ok ()) :
    (widDic raw = 0 ∧ widWord raw < max0) ∨ (widDic raw = 1 ∧ widWord raw < max1) := by
  unfold validateWid at h
  split at h
  · rename_i h0; split at h
    · simp at h
    · left; exact ⟨h0, by omega⟩
  · rename_i h1; split at h
    · simp at h
    · right; exact ⟨h1, by omega⟩
  · simp at h

theorem andThen_ok {r n : Res Unit} : r.andThen n = .ok () ↔ r = .ok () ∧ n = .ok () := by
  cases r <;> simp [Res.andThen]

theorem andThen_not_panic {r n : Res Unit} (hr : r.isPanic = false) (hn : n.isPanic = false) :
    (r.andThen n).isPanic = false := by
  cases r <;> simp_all [Res.andThen, Res.isPanic]

theorem validateWids_ok {max0 max1 : Nat} {ws : List Nat} (h : validateWids max0 max1 ws = .ok ()) :
    ∀ w ∈ ws, validateWid w max0 max1 = .ok () := by
  induction ws with
  | nil => simp
  | cons w ws ih =>
    simp only [validateWids, andThen_ok] at h
    intro w' hw'
    rcases List.mem_cons.1 hw' with rfl | hm
    · exact h.1
    · exact ih h.2 w' hm

theorem validateUnits_ok {max0 max1 : Nat} {us : List SplitUnit} (h : validateUnits max0 max1 us = .ok ()) :
    ∀ u ∈ us, ∃ w, u = .ref w ∧ validateWid w max0 max1 = .ok () := by
  induction us with
  | nil => simp
  | cons u us ih =>
    cases u with
    | inline s p r => simp [validateUnits] at h
    | ref w =>
      simp only [validateUnits, andThen_ok] at h
      intro u' hu'
      rcases List.mem_cons.1 hu' with rfl | hm
      · exact ⟨w, rfl, h.1⟩
      · exact ih h.2 u' hm

theorem atLine_ok {α : Type} {r : Res α} {n : Nat} {a : α} (h : r.atLine n = .ok a) : r = .ok a := by
  cases r <;> simp [Res.atLine] at h ⊢; exact h

theorem validateFrom_ok {v : Variant} {ml mr : Int} {max0 max1 : Nat} {es : List Entry} {line : Nat}
    (h : validateFrom v ml mr max0 max1 es line = .ok ()) :
    ∀ e ∈ es, validateEntry v ml mr max0 max1 e = .ok () := by
  induction es generalizing line with
  | nil => simp
  | cons e es ih =>
    simp only [validateFrom, andThen_ok] at h
    intro e' he'
    rcases List.mem_cons.1 he' with rfl | hm
    · exact atLine_ok h.1
    · exact ih h.2 e' hm

/-- what one accepted entry satisfies -/
theorem validateEntry_ok {v : Variant} {ml mr : Int} {max0 max1 : Nat} {e : Entry}
    (h : validateEntry v ml mr max0 max1 e = .ok ()) :
    e.left < ml ∧ e.right < mr ∧ (v.d3 = true → e.shouldIndex = true → 0 ≤ e.right) ∧
    (e.dicForm = WID_INVALID ∨ validateWid e.dicForm max0 max1 = .ok ()) ∧
    validateUnits max0 max1 e.splitsA = .ok () ∧ validateUnits max0 max1 e.splitsB = .ok () ∧
    validateWids max0 max1 e.wordStructure = .ok () := by
  unfold validateEntry at h
  split at h
  · simp at h
  · rename_i hl
    split at h
    · simp at h
    · rename_i hr
      simp only [andThen_ok] at h
      obtain ⟨hd, ha, hb, hw⟩ := h
      refine ⟨by omega, by omega, ?_, ?_, ha, hb, hw⟩
      · intro h3 hi
        by_cases hneg : e.right < 0
        · exact absurd (Or.inr ⟨h3, hi, hneg⟩) hr
        · omega
      · by_cases hinv : e.dicForm = WID_INVALID
        · exact Or.inl hinv
        · right; simpa [hinv] using hd

theorem refOk_of_validateWid {d : Dict} {w : Nat}
    (h : validateWid w (match d.numSystem with | none => d.entries.length | some x => x)
            (match d.numSystem with | none => 0 | some _ => d.entries.length) = .ok ()) : RefOk d w := by
  have := validateWid_ok h
  unfold RefOk
  cases hn : d.numSystem with
  | none =>
    simp only [hn] at this
    rcases this with h0 | h1
    · exact h0
    · omega
  | some x =>
    simp only [hn] at this
    exact this

/-- everything `validate_entries` guarantees about an accepted dictionary -/
theorem compile_ok_valid {v : Variant} {b : Builder} {dl tl n : Nat} {limit : Option Nat} {d : Dict}
    (h : compile v b dl tl limit = .ok (n, d)) :
    IdsUpper d ∧ (v.d3 = true → RightNonneg d) ∧ RefsOk d := by
  obtain ⟨_, hv, _, hd⟩ := (compile_ok_iff ..).1 h
  have hall : ∀ e ∈ d.entries, validateEntry v d.maxLeft d.maxRight
      (match d.numSystem with | none => d.entries.length | some x => x)
      (match d.numSystem with | none => 0 | some _ => d.entries.length) e = .ok () := by
    subst hd
    unfold validateEntries at hv
    cases hn : b.base.numSystem with
    | none => simp only [hn] at hv ⊢; exact validateFrom_ok hv
    | some x => simp only [hn] at hv ⊢; exact validateFrom_ok hv
  refine ⟨?_, ?_, ?_⟩
  · intro e he
    have := validateEntry_ok (hall e he)
    exact ⟨this.1, this.2.1⟩
  · intro h3 e he hi
    exact (validateEntry_ok (hall e he)).2.2.1 h3 hi
  · intro e he
    obtain ⟨_, _, _, hdf, ha, hb, hw⟩ := validateEntry_ok (hall e he)
    refine ⟨?_, ?_, ?_, ?_⟩
    · rcases hdf with h | h
      · exact Or.inl h
      · exact Or.inr (refOk_of_validateWid h)
    · intro u hu
      obtain ⟨w, rfl, hw'⟩ := validateUnits_ok ha u hu
      exact refOk_of_validateWid hw'
    · intro u hu
      obtain ⟨w, rfl, hw'⟩ := validateUnits_ok hb u hu
      exact refOk_of_validateWid hw'
    · intro w hw'
      exact refOk_of_validateWid (validateWids_ok hw w hw')

theorem resolve_frame {b b' : Builder} {n : Nat} (h : resolve b = .ok (b', n)) :
    b'.conn = b.conn ∧ b'.maxLeft = b.maxLeft ∧ b'.maxRight = b.maxRight ∧ b'.base = b.base ∧
    b'.lex.pos = b.lex.pos ∧ b'.lex.unresolved = b.lex.unresolved ∧ b'.resolved = true := by
  unfold resolve at h
  split at h
  · injection h with h; injection h with h1 h2; subst h1; simp
  · cases hr : resolveEntries (resolveInline (if b.base.isUser then 1 else 0) b.lex.entries b.base.sysWords) b.lex.entries 0 with
    | err k l => simp [hr] at h
    | panic w => simp [hr] at h
    | ok p =>
      obtain ⟨es, m⟩ := p
      simp only [hr] at h
      injection h with h; injection h with h1 h2; subst h1; simp

theorem toExcept_ok {α : Type} {s : Stage} {r : Res α} {a : α} : r.toExcept s = .ok a ↔ r = .ok a := by
  cases r <;> simp [Res.toExcept]

theorem prepare_ok_iff {v : Variant} {x : Ext} {inp : Input} {p : Builder × Nat} :
    prepare v x inp = .ok p ↔
      ∃ c st, readConnOpt v inp.conn = .ok c ∧ readLex v x inp = .ok st ∧
        resolveOpt inp.doResolve (mkBuilder inp c st) = .ok p := by
  unfold prepare
  cases hc : readConnOpt v inp.conn with
  | err k l => simp [Res.toExcept]
  | panic w => simp [Res.toExcept]
  | ok c =>
    cases hl : readLex v x inp with
    | err k l => simp [Res.toExcept]
    | panic w => simp [Res.toExcept]
    | ok st =>
      simp only [Res.toExcept, Res.ok.injEq, exists_and_left, exists_eq_left']
      exact toExcept_ok

theorem resolveOpt_frame {r : Bool} {b b' : Builder} {n : Nat} (h : resolveOpt r b = .ok (b', n)) :
    b'.conn = b.conn ∧ b'.maxLeft = b.maxLeft ∧ b'.maxRight = b.maxRight ∧ b'.base = b.base ∧
    b'.lex.pos = b.lex.pos ∧ b'.lex.unresolved = b.lex.unresolved := by
  unfold resolveOpt at h
  split at h
  · have := resolve_frame h; simp [this]
  · injection h with h; injection h with h1 h2; subst h1; simp

/-- the builder `prepare` hands to `compile`: the matrix that was read and the sizes the ids are
validated against -/
theorem prepare_conn {v : Variant} {x : Ext} {inp : Input} {b : Builder} {cnt : Nat}
    (h : prepare v x inp = .ok (b, cnt)) :
    b.base = inp.base ∧
    (∀ lines, inp.conn = some lines → readConn v lines = .ok b.conn ∧ b.maxLeft = b.conn.nl ∧ b.maxRight = b.conn.nr) ∧
    (inp.conn = none → b.conn = Conn.empty ∧ b.maxLeft = inp.base.maxLeft ∧ b.maxRight = inp.base.maxRight) := by
  obtain ⟨c, st, hc, _, hr⟩ := prepare_ok_iff.1 h
  obtain ⟨f1, f2, f3, f4, _, _⟩ := resolveOpt_frame hr
  simp only [mkBuilder] at f1 f2 f3 f4
  refine ⟨f4, ?_, ?_⟩
  · intro lines hl
    simp only [hl, readConnOpt] at hc
    simp only [hl, Option.isSome_some, ↓reduceIte] at f2 f3
    rw [f1]; exact ⟨hc, f2, f3⟩
  · intro hn
    simp only [hn, readConnOpt] at hc
    simp only [hn, Option.isSome_none, Bool.false_eq_true, ↓reduceIte] at f2 f3
    injection hc with hc
    rw [f1, ← hc]; exact ⟨rfl, f2, f3⟩

end Build
