import Sudachi.Model.RewriteNumericSplit
/-!
# Helper lemmas about the split stage after the numeral joiner (property C15, `joined_numeral_survives_split_modes`)

A node with at most one declared unit for the mode is kept where it is by `split_path`, whatever the rest of
the path does — on C09's nodes (`Split.splitPathGo`) and on the tokens C15 observes (`splitToks`).
-/
namespace RewriteNumericSplit
open Rewrite

/-- `split_path` keeps a node with at most one declared unit for the mode where it is, whatever the
rest of the path does (the two sides are split on their own) -/
theorem splitPathGo_keeps (cx : Split.Ctx) (m : Split.Mode) (n : Split.Node) (hn : Split.numSplits n m ≤ 1)
    (B B' : List Split.Node) (hB : Split.splitPathGo cx m B = .ok B') :
    ∀ (A A' : List Split.Node), Split.splitPathGo cx m A = .ok A' →
      Split.splitPathGo cx m (A ++ n :: B) = .ok (A' ++ n :: B') := by
  have hexp : Split.expand cx m n = .ok [n] := by simp [Split.expand, hn]
  intro A
  induction A with
  | nil =>
    intro A' hA
    simp only [Split.splitPathGo] at hA
    cases hA
    simp [Split.splitPathGo, hexp, hB]
  | cons x A ih =>
    intro A' hA
    simp only [Split.splitPathGo] at hA
    cases hx : Split.expand cx m x with
    | ok us =>
      rw [hx] at hA
      cases hr : Split.splitPathGo cx m A with
      | ok r =>
        rw [hr] at hA
        simp only [Split.Outcome.ok.injEq] at hA
        subst hA
        have h2 := ih r hr
        simp [Split.splitPathGo, hx, h2, List.append_assoc]
      | err k => rw [hr] at hA; cases hA
      | panic w => rw [hr] at hA; cases hA
    | err k => rw [hx] at hA; cases hA
    | panic w => rw [hx] at hA; cases hA

/-- the same for the tokens C15 observes -/
theorem splitToks_keeps (cx : Split.Ctx) (norms : List (List Char)) (m : Split.Mode) (n : Rewrite.Node)
    (hn : m = .C ∨ Split.numSplits (toSplit n) m ≤ 1)
    (Q : List Rewrite.Node) (tq : List Tok) (hQ : splitToks cx norms m Q = .ok tq) :
    ∀ (P : List Rewrite.Node) (tp : List Tok), splitToks cx norms m P = .ok tp →
      splitToks cx norms m (P ++ n :: Q) = .ok (tp ++ keepTok n :: tq) := by
  have hexp : (if m = .C then .ok [keepTok n] else expandTok cx norms m n) = Split.Outcome.ok [keepTok n] := by
    rcases hn with h | h
    · simp [h]
    · by_cases hc : m = .C
      · simp [hc]
      · simp [hc, expandTok, h]
  intro P
  induction P with
  | nil =>
    intro tp hP
    simp only [splitToks] at hP
    cases hP
    simp only [List.nil_append, splitToks]
    rw [hexp, hQ]
    rfl
  | cons x P ih =>
    intro tp hP
    simp only [splitToks] at hP
    cases hx : (if m = .C then .ok [keepTok x] else expandTok cx norms m x) with
    | ok us =>
      rw [hx] at hP
      cases hr : splitToks cx norms m P with
      | ok r =>
        rw [hr] at hP
        simp only [Split.Outcome.ok.injEq] at hP
        subst hP
        have h2 := ih r hr
        simp only [List.cons_append, splitToks]
        rw [hx, h2]
        simp [List.append_assoc]
      | err k => rw [hr] at hP; cases hP
      | panic w => rw [hr] at hP; cases hP
    | err k => rw [hx] at hP; cases hP
    | panic w => rw [hx] at hP; cases hP

end RewriteNumericSplit
