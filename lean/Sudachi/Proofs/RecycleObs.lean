import Sudachi.Proofs.Recycle
/-!
# The OBSERVABLE result of the last analysis is a function of (text, mode, field request)  (C10)

`ObsEq` of `Proofs/Recycle.lean` compares tokenizer states under the hypothesis "same EFFECTIVE subset".  Here:

* `World.result proj w j` = what a caller reads from result list `j`: its nodes seen through `proj` (the
  requested fields: range, word id, …) and the input buffer it shares (surface / offsets);
* `FieldsFree P proj s s'` = C11's statement as a hypothesis on the payload: the path phase
  (`resolve_best_path` loop + path rewriting + `split_path`) run with field subset `s` and with `s'` ends the same
  way and gives the same nodes seen through `proj`;
* `Covers`: after EVERY history the effective subset, closed under `InfoSubset::normalize`, contains the subset
  of a tokenizer created now with the current mode and the last request (`run_covers`) - the flag-level form of the
  design's `subset_monotone` (false without the closure: `C10.subset_monotone_counterexample`);
* `ListsOk`: every list points to an existing `InputPart`, after every history (`run_listsOk`).
-/
namespace Recycle
variable {E F : Type}

/-! ## the path phase as a function of the subset -/

def PathRes.mapP (f : E → F) : PathRes E → PathRes F
  | .nodes l => .nodes (l.map f)
  | .fail => .fail
  | .unwind => .unwind

/-- `resolve_best_path` loop, then path rewriting and `split_path`, as one function of (mode, subset, input, rows
below `size`, ids, recycled path vector) -/
def pathPhase (P : Payload E) (m : Mode) (s : Subset) (inp : Input E) (full ends : List (List E)) (ids path0 : List E) :
    PathRes E :=
  match P.pathNodes s inp full ends ids with
  | .nodes ns => P.rewritePath m s inp (path0 ++ ns)
  | .fail => .fail
  | .unwind => .unwind

/-- **C11 as a payload hypothesis**: running the path phase with subset `s` or `s'` is indistinguishable through `proj` -/
def FieldsFree (P : Payload E) (proj : E → F) (s s' : Subset) : Prop :=
  ∀ m inp full ends ids path0,
    (pathPhase P m s inp full ends ids path0).mapP proj = (pathPhase P m s' inp full ends ids path0).mapP proj

theorem FieldsFree.refl (P : Payload E) (proj : E → F) (s : Subset) : FieldsFree P proj s s :=
  fun _ _ _ _ _ _ => rfl

theorem resolve_eq_phase (P : Payload E) (t : Tok E) :
    Tok.resolveAndRewrite P t =
      (let t0 := { t with topPath := none, topPathIds := [] }
       match pathPhase P t.mode t.subset t.input.view (t.lattice.endsFull.take t.lattice.size)
          (t.lattice.ends.take t.lattice.size)
          (t.topPathIds ++ P.fillTop t.lattice.eos (t.lattice.indices.take t.lattice.size)).reverse (t.topPath.getD []) with
       | .fail => (t0, .err .other)
       | .unwind => (t0, .panic)
       | .nodes p => ({ t0 with topPath := some p }, .ok)) := by
  unfold Tok.resolveAndRewrite pathPhase
  dsimp only
  cases P.pathNodes t.subset t.input.view (t.lattice.endsFull.take t.lattice.size) (t.lattice.ends.take t.lattice.size)
    (t.topPathIds ++ P.fillTop t.lattice.eos (t.lattice.indices.take t.lattice.size)).reverse <;> rfl

/-- what a caller can observe of a finished analysis through `proj` -/
def ObsP (proj : E → F) (t t' : Tok E) : Prop :=
  t.topPath.map (List.map proj) = t'.topPath.map (List.map proj) ∧ t.input.view = t'.input.view ∧ t.mode = t'.mode

theorem resolve_subset (P : Payload E) (proj : E → F) (t : Tok E) (s' : Subset) (h : FieldsFree P proj t.subset s') :
    (Tok.resolveAndRewrite P t).2 = (Tok.resolveAndRewrite P { t with subset := s' }).2 ∧
    ObsP proj (Tok.resolveAndRewrite P t).1 (Tok.resolveAndRewrite P { t with subset := s' }).1 := by
  have hh := h t.mode t.input.view (t.lattice.endsFull.take t.lattice.size) (t.lattice.ends.take t.lattice.size)
    (t.topPathIds ++ P.fillTop t.lattice.eos (t.lattice.indices.take t.lattice.size)).reverse (t.topPath.getD [])
  rw [resolve_eq_phase, resolve_eq_phase]
  dsimp only
  revert hh
  cases pathPhase P t.mode t.subset t.input.view (t.lattice.endsFull.take t.lattice.size) (t.lattice.ends.take t.lattice.size)
      (t.topPathIds ++ P.fillTop t.lattice.eos (t.lattice.indices.take t.lattice.size)).reverse (t.topPath.getD []) <;>
    cases pathPhase P t.mode s' t.input.view (t.lattice.endsFull.take t.lattice.size) (t.lattice.ends.take t.lattice.size)
      (t.topPathIds ++ P.fillTop t.lattice.eos (t.lattice.indices.take t.lattice.size)).reverse (t.topPath.getD []) <;>
    intro hh <;> simp [PathRes.mapP] at hh <;> simp [ObsP, hh]

theorem buildLattice_subset (P : Payload E) (t : Tok E) (s' : Subset) :
    Tok.buildLattice P { t with subset := s' } =
      ({ (Tok.buildLattice P t).1 with subset := s' }, (Tok.buildLattice P t).2) := by
  unfold Tok.buildLattice
  dsimp only
  split <;> rfl

theorem buildLattice_keeps_subset (P : Payload E) (t : Tok E) : (Tok.buildLattice P t).1.subset = t.subset := by
  unfold Tok.buildLattice
  dsimp only
  split <;> rfl

/-- `build_lattice` and what follows it in `do_tokenize`, for two tokenizers that differ only in the subset -/
theorem afterBuild_subset (P : Payload E) (proj : E → F) (u : Tok E) (s' : Subset) (h : FieldsFree P proj u.subset s') :
    (match Tok.buildLattice P u with
      | (t, .ok) => Tok.resolveAndRewrite P t
      | r => r).2 =
    (match Tok.buildLattice P { u with subset := s' } with
      | (t, .ok) => Tok.resolveAndRewrite P t
      | r => r).2 ∧
    ObsP proj
      (match Tok.buildLattice P u with
        | (t, .ok) => Tok.resolveAndRewrite P t
        | r => r).1
      (match Tok.buildLattice P { u with subset := s' } with
        | (t, .ok) => Tok.resolveAndRewrite P t
        | r => r).1 := by
  have hb2 := buildLattice_subset P u s'
  have hsub := buildLattice_keeps_subset P u
  rcases hb : Tok.buildLattice P u with ⟨w, o⟩
  rw [hb] at hsub hb2
  rw [hb2]
  simp only at hsub
  cases o with
  | err e => exact ⟨rfl, rfl, rfl, rfl⟩
  | panic => exact ⟨rfl, rfl, rfl, rfl⟩
  | ok => exact resolve_subset P proj w s' (by rw [hsub]; exact h)

/-- two tokenizers that differ ONLY in the field subset: same outcome, same observable result through `proj` -/
theorem analyse_subset (v : ResetVariant) (P : Payload E) (proj : E → F) (t : Tok E) (s' : Subset) (text : List E)
    (h : FieldsFree P proj t.subset s') :
    (t.analyse v P text).2 = (Tok.analyse v P { t with subset := s' } text).2 ∧
    ObsP proj (t.analyse v P text).1 (Tok.analyse v P { t with subset := s' } text).1 := by
  unfold Tok.analyse Tok.doTokenize
  have hr : Tok.resetWith v { t with subset := s' } text = { t.resetWith v text with subset := s' } := rfl
  rw [hr]
  dsimp only
  rcases Input.prepare P (t.resetWith v text).input with ⟨i, o⟩
  cases o with
  | err e => exact ⟨rfl, rfl, rfl, rfl⟩
  | panic => exact ⟨rfl, rfl, rfl, rfl⟩
  | ok =>
    dsimp only
    split
    · exact ⟨rfl, rfl, rfl, rfl⟩
    · exact afterBuild_subset P proj { t.resetWith v text with input := i } s' h

theorem freshFor_eq (m : Mode) (req : Option Subset) :
    ({ Tok.create m with subset := (Tok.freshFor (E := E) m req).subset } : Tok E) = Tok.freshFor m req := by
  cases req <;> rfl

theorem freshFor_mode (m : Mode) (req : Option Subset) : (Tok.freshFor (E := E) m req).mode = m := by
  cases req <;> rfl

/-- **history independence of the observable result, tokenizer level** (repaired `reset`): a tokenizer in ANY
working state satisfying `Inv` versus a tokenizer created now for the same mode and the field request `req`, when
the payload cannot tell the two subsets apart through `proj` -/
theorem analyse_vs_freshFor (P : Payload E) (proj : E → F) (t : Tok E) (req : Option Subset) (text : List E)
    (hinv : Inv t) (hlen : OffsetsInRange .fix P t text)
    (hfree : FieldsFree P proj t.subset (Tok.freshFor (E := E) t.mode req).subset) :
    (t.analyse .fix P text).2 = ((Tok.freshFor t.mode req).analyse .fix P text).2 ∧
    ((t.analyse .fix P text).2 = .ok →
      ObsP proj (t.analyse .fix P text).1 ((Tok.freshFor t.mode req).analyse .fix P text).1) := by
  have h1 := analyse_congr .fix P t { Tok.create t.mode with subset := t.subset } text
    (by rw [hinv.2]; rfl) (by rw [hinv.1]; rfl) (fun h => by cases h) rfl rfl hlen
  have h2 := analyse_subset .fix P proj { Tok.create t.mode with subset := t.subset }
    (Tok.freshFor (E := E) t.mode req).subset text hfree
  have he : ({ ({ Tok.create t.mode with subset := t.subset } : Tok E) with
      subset := (Tok.freshFor (E := E) t.mode req).subset } : Tok E) = Tok.freshFor t.mode req := freshFor_eq t.mode req
  rw [he] at h2
  refine ⟨h1.1.trans h2.1, fun hok => ?_⟩
  obtain ⟨a1, a2, -, a4⟩ := h1.2 hok
  obtain ⟨b1, b2, b3⟩ := h2.2
  exact ⟨by rw [a1]; exact b1, a2.trans b2, a4.trans b3⟩

/-! ## `Covers`: the effective subset after any history contains what a new tokenizer would load -/

theorem imp_bool (a b : Bool) : (!a || b) = true ↔ (a = true → b = true) := by
  cases a <;> cases b <;> simp

theorem Subset.le_iff (a b : Subset) : Subset.le a b = true ↔
    ((a.surface = true → b.surface = true) ∧ (a.headLen = true → b.headLen = true) ∧ (a.pos = true → b.pos = true) ∧
     (a.norm = true → b.norm = true) ∧ (a.dicForm = true → b.dicForm = true) ∧ (a.reading = true → b.reading = true) ∧
     (a.splitA = true → b.splitA = true) ∧ (a.splitB = true → b.splitB = true) ∧
     (a.wordStruct = true → b.wordStruct = true) ∧ (a.syn = true → b.syn = true)) := by
  simp only [Subset.le, Bool.and_eq_true, imp_bool, and_assoc]

theorem Subset.normalize_fields (s : Subset) :
    s.normalize = ⟨s.surface || s.reading || s.norm || s.dicForm, s.headLen || s.splitA || s.splitB, s.pos, s.norm,
      s.dicForm, s.reading, s.splitA, s.splitB, s.wordStruct, s.syn⟩ := by
  obtain ⟨b0, b1, b2, b3, b4, b5, b6, b7, b8, b9⟩ := s
  cases b3 <;> cases b4 <;> cases b5 <;> cases b6 <;> cases b7 <;> simp [Subset.normalize]

/-- the subset of a tokenizer created for mode `m` and request `req` -/
def freshSubset (m : Mode) (req : Option Subset) : Subset := (Tok.freshFor (E := Unit) m req).subset

theorem freshSubset_eq (m : Mode) (req : Option Subset) : (Tok.freshFor (E := E) m req).subset = freshSubset m req := by
  cases req <;> rfl

/-- `set_mode` keeps the covering -/
theorem covers_setMode (req : Option Subset) (m1 m2 : Mode) (sub : Subset)
    (h : Subset.le (freshSubset m1 req) sub.normalize = true) :
    Subset.le (freshSubset m2 req) (sub.union (Subset.ofMode m2)).normalize = true := by
  rw [Subset.le_iff] at h ⊢
  cases req with
  | none =>
    cases m1 <;> cases m2 <;>
      simp [freshSubset, Tok.freshFor, Tok.create, Subset.all, Subset.normalize_fields, Subset.union, Subset.ofMode,
        Subset.empty] at h ⊢ <;> grind
  | some s =>
    cases m1 <;> cases m2 <;>
      simp [freshSubset, Tok.freshFor, Tok.create, Tok.setSubset, Subset.all, Subset.normalize_fields, Subset.union,
        Subset.ofMode, Subset.empty] at h ⊢ <;> grind

/-- `set_subset` establishes the covering -/
theorem covers_setSubset (m : Mode) (s : Subset) :
    Subset.le (freshSubset m (some s))
      (((s.union (Subset.ofMode m)).normalize).union (Subset.ofMode m)).normalize = true := by
  rw [Subset.le_iff]
  cases m <;>
    simp [freshSubset, Tok.freshFor, Tok.create, Tok.setSubset, Subset.all, Subset.normalize_fields, Subset.union,
      Subset.ofMode, Subset.empty] <;> grind

def Covers (w : World E) : Prop :=
  Subset.le (freshSubset w.tok.mode w.request) w.tok.subset.normalize = true

theorem Covers.init (m : Mode) : Covers (World.init (E := E) m) := by
  show Subset.le (freshSubset m none) Subset.all.normalize = true
  cases m <;> decide

theorem collect_tok_fields (w : World E) (j : Nat) :
    (w.collect j).1.tok.mode = w.tok.mode ∧ (w.collect j).1.tok.subset = w.tok.subset ∧
    (w.collect j).1.request = w.request := by
  unfold World.collect
  cases w.lists[j]? with
  | none => exact ⟨rfl, rfl, rfl⟩
  | some L =>
    dsimp only
    cases w.parts[L.part]? with
    | none => exact ⟨rfl, rfl, rfl⟩
    | some p =>
      dsimp only
      cases w.tok.topPath <;> exact ⟨rfl, rfl, rfl⟩

theorem splitInto_tok (P : Payload E) (w : World E) (i idx : Nat) (m : Mode) (j : Nat) :
    (w.splitInto P i idx m j).1.tok = w.tok ∧ (w.splitInto P i idx m j).1.request = w.request ∧
    (w.splitInto P i idx m j).1.parts = w.parts := by
  unfold World.splitInto
  split
  · exact ⟨rfl, rfl, rfl⟩
  · split
    · split
      · dsimp only
        split <;> exact ⟨rfl, rfl, rfl⟩
      · exact ⟨rfl, rfl, rfl⟩
      · exact ⟨rfl, rfl, rfl⟩
    · exact ⟨rfl, rfl, rfl⟩

theorem lookup_tok (P : Payload E) (w : World E) (j : Nat) (q : List E) (s : Subset) :
    (w.lookup P j q s).1.tok = w.tok ∧ (w.lookup P j q s).1.request = w.request ∧
    (w.lookup P j q s).1.parts.length = w.parts.length := by
  unfold World.lookup
  cases w.lists[j]? with
  | none => exact ⟨rfl, rfl, rfl⟩
  | some L =>
    dsimp only
    cases w.parts[L.part]? with
    | none => exact ⟨rfl, rfl, rfl⟩
    | some p =>
      dsimp only
      rcases Input.startBuild P { p.input.reset with original := p.input.reset.original ++ q } with ⟨i1, o1⟩
      cases o1 with
      | err e => exact ⟨rfl, rfl, by simp⟩
      | panic => exact ⟨rfl, rfl, by simp⟩
      | ok =>
        dsimp only
        rcases Input.build P i1 with ⟨i2, o2⟩
        cases o2 <;> exact ⟨rfl, rfl, by simp⟩

theorem step_covers (v : ResetVariant) (P : Payload E) (w : World E) (op : Op E) (h : Covers w) :
    Covers (w.step v P op).1 := by
  cases op with
  | setMode m => exact covers_setMode w.request w.tok.mode m w.tok.subset h
  | setSubset s => exact covers_setSubset w.tok.mode s
  | analyse text =>
    have hk := analyse_mode_subset v P w.tok text
    show Subset.le (freshSubset (w.tok.analyse v P text).1.mode w.request) (w.tok.analyse v P text).1.subset.normalize = true
    rw [hk.1, hk.2]; exact h
  | collect j =>
    have hk := collect_tok_fields w j
    show Subset.le (freshSubset (w.collect j).1.tok.mode (w.collect j).1.request) (w.collect j).1.tok.subset.normalize = true
    rw [hk.1, hk.2.1, hk.2.2]; exact h
  | newList => exact h
  | emptyClone j =>
    simp only [World.step]
    split <;> exact h
  | clear j =>
    simp only [World.step]
    split <;> exact h
  | splitInto i idx m j =>
    have hk := splitInto_tok P w i idx m j
    show Subset.le (freshSubset (w.splitInto P i idx m j).1.tok.mode (w.splitInto P i idx m j).1.request)
      (w.splitInto P i idx m j).1.tok.subset.normalize = true
    rw [hk.1, hk.2.1]; exact h
  | lookup j q =>
    have hk := lookup_tok P w j q Subset.all
    show Subset.le (freshSubset (w.lookup P j q Subset.all).1.tok.mode (w.lookup P j q Subset.all).1.request)
      (w.lookup P j q Subset.all).1.tok.subset.normalize = true
    rw [hk.1, hk.2.1]; exact h

theorem run_covers (v : ResetVariant) (ops : List (Payload E × Op E)) (w : World E) (h : Covers w) :
    Covers (w.run v ops) := by
  induction ops generalizing w with
  | nil => exact h
  | cons x rest ih =>
    obtain ⟨P, op⟩ := x
    exact ih _ (step_covers v P w op h)

/-! ## `ListsOk`: every result list points to an existing `InputPart` -/

def ListsOk (w : World E) : Prop := ∀ L ∈ w.lists, L.part < w.parts.length

theorem ListsOk.init (m : Mode) : ListsOk (World.init (E := E) m) := by
  intro L hL; cases hL

theorem listsOk_set (w : World E) (j : Nat) (L' : MList E) (parts' : List (Part E)) (h : ListsOk w)
    (hp : parts'.length = w.parts.length) (hL : L'.part < w.parts.length) :
    ∀ L ∈ w.lists.set j L', L.part < parts'.length := by
  intro L hmem
  rw [hp]
  rcases mem_set_cases _ _ _ _ hmem with h1 | h1
  · rw [h1]; exact hL
  · exact h L h1

theorem collect_listsOk (w : World E) (j : Nat) (h : ListsOk w) : ListsOk (w.collect j).1 := by
  unfold World.collect
  cases hL : w.lists[j]? with
  | none => exact h
  | some L =>
    dsimp only
    have hLp : L.part < w.parts.length := h L (mem_of_getElem?_some _ _ _ hL)
    cases hp : w.parts[L.part]? with
    | none => exact h
    | some p =>
      dsimp only
      cases w.tok.topPath with
      | none =>
        intro L' hmem
        show L'.part < (w.parts.set L.part _).length
        rw [List.length_set]; exact h L' hmem
      | some path =>
        exact listsOk_set w j _ _ h (by simp) hLp

theorem step_listsOk (v : ResetVariant) (P : Payload E) (w : World E) (op : Op E) (h : ListsOk w) :
    ListsOk (w.step v P op).1 := by
  cases op with
  | setMode m => exact h
  | setSubset s => exact h
  | analyse text => exact h
  | collect j => exact collect_listsOk w j h
  | newList =>
    intro L hmem
    show L.part < (w.parts ++ [Part.default P]).length
    rw [List.length_append]
    rcases List.mem_append.mp hmem with h1 | h1
    · have := h L h1; simp; omega
    · have : L = ⟨w.parts.length, []⟩ := by simpa using h1
      rw [this]; simp
  | emptyClone j =>
    simp only [World.step]
    cases hL : w.lists[j]? with
    | none => exact h
    | some L0 =>
      intro L hmem
      rcases List.mem_append.mp hmem with h1 | h1
      · exact h L h1
      · have : L = ⟨L0.part, []⟩ := by simpa using h1
        rw [this]; exact h L0 (mem_of_getElem?_some _ _ _ hL)
  | clear j =>
    simp only [World.step]
    cases hL : w.lists[j]? with
    | none => exact h
    | some L0 =>
      exact listsOk_set w j _ _ h rfl (h L0 (mem_of_getElem?_some _ _ _ hL))
  | splitInto i idx m j =>
    show ListsOk (w.splitInto P i idx m j).1
    unfold World.splitInto
    split
    · exact h
    · cases hLi : w.lists[i]? with
      | none => exact h
      | some Li =>
        cases hLj : w.lists[j]? with
        | none => exact h
        | some Lj =>
          dsimp only
          cases Li.nodes[idx]? with
          | none => exact h
          | some node =>
            cases w.parts[Li.part]? with
            | none => exact h
            | some p =>
              dsimp only
              split
              · exact h
              · exact listsOk_set w j _ _ h rfl (h Li (mem_of_getElem?_some _ _ _ hLi))
  | lookup j q =>
    show ListsOk (w.lookup P j q Subset.all).1
    unfold World.lookup
    cases hL : w.lists[j]? with
    | none => exact h
    | some L =>
      dsimp only
      have hLp : L.part < w.parts.length := h L (mem_of_getElem?_some _ _ _ hL)
      cases w.parts[L.part]? with
      | none => exact h
      | some p =>
        dsimp only
        rcases Input.startBuild P { p.input.reset with original := p.input.reset.original ++ q } with ⟨i1, o1⟩
        have hkeep : ∀ parts' : List (Part E), parts'.length = w.parts.length →
            ∀ L' ∈ w.lists, L'.part < parts'.length := by
          intro parts' hp L' hmem; rw [hp]; exact h L' hmem
        cases o1 with
        | err e => exact hkeep _ (by simp)
        | panic => exact hkeep _ (by simp)
        | ok =>
          dsimp only
          rcases Input.build P i1 with ⟨i2, o2⟩
          cases o2 with
          | err e => exact hkeep _ (by simp)
          | panic => exact hkeep _ (by simp)
          | ok => exact listsOk_set w j _ _ h (by simp) hLp

theorem run_listsOk (v : ResetVariant) (ops : List (Payload E × Op E)) (w : World E) (h : ListsOk w) :
    ListsOk (w.run v ops) := by
  induction ops generalizing w with
  | nil => exact h
  | cons x rest ih =>
    obtain ⟨P, op⟩ := x
    exact ih _ (step_listsOk v P w op h)

/-! ## what a caller reads from a result list -/

/-- the morphemes of list `j` seen through `proj` (the requested fields) and the input buffer they refer to -/
def World.result (proj : E → F) (w : World E) (j : Nat) : Option (List F × Input E) :=
  match w.lists[j]? with
  | none => none
  | some L =>
    match w.parts[L.part]? with
    | none => none
    | some p => some (L.nodes.map proj, p.input.view)

/-- collecting an existing path into an existing list: the list then shows exactly the tokenizer's result -/
theorem collect_result (proj : E → F) (w : World E) (j : Nat) (path : List E) (hj : j < w.lists.length)
    (hok : ListsOk w) (ht : w.tok.topPath = some path) :
    (w.collect j).2 = .ok ∧ World.result proj (w.collect j).1 j = some (path.map proj, w.tok.input.view) := by
  have hL : w.lists[j]? = some w.lists[j] := List.getElem?_eq_getElem hj
  have hp : w.lists[j].part < w.parts.length := hok _ (List.getElem_mem hj)
  have hP : w.parts[w.lists[j].part]? = some w.parts[w.lists[j].part] := List.getElem?_eq_getElem hp
  unfold World.collect World.result
  rw [hL]
  dsimp only
  rw [hP]
  dsimp only
  rw [ht]
  dsimp only
  refine ⟨rfl, ?_⟩
  rw [List.getElem?_set_self (by simpa using hj)]
  dsimp only
  rw [List.getElem?_set_self (by simpa using hp)]

/-- the world a caller would create now: a new tokenizer for (mode, request), nothing else -/
def World.fresh (m : Mode) (req : Option Subset) : World E := ⟨Tok.freshFor m req, [], [], req⟩

theorem getD_map_of_obs (proj : E → F) (p p' : Option (List E)) (h : p.map (List.map proj) = p'.map (List.map proj)) :
    (p.getD []).map proj = (p'.getD []).map proj := by
  cases p <;> cases p' <;> simp_all

/-- analyse then collect into an existing list: the list shows the tokenizer's result -/
theorem analyse_collect_result (v : ResetVariant) (proj : E → F) (P : Payload E) (w : World E) (text : List E) (j : Nat)
    (hj : j < w.lists.length) (hok : ListsOk w)
    (hpath : (w.tok.analyse v P text).1.topPath.isSome = true) :
    ((w.step v P (.analyse text)).1.collect j).2 = .ok ∧
    World.result proj ((w.step v P (.analyse text)).1.collect j).1 j =
      some (((w.tok.analyse v P text).1.topPath.getD []).map proj, (w.tok.analyse v P text).1.input.view) := by
  cases hp : (w.tok.analyse v P text).1.topPath with
  | none => rw [hp] at hpath; cases hpath
  | some path =>
    exact collect_result proj { w with tok := (w.tok.analyse v P text).1 } j path hj hok hp

/-- core of the world-level statements: when the analyses of `w.tok` and of a second tokenizer `t'` end the same way
and agree through `proj`, then collecting into ANY existing list `j` of `w` shows what collecting the second
tokenizer's result into a new list shows -/
theorem result_eq_of_obs (proj : E → F) (P : Payload E) (w : World E) (t' : Tok E) (req' : Option Subset)
    (text : List E) (j : Nat) (hj : j < w.lists.length) (hok : ListsOk w)
    (ho : (w.tok.analyse .fix P text).2 = (t'.analyse .fix P text).2)
    (hobs : (w.tok.analyse .fix P text).2 = .ok → ObsP proj (w.tok.analyse .fix P text).1 (t'.analyse .fix P text).1) :
    let a := w.step .fix P (.analyse text)
    let f : World E := ((⟨t', [], [], req'⟩ : World E).step .fix P .newList).1
    let b := f.step .fix P (.analyse text)
    a.2 = b.2 ∧
    (a.2 = .ok → (a.1.collect j).2 = .ok ∧ (b.1.collect 0).2 = .ok ∧
      World.result proj (a.1.collect j).1 j = World.result proj (b.1.collect 0).1 0) := by
  intro a f b
  refine ⟨ho, fun haok => ?_⟩
  have haok' : (w.tok.analyse .fix P text).2 = .ok := haok
  have hbok : (t'.analyse .fix P text).2 = .ok := by rw [← ho]; exact haok'
  have hpa := analyse_ok_path .fix P w.tok text rfl haok'
  have hpb := analyse_ok_path .fix P t' text rfl hbok
  have ra := analyse_collect_result .fix proj P w text j hj hok hpa
  have hokf : ListsOk f := by
    intro L hL
    have : L = ⟨0, []⟩ := by simpa [f, World.step] using hL
    rw [this]; simp [f, World.step]
  have rb := analyse_collect_result .fix proj P f text 0 (by simp [f, World.step]) hokf hpb
  obtain ⟨o1, o2, -⟩ := hobs haok'
  refine ⟨ra.1, rb.1, ?_⟩
  rw [ra.2, rb.2]
  show some (_, _) = some (_, _)
  rw [getD_map_of_obs proj _ _ o1, o2]
  rfl

end Recycle

namespace Recycle
variable {E : Type}

theorem setMode_step_mode (v : ResetVariant) (P : Payload E) (w : World E) (m : Mode) :
    (w.step v P (.setMode m)).1.tok.mode = m := rfl

/-- every exit of the Python `tokenize` leaves the tokenizer in the mode it was created with -/
theorem pyTokenize_mode (v : ResetVariant) (P : Payload E) (w : World E) (mode : Option Mode) (out : Option Nat)
    (text : List E) : (w.pyTokenize v P mode out text).1.tok.mode = w.tok.mode := by
  unfold World.pyTokenize
  cases mode with
  | some m =>
    dsimp only
    split
    · cases out <;> rfl
    · rfl
  | none =>
    dsimp only
    have ha : (w.step v P (.analyse text)).1.tok.mode = w.tok.mode := (analyse_mode_subset v P w.tok text).1
    rcases hs : w.step v P (.analyse text) with ⟨w2, o⟩
    rw [hs] at ha
    simp only at ha
    cases o with
    | err e => exact ha
    | panic => exact ha
    | ok =>
      dsimp only
      cases out with
      | none =>
        dsimp only
        exact (collect_tok_fields _ _).1.trans ha
      | some j =>
        dsimp only
        exact (collect_tok_fields _ _).1.trans ha

/-- one Python `tokenize` call IS a history of the API calls the theorems speak about -/
theorem pyTokenize_eq_run (v : ResetVariant) (P : Payload E) (w : World E) (mode : Option Mode) (out : Option Nat)
    (text : List E) :
    let w1 := match mode with
      | some m => (w.step v P (.setMode m)).1
      | none => w
    (w.pyTokenize v P mode out text).1 =
      w.run v (pyOps P w.tok.mode w.lists.length mode out text (decide ((w1.step v P (.analyse text)).2 = .ok))) := by
  intro w1
  unfold World.pyTokenize pyOps
  cases mode with
  | some m =>
    dsimp only
    have hl : ((w.step v P (.setMode m)).1.step v P (.analyse text)).1.lists.length = w.lists.length := rfl
    rcases hs : (w.step v P (.setMode m)).1.step v P (.analyse text) with ⟨w2, o⟩
    rw [hs] at hl
    simp only at hl
    cases o with
    | ok =>
      cases out with
      | none => simp [World.run, hs, hl]
      | some j => simp [World.run, hs]
    | err e => simp [World.run, hs]
    | panic => simp [World.run, hs]
  | none =>
    dsimp only
    have hl : (w.step v P (.analyse text)).1.lists.length = w.lists.length := rfl
    rcases hs : w.step v P (.analyse text) with ⟨w2, o⟩
    rw [hs] at hl
    simp only at hl
    cases o with
    | ok =>
      cases out with
      | none => simp [World.run, hs, hl]
      | some j => simp [World.run, hs]
    | err e => simp [World.run, hs]
    | panic => simp [World.run, hs]

end Recycle
